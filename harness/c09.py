"""C09 — space transforms round-trip and stay inside their bounds.

Real code: deephyper.skopt.space.{Real,Integer,Categorical,Space} (+ transformers LogN/Normalize for
the observed log/pow tables).  Lean: Model/Space.lean through Drivers/C09.lean.

L2 (correspondence)  the real `Space.transform` / `Space.inverse_transform` / `Dimension.transform` /
    `Dimension.inverse_transform` return values (and the kind of exception they raise) against the
    model, on generated spaces and points (members, arbitrary transformed points, a malformed
    stream).  `log`/`pow` are parameters of the model: the harness passes the values NumPy
    produced (`L` table: exact lookup, `E` table: nearest key, the distance is checked).  Columns
    whose float computation is a single correctly rounded operation of exact operands (identity,
    label, one-hot, integer/categorical normalize, everything after the final clip/round) are
    compared exactly; real normalize and log-normalize transforms within 4 ulp.
L3 (oracle on the real code)  rows preserved, exact round trip for integers/categories, round trip
    within floating-point rounding for reals, every round-tripped point a member (Lean `memRow`),
    shape == (len(X), transformed_n_dims), every coordinate inside `transformed_bounds` (one pair per coordinate);
    the object the caller handed over is unchanged after transform / inverse_transform and the values returned do not
    depend on the container (list, tuple, ndarray of any layout) the points were held in.
Histories on ONE Space object (every way a transformer is replaced, dimension-level ones and normalize_dimensions
    included) are compared step by step with the state machine of Model/SpaceObject.lean.
"""
import json
import math
from fractions import Fraction
from pathlib import Path

import numpy as np

from . import common
from .common import rat, unrat

TWO40 = 2 ** 40
U = 2.0 ** -52


# --------------------------------------------------------------------------- specs <-> real objects


def mk_dim(s):
    from deephyper.skopt.space import Categorical, Integer, Real

    if s["k"] == "real":
        return Real(s["lo"], s["hi"], prior=s["prior"], base=s.get("base", 10), transform=s["tr"])
    if s["k"] == "int":
        return Integer(s["lo"], s["hi"], prior=s["prior"], base=s.get("base", 10), transform=s["tr"])
    return Categorical(list(s["cats"]), transform=s["tr"])


def tag(v):
    """Python / NumPy scalar -> wire value (kind + exact value)"""
    if isinstance(v, (bool, np.bool_)):
        return {"t": "b", "v": bool(v)}
    if isinstance(v, (int, np.integer)):
        return {"t": "i", "v": int(v)}
    if isinstance(v, (float, np.floating)):
        f = float(v)
        if not math.isfinite(f):
            return {"t": "s", "v": "<non-finite float %r>" % f}  # never a member, never equal
        return {"t": "f", "v": rat(f)}
    if isinstance(v, str):
        return {"t": "s", "v": str(v)}
    return {"t": "s", "v": "<%s %r>" % (type(v).__name__, v)}


def untag(t):
    if t["t"] == "f":
        return float(unrat(t["v"]))
    return t["v"]


def wire_dim(s):
    if s["k"] == "cat":
        return {"k": "cat", "cats": [tag(c) for c in s["cats"]], "tr": s["tr"]}
    if s["k"] == "real":
        return {"k": "real", "lo": rat(float(s["lo"])), "hi": rat(float(s["hi"])), "prior": s["prior"], "tr": s["tr"]}
    return {"k": "int", "lo": int(s["lo"]), "hi": int(s["hi"]), "prior": s["prior"], "tr": s["tr"]}


def is_log(s):
    return s["k"] != "cat" and s["prior"] == "log-uniform"


def cat_type(s):
    c = s["cats"][0]
    return "bool" if isinstance(c, bool) else "int" if isinstance(c, int) else "float" if isinstance(c, float) else "str"


def dimsig(s):
    if s["k"] == "cat":
        return f"cat[{cat_type(s)}]/{s['tr']}"
    sig = f"{s['k']}/{s['prior']}/{s['tr']}"
    if s["k"] == "int" and s["prior"] == "log-uniform":
        sig += ",high>2^40" if s["hi"] > TWO40 else ",high<=2^40"
    elif s["k"] == "int":
        m = max(abs(s["lo"]), abs(s["hi"]))
        if s["hi"] > 2 ** 63 - 1 or s["lo"] < -(2 ** 63):
            sig += ",|bound|>=2^63"
        elif m > 2 ** 53:
            sig += ",|bound|>2^53"
    return sig


def tsize(s):
    if s["k"] == "cat" and s["tr"] == "onehot":
        n = len(s["cats"])
        return 1 if n == 2 else n
    return 1


# --------------------------------------------------------------------------- observed log / pow


def l_scalar(x, base):
    # the expression of Real/Integer.set_transformer / transformed_bounds
    return float(np.log10(x) / np.log10(base))


def l_table(specs, X):
    """values of np.log10(x)/np.log10(base) the code computes for bounds and column entries"""
    from deephyper.skopt.space.transformers import LogN

    tab = {}
    for j, s in enumerate(specs):
        if not is_log(s):
            continue
        base = s.get("base", 10)
        for b in (s["lo"], s["hi"]):
            tab[Fraction(b)] = l_scalar(b, base)
        col = [r[j] for r in X if j < len(r) and isinstance(r[j], (int, float)) and not isinstance(r[j], bool)]
        col = [c for c in col if c > 0]
        if col:
            with np.errstate(all="ignore"):
                vals = LogN(base).transform(col)
            for c, v in zip(col, vals):
                tab[Fraction(c)] = float(v)
    return [[rat(k), rat(v)] for k, v in tab.items() if math.isfinite(v)]


def e_table(specs, Xt):
    """(key, base ** key) for every float the code feeds to LogN.inverse_transform when it inverts Xt"""
    from deephyper.skopt.space.transformers import LogN, Normalize

    tab = []
    start = 0
    Xt = np.asarray(Xt, dtype=float)
    for s in specs:
        w = tsize(s)
        if is_log(s) and Xt.ndim == 2 and Xt.shape[1] > start and len(Xt):
            base = s.get("base", 10)
            col = Xt[:, start]
            try:
                if s["tr"] == "normalize":
                    keys = Normalize(l_scalar(s["lo"], base), l_scalar(s["hi"], base)).inverse_transform(col)
                else:
                    keys = col
                with np.errstate(all="ignore"):
                    vals = LogN(base).inverse_transform(keys)
                for k, v in zip(np.asarray(keys, dtype=float).tolist(), np.asarray(vals, dtype=float).tolist()):
                    if math.isfinite(k) and math.isfinite(v):
                        tab.append([rat(k), rat(v)])
            except ValueError:
                pass  # Normalize rejected the column: the model raises too, no pow is evaluated
        start += w
    return tab


# --------------------------------------------------------------------------- tolerances


def rt_tolerance(s, x):
    """|x' - x| allowed for a real value ("to within floating-point rounding")"""
    if s["prior"] == "uniform":
        if s["tr"] == "identity":
            return 0.0
        return 4 * math.ulp(max(abs(s["lo"]), abs(s["hi"])))
    base = s.get("base", 10)
    # x' = base ** (log_base x (1+d1) ...): a relative error d in the exponent t is a relative error
    # ln(base)*|t|*d in x'; normalize adds an absolute error of a few ulp of the exponent range
    span = abs(l_scalar(s["lo"], base)) + abs(l_scalar(s["hi"], base))
    return abs(x) * U * (8 + 8 * math.log(base) * span)


def close_t(real, exact, scale_floor=0.0):
    """4 ulp (relative to the value; a denormal slack) for a normalize / log-normalize coordinate"""
    real = Fraction(real)
    return abs(real - exact) <= 4 * Fraction(U) * max(abs(exact), Fraction(scale_floor)) + Fraction(5e-324) * 4


# --------------------------------------------------------------------------- generators


def _real_bounds(rng, prior):
    fam = rng.choice(["unit", "pow", "neg", "mag", "awkward", "rand"])
    if fam == "unit":
        lo, hi = rng.choice([(0.0, 1.0), (0.5, 1.5), (1.0, 32.0), (1e-3, 1.0), (1.0, 2.0)])
    elif fam == "pow":
        b = rng.choice([10.0, 2.0])
        a, c = sorted(rng.sample(range(-12, 13), 2))
        lo, hi = b ** a, b ** c
    elif fam == "neg":
        hi = rng.choice([-1.0, 0.0, 2.5, -0.001])
        lo = hi - rng.choice([1.0, 1e-3, 7.25, 1e6])
    elif fam == "mag":
        a, c = sorted(rng.sample(range(-300, 301), 2))
        lo, hi = rng.uniform(1, 9.99) * 10.0 ** a, rng.uniform(1, 9.99) * 10.0 ** c
        if rng.random() < 0.3 and prior == "uniform":
            lo = -lo
    elif fam == "awkward":
        lo, hi = rng.choice([(3e-5, 7e3), (1.0, 1000.0), (0.1, 0.7), (1e-10, 1e10), (1e-300, 1e300), (5e-324 * 2 ** 60, 3.0)])
    else:
        lo = rng.uniform(-100, 100)
        hi = lo + rng.uniform(0.001, 1000)
    if prior == "log-uniform" and lo <= 0:
        lo, hi = abs(hi) + 1e-3, abs(hi) + 1e-3 + abs(lo) + 1.0
    if not lo < hi:
        lo, hi = min(lo, hi), max(lo, hi) + 1.0
    return float(lo), float(hi)


def _int_bounds(rng, prior):
    fam = rng.choice(["small", "neg", "big", "pow", "rand"])
    if fam == "small":
        lo = rng.randint(0, 3)
        hi = lo + rng.randint(1, 9)
    elif fam == "neg":
        lo = -rng.randint(1, 1000)
        hi = lo + rng.randint(1, 2000)
    elif fam == "big":
        lo = rng.choice([1, 2, 1000, 2 ** 20, -(2 ** 39)])
        hi = rng.choice([2 ** 31, 2 ** 40, 2 ** 40 - 1, 10 ** 12, 2 ** 33 + 7])
    elif fam == "pow":
        b = rng.choice([2, 10])
        a, c = sorted(rng.sample(range(0, 12 if b == 10 else 40), 2))
        lo, hi = b ** a, b ** c
    else:
        lo = rng.randint(-10 ** 6, 10 ** 6)
        hi = lo + rng.randint(1, 10 ** 9)
    if prior == "log-uniform" and lo <= 0:
        lo, hi = 1, abs(hi) + 2
    return int(lo), int(hi)


_WORDS = ["a", "b", "c", "relu", "tanh", "B", "aa", "é", "adam", "sgd", "x1", "x10", "x2", "", " ", "zeta", "Z"]


def _cats(rng):
    ty = rng.choice(["str", "str", "int", "float", "bool"])
    n = rng.choice([1, 2, 2, 3, 3, 4, 5, 8])
    if ty == "str":
        return rng.sample(_WORDS, min(n, len(_WORDS)))
    if ty == "int":
        return rng.sample(range(-20, 60), n) if rng.random() < 0.7 else rng.sample([2 ** k for k in range(12)], n)
    if ty == "float":
        return rng.sample([0.1, 0.25, 0.5, 1.5, 2.5, -3.75, 1e-3, 1e6, 0.3, 7.0], n)
    return rng.sample([True, False], min(n, 2))


def gen_dim(rng, base=10):
    """base: the log base of every log-uniform dimension of the case (the model has one L, E pair)"""
    k = rng.choice(["real", "real", "int", "int", "cat", "cat"])
    if k == "cat":
        cats = _cats(rng)
        trs = ["label", "onehot", "normalize"]
        if isinstance(cats[0], (int, float)) and not isinstance(cats[0], bool):
            trs += ["identity", "identity"]
        return {"k": "cat", "cats": cats, "tr": rng.choice(trs)}
    prior = rng.choice(["uniform", "log-uniform"])
    tr = rng.choice(["identity", "normalize"])
    lo, hi = _real_bounds(rng, prior) if k == "real" else _int_bounds(rng, prior)
    s = {"k": k, "lo": lo, "hi": hi, "prior": prior, "tr": tr}
    if prior == "log-uniform" and base != 10:
        s["base"] = base
    return s


def gen_point(rng, s):
    """a member of the dimension: on / next to the bounds or inside"""
    if s["k"] == "cat":
        return rng.choice(s["cats"])
    lo, hi = s["lo"], s["hi"]
    w = rng.random()
    if s["k"] == "int":
        if w < 0.2:
            return lo
        if w < 0.4:
            return hi
        if w < 0.5:
            return min(lo + 1, hi)
        if w < 0.6:
            return max(hi - 1, lo)
        if s["prior"] == "log-uniform":
            return int(min(hi, max(lo, round(math.exp(rng.uniform(math.log(lo), math.log(hi)))))))
        return rng.randint(lo, hi)
    if w < 0.18:
        return lo
    if w < 0.36:
        return hi
    if w < 0.46:
        return float(np.nextafter(lo, np.inf))
    if w < 0.56:
        return float(np.nextafter(hi, -np.inf))
    if s["prior"] == "log-uniform":
        x = math.exp(rng.uniform(math.log(lo), math.log(hi)))
    else:
        x = lo + rng.random() * (hi - lo) if math.isfinite(hi - lo) else rng.choice([lo, hi])
    return float(min(hi, max(lo, x)))


def gen_tpoint(rng, s, base_l):
    """an arbitrary point of the transformed space of dimension s (a list of `tsize` floats)"""
    if s["k"] == "cat":
        n = len(s["cats"])
        if s["tr"] == "onehot":
            if n == 1:
                return [rng.choice([0.0, 1.0, 0.3])]
            if n == 2:
                return [rng.choice([0.0, 1.0, 0.5, 0.49, 0.51, rng.random()])]
            return [rng.choice([0.0, 0.5, 1.0, rng.random()]) for _ in range(n)]
        if s["tr"] == "label":
            return [rng.choice([0.0, float(n - 1), rng.uniform(0, n - 1), rng.randint(0, n - 1) + 0.0])]
        if s["tr"] == "normalize":
            k = rng.randint(0, n - 1)
            d = rng.uniform(-0.4, 0.4)
            t = 0.0 if n == 1 else min(1.0, max(0.0, (k + d) / (n - 1)))
            return [t]
        return [float(rng.choice(s["cats"]))]
    lo, hi = s["lo"], s["hi"]
    if s["tr"] == "normalize":
        if s["k"] == "int" and s["prior"] == "uniform":
            k = rng.randint(lo, hi)
            d = rng.choice([0.0, rng.uniform(-0.4, 0.4)])
            return [min(1.0, max(0.0, (k + d - lo) / (hi - lo)))]
        return [rng.choice([0.0, 1.0, float(np.nextafter(1.0, 0.0)), float(np.nextafter(0.0, 1.0)), rng.random(), rng.random()])]
    if s["prior"] == "uniform":
        if s["k"] == "int":
            return [min(float(hi), max(float(lo), rng.choice([float(lo), float(hi), rng.randint(lo, hi) + rng.choice([0.0, 0.5, 0.25, -0.5])])))]
        return [rng.choice([lo, hi, gen_point(rng, s)])]
    a, b = base_l(s["lo"]), base_l(s["hi"])
    return [rng.choice([a, b, float(np.nextafter(b, a)), float(np.nextafter(a, b)), rng.uniform(a, b)])]


_HUGE = [2 ** 53 + 1, 2 ** 54 + 2, 2 ** 60 + 3, 2 ** 61 + 1, 2 ** 62 + 12345, 2 ** 63 - 1]


def gen_allint_case(rng):
    """spaces whose transformed matrix is integer-typed (uniform/identity Integer, int Categorical): the property demands
    exact round trips at huge magnitudes, and here no double is involved: up to +-(2**63 - 1) for Integer (np.int64),
    any Python int for categories of an all-categorical space (object / index arrays)"""
    nd = rng.choice([1, 1, 2, 3])
    bigcat = rng.random() < 0.25  # categories beyond int64: only all-categorical spaces
    dims = []
    for _ in range(nd):
        if bigcat or rng.random() < 0.35:
            pool = _HUGE + [-(2 ** 62) - 3, -(2 ** 63 - 1), 0, 5, 7, -1] + ([2 ** 70, 2 ** 64 + 1, -(2 ** 65), 10 ** 30] if bigcat else [])
            # label encoding of a list NumPy can only hold as an object array (ints beyond int64) numbers the categories in
            # declaration order instead of np.unique order: not modelled, such lists get identity / one-hot only
            dims.append({"k": "cat", "cats": rng.sample(pool, rng.choice([1, 2, 3, 5])),
                         "tr": rng.choice(["identity", "onehot"] if bigcat else ["identity", "label", "onehot"])})
        else:
            fam = rng.choice(["pos", "sym", "narrow"])
            if fam == "pos":
                lo, hi = rng.choice([0, 1, 2 ** 53 - 5, 17]), rng.choice(_HUGE)
            elif fam == "sym":
                hi = rng.choice(_HUGE)
                lo = rng.choice([-hi, -(2 ** 63 - 1), -(2 ** 63)])
            else:
                hi = rng.choice(_HUGE)
                lo = hi - rng.choice([1, 2, 1000])
            dims.append({"k": "int", "lo": lo, "hi": hi, "prior": "uniform", "tr": "identity"})
    m = rng.choice([1, 2, 3, 6])
    X = []
    for _ in range(m):
        row = []
        for s in dims:
            if s["k"] == "cat":
                row.append(rng.choice(s["cats"]))
            else:
                c = [s["lo"], s["hi"], s["hi"] - 1, s["lo"] + 1, rng.randint(s["lo"], s["hi"])] + [v for v in _HUGE if s["lo"] <= v <= s["hi"]]
                row.append(rng.choice(c))
        X.append(row)
    return {"dims": dims, "X": X}


def gen_space_case(rng, maxdims=8, maxrows=50):
    nd = rng.choice([1, 1, 2, 2, 3, 4, 5, 6, 8][: max(1, maxdims)])
    base = 2 if rng.random() < 0.2 else 10
    dims = [gen_dim(rng, base) for _ in range(nd)]
    m = rng.choice([1, 1, 2, 3, 5, 8, 13, 21, 34, 50])
    m = min(m, maxrows)
    X = [[gen_point(rng, s) for s in dims] for _ in range(m)]
    return {"dims": dims, "X": X}


# --------------------------------------------------------------------------- running the real code


class Out:
    """result of one call of the real code: a value or the exception it raised"""

    def __init__(self, f):
        self.exc = None
        self.val = None
        try:
            with np.errstate(all="ignore"):
                self.val = f()
        except Exception as e:  # noqa: BLE001 - every exception is an observable result here
            self.exc = e

    @property
    def kind(self):
        e = self.exc
        for name, cls in (("KeyError", KeyError), ("IndexError", IndexError), ("ValueError", ValueError),
                          ("TypeError", TypeError), ("AssertionError", AssertionError)):
            if isinstance(e, cls):
                return name
        return type(e).__name__


def real_space_run(case, space=None, prequery=False):
    """space: an existing Space object (with a history of set_transformer calls) whose transformers in force are
    those of case["dims"]; None: a fresh object.  prequery: read the size/bounds properties before transforming."""
    from deephyper.skopt.space import Space

    specs, X = case["dims"], case["X"]
    built = Out(lambda: Space([mk_dim(s) for s in specs]) if space is None else space)
    if built.exc is not None:
        return {"space": None, "built": built}
    sp = built.val
    if prequery:
        Out(lambda: (sp.transformed_n_dims, sp.transformed_bounds, [dm.transformed_size for dm in sp.dimensions]))
    t = Out(lambda: sp.transform([list(r) for r in X]))
    res = {"space": sp, "built": built, "t": t, "inv": None}
    if t.exc is None:
        Xt = np.asarray(t.val)
        res["inv"] = Out(lambda: sp.inverse_transform(Xt))
        res["tn"] = Out(lambda: (sp.transformed_n_dims, [tuple(map(exact_num, b)) for b in sp.transformed_bounds]))
    return res


def exact_num(v):
    """a matrix entry / bound as an exact Python number: integers stay integers (an all-integer space gives an int64
    or object matrix: values above 2**53 must not go through a double)"""
    if isinstance(v, (bool, np.bool_)):
        return int(v)
    if isinstance(v, (int, np.integer)):
        return int(v)
    return float(v)


def matrix_rows(Xt):
    """rows of exact Python numbers of what Space.transform returned"""
    a = np.asarray(Xt)
    if a.dtype.kind in "iubO":
        return [[exact_num(v) for v in row] for row in a.tolist()]
    return np.asarray(a, dtype=float).tolist()


def rows_of_matrix(Xt):
    return [[rat(v) for v in row] for row in matrix_rows(Xt)]


# --------------------------------------------------------------------------- oracle (L3) on one case


def member_py(s, v):
    """the property's membership, stated directly (kind and bounds); cross-checked with Lean memRow"""
    if s["k"] == "real":
        return isinstance(v, (float, np.floating)) and not isinstance(v, bool) and s["lo"] <= v <= s["hi"]
    if s["k"] == "int":
        return isinstance(v, (int, np.integer)) and not isinstance(v, (bool, np.bool_)) and s["lo"] <= v <= s["hi"]
    return any(tag(v) == tag(c) for c in s["cats"])


def oracle(case, run=None):
    """failures of the property on the real code for this case: list of (clause, api, dim index or None, detail)"""
    specs, X = case["dims"], case["X"]
    r = run or real_space_run(case)
    fails = []
    if r["space"] is None:
        return [("raises:" + r["built"].kind, "Space", None, repr(r["built"].exc))]
    t = r["t"]
    if t.exc is not None:
        return [("raises:" + t.kind, "Space.transform", None, repr(t.exc))]
    Xt = np.asarray(t.val)
    tn = r["tn"].val
    if r["tn"].exc is not None:
        fails.append(("raises:" + r["tn"].kind, "Space.transformed_bounds", None, repr(r["tn"].exc)))
    else:
        ntd, tb = tn
        if Xt.shape != (len(X), ntd):
            fails.append(("shape", "Space.transform", None, {"shape": list(Xt.shape), "expected": [len(X), ntd]}))
        elif len(tb) != ntd:
            # "every coordinate inside transformed_bounds" needs one (low, high) pair per coordinate
            fails.append(("bounds", "Space.transformed_bounds", None,
                          {"pairs": len(tb), "transformed_n_dims": ntd, "columns_of_transform": int(Xt.shape[1])}))
        else:
            # which dimension owns which column
            owner = [j for j, s in enumerate(specs) for _ in range(tsize(s))]
            for i, row in enumerate(Xt.tolist()):
                for c, v in enumerate(row):
                    lo, hi = tb[c]
                    if not (lo <= v <= hi):
                        fails.append(("bounds", "Space.transform", owner[c] if c < len(owner) else None,
                                      {"row": i, "col": c, "value": v, "bounds": [lo, hi]}))
                        break
    inv = r["inv"]
    if inv.exc is not None:
        fails.append(("raises:" + inv.kind, "Space.inverse_transform", None, repr(inv.exc)))
        return fails
    Xr = inv.val
    if len(Xr) != len(X):
        fails.append(("rows", "Space.inverse_transform", None, {"rows_in": len(X), "rows_out": len(Xr)}))
        return fails
    for i, (row, back) in enumerate(zip(X, Xr)):
        if len(back) != len(row):
            fails.append(("rows", "Space.inverse_transform", None, {"row": i, "len_in": len(row), "len_out": len(back)}))
            continue
        for j, (x, y, s) in enumerate(zip(row, back, specs)):
            api = {"real": "Real", "int": "Integer", "cat": "Categorical"}[s["k"]] + ".inverse_transform"
            if s["k"] == "real":
                ok = isinstance(y, (float, np.floating)) and math.isfinite(y) and abs(float(y) - x) <= rt_tolerance(s, x)
                if not ok:
                    fails.append(("roundtrip-tol", api, j, {"row": i, "x": x, "back": repr(y), "tol": rt_tolerance(s, x)}))
            else:
                if tag(y) != tag(x):
                    fails.append(("roundtrip-exact", api, j, {"row": i, "x": repr(x), "back": repr(y)}))
            if not member_py(s, y):
                fails.append(("member", api, j, {"row": i, "x": repr(x), "back": repr(y)}))
        if all(member_py(s, y) for s, y in zip(specs, back)):
            c = Out(lambda: list(back) in r["space"] and all(y in dm for y, dm in zip(back, r["space"].dimensions)))
            if c.exc is not None or not c.val:
                fails.append(("member-contains", "Space.__contains__", None, {"row": i, "back": repr(back), "result": repr(c.exc or c.val)}))
    return fails


def single_dim_case(case, j, rows=None):
    X = case["X"] if rows is None else [case["X"][i] for i in rows]
    return {"dims": [case["dims"][j]], "X": [[r[j]] for r in X]}


def _shrink_rows(case, pred):
    n = len(case["X"])
    for rows in [[i] for i in range(n)] + [[i, k] for i in range(n) for k in range(i + 1, min(n, i + 3))]:
        sub = {"dims": case["dims"], "X": [case["X"][i] for i in rows]}
        if pred(oracle(sub)):
            return sub
    return case


def report(ck, case, fails):
    """turn oracle failures into ck.fail; the fingerprint is computed from the shrunk case: every dimension that
    fails on its own (as a one-dimensional space, same column) is reported with its own first failing clause;
    only if no single dimension reproduces a failure is the whole case reported"""
    reported = False
    if len(case["dims"]) > 1:
        for j in range(len(case["dims"])):
            sub = single_dim_case(case, j)
            if oracle(sub):
                report(ck, sub, oracle(sub))
                reported = True
        if reported:
            return
    seen = set()
    for clause, api, j, detail in fails:
        if clause in seen:
            continue
        seen.add(clause)
        small = _shrink_rows(case, lambda fs, c=clause: any(f[0] == c for f in fs))
        sf = [f for f in oracle(small) if f[0] == clause]
        if sf:
            clause, api, j, detail = sf[0]
        else:
            small = case
        # a failure that no dimension reproduces on its own is a property of the combination: name all of it
        sig = (dimsig(small["dims"][0]) if len(small["dims"]) == 1
               else "dims=" + "+".join(sorted({dimsig(s) for s in small["dims"]})))
        fp = f"C09|{clause}|{api}|{sig}"
        ck.fail(fp, f"{clause} fails for {api} on a {sig} dimension", small, detail)


# --------------------------------------------------------------------------- L2 comparison helpers


def lean_rows_vals(res):
    return [[untag(v) for v in row] for row in res["rows"]]


def exact_col(s):
    """is the transformed column of dimension s the result of at most one correctly rounded operation?"""
    if s["k"] == "cat":
        return True
    if s["k"] == "int" and s["prior"] == "uniform":
        return True
    if s["tr"] == "identity":
        return True  # identity, or the observed L value itself
    return False


def compare_transform(ck, case, run, rep):
    specs, X = case["dims"], case["X"]
    t = run["t"]
    res = rep["res"]
    if rep.get("lmissing"):
        raise common.HarnessError(f"harness did not supply log values for {rep['lmissing'][:3]}")
    if t.exc is not None:
        if res.get("err") != t.kind:
            ck.mismatch(case, {"what": "Space.transform", "impl": "raises " + t.kind + ": " + repr(t.exc)[:200], "model": res if "err" in res else "returns"})
        return
    if "err" in res:
        ck.mismatch(case, {"what": "Space.transform", "impl": "returns", "model": res})
        return
    Xt = np.asarray(t.val)
    rows = res["rows"]
    if Xt.ndim != 2 or [len(r) for r in rows] != [Xt.shape[1]] * Xt.shape[0] or len(rows) != Xt.shape[0]:
        ck.mismatch(case, {"what": "Space.transform shape", "impl": list(Xt.shape), "model": [len(rows), len(rows[0]) if rows else 0]})
        return
    owner = [j for j, s in enumerate(specs) for _ in range(tsize(s))]
    for i, (mrow, rrow) in enumerate(zip(rows, matrix_rows(Xt))):
        for c, (mv, rv) in enumerate(zip(mrow, rrow)):
            s = specs[owner[c]]
            ex = unrat(mv)
            if exact_col(s):
                # a single correctly rounded division (or no arithmetic at all)
                good = math.isfinite(rv) and (Fraction(rv) == ex or (isinstance(rv, float) and float(ex) == rv))
            else:
                good = math.isfinite(rv) and close_t(rv, ex)
            if not good:
                ck.mismatch(case, {"what": "Space.transform value", "row": i, "col": c, "dim": dimsig(s), "impl": rv, "model": mv})
                return
    # transformed_n_dims / transformed_bounds
    if run["tn"].exc is None:
        ntd, tb = run["tn"].val
        mb = [[unrat(a), unrat(b)] for a, b in rep["bounds"]]
        if ntd != rep["tsize"] or [[Fraction(x) for x in b] for b in tb] != mb:
            ck.mismatch(case, {"what": "transformed_n_dims / transformed_bounds", "impl": [ntd, tb], "model": [rep["tsize"], mb]})
    if not all(rep["wf"]):
        ck.mismatch(case, {"what": "constructors accepted a dimension the model calls ill-formed", "wf": rep["wf"]})
    if not all(rep["mem"]):
        raise common.HarnessError("generator produced a non-member point: " + common.canon(case)[:300])


def check_eargs(ck, case, rep, what):
    """the exact argument of base**x in the model vs. the float the code computed (nearest table key):
    they differ by the rounding of `t * (high - low) + low`, a few ulp of the exponent range"""
    scale = 1.0
    for s in case["dims"]:
        if is_log(s):
            b = s.get("base", 10)
            scale = max(scale, abs(l_scalar(s["lo"], b)), abs(l_scalar(s["hi"], b)))
    for a, k in rep.get("eargs", []):
        if k is None:
            raise common.HarnessError("harness supplied no pow table for " + common.canon(case)[:300])
        a, k = unrat(a), unrat(k)
        if abs(a - k) > 8 * Fraction(math.ulp(scale)):
            ck.mismatch(case, {"what": what + ": the argument of base**x in the model is not the one of the code",
                               "model_arg": float(a), "nearest_impl_arg": float(k)})
            return False
    return True


def compare_inverse(ck, case, inv, rep, what="Space.inverse_transform", etab=None):
    """inv: Out of the real inverse_transform (list of rows); rep: Lean reply for the same Xt"""
    specs = case["dims"]
    res = rep["res"]
    if not check_eargs(ck, case, rep, what):
        return
    if inv.exc is not None:
        if res.get("err") != inv.kind:
            ck.mismatch(case, {"what": what, "impl": "raises " + inv.kind + ": " + repr(inv.exc)[:200], "model": res if "err" in res else "returns"})
        return
    if "err" in res:
        ck.mismatch(case, {"what": what, "impl": "returns", "model": res})
        return
    rows = res["rows"]
    real = [list(r) for r in inv.val]
    if [len(r) for r in rows] != [len(r) for r in real]:
        ck.mismatch(case, {"what": what + " shape", "impl": [len(r) for r in real][:5], "model": [len(r) for r in rows][:5]})
        return
    for i, (mrow, rrow) in enumerate(zip(rows, real)):
        for j, (mv, rv) in enumerate(zip(mrow, rrow)):
            s = specs[j]
            tv = tag(rv)
            if s["k"] == "real" and s["prior"] == "uniform" and s["tr"] == "normalize":
                good = tv["t"] == "f" and mv["t"] == "f" and abs(unrat(tv["v"]) - unrat(mv["v"])) <= 4 * Fraction(math.ulp(max(abs(s["lo"]), abs(s["hi"]))))
            else:
                good = tv == mv
                if not good and is_log(s) and etab is not None:
                    # two rows may feed base**x with floats closer to each other than the rounding of the
                    # model's exact argument: accept the value of any table key within that rounding
                    logj = [q for q in range(len(specs)) if is_log(specs[q])].index(j)
                    arg = unrat(rep["eargs"][logj * len(rows) + i][0]) if len(rep.get("eargs", [])) == len(rows) * sum(map(is_log, specs)) else None
                    if arg is not None:
                        b = s.get("base", 10)
                        tol = 8 * Fraction(math.ulp(max(1.0, abs(l_scalar(s["lo"], b)), abs(l_scalar(s["hi"], b)))))
                        for k, v in etab:
                            if abs(unrat(k) - arg) <= tol:
                                c = min(max(float(unrat(v)), s["lo"]), s["hi"])
                                cand = tag(int(np.round(c))) if s["k"] == "int" else tag(float(c))
                                good = good or cand == tv
            if not good:
                ck.mismatch(case, {"what": what + " value", "row": i, "dim": j, "sig": dimsig(s), "impl": tv, "model": mv})
                return


# --------------------------------------------------------------------------- the check


def _space_requests(case, run):
    """Lean requests for one space case (after the real run)"""
    specs, X = case["dims"], case["X"]
    wd = [wire_dim(s) for s in specs]
    reqs = [("transform", {"op": "transform", "dims": wd, "X": [[tag(v) for v in r] for r in X], "L": l_table(specs, X)})]
    t = run.get("t")
    if t is not None and t.exc is None:
        Xt = np.asarray(t.val)
        if Xt.ndim == 2 and all(math.isfinite(v) for row in matrix_rows(Xt) for v in row):
            reqs.append(("inverse", {"op": "inverse", "dims": wd, "Xt": rows_of_matrix(Xt),
                                     "L": l_table(specs, X), "E": e_table(specs, Xt)}))
            inv = run["inv"]
            if inv is not None and inv.exc is None:
                reqs.append(("mem", {"op": "transform", "dims": wd, "X": [[tag(v) for v in r] for r in inv.val], "L": l_table(specs, [])}))
                tn = run.get("tn")
                if tn is not None and tn.exc is None and all(math.isfinite(v) for b in tn.val[1] for v in b) \
                        and all(len(r) == len(specs) for r in X):
                    # the verified checkers (C09_checker_shape/_bounds/_roundtrip) on the REAL outputs
                    T = [[rat(float(rt_tolerance(s, x))) if s["k"] == "real" else "0/1" for s, x in zip(specs, r)] for r in X]
                    reqs.append(("check", {"op": "check", "dims": wd, "X": [[tag(v) for v in r] for r in X], "T": T,
                                           "Xt": rows_of_matrix(Xt), "Xr": [[tag(v) for v in r] for r in inv.val],
                                           "bounds": [[rat(a), rat(b)] for a, b in tn.val[1]]}))
    return reqs


def run_space_case(ck, d, case, kind, nontrivial=True):
    run = real_space_run(case)
    fails = oracle(case, run)
    ck.case({"kind": kind, **case}, nontrivial=nontrivial)
    if fails:
        report(ck, case, fails)
    for f in l2_space(ck, d, case, run, fails):
        report(ck, case, [f])


def l2_space(ck, d, case, run, fails):
    """correspondence of one (fresh or reused) Space object with the model built for case["dims"];
    returns extra oracle failures found through Lean's memRow"""
    extra = []
    if run["space"] is None:
        return extra
    reqs = _space_requests(case, run)
    reps = d.ask_all([r for _, r in reqs])
    for (name, _), rep in zip(reqs, reps):
        if name == "transform":
            compare_transform(ck, case, run, rep)
        elif name == "inverse":
            compare_inverse(ck, case, run["inv"], rep, etab=dict(reqs)["inverse"]["E"])
        elif name == "mem":
            # membership of the implementation's round-tripped rows by the model's definition
            py = [all(member_py(s, v) for s, v in zip(case["dims"], row)) and len(row) == len(case["dims"]) for row in run["inv"].val]
            if rep["mem"] != py:
                ck.mismatch(case, {"what": "memRow (Lean) vs membership stated in Python", "lean": rep["mem"], "py": py})
            if not all(rep["mem"]) and not any(f[0] == "member" for f in fails):
                extra.append(("member", "Space.inverse_transform", None, {"lean_memRow": rep["mem"]}))
        elif name == "check":
            ck.count("lean-checkers")
            py = {"shape": not any(f[0] == "shape" for f in fails),
                  "roundtrip": not any(f[0] in ("rows", "roundtrip-exact", "roundtrip-tol", "member") for f in fails)}
            py["bounds"] = py["shape"] and not any(f[0] == "bounds" for f in fails)
            for clause in ("shape", "bounds", "roundtrip"):
                if clause == "bounds" and not py["shape"]:
                    continue
                if rep[clause] != py[clause]:
                    ck.mismatch(case, {"what": "verified checker (Lean) and the Python statement of the clause disagree", "clause": clause,
                                       "lean": rep[clause], "python": py[clause]})
                    if not rep[clause]:
                        extra.append((clause if clause != "roundtrip" else "roundtrip-exact", "Space.transform" if clause != "roundtrip" else "Space.inverse_transform",
                                      None, {"lean_checker": clause}))
    return extra


def run_tpoint_case(ck, d, rng):
    """arbitrary points of the transformed space through the real and the model inverse; result must be a member"""
    from deephyper.skopt.space import Space

    nd = rng.choice([1, 1, 2, 3, 5])
    base = 2 if rng.random() < 0.2 else 10
    specs = [gen_dim(rng, base) for _ in range(nd)]
    m = rng.choice([1, 2, 5, 12])
    Xt = [[v for s in specs for v in gen_tpoint(rng, s, lambda x, s=s: l_scalar(x, s.get("base", 10)))] for _ in range(m)]
    case = {"dims": specs, "Xt": Xt}
    ck.case({"kind": "tpoint", **case})
    sp = Space([mk_dim(s) for s in specs])
    arr = np.asarray(Xt, dtype=float)
    inv = Out(lambda: sp.inverse_transform(arr))
    wd = [wire_dim(s) for s in specs]
    etab = e_table(specs, arr)
    rep = d.ask({"op": "inverse", "dims": wd, "Xt": rows_of_matrix(arr), "L": l_table(specs, []), "E": etab})
    compare_inverse(ck, case, inv, rep, what="Space.inverse_transform (arbitrary transformed point)", etab=etab)
    if inv.exc is not None or len(inv.val) != m:
        # shrink to the dimension that fails on its own slice of columns
        start = 0
        for s in specs:
            w = tsize(s)
            sub = {"dims": [s], "Xt": [row[start:start + w] for row in Xt]}
            start += w
            o = Out(lambda: Space([mk_dim(s)]).inverse_transform(np.asarray(sub["Xt"], dtype=float)))
            if o.exc is not None or len(o.val) != m:
                clause = "raises:" + o.kind if o.exc is not None else "rows"
                ck.fail(f"C09|{clause}|Space.inverse_transform|{dimsig(s)}",
                        f"inverse_transform of {m} in-bounds transformed points: {clause} ({dimsig(s)})", sub,
                        repr(o.exc) if o.exc is not None else {"rows_in": m, "rows_out": len(o.val)})
                return
        ck.fail("C09|raises|Space.inverse_transform|tpoint-in-bounds", "inverse_transform fails on points inside transformed_bounds", case,
                repr(inv.exc) if inv.exc is not None else {"rows_in": m, "rows_out": len(inv.val)})
        return
    for i, row in enumerate(inv.val):
        for j, (s, v) in enumerate(zip(specs, row)):
            if s["k"] == "cat" and s["tr"] == "identity":
                continue  # identity does not snap: membership is only claimed for round-tripped members
            if not member_py(s, v):
                api = {"real": "Real", "int": "Integer", "cat": "Categorical"}[s["k"]] + ".inverse_transform"
                small = {"dims": [s], "Xt": [Xt[i][sum(tsize(q) for q in specs[:j]): sum(tsize(q) for q in specs[:j + 1])]]}
                ck.fail(f"C09|member|{api}|{dimsig(s)}", f"inverse_transform of a point inside transformed_bounds is not a member ({dimsig(s)})",
                        small, {"value": repr(v)})
    if rep["res"].get("rows") is not None and not all(
            m_ or any(s["k"] == "cat" and s["tr"] == "identity" for s in specs) for m_ in rep["mem"]):
        ck.mismatch(case, "model's inverse of an in-bounds transformed point is not a member (theorem C09_member_any out of sync)")


# --------------------------------------------------------------------------- histories on ONE object

MODELLED_TR = {"real": ["identity", "normalize"], "int": ["identity", "normalize"],
               "cat": ["label", "onehot", "normalize", "identity"]}


def allowed_transforms(s):
    """transforms the dimension kind accepts and the property covers; "string" (not modelled) is only a
    pass-through state of a history"""
    if s["k"] != "cat":
        return ["identity", "normalize"]
    trs = ["label", "onehot", "normalize", "string"]
    if isinstance(s["cats"][0], (int, float)) and not isinstance(s["cats"][0], bool):
        trs.append("identity")
    return trs


def gen_history_case(rng):
    """a space, member rows, and 1-4 set_transformer steps of every flavour (space-level string / per-dimension list,
    by type, dimension-level, restore of the construction-time list as the samplers' save/restore does)"""
    base = 2 if rng.random() < 0.2 else 10
    nd = rng.choice([1, 1, 2, 3, 4, 5])
    dims = [gen_dim(rng, base) for _ in range(nd)]
    if rng.random() < 0.5:  # make sure numeric / multi-category dimensions are frequent
        dims[rng.randrange(nd)] = {"k": "cat", "cats": rng.choice([[1, 2, 4, 8], [0.5, 0.25, 2.0], [3, 1], [7], [16, 32, 64, 128, 256]]),
                                   "tr": rng.choice(["onehot", "label", "identity", "normalize"])}
    m = rng.choice([1, 2, 3, 7])
    X = [[gen_point(rng, s) for s in dims] for _ in range(m)]
    steps = []
    cur = [s["tr"] for s in dims]
    kinds = sorted({s["k"] for s in dims})
    for _ in range(rng.choice([1, 2, 2, 3, 4])):
        op = rng.choice(["space-str", "space-list", "dim", "dim", "dim", "by-type", "restore-initial", "save-normalize-restore",
                         "normalize-dimensions"])
        if op == "space-str":
            common_t = set.intersection(*[set(allowed_transforms(s)) for s in dims])
            if not common_t:
                continue
            st = {"op": op, "t": rng.choice(sorted(common_t))}
            cur = [st["t"]] * nd
        elif op == "space-list":
            st = {"op": op, "trs": [rng.choice(allowed_transforms(s)) for s in dims]}
            cur = list(st["trs"])
        elif op == "dim":
            j = rng.randrange(nd)
            st = {"op": op, "j": j, "t": rng.choice(allowed_transforms(dims[j]))}
            cur[j] = st["t"]
        elif op == "by-type":
            k = rng.choice(kinds)
            common_t = set.intersection(*[set(allowed_transforms(s)) for s in dims if s["k"] == k])
            st = {"op": op, "cls": k, "t": rng.choice(sorted(common_t))}
            cur = [st["t"] if s["k"] == k else c for s, c in zip(dims, cur)]
        elif op == "restore-initial":
            st = {"op": op}
            cur = [s["tr"] for s in dims]
        elif op == "normalize-dimensions":
            st = {"op": op}  # space.dimensions = normalize_dimensions(space.dimensions): dimension-level switches of all
            cur = ["normalize"] * nd
        else:
            st = {"op": op}  # saved = get_transformer(); set_transformer("normalize"); [queries]; set_transformer(saved)
        st["query"] = rng.random() < 0.8
        st["prequery"] = rng.random() < 0.5
        steps.append(st)
    if not steps:
        steps = [{"op": "restore-initial", "query": True, "prequery": False}]
    steps[-1]["query"] = True
    # use0: the object is used (sizes / bounds read, transform, inverse_transform) before the first switch
    return {"dims": dims, "X": X, "steps": steps, "use0": rng.random() < 0.6}


def apply_step(space, st, specs, initial):
    """perform one step on the real object; returns the list of (sub-step label, transforms in force) states to check"""
    from deephyper.skopt.space import Categorical, Integer, Real

    cur = [s["tr"] for s in specs]
    if st["op"] == "space-str":
        space.set_transformer(st["t"])
        return [("", [st["t"]] * len(specs))]
    if st["op"] == "space-list":
        space.set_transformer(list(st["trs"]))
        return [("", list(st["trs"]))]
    if st["op"] == "dim":
        space.dimensions[st["j"]].set_transformer(st["t"])
        cur[st["j"]] = st["t"]
        return [("", cur)]
    if st["op"] == "by-type":
        cls = {"real": Real, "int": Integer, "cat": Categorical}[st["cls"]]
        space.set_transformer_by_type(st["t"], cls)
        return [("", [st["t"] if s["k"] == st["cls"] else c for s, c in zip(specs, cur)])]
    if st["op"] == "restore-initial":
        space.set_transformer(list(initial))
        return [("", list(initial))]
    if st["op"] == "normalize-dimensions":
        from deephyper.skopt.utils import normalize_dimensions

        space.dimensions = normalize_dimensions(space.dimensions)
        return [("", ["normalize"] * len(specs))]
    saved = space.get_transformer()
    space.set_transformer("normalize")
    return [("normalized", ["normalize"] * len(specs)), ("restored", saved)]


def dim_behaviour(dim, col):
    """everything observable of one dimension object for one column of members (compared with a fresh instance)"""
    def rec(f):
        o = Out(f)
        return o
    size = Out(lambda: int(dim.transformed_size))
    bounds = Out(lambda: np.asarray(dim.transformed_bounds, dtype=object).tolist())
    t = Out(lambda: dim.transform(list(col)))
    out = {"transform_": dim.transform_,
           "size": size.kind if size.exc is not None else size.val,
           "bounds": bounds.kind if bounds.exc is not None else repr(bounds.val),
           "t": t.kind if t.exc is not None else repr(np.asarray(t.val).tolist())}
    if t.exc is None:
        inv = Out(lambda: dim.inverse_transform(t.val))
        out["inv"] = inv.kind if inv.exc is not None else [tag(v) for v in list(inv.val)]
        out["t_shape"] = list(np.asarray(t.val).reshape((len(col), -1)).shape) if len(col) else []
    return out


def lean_history_ops(case, initial):
    """the steps of a history as ops of Model/SpaceObject.lean, with the (step index, sub-step label) each op ends;
    None when the history passes through the not modelled "string" transformer"""
    names = list(initial)
    if "string" in names:
        return None
    ops, ends = [], []
    for k, st in enumerate(case["steps"]):
        op = st["op"]
        if op == "space-str":
            new = [{"o": "all", "t": st["t"]}]
            names = [st["t"]] * len(names)
        elif op == "space-list":
            new = [{"o": "each", "ts": list(st["trs"])}]
            names = list(st["trs"])
        elif op == "dim":
            new = [{"o": "dim", "j": st["j"], "t": st["t"]}]
            names[st["j"]] = st["t"]
        elif op == "by-type":
            new = [{"o": "type", "k": st["cls"], "t": st["t"]}]
            names = [st["t"] if s["k"] == st["cls"] else c for s, c in zip(case["dims"], names)]
        elif op == "restore-initial":
            new = [{"o": "each", "ts": list(initial)}]
            names = list(initial)
        elif op == "normalize-dimensions":
            new = [{"o": "normdims"}]
            names = ["normalize"] * len(names)
        else:  # save-normalize-restore
            new = [{"o": "all", "t": "normalize"}, {"o": "each", "ts": list(names)}]
        if "string" in names or any(o.get("t") == "string" or "string" in o.get("ts", []) for o in new):
            return None
        labels = ["normalized", "restored"] if op == "save-normalize-restore" else [""]
        for o, lab in zip(new, labels):
            ops.append(o)
            ends.append((k, lab))
    return ops, ends


def compare_layout(ck, case, where, space, run, lay, trs, trs_from_impl=False):
    """the layout the REAL object shows after this step (get_transformer, transformed_size of every dimension,
    transformed_n_dims, transformed_bounds) against the state machine of Model/SpaceObject.lean"""
    if "err" in lay:
        ck.mismatch(case, {"what": "history: the model rejects a step the implementation accepted", **where, "model": lay})
        return
    if lay["names"] != list(trs) and trs_from_impl:
        # save / normalize / restore: the names restored are the ones the object's own get_transformer() returned
        ck.mismatch(case, {"what": "history: get_transformer() of the implementation vs the state machine", **where, "impl": list(trs), "model": lay["names"]})
        return
    if lay["names"] != list(trs):
        raise common.HarnessError("history bookkeeping of the harness and the Lean state machine disagree: %r vs %r" % (lay["names"], trs))
    names = Out(lambda: list(space.get_transformer()))
    sizes = Out(lambda: [int(dm.transformed_size) for dm in space.dimensions])
    impl = {"names": names.val if names.exc is None else "raises " + names.kind,
            "sizes": sizes.val if sizes.exc is None else "raises " + sizes.kind}
    model = {"names": lay["names"], "sizes": lay["sizes"]}
    tn = run.get("tn")
    if tn is not None:
        if tn.exc is None:
            impl["ndims"] = tn.val[0]
            impl["bounds"] = [[Fraction(x) for x in b] for b in tn.val[1]] if all(math.isfinite(x) for b in tn.val[1] for x in b) else repr(tn.val[1])
        else:
            impl["ndims"] = impl["bounds"] = "raises " + tn.kind
        model["ndims"] = lay["ndims"]
        model["bounds"] = [[unrat(a), unrat(b)] for a, b in lay["bounds"]]
    if impl != model:
        diff = {key: {"impl": repr(impl[key])[:300], "model": repr(model[key])[:300]} for key in model if impl[key] != model[key]}
        ck.mismatch(case, {"what": "history: layout of the reused Space object vs the state machine (Model/SpaceObject.lean)", **where, **diff})


def run_history(ck, d, case, l2=True):
    """executes the history on ONE Space object; after every switch the object must behave like a fresh object
    built with the transformers in force.  Returns [(clause, step index, dim index or None, detail)]."""
    from deephyper.skopt.space import Space

    specs0, X = case["dims"], case["X"]
    space = Space([mk_dim_any(s) for s in specs0])
    initial = space.get_transformer()
    specs = [dict(s) for s in specs0]
    failures = []
    layouts = {}
    if l2:
        lo = lean_history_ops(case, [s["tr"] for s in specs0])
        if lo is not None:
            ops, ends = lo
            rep = d.ask({"op": "history", "dims": [wire_dim(s) for s in specs0], "ops": ops, "L": l_table(specs0, [])})
            for end, lay in zip(ends, rep["states"]):
                layouts[end] = lay
            if len(rep["states"]) != len(ops):
                layouts["stopped"] = rep["states"][-1] if rep["states"] else None
            ck.count("history-lean-state-machine")
    if case.get("use0") and not any(s["tr"] == "string" for s in specs0):
        # the object is used before the first switch (whatever it remembers of its layout is from now)
        state0 = {"dims": specs, "X": X}
        run0 = real_space_run(state0, space=space, prequery=True)
        fails0 = oracle(state0, run0)
        if fails0 and l2:
            report(ck, state0, fails0)
    for k, st in enumerate(case["steps"]):
        o = Out(lambda: apply_step(space, st, specs, initial))
        if o.exc is not None:
            failures.append(("raises:" + o.kind, k, None, "set_transformer step %r raised %r" % (st, o.exc)))
            return failures
        for label, trs in o.val:
            specs = [dict(s, tr=t) for s, t in zip(specs, trs)]
            if st["op"] == "save-normalize-restore" and label == "restored":
                space.set_transformer(trs)
            if not st.get("query", True) and label != "normalized":
                continue
            where = {"step": k, "sub": label, "transforms": list(trs)}
            # (A) per dimension: reuse-independent (also through the not modelled "string" state)
            fresh_dims = [mk_dim_any(s) for s in specs]
            for j, (dm, fd) in enumerate(zip(space.dimensions, fresh_dims)):
                col = [r[j] for r in X]
                a, b = dim_behaviour(dm, col), dim_behaviour(fd, col)
                if a != b:
                    diff = {key: [a.get(key), b.get(key)] for key in a if a.get(key) != b.get(key)}
                    failures.append(("reuse-independent", k, j, {**where, "reused_vs_fresh": diff}))
                elif "t_shape" in a and a["t_shape"][1:] != [a["size"]] and X:
                    failures.append(("shape", k, j, {**where, "transform_columns": a["t_shape"], "transformed_size": a["size"]}))
            if any(t == "string" for t in trs):
                nd_r, nd_f = Out(lambda: space.transformed_n_dims), Out(lambda: Space(fresh_dims).transformed_n_dims)
                if (nd_r.val, nd_r.kind if nd_r.exc else None) != (nd_f.val, nd_f.kind if nd_f.exc else None):
                    failures.append(("reuse-independent", k, None, {**where, "transformed_n_dims": [nd_r.val, nd_f.val]}))
                continue
            # (B) the whole space: oracles as for a fresh object, model of the transformers in force, fresh instance
            state = {"dims": specs, "X": X}
            run = real_space_run(state, space=space, prequery=st.get("prequery", False))
            fails = oracle(state, run)
            if l2:
                fails = fails + l2_space(ck, d, state, run, fails)
                if (k, label) in layouts:
                    compare_layout(ck, {"kind": "history", **case}, where, space, run, layouts[(k, label)], trs,
                                   trs_from_impl=st["op"] == "save-normalize-restore")
                elif layouts.get("stopped") is not None:
                    ck.mismatch({"kind": "history", **case}, {"what": "history: the model rejects a step the implementation accepted",
                                                              **where, "model": layouts["stopped"]})
            fresh = real_space_run(state)
            ffails = oracle(state, fresh)
            for f in fails:
                if not any(g[0] == f[0] for g in ffails):
                    failures.append((f[0], k, f[2], {**where, "api": f[1], "detail": f[3]}))
            if fails and ffails:
                report(ck, state, ffails)  # not history specific: the fresh object fails as well
            same = True
            for key in ("t", "inv", "tn"):
                ra, rb = run.get(key), fresh.get(key)
                if (ra is None) != (rb is None):
                    same = False
                elif ra is not None:
                    if (ra.exc is None) != (rb.exc is None) or (ra.exc is not None and ra.kind != rb.kind):
                        same = False
                    elif ra.exc is None:
                        va = np.asarray(ra.val, dtype=object).tolist() if key != "tn" else ra.val
                        vb = np.asarray(rb.val, dtype=object).tolist() if key != "tn" else rb.val
                        same = same and repr(va) == repr(vb)
            if not same and not any(f[0] == "reuse-independent" and f[1] == k for f in failures):
                failures.append(("reuse-independent", k, None, {**where, "what": "Space.transform / inverse_transform / transformed_bounds differ from a fresh Space"}))
    return failures


def mk_dim_any(s):
    """like mk_dim, also for the pass-through "string" transform"""
    from deephyper.skopt.space import Categorical

    if s["k"] == "cat":
        return Categorical(list(s["cats"]), transform=s["tr"])
    return mk_dim(s)


def dim_history(case, j):
    """the history of dimension j alone, as dimension-level steps on a one-dimensional space"""
    trs = []
    cur = case["dims"][j]["tr"]
    init = cur
    for st in case["steps"]:
        seq = []
        if st["op"] == "space-str":
            seq = [st["t"]]
        elif st["op"] == "space-list":
            seq = [st["trs"][j]]
        elif st["op"] == "dim" and st["j"] == j:
            seq = [st["t"]]
        elif st["op"] == "by-type" and st["cls"] == case["dims"][j]["k"]:
            seq = [st["t"]]
        elif st["op"] == "restore-initial":
            seq = [init]
        elif st["op"] == "save-normalize-restore":
            seq = ["normalize", cur]
        elif st["op"] == "normalize-dimensions":
            seq = ["normalize"]
        for t in seq:
            trs.append(t)
            cur = t
    return {"dims": [case["dims"][j]], "X": [[r[j]] for r in case["X"]], "use0": True,
            "steps": [{"op": "dim", "j": 0, "t": t, "query": True, "prequery": False} for t in trs]}


_PLAIN_DIM = {"k": "real", "lo": -3.0, "hi": 5.0, "prior": "uniform"}
_PLAIN_HISTORIES = [
    {"dims": [dict(_PLAIN_DIM, tr=a)], "X": [[-3.0], [5.0], [1.5]], "use0": True,
     "steps": [{"op": "dim", "j": 0, "t": b, "query": True, "prequery": False}]}
    for a, b in (("identity", "normalize"), ("normalize", "identity"))]


def report_history(ck, d, case, failures):
    """shrink to one dimension, then to the shortest suffix of its switches; fingerprint = clause + last switch"""
    done = set()
    for clause, k, j, detail in failures:
        small, sf = case, None
        for jj in ([j] if j is not None else []) + [x for x in range(len(case["dims"])) if x != j]:
            sub = dim_history(case, jj)
            if not sub["steps"]:
                continue
            fs = run_history(ck, d, sub, l2=False)
            if fs:
                small, sf = sub, fs
                if sf[0][1] + 1 < len(small["steps"]):  # nothing after the first failing switch is needed
                    cut = dict(small, steps=small["steps"][: sf[0][1] + 1])
                    fs2 = run_history(ck, d, cut, l2=False)
                    if fs2:
                        small, sf = cut, fs2
                while len(small["steps"]) > 1:
                    # drop the first switch (the construction-time transformer stays)
                    shorter = dict(small, steps=small["steps"][1:])
                    fs2 = run_history(ck, d, shorter, l2=False)
                    if not fs2:
                        break
                    small, sf = shorter, fs2
                if len(small["X"]) > 1:
                    for i in range(len(small["X"])):
                        one = dict(small, X=[small["X"][i]])
                        fs2 = run_history(ck, d, one, l2=False)
                        if fs2:
                            small, sf = one, fs2
                            break
                break
        if sf:
            # shrink the dimension itself: does the plainest dimension (a uniform Real) fail in the same way under one
            # dimension-level switch of a used space?  (a failure that needs a particular kind / category count stays as it is)
            for cand in _PLAIN_HISTORIES:
                fs2 = run_history(ck, d, cand, l2=False)
                same = [f for f in fs2 if f[0] == sf[0][0]]
                if same:
                    small, sf = cand, same
                    break
            clause, k, _, detail = sf[0]
            s0 = small["dims"][0]
            seq = [s0["tr"]] + [st["t"] for st in small["steps"]]
            frm, to = seq[k], seq[k + 1]
            kind = f"cat[{cat_type(s0)}]" + (",n>=3" if len(s0["cats"]) >= 3 else f",n={len(s0['cats'])}") if s0["k"] == "cat" else s0["k"] + "/" + s0["prior"]
            sig = f"{kind}:{frm}->{to}"
            # the same switches through Space.set_transformer([...]): when those are fine the failure needs a switch made
            # on the Dimension object itself (dimensions[j].set_transformer, normalize_dimensions)
            alt = dict(small, steps=[{"op": "space-list", "trs": [st["t"]], "query": True, "prequery": False} for st in small["steps"]])
            api = "set_transformer" if run_history(ck, d, alt, l2=False) else "Dimension.set_transformer"
        else:
            sig = "dims=" + "+".join(sorted({dimsig(s) for s in case["dims"]}))
            api = "set_transformer"
        fp = f"C09|{clause}|{api}|{sig}"
        if fp in done:
            continue
        done.add(fp)
        ck.fail(fp, f"after set_transformer the object does not behave like a fresh one ({clause}; {sig})",
                {"kind": "history", **small}, detail)


def run_history_case(ck, d, case):
    ck.case({"kind": "history", **case})
    for st in case["steps"]:
        ck.count("history-step:" + st["op"])
    ck.count("history-steps=%d" % len(case["steps"]))
    failures = run_history(ck, d, case)
    if failures:
        report_history(ck, d, case, failures)


# --------------------------------------------------------------------------- the caller's objects (containers)
#
# The property speaks of the points the caller hands over and gets back.  A caller holds them as a list, a tuple or a
# NumPy array (a column of a results table: any memory layout, possibly read-only), and still holds them after the call:
#   input-unchanged        transform / inverse_transform leave the object they were given bit-for-bit as it was (otherwise
#                          "inverse_transform(transform(X)) returns the same points" is no longer about the points X);
#   container-independent  the values returned do not depend on how the same points were held (equal to what a list of
#                          the same points gives, which is what the model is compared with);
#   the round-trip clauses (rows, exact / tolerance, membership) for every container, against the pristine points.
# Returning an object that aliases the input is not a failure by itself (Identity().transform returns its argument).


def snapshot(obj):
    """bit-for-bit record of an object a caller holds"""
    if isinstance(obj, np.ndarray):
        body = [snapshot(v) for v in obj.ravel().tolist()] if obj.dtype == object else obj.tobytes()
        base = obj.base
        base_bytes = base.tobytes() if isinstance(base, np.ndarray) and base.dtype != object else None
        return ("ndarray", str(obj.dtype), tuple(obj.shape), tuple(obj.strides), bool(obj.flags.writeable), body, base_bytes)
    if isinstance(obj, (list, tuple)):
        return (type(obj).__name__, [snapshot(v) for v in obj])
    return (type(obj).__name__, repr(obj))


def _readonly(a):
    a = a.copy()
    a.setflags(write=False)
    return a


def _strided(a):
    """the same elements as every second element (1-D) / column (2-D) of a larger buffer"""
    if a.ndim == 1:
        big = np.zeros(2 * len(a) + 1, dtype=a.dtype)
        big[1::2] = a
        return big[1::2]
    big = np.zeros((a.shape[0] + 2, 2 * a.shape[1] + 1), dtype=a.dtype)
    big[1:-1, 1::2] = a
    return big[1:-1, 1::2]


def _reversed(a):
    return a[::-1].copy()[::-1]  # negative stride


def _array_layouts(make, two_d=False):
    """[(suffix, factory)] memory layouts of one array"""
    out = [("", make), ("-readonly", lambda: _readonly(make())), ("-strided", lambda: _strided(make()))]
    if two_d:
        out.append(("-F", lambda: np.asfortranarray(make())))
    else:
        out.append(("-reversed", lambda: _reversed(make())))
    return out


def _native_kind(s):
    if s["k"] == "real":
        return "f"
    if s["k"] == "int":
        return "i"
    return {"str": "U", "int": "i", "float": "f", "bool": "b"}[cat_type(s)]


def _holds(a, values, kind):
    """does the NumPy array hold exactly these Python values (no overflow / conversion)?"""
    if a.dtype.kind != kind or (kind in "fi" and a.dtype.itemsize != 8):
        return False
    return [tag(v) for v in a.ravel().tolist()] == [tag(v) for v in values]


def col_containers(s, col):
    """[(name, factory, strict)]: the ways a caller may hold the points of ONE dimension.  strict=False (float32): NumPy
    computes in single precision, only `input-unchanged` is claimed."""
    out = [("list", lambda: list(col), True), ("tuple", lambda: tuple(col), True)]
    kind = _native_kind(s)
    try:
        a = np.array(col)
    except (OverflowError, ValueError):
        a = None
    if a is not None and a.ndim == 1 and _holds(a, col, kind):
        out += [("ndarray" + suf, f, True) for suf, f in _array_layouts(lambda: np.array(col))]
    if s["k"] == "cat":
        out.append(("ndarray-object", lambda: np.array(col, dtype=object), True))
    if s["k"] == "int" and all(abs(v) < 2 ** 31 for v in list(col) + [s["lo"], s["hi"]]):
        out.append(("ndarray-int32", lambda: np.array(col, dtype=np.int32), True))
    if s["k"] == "real":
        out.append(("ndarray-float32", lambda: np.array(col, dtype=np.float32), False))
    return out


def t_containers(t_ref):
    """[(name, factory)]: the ways a caller may hold transformed values (1-D column or 2-D one-hot block)"""
    a = np.asarray(t_ref)
    if a.dtype == object or a.ndim not in (1, 2):
        return []
    out = [("list", lambda: a.tolist())]
    if a.ndim == 1:
        out.append(("tuple", lambda: tuple(a.tolist())))
    out += [("ndarray" + suf, f) for suf, f in _array_layouts(lambda: a.copy(), two_d=a.ndim == 2)]
    return out


def t_rows(t, n):
    """what transform returned as n rows of exact Python numbers"""
    return matrix_rows(np.asarray(t).reshape((n, -1)))


def same_t_rows(s, rows, ref):
    """equal values.  A log dimension: NumPy evaluates log10 with a different loop for some memory layouts (negative
    strides) and the results differ in the last place: 4 ulp of the log value, which the normalization divides by the range"""
    if [len(r) for r in rows] != [len(r) for r in ref]:
        return False
    tol = Fraction(0)
    if is_log(s):
        b = s.get("base", 10)
        la, lb = l_scalar(s["lo"], b), l_scalar(s["hi"], b)
        tol = 4 * Fraction(math.ulp(max(abs(la), abs(lb), 1.0)))
        if s["tr"] == "normalize":
            tol = tol / Fraction(lb - la) + 4 * Fraction(U) if lb > la else Fraction(1)
    for r, q in zip(rows, ref):
        for x, y in zip(r, q):
            if not (math.isfinite(x) and math.isfinite(y)):
                return False
            if abs(Fraction(x) - Fraction(y)) > tol:
                return False
    return True


def same_inverse(s, vals, ref):
    """equal Python values and kinds (reals of a log dimension: within the round-trip tolerance)"""
    if len(vals) != len(ref):
        return False
    for v, r in zip(vals, ref):
        tv, tr_ = tag(v), tag(r)
        if tv == tr_:
            continue
        if s["k"] == "real" and is_log(s) and tv["t"] == "f" and tr_["t"] == "f" and \
                abs(unrat(tv["v"]) - unrat(tr_["v"])) <= Fraction(rt_tolerance(s, float(r))):
            continue
        return False
    return True


def roundtrip_fails(s, col, back):
    """the round-trip clauses of the property for one dimension: [(clause, detail)]"""
    if len(back) != len(col):
        return [("rows", {"rows_in": len(col), "rows_out": len(back)})]
    out = []
    for i, (x, y) in enumerate(zip(col, back)):
        if s["k"] == "real":
            if not (isinstance(y, (float, np.floating)) and math.isfinite(y) and abs(float(y) - x) <= rt_tolerance(s, x)):
                out.append(("roundtrip-tol", {"row": i, "x": x, "back": repr(y), "tol": rt_tolerance(s, x)}))
        elif tag(y) != tag(x):
            out.append(("roundtrip-exact", {"row": i, "x": repr(x), "back": repr(y)}))
        if not member_py(s, y):
            out.append(("member", {"row": i, "x": repr(x), "back": repr(y)}))
    return out


_API = {"real": "Real", "int": "Integer", "cat": "Categorical"}


def container_dim_fails(s, col, counts=None):
    """one dimension object, the same points held in every kind of container: [(clause, api, container, detail)]"""
    dim = mk_dim(s)
    n = len(col)
    api_t, api_i = _API[s["k"]] + ".transform", _API[s["k"]] + ".inverse_transform"
    ref_t = Out(lambda: dim.transform(list(col)))
    if ref_t.exc is not None:
        return [("raises:" + ref_t.kind, api_t, "list", repr(ref_t.exc))]
    ref_rows = Out(lambda: t_rows(ref_t.val, n))
    ref_inv = Out(lambda: list(dim.inverse_transform(ref_t.val)))
    if ref_rows.exc is not None or ref_inv.exc is not None:
        return [("raises:" + (ref_rows.kind if ref_rows.exc is not None else ref_inv.kind),
                 api_t if ref_rows.exc is not None else api_i, "list", repr(ref_rows.exc or ref_inv.exc))]
    fails = []
    for name, make, strict in col_containers(s, col):
        if counts is not None:
            counts("container:" + name)
        c = make()
        before = snapshot(c)
        t = Out(lambda: dim.transform(c))
        if snapshot(c) != before:
            fails.append(("input-unchanged", api_t, name, {"points": [repr(v) for v in col], "now": repr(np.asarray(c).tolist())[:300]}))
        if t.exc is not None:
            if strict:
                fails.append(("raises:" + t.kind, api_t, name, repr(t.exc)))
            continue
        if strict:
            rows = Out(lambda: t_rows(t.val, n))
            if rows.exc is not None or not same_t_rows(s, rows.val, ref_rows.val):
                fails.append(("container-independent", api_t, name, {"from_list": ref_rows.val[:4], "from_container": repr(rows.val if rows.exc is None else rows.exc)[:300]}))
        # the round trip goes on with the object transform returned (it may be, or share memory with, the caller's)
        mid = snapshot(t.val)
        inv = Out(lambda: list(dim.inverse_transform(t.val)))
        if snapshot(t.val) != mid:
            fails.append(("input-unchanged", api_i, name, {"what": "the transformed values handed to inverse_transform were overwritten"}))
        if snapshot(c) != before and not any(f[0] == "input-unchanged" and f[2] == name for f in fails):
            fails.append(("input-unchanged", api_i, name, {"what": "the points handed to transform were overwritten by inverse_transform",
                                                           "points": [repr(v) for v in col], "now": repr(np.asarray(c).tolist())[:300]}))
        if not strict:
            continue
        if inv.exc is not None:
            fails.append(("raises:" + inv.kind, api_i, name, repr(inv.exc)))
            continue
        if not same_inverse(s, inv.val, ref_inv.val):
            fails.append(("container-independent", api_i, name, {"from_list": [repr(v) for v in ref_inv.val[:4]], "from_container": [repr(v) for v in inv.val[:4]]}))
        fails += [(cl, api_i, name, det) for cl, det in roundtrip_fails(s, col, inv.val)]
    # transformed values held in every kind of container
    for name, make in t_containers(ref_t.val):
        if counts is not None:
            counts("t-container:" + name)
        c = make()
        before = snapshot(c)
        inv = Out(lambda: list(dim.inverse_transform(c)))
        if snapshot(c) != before:
            fails.append(("input-unchanged", api_i, "Xt:" + name, {"what": "the transformed values handed to inverse_transform were overwritten"}))
        if inv.exc is not None:
            fails.append(("raises:" + inv.kind, api_i, "Xt:" + name, repr(inv.exc)))
        elif not same_inverse(s, inv.val, ref_inv.val):
            fails.append(("container-independent", api_i, "Xt:" + name, {"from_list": [repr(v) for v in ref_inv.val[:4]], "from_container": [repr(v) for v in inv.val[:4]]}))
    return fails


def space_containers(specs, X):
    """[(name, factory)]: the ways a caller may hold a list of points of the whole space"""
    out = [("list-of-lists", lambda: [list(r) for r in X]), ("list-of-tuples", lambda: [tuple(r) for r in X]),
           ("tuple-of-tuples", lambda: tuple(tuple(r) for r in X)),
           ("list-of-ndarrays", lambda: [np.array(list(r), dtype=object) for r in X])]

    def obj():
        a = np.empty((len(X), len(specs)), dtype=object)
        for i, r in enumerate(X):
            for j, v in enumerate(r):
                a[i, j] = v
        return a
    out += [("ndarray-object" + suf, f) for suf, f in _array_layouts(obj, two_d=True)]
    kinds = {_native_kind(s) for s in specs}
    if len(kinds) == 1 and all(s["k"] == specs[0]["k"] for s in specs):
        try:
            a = np.array([list(r) for r in X])
        except (OverflowError, ValueError):
            a = None
        if a is not None and a.ndim == 2 and _holds(a, [v for r in X for v in r], next(iter(kinds))):
            out += [("ndarray" + suf, f) for suf, f in _array_layouts(lambda: np.array([list(r) for r in X]), two_d=True)]
    return out


def container_space_fails(case, counts=None):
    """one Space object, the same points / transformed points held in every kind of container"""
    from deephyper.skopt.space import Space

    specs, X = case["dims"], case["X"]
    sp = Out(lambda: Space([mk_dim(s) for s in specs]))
    if sp.exc is not None:
        return [("raises:" + sp.kind, "Space", "list-of-lists", repr(sp.exc))]
    sp = sp.val
    ref_t = Out(lambda: sp.transform([list(r) for r in X]))
    if ref_t.exc is not None:
        return [("raises:" + ref_t.kind, "Space.transform", "list-of-lists", repr(ref_t.exc))]
    ref_rows = Out(lambda: matrix_rows(ref_t.val))
    if ref_rows.exc is not None or np.asarray(ref_t.val).ndim != 2:
        return [("shape", "Space.transform", "list-of-lists", "not a numeric matrix: " + repr(ref_t.val)[:200])]
    ref_rows = ref_rows.val
    ref_inv = Out(lambda: [list(r) for r in sp.inverse_transform(ref_t.val)])
    if ref_inv.exc is not None:
        return [("raises:" + ref_inv.kind, "Space.inverse_transform", "list-of-lists", repr(ref_inv.exc))]
    fails = []

    def inverse_differs(rows):
        if [len(r) for r in rows] != [len(r) for r in ref_inv.val]:
            return True
        return any(not same_inverse(s, [r[j] for r in rows], [r[j] for r in ref_inv.val]) for j, s in enumerate(specs))

    for name, make in space_containers(specs, X):
        if counts is not None:
            counts("container:X:" + name)
        c = make()
        before = snapshot(c)
        t = Out(lambda: sp.transform(c))
        if snapshot(c) != before:
            fails.append(("input-unchanged", "Space.transform", name, {"points": repr(X)[:300], "now": repr(np.asarray(c, dtype=object).tolist())[:300]}))
        if t.exc is not None:
            fails.append(("raises:" + t.kind, "Space.transform", name, repr(t.exc)))
            continue
        rows = Out(lambda: matrix_rows(t.val))
        if rows.exc is not None or [[Fraction(v) if math.isfinite(v) else repr(v) for v in r] for r in rows.val] != \
                [[Fraction(v) if math.isfinite(v) else repr(v) for v in r] for r in ref_rows]:
            fails.append(("container-independent", "Space.transform", name, {"from_list": ref_rows[:3], "from_container": repr(rows.val if rows.exc is None else rows.exc)[:300]}))
        mid = snapshot(t.val)
        inv = Out(lambda: [list(r) for r in sp.inverse_transform(t.val)])
        if snapshot(t.val) != mid:
            fails.append(("input-unchanged", "Space.inverse_transform", name, {"what": "the matrix handed to inverse_transform was overwritten"}))
        if snapshot(c) != before and not any(f[0] == "input-unchanged" and f[2] == name for f in fails):
            fails.append(("input-unchanged", "Space.inverse_transform", name, {"what": "the points handed to transform were overwritten by inverse_transform"}))
        if inv.exc is not None:
            fails.append(("raises:" + inv.kind, "Space.inverse_transform", name, repr(inv.exc)))
        elif inverse_differs(inv.val):
            fails.append(("container-independent", "Space.inverse_transform", name, {"from_list": repr(ref_inv.val[:3]), "from_container": repr(inv.val[:3])}))
    for name, make in t_containers(ref_t.val):
        if counts is not None:
            counts("t-container:Xt:" + name)
        c = make()
        before = snapshot(c)
        inv = Out(lambda: [list(r) for r in sp.inverse_transform(c)])
        if snapshot(c) != before:
            fails.append(("input-unchanged", "Space.inverse_transform", "Xt:" + name, {"what": "the matrix handed to inverse_transform was overwritten"}))
        if inv.exc is not None:
            fails.append(("raises:" + inv.kind, "Space.inverse_transform", "Xt:" + name, repr(inv.exc)))
        elif inverse_differs(inv.val):
            fails.append(("container-independent", "Space.inverse_transform", "Xt:" + name, {"from_list": repr(ref_inv.val[:3]), "from_container": repr(inv.val[:3])}))
    # the dimension-level reference is the column block of the space-level one (Space.transform packs by dimension)
    start = 0
    for j, s in enumerate(specs):
        w = tsize(s)
        col = [r[j] for r in X]
        dt = Out(lambda: t_rows(mk_dim(s).transform(list(col)), len(X)))
        block = [r[start:start + w] for r in ref_rows]
        start += w
        if dt.exc is None and not same_t_rows(dict(s, prior="uniform") if s["k"] != "cat" else s, dt.val, block):
            fails.append(("container-independent", _API[s["k"]] + ".transform", "column-of-Space.transform",
                          {"dimension": dimsig(s), "own": dt.val[:3], "in_space": block[:3]}))
    return fails


def gen_container_case(rng):
    base = 2 if rng.random() < 0.2 else 10
    nd = rng.choice([1, 1, 2, 3, 4])
    dims = [gen_dim(rng, base) for _ in range(nd)]
    r = rng.random()
    if r < 0.25:  # homogeneous spaces (the caller can hold them as one float64 / int64 / string array)
        k = rng.choice(["real", "int", "cat"])
        dims = []
        while len(dims) < nd:
            s = gen_dim(rng, base)
            if s["k"] == k and (k != "cat" or cat_type(s) == "str"):
                dims.append(s)
    m = rng.choice([1, 2, 3, 6])
    X = [[gen_point(rng, s) for s in dims] for _ in range(m)]
    return {"dims": dims, "X": X}


_CONTAINER_ORDER = ["list", "tuple", "ndarray", "ndarray-readonly", "ndarray-strided", "ndarray-reversed", "ndarray-F", "ndarray-object",
                    "ndarray-int32", "ndarray-float32"]


def _container_rank(name):
    base = name.split(":")[-1]
    return (name.count(":"), _CONTAINER_ORDER.index(base) if base in _CONTAINER_ORDER else len(_CONTAINER_ORDER), name)


def report_container(ck, case, fails, level):
    """one ck.fail per (clause, API, dimension signature), named by the plainest container that shows it, shrunk to one
    dimension (space level) and to the fewest rows"""
    seen = set()
    for clause, api, name, detail in sorted(fails, key=lambda f: (f[0], f[1], _container_rank(f[2]))):
        if (clause, api) in seen:
            continue
        seen.add((clause, api))
        small = case
        rerun = (lambda c: container_dim_fails(c["dims"][0], [r[0] for r in c["X"]])) if level == "dim" else container_space_fails

        def still(c):
            return [f for f in rerun(c) if f[0] == clause and f[1] == api]
        if level == "space" and len(case["dims"]) > 1:
            for j in range(len(case["dims"])):
                sub = single_dim_case(case, j)
                if still(sub):
                    small = sub
                    break
        for i in range(len(small["X"])):
            one = dict(small, X=[small["X"][i]])
            if still(one):
                small = one
                break
        # plain bounds, when the failure does not need the generated ones
        if len(small["dims"]) == 1 and small["dims"][0]["k"] != "cat" and len(small["X"]) == 1:
            s0 = small["dims"][0]
            plain = dict(s0, lo=1.0, hi=8.0) if s0["k"] == "real" else dict(s0, lo=1, hi=8)
            plain.pop("base", None)
            for x in ((2.0, 1.0, 8.0) if s0["k"] == "real" else (2, 1, 8)):
                cand = dict(small, dims=[plain], X=[[x]])
                if still(cand):
                    small = cand
                    break
        sf = sorted(still(small), key=lambda f: _container_rank(f[2]))
        if sf:
            clause, api, name, detail = sf[0]
        sig = (dimsig(small["dims"][0]) if len(small["dims"]) == 1 else "dims=" + "+".join(sorted({dimsig(s) for s in small["dims"]})))
        fp = f"C09|{clause}|{api}|{sig},input={name}"
        ck.fail(fp, f"{clause} fails for {api} on a {sig} dimension when the points are held as {name}",
                {"kind": "container", "level": level, **small}, {"container": name, "detail": detail})


def run_container_case(ck, d, case):
    """the same points in every container, through every Dimension / Space entry point"""
    ck.case({"kind": "container", **case})
    ck.count("container-case")
    for j, s in enumerate(case["dims"]):
        col = [r[j] for r in case["X"]]
        fails = container_dim_fails(s, col, counts=ck.count)
        if fails:
            report_container(ck, {"dims": [s], "X": [[v] for v in col]}, fails, "dim")
    fails = container_space_fails(case, counts=ck.count)
    if fails:
        report_container(ck, case, fails, "space")
    # the list-held reference is what the model is compared with
    run = real_space_run(case)
    ofails = oracle(case, run)
    if ofails:
        report(ck, case, ofails)
    for f in l2_space(ck, d, case, run, ofails):
        report(ck, case, [f])


# --------------------------------------------------------------------------- spaces built the other ways

def spec_of_dim(dm):
    """a real skopt dimension -> spec dict"""
    from deephyper.skopt.space import Integer, Real

    if isinstance(dm, Real):
        s = {"k": "real", "lo": float(dm.low), "hi": float(dm.high), "prior": dm.prior, "tr": dm.transform_}
    elif isinstance(dm, Integer):
        s = {"k": "int", "lo": int(dm.low), "hi": int(dm.high), "prior": dm.prior, "tr": dm.transform_}
    else:
        return {"k": "cat", "cats": [untag(tag(c)) for c in dm.categories], "tr": dm.transform_}
    if dm.base != 10:
        s["base"] = dm.base
    return s


def same_dimension(dm, s):
    """does the real dimension object have the kind / bounds / prior / base / transformer of spec s?"""
    from deephyper.skopt.space import Categorical, Integer, Real

    if s["k"] == "cat":
        return isinstance(dm, Categorical) and [tag(c) for c in dm.categories] == [tag(c) for c in s["cats"]] and dm.transform_ == s["tr"]
    cls = Real if s["k"] == "real" else Integer
    return (type(dm) is cls and tag(dm.low) == tag(s["lo"]) and tag(dm.high) == tag(s["hi"]) and dm.prior == s["prior"]
            and dm.base == s.get("base", 10) and dm.transform_ == s["tr"])


def run_built_space(ck, d, kind, space, specs, X, case_extra):
    """checks of an already built Space object (fresh-object oracles + model + verified checkers)"""
    state = {"dims": specs, "X": X}
    run = real_space_run(state, space=space)
    fails = oracle(state, run)
    ck.case({"kind": kind, **state, **case_extra})
    ck.count("built:" + kind)
    for s, dm in zip(specs, space.dimensions):
        if not same_dimension(dm, s):
            ck.mismatch({"kind": kind, **case_extra}, {"what": kind + ": the dimension built is not the one declared", "declared": s, "built": repr(dm)})
            return
    # the plain accessors, stated directly
    want_bounds = [tuple(s["cats"]) if s["k"] == "cat" else (s["lo"], s["hi"]) for s in specs]
    acc = Out(lambda: ([tuple(b) for b in space.bounds], space.n_dims, [dm.is_constant for dm in space], space.is_real,
                       space.is_categorical, len(space.dimension_names)))
    if acc.exc is not None or [tuple(tag(v) for v in b) for b in acc.val[0]] != [tuple(tag(v) for v in b) for b in want_bounds] \
            or acc.val[1] != len(specs) or acc.val[2] != [s["k"] == "cat" and len(s["cats"]) <= 1 for s in specs] \
            or acc.val[3] != all(s["k"] == "real" for s in specs) or acc.val[4] != all(s["k"] == "cat" for s in specs):
        ck.mismatch({"kind": kind, **case_extra}, {"what": "Space.bounds / n_dims / is_constant / is_real / is_categorical", "got": repr(acc.exc or acc.val)[:300]})
    fails = fails + l2_space(ck, d, state, run, fails)
    fresh = oracle(state)
    if fails and not fresh:
        for f in fails:
            ck.fail(f"C09|{f[0]}|{kind}|{dimsig(specs[f[2]]) if f[2] is not None else 'space'}",
                    f"{f[0]} fails on a space built through {kind} although a directly constructed one is fine", {"kind": kind, **state, **case_extra}, f[3])
    elif fails:
        report(ck, state, fails)


def problem_space_case(ck, d, rng):
    """HpProblem declarations -> convert_to_skopt_space (what CBO does) -> for a GP surrogate normalize_dimensions
    (what Optimizer does): numeric ordinals arrive with the identity transform, categoricals label / one-hot"""
    from deephyper.hpo import HpProblem
    from deephyper.hpo._problem import convert_to_skopt_space
    from deephyper.skopt.utils import normalize_dimensions

    p = HpProblem()
    names = rng.sample(["lr", "units", "act", "opt", "drop", "layers", "k", "b", "a", "z"], rng.choice([1, 2, 3, 5]))
    decl = []
    for nm in names:
        k = rng.choice(["iu", "il", "fu", "fl", "cat", "ord_i", "ord_f", "const", "bool"])
        if k == "iu":
            lo = rng.choice([0, 1, -5, 10])
            v = (lo, lo + rng.choice([1, 3, 9, 1000, 2 ** 30]))
        elif k == "il":
            lo = rng.choice([1, 2, 8])
            v = (lo, lo * rng.choice([4, 100, 2 ** 20]), "log-uniform")
        elif k == "fu":
            lo = rng.choice([0.0, -1.0, 0.5])
            v = (lo, lo + rng.choice([1.0, 0.5, 1e3]))
        elif k == "fl":
            v = rng.choice([(1e-5, 1e-1, "log-uniform"), (3e-5, 7e3, "log-uniform"), (1.0, 32.0, "log-uniform"), (1e-10, 1e10, "log-uniform")])
        elif k == "cat":
            v = rng.sample(_WORDS, rng.choice([1, 2, 3, 5]))
        elif k == "ord_i":
            v = rng.sample([1, 2, 4, 8, 16, 3, 5], rng.choice([1, 2, 3, 4]))
        elif k == "ord_f":
            v = rng.sample([0.1, 0.25, 0.5, 1.5, 2.5], rng.choice([1, 2, 3]))
        elif k == "bool":
            v = [True, False]
        else:
            v = rng.choice([5, 2.5, "fixed"])
        p.add_hyperparameter(v, nm)
        decl.append({"name": nm, "value": list(v) if isinstance(v, tuple) else v, "tuple": isinstance(v, tuple)})
    surrogate = rng.choice(["RF", "ET", "GP", None])
    sp = convert_to_skopt_space(p.space, surrogate_model=surrogate)
    how = "convert_to_skopt_space"
    if surrogate == "GP" and rng.random() < 0.7:
        sp.dimensions = normalize_dimensions(sp.dimensions)
        how += "+normalize_dimensions"
    specs = [spec_of_dim(dm) for dm in sp.dimensions]
    if any(s["k"] == "cat" and s["tr"] == "identity" and len({cat_type(dict(s, cats=[c])) for c in s["cats"]}) > 1 for s in specs):
        return
    X = [[gen_point(rng, s) for s in specs] for _ in range(rng.choice([1, 2, 5, 9]))]
    run_built_space(ck, d, how, sp, specs, X, {"declarations": decl, "surrogate": surrogate})


def shorthand_of(s):
    """the check_dimension shorthand of a spec with default transformer, or None"""
    if s["k"] == "cat":
        c = s["cats"]
        if isinstance(c[0], str) or isinstance(c[0], bool) or len(c) in (1, 3) or len(c) > 4:
            if len(c) == 3 and c[2] in ("uniform", "log-uniform"):
                return None
            return list(c)
        return None  # [1, 2] is a range, a 4-list may be read as (low, high, prior, base)
    t = (s["lo"], s["hi"])
    if s["prior"] == "log-uniform":
        t = t + ("log-uniform",) + ((s["base"],) if "base" in s else ())
    elif "base" not in s and s["prior"] == "uniform":
        t = t if s.get("_short", True) else t + ("uniform",)
    return t


def shorthand_space_case(ck, d, rng):
    """Space([...shorthands...]) goes through check_dimension; Space.from_yaml through the class constructors"""
    import os
    import tempfile

    import yaml
    from deephyper.skopt.space import Space

    base = 2 if rng.random() < 0.2 else 10
    specs = []
    for _ in range(rng.choice([1, 2, 3, 4])):
        s = gen_dim(rng, base)
        s["tr"] = "onehot" if s["k"] == "cat" else "identity"  # the defaults of the shorthand forms
        specs.append(s)
    X = [[gen_point(rng, s) for s in specs] for _ in range(rng.choice([1, 3, 6]))]
    if rng.random() < 0.5:
        shs = [shorthand_of(dict(s, _short=rng.random() < 0.5)) for s in specs]
        if any(x is None for x in shs):
            return
        out = Out(lambda: Space(shs))
        how, extra = "check_dimension", {"shorthands": [list(x) if isinstance(x, tuple) else x for x in shs]}
    else:
        trs = []
        doc = []
        for s in specs:
            tr = rng.choice(MODELLED_TR[s["k"]]) if not (s["k"] == "cat" and not isinstance(s["cats"][0], (int, float))) else rng.choice(["label", "onehot", "normalize"])
            if s["k"] == "cat" and isinstance(s["cats"][0], bool) and tr == "identity":
                tr = "label"
            trs.append(tr)
            if s["k"] == "cat":
                doc.append({"Categorical": {"categories": list(s["cats"]), "transform": tr}})
            else:
                body = {"low": s["lo"], "high": s["hi"], "prior": s["prior"], "transform": tr}
                if "base" in s:
                    body["base"] = s["base"]
                doc.append({"Real" if s["k"] == "real" else "Integer": body})
        specs = [dict(s, tr=t) for s, t in zip(specs, trs)]
        fd, path = tempfile.mkstemp(suffix=".yaml", prefix="c09_")
        os.close(fd)
        try:
            with open(path, "w") as f:
                yaml.safe_dump({"Space": doc}, f)
            out = Out(lambda: Space.from_yaml(path))
        finally:
            os.unlink(path)
        how, extra = "Space.from_yaml", {"yaml": doc}
    if out.exc is not None:
        ck.mismatch({"kind": how, **extra}, {"what": how + " raises on a well-formed description", "error": repr(out.exc)[:300]})
        return
    run_built_space(ck, d, how, out.val, specs, X, extra)


def dim_malformed_cases(rng):
    """per-dimension calls that must raise, and what the API returns for 1-D / 2-D inputs"""
    s = gen_dim(rng, 2 if rng.random() < 0.2 else 10)
    col = [gen_point(rng, s) for _ in range(rng.choice([1, 2, 4]))]
    w = rng.random()
    op, payload = "dim_transform", None
    if s["k"] == "cat":
        if w < 0.5:
            bad = {"str": "not-a-category", "int": 10 ** 6 + 1, "float": 123.456, "bool": "maybe"}[cat_type(s)]
            if s["tr"] == "identity":
                return None
            col = col + [bad]
        else:
            n = len(s["cats"])
            op = "dim_inverse"
            if s["tr"] == "label":
                payload = [float(rng.choice([n + 2, -2, n - 1, 0]))]
            elif s["tr"] == "normalize":
                payload = [rng.choice([1.5, -0.5, 0.0, 1.0])]
            elif s["tr"] == "onehot" and n >= 3:
                return s, "dim_inverse_mat", [[rng.choice([0.0, 1.0, 0.5]) for _ in range(n)] for _ in range(2)]
            else:
                return None
    else:
        if w < 0.5 and s["tr"] == "normalize":
            span = (s["hi"] - s["lo"])
            far = s["hi"] + span if rng.random() < 0.5 else s["lo"] - span
            if s["k"] == "int":
                far = int(far)
            elif not math.isfinite(far) or (s["prior"] == "log-uniform" and far <= 0):
                far = s["hi"] * 4.0
                if not math.isfinite(far):
                    return None
            if s["prior"] == "log-uniform" and far <= 0:
                return None
            col = col + [far]
        elif s["tr"] == "normalize":
            op, payload = "dim_inverse", [rng.choice([1.5, -0.25, 2.0])]
        else:
            return None
    return s, op, payload if op != "dim_transform" else col


def run_dim_case(ck, d, item):
    s, op, data = item
    dim = mk_dim(s)
    wd = [wire_dim(s)]
    case = {"dims": [s], "op": op, "data": data}
    ck.case({"kind": "dim-api", **case})
    if op == "dim_transform":
        out = Out(lambda: dim.transform(list(data)))
        rep = d.ask({"op": "dim_transform", "dims": wd, "col": [tag(v) for v in data], "L": l_table([s], [[v] for v in data])})
        res = rep["res"]
        ck.count("dim_transform:" + ("raises:" + out.kind if out.exc is not None else "returns"))
        if out.exc is not None:
            if res.get("err") != out.kind:
                ck.mismatch(case, {"what": "Dimension.transform", "impl": "raises " + out.kind, "model": res})
        elif "err" in res:
            ck.mismatch(case, {"what": "Dimension.transform", "impl": "returns", "model": res})
        return
    if op == "dim_inverse_mat":
        arr = np.asarray(data, dtype=float)
        out = Out(lambda: dim.inverse_transform(arr))
        rep = d.ask({"op": "dim_inverse", "dims": wd, "c": {"mat": rows_of_matrix(arr)}})
    else:
        arr = np.asarray(data, dtype=float)
        out = Out(lambda: dim.inverse_transform(arr))
        lt = l_table([s], [])
        et = e_table([s], arr.reshape((-1, 1)))
        rep = d.ask({"op": "dim_inverse", "dims": wd, "c": {"vals": [tag(float(v)) for v in data]}, "L": lt, "E": et})
    res = rep["res"]
    ck.count("dim_inverse:" + ("raises:" + out.kind if out.exc is not None else "returns"))
    if out.exc is not None:
        if res.get("err") != out.kind:
            ck.mismatch(case, {"what": "Dimension.inverse_transform", "impl": "raises " + out.kind + " " + repr(out.exc)[:100], "model": res})
        return
    if "err" in res:
        ck.mismatch(case, {"what": "Dimension.inverse_transform", "impl": "returns " + repr(out.val)[:100], "model": res})
        return
    real = [tag(v) for v in list(out.val)]
    if real != res["vals"]:
        ck.mismatch(case, {"what": "Dimension.inverse_transform value", "impl": real, "model": res["vals"]})


def malformed_constructor(ck, rng):
    """constructor rejections (low >= high) are `wf = false` in the model"""
    s = gen_dim(rng)
    if s["k"] == "cat":
        return
    s = dict(s)
    s["lo"], s["hi"] = (s["hi"], s["lo"]) if rng.random() < 0.7 else (s["hi"], s["hi"])
    if s["prior"] == "log-uniform" and s["lo"] <= 0:
        return
    out = Out(lambda: mk_dim(s))
    ck.count("constructor:" + ("raises:" + out.kind if out.exc is not None else "accepts"))
    ck.case({"kind": "constructor", "dim": s}, nontrivial=False)
    if out.exc is None:
        ck.fail("C09|constructor-accepts|Dimension|low>=high", "a dimension with low >= high is accepted", {"dim": s})


def probe_big_integer_log(ck, d):
    """9b: Integer(1, high > 2^40, log-uniform) is outside the exactness claim; probed separately so the
    float64 limit is reported (as a recorded finding), not hidden by the generator's cap"""
    for hi in (10 ** 15, 2 ** 53, 10 ** 17):
        for tr in ("identity", "normalize"):
            s = {"k": "int", "lo": 1, "hi": hi, "prior": "log-uniform", "tr": tr}
            xs = [1, 2, 3, hi - 1, hi, hi // 3, 10 ** int(math.log10(hi)) - 1, 999, 1000, 1001]
            case = {"dims": [s], "X": [[x] for x in xs]}
            ck.case({"kind": "probe-big-int-log", **case})
            ck.count("probe:int-log-high>2^40")
            fails = oracle(case)
            if fails:
                report(ck, case, fails)


def probe_big_integer_uniform(ck, d):
    """uniform integers above 2**53 are exact only while no double is involved (all-integer spaces, generated above).
    Where the code goes through float64 (normalize, or a space with a real / one-hot... float column) or leaves np.int64
    (bounds >= 2**63, accepted by the constructor) the float64 / int64 limits show: probed here on every run so that they
    are reported (recorded findings), not hidden by the generators"""
    B = 2 ** 60 + 3
    probes = [
        {"dims": [{"k": "int", "lo": 0, "hi": B, "prior": "uniform", "tr": "normalize"}], "X": [[B], [2 ** 53 + 1], [5]]},
        {"dims": [{"k": "int", "lo": 0, "hi": B, "prior": "uniform", "tr": "identity"},
                  {"k": "real", "lo": 0.0, "hi": 1.0, "prior": "uniform", "tr": "identity"}], "X": [[B, 0.5], [7, 0.25]]},
        {"dims": [{"k": "int", "lo": 0, "hi": 2 ** 63, "prior": "uniform", "tr": "identity"}], "X": [[2 ** 63], [5]]},
        {"dims": [{"k": "int", "lo": 0, "hi": 2 ** 64, "prior": "uniform", "tr": "identity"}], "X": [[2 ** 64], [5]]},
    ]
    for case in probes:
        ck.case({"kind": "probe-big-int-uniform", **case})
        ck.count("probe:int-uniform>2^53")
        fails = oracle(case)
        if fails:
            report(ck, case, fails)


def corpus_cases():
    d = common.VERIF / "corpus" / "C09"
    for f in sorted(d.glob("*.json")):
        data = json.loads(f.read_text())
        yield f.name, data.get("case", data)


def run(ck):
    ck.rule = ("generated spaces of 1..8 mixed dimensions (real/int x uniform/log-uniform x identity/normalize, base 10 or 2; "
               "bounds: unit, powers of the base, negative, magnitudes 1e-300..1e300, awkward (3e-5,7e3); ints up to 2^40 (log-uniform claim), "
               "all-integer spaces with uniform ints up to +-(2^63-1) and int categories of any size; "
               "categories str/int/float/bool x label/onehot/normalize/identity(numeric)), 1..50 member rows on / next to the "
               "bounds and inside; arbitrary transformed points; malformed per-dimension calls; histories of 1-4 set_transformer "
               "switches (space string / per-dimension list / by type / dimension-level / normalize_dimensions / save-normalize-restore, "
               "incl. the pass-through 'string' transform) on ONE Space object, used before the first switch or not, with queries after "
               "every switch and the layout (get_transformer, sizes, transformed_n_dims, transformed_bounds) compared with the Lean state "
               "machine of Model/SpaceObject.lean; the same points / transformed points held as list, tuple, float64 / int64 / string / "
               "object / int32 / float32 ndarray (contiguous, read-only, strided, negative stride, Fortran order) through every "
               "Dimension / Space transform and inverse_transform (caller's object unchanged, values independent of the container, "
               "round trip); spaces built the other ways "
               "(HpProblem -> convert_to_skopt_space [-> normalize_dimensions], check_dimension shorthands, Space.from_yaml); "
               "verified Lean checkers (shape, bounds, round trip) on the real outputs; corpus first; "
               "non-trivial = at least one dimension that is not real/uniform/identity")
    ck.assumptions = [
        "np.log10 / ** are parameters of the model: observed values are passed as tables (L exact lookup, E nearest key with the distance checked)",
        "C09_roundtrip needs E(L x) = x and L monotone on the domain; float log/pow only satisfy it up to rounding: real values are compared within the stated tolerance, membership exactly",
        "exactness of integer log-uniform round trips is claimed for high <= 2^40 only (recorded finding above)",
        "scikit-learn LabelBinarizer (one-hot) and NumPy clip/round/argmax are modelled, compared on every case",
    ]
    ck.trusted_extra = ["NumPy float64 log10/pow (observed, passed to the model as tables)", "scikit-learn LabelBinarizer"]
    rng = ck.rng
    with ck.driver() as d:
        for name, case in corpus_cases():
            ck.count("corpus")
            if "steps" in case:
                run_history_case(ck, d, {k: v for k, v in case.items() if k != "kind"})
            elif case.get("kind") == "container":
                run_container_case(ck, d, {"dims": case["dims"], "X": case["X"]})
            elif "X" in case:
                run_space_case(ck, d, case, "corpus:" + name)
        probe_big_integer_log(ck, d)
        probe_big_integer_uniform(ck, d)
        for _ in range(ck.pick(150, 1500)):
            case = gen_allint_case(rng)
            for s in case["dims"]:
                ck.count("dim:" + dimsig(s))
            ck.count("allint-space")
            run_space_case(ck, d, case, "allint-space")
        n_space = ck.pick(400, 6000)
        for _ in range(n_space):
            case = gen_space_case(rng)
            for s in case["dims"]:
                ck.count("dim:" + dimsig(s))
            ck.count("ndims=%d" % len(case["dims"]))
            ck.count("rows=%s" % (len(case["X"]) if len(case["X"]) < 10 else "10+"))
            nontriv = any(not (s["k"] == "real" and s["prior"] == "uniform" and s["tr"] == "identity") for s in case["dims"])
            run_space_case(ck, d, case, "space", nontrivial=nontriv)
        for _ in range(ck.pick(250, 3000)):
            run_tpoint_case(ck, d, rng)
        for _ in range(ck.pick(260, 3000)):
            run_history_case(ck, d, gen_history_case(rng))
        for _ in range(ck.pick(120, 1500)):
            run_container_case(ck, d, gen_container_case(rng))
        for _ in range(ck.pick(120, 1000)):
            problem_space_case(ck, d, rng)
        for _ in range(ck.pick(120, 1200)):
            shorthand_space_case(ck, d, rng)
        for _ in range(ck.pick(300, 3000)):
            item = dim_malformed_cases(rng)
            if item is not None:
                run_dim_case(ck, d, item)
        for _ in range(ck.pick(40, 300)):
            malformed_constructor(ck, rng)


def replay(ck, case):
    with ck.driver() as d:
        if case.get("kind") == "history" or "steps" in case:
            fs = run_history(ck, d, case)
            print("replay: history failures on the current tree:", [(f[0], "step %d" % f[1]) for f in fs] or "none")
            run_history_case(ck, d, {k: v for k, v in case.items() if k != "kind"})
        elif case.get("kind") == "container":
            c = {"dims": case["dims"], "X": case["X"]}
            fs = container_space_fails(c) + [f for j, s in enumerate(c["dims"]) for f in container_dim_fails(s, [r[j] for r in c["X"]])]
            print("replay: container failures on the current tree:", sorted({(f[0], f[1], f[2]) for f in fs}) or "none")
            run_container_case(ck, d, c)
        elif "X" in case:
            fails = oracle(case)
            print("replay: oracle failures on the current tree:", [(f[0], f[1]) for f in fails] or "none")
            run_space_case(ck, d, case, "replay")
        elif "Xt" in case:
            from deephyper.skopt.space import Space

            sp = Space([mk_dim(s) for s in case["dims"]])
            out = Out(lambda: sp.inverse_transform(np.asarray(case["Xt"], dtype=float)))
            print("replay:", "raises " + repr(out.exc) if out.exc is not None else out.val)
            ck.case(case)
            if out.exc is None:
                for row in out.val:
                    for s, v in zip(case["dims"], row):
                        if not member_py(s, v):
                            api = {"real": "Real", "int": "Integer", "cat": "Categorical"}[s["k"]] + ".inverse_transform"
                            ck.fail(f"C09|member|{api}|{dimsig(s)}", "inverse_transform of an in-bounds transformed point is not a member", case, {"value": repr(v)})
