"""C04 — results table is a faithful, complete record of the evaluations.

L2 (correspondence with `Model/Dump.lean`, `Model/DumpPareto.lean`):
  * unit level: constructed `HPOJob`s go through the real `set_output` / `Evaluator._on_done` /
    `Evaluator.dump_jobs_done_to_csv` (no event loop); after every dump call the bytes appended to
    results.csv are parsed with the `csv` module and compared cell by cell with the lines the model
    writes in that step (numbers as exact Fractions), together with `evaluator.num_objective` and
    `len(evaluator.jobs_done)`; then the real `extend_results_with_pareto_efficient_indicator`
    is run and its column compared with the model's (same observed argsort order).
  * search level: full `search()` runs (RandomSearch, serial evaluator, scripted run-function
    outputs, 1-3 calls on one log_dir, 1-4 workers); the batches handed to the dump are observed
    by wrapping the public `dump_jobs_done_to_csv`, fed to the model, and the final file /
    DataFrame compared with the model's table.
L3 (oracle on the real code, independent of the model): one row per finished job, cells equal
    what the run-function received / returned (1e-12 relative for numbers), failure string in
    every objective column, status, metadata for header keys, pareto flags through the verified
    checker `DH.Pareto.checkMask` (theorem C11_checker).
"""
import asyncio
import csv
import itertools
import json
import math
import os
import shutil
import tempfile
from fractions import Fraction
from pathlib import Path

import numpy as np

from .common import HarnessError, VERIF, rat, unrat

PROP = "C04"
REL_TOL = Fraction(1, 10**12)

# --------------------------------------------------------------------------- value encoding

# The Python class of the container of a multi-objective output ("tuples/lists" of the property's return forms: every
# instance of tuple or list).  A NumPy array is not one of them: HPOJob.standardize_output rejects it (TypeError).
SEQ_KINDS = ("tuple", "list", "namedtuple", "tuple-subclass", "list-subclass")


class ObjectiveTuple(tuple):
    """a user's own tuple class"""


class ObjectiveList(list):
    """a user's own list class"""


_NAMEDTUPLES = {}


def make_seq(kind, xs):
    """the components `xs` in a container of class `kind`"""
    xs = list(xs)
    if kind == "list":
        return xs
    if kind == "namedtuple":
        import collections

        if len(xs) not in _NAMEDTUPLES:
            _NAMEDTUPLES[len(xs)] = collections.namedtuple("Objectives", [f"f{i}" for i in range(len(xs))])
        return _NAMEDTUPLES[len(xs)](*xs)
    if kind == "tuple-subclass":
        return ObjectiveTuple(xs)
    if kind == "list-subclass":
        return ObjectiveList(xs)
    return tuple(xs)


def seq_kind(v):
    """class of a container (None: not an instance of tuple / list)"""
    if type(v) is tuple:
        return "tuple"
    if type(v) is list:
        return "list"
    if isinstance(v, ObjectiveTuple):
        return "tuple-subclass"
    if isinstance(v, ObjectiveList):
        return "list-subclass"
    if isinstance(v, tuple):
        return "namedtuple" if hasattr(v, "_fields") else "tuple-subclass"
    if isinstance(v, list):
        return "list-subclass"
    return None


def enc(v):
    """Python value -> wire value (see Drivers/C04.lean)."""
    if v is None:
        return {"z": 0}
    if isinstance(v, str):
        return {"s": v}
    if isinstance(v, bool):
        raise HarnessError("bool values are not generated")
    if isinstance(v, (int, np.integer)):
        return {"n": rat(int(v))}
    if isinstance(v, (float, np.floating)):
        ty = type(v).__name__ if isinstance(v, np.floating) else None
        v = float(v)
        if math.isnan(v) or math.isinf(v):
            w = {"nf": "nan" if math.isnan(v) else ("inf" if v > 0 else "-inf")}
            if ty:
                w["ty"] = ty  # harness-only tag: the NumPy type that carried the non-finite value
            return w
        return {"n": rat(v)}
    if isinstance(v, tuple):
        w = {"l": [enc(x) for x in v], "t": 1}
        if type(v) is not tuple:
            w["k"] = seq_kind(v)  # harness-only tag: the class of the container
        return w
    if isinstance(v, list):
        w = {"l": [enc(x) for x in v]}
        if type(v) is not list:
            w["k"] = seq_kind(v)
        return w
    if isinstance(v, dict):
        return {"d": [[str(k), enc(x)] for k, x in v.items()]}
    raise HarnessError(f"cannot encode {type(v)}")


def dec(w):
    """wire value -> fresh Python value (floats for non-integral rationals)."""
    if w is None or "z" in w:
        return None
    if "s" in w:
        return w["s"]
    if "n" in w:
        q = unrat(w["n"])
        if w.get("f") or q.denominator != 1:
            return q.numerator / q.denominator
        return int(q) if w.get("i") else float(q)
    if "nf" in w:
        x = {"nan": float("nan"), "inf": float("inf"), "-inf": float("-inf")}[w["nf"]]
        return getattr(np, w["ty"])(x) if w.get("ty") else x
    if "l" in w:
        xs = [dec(x) for x in w["l"]]
        if w.get("k"):
            return make_seq(w["k"], xs)
        return tuple(xs) if w.get("t") else xs
    if "d" in w:
        return {k: dec(x) for k, x in w["d"]}
    raise HarnessError(f"cannot decode {w}")


def enc_typed(v):
    """like enc but remembers int-vs-float so that `dec` rebuilds the same Python object"""
    w = enc(v)
    if isinstance(v, (int, np.integer)) and not isinstance(v, bool):
        w["i"] = 1
    elif isinstance(v, tuple) or isinstance(v, list):
        w["l"] = [enc_typed(x) for x in v]
    elif isinstance(v, dict):
        w["d"] = [[str(k), enc_typed(x)] for k, x in v.items()]
    return w


def _plain_num(v):
    """NumPy scalars / bools -> Python numbers of the same value (for encoding only)"""
    if isinstance(v, (bool, np.bool_)):
        return int(v)
    if isinstance(v, np.generic):
        return _plain_num(v.item())
    if isinstance(v, tuple):
        return tuple(_plain_num(x) for x in v)
    if isinstance(v, list):
        return [_plain_num(x) for x in v]
    if isinstance(v, dict):
        return {k: _plain_num(x) for k, x in v.items()}
    return v


def text_to_fraction(text):
    try:
        return Fraction(int(text))
    except ValueError:
        return Fraction(float(text))  # raises on junk / nan / inf


def cell_matches(text, c, tol=None):
    """CSV text of one cell vs. the model's cell (None = key absent)."""
    if c is None or "z" in c:
        return text == ""
    if "s" in c:
        return text == c["s"]
    if "nf" in c:
        return text == c["nf"]
    if "n" in c:
        try:
            q = text_to_fraction(text)
        except (ValueError, OverflowError):
            return False
        want = unrat(c["n"])
        if tol is None:
            return q == want
        return abs(q - want) <= tol * max(abs(want), abs(q))
    return False


def read_csv_cells(path):
    if not os.path.exists(path):
        return None
    with open(path, newline="") as f:
        return list(csv.reader(f))


# --------------------------------------------------------------------------- generators

LABELS = ["F", "F_a", "F_timeout", "F_x,y", 'F_"q"', "F_ 1", "Fail", "F_CANCELLED",
          "F_line1\nline2", "F_cr\rx", "F_crlf\r\nend", "F_\u00e9\u2713", 'F_",\n"',
          # trailing white space belongs to the label ("the exact failure string")
          "F_oom\n", "F_timeout ", "F_tab\t", "F_x\r\n", "F_ \n ", "F  "]
META_POOL = ["a", "b", "num", "txt", "_hidden", "loss", "k,1", "\u00fc", 'q"k']
TEXTS = ["abc", "a,b", "x y", 'q"r', "1.0", "l1\nl2", "cr\rx", "l1\r\nl2", "\u00e9\u2713 \u4e2d", '","', " lead", "trail ", "'s"]


# extreme but finite magnitudes: near the largest double (sums / differences of two overflow), the
# smallest subnormal and normal, signed zeros, the largest integers a double holds exactly
EXTREMES = [1.5e308, -1.5e308, 1.2e308, 1e308, -1e308, 1.7976931348623157e308, -1.7976931348623157e308,
            5e-324, -5e-324, 2.2250738585072014e-308, 0.0, -0.0, 2**53 - 1, -(2**53 - 1), 10**15, 1e-300, 1e300]
OVERFLOW_TUPLES = [(1.5e308, 1.2e308), (-1.5e308, -1.5e308), (1.5e308, -1.5e308, 1.5e308), (1e308, 1e308, 1e308),
                   (1.7976931348623157e308, 1.7976931348623157e308), (-1e308, -1e308, 5e-324), (1.5e308, 1.5e308, -1.5e308)]


def gen_number(rng):
    if rng.random() < 0.08:
        return rng.choice(EXTREMES)
    k = rng.random()
    if k < 0.3:
        return rng.randint(-5, 5)
    if k < 0.4:
        return float(rng.randint(-3, 3)) + rng.choice([0.0, 0.25, 0.5, 0.5])
    if k < 0.5:
        return rng.choice([0.1 + 0.2, 1e-7, 1e22, -0.0, 2.0**-30, 123456.789, 1 / 3])
    return rng.uniform(-10, 10)


def gen_meta(rng):
    keys = [k for k in META_POOL if rng.random() < 0.3]
    rng.shuffle(keys)
    md = {}
    for k in keys:
        r = rng.random()
        md[k] = rng.randint(0, 9) if r < 0.4 else (rng.uniform(0, 1) if r < 0.7 else rng.choice(TEXTS))
    return md


def gen_container(rng, xs):
    """the components in a container of one of the classes a run-function may use (half of them plain tuples)"""
    r = rng.random()
    kind = "tuple" if r < 0.5 else "list" if r < 0.7 else "namedtuple" if r < 0.8 else "tuple-subclass" if r < 0.9 else "list-subclass"
    return make_seq(kind, xs)


def gen_objective(rng, m, p_fail, kinds):
    """-> (python objective value, kind) ; kind in success / str / nonfin / nonfin-in-tuple"""
    if rng.random() < p_fail:
        kind = rng.choice(kinds)
        if kind == "str":
            return rng.choice(LABELS), "str"
        ty = rng.choice([float, float, np.float64, np.float32, np.float16])  # the type that carries the value
        if kind == "nonfin":
            return ty(rng.choice([float("nan"), float("inf"), float("-inf")])), "nonfin"
        if m > 1:
            xs = [gen_number(rng) for _ in range(m)]
            xs[rng.randrange(m)] = ty(rng.choice([float("nan"), float("inf"), float("-inf")]))
            return gen_container(rng, xs), "nonfin-in-tuple"
        return float("nan"), "nonfin"
    if m == 1:
        return gen_number(rng), "success"
    if rng.random() < 0.06:
        # finite objectives whose sum (or partial sums) overflow a double: still a success
        xs = list(rng.choice([t for t in OVERFLOW_TUPLES if len(t) >= m] or OVERFLOW_TUPLES))[:m]
        while len(xs) < m:
            xs.append(rng.choice(EXTREMES[:7]))
        return gen_container(rng, xs), "success"
    xs = [gen_number(rng) for _ in range(m)]
    return gen_container(rng, xs), "success"


def wrap_form(rng, obj):
    """one of the supported return forms around an objective value -> (raw, form name)"""
    r = rng.random()
    if r < 0.4:
        return obj, "plain"
    if r < 0.55:
        return {"objective": obj}, "dict"
    if r < 0.75:
        return {"objective": obj, "metadata": gen_meta(rng)}, "dict+meta"
    if r < 0.85:
        return {"output": obj, "metadata": gen_meta(rng)}, "profiled-plain"
    if r < 0.95:
        return {"output": {"objective": obj, "metadata": gen_meta(rng)}, "metadata": gen_meta(rng)}, "profiled-dict"
    return {"objective": obj, "metadata": gen_meta(rng), "extra": 1}, "dict+extra"


MALFORMED = [
    None,
    {"metadata": {"a": 1}},
    {"objective": 1.0, "metadata": 3},
    {"objective": 1.0, "metadata": "ab"},
    {"objective": 1.0, "metadata": None},
    {"objective": 1.0, "metadata": ""},
    {"objective": 1.0, "metadata": []},
    {"output": None},
    {"output": {"metadata": {}}},
    {"output": 1.0, "metadata": 5},
    {"output": {"objective": 2, "metadata": 7}, "metadata": {"a": 1}},
    {},
    {"output": {"output": 1.0}},
]


CHOICES = ["a", "b", "c d", "b,c", 'q"r', "l1\nl2", "cr\rx", "\u00fc\u2713"]


def gen_args(rng, weird=False):
    d = {"x": rng.uniform(0, 1), "k": rng.randint(1, 10), "c": rng.choice(CHOICES)}
    if weird:  # hyperparameter names are free text for the evaluator
        d[weird] = rng.choice(TEXTS)
    return d


def gen_unit_case(rng, force=None):
    m = rng.choice([1, 1, 2, 2, 3])
    n = rng.randint(1, 8)
    p_fail = rng.choice([0.0, 0.2, 0.5, 0.8, 1.0])
    kinds = rng.choice([["str"], ["str", "nonfin"], ["str", "nonfin", "nonfin-in-tuple"], ["nonfin-in-tuple"]])
    jobs = []
    weird = rng.random() < 0.3  # all jobs of a search share their hyperparameter names
    wkey = rng.choice(["a,b", 'q"n', "l\nn", "\u00fc", "sp ace"])
    for i in range(n):
        pf = p_fail
        if force == "fail-first" and i == 0:
            pf = 1.0
        obj, kind = gen_objective(rng, m, pf, kinds)
        cancelled = rng.random() < 0.05
        if cancelled:
            raw, form, kind = "F_CANCELLED", "plain", "str"
        else:
            raw, form = wrap_form(rng, obj)
        jobs.append({
            "args": enc_typed(gen_args(rng, weird=wkey if weird else False)),
            "status": "CANCELLED" if cancelled else rng.choice(["RUNNING"] * 9 + ["DONE"]),
            "meta0": enc_typed({"timestamp_submit": rng.uniform(0, 1)} if rng.random() < 0.9 else gen_meta(rng)),
            "out": enc_typed(raw), "form": form, "kind": kind,
        })
    order = list(range(n))
    if rng.random() < 0.5:
        rng.shuffle(order)
    ops, left = [], n
    midflush = rng.random() < 0.2
    while left > 0:
        c = min(left, rng.randint(1, 4))
        ops.append([c, midflush and rng.random() < 0.3])
        left -= c
        if rng.random() < 0.1:
            ops.append([0, False])
    ops.append([0, True])
    preset = None
    if rng.random() < 0.05:
        preset = m
    return {"level": "unit", "m": m, "preset": preset, "jobs": jobs, "order": order, "ops": ops,
            "dump_evals": rng.random() < 0.05}


# --------------------------------------------------------------------------- classification / fingerprints


def obj_kind_wire(w):
    """class of the container of the objectives inside an output in wire form (None: not a sequence)"""
    if isinstance(w, dict) and "d" in w:
        d = dict((k, v) for k, v in w["d"])
        if "output" in d:
            return obj_kind_wire(d["output"])
        if "objective" not in d:
            return None
        w = d["objective"]
    if isinstance(w, dict) and "l" in w:
        return w.get("k") or ("tuple" if w.get("t") else "list")
    return None


def expected_objective(raw):
    """independent reference for what the objective of a raw output is (None = malformed)."""
    if isinstance(raw, dict) and "output" in raw:
        raw = raw["output"]
    if isinstance(raw, dict):
        if "objective" not in raw:
            return None
        raw = raw["objective"]
    return raw


def is_failure_obj(o):
    if isinstance(o, str):
        return True
    num = (int, float, np.integer, np.floating)
    if isinstance(o, num):
        return not math.isfinite(o)
    if isinstance(o, (tuple, list)):
        return any(isinstance(x, num) and not math.isfinite(x) for x in o)
    return False


def classify(objs, m, midflush=False):
    """option predicates of a history (list of objective values in finishing order)"""
    fails = [is_failure_obj(o) for o in objs]
    tags = ["moo" if m > 1 else "single"]
    if any(fails) and not all(fails):
        first_ok = fails.index(False)
        if first_ok > 0:
            tags.append("failure-before-first-success")
    if all(fails) and fails:
        tags.append("all-failed")
    if any(isinstance(o, (tuple, list)) and is_failure_obj(o) for o in objs):
        tags.append("nonfinite-in-tuple")
    if midflush:
        tags.append("flush-before-first-success")
    return ",".join(tags)


# --------------------------------------------------------------------------- real code, unit level


def _mk_search(tmp, storage_cls=None):
    from deephyper.evaluator import Evaluator
    from deephyper.evaluator.storage import MemoryStorage
    from deephyper.hpo import HpProblem, RandomSearch

    async def run(job):  # never executed at unit level
        return 0.0

    storage = MemoryStorage()
    sid = storage.create_new_search()
    ev = Evaluator.create(run, method="serial", method_kwargs={"storage": storage, "search_id": sid})
    p = HpProblem()
    p.add_hyperparameter((0.0, 1.0), "x")
    s = RandomSearch(p, ev, random_state=0, log_dir=tmp)
    return s, ev, storage, sid


class _NpSpy:
    def __init__(self):
        self.orders = []

    def argsort(self, a, *args, **kw):
        o = np.argsort(a, *args, **kw)
        self.orders.append([int(i) for i in o])
        return o

    def __getattr__(self, k):
        return getattr(np, k)


def pareto_step(search):
    """run the real pareto step, returning (raised?, observed argsort order)"""
    import deephyper.skopt.moo._pf as pf
    import deephyper.hpo._search as hs

    spy = _NpSpy()
    saved = (pf.np,)
    pf.np = spy
    try:
        try:
            search.extend_results_with_pareto_efficient_indicator()
            return None, (spy.orders[-1] if spy.orders else [])
        except Exception as e:  # noqa
            return f"{type(e).__name__}: {str(e)[:80]}", []
    finally:
        pf.np = saved[0]


def run_unit_real(case):
    """drive the real code on a unit case; returns the observation dict"""
    from deephyper.evaluator import HPOJob, JobStatus

    tmp = tempfile.mkdtemp(prefix="c04u_")
    try:
        s, ev, storage, sid = _mk_search(tmp)
        if case.get("preset") is not None:
            ev.num_objective = case["preset"]
        path = os.path.join(tmp, "results.csv")
        jids = [storage.create_new_job(sid) for _ in case["jobs"]]
        obs_jobs, ready, numtext = [], [], {}
        for idx in case["order"]:
            spec = case["jobs"][idx]
            job = HPOJob(jids[idx], dec(spec["args"]), None, storage)
            job.status = JobStatus[spec["status"]]
            job.metadata.update(dec(spec["meta0"]))
            raw = dec(spec["out"])
            try:
                job.set_output(raw)
            except Exception as e:
                obs_jobs.append({"idx": idx, "err": type(e).__name__})
                continue
            ev._on_done(job)
            _collect_numtext(numtext, [job.args, job.objective, job.metadata, int(jids[idx].split(".")[1])])
            obs_jobs.append({"idx": idx, "err": None, "objective": enc(job.objective), "status": job.status.name,
                             "meta": [[k, enc(v)] for k, v in job.metadata.items()],
                             "tg": enc(job.metadata["timestamp_gather"]), "id": int(jids[idx].split(".")[1])})
            ready.append(job)
        steps, prev_rows, pos = [], 0, 0
        for cnt, fl in case["ops"]:
            batch = ready[pos:pos + cnt]
            pos += cnt
            ev.jobs_done.extend(batch)
            try:
                if case.get("dump_evals"):  # the deprecated alias
                    import warnings

                    with warnings.catch_warnings():
                        warnings.simplefilter("ignore")
                        ev.dump_evals(log_dir=tmp, flush=bool(fl))
                else:
                    ev.dump_jobs_done_to_csv(log_dir=tmp, flush=bool(fl))
            except Exception as e:
                steps.append({"raised": f"{type(e).__name__}: {str(e)[:80]}"})
                break
            cells = read_csv_cells(path) or []
            header = cells[0] if cells else None
            body = cells[1:] if cells else []
            steps.append({"header": header, "new": body[prev_rows:], "num_objective": ev.num_objective,
                          "pending": len(ev.jobs_done)})
            prev_rows = len(body)
        pre = read_csv_cells(path)
        raw_text = None
        if os.path.exists(path):
            with open(path, newline="") as f:  # same default encoding as the writer
                raw_text = f.read()
        perr, order = (None, [])
        final = pre
        if pre:
            perr, order = pareto_step(s)
            final = read_csv_cells(path)
        return {"jobs": obs_jobs, "steps": steps, "pre": pre, "final": final, "pareto_err": perr, "order": order,
                "raw_text": raw_text, "numtext": numtext}
    finally:
        shutil.rmtree(tmp, ignore_errors=True)


def _collect_numtext(table, values):
    """how Python prints the numbers that can end up in a cell: Fraction -> str(value); a rational
    printed in two ways in one case (3 and 3.0) makes the table ambiguous -> None"""
    for v in values:
        if isinstance(v, dict):
            _collect_numtext(table, list(v.values()))
        elif isinstance(v, (tuple, list)):
            _collect_numtext(table, list(v))
        elif isinstance(v, (int, float, np.integer, np.floating)) and not isinstance(v, bool):
            if isinstance(v, (float, np.floating)) and not math.isfinite(v):
                continue
            q = Fraction(v)
            t = str(v)
            if table.get(q, t) != t:
                table[q] = None
            else:
                table[q] = t


def numtext_wire(table):
    if any(t is None for t in table.values()):
        return None
    return [[f"{q.numerator}/{q.denominator}", t] for q, t in table.items()]


def unit_request(case, obs, old=False):
    jobs = []
    tg = {o["idx"]: o for o in obs["jobs"]}
    for idx in case["order"]:
        spec = case["jobs"][idx]
        o = tg[idx]
        jobs.append({"id": o.get("id", idx), "args": spec["args"]["d"], "status": spec["status"],
                     "meta0": spec["meta0"]["d"], "out": spec["out"], "tg": o.get("tg", {"n": "0/1"}),
                     "kind": obj_kind_wire(spec["out"])})
    req = {"op": "scenario", "preset": case.get("preset"), "old": old, "jobs": jobs, "ops": case["ops"],
           "order": obs["order"]}
    nt = numtext_wire(obs.get("numtext", {}))
    if nt is not None and obs.get("raw_text") is not None:
        req["numtext"], req["want_text"] = nt, True
    return req


ERRMAP = {"badType": ("TypeError",), "noObjective": ("ValueError",), "badMetadata": ("TypeError", "ValueError", "AttributeError")}


def compare_unit(ck, case, obs, rep):
    """L2: model reply vs real observation. returns list of discrepancies"""
    bad = []
    for o, mj in zip(obs["jobs"], rep["jobs"]):
        if (o["err"] is None) != (mj["err"] is None):
            bad.append({"job": o["idx"], "impl_err": o["err"], "model_err": mj["err"]})
            continue
        if o["err"] is not None:
            if o["err"] not in ERRMAP[mj["err"]]:
                bad.append({"job": o["idx"], "impl_err": o["err"], "model_err": mj["err"]})
            ck.count("std-error:" + mj["err"])
            continue
        if not _val_eq(o["objective"], mj["objective"]) or o["status"] != mj["status"]:
            bad.append({"job": o["idx"], "impl": [o["objective"], o["status"]], "model": [mj["objective"], mj["status"]]})
        if [[k, _norm(v)] for k, v in o["meta"]] != [[k, _norm(v)] for k, v in mj["meta"]]:
            bad.append({"job": o["idx"], "impl_meta": o["meta"], "model_meta": mj["meta"]})
    if len(obs["steps"]) != len(rep["steps"]):
        bad.append({"steps": "real dump raised", "impl": obs["steps"][-1:]})
    seen_header = None
    for k, (so, sm) in enumerate(zip(obs["steps"], rep["steps"])):
        if "raised" in so:
            bad.append({"step": k, "impl": so})
            break
        ck.count("branch:" + sm["branch"])
        if sm["header"] is not None:
            seen_header = sm["header"]
        if so["header"] != seen_header:
            bad.append({"step": k, "impl_header": so["header"], "model_header": seen_header})
        if so["num_objective"] != sm["numObjective"] or so["pending"] != sm["pending"]:
            bad.append({"step": k, "impl_state": [so["num_objective"], so["pending"]], "model_state": [sm["numObjective"], sm["pending"]]})
        if len(so["new"]) != len(sm["rows"]):
            bad.append({"step": k, "impl_lines": len(so["new"]), "model_lines": len(sm["rows"])})
            continue
        for r, (lo, lm) in enumerate(zip(so["new"], sm["rows"])):
            if len(lo) != len(lm) or not all(cell_matches(t, c) for t, c in zip(lo, lm)):
                bad.append({"step": k, "line": r, "impl": lo, "model": lm})
    # the bytes of the file before the Pareto rewrite vs the model's rendering (csv quoting, \r\n)
    if obs.get("raw_text") is not None and len(obs["steps"]) == len(rep["steps"]) and rep["steps"] and not bad:
        mt = rep["steps"][-1].get("text")
        if mt is None:
            ck.count("bytes:not-compared(ambiguous number text)")
        elif mt != obs["raw_text"]:
            bad.append({"bytes": "file differs from the model's rendering", "impl": obs["raw_text"][:400], "model": mt[:400]})
        else:
            ck.count("bytes:equal")
            if any(ch in obs["raw_text"] for ch in ('"',)):
                ck.count("bytes:equal,with-quoted-cells")
    # pareto step
    par = rep["pareto"]
    if obs["pre"]:
        if obs["pareto_err"] is not None:
            if par["kind"] != "raises":
                bad.append({"pareto": "impl raised", "err": obs["pareto_err"], "model": par})
        elif par["kind"] == "raises":
            bad.append({"pareto": "model raises, impl did not"})
        elif par["kind"] == "none":
            if obs["final"] != obs["pre"]:
                bad.append({"pareto": "file changed although there is at most one objective column"})
        elif par["kind"] == "flags":
            hdr = obs["final"][0]
            if hdr[-1] != "pareto_efficient" or hdr[:-1] != obs["pre"][0]:
                bad.append({"pareto": "header", "impl": hdr})
            else:
                flags = [row[-1] == "True" for row in obs["final"][1:]]
                if flags != par["flags"]:
                    bad.append({"pareto": "flags", "impl": flags, "model": par["flags"]})
                # the rewrite through pandas must keep every cell (1e-12 relative for numbers)
                for r, (lo, lm) in enumerate(zip(obs["final"][1:], rep["table"]["rows"])):
                    if len(lo) - 1 != len(lm) or not all(cell_matches(t, c, REL_TOL) for t, c in zip(lo[:-1], lm)):
                        bad.append({"pareto": "rewritten line differs", "line": r, "impl": lo, "model": lm})
        ck.count("pareto:" + par["kind"])
    return bad


def _norm(w):
    """wire value with the harness-only type tags removed"""
    if w is None:
        return None
    w = {k: v for k, v in w.items() if k not in ("i", "t", "f", "ty", "k")}
    if "l" in w:
        w["l"] = [_norm(x) for x in w["l"]]
    if "d" in w:
        w["d"] = [[k, _norm(x)] for k, x in w["d"]]
    return w


def _val_eq(a, b):
    return _norm(a) == _norm(b)


# --------------------------------------------------------------------------- L3 oracle


def num_close(text, want):
    try:
        q = text_to_fraction(text)
    except (ValueError, OverflowError):
        return False
    w = Fraction(want)
    return abs(q - w) <= REL_TOL * max(abs(q), abs(w))


def value_cell_ok(text, v):
    if v is None:
        return text == ""
    if isinstance(v, str):
        return text == v
    if isinstance(v, (int, float)) and not isinstance(v, bool):
        if isinstance(v, float) and not math.isfinite(v):
            return False
        return num_close(text, v)
    return text == str(v)


def oracle_table(cells, finished, m_declared, need_meta=True):
    """The property, stated directly.  `cells` = parsed CSV (header + lines, pareto column allowed);
    `finished` = list of dicts {id, args, raw, status, meta(dict of what the job returned)} in finishing
    order.  Returns list of (clause, detail)."""
    out = []
    if finished and cells and need_meta:
        # "the metadata keys known when the table header was written": the header is written at the first
        # success, so the metadata keys of the first non-failed job must be columns
        first_ok = next((f for f in finished if not is_failure_obj(expected_objective(f["raw"]))), None)
        if first_ok is not None:
            missing = [k for k in first_ok["meta"] if not k.startswith("_") and f"m:{k}" not in cells[0]]
            if missing:
                out.append(("header-metadata-keys", {"first_success_job": first_ok["id"], "missing": missing, "header": cells[0]}))
    if not finished:
        return out
    if not cells:
        return [("missing-table", "no results.csv / empty although jobs finished")]
    hdr, body = cells[0], cells[1:]
    col = {c: i for i, c in enumerate(hdr)}
    if len(col) != len(hdr):
        out.append(("duplicate-columns", hdr))
    if "job_id" not in col:
        return [("no-job_id-column", hdr)]
    ids = []
    for line in body:
        if len(line) != len(hdr):
            out.append(("ragged-line", line))
            return out
        ids.append(line[col["job_id"]])
    want_ids = sorted(str(f["id"]) for f in finished)
    if sorted(ids) != want_ids:
        out.append(("rows-not-in-bijection-with-jobs", {"rows": sorted(ids), "jobs": want_ids}))
        return out
    objs = {f["id"]: expected_objective(f["raw"]) for f in finished}
    succ = [o for o in objs.values() if not is_failure_obj(o)]
    arities = {len(o) if isinstance(o, (tuple, list)) else 1 for o in succ}
    ocols = [c for c in hdr if c.startswith("objective")]
    if len(arities) == 1:
        a = arities.pop()
        want_cols = ["objective"] if (a == 1 and not isinstance(succ[0], (tuple, list))) else [f"objective_{i}" for i in range(a)]
        if ocols != want_cols:
            out.append(("objective-columns", {"header": ocols, "expected": want_cols}))
            return out
    elif not ocols:
        out.append(("objective-columns", {"header": ocols, "expected": "at least one"}))
        return out
    by_id = {line[col["job_id"]]: line for line in body}
    for f in finished:
        line = by_id[str(f["id"])]
        for k, v in f["args"].items():
            if f"p:{k}" not in col:
                out.append(("configuration-column-missing", k))
            elif not value_cell_ok(line[col[f"p:{k}"]], v):
                out.append(("configuration-cell", {"job": f["id"], "key": k, "cell": line[col[f"p:{k}"]], "value": repr(v)}))
        o = objs[f["id"]]
        if is_failure_obj(o):
            for c in ocols:
                t = line[col[c]]
                if isinstance(o, str):
                    if t != o:
                        out.append(("failure-string-cell", {"job": f["id"], "column": c, "cell": t, "returned": o}))
                elif not t.startswith("F"):
                    out.append(("nonfinite-not-marked", {"job": f["id"], "column": c, "cell": t, "returned": repr(o)}))
        else:
            comps = list(o) if isinstance(o, (tuple, list)) else [o]
            if len(comps) == len(ocols):
                for c, v in zip(ocols, comps):
                    if not value_cell_ok(line[col[c]], v):
                        out.append(("objective-cell", {"job": f["id"], "column": c, "cell": line[col[c]], "returned": repr(v)}))
            else:
                out.append(("objective-cell", {"job": f["id"], "cells": [line[col[c]] for c in ocols], "returned": repr(o)}))
        if "job_status" not in col or line[col["job_status"]] != f["status"]:
            out.append(("status-cell", {"job": f["id"], "cell": line[col.get("job_status", 0)], "status": f["status"]}))
        for k, v in f["meta"].items():
            if k.startswith("_"):
                if f"m:{k}" in col:
                    out.append(("internal-metadata-dumped", k))
                continue
            if f"m:{k}" in col and not value_cell_ok(line[col[f"m:{k}"]], v):
                out.append(("metadata-cell", {"job": f["id"], "key": k, "cell": line[col[f"m:{k}"]], "value": repr(v)}))
        for c in hdr:
            if c.startswith("m:") and c[2:] not in f["meta"] and c[2:] not in ("timestamp_submit", "timestamp_gather", "timestamp_start", "timestamp_end") and line[col[c]] != "":
                out.append(("metadata-cell-invented", {"job": f["id"], "column": c, "cell": line[col[c]]}))
    return out


def returned_meta(raw):
    md = {}
    if isinstance(raw, dict) and "output" in raw:
        if isinstance(raw.get("metadata"), dict):
            md.update(raw["metadata"])
        raw = raw["output"]
    if isinstance(raw, dict) and isinstance(raw.get("metadata"), dict):
        md.update(raw["metadata"])
    return md


def pareto_requests(cells):
    """-> (request for the verified checker | None, failed-rows-flagged?)"""
    hdr, body = cells[0], cells[1:]
    ocols = [i for i, c in enumerate(hdr) if c.startswith("objective")]
    if len(ocols) <= 1:
        return None, None
    if hdr[-1] != "pareto_efficient":
        return "missing", None
    pts, mask, bad = [], [], False
    for line in body:
        if len(line) != len(hdr):
            return "non-numeric", None  # ragged line: reported by the table oracle
        texts = [line[i] for i in ocols]
        flag = line[-1] == "True"
        if any(t.startswith("F") for t in texts):
            bad = bad or flag
            continue
        try:
            pts.append([rat(-float(t)) for t in texts])
        except ValueError:
            return "non-numeric", None
        mask.append(flag)
    return {"op": "pareto_check", "pts": pts, "mask": mask}, bad


# --------------------------------------------------------------------------- search level


EVAL_KINDS = ["fresh", "callable", "callable-sync", "reuse"]


def _searches_of(case):
    """histories over Search objects; older cases only have `calls` (one Search, fresh evaluator)"""
    if "searches" in case:
        return case["searches"]
    return [{"evaluator": "fresh", "calls": case["calls"]}]


def gen_search_case(rng, force=None):
    m = rng.choice([1, 1, 2, 2, 3])
    n = rng.randint(1, 8)
    p_fail = rng.choice([0.0, 0.3, 0.6, 1.0])
    kinds = rng.choice([["str"], ["str", "nonfin"], ["str", "nonfin", "nonfin-in-tuple"]])
    outs = []
    for i in range(n):
        pf = 1.0 if (force == "fail-first" and i == 0) else p_fail
        obj, kind = gen_objective(rng, m, pf, kinds)
        if force == "fail-first" and i == 1:
            obj, kind = gen_objective(rng, m, 0.0, kinds)
        raw, form = wrap_form(rng, obj)
        outs.append(enc_typed(raw))
    nsearch = rng.choice([1, 1, 2, 2, 3])
    searches = []
    for i in range(nsearch):
        ev = "fresh" if i == 0 and rng.random() < 0.7 else rng.choice(EVAL_KINDS if i > 0 else EVAL_KINDS[:3])
        if i > 0 and rng.random() < 0.4:
            ev = "reuse"
        ncalls = rng.choice([1, 1, 1, 2] if nsearch > 1 else [1, 1, 1, 2, 3])
        searches.append({"evaluator": ev, "calls": [rng.randint(1, max(1, n // (ncalls * nsearch) + 1)) for _ in range(ncalls)]})
    if force == "idle-search":
        # a Search object on a log_dir that already holds results whose search() calls finish NO evaluation (the empty
        # output sequence), possibly followed by one that finishes some again
        if len(searches) < 2:
            searches.append({"evaluator": rng.choice(EVAL_KINDS), "calls": [1]})
        i = rng.randrange(1, len(searches))
        searches[i]["calls"] = [0] * rng.choice([1, 1, 2])
        if rng.random() < 0.5:
            searches.insert(i + 1, {"evaluator": rng.choice(EVAL_KINDS), "calls": [rng.choice([1, 1, 2])]})
        nsearch = len(searches)
    case = {"level": "search", "cls": "RandomSearch", "m": m, "outs": outs, "searches": searches,
            "num_workers": rng.choice([1, 1, 2, 3, 4]), "seed": rng.randint(0, 10**6),
            "profile": rng.random() < 0.15}
    # categorical values / hyperparameter names with commas, quotes, newlines, carriage returns, unicode
    case["choices"] = rng.sample(CHOICES, rng.randint(2, 4)) if rng.random() < 0.5 else ["a", "b", "c d"]
    case["hp_names"] = [rng.choice(["a,b", 'q"n', "l\nn", "\u00fc", "sp ace"])] if rng.random() < 0.2 else []
    # run-functions that really wait (ms): jobs of one batch finish at different times, some are only
    # collected by the final gather("ALL")
    case["delays"] = [rng.choice([0, 0, 1, 3, 6]) for _ in range(rng.randint(1, 4))] if rng.random() < 0.3 else []
    for i, sp in enumerate(searches):
        if i > 0 and rng.random() < (0.35 if sp["evaluator"] == "reuse" else 0.1):
            sp["new_dir"] = True  # this Search uses another log_dir: no results.csv there
        if rng.random() < 0.15:
            sp["strict"] = True  # search(max_evals_strict=True)
        if rng.random() < 0.08 and sp["calls"]:
            sp["calls"][rng.randrange(len(sp["calls"]))] = 0  # search(max_evals=0): nothing is evaluated
    # all Search objects constructed before the first search() call (results.csv does not exist yet)
    if nsearch > 1 and rng.random() < 0.15:
        case["create_first"] = True
    return case


def gen_timeout_case(rng):
    """a search stopped by its time budget: the jobs still running are cancelled and recorded"""
    m = rng.choice([1, 2])
    outs = []
    for _ in range(rng.randint(1, 4)):
        obj, _k = gen_objective(rng, m, 0.3, ["str"])
        outs.append(enc_typed(obj))
    return {"level": "search", "cls": "RandomSearch", "m": m, "outs": outs,
            "searches": [{"evaluator": rng.choice(["fresh", "callable"]), "calls": [1], "timeout": True}],
            "num_workers": rng.choice([1, 2, 3]), "seed": rng.randint(0, 10**6), "profile": False,
            "choices": ["a", "b"], "hp_names": [], "delays": [rng.choice([230, 310, 420])]}


def run_search_real(case):
    """A history over Search objects on one log_dir.  Observed without private attributes: the
    public `Evaluator.dump_jobs_done_to_csv` is wrapped at class level (which evaluator instance
    dumps which jobs with which flush), np.argsort of the Pareto step, and after every search()
    call the returned DataFrame and results.csv."""
    import deephyper.skopt.moo._pf as pf
    from deephyper.evaluator import Evaluator, profile
    from deephyper.hpo import HpProblem, RandomSearch

    tmp = tempfile.mkdtemp(prefix="c04s_")
    outs = case["outs"]
    delays = case.get("delays") or []
    log = {}  # (evaluator index, job id) -> what the run-function saw / returned
    counter = itertools.count()
    lock = __import__("threading").Lock()

    def make_run(eidx, sync):
        def body(job):
            with lock:
                k = next(counter)
            raw = dec(outs[k % len(outs)])
            log[(eidx, int(str(job.id).split(".")[-1]))] = {"args": dict(job.parameters), "raw_wire": outs[k % len(outs)], "k": k}
            return raw, (delays[k % len(delays)] / 1000.0 if delays else 0.0)

        if sync:
            def run(job):
                raw, d = body(job)
                if d:
                    __import__("time").sleep(d)
                return raw
        else:
            async def run(job):
                raw, d = body(job)
                if d:
                    await asyncio.sleep(d)
                return raw
        fn = profile(run) if case.get("profile") else run
        fn._eidx = eidx
        return fn

    events = []  # ("new_search", model choice) | ("dump", eidx, [job snapshots], flush) | ("call_end", {...})
    seen, instances = set(), {}
    orig = Evaluator.dump_jobs_done_to_csv

    def spy(self, log_dir=".", filename="results.csv", flush=False):
        eidx = getattr(self.run_function, "_eidx", None)
        instances[eidx] = self
        new = []
        for j in self.jobs_done:
            if id(j) not in seen:
                seen.add(id(j))
                jid = int(str(j.id).split(".")[-1])
                new.append({"id": jid, "eidx": eidx, "status": j.status.name, "meta": [[k, enc(v)] for k, v in j.metadata.items()],
                            "args": enc_typed(dict(j.args)), "objective": enc(j.objective)})
        events.append(("dump", eidx, new, bool(flush)))
        return orig(self, log_dir=log_dir, filename=filename, flush=flush)

    npspy = _NpSpy()
    saved_np = pf.np
    Evaluator.dump_jobs_done_to_csv = spy
    pf.np = npspy
    keep = []  # jobs must stay alive: `seen` is keyed by id()
    err = None
    try:
        p = HpProblem()
        p.add_hyperparameter((0.0, 1.0), "x")
        p.add_hyperparameter((1, 10), "k")
        p.add_hyperparameter(list(case.get("choices") or ["a", "b", "c d"]), "c")
        for nm in case.get("hp_names") or []:
            p.add_hyperparameter((0.0, 1.0), nm)
        prev_eidx, n_eval = None, 0
        specs = _searches_of(case)
        early = bool(case.get("create_first")) and len(specs) > 1
        cur_dir = [tmp]

        def construct(si, spec):
            nonlocal prev_eidx, n_eval
            kind = spec["evaluator"]
            if kind == "reuse" and (early or prev_eidx is None or prev_eidx not in instances):
                kind = "fresh"
            if kind == "reuse":
                eidx, ev = prev_eidx, instances[prev_eidx]
            else:
                eidx = n_eval
                n_eval += 1
                fn = make_run(eidx, sync=(kind == "callable-sync"))
                ev = fn if kind.startswith("callable") else Evaluator.create(fn, method="serial", method_kwargs={"num_workers": case["num_workers"]})
            if spec.get("new_dir") and si > 0 and not early:
                # a directory without results.csv (the evaluator may have dumped elsewhere before)
                cur_dir[0] = os.path.join(tmp, f"dir{si}")
            s = RandomSearch(p, ev, random_state=case["seed"] + si, log_dir=cur_dir[0])
            keep.append(s)
            prev_eidx = eidx
            return s, kind

        built = {}
        if early:
            for si, spec in enumerate(specs):
                built[si] = construct(si, spec)
        for si, spec in enumerate(specs):
            try:
                s, kind = built[si] if early else construct(si, spec)
            except Exception as e:
                err = f"{type(e).__name__}: {str(e)[:100]}"
                events.append(("new_search", "fresh", spec["evaluator"], early))
                events.append(("call_end", {"si": si, "ci": -1, "err": err, "cells": None, "df": None, "order": []}))
                break
            events.append(("new_search", "reuse" if kind == "reuse" else "fresh", kind, early,
                           bool(spec.get("new_dir")) and si > 0 and not early))
            for ci, c in enumerate(spec["calls"]):
                norders = len(npspy.orders)
                df = None
                try:
                    if spec.get("timeout"):
                        # search until the time budget (1 s, real time) is over: running jobs are cancelled
                        df = s.search(max_evals=-1, timeout=1)
                    else:
                        df = s.search(max_evals=c, max_evals_strict=bool(spec.get("strict")))
                except Exception as e:
                    err = f"{type(e).__name__}: {str(e)[:100]}"
                cells = read_csv_cells(os.path.join(cur_dir[0], "results.csv"))
                df_cells = None
                if df is not None:
                    df_cells = [list(df.columns)] + [[_df_text(v) for v in row] for row in df.itertuples(index=False, name=None)]
                events.append(("call_end", {"si": si, "ci": ci, "err": err, "cells": cells, "df": df_cells,
                                            "order": npspy.orders[-1] if len(npspy.orders) > norders else []}))
                if err is not None:
                    break
            if err is not None:
                break
        return {"err": err, "log": log, "events": events}
    finally:
        Evaluator.dump_jobs_done_to_csv = orig
        pf.np = saved_np
        shutil.rmtree(tmp, ignore_errors=True)


def _df_text(v):
    if v is None or (isinstance(v, float) and math.isnan(v)):
        return ""
    if isinstance(v, (bool, np.bool_)):
        return "True" if v else "False"
    if isinstance(v, (np.integer,)):
        return str(int(v))
    if isinstance(v, (float, np.floating)):
        return repr(float(v))
    return str(v)


def _model_out(case, lg, meta):
    """the value `set_output` received: the returned value, wrapped by @profile when it is used"""
    raw = lg["raw_wire"]
    if not case.get("profile"):
        return raw
    md = dict((k, v) for k, v in meta)
    prof = [["timestamp_start", md.get("timestamp_start", {"n": "0/1"})], ["timestamp_end", md.get("timestamp_end", {"n": "0/1"})]]
    if "d" in raw and any(k == "output" for k, _ in raw["d"]):
        d = [[k, v] for k, v in raw["d"]]
        if not any(k == "metadata" for k, _ in d):
            d.append(["metadata", {"d": []}])
        d = [[k, ({"d": v["d"] + prof} if k == "metadata" else v)] for k, v in d]
        return {"d": d}
    return {"d": [["output", raw], ["metadata", {"d": prof}]]}


def search_request(case, obs):
    """model input: Search constructions, dumps (jobs in the order they were handed to the dump, with
    what the run-function returned) and the Pareto step at the end of every search() call"""
    jobs, ops, marks = [], [], []
    call_jobs, start, preset, ev_arity, cur_eidx = [], 0, None, {}, None
    for ev in obs["events"]:
        if ev[0] == "new_search":
            op = {"new_search": ev[1]}
            if len(ev) > 3 and ev[3]:
                op["early"] = True
            if len(ev) > 4 and ev[4]:
                op["no_file"] = True
            ops.append(op)
            start, cur_eidx = len(jobs), None
            preset = "pending"  # decided at the first dump: arity the evaluator instance already knows
        elif ev[0] == "dump":
            _, eidx, new, fl = ev
            if preset == "pending":
                preset = ev_arity.get(eidx)
            for j in new:
                o = expected_objective(dec(obs["log"][(eidx, j["id"])]["raw_wire"])) if (eidx, j["id"]) in obs["log"] else None
                if eidx not in ev_arity and o is not None and not is_failure_obj(o):
                    ev_arity[eidx] = len(o) if isinstance(o, (tuple, list)) else 1
            for j in new:
                lg = obs["log"].get((eidx, j["id"]))
                if lg is None:
                    raise HarnessError(f"job {j['id']} dumped but never seen by the run-function")
                meta = j["meta"]
                tg = dict((k, v) for k, v in meta).get("timestamp_gather", {"n": "0/1"})
                ts = [[k, v] for k, v in meta if k == "timestamp_submit"]
                mout = _model_out(case, lg, meta)
                jobs.append({"id": j["id"], "args": j["args"]["d"],
                             "status": "RUNNING" if j["status"] == "DONE" else j["status"], "meta0": ts,
                             "out": mout, "tg": tg, "kind": obj_kind_wire(mout)})
            ops.append([len(new), fl])
        else:
            info = ev[1]
            if info["err"] is None and ops and isinstance(ops[-1], list):
                ops[-1] = [ops[-1][0], ops[-1][1], info["order"]]
                marks.append(len(ops) - 1)
            else:
                marks.append(None)
            call_jobs.append((list(jobs[start:]), None if preset == "pending" else preset))
    obs["call_jobs"] = call_jobs
    return {"op": "scenario", "preset": None, "jobs": jobs, "ops": ops, "order": []}, marks


def _compare_table(cells, tbl, par):
    bad = []
    if tbl["header"] is None:
        if cells:
            bad.append({"table": "model wrote nothing", "impl": cells[:2]})
        return bad
    if not cells:
        return [{"table": "impl wrote nothing", "model": tbl["header"]}]
    flags = par is not None and par.get("kind") == "flags"
    want_hdr = tbl["header"] + (["pareto_efficient"] if flags else [])
    if cells[0] != want_hdr:
        return [{"impl_header": cells[0], "model_header": want_hdr}]
    if len(cells) - 1 != len(tbl["rows"]):
        return [{"impl_lines": len(cells) - 1, "model_lines": len(tbl["rows"])}]
    tol = REL_TOL if flags else None  # the pareto step rewrites the file through pandas
    for r, (lo, lm) in enumerate(zip(cells[1:], tbl["rows"])):
        body = lo[:-1] if flags else lo
        if len(body) != len(lm) or not all(cell_matches(t, c, tol) for t, c in zip(body, lm)):
            bad.append({"line": r, "impl": lo, "model": lm})
    if flags and not bad:
        # pandas' read_csv/to_csv round trip of an earlier Pareto rewrite may move a number by an ulp
        # (allowed: 1e-12): two equal objective vectors are then no longer equal in the file and
        # the flags legitimately differ from the model's.  The column is compared with the model only
        # when every objective cell of the file is exactly the model's; otherwise it is left to the
        # verified checker, which reads the file's own numbers.
        ocols = [i for i, c in enumerate(tbl["header"]) if c.startswith("objective")]
        exact = all(cell_matches(lo[i], lm[i]) for lo, lm in zip(cells[1:], tbl["rows"]) for i in ocols)
        got = [row[-1] == "True" for row in cells[1:]]
        if exact and got != par["flags"]:
            bad.append({"pareto_flags": got, "model": par["flags"]})
        elif not exact:
            bad.append(None)  # marker: flags not compared
    return bad


def compare_search(ck, case, obs, rep, marks):
    bad = []
    k = 0
    for ev in obs["events"]:
        if ev[0] != "dump":
            continue
        for j in ev[2]:
            mj = rep["jobs"][k]
            k += 1
            if mj["err"] is not None:
                bad.append({"job": j["id"], "model_err": mj["err"]})
                continue
            if not _val_eq(j["objective"], mj["objective"]) or j["status"] != mj["status"]:
                bad.append({"job": j["id"], "impl": [j["objective"], j["status"]], "model": [mj["objective"], mj["status"]]})
            if [[a, _norm(b)] for a, b in j["meta"]] != [[a, _norm(b)] for a, b in mj["meta"]]:
                bad.append({"job": j["id"], "impl_meta": j["meta"], "model_meta": mj["meta"]})
    for sm in rep["steps"]:
        ck.count("branch:" + sm["branch"])
    ends = [ev[1] for ev in obs["events"] if ev[0] == "call_end"]
    for info, mark in zip(ends, marks):
        if mark is None or info["err"] is not None:
            continue
        step = rep["steps"][mark]
        if "returns" in step and not info.get("flagged") and step["returns"] != (info["df"] is not None):
            # (a call the oracle reports - e.g. rows returned for no evaluation - is not also a broken correspondence)
            bad.append({"search": info["si"], "call": info["ci"], "search()_returns_a_table": {"model": step["returns"], "impl": info["df"] is not None}})
            break
        ck.count("returns:" + ("table" if info["df"] is not None else "None"))
        if info["df"] is None and step.get("returns") is False:
            # nothing written by this Search object, nothing handed back: a results.csv in the directory is another
            # search's file (its content and its pareto_efficient column are that search's; keeping it intact is C15)
            continue
        b = _compare_table(info["cells"], step["table"], step.get("pareto"))
        if b == [None]:
            ck.count("pareto:flags-not-compared(csv-round-trip-drift)")
            b = []
        if b:
            bad.append({"search": info["si"], "call": info["ci"], "diff": b[:3]})
            break
        ck.count("pareto:" + (step.get("pareto") or {}).get("kind", "none"))
    return bad


# --------------------------------------------------------------------------- driving


def _finished_unit(case, obs):
    fin = []
    for o in obs["jobs"]:
        if o["err"] is not None:
            continue
        spec = case["jobs"][o["idx"]]
        raw = dec(spec["out"])
        md = dec(spec["meta0"])
        md.update(returned_meta(raw))
        fin.append({"id": o["id"], "args": dec(spec["args"]), "raw": raw,
                    "status": "DONE" if spec["status"] == "RUNNING" else spec["status"], "meta": md})
    return fin


def _job_record(case, obs, eidx, j):
    lg = obs["log"][(eidx, j["id"])]
    raw = dec(lg["raw_wire"])
    # terminal status as the evaluator reports it (DONE, or CANCELLED in a timed-out search: C14's subject)
    return {"id": j["id"], "args": lg["args"], "raw": raw, "status": j.get("status", "DONE"), "meta": returned_meta(raw)}


def need_meta_from(dumps):
    """`dumps` = [(objectives newly pending, flush)] of one Search object / evaluator.  The clause
    "the metadata keys of the first successful job are columns" applies when the writer starts (first dump
    with something pending and a success or flush) at a dump that contains a success — "the metadata keys
    known when the table header was written".  It does not when the header is written by a flush while only
    failures have finished (their keys are the ones known then), nor — unreachable from search() — by a
    flush whose pending jobs have a failure in front of the first success (the writer takes that failure's
    keys, as written)."""
    pend = []
    for new, fl in dumps:
        pend += [o for o in new if o is not None]
        if not pend:
            continue
        has_ok = any(not is_failure_obj(o) for o in pend)
        if has_ok or fl:
            return has_ok and not (fl and is_failure_obj(pend[0]))
    return True


def _need_meta(case):
    objs = [expected_objective(dec(case["jobs"][i]["out"])) for i in case["order"]]
    dumps, pos = [], 0
    for cnt, fl in case["ops"]:
        dumps.append((objs[pos:pos + cnt], fl))
        pos += cnt
    return need_meta_from(dumps)


def _unit_objs(case):
    return [expected_objective(dec(case["jobs"][i]["out"])) for i in case["order"]]


def _has_midflush(case):
    """a flush=True dump happens while only failures have finished (and some job finished)"""
    if case["level"] != "unit":
        return False
    objs = _unit_objs(case)
    pos = 0
    for cnt, fl in case["ops"][:-1]:
        pos += cnt
        if fl and pos > 0 and all(is_failure_obj(o) for o in objs[:pos]) and not all(is_failure_obj(o) for o in objs):
            return True
    return False


def check_unit(ck, d, case, collect):
    obs = run_unit_real(case)
    objs = [o for o in _unit_objs(case) if o is not None]
    fin = _finished_unit(case, obs)
    midflush = _has_midflush(case)
    tags = classify([expected_objective(f["raw"]) for f in fin], case["m"], midflush)
    nontrivial = len(fin) >= 2 and any(is_failure_obj(o) for o in objs) and not all(is_failure_obj(o) for o in objs)
    ck.case({k: case[k] for k in ("level", "m", "preset", "jobs", "order", "ops")}, nontrivial=nontrivial)
    ck.count("unit:" + tags)
    for j in case["jobs"]:
        ck.count("form:" + j.get("form", "?"))
        ck.count("kind:" + j.get("kind", "?"))
    ck.count(f"unit:jobs={len(case['jobs'])}")
    ck.count(f"unit:dumps={len(case['ops'])}")
    consistent = case.get("preset") in (None, case["m"])
    # L3 oracle on the real table (consistent-arity, no user preset contradicting it)
    viol = []
    if consistent:
        if any("raised" in s for s in obs["steps"]):
            viol.append(("dump-raises", obs["steps"][-1]))
        else:
            viol += oracle_table(obs["pre"], fin, case["m"], need_meta=_need_meta(case))
            if obs["pareto_err"] is not None:
                viol.append(("pareto-step-raises", obs["pareto_err"]))
            elif not viol and obs["final"] != obs["pre"]:
                # the file rewritten by the Pareto step is still the table of the same evaluations
                viol += [(c + "-after-pareto-rewrite", dt) for c, dt in oracle_table(obs["final"], fin, case["m"], need_meta=_need_meta(case))]
    if viol:
        tags += _text_tags(case) + _seq_tags(case)
    collect.append(("unit", case, obs, tags, viol))
    return obs


def check_search(ck, d, case, collect):
    obs = run_search_real(case)
    searches = _searches_of(case)
    viol, cur, objs_all, viol_objs = [], [], [], []
    cur_dumps, need_meta_calls = [], []
    midflush, reused, kinds_used, idle_viol = False, False, [], False
    calls = []  # (cells, fin) per finished search() call: for the verified Pareto checker
    for ev in obs["events"]:
        if ev[0] == "new_search":
            cur = []  # the table of a new Search object holds its own evaluations only
            cur_dumps = []
            kinds_used.append(ev[2])
        elif ev[0] == "dump":
            _, eidx, new, fl = ev
            cur += [_job_record(case, obs, eidx, j) for j in new]
            cur_dumps.append(([expected_objective(_job_record(case, obs, eidx, j)["raw"]) for j in new], fl))
            objs = [expected_objective(f["raw"]) for f in cur]
            objs_all += [expected_objective(_job_record(case, obs, eidx, j)["raw"]) for j in new]
        else:
            info = ev[1]
            info["flagged"] = True  # (reset below when this call was judged and found in order)
            if viol:
                continue
            where = {"search_object": info["si"], "call": info["ci"], "evaluator": kinds_used[-1] if kinds_used else "?"}
            if info["err"] is not None:
                viol.append(("raises", dict(where, error=info["err"])))
                viol_objs = [expected_objective(f["raw"]) for f in cur]
                reused = bool(kinds_used) and kinds_used[-1] == "reuse"
                continue
            need_meta_calls.append(need_meta_from(cur_dumps))
            if not cur and info["df"] is not None and len(info["df"]) > 1:
                # "exactly one row per finished evaluation" for the empty set of evaluations: no evaluation of this Search
                # object has finished, so search() has no row to show - whatever results.csv the directory holds
                jc = info["df"][0].index("job_id") if "job_id" in info["df"][0] else None
                viol.append(("rows-not-in-bijection-with-jobs",
                             dict(where, detail={"rows": [r[jc] if jc is not None else "?" for r in info["df"][1:]], "jobs": [],
                                                 "meaning": "search() returned rows although no evaluation of this Search object has finished"})))
                idle_viol = True
            for c, dt in oracle_table(info["cells"] if cur else None, cur, case["m"], need_meta=need_meta_calls[-1]):
                viol.append((c, dict(where, detail=dt)))
            if info["cells"] and info["df"] is not None:
                # the returned DataFrame is the file
                if info["df"][0] != info["cells"][0] or len(info["df"]) != len(info["cells"]):
                    viol.append(("dataframe-differs-from-file", dict(where, df=info["df"][0], file=info["cells"][0])))
                else:
                    for a, b in zip(info["df"][1:], info["cells"][1:]):
                        if any(x != y and not _numeric_close(x, y) for x, y in zip(a, b)):
                            viol.append(("dataframe-differs-from-file", dict(where, df=a, file=b)))
                            break
            elif cur and info["df"] is None:
                viol.append(("no-dataframe-returned", where))
            calls.append((info["cells"] if cur else None, list(cur)))
            info["flagged"] = bool(viol)
            if viol:
                # classification of the failing history: the evaluations of this Search object
                viol_objs = [expected_objective(f["raw"]) for f in cur]
                if kinds_used and kinds_used[-1] == "reuse":
                    reused = True
    # a flush (end of a search() call) while only failures had finished for the current Search object
    cur_objs, later_success = [], False
    for ev in obs["events"]:
        if ev[0] == "new_search":
            cur_objs = []
        elif ev[0] == "dump":
            cur_objs += [expected_objective(_job_record(case, obs, ev[1], j)["raw"]) for j in ev[2]]
        elif cur_objs and all(is_failure_obj(o) for o in cur_objs):
            later_success = True  # candidate: decided below
    if later_success and any(not is_failure_obj(o) for o in objs_all) and any(len(sp["calls"]) > 1 for sp in searches):
        midflush = _flush_before_success(case, obs)
    tags = classify(viol_objs if viol else objs_all, case["m"], midflush)
    if reused:
        tags += ",reused-evaluator"
    if idle_viol:
        tags += ",no-evaluation-finished"
    if viol:
        tags += _text_tags(case) + _seq_tags(case)
        if case.get("create_first") and len(searches) > 1:
            tags += ",objects-created-before-first-search"
        if any(sp.get("new_dir") for sp in searches[1:]) and reused:
            tags += ",log_dir-without-results-file"
    nontrivial = len(objs_all) >= 2 and any(is_failure_obj(o) for o in objs_all) and not all(is_failure_obj(o) for o in objs_all)
    ck.case(case, nontrivial=nontrivial)
    ck.count("search:" + tags)
    ck.count(f"search:objects={len(searches)}")
    for sp, kd in zip(searches, kinds_used):
        ck.count("search:evaluator=" + kd + (",new-log_dir" if sp.get("new_dir") else ""))
        ck.count(f"search:calls={len(sp['calls'])}")
    ck.count(f"search:workers={case['num_workers']}")
    ck.count(f"search:finished={min(len(objs_all), 9)}")
    obs["calls"] = calls
    obs["need_meta_calls"] = need_meta_calls
    collect.append(("search", case, obs, tags, viol))
    return obs


def _strings_of(w):
    if not isinstance(w, dict):
        return
    if "s" in w:
        yield w["s"]
    for x in w.get("l", []):
        yield from _strings_of(x)
    for k, x in w.get("d", []):
        yield k
        yield from _strings_of(x)


def _case_strings(case):
    if case["level"] == "unit":
        for j in case["jobs"]:
            for part in ("args", "meta0", "out"):
                yield from _strings_of(j[part])
    else:
        for w in case["outs"]:
            yield from _strings_of(w)
        yield from case.get("choices", [])
        yield from case.get("hp_names", [])


TEXT_CLASSES = ["lone-carriage-return", "newline", "comma-or-quote", "non-ascii"]


def _has_class(t, cls):
    import re

    if cls == "lone-carriage-return":
        return re.search(r"\r(?!\n)", t) is not None
    if cls == "newline":
        return "\n" in t  # LF or CRLF (a CR that is not followed by LF is the other class)
    if cls == "comma-or-quote":
        return "," in t or '"' in t
    if cls == "non-ascii":
        return any(ord(ch) > 127 for ch in t)
    return False


def _strip_class(t, cls):
    """the text without the characters of one class ("all": plain ASCII letters / digits / _ only)"""
    import re

    keepF = t.startswith("F")
    if cls == "lone-carriage-return":
        u = re.sub(r"\r(?!\n)", "", t)
    elif cls == "newline":
        u = t.replace("\r\n", "").replace("\n", "")
    elif cls == "comma-or-quote":
        u = t.replace(",", "").replace('"', "")
    elif cls == "non-ascii":
        u = "".join(ch for ch in t if ord(ch) <= 127)
    else:
        u = "".join(ch for ch in t if ch.isascii() and (ch.isalnum() or ch == "_"))
    if keepF and not u.startswith("F"):
        u = "F" + u
    return u or "v"


def _text_tags(case):
    """input-class predicates about the text of the values.  Only reported with a violation, and —
    because the shrinker first removes every class of characters the failure does not need
    (`shrink`) — only the classes without which the failure disappears remain in a shrunk case."""
    strs = list(_case_strings(case))
    return "".join("," + cls + "-in-value" for cls in TEXT_CLASSES if any(_has_class(t, cls) for t in strs))


def _case_outs(case):
    return [j["out"] for j in case["jobs"]] if case["level"] == "unit" else list(case["outs"])


def _seq_tags(case):
    """input-class predicate about the container of multi-objective outputs: the classes other than the plain tuple that
    occur.  Only reported with a violation; the shrinker first tries plain tuples everywhere, then plain lists (`shrink`),
    so the tag of a shrunk case names a class the failure needs."""
    kinds = sorted({k for k in (obj_kind_wire(w) for w in _case_outs(case)) if k not in (None, "tuple")})
    return ",objectives-as-" + "+".join(kinds) if kinds else ""


def _recontain_wire(w, kind):
    """every sequence in a plain tuple / a plain list"""
    if not isinstance(w, dict):
        return w
    w = dict(w)
    if "l" in w:
        w["l"] = [_recontain_wire(x, kind) for x in w["l"]]
        w.pop("k", None)
        w.pop("t", None)
        if kind == "tuple":
            w["t"] = 1
    if "d" in w:
        w["d"] = [[k, _recontain_wire(x, kind)] for k, x in w["d"]]
    return w


def _recontain_case(case, kind):
    if case["level"] == "unit":
        return dict(case, jobs=[dict(j, out=_recontain_wire(j["out"], kind)) for j in case["jobs"]])
    return dict(case, outs=[_recontain_wire(w, kind) for w in case["outs"]])


def _sanitize_wire(w, cls):
    """every string (values and dict keys) without the characters of class `cls`"""
    if not isinstance(w, dict):
        return w
    w = dict(w)
    if "s" in w:
        w["s"] = _strip_class(w["s"], cls)
    if "l" in w:
        w["l"] = [_sanitize_wire(x, cls) for x in w["l"]]
    if "d" in w:
        seen, d = set(), []
        for k, x in w["d"]:
            k2 = _strip_class(k, cls)
            while k2 in seen:
                k2 += "_"
            seen.add(k2)
            d.append([k2, _sanitize_wire(x, cls)])
        w["d"] = d
    return w


def _sanitize_case(case, cls):
    if case["level"] == "unit":
        return dict(case, jobs=[dict(j, args=_sanitize_wire(j["args"], cls), meta0=_sanitize_wire(j["meta0"], cls),
                                     out=_sanitize_wire(j["out"], cls)) for j in case["jobs"]])
    cand = dict(case, outs=[_sanitize_wire(w, cls) for w in case["outs"]])
    for key in ("choices", "hp_names"):
        out = []
        for t in case.get(key) or []:
            u = _strip_class(t, cls)
            while u in out:
                u += "_"
            out.append(u)
        if key in case:
            cand[key] = out
    return cand


def _flush_before_success(case, obs):
    """within one Search object: a search() call ended (flush) while only failures had finished,
    and a later call of the same object saw a success"""
    cur, flushed_all_failed = [], False
    for ev in obs["events"]:
        if ev[0] == "new_search":
            cur, flushed_all_failed = [], False
        elif ev[0] == "dump":
            new = [expected_objective(_job_record(case, obs, ev[1], j)["raw"]) for j in ev[2]]
            if flushed_all_failed and any(not is_failure_obj(o) for o in new):
                return True
            cur += new
        elif cur and all(is_failure_obj(o) for o in cur):
            flushed_all_failed = True
    return False


def _numeric_close(x, y):
    try:
        a, b = text_to_fraction(x), text_to_fraction(y)
    except (ValueError, OverflowError):
        return False
    return abs(a - b) <= REL_TOL * max(abs(a), abs(b))


def fingerprint(level, clause, tags):
    site = "dump_jobs_done_to_csv" if level == "unit" else "Search.search"
    return f"{PROP}|{clause}|{site}|{tags}"


def _process(ck, collect):
    """send everything to the Lean driver, compare (L2), report oracle failures (L3)"""
    reqs, idx = [], []
    preqs, pidx = [], []
    for n, (level, case, obs, tags, viol) in enumerate(collect):
        if level == "unit":
            reqs.append(unit_request(case, obs))
            idx.append(n)
            cells = obs["final"]
        else:
            req, marks = search_request(case, obs)
            obs["marks"] = marks
            reqs.append(req)
            idx.append(n)
            cells = None
        tables = [cells] if level == "unit" else [c for c, _ in obs.get("calls", [])]
        for cells in tables:
            if cells and not any(c in ("raises", "pareto-step-raises", "no-job_id-column", "objective-columns") for c, _ in viol):
                pr, bad = pareto_requests(cells)
                if pr == "missing":
                    viol.append(("pareto-column-missing", cells[0]))
                elif pr == "non-numeric":
                    viol.append(("pareto-non-numeric-success-cell", cells[0]))
                elif pr is not None:
                    if bad:
                        viol.append(("pareto-failed-row-flagged", None))
                    if pr["pts"]:
                        preqs.append(pr)
                        pidx.append(n)
    # the verified checker (theorem C04_checker) on the real file content
    creqs, cidx = [], []
    for n, (level, case, obs, tags, viol) in enumerate(collect):
        if level == "unit":
            if case.get("preset") in (None, case["m"]) and obs["pre"] and not any("raised" in st for st in obs["steps"]):
                creqs.append(dict(check_request(obs["pre"], reqs[idx.index(n)]["jobs"], case.get("preset")), need_meta=_need_meta(case)))
                cidx.append((n, None))
        else:
            ends = [ev[1] for ev in obs["events"] if ev[0] == "call_end"]
            for k, (info, (cj, preset)) in enumerate(zip(ends, obs.get("call_jobs", []))):
                if info["err"] is None and info["cells"] and cj:
                    nm = obs.get("need_meta_calls", [])
                    ok_k = sum(1 for e in ends[:k + 1] if e["err"] is None) - 1  # index among the calls that ended normally
                    creqs.append(dict(check_request(info["cells"], cj, preset), need_meta=nm[ok_k] if 0 <= ok_k < len(nm) else True))
                    cidx.append((n, k))
    with ck.driver() as d:
        reps = d.ask_all(reqs)
        preps = d.ask_all(preqs)
        creps = d.ask_all(creqs)
    for n, rep in zip(pidx, preps):
        if not rep["spec"]:
            collect[n][4].append(("pareto-not-exact", None))
    table_clauses = ("header-metadata-keys", "missing-table", "duplicate-columns", "no-job_id-column", "ragged-line", "rows-not-in-bijection-with-jobs",
                     "objective-columns", "configuration-column-missing", "configuration-cell", "failure-string-cell",
                     "nonfinite-not-marked", "objective-cell", "status-cell", "metadata-cell")
    seen_reject = set()
    for (n, k), rep in zip(cidx, creps):
        level, case, obs, tags, viol = collect[n]
        ck.count("checker:" + ("accepts" if rep["check"] else "rejects"))
        py_rejects = any(c.split("-after-")[0] in table_clauses for c, _ in viol)
        if not rep["check"] and not py_rejects and n not in seen_reject:
            seen_reject.add(n)
            viol.append(("verified-checker-rejects-table", {"call": k, "why": rep.get("why"), "arity": rep.get("arity")}))
        elif rep["check"] and py_rejects and k is None:
            ck.mismatch(_case_out(case), {"oracles": "the Python table oracle rejects a table the verified checker accepts",
                                          "python": [c for c, _ in viol]})
    for n, rep in zip(idx, reps):
        level, case, obs, tags, viol = collect[n]
        bad = compare_unit(ck, case, obs, rep) if level == "unit" else compare_search(ck, case, obs, rep, obs["marks"])
        if bad:
            ck.mismatch(_case_out(case), bad[:4])
    for level, case, obs, tags, viol in collect:
        for clause, detail in _dedupe(viol):
            ck.fail(fingerprint(level, clause, tags), f"{clause} ({level} level, {tags})", _case_out(case), detail)


def check_request(cells, jobs, preset):
    """`checkTable` input: header names, cells as text (+ exact rational when the text is a number),
    the jobs as the model request describes them (what the run-function returned)"""
    hdr, body = cells[0], cells[1:]
    if hdr and hdr[-1] == "pareto_efficient":
        hdr, body = hdr[:-1], [line[:-1] if len(line) == len(cells[0]) else line for line in body]

    def cell(t):
        try:
            q = text_to_fraction(t)
            return {"t": t, "q": f"{q.numerator}/{q.denominator}"}
        except (ValueError, OverflowError):
            return {"t": t, "q": None}

    return {"op": "check_table", "tol": "1/1000000000000", "hdr": hdr, "rows": [[cell(t) for t in line] for line in body],
            "jobs": jobs, "preset": preset}


def _dedupe(viol):
    seen, out = set(), []
    for c, dt in viol:
        if c not in seen:
            seen.add(c)
            out.append((c, dt))
    return out


def _case_out(case):
    return case


def _canonical_out(w, m):
    """the simplest output of the same class: 'F' for a failure, small numbers for a success"""
    o = expected_objective(dec(w))
    if o is None:
        return w
    if is_failure_obj(o):
        return enc_typed("F")
    return enc_typed(1.0 if m == 1 else tuple(float(i + 1) for i in range(m)))


def shrink(case, still_fails):
    """greedy deletion of jobs / outputs while the same clause keeps failing, then every
    remaining output is replaced by the simplest one of its class when the failure persists"""
    cur = _shrink_delete(case, still_fails)
    if cur["m"] > 1:
        # a single objective when the failure does not depend on the arity
        if cur["level"] == "unit":
            cand = dict(cur, m=1, preset=None if cur.get("preset") is None else 1,
                        jobs=[dict(j, out=_canonical_out(j["out"], 1)) for j in cur["jobs"]])
        else:
            cand = dict(cur, m=1, outs=[_canonical_out(w, 1) for w in cur["outs"]])
        if still_fails(cand):
            cur = cand
    m = cur["m"]
    # plainer text wherever the failure does not depend on it: everything at once, else class by class,
    # so that a special-character tag survives only if the failure needs that class of characters
    cand = _sanitize_case(cur, "all")
    if cand != cur and still_fails(cand):
        cur = cand
    else:
        for cls in TEXT_CLASSES:
            cand = _sanitize_case(cur, cls)
            if cand != cur and still_fails(cand):
                cur = cand
    # plainer containers wherever the failure does not depend on their class: plain tuples, else plain lists
    for kind in ("tuple", "list"):
        cand = _recontain_case(cur, kind)
        if cand == cur:
            break
        if still_fails(cand):
            cur = cand
            break
    if cur["level"] == "unit":
        for i, j in enumerate(cur["jobs"]):
            c = _canonical_out(j["out"], m)
            if c != j["out"]:
                cand = dict(cur, jobs=cur["jobs"][:i] + [dict(j, out=c, form="plain")] + cur["jobs"][i + 1:])
                if still_fails(cand):
                    cur = cand
        for i, j in enumerate(cur["jobs"]):
            if j["status"] != "RUNNING":
                cand = dict(cur, jobs=cur["jobs"][:i] + [dict(j, status="RUNNING")] + cur["jobs"][i + 1:])
                if still_fails(cand):
                    cur = cand
    else:
        for i, w in enumerate(cur["outs"]):
            c = _canonical_out(w, m)
            if c != w:
                cand = dict(cur, outs=cur["outs"][:i] + [c] + cur["outs"][i + 1:])
                if still_fails(cand):
                    cur = cand
    return cur


def _shrink_delete(case, still_fails):
    cur = case
    changed = True
    while changed:
        changed = False
        if cur["level"] == "unit":
            n = len(cur["jobs"])
            for i in range(n):
                if n <= 1:
                    break
                jobs = cur["jobs"][:i] + cur["jobs"][i + 1:]
                order = [o - (1 if o > i else 0) for o in cur["order"] if o != i]
                pos = cur["order"].index(i)  # position in finishing order -> the batch that loses a job
                ops, acc = [], 0
                for cnt, fl in cur["ops"]:
                    if acc <= pos < acc + cnt:
                        ops.append([cnt - 1, fl])
                    else:
                        ops.append([cnt, fl])
                    acc += cnt
                ops = [o for k, o in enumerate(ops) if o[0] > 0 or o[1] or k == len(ops) - 1]
                cand = dict(cur, jobs=jobs, order=order, ops=ops)
                if still_fails(cand):
                    cur, changed = cand, True
                    break
            else:
                for i, j in enumerate(cur["jobs"]):
                    raw = dec(j["out"])
                    o = expected_objective(raw)
                    if o is not None and (isinstance(raw, dict)):
                        jj = dict(j, out=enc_typed(o), form="plain")
                        cand = dict(cur, jobs=cur["jobs"][:i] + [jj] + cur["jobs"][i + 1:])
                        if still_fails(cand):
                            cur, changed = cand, True
                            break
        else:
            if "searches" not in cur:
                cur = dict(cur, searches=_searches_of(cur))
                cur.pop("calls", None)
            n = len(cur["outs"])
            done = False
            for i in range(n):
                if n <= 1:
                    break
                cand = dict(cur, outs=cur["outs"][:i] + cur["outs"][i + 1:])
                if still_fails(cand):
                    cur, changed, done = cand, True, True
                    break
            if done:
                continue
            ss = cur["searches"]
            # drop a Search object, merge / shorten calls, simplify evaluator kinds
            cands = []
            for i in range(len(ss)):
                if len(ss) > 1:
                    rest = [dict(x) for x in ss[:i] + ss[i + 1:]]
                    if rest[0]["evaluator"] == "reuse":
                        rest[0]["evaluator"] = "fresh"
                    cands.append(dict(cur, searches=rest))
                if len(ss[i]["calls"]) > 1:
                    cands.append(dict(cur, searches=ss[:i] + [dict(ss[i], calls=[sum(ss[i]["calls"])])] + ss[i + 1:]))
                    cands.append(dict(cur, searches=ss[:i] + [dict(ss[i], calls=ss[i]["calls"][:-1])] + ss[i + 1:]))
                for k, c in enumerate(ss[i]["calls"]):
                    if c > 1:
                        calls = ss[i]["calls"][:k] + [c - 1] + ss[i]["calls"][k + 1:]
                        cands.append(dict(cur, searches=ss[:i] + [dict(ss[i], calls=calls)] + ss[i + 1:]))
                if ss[i]["evaluator"] not in ("fresh", "reuse"):
                    cands.append(dict(cur, searches=ss[:i] + [dict(ss[i], evaluator="fresh")] + ss[i + 1:]))
                if ss[i]["evaluator"] == "reuse":
                    cands.append(dict(cur, searches=ss[:i] + [dict(ss[i], evaluator="fresh")] + ss[i + 1:]))
            if cur["num_workers"] > 1:
                cands.append(dict(cur, num_workers=1))
            if cur.get("profile"):
                cands.append(dict(cur, profile=False))
            if cur.get("create_first"):
                cands.append(dict(cur, create_first=False))
            if cur.get("delays"):
                cands.append(dict(cur, delays=[]))
            for i in range(len(ss)):
                if ss[i].get("strict"):
                    cands.append(dict(cur, searches=ss[:i] + [dict(ss[i], strict=False)] + ss[i + 1:]))
                if ss[i].get("new_dir"):
                    cands.append(dict(cur, searches=ss[:i] + [dict(ss[i], new_dir=False)] + ss[i + 1:]))
            for i, w in enumerate(cur["outs"]):
                raw = dec(w)
                o = expected_objective(raw)
                if o is not None and isinstance(raw, dict):
                    cands.append(dict(cur, outs=cur["outs"][:i] + [enc_typed(o)] + cur["outs"][i + 1:]))
            for cand in cands:
                if still_fails(cand):
                    cur, changed = cand, True
                    break
    return cur


def _violations_of(case):
    class _Null:
        def case(self, *a, **k):
            pass

        def count(self, *a, **k):
            pass

    col = []
    if case["level"] == "unit":
        check_unit(_Null(), None, case, col)
    else:
        check_search(_Null(), None, case, col)
    level, case, obs, tags, viol = col[0]
    _pareto_oracle(col)
    return dict((c, dt) for c, dt in reversed(col[0][4])), tags


def _pareto_oracle(collect):
    """the pareto clauses that need no Lean call (used while shrinking)"""
    for level, case, obs, tags, viol in collect:
        tables = [obs["final"]] if level == "unit" else [c for c, _ in obs.get("calls", [])]
        for cells in tables:
            if not cells or any(c in ("raises", "pareto-step-raises", "no-job_id-column", "objective-columns") for c, _ in viol):
                continue
            pr, bad = pareto_requests(cells)
            if pr == "missing":
                viol.append(("pareto-column-missing", cells[0]))
            elif pr == "non-numeric":
                viol.append(("pareto-non-numeric-success-cell", cells[0]))
            elif pr is not None and bad:
                viol.append(("pareto-failed-row-flagged", None))


def part_csv(ck, raw_texts):
    """the CSV text layer: csv.writer vs `renderFile`, csv.reader vs `parseFile` (generated cells with
    commas, quotes, CR, LF, CRLF, unicode; arbitrary character soup for the reader; the real files)"""
    import io

    rng = ck.rng
    alphabet = ["a", "b", " ", ",", '"', "\r", "\n", "\r\n", "\u00e9", "\u2713", "'", ";", "\t", "1", "."]
    wcases, rcases = [], []
    for _ in range(ck.pick(150, 1500)):
        rows = [["".join(rng.choice(alphabet) for _ in range(rng.randint(0, 5))) for _ in range(rng.randint(1, 4))]
                for _ in range(rng.randint(1, 4))]
        wcases.append(rows)
    for _ in range(ck.pick(150, 1500)):
        rcases.append("".join(rng.choice(alphabet) for _ in range(rng.randint(0, 14))))
    rcases += [t for t in raw_texts[: ck.pick(100, 1000)] if t]
    reqs = [{"op": "csvrender", "rows": rows} for rows in wcases] + [{"op": "csvparse", "text": t} for t in rcases]
    with ck.driver() as d:
        reps = d.ask_all(reqs)
    for rows, rep in zip(wcases, reps[: len(wcases)]):
        b = io.StringIO(newline="")
        csv.writer(b).writerows(rows)
        case = {"level": "csv-writer", "rows": rows}
        ck.case(case, nontrivial=any(ch in c for r in rows for c in r for ch in ',"\r\n'))
        ck.count("csv:writer")
        if rep["text"] != b.getvalue():
            ck.mismatch(case, {"impl": b.getvalue(), "model": rep["text"]})
        back = list(csv.reader(io.StringIO(b.getvalue(), newline="")))
        if back != rows:
            ck.fail(f"{PROP}|csv-round-trip|csv.writer/csv.reader|cells", "csv.reader(csv.writer(cells)) != cells", case, {"back": back})
    for t, rep in zip(rcases, reps[len(wcases):]):
        got = list(csv.reader(io.StringIO(t, newline="")))
        case = {"level": "csv-reader", "text": t}
        ck.case(case, nontrivial='"' in t)
        ck.count("csv:reader")
        if rep["rows"] != got:
            ck.mismatch(case, {"impl": got, "model": rep["rows"]})


def corpus_cases():
    d = VERIF / "corpus" / PROP
    out = []
    if d.is_dir():
        for f in sorted(d.glob("*.json")):
            data = json.loads(f.read_text())
            out.append((f.name, data.get("case", data)))
    return out


def run(ck):
    ck.rule = ("multi-objective outputs come in a plain tuple (half), a list, a namedtuple, a user's subclass of tuple or of list, as the "
               "plain return value or inside the dict / profiled forms; "
               "unit: 1-8 constructed HPOJobs (six return forms x success / 'F..' / nan / +-inf / nan-in-tuple, varying metadata "
               "key sets, shuffled finishing order, CANCELLED jobs; hyperparameter names, categorical values, failure labels, metadata "
               "keys and values with commas, quotes, LF, lone CR, CRLF, non-ASCII) dumped in batches of 1-4 with hold / flush / mid-run "
               "flush / preset num_objective / the deprecated dump_evals; search: histories of 1-3 Search objects (RandomSearch) on one "
               "log_dir, each with a fresh evaluator / a plain async or sync callable / the previous Search's Evaluator instance (or all "
               "constructed before the first call), 1-3 search() calls each (max_evals 0 included, max_evals_strict, a few timed-out "
               "searches; every 9th history has a Search object on the used log_dir whose calls finish NO evaluation, half of them "
               "followed by one that finishes some), scripted outputs, run-functions that wait some ms, 1-4 serial workers, optional @profile; csv: random cell "
               "grids through csv.writer and random character soup through csv.reader; malformed outputs go to the standardize_output "
               "stream; non-trivial = at least 2 finished jobs with both a failure and a success")
    ck.assumptions = [
        "ints are < 2^53 in magnitude: float(output) is then exact; Python ints beyond the int64 range make np.isfinite / "
        "np.negative raise in several places of the NumPy-based pipeline and ints beyond the float range cannot be converted at all "
        "(OverflowError in standardize_output): outside the numeric range the code supports, not generated",
        "tuple/list objectives have >= 2 components and one arity per search (the property's quantifier); 'tuple/list' = any instance "
        "of tuple or list; a NumPy array is not a supported return form (HPOJob.standardize_output rejects it: TypeError)",
        "a search() call in which no evaluation of its Search object has finished has the empty set of evaluations to show: it must "
        "not return rows (the table of an earlier search on the log_dir is that search's, kept in a backup file)",
        "metadata given as a list of pairs, bool/bytes objectives, empty metadata keys are not generated",
        "np.argsort inside non_dominated_set returns a permutation (observed and passed to the model)",
        "str(number) (repr(float), decimal int) is observed and passed to the model as the text of numeric cells; a case in "
        "which one rational is printed in two ways (3 and 3.0) is compared cell by cell but not byte by byte",
        "pandas read_csv/to_csv within 1e-12 relative (multi-objective rewrite); the rewritten file is compared cell by cell",
        "terminal statuses of timed-out searches (CANCELLED) are taken from the evaluator (C14's subject)",
    ]
    ck.trusted_extra = [
        "C11 theorems (Props/C11.lean) for the pareto_efficient column",
        "the driver's parse of header names into columns is untrusted: checkTable re-renders and compares (C04_header_parse_unique)",
    ]
    rng = ck.rng
    collect = []
    t_start = __import__("time").time()
    # malformed / standardize stream
    std_cases = list(MALFORMED)
    for _ in range(ck.pick(60, 400)):
        m = rng.choice([1, 2, 3])
        obj, _k = gen_objective(rng, m, 0.3, ["str", "nonfin", "nonfin-in-tuple"])
        raw, _f = wrap_form(rng, obj)
        std_cases.append(raw)
    # the numeric types a run-function realistically returns (value only: the model classifies by value)
    for T in (float, np.float64, np.float32, np.float16):
        for x in (1.5, float("nan"), float("inf")):
            v = T(x)
            std_cases += [v, (v, 1.0), {"objective": v}, {"objective": [2.0, v], "metadata": {"a": 1}}, {"output": v, "metadata": {}}]
    for v in (3, True, np.int64(4), np.int32(-3)):
        std_cases += [v, (v, 1.0), {"objective": v}]
    for kind in SEQ_KINDS:  # every container class in every form, finite and with a non-finite component
        for xs in ((1.5, 2), (1.0, float("nan"), 3.0)):
            v = make_seq(kind, xs)
            std_cases += [v, {"objective": v}, {"objective": v, "metadata": {"a": 1}}, {"output": v, "metadata": {}},
                          {"output": {"objective": v, "metadata": {"b": 2}}, "metadata": {"a": 1}}]
    for v in EXTREMES:
        std_cases += [v, (v, 1.5e308), {"objective": v}, {"output": (v, v), "metadata": {}}]
    std_reqs = [{"op": "std", "out": enc(_plain_num(x))} for x in std_cases]
    # corpus first
    for name, case in corpus_cases():
        ck.count("corpus")
        (check_unit if case["level"] == "unit" else check_search)(ck, None, case, collect)
    n_unit = ck.pick(500, 6000)
    n_search = ck.pick(350, 4000)
    for t in range(n_unit):
        force = "fail-first" if t % 7 == 0 else None
        check_unit(ck, None, gen_unit_case(rng, force), collect)
    for t in range(n_search):
        force = "fail-first" if t % 6 == 0 else "idle-search" if t % 9 == 4 else None
        check_search(ck, None, gen_search_case(rng, force), collect)
    for t in range(ck.pick(2, 12)):
        ck.count("search:timeout")
        check_search(ck, None, gen_timeout_case(rng), collect)
    # standardize_output, real vs model
    from deephyper.evaluator import HPOJob
    import copy

    with ck.driver() as d:
        reps = d.ask_all(std_reqs)
    for raw, rep in zip(std_cases, reps):
        case = {"level": "std", "out": enc(_plain_num(raw))}
        ck.case(case, nontrivial=isinstance(raw, dict))
        try:
            out, md = HPOJob.standardize_output(copy.deepcopy(raw))
            got = {"err": None, "objective": enc(_plain_num(out["objective"])), "meta": [[k, enc(_plain_num(v))] for k, v in md.items()]}
        except Exception as e:
            got = {"err": type(e).__name__}
        ck.count("std:" + (rep["err"] or "ok"))
        if (got["err"] is None) != (rep["err"] is None):
            ck.mismatch(case, {"impl": got, "model": rep})
        elif got["err"] is None:
            if not _val_eq(got["objective"], rep["objective"]) or [[k, _norm(v)] for k, v in got["meta"]] != rep["meta"]:
                ck.mismatch(case, {"impl": got, "model": rep})
        elif got["err"] not in ERRMAP[rep["err"]]:
            ck.mismatch(case, {"impl": got, "model": rep})
    import time

    t0 = time.time()
    _process(ck, collect)
    part_csv(ck, [obs.get("raw_text") for level, case, obs, tags, viol in collect if level == "unit"])
    t1 = time.time()
    _shrink_failures(ck)
    ck.extra_cov["timing_s"] = {"real code (all cases)": round(t0 - t_start, 1), "Lean driver + comparison + csv layer": round(t1 - t0, 1),
                                f"shrinking {len(ck.failures)} reported case(s)": round(time.time() - t1, 1)}


def _shrink_failures(ck):
    """replace each reported failing case by a shrunk one with the same clause (fingerprint recomputed)"""
    new = []
    for f in ck.failures:
        case = f["case"]
        if not isinstance(case, dict) or case.get("level") not in ("unit", "search"):
            new.append(f)
            continue
        clause = f["fingerprint"].split("|")[1]

        def still(c, clause=clause):
            try:
                return clause in _violations_of(c)[0]
            except HarnessError:
                return False

        try:
            small = shrink(case, still)
            viols, tags = _violations_of(small)
        except Exception:
            new.append(f)
            continue
        if clause in viols:
            f = dict(f, case=small, fingerprint=fingerprint(small["level"], clause, tags), detail=viols[clause],
                     what=f"{clause} ({small['level']} level, {tags})")
        new.append(f)
    # merge equal fingerprints
    merged = {}
    for f in new:
        if f["fingerprint"] in merged:
            merged[f["fingerprint"]]["count"] += f["count"]
        else:
            merged[f["fingerprint"]] = f
    ck.failures[:] = list(merged.values())


def replay(ck, case):
    collect = []
    if case.get("level") == "unit":
        obs = check_unit(ck, None, case, collect)
    elif case.get("level") == "search":
        obs = check_search(ck, None, case, collect)
    else:
        raise HarnessError("replay: unknown case level")
    _process(ck, collect)
    level, case, obs, tags, viol = collect[0]
    print("replay:", level, tags, "violations:", [c for c, _ in viol] or "none")
    if level == "unit":
        print("  table:", obs["final"])
    else:
        for ev in obs["events"]:
            if ev[0] == "new_search":
                print("  new Search object, evaluator:", ev[2])
            elif ev[0] == "call_end":
                print(f"  search() call {ev[1]['ci']} of object {ev[1]['si']}: error:", ev[1]["err"], " table:", ev[1]["cells"])
