"""C11 — non_dominated_set / pareto_front / non_dominated_set_ranked / pareto_efficient column.

L2: the real functions vs. `Model/Pareto.lean` (same observed argsort order => identical mask,
    identical index list, identical ranked mask, identical sorted front, identical results-table column).
L3: the implementation's own outputs go through the verified checker `checkSel`/`checkMask`
    (theorem C11_checker: checker = specification), plus the ranked count / dominance-closure oracle.

The truth is always stated over the EXACT values the caller handed in (Python ints / exact rationals of the
floats the array holds): integer arrays of every width, float16/32/64, object arrays and lists of Python ints
beyond 2**64 are sent to Lean digit by digit, never through a float conversion of the harness.
"""
import csv
import glob
import itertools
import json
import math
import os
import sys
import tempfile
import types
from fractions import Fraction

import numpy as np

from .common import VERIF, rat


def _dom(a, b):
    return all(x <= y for x, y in zip(a, b)) and any(x < y for x, y in zip(a, b))


class _NpSpy:
    """stands in for the module-global `np` of _pf.py: records what argsort returns"""

    def __init__(self):
        self.orders = []

    def argsort(self, a, *args, **kw):
        o = np.argsort(a, *args, **kw)
        self.orders.append([int(i) for i in o])
        return o

    def __getattr__(self, k):
        return getattr(np, k)


# --------------------------------------------------------------------------- inputs of every dtype / container

_INT_DTYPES = ["int8", "int16", "int32", "int64", "uint8", "uint16", "uint32", "uint64"]
_FLOAT_DTYPES = ["float16", "float32", "float64"]


def _make_input(pts, opts):
    """The object handed to the functions for the exact values `pts` (rows of Python ints / floats).
    Returns None when the container cannot hold the values exactly (e.g. NumPy's own coercion of a
    mixed int/float list to float64 is lossy): such a case has no well-defined 'given values' and is skipped."""
    dtype = opts.get("dtype", "float64")
    container = opts.get("container", "ndarray")
    try:
        if container == "list":  # list of lists of Python numbers
            y = [list(p) for p in pts]
            held = np.asarray(y).tolist()
        elif container == "rows":  # list of 1-d arrays
            y = [np.array(p, dtype=object if dtype == "object" else dtype) for p in pts]
            held = np.asarray(y).tolist()
        else:
            a = np.array(pts, dtype=object if dtype == "object" else dtype)
            lay = opts.get("layout", "C")
            if lay == "F":
                a = np.asfortranarray(a)
            elif lay == "strided":
                big = np.zeros((2 * a.shape[0], 2 * a.shape[1]), dtype=a.dtype)
                big[::2, ::2] = a
                a = big[::2, ::2]
            if opts.get("form") == "1d":
                a = a[:, 0]
            y = a
            held = a.tolist()
            if opts.get("form") == "1d":
                held = [[v] for v in held]
    except (OverflowError, ValueError, TypeError):
        return None
    if len(held) != len(pts) or any(len(h) != len(p) or any(not (a == b) for a, b in zip(h, p)) for h, p in zip(held, pts)):
        return None
    return y


def _lossless_float(pts):
    """every value is exactly a float64 (then float-based outputs such as the sorted front are comparable)"""
    try:
        return all(float(v) == v for p in pts for v in p)
    except OverflowError:
        return False


def _rows(pts):
    return [[rat(v) for v in p] for p in pts]


def _gen_cases(ck):
    """yields (kind, pts, opts): pts = rows of exact Python numbers, opts = how they are handed over"""
    rng = ck.rng
    # (a) exhaustive lattice multisets in every order
    if ck.thorough:
        plan = [(1, 4, 5), (2, 4, 4), (3, 3, 4), (2, 3, 5), (3, 2, 5)]
    else:
        plan = [(1, 4, 4), (2, 3, 4), (3, 2, 4), (2, 4, 3)]
    for m, side, kmax in plan:
        lat = list(itertools.product(range(side), repeat=m))
        for k in range(1, kmax + 1):
            for pts in itertools.combinations_with_replacement(lat, k):
                for perm in set(itertools.permutations(pts)):
                    yield "lattice", [list(map(float, p)) for p in perm], {}
                    if m == 1:  # a single objective may be given as a vector (the np.ndim(y) == 1 branch)
                        yield "lattice", [list(map(float, p)) for p in perm], {"form": "1d"}
    # (a') coordinates of very different magnitudes: float coordinate sums tie although one point
    #      dominates the other (the large coordinate absorbs the small one) - every permutation
    bigs, tinies = [1e9, 5e8, 2e9, 1.0], [0.0, 1e-9, 2e-9, 1e-17, 3.0]
    nabs = ck.pick(40, 400)
    for _ in range(nabs):
        m = rng.choice([2, 2, 3])
        n = rng.randint(2, 4)
        base = rng.choice(bigs)
        pts = []
        for _k in range(n):
            if rng.random() < 0.7:
                p = [base] + [rng.choice(tinies) for _ in range(m - 1)]
            else:
                p = [rng.choice(bigs)] + [rng.choice(tinies) for _ in range(m - 1)]
            rng.shuffle(p) if rng.random() < 0.2 else None
            pts.append(p)
        for perm in set(itertools.permutations(map(tuple, pts))):
            yield "absorb", [list(p) for p in perm], {}
    # (a'') every input class: integer arrays of every width, float16/32/64, object arrays, lists of Python
    #       numbers.  Each objective column is a small lattice {0..3}*step shifted by a base at the edge of what
    #       the dtype can tell apart (largest/smallest value, 2**24, 2**53, 2**63, 2**64 and beyond, subnormals),
    #       so ties, duplicates and dominance are decided by the last unit of the GIVEN values.
    ndt = ck.pick(900, 5000)
    for _ in range(ndt):
        yield _dtype_case(rng)
    # (b) generated float sets: equal sums, negatives, duplicates, permutations of one set
    nrand = ck.pick(250, 3000)
    for t in range(nrand):
        n = rng.choice([1, 2, 3, 5, 8, 13, 30, 60] + ([120, 200] if ck.thorough else []))
        m = rng.randint(1, 6)
        kind = rng.choice(["grid", "float", "eqsum", "neg", "dups"])
        if kind == "grid":
            pts = [[float(rng.randint(0, 3)) for _ in range(m)] for _ in range(n)]
        elif kind == "float":
            pts = [[rng.uniform(-1, 1) * 10 ** rng.randint(-3, 3) for _ in range(m)] for _ in range(n)]
        elif kind == "eqsum":
            # rows with equal sums (argsort ties) : permutations of one multiset of coordinates
            base = [float(rng.randint(-3, 3)) for _ in range(m)]
            pts = []
            for _ in range(n):
                b = base[:]
                rng.shuffle(b)
                pts.append(b)
        elif kind == "neg":
            pts = [[-abs(rng.gauss(0, 5)) for _ in range(m)] for _ in range(n)]
        else:
            pool = [[rng.choice([0.5, 1.0, 1.5, 0.1 + 0.2]) for _ in range(m)] for _ in range(max(1, n // 3))]
            pts = [list(rng.choice(pool)) for _ in range(n)]
        opts = {"form": "1d"} if m == 1 and rng.random() < 0.5 else {}
        yield kind, pts, opts
        if t % 5 == 0 and n > 1:
            p2 = pts[:]
            rng.shuffle(p2)
            yield kind + "-perm", p2, opts


def _int_bases(lo, hi):
    """offsets at which a {0..3} lattice still fits in [lo, hi]"""
    cand = [0, 1, lo, hi - 3, -2, -3, 2 ** 24 - 1, 2 ** 24, 2 ** 31 - 2, 2 ** 32 - 2, 2 ** 53 - 2, 2 ** 53, 2 ** 53 + 2,
            2 ** 60, 2 ** 62 + 1, 2 ** 63 - 2, 2 ** 63, 2 ** 64 - 4, -(2 ** 53) - 1, -(2 ** 62), 1700000000000000000]
    return [b for b in cand if lo <= b and b + 3 <= hi]


def _dtype_case(rng):
    dt = rng.choice(_INT_DTYPES + _FLOAT_DTYPES + ["object", "object", "pyint", "pyint", "pymixed"])
    m = rng.choice([1, 1, 2, 2, 2, 3])
    n = rng.randint(2, 6)
    cols = []
    for _j in range(m):
        d = [rng.randint(0, 3) for _ in range(n)]
        if dt in _INT_DTYPES:
            info = np.iinfo(dt)
            b = rng.choice(_int_bases(int(info.min), int(info.max)))
            cols.append([b + x for x in d])
        elif dt in ("object", "pyint"):
            b = rng.choice(_int_bases(-(2 ** 200), 2 ** 200) + [2 ** 64, 2 ** 70, -(2 ** 70), 10 ** 30, 2 ** 100])
            cols.append([b + x for x in d])
        elif dt == "pymixed":
            if rng.random() < 0.5:
                b = rng.choice([0, -2, 2 ** 24, 2 ** 53 - 4, 2 ** 60])
                s = 1 if b < 2 ** 53 else 2 ** 10
                cols.append([b + s * x for x in d])
            else:
                b = rng.choice([0.0, 0.5, -1.25, 1e9])
                cols.append([b + 0.5 * x for x in d])
        else:
            ft = np.dtype(dt).type
            top = {"float16": 11, "float32": 24, "float64": 53}[dt]
            b = ft(rng.choice([0.0, 1.0, -1.0, 2.0 ** top, -(2.0 ** top), 2.0 ** (top - 1), 0.5, 2.0 ** (top + 3)]
                              + ([1e300, 2.0 ** -1022] if dt == "float64" else [])))
            step = np.spacing(abs(b)) if b != 0 else np.spacing(ft(0))  # the last unit at that magnitude (subnormal at 0)
            with np.errstate(all="ignore"):
                cols.append([(b + ft(x) * step).item() for x in d])
    pts = [[cols[j][i] for j in range(m)] for i in range(n)]
    opts = {"dtype": dt}
    if dt in ("pyint", "pymixed"):
        opts["container"] = "list"
        if dt == "pymixed" and rng.random() < 0.5:  # ints and floats within one column as well
            pts = [[(float(v) if rng.random() < 0.3 and float(v) == v else v) for v in p] for p in pts]
    else:
        if dt == "object" and rng.random() < 0.3:  # Python ints and floats side by side (compared exactly by Python)
            pts = [[(float(v) if rng.random() < 0.3 and float(v) == v else v) for v in p] for p in pts]
        r = rng.random()
        if r < 0.1 and dt != "object":
            opts["container"] = "rows"
        elif r < 0.25:
            opts["layout"] = "F"
        elif r < 0.4:
            opts["layout"] = "strided"
        if m == 1 and rng.random() < 0.6 and opts.get("container", "ndarray") == "ndarray":
            opts["form"] = "1d"
    return "dtype", pts, opts


# --------------------------------------------------------------------------- requested numbers of the ranked form


def _nudge(x, k):
    for _ in range(abs(k)):
        x = math.nextafter(x, math.inf if k > 0 else -math.inf)
    return x


def _gen_fraction(rng, n):
    """one `fraction` for a set of n points, aimed at the edges of ceil(fraction*n): products just above / just
    below / exactly on an integer at every distance from 1 ulp to 1e-3, tiny positive fractions down to the
    smallest subnormal, decimal literals, the ends 0 and 1, values above 1 and far above 1."""
    r = rng.random()
    if r < 0.2:
        den = rng.choice([10, 100, 100, 1000])
        return rng.randint(0, int(1.2 * den)) / den, "decimal"
    if r < 0.4:
        k = rng.randint(0, n + 1)
        return max(0.0, _nudge(k / n, rng.randint(-3, 3))), "k/n±ulps"
    if r < 0.65:
        k = rng.randint(0, n)
        eps = rng.choice([-1, 1]) * 10.0 ** -rng.randint(3, 17)
        return max(0.0, (k + eps) / n), "near-integer"
    if r < 0.8:
        return rng.choice([10.0 ** -rng.randint(1, 323), 5e-324, sys.float_info.min, 2.0 ** -rng.randint(30, 1074)]), "tiny"
    if r < 0.97:
        return rng.choice([0, 0.0, 1, 1.0, 2, 1.5, math.nextafter(1.0, 0.0), math.nextafter(1.0, 2.0), 1 / 3, 2 / 3, 1 / n,
                           np.float64(0.5), np.float64(rng.randint(0, n)) / n, float(n), 0.9, 1 - 0.9]), "special"
    return rng.choice([1e19, 4.7e18, 1e300, 2 ** 63, 10 ** 30, 1.7e308]), "huge"


def _req(fraction, n):
    """min(n, ceil(fraction*n)) with `fraction*n` the Python product of the two numbers handed in (a double for a
    float fraction) — the docstring's own definition, DESIGN section 8.  Stated here, never taken from the code."""
    p = fraction * n
    return n if p >= n else math.ceil(p)  # = min(n, ceil(p)); written so that an infinite product needs no ceiling


def _req_exact(fraction, n):
    return min(n, math.ceil(Fraction(fraction) * n))


# --------------------------------------------------------------------------- result tables

_HOSTILE = ["objective", "objective_0", "objective_1", "objective_2", "objective_0_std", "objective_1_weight", "my_objective_0",
            "objectives", "pareto_efficient", "job_id", "job_status", " objective_0", "objective_0 ", " x ", "Objective_0",
            "OBJECTIVE", "m:objective_0", "p:objective_1", "objective_", "F", "timestamp_submit", "timestamp_gather", "lr", "obj"]


def _gen_table(rng):
    """a results table as the evaluator writes it: p:<hyperparameter> columns, the objective columns, job_id,
    job_status, m:<metadata key> columns — with hyperparameter names and metadata keys chosen by the user
    (any string: containing 'objective', 'pareto_efficient', 'job_id', leading/trailing blanks, ...)."""
    n = rng.randint(1, 12)
    m = rng.choice([1, 2, 2, 2, 3, 3])
    # objective cells: short decimals / integers (text the CSV parser reads back exactly, checked before use)
    style = rng.choice(["grid", "grid", "int", "quarter", "wide"])

    def val():
        if style == "grid":
            return float(rng.randint(0, 3))
        if style == "int":
            return rng.randint(-3, 3)
        if style == "quarter":
            return rng.randint(-8, 8) / 4
        return rng.choice([rng.randint(0, 3) * 10.0 ** rng.randint(-3, 6), -float(rng.randint(0, 3)), rng.randint(0, 30) / 10])

    objs = [[val() for _ in range(m)] for _ in range(n)]
    failed = [rng.random() < 0.25 for _ in range(n)]
    jobids = list(range(n))
    if rng.random() < 0.7:  # rows are written in completion order, which is not job_id order with several workers
        rng.shuffle(jobids)
    pnames = rng.sample(_HOSTILE, rng.choice([0, 0, 1, 2]))
    mnames = rng.sample(_HOSTILE, rng.choice([0, 1, 2, 3]))
    onames = ["objective"] if m == 1 else [f"objective_{i}" for i in range(m)]
    header = ["p:x"] + ["p:" + s for s in pnames] + onames + ["job_id"] + (["job_status"] if rng.random() < 0.5 else []) + ["m:" + s for s in mnames]

    def extra_col():
        k = rng.choice(["num", "num", "num", "int", "str", "gap"])
        if k == "num":
            return [repr(float(rng.randint(0, 4))) for _ in range(n + 8)]
        if k == "int":
            return [str(rng.randint(-2, 5)) for _ in range(n + 8)]
        if k == "str":
            return [rng.choice(["a", "F", "F_timeout", "relu", "1e3x"]) for _ in range(n + 8)]
        return [rng.choice(["", "1.5", "0.25"]) for _ in range(n + 8)]

    extra = {h: extra_col() for h in header if h.startswith(("p:", "m:")) and h != "p:x"}

    def row(k, o, fl, jid):
        out = []
        for h in header:
            if h == "p:x":
                out.append(str(k))
            elif h in onames:
                out.append("F" if fl else repr(o[onames.index(h)]))
            elif h == "job_id":
                out.append(str(jid))
            elif h == "job_status":
                out.append("DONE")
            else:
                out.append(extra[h][k])
        return out

    cells = [row(k, objs[k], failed[k], jobids[k]) for k in range(n)]
    case = {"kind": "column", "header": header, "cells": cells, "objs": objs, "failed": failed, "job_ids": jobids}
    if not all(failed) and rng.random() < 0.5:
        # a later search() call appends rows WITHOUT the new column (the writer keeps the columns of its first
        # dump) and the column is computed again at its end: the second table must be exact too
        n2 = rng.randint(1, 5)
        objs2 = [[val() for _ in range(m)] for _ in range(n2)]
        failed2 = [rng.random() < 0.2 for _ in range(n2)]
        case["second"] = {"cells": [row(n + k, objs2[k], failed2[k], n + k) for k in range(n2)], "objs": objs2, "failed": failed2}
    return case


def _objective_names(header):
    """the objective columns of a results table, by the evaluator's naming: `objective` (one objective) or
    `objective_0 … objective_{k-1}`; hyperparameters are `p:<name>`, metadata `m:<key>` whatever <name>/<key> are"""
    if "objective" in header:
        return ["objective"]
    out, i = [], 0
    while f"objective_{i}" in header:
        out.append(f"objective_{i}")
        i += 1
    return out


# --------------------------------------------------------------------------- the run


class _Run:
    def __init__(self, ck, pf, Search, spy):
        self.ck, self.pf, self.Search, self.spy = ck, pf, Search, spy
        self.reqs, self.metas = [], []
        self.tmpdir = None

    # ---- non_dominated_set (mask, index), pareto_front (plain, sorted), is_pareto_efficient
    def points(self, kind, pts, opts, ranked_fraction=None):
        ck, pf, spy = self.ck, self.pf, self.spy
        case = {"kind": kind, "pts": pts, **opts}
        y = np.array(pts, dtype=float) if not opts else _make_input(pts, opts)  # (no options: rows of Python floats)
        if y is None:
            ck.count("skipped:container-does-not-hold-the-values-exactly")
            return
        n, m = len(pts), len(pts[0])
        is_arr = isinstance(y, np.ndarray)
        two_d = is_arr and y.ndim == 2
        y0 = y.copy() if is_arr else [np.array(r, dtype=object).copy() for r in y]
        spy.orders.clear()
        try:
            mask = pf.non_dominated_set(y)
            order = spy.orders[-1] if spy.orders else list(range(n))
            idx = pf.non_dominated_set(y, return_mask=False)
            mask_l = [bool(b) for b in mask]
            idx_l = [int(i) for i in idx]
        except Exception as e:  # the functions are total on finite inputs
            ck.fail("C11|raises|non_dominated_set", f"non_dominated_set raised {type(e).__name__}", case, repr(e))
            return
        front = sfront = sidx_l = None
        if two_d:
            try:
                front, fidx = pf.pareto_front(y, return_idx=True)
                sfront, sidx = pf.pareto_front(y, sort=True, return_idx=True)
                fidx_l, sidx_l = [int(i) for i in fidx], [int(i) for i in sidx]
            except Exception as e:
                ck.fail("C11|raises|pareto_front", f"pareto_front raised {type(e).__name__}", case, repr(e))
                return
        dt = opts.get("dtype", "float64")
        ck.count("kind:" + kind)
        ck.count("input:" + dt + "/" + opts.get("container", "ndarray") + ("/" + opts["layout"] if "layout" in opts else "")
                 + ("/1d" if opts.get("form") == "1d" else ""))
        ck.count(f"n={min(n, 9)}{'+' if n > 9 else ''}")
        ck.count(f"m={m}")
        tset = set(map(tuple, pts))
        has_dom = any(_dom(a, b) for a in tset for b in tset)
        arr = np.asarray(y)
        sums = (arr.sum(axis=1) if arr.ndim == 2 else arr).tolist()
        nontriv = n >= 2 and (has_dom or len(tset) < n or len(set(sums)) < n)
        lossless = True if not opts else _lossless_float(pts)
        if not lossless:
            ck.count("values-not-representable-as-float64")
        ck.case(case, nontrivial=nontriv)
        same = np.array_equal(y, y0) if is_arr else all(np.array_equal(np.array(a, dtype=object), b) for a, b in zip(y, y0))
        if not same:
            ck.fail("C11|mutates-input|non_dominated_set", "caller's array changed", case)
        if len(mask_l) != n or sorted(idx_l) != [i for i, b in enumerate(mask_l) if b]:
            ck.fail("C11|mask-vs-idx|non_dominated_set", "mask form and index form select different points", case,
                    {"mask": mask_l, "idx": idx_l})
        if two_d:
            if fidx_l != idx_l or not np.array_equal(front, y[idx]):
                ck.fail("C11|pareto_front|pareto_front", "pareto_front is not y[non_dominated_set idx]", case)
            # the sorted front is returned as float64 rows: its values are comparable with the given ones only
            # when those are float64-representable; which rows it lists is judged always
            if sorted(sidx_l) != sorted(idx_l) or (lossless and not np.array_equal(sfront, y[sidx])):
                ck.fail("C11|pareto_front-sorted|pareto_front", "sorted front is not a reordering of the front", case)
            if any(tuple(sfront[i]) > tuple(sfront[i + 1]) for i in range(len(sfront) - 1)):
                ck.fail("C11|pareto_front-sorted-order|pareto_front", "sorted front is not in lexicographic order", case)
        self.reqs.append({"op": "nds", "pts": _rows(pts), "order": order, "mask": mask_l, "idx": idx_l})
        self.metas.append(("nds", case, mask_l, idx_l, sidx_l if lossless else None))
        # is_pareto_efficient: a new vector against the recorded set
        if two_d and n <= 30 and (kind != "lattice" or ck.rng.random() < 0.1):
            a, b = pts[ck.rng.randrange(n)], pts[ck.rng.randrange(n)]
            if kind != "dtype":
                news = [a, [v + ck.rng.choice([-1.0, 0.0, 0.5]) for v in b]]
            else:  # a vector every dtype can hold: each coordinate from one of two recorded vectors
                news = [a, [ck.rng.choice(c) for c in zip(a, b)]]
            for new in news:
                nobj = new  # a list, or (input classes) an array of the same dtype as the recorded set
                if kind == "dtype":
                    nobj = _make_input([new], {"dtype": dt})
                    if nobj is None:
                        continue
                    nobj = nobj[0]
                ic = {"kind": "ipe", "pts": pts, "new": new, **opts}
                try:
                    got = bool(pf.is_pareto_efficient(nobj, y))
                except Exception as e:
                    ck.fail("C11|raises|is_pareto_efficient", f"{type(e).__name__}", ic, repr(e))
                    continue
                ck.case(ic, nontrivial=True)
                ck.count("is_pareto_efficient:" + str(got))
                want = not any(all(p <= q for p, q in zip(r, new)) for r in pts)
                if got != want:
                    ck.fail("C11|is_pareto_efficient|is_pareto_efficient", "answer differs from 'no recorded vector weakly dominates the new one'", ic, {"got": got})
                self.reqs.append({"op": "ipe", "pts": _rows(pts), "new": [rat(v) for v in new]})
                self.metas.append(("ipe", ic, got, None, None))
        # ranked (needs an array: the peeling indexes y with a boolean mask)
        if is_arr and ranked_fraction is not None:
            self.ranked(kind, pts, opts, ranked_fraction[0], ranked_fraction[1], y=y)

    # ---- non_dominated_set_ranked
    def ranked(self, kind, pts, opts, fr, frkind, y=None):
        ck, pf, spy = self.ck, self.pf, self.spy
        if y is None:
            y = _make_input(pts, opts)
            if y is None:
                ck.count("skipped:container-does-not-hold-the-values-exactly")
                return
        n = len(pts)
        frj = fr if isinstance(fr, int) else float(fr)
        rc = {"kind": kind, "pts": pts, "fraction": frj, "fraction_type": type(fr).__name__, **opts}
        req_n = _req(frj, n)
        rc["req"] = req_n
        beyond = frj * n >= 2 ** 63  # the product does not fit a 64-bit integer
        sfx = "|fraction*n>=2^63" if beyond else ""
        y0 = y.copy()
        spy.orders.clear()
        try:
            rmask = pf.non_dominated_set_ranked(y, fr)
            ridx = pf.non_dominated_set_ranked(y, fr, return_mask=False)
            rmask_l = [bool(b) for b in rmask]
            ridx_l = [int(i) for i in ridx] if 0 < req_n < n else None
        except Exception as e:
            ck.fail("C11|raises|non_dominated_set_ranked" + sfx, f"ranked raised {type(e).__name__}", rc, repr(e))
            return
        rounds = spy.orders[: len(spy.orders) // 2] if spy.orders else []
        ck.case(rc, nontrivial=0 < req_n < n)
        ck.count("ranked:" + ("none" if req_n <= 0 else "all" if req_n >= n else f"rounds={len(rounds)}"))
        ck.count("ranked-fraction:" + frkind)
        p = frj * n
        if isinstance(p, float) and p < 2 ** 53:
            near = round(p)
            ck.count("ranked-product:" + ("integer" if p == near else "tiny" if 0 < p < 1e-6 else
                                         "just-above-integer" if 0 < p - near < 1e-6 else
                                         "just-below-integer" if 0 < near - p < 1e-6 else "between"))
        if req_n != _req_exact(frj, n):
            ck.count("ranked-req:float-product-and-exact-product-differ")
        if not np.array_equal(y, y0):
            ck.fail("C11|mutates-input|non_dominated_set_ranked", "caller's array changed", rc)
        sel = [i for i, b in enumerate(rmask_l) if b]
        # oracle: count, dominance-closed, index form consistent
        count_wrong = len(rmask_l) != n or len(sel) != max(0, req_n)
        if count_wrong:
            ck.fail("C11|ranked-count|non_dominated_set_ranked" + sfx, "wrong number of points", rc, {"got": len(sel), "want": max(0, req_n)})
        if ridx_l is not None and sorted(ridx_l) != sel:
            ck.fail("C11|ranked-mask-vs-idx|non_dominated_set_ranked", "mask and index forms differ", rc)
        ss = set(sel)
        for i in sel:
            for j in range(n):
                if j not in ss and _dom(pts[j], pts[i]):
                    ck.fail("C11|ranked-front-order|non_dominated_set_ranked",
                            "a point is chosen although a point dominating it is not", rc, {"chosen": i, "dominator": j})
        if beyond and count_wrong:
            return  # reported above with its own fingerprint; nothing to compare with the model on such a case
        self.reqs.append({"op": "ranked", "pts": _rows(pts), "req": req_n, "orders": rounds})
        self.metas.append(("ranked", rc, rmask_l, ridx_l, sfx))

    # ---- pareto_efficient column of a results table
    def _write(self, path, header, cells, mode="w"):
        with open(path, mode, newline="") as f:
            w = csv.writer(f)
            if mode == "w":
                w.writerow(header)
            w.writerows(cells)

    def _parsed_ok(self, path, header, cells, objs, failed):
        """the CSV parser reads the objective cells back as exactly the numbers written (else the case is not used)"""
        import pandas as pd

        df = pd.read_csv(path)
        if list(df.columns) != header or len(df) != len(cells):
            return False
        for name in _objective_names(header):
            col = df[name].tolist()
            j = _objective_names(header).index(name)
            for k, v in enumerate(col):
                if failed[k]:
                    if v != "F":
                        return False
                elif not (float(v) == objs[k][j]):
                    return False
        return True

    def column(self, case):
        import pandas as pd

        ck = self.ck
        header, cells, objs, failed, jobids = case["header"], case["cells"], case["objs"], case["failed"], case["job_ids"]
        n = len(cells)
        path = os.path.join(self.tmpdir, f"r{len(self.metas)}_{ck.evaluations}.csv")
        self._write(path, header, cells)
        if not self._parsed_ok(path, header, cells, objs, failed):
            ck.count("skipped:csv-parser-does-not-read-back-the-objectives")
            return
        ns = types.SimpleNamespace(is_master=True, _path_results=path)
        first = {k: v for k, v in case.items() if k != "second"}
        flags = self._column_call(ns, path, first, header, objs, failed, jobids, "", cells)
        if flags is None:
            return
        sec = case.get("second")
        if sec:
            self._write(path, header, sec["cells"], mode="a")
            n2 = len(sec["cells"])
            case2 = dict(case, kind="column-second-call")
            self._column_call(ns, path, case2, header, objs + sec["objs"], failed + sec["failed"], jobids + list(range(n, n + n2)),
                              " on the second call", cells + sec["cells"])

    def _column_call(self, ns, path, case, header, objs, failed, jobids, when, cells):
        import pandas as pd

        ck, spy = self.ck, self.spy
        n = len(objs)
        onames = _objective_names(header)
        m = len(onames)
        spy.orders.clear()
        try:
            self.Search.extend_results_with_pareto_efficient_indicator(ns)
            df = pd.read_csv(path)
        except Exception as e:
            if all(failed):
                # all-failed tables: no numeric objective at all; the column is not defined by the property
                ck.count("column:all-failed-raises")
                return None
            ck.fail("C11|raises|pareto_efficient-column", f"{type(e).__name__}{when}", case, repr(e))
            return None
        cols = list(df.columns)
        if "job_id" not in cols or "p:x" not in cols or sorted(int(j) for j in df["job_id"].tolist()) != sorted(jobids) or len(df) != n:
            ck.fail("C11|rows-changed|pareto_efficient-column", "the rewrite changed the set of rows", case)
            return None
        px = {int(j): int(x) for j, x in zip(df["job_id"].tolist(), df["p:x"].tolist())}
        if any(px[jobids[k]] != k for k in range(n)):
            ck.fail("C11|rows-changed|pareto_efficient-column", "the rewrite detached rows from their job_id", case)
            return None
        if "pareto_efficient" not in cols:
            if m >= 2:
                ck.fail("C11|column-undefined|pareto_efficient-column", "no pareto_efficient column in a multi-objective table" + when, case)
            else:
                ck.count("column:single-objective-no-column")
                ck.case(case, nontrivial=False)
            return None
        raw = df["pareto_efficient"].tolist()
        by_job = dict(zip((int(j) for j in df["job_id"].tolist()), raw))
        if any(not isinstance(b, (bool, np.bool_)) for b in raw):
            ck.fail("C11|column-undefined|pareto_efficient-column", "pareto_efficient is missing/undefined for some rows" + when, case,
                    {"flags": [repr(b) for b in raw]})
            return None
        col = [bool(by_job[jobids[k]]) for k in range(n)]  # flag of the k-th written row, whatever the new row order
        ck.case(case, nontrivial=n >= 2)
        ck.count(case["kind"])
        ck.count(f"column:objectives={m}")
        hostile = [h for h in header if h[:2] in ("p:", "m:") and "objective" in h.lower()]
        if hostile:
            ck.count("column:other-columns-mentioning-objective")
        if any(col[k] for k in range(n) if failed[k]):
            ck.fail("C11|failed-row-flagged|pareto_efficient-column", "a failed row is flagged pareto_efficient", case)
        ok_rows = [k for k in range(n) if not failed[k]]
        sub = [[-v for v in objs[k]] for k in ok_rows]  # maximisation: objectives are negated
        if sub:
            self.reqs.append({"op": "nds", "pts": _rows(sub), "order": list(range(len(sub))),
                              "mask": [col[k] for k in ok_rows], "idx": [i for i, k in enumerate(ok_rows) if col[k]]})
            self.metas.append(("column", case, None, None, None))
            # the whole step inside the model: header -> objective columns -> failed rows -> sweep -> scatter
            order = spy.orders[-1] if spy.orders else list(range(len(sub)))
            table = []
            for k in range(n):
                r = []
                for h in header:
                    if h in onames:
                        r.append(["f"] if failed[k] else ["n", rat(objs[k][onames.index(h)])])
                    else:  # another column: what its cell holds (the model must not look at it)
                        txt = cells[k][header.index(h)]
                        try:
                            r.append(["n", rat(float(txt))] if math.isfinite(float(txt)) else ["t"])
                        except ValueError:
                            r.append(["f"] if txt.startswith("F") else ["t"])
                table.append(r)
            self.reqs.append({"op": "column", "pts": [], "header": header, "rows": table, "order": order})
            self.metas.append(("column-model", case, col, None, None))
        return col

    # ---- Lean: model outputs (L2) and the verified checker on the implementation's outputs (L3)
    def lean(self):
        ck = self.ck
        with ck.driver() as d:
            reps = d.ask_all(self.reqs)
        for (kind, case, mask, idx, extra), rep in zip(self.metas, reps):
            if kind == "ipe":
                if rep["model"] != mask:
                    ck.mismatch(case, {"impl": mask, "model": rep["model"]})
            elif kind == "nds":
                sidx = extra
                if sidx is not None and rep["sorted_idx"] != sidx:
                    ck.mismatch(case, {"impl_sorted_idx": sidx, "model_sorted_idx": rep["sorted_idx"]})
                if not rep["spec_model"]:
                    ck.mismatch(case, "model output fails its own verified checker (model/proof out of sync)")
                if rep["model_mask"] != mask or rep["model_idx"] != idx or rep["literal_idx"] != idx:
                    ck.mismatch(case, {"impl_mask": mask, "model_mask": rep["model_mask"], "impl_idx": idx, "model_idx": rep["model_idx"]})
                if not rep["spec_mask"] or not rep["spec_idx"]:
                    ck.fail("C11|not-pareto-exact|non_dominated_set", "selected set is not exactly the Pareto-optimal set (checkSel = false)",
                            case, {"mask": mask, "idx": idx})
            elif kind == "column":
                if not rep["spec_mask"]:
                    ck.fail("C11|not-pareto-exact|pareto_efficient-column", "pareto_efficient is not exactly the non-dominated successful rows", case)
            elif kind == "column-model":
                if rep.get("column") != mask:
                    ck.mismatch(case, {"impl_column": mask, "model_column": rep.get("column"), "model_objective_columns": rep.get("objective_columns")})
            else:
                if rep["model_mask"] != mask or (idx is not None and rep["model_idx"] != idx):
                    ck.mismatch(case, {"impl_mask": mask, "model_mask": rep["model_mask"], "impl_idx": idx, "model_idx": rep["model_idx"]})
                if idx is not None and rep["spec_idx"] != idx:
                    ck.fail("C11|ranked-not-front-by-front|non_dominated_set_ranked",
                            "result is not the first req indices of the successive Pareto fronts", case,
                            {"impl_idx": idx, "fronts_prefix": rep["spec_idx"]})


def _dispatch(r, case):
    """run one stored case (corpus / replay file) through the same oracle as the generated ones"""
    kind = case.get("kind", "replay")
    opts = {k: case[k] for k in ("dtype", "container", "layout", "form") if k in case}
    if kind.startswith("column"):
        r.column(case)
    elif "fraction" in case:
        fr = case["fraction"]
        if case.get("fraction_type") == "float64":
            fr = np.float64(fr)
        r.ranked(kind, case["pts"], opts, fr, "stored")
    elif kind == "ipe":
        r.points("replay", case["pts"], opts)
    else:
        r.points(kind, case["pts"], opts)


def _session(ck, body):
    import deephyper.skopt.moo._pf as pf
    from deephyper.hpo._search import Search

    spy = _NpSpy()
    real_np = pf.np
    r = _Run(ck, pf, Search, spy)
    r.tmpdir = tempfile.mkdtemp(prefix="c11_")
    try:
        pf.np = spy
        body(r)
    finally:
        pf.np = real_np
        import shutil

        shutil.rmtree(r.tmpdir, ignore_errors=True)
    r.lean()


def run(ck):
    ck.rule = ("exhaustive multisets of <=k points on {0..s-1}^m lattices in every order (2-d and, for one objective, 1-d inputs) "
               "+ generated float sets (grid/float/equal-sum/negative/duplicates, permuted variants) + sets of every input class "
               "(int8..int64, uint8..uint64, float16/32/64, object arrays, lists of Python ints/floats; C/F/strided layouts) whose "
               "coordinates differ by the last unit of the given dtype at its extremes + (fraction, n) pairs at the edges of "
               "ceil(fraction*n) + result tables with user-chosen hyperparameter names / metadata keys; distinct by canonical case; "
               "non-trivial = at least 2 points and (a dominated point or a duplicate or an argsort tie present)")
    ck.assumptions = [
        "np.argsort returns a permutation of range(n) (observed and passed to the model; theorems hold for every such order)",
        "the requested number of the ranked form is min(n, ceil(fraction*n)) with fraction*n the Python (double) product — the docstring's "
        "own definition, DESIGN section 8 — computed by the harness itself, never taken from the implementation",
        "the given values of a list input are those NumPy's own coercion np.asarray(list) holds exactly; lists it cannot hold exactly are not judged",
        "objective cells of a results table are the doubles the CSV parser reads (tables whose cells do not read back exactly are not used)",
        "NumPy boolean/fancy indexing glue is compared, not modelled",
    ]

    def body(r):
        rng = ck.rng
        # corpus first
        for path in sorted(glob.glob(str(VERIF / "corpus" / "C11" / "*.json"))):
            with open(path) as fh:
                data = json.load(fh)
            _dispatch(r, data.get("case", data))
            ck.count("corpus")
        fractions_ = [0.0, 0.1, 0.25, 1 / 3, 0.5, 0.6, 0.75, 0.9, 1.0, 1.5]
        for kind, pts, opts in _gen_cases(ck):
            n = len(pts)
            rf = None
            if n >= 2 and (kind != "lattice" or rng.random() < 0.15):
                rf = (rng.choice(fractions_), "plain") if rng.random() < 0.6 else _gen_fraction(rng, n)
            r.points(kind, pts, opts, rf)
        # the requested number of the ranked form at the edges of ceil(fraction*n); small sets first
        nfr = ck.pick(700, 4000)
        sizes = sorted(rng.choice([1, 1, 2, 3, 4, 5, 7, 10, 12, 20, 25, 30, 50, 60] + ([100, 200] if rng.random() < 0.15 else []))
                       for _ in range(nfr))
        for n in sizes:
            m = rng.choice([1, 2, 2, 3])
            pts = [[float(rng.randint(0, 5)) for _ in range(m)] for _ in range(n)]
            fr, frkind = _gen_fraction(rng, n)
            r.ranked("ranked-count", pts, {"form": "1d"} if m == 1 and rng.random() < 0.3 else {}, fr, frkind)
        # pareto_efficient column
        for _ in range(ck.pick(150, 800)):
            r.column(_gen_table(rng))

    _session(ck, body)


def replay(ck, case):
    _session(ck, lambda r: _dispatch(r, case))
    print("replay:", {"case": case, "failures": [f["fingerprint"] for f in ck.failures], "mismatches": len(ck.mismatches)})
