"""C11 — non_dominated_set / pareto_front / non_dominated_set_ranked / pareto_efficient column.

L2: the real functions vs. `Model/Pareto.lean` (same observed argsort order => identical mask,
    identical index list, identical ranked mask).
L3: the implementation's own outputs go through the verified checker `checkSel`/`checkMask`
    (theorem C11_checker: checker = specification), plus the ranked count / dominance-closure oracle.
"""
import itertools
import math
import os
import tempfile
import types

import numpy as np

from .common import rat


def _dom(a, b):
    return all(x <= y for x, y in zip(a, b)) and any(x < y for x, y in zip(a, b))


class _NpSpy:
    """stands in for the module-global `np` of _pf.py: records what argsort returns"""

    def __init__(self):
        self.orders = []

    def argsort(self, a, *args, **kw):
        o = np.argsort(a, *args, **kw)
        self.orders.append([int(i) for i in o])
        return o

    def __getattr__(self, k):
        return getattr(np, k)


def _gen_cases(ck):
    rng = ck.rng
    # (a) exhaustive lattice multisets in every order
    if ck.thorough:
        plan = [(1, 4, 5), (2, 4, 4), (3, 3, 4), (2, 3, 5), (3, 2, 5)]
    else:
        plan = [(1, 4, 4), (2, 3, 4), (3, 2, 4), (2, 4, 3)]
    for m, side, kmax in plan:
        lat = list(itertools.product(range(side), repeat=m))
        for k in range(1, kmax + 1):
            for pts in itertools.combinations_with_replacement(lat, k):
                for perm in set(itertools.permutations(pts)):
                    yield "lattice", [list(map(float, p)) for p in perm]
    # (a') coordinates of very different magnitudes: float coordinate sums tie although one point
    #      dominates the other (the large coordinate absorbs the small one) - every permutation
    bigs, tinies = [1e9, 5e8, 2e9, 1.0], [0.0, 1e-9, 2e-9, 1e-17, 3.0]
    nabs = ck.pick(40, 400)
    for _ in range(nabs):
        m = rng.choice([2, 2, 3])
        n = rng.randint(2, 4)
        base = rng.choice(bigs)
        pts = []
        for _k in range(n):
            if rng.random() < 0.7:
                p = [base] + [rng.choice(tinies) for _ in range(m - 1)]
            else:
                p = [rng.choice(bigs)] + [rng.choice(tinies) for _ in range(m - 1)]
            rng.shuffle(p) if rng.random() < 0.2 else None
            pts.append(p)
        for perm in set(itertools.permutations(map(tuple, pts))):
            yield "absorb", [list(p) for p in perm]
    # (b) generated float sets: equal sums, negatives, duplicates, permutations of one set
    nrand = ck.pick(250, 3000)
    for t in range(nrand):
        n = rng.choice([1, 2, 3, 5, 8, 13, 30, 60] + ([120, 200] if ck.thorough else []))
        m = rng.randint(1, 6)
        kind = rng.choice(["grid", "float", "eqsum", "neg", "dups"])
        if kind == "grid":
            pts = [[float(rng.randint(0, 3)) for _ in range(m)] for _ in range(n)]
        elif kind == "float":
            pts = [[rng.uniform(-1, 1) * 10 ** rng.randint(-3, 3) for _ in range(m)] for _ in range(n)]
        elif kind == "eqsum":
            # rows with equal sums (argsort ties) : permutations of one multiset of coordinates
            base = [float(rng.randint(-3, 3)) for _ in range(m)]
            pts = []
            for _ in range(n):
                b = base[:]
                rng.shuffle(b)
                pts.append(b)
        elif kind == "neg":
            pts = [[-abs(rng.gauss(0, 5)) for _ in range(m)] for _ in range(n)]
        else:
            pool = [[rng.choice([0.5, 1.0, 1.5, 0.1 + 0.2]) for _ in range(m)] for _ in range(max(1, n // 3))]
            pts = [list(rng.choice(pool)) for _ in range(n)]
        yield kind, pts
        if t % 5 == 0 and n > 1:
            p2 = pts[:]
            rng.shuffle(p2)
            yield kind + "-perm", p2


def run(ck):
    import deephyper.skopt.moo._pf as pf
    from deephyper.hpo._search import Search

    ck.rule = ("exhaustive multisets of <=k points on {0..s-1}^m lattices in every order + generated float sets "
               "(grid/float/equal-sum/negative/duplicates, permuted variants); distinct by canonical point list; "
               "non-trivial = at least 2 points and (a dominated point or a duplicate or an argsort tie present)")
    ck.assumptions = [
        "np.argsort returns a permutation of range(n) (observed and passed to the model; theorems hold for every such order)",
        "req = min(ceil(fraction*n), n) is evaluated with the code's own float expression (DESIGN section 8)",
        "NumPy boolean/fancy indexing glue is compared, not modelled",
    ]
    spy = _NpSpy()
    real_np = pf.np
    reqs, metas = [], []
    fractions_ = [0.0, 0.1, 0.25, 1 / 3, 0.5, 0.6, 0.75, 0.9, 1.0, 1.5]
    tmpdir = tempfile.mkdtemp(prefix="c11_")
    try:
        pf.np = spy
        for kind, pts in _gen_cases(ck):
            y = np.array(pts, dtype=float)
            n, m = y.shape
            y0 = y.copy()
            spy.orders.clear()
            try:
                mask = pf.non_dominated_set(y)
                order = spy.orders[-1]
                idx = pf.non_dominated_set(y, return_mask=False)
                front, fidx = pf.pareto_front(y, return_idx=True)
                sfront, sidx = pf.pareto_front(y, sort=True, return_idx=True)
            except Exception as e:  # the functions are total on finite inputs
                ck.fail("C11|raises|non_dominated_set", f"non_dominated_set raised {type(e).__name__}", {"pts": pts}, repr(e))
                continue
            ck.count("kind:" + kind)
            ck.count(f"n={min(n, 9)}{'+' if n > 9 else ''}")
            ck.count(f"m={m}")
            tset = set(map(tuple, pts))
            has_dom = any(_dom(a, b) for a in tset for b in tset)
            sums = y.sum(axis=1)
            nontriv = n >= 2 and (has_dom or len(tset) < n or len(set(sums.tolist())) < n)
            case = {"kind": kind, "pts": pts}
            ck.case(case, nontrivial=nontriv)
            if not np.array_equal(y, y0):
                ck.fail("C11|mutates-input|non_dominated_set", "caller's array changed", case)
            if sorted(int(i) for i in idx) != [int(i) for i in np.nonzero(mask)[0]]:
                ck.fail("C11|mask-vs-idx|non_dominated_set", "mask form and index form select different points", case,
                        {"mask": mask.tolist(), "idx": idx.tolist()})
            if [int(i) for i in fidx] != [int(i) for i in idx] or not np.array_equal(front, y[idx]):
                ck.fail("C11|pareto_front|pareto_front", "pareto_front is not y[non_dominated_set idx]", case)
            reqs.append({"op": "nds", "pts": [[rat(v) for v in p] for p in pts], "order": order,
                         "mask": [bool(b) for b in mask], "idx": [int(i) for i in idx]})
            metas.append(("nds", case, mask.tolist(), [int(i) for i in idx], [int(i) for i in sidx]))
            if not np.array_equal(sfront, y[sidx]) or sorted(int(i) for i in sidx) != sorted(int(i) for i in idx):
                ck.fail("C11|pareto_front-sorted|pareto_front", "sorted front is not a reordering of the front", case)
            if any(tuple(sfront[i]) > tuple(sfront[i + 1]) for i in range(len(sfront) - 1)):
                ck.fail("C11|pareto_front-sorted-order|pareto_front", "sorted front is not in lexicographic order", case)
            # is_pareto_efficient: a new vector against the recorded set
            if n <= 30 and (kind != "lattice" or ck.rng.random() < 0.1):
                for new in (pts[ck.rng.randrange(n)], [v + ck.rng.choice([-1.0, 0.0, 0.5]) for v in pts[ck.rng.randrange(n)]]):
                    try:
                        got = bool(pf.is_pareto_efficient(new, y))
                    except Exception as e:
                        ck.fail("C11|raises|is_pareto_efficient", f"{type(e).__name__}", {"pts": pts, "new": new}, repr(e))
                        continue
                    ic = {"kind": "ipe", "pts": pts, "new": new}
                    ck.case(ic, nontrivial=True)
                    ck.count("is_pareto_efficient:" + str(got))
                    want = not any(all(a <= b for a, b in zip(r, new)) for r in pts)
                    if got != want:
                        ck.fail("C11|is_pareto_efficient|is_pareto_efficient", "answer differs from 'no recorded vector weakly dominates the new one'", ic, {"got": got})
                    reqs.append({"op": "ipe", "pts": [[rat(v) for v in p] for p in pts], "new": [rat(v) for v in new]})
                    metas.append(("ipe", ic, got, None, None))
            # ranked
            if n >= 2 and (kind != "lattice" or ck.rng.random() < 0.15):
                fr = ck.rng.choice(fractions_)
                spy.orders.clear()
                try:
                    rmask = pf.non_dominated_set_ranked(y, fr)
                    ridx = pf.non_dominated_set_ranked(y, fr, return_mask=False)
                except Exception as e:
                    ck.fail("C11|raises|non_dominated_set_ranked", f"ranked raised {type(e).__name__}", {"pts": pts, "fraction": fr}, repr(e))
                    continue
                req_n = int(min(np.ceil(fr * n).astype(int), n))
                rounds = spy.orders[: len(spy.orders) // 2] if spy.orders else []
                rc = {"kind": kind, "pts": pts, "fraction": fr, "req": req_n}
                ck.case(rc, nontrivial=0 < req_n < n)
                ck.count("ranked:" + ("none" if req_n <= 0 else "all" if req_n >= n else f"rounds={len(rounds)}"))
                sel = [int(i) for i in np.nonzero(rmask)[0]]
                # oracle: count, dominance-closed, index form consistent
                if len(sel) != max(0, min(n, req_n)):
                    ck.fail("C11|ranked-count|non_dominated_set_ranked", "wrong number of points", rc, {"got": len(sel)})
                if 0 < req_n < n and sorted(int(i) for i in ridx) != sel:
                    ck.fail("C11|ranked-mask-vs-idx|non_dominated_set_ranked", "mask and index forms differ", rc)
                ss = set(sel)
                for i in sel:
                    for j in range(n):
                        if j not in ss and _dom(pts[j], pts[i]):
                            ck.fail("C11|ranked-front-order|non_dominated_set_ranked",
                                    "a point is chosen although a point dominating it is not", rc, {"chosen": i, "dominator": j})
                reqs.append({"op": "ranked", "pts": [[rat(v) for v in p] for p in pts], "req": req_n, "orders": rounds})
                metas.append(("ranked", rc, [bool(b) for b in rmask], [int(i) for i in ridx] if 0 < req_n < n else None, None))
        # pareto_efficient column (maximisation: objectives are negated)
        ncol = ck.pick(40, 300)
        for t in range(ncol):
            n = ck.rng.randint(1, 12)
            m = ck.rng.randint(2, 3)
            objs = [[float(ck.rng.randint(0, 3)) for _ in range(m)] for _ in range(n)]
            failed = [ck.rng.random() < 0.25 for _ in range(n)]
            path = os.path.join(tmpdir, f"r{t}.csv")
            # rows are written in completion order, which is not job_id order with several workers
            jobids = list(range(n))
            if ck.rng.random() < 0.7:
                ck.rng.shuffle(jobids)
            with open(path, "w") as f:
                f.write("p:x," + ",".join(f"objective_{i}" for i in range(m)) + ",job_id\n")
                for k, (o, fl) in enumerate(zip(objs, failed)):
                    cells = ["F"] * m if fl else [repr(v) for v in o]
                    f.write(f"{k}," + ",".join(cells) + f",{jobids[k]}\n")
            ns = types.SimpleNamespace(is_master=True, _path_results=path)
            case = {"kind": "column", "objs": objs, "failed": failed, "job_ids": jobids}
            try:
                Search.extend_results_with_pareto_efficient_indicator(ns)
                import pandas as pd

                df = pd.read_csv(path)
                by_job = {int(j): bool(b) for j, b in zip(df["job_id"].tolist(), df["pareto_efficient"].tolist())}
                if sorted(by_job) != list(range(n)) or len(df) != n:
                    ck.fail("C11|rows-changed|pareto_efficient-column", "the rewrite changed the set of rows", case)
                    continue
                col = [by_job[jobids[k]] for k in range(n)]  # flag of the k-th written row, whatever the new row order
                px = {int(j): int(x) for j, x in zip(df["job_id"].tolist(), df["p:x"].tolist())}
                if any(px[jobids[k]] != k for k in range(n)):
                    ck.fail("C11|rows-changed|pareto_efficient-column", "the rewrite detached rows from their job_id", case)
            except Exception as e:
                if all(failed):
                    # all-failed tables: no numeric objective at all; the column is not defined by the property
                    ck.count("column:all-failed-raises")
                    continue
                ck.fail("C11|raises|pareto_efficient-column", f"{type(e).__name__}", case, repr(e))
                continue
            ck.case(case, nontrivial=n >= 2)
            ck.count("column")
            # a later search() call appends rows WITHOUT the new column (the writer keeps the columns of
            # its first dump) and the column is computed again at its end: the second table must be exact too
            if not all(failed) and ck.rng.random() < 0.5:
                n2 = ck.rng.randint(1, 5)
                objs2 = [[float(ck.rng.randint(0, 4)) for _ in range(m)] for _ in range(n2)]
                failed2 = [ck.rng.random() < 0.2 for _ in range(n2)]
                with open(path, "a") as f:
                    for k, (o, fl) in enumerate(zip(objs2, failed2)):
                        cells = ["F"] * m if fl else [repr(v) for v in o]
                        f.write(f"{n + k}," + ",".join(cells) + f",{n + k}\n")
                case2 = {"kind": "column-second-call", "objs": objs + objs2, "failed": failed + failed2, "job_ids": jobids + list(range(n, n + n2))}
                try:
                    Search.extend_results_with_pareto_efficient_indicator(ns)
                    df2 = pd.read_csv(path)
                    flags = df2["pareto_efficient"].tolist()
                    by_job2 = {int(j): b for j, b in zip(df2["job_id"].tolist(), flags)}
                except Exception as e:
                    ck.fail("C11|raises|pareto_efficient-column", f"{type(e).__name__} on the second call", case2, repr(e))
                    continue
                ck.case(case2, nontrivial=True)
                ck.count("column-second-call")
                allobjs, allfailed, alljobs = case2["objs"], case2["failed"], case2["job_ids"]
                if sorted(by_job2) != sorted(alljobs) or any(not isinstance(b, (bool, np.bool_)) for b in by_job2.values()):
                    ck.fail("C11|column-undefined|pareto_efficient-column", "pareto_efficient is missing/undefined for some rows after a second call", case2,
                            {"flags": [repr(b) for b in flags]})
                    continue
                col2 = [bool(by_job2[j]) for j in alljobs]
                if any(col2[k] for k in range(len(alljobs)) if allfailed[k]):
                    ck.fail("C11|failed-row-flagged|pareto_efficient-column", "a failed row is flagged pareto_efficient", case2)
                ok2 = [k for k in range(len(alljobs)) if not allfailed[k]]
                sub2 = [[-v for v in allobjs[k]] for k in ok2]
                if sub2:
                    reqs.append({"op": "nds", "pts": [[rat(v) for v in p] for p in sub2], "order": list(range(len(sub2))),
                                 "mask": [col2[k] for k in ok2], "idx": [i for i, k in enumerate(ok2) if col2[k]]})
                    metas.append(("column", case2, None, None, None))
            ok_rows = [k for k in range(n) if not failed[k]]
            sub = [[-v for v in objs[k]] for k in ok_rows]
            if any(col[k] for k in range(n) if failed[k]):
                ck.fail("C11|failed-row-flagged|pareto_efficient-column", "a failed row is flagged pareto_efficient", case)
            if sub:
                reqs.append({"op": "nds", "pts": [[rat(v) for v in p] for p in sub], "order": list(range(len(sub))),
                             "mask": [col[k] for k in ok_rows], "idx": [i for i, k in enumerate(ok_rows) if col[k]]})
                metas.append(("column", case, None, None, None))
    finally:
        pf.np = real_np
        import shutil

        shutil.rmtree(tmpdir, ignore_errors=True)

    with ck.driver() as d:
        reps = d.ask_all(reqs)
    for (kind, case, mask, idx, sidx), rep in zip(metas, reps):
        if kind == "ipe":
            if rep["model"] != mask:
                ck.mismatch(case, {"impl": mask, "model": rep["model"]})
        elif kind == "nds":
            if rep["sorted_idx"] != sidx:
                ck.mismatch(case, {"impl_sorted_idx": sidx, "model_sorted_idx": rep["sorted_idx"]})
            if not rep["spec_model"]:
                ck.mismatch(case, "model output fails its own verified checker (model/proof out of sync)")
            if rep["model_mask"] != mask or rep["model_idx"] != idx or rep["literal_idx"] != idx:
                ck.mismatch(case, {"impl_mask": mask, "model_mask": rep["model_mask"], "impl_idx": idx, "model_idx": rep["model_idx"]})
            if not rep["spec_mask"] or not rep["spec_idx"]:
                ck.fail("C11|not-pareto-exact|non_dominated_set", "selected set is not exactly the Pareto-optimal set (checkSel = false)",
                        case, {"mask": mask, "idx": idx})
        elif kind == "column":
            if not rep["spec_mask"]:
                ck.fail("C11|not-pareto-exact|pareto_efficient-column", "pareto_efficient is not exactly the non-dominated successful rows", case)
        else:
            if rep["model_mask"] != mask or (idx is not None and rep["model_idx"] != idx):
                ck.mismatch(case, {"impl_mask": mask, "model_mask": rep["model_mask"], "impl_idx": idx, "model_idx": rep["model_idx"]})
            if idx is not None and rep["spec_idx"] != idx:
                ck.fail("C11|ranked-not-front-by-front|non_dominated_set_ranked",
                        "result is not the first req indices of the successive Pareto fronts", case,
                        {"impl_idx": idx, "fronts_prefix": rep["spec_idx"]})


def replay(ck, case):
    import deephyper.skopt.moo._pf as pf

    y = np.array(case["pts"], dtype=float)
    mask = pf.non_dominated_set(y)
    idx = pf.non_dominated_set(y, return_mask=False)
    order = [int(i) for i in np.argsort(y.sum(axis=1))]
    with ck.driver() as d:
        rep = d.ask({"op": "nds", "pts": [[rat(v) for v in p] for p in case["pts"]], "order": order,
                     "mask": [bool(b) for b in mask], "idx": [int(i) for i in idx]})
    ck.case(case)
    print("replay:", {"mask": mask.tolist(), "idx": idx.tolist(), "lean": rep})
    if not rep["spec_mask"] or not rep["spec_idx"]:
        ck.fail("C11|not-pareto-exact|non_dominated_set", "selected set is not exactly the Pareto-optimal set", case)
