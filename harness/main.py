"""Entry point: ./check Cxx --tier quick|thorough [--replay FILE]"""
import argparse
import importlib
import json
import os
import sys
import traceback

from . import common


def main():
    ap = argparse.ArgumentParser()
    ap.add_argument("prop")
    ap.add_argument("--tier", default=os.environ.get("VERIF_TIER", "quick"), choices=["quick", "thorough"])
    ap.add_argument("--replay", default=None)
    ap.add_argument("--no-lean", action="store_true", help="development only: skip the L1 gate")
    a = ap.parse_args()
    seed = int(os.environ.get("VERIF_SEED", "0") or 0)
    prop = a.prop.upper()
    try:
        mod = importlib.import_module(f"harness.{prop.lower()}")
    except ModuleNotFoundError as e:
        print(f"no check for {prop}: {e}", file=sys.stderr)
        return 2
    ck = common.Check(prop, a.tier, seed, extra_modules=getattr(mod, "EXTRA_LEAN_MODULES", ()))
    try:
        if hasattr(mod, "pre_lean"):
            mod.pre_lean(ck)  # e.g. the C07 translator regenerates Generated/*.lean from /repo
        if not a.no_lean:
            ck.gate.run(leanchecker=ck.thorough)
        common.use_repo_sources()
        from . import probe as _probe

        pr = _probe.Probe(_probe.anchor_files(common.VERIF, common.REPO, prop)).start()
        if a.replay:
            data = json.load(open(a.replay))
            if data.get("kind") == "no-failing-input-found" or not hasattr(mod, "replay"):
                mod.run(ck)
            else:
                mod.replay(ck, data["case"])
        else:
            try:
                mod.run(ck)
            except Exception as e:  # noqa: BLE001
                # A harness that cannot even drive / interpret the implementation.  On a tree identical to its
                # HEAD this is our machinery's fault (exit 2).  On a working tree that differs from HEAD the
                # crash is attributable to the change: the correspondence between model and implementation can no
                # longer be established, which is a broken L2 (failures already found are kept and reported).
                if not common.tree_differs_from_head():
                    raise
                tb = traceback.format_exc()
                print(tb, file=sys.stderr)
                ck.count("L2_harness_cannot_interpret_implementation")
                ck.mismatch({"harness_exception": type(e).__name__, "message": str(e)[:500]},
                            {"traceback_tail": tb.strip().splitlines()[-12:],
                             "meaning": "the harness could not drive or interpret the changed implementation "
                                        "(the same harness runs cleanly on the tree's HEAD); correspondence not established"})
            if (ck.gate.problems or ck.mismatches) and not ck.failures and hasattr(mod, "search"):
                # L1/L2 broken: deeper failing-input search on the real code
                try:
                    mod.search(ck)
                except Exception:  # noqa: BLE001
                    if not common.tree_differs_from_head():
                        raise
                    traceback.print_exc()
                    ck.count("L3_search_crashed_on_changed_tree")
        pr.stop()
        ck.extra_cov["impl_line_coverage_in_process"] = pr.summary(common.REPO)
        ck.extra_cov["impl_line_coverage_note"] = ("lines of the property's anchored files executed in the check's own process while the harness "
                                                  "drove the real code (pool workers / subprocesses are not observed)")
        return ck.finish()
    except common.HarnessError as e:
        print(f"[{prop}] HARNESS ERROR: {e}", file=sys.stderr)
        return 2
    except Exception:
        traceback.print_exc()
        print(f"[{prop}] HARNESS ERROR (unexpected exception above)", file=sys.stderr)
        return 2


if __name__ == "__main__":
    sys.exit(main())
