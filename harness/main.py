"""Entry point: ./check Cxx --tier quick|thorough [--replay FILE]"""
import argparse
import importlib
import json
import os
import sys
import traceback

from . import common


def _kill_descendants():
    """SIGKILL every descendant process (pool workers, Lean drivers, strace children) before a forced exit."""
    import signal

    me = os.getpid()
    kids = {}
    for d in os.listdir("/proc"):
        if d.isdigit():
            try:
                with open(f"/proc/{d}/stat") as f:
                    st = f.read()
                ppid = int(st.rsplit(")", 1)[1].split()[1])
                kids.setdefault(ppid, []).append(int(d))
            except Exception:  # noqa: BLE001
                pass
    todo, seen = [me], set()
    while todo:
        p = todo.pop()
        for c in kids.get(p, []):
            if c not in seen:
                seen.add(c)
                todo.append(c)
    for c in seen:
        try:
            os.kill(c, signal.SIGKILL)
        except Exception:  # noqa: BLE001
            pass


def _start_watchdog(ck, tier):
    """A check must end.  When the whole run exceeds its wall-clock limit (quick 600 s, thorough 3600 s; the normal
    quick run is under 2 min) the real code or the harness hangs.  On a tree identical to its HEAD that is our
    machinery's trouble (exit 2).  On a working tree that differs from HEAD the hang is attributable to the
    change: reported as a broken correspondence (with the stacks of all threads in the replay file), together
    with every failing input found before the hang."""
    import threading

    limit = float(os.environ.get("VERIF_WALL_LIMIT", "600" if tier == "quick" else "3600"))

    def fire():
        try:
            # a harness may have redirected the streams while it drives the real code
            sys.stdout, sys.stderr = sys.__stdout__, sys.__stderr__
            stacks = {}
            for tid, fr in sys._current_frames().items():
                stacks[str(tid)] = [l.rstrip() for l in traceback.format_stack(fr)][-14:]
            print(f"[{ck.prop}] wall-clock limit of {limit:.0f} s exceeded", file=sys.stderr)
            print(json.dumps(stacks, indent=1)[-6000:], file=sys.stderr)
            if not common.tree_differs_from_head():
                print(f"[{ck.prop}] HARNESS ERROR: timeout on a tree identical to its HEAD", file=sys.stderr)
                code = 2
            else:
                ck.count("L2_run_did_not_end_within_wall_limit")
                ck.mismatch({"harness_timeout_s": limit},
                            {"stacks": stacks, "meaning": "the check did not end within its wall-clock limit on the changed tree "
                                                          "(it ends in minutes on the tree's HEAD): the implementation hangs or is "
                                                          "far slower under the harness's scenarios; correspondence not established"}, force=True)
                code = ck.finish()
            sys.stdout.flush()
            sys.stderr.flush()
        except Exception:  # noqa: BLE001
            traceback.print_exc()
            code = 2
        _kill_descendants()
        os._exit(code)

    t = threading.Timer(limit, fire)
    t.daemon = True
    t.start()


def main():
    ap = argparse.ArgumentParser()
    ap.add_argument("prop")
    ap.add_argument("--tier", default=os.environ.get("VERIF_TIER", "quick"), choices=["quick", "thorough"])
    ap.add_argument("--replay", default=None)
    ap.add_argument("--no-lean", action="store_true", help="development only: skip the L1 gate")
    a = ap.parse_args()
    seed = int(os.environ.get("VERIF_SEED", "0") or 0)
    prop = a.prop.upper()
    try:
        mod = importlib.import_module(f"harness.{prop.lower()}")
    except ModuleNotFoundError as e:
        print(f"no check for {prop}: {e}", file=sys.stderr)
        return 2
    ck = common.Check(prop, a.tier, seed, extra_modules=getattr(mod, "EXTRA_LEAN_MODULES", ()))
    _start_watchdog(ck, a.tier)
    try:
        if hasattr(mod, "pre_lean"):
            mod.pre_lean(ck)  # e.g. the C07 translator regenerates Generated/*.lean from /repo
        if not a.no_lean:
            ck.gate.run(leanchecker=ck.thorough)
        common.use_repo_sources()
        from . import probe as _probe

        pr = _probe.Probe(_probe.anchor_files(common.VERIF, common.REPO, prop)).start()
        if a.replay:
            data = json.load(open(a.replay))
            if data.get("kind") == "no-failing-input-found" or not hasattr(mod, "replay"):
                mod.run(ck)
            else:
                mod.replay(ck, data["case"])
        else:
            try:
                mod.run(ck)
            except Exception as e:  # noqa: BLE001
                # A harness that cannot even drive / interpret the implementation.  On a tree identical to its
                # HEAD this is our machinery's fault (exit 2).  On a working tree that differs from HEAD the
                # crash is attributable to the change: the correspondence between model and implementation can no
                # longer be established, which is a broken L2 (failures already found are kept and reported).
                if not common.tree_differs_from_head():
                    raise
                tb = traceback.format_exc()
                print(tb, file=sys.stderr)
                ck.count("L2_harness_cannot_interpret_implementation")
                ck.mismatch({"harness_exception": type(e).__name__, "message": str(e)[:500]},
                            {"traceback_tail": tb.strip().splitlines()[-12:],
                             "meaning": "the harness could not drive or interpret the changed implementation "
                                        "(the same harness runs cleanly on the tree's HEAD); correspondence not established"}, force=True)
            if (ck.gate.problems or ck.mismatches) and not ck.failures and hasattr(mod, "search"):
                # L1/L2 broken: deeper failing-input search on the real code
                try:
                    mod.search(ck)
                except Exception:  # noqa: BLE001
                    if not common.tree_differs_from_head():
                        raise
                    traceback.print_exc()
                    ck.count("L3_search_crashed_on_changed_tree")
        pr.stop()
        ck.extra_cov["impl_line_coverage_in_process"] = pr.summary(common.REPO)
        ck.extra_cov["impl_line_coverage_note"] = ("lines of the property's anchored files executed in the check's own process while the harness "
                                                  "drove the real code (pool workers / subprocesses are not observed)")
        return ck.finish()
    except common.HarnessError as e:
        print(f"[{prop}] HARNESS ERROR: {e}", file=sys.stderr)
        return 2
    except Exception:
        traceback.print_exc()
        print(f"[{prop}] HARNESS ERROR (unexpected exception above)", file=sys.stderr)
        return 2


if __name__ == "__main__":
    sys.exit(main())
