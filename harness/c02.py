"""C02 — every proposed configuration is a member of the declared search space.

L2 (correspondence, every run):
  * `session`: real CBO / ExperimentalDesignSearch sessions (ask/tell with generated batches and
    told results) are replayed through `Model/Ask.lean` with the observed environment (candidate
    lists drawn by `Space.rvs`, wrapped from outside); the model must make the same number of
    candidate draws and return the same proposals;
  * `fin`: the tail of `Optimizer._tell` (clip -> `Space.inverse_transform` ->
    `Space.deactivate_inactive_dimensions`) on generated transformed rows (inside, on and far
    outside the bounds) against `Model/Membership.lean`'s `fin`;
  * `cs`: `memSpace` (activity, canonical inactive values, forbidden clauses) against
    ConfigSpace's own validation on sampled and mutated configurations;
  * `fill`: `RandomSearch.ask` against `fillInactive` on the observed ConfigSpace samples;
  * `regevo`: real `RegularizedEvolution` ask/tell sessions (random phase, then mutations with the
    observed seeded choices; half of them on tightly forbidden spaces, where most mutation trials
    are re-drawn and the fallback branch — a fresh ConfigSpace sample, completed by the model — is
    taken) against `Model/RegEvo.lean`.
L3 (oracle on the real code): every proposal of every search class (exact Python kind + value)
  goes to Lean's `memSpace`/`checkXInSpace`; every setup/ask/tell must succeed; job parameters
  seen by the run-function of `search()` are checked the same way.
"""
from __future__ import annotations

import concurrent.futures as cf
import copy
import json
import os
import random

import numpy as np

from . import askcommon as ac
from .common import VERIF, HarnessError, rat

PROP = "C02"

# --------------------------------------------------------------------------- cells


def gen_cells(ck):
    rng = ck.rng
    n_cells = int(os.environ.get("VERIF_CELLS", "0") or 0) or ck.pick(150, 2600)
    cells = []
    # a stratified sweep first (every option value appears), then random products
    sweep = []
    for s in ac.SURROGATES:
        sweep.append({"surrogate": s})
    for a in ac.ACQS:
        sweep.append({"acq": a})
        sweep.append({"acq": a, "surrogate": "GP"})
    for st in ac.STRATEGIES:
        sweep.append({"strategy": st})
        sweep.append({"strategy": st, "surrogate": rng.choice(["RF", "GP", "TB"])})
    for de in ac.DESIGNS:
        sweep.append({"design": de})
        sweep.append({"design": de, "surrogate": rng.choice(["GP", "DUMMY", "RF"])})
    for k in range(n_cells):
        r = rng.random()
        if k < len(sweep) or r < 0.72:
            search = "CBO"
        elif r < 0.82:
            search = "EDS"
        elif r < 0.91:
            search = "Random"
        else:
            search = "RegEvo"
        cell = {"search": search, "seed": rng.randint(0, 10**6), "n_initial": rng.randint(2, 5),
                "n_points": rng.choice([12, 16, 24, 40])}
        constrained = False
        if search == "CBO":
            cell.update({"surrogate": rng.choice(ac.SURROGATES), "acq": rng.choice(ac.ACQS),
                         "strategy": rng.choice(ac.STRATEGIES), "design": rng.choice(ac.DESIGNS),
                         "filter_failures": rng.choice(["min", "min", "mean", "ignore"])})
            if k < len(sweep):
                base = {"surrogate": "ET", "acq": "UCB", "strategy": "cl_max", "design": "random"}
                base.update(sweep[k])
                cell.update(base)
            if rng.random() < 0.35:
                # constrained spaces: random design and tree/dummy surrogates only (as the property says)
                if cell["design"] == "random" and cell["surrogate"] in ac.TREE_OR_DUMMY:
                    constrained = True
            if cell["acq"].startswith("MES") or cell["surrogate"] in ("GP", "HGBRT", "GBRT"):
                cell["n_points"] = min(cell["n_points"], 16)
        elif search == "EDS":
            cell["design"] = rng.choice(ac.DESIGNS)
            constrained = cell["design"] == "random" and rng.random() < 0.4
        else:
            constrained = rng.random() < 0.6
        kinds = ac.ALL_KINDS
        spec = ac.gen_spec(rng, kinds=kinds, constrained=constrained)
        if search == "CBO" and cell["surrogate"] == "GP" and len(spec["hps"]) > 4:
            spec["hps"] = spec["hps"][:4]
            spec["conds"], spec["forbs"] = [], []
        n_rounds = rng.randint(4, 8) if search != "RegEvo" else rng.randint(6, 12)
        if search == "CBO" and (cell["surrogate"] in ("GP", "HGBRT") or cell["acq"].startswith("MES")):
            n_rounds = min(n_rounds, 5)
        script = ac.gen_script(rng, n_rounds, 4, again_p=rng.choice([0.0, 0.0, 0.25]), moo=rng.random() < 0.12,
                               magnitude=rng.choice(ac.OBJ_MAGNITUDES))
        mode = "search" if (search != "RegEvo" and rng.random() < 0.12) else "asktell"
        cells.append((cell, spec, script, mode))
    # conditional log-uniform children whose lower bound (= the canonical inactive value) does not
    # survive transform -> inverse_transform, tree surrogates, sessions long past the random phase:
    # inactive branches are then proposed from the model and must still carry the exact lower bound
    # The parents of the conditions take every kind of value, in particular values that are falsy
    # in Python (False, 0) without being the canonical first value of their dimension, with
    # children that are active exactly for those values: an active value must never be mistaken
    # for a missing one.
    for k in range(ck.pick(26, 220)):
        parent, pcond = rng.choice([
            ({"name": "c_kind", "kind": "cat", "choices": ["dense", "conv", "none"]}, None),
            ({"name": "c_kind", "kind": "cat", "choices": [True, False]}, None),
            ({"name": "c_kind", "kind": "cat", "choices": [True, False]}, {"op": "eq", "value": False}),
            ({"name": "c_kind", "kind": "cat", "choices": [True, False]}, {"op": "ne", "value": True}),
            ({"name": "c_kind", "kind": "ord", "choices": [1, 2, 4]}, None),
            ({"name": "c_kind", "kind": "ord", "choices": [-1, 0, 1]}, {"op": "eq", "value": 0}),
            ({"name": "c_kind", "kind": "int", "lo": 0, "hi": 3, "log": False}, None),
            ({"name": "c_kind", "kind": "int", "lo": -2, "hi": 2, "log": False}, {"op": "eq", "value": 0}),
            ({"name": "c_kind", "kind": "int", "lo": -2, "hi": 2, "log": False}, {"op": "gt", "value": -1}),
            ({"name": "c_kind", "kind": "int", "lo": -3, "hi": 1, "log": False}, {"op": "lt", "value": 1}),
        ])
        pv = ac._values_of(parent)
        lo, hi = rng.choice([(3e-5, 7e3), (3e-4, 1.0), (2e-3, 5.0), (7e-3, 70.0)])
        child = {"name": rng.choice(["a_rate", "z_rate"]), "kind": "float", "lo": lo, "hi": hi, "log": True}
        hps = [parent, ac.with_default(rng, child, force=rng.random() < 0.5)]
        if pcond is not None:
            cond0 = dict(pcond, parent="c_kind")
        elif parent["kind"] != "int":
            cond0 = {"op": "eq", "parent": "c_kind", "value": pv[0]}
        else:
            cond0 = {"op": "gt", "parent": "c_kind", "value": 1}
        conds = [{"child": child["name"], "cond": cond0}]
        if rng.random() < 0.5:
            c2 = {"name": rng.choice(["b_units", "y_units"]), "kind": "int", "lo": rng.choice([2, 8]), "hi": 64, "log": True}
            hps.append(c2)
            conds.append({"child": c2["name"], "cond": {"op": "ne", "parent": "c_kind", "value": pv[-1]}})
        if rng.random() < 0.5:
            hps.append(ac.gen_hp(rng, "m_free", ["float", "int", "cat_str"]))
        spec = {"hps": hps, "conds": conds, "forbs": [],
                "reads": [rng.sample(["len", "names", "default", "str", "space"], 1) if rng.random() < 0.5 else []
                          for _ in range(len(hps) + 3)]}
        cell = {"search": "CBO", "seed": rng.randint(0, 10**6), "n_initial": 2, "n_points": 24,
                "surrogate": rng.choice(["RF", "ET", "TB", "RS", "GBRT"]), "acq": rng.choice(["UCB", "EI", "UCBd"]),
                "strategy": rng.choice(["cl_max", "cl_min", "qUCB", "cl_mean"]), "design": "random",
                "filter_failures": rng.choice(["min", "mean"])}
        script = ac.gen_script(rng, rng.randint(9, 12), 2, fail_p=0.05)
        for st in script:
            st["tell"] = [True]
        cells.append((cell, spec, script, "asktell"))
    # histories that go well past the random phase (n_initial_points = 2, 6-9 rounds, several
    # surrogate fits) with told objectives of every magnitude, on spaces that hold a numeric
    # sequence (all-int, all-float or mixing ints and floats): every proposal then comes from the
    # model — inverse transform of the acquisition optimum, portfolio of acquisition functions —
    # and every tell refits on the history as the optimizer scales it
    slow = ("GP", "HGBRT")
    for k in range(ck.pick(40, 420)):
        surrogate = ac.SURROGATES[k % len(ac.SURROGATES)] if k < 16 else rng.choice(ac.SURROGATES)
        # every acquisition function meets every surrogate family over the sweep; the portfolio
        # ones (gp_hedge) get their share
        acq = ac.ACQS[(k // 2) % len(ac.ACQS)] if k < 20 else rng.choice(ac.ACQS + ["gp_hedge", "gp_hedged"])
        spec = ac.gen_spec(rng, n_hps=rng.randint(1, 3), kinds=["float", "int", "cat_str", "ord_int", "ord_float", "ord_mixed", "float_log"])
        spec["hps"].append(ac.gen_hp(rng, f"h{len(spec['hps'])}", ["ord_mixed", "ord_mixed", "ord_int", "ord_float"]))
        spec["reads"] = []
        cell = {"search": "CBO", "seed": rng.randint(0, 10**6), "n_initial": 2,
                "n_points": 12 if surrogate in slow or acq.startswith("MES") else 24,
                "surrogate": surrogate, "acq": acq,
                "strategy": rng.choice(["cl_max", "cl_min", "cl_mean", "qUCB", "qUCBd", "topk", "boltzmann"]),
                "design": "random", "filter_failures": rng.choice(["min", "mean", "ignore"])}
        n_rounds = rng.randint(5, 6) if surrogate in slow or acq.startswith("MES") else rng.randint(6, 9)
        script = ac.gen_script(rng, n_rounds, 2, fail_p=0.08, magnitude=rng.choice(ac.OBJ_MAGNITUDES[2:]))
        for st in script:
            st["tell"] = [True]
        cells.append((cell, spec, script, "asktell"))
    # tightly forbidden spaces (`askcommon.gen_tight_spec`: relations between two hyperparameters
    # and conjunctions over whole value lists exclude 90 % - 99.9 % of the box; every
    # unconditional hyperparameter is pinned to another one; conditional children that are mostly
    # inactive): from most members no single-hyperparameter change leads to another member, so
    # RegularizedEvolution — run well into its evolution phase (small population, 9-14 rounds) —
    # exhausts its mutation trials and goes through its fallback branch; RandomSearch and CBO (tree
    # / dummy surrogates, random design: the property's quantifier for constrained spaces) propose
    # from ConfigSpace's rejection sampling and from the surrogate over such candidates
    for k in range(ck.pick(44, 420)):
        r = rng.random()
        search = "RegEvo" if k < 6 or r < 0.62 else ("CBO" if r < 0.88 else "Random")
        spec = ac.gen_tight_spec(rng, max_size=1000 if search == "RegEvo" else 250)
        cell = {"search": search, "seed": rng.randint(0, 10**6), "n_initial": rng.randint(2, 4),
                "n_points": rng.choice([12, 16, 24])}
        if search == "RegEvo":
            cell["population_size"] = rng.randint(2, 4)
            cell["sample_size"] = rng.randint(1, cell["population_size"] - 1)  # the constructor demands sample < population
            script = ac.gen_script(rng, rng.randint(9, 14), 3, fail_p=0.1, magnitude=rng.choice(ac.OBJ_MAGNITUDES))
            for st in script:
                if rng.random() < 0.8:
                    st["tell"] = [True]
        elif search == "CBO":
            cell.update({"surrogate": rng.choice(["RF", "ET", "TB", "RS", "GBRT", "DUMMY"]),
                         "acq": rng.choice(["UCB", "EI", "PI", "UCBd", "gp_hedge"]),
                         "strategy": rng.choice(ac.STRATEGIES), "design": "random",
                         "filter_failures": rng.choice(["min", "mean", "ignore"])})
            script = ac.gen_script(rng, rng.randint(4, 7), 3, fail_p=0.1)
        else:
            script = ac.gen_script(rng, rng.randint(3, 6), 4, fail_p=0.1)
        mode = "search" if rng.random() < 0.1 else "asktell"
        cells.append((cell, spec, script, mode))
    return cells


# --------------------------------------------------------------------------- workers


_worker = ac.run_cell


def _run_cells(ck, cells, n_corpus=0):
    # a slice of the option sweep and one cell of every other search class run in-process so that
    # the line-coverage probe sees the optimizer, the samplers and the search classes at work
    # (sweep layout of gen_cells: 8 surrogates, then pairs for 10 acquisitions, 7 strategies, 6 designs)
    local = [n_corpus + k for k in list(range(0, 8)) + list(range(8, 54, 2))]
    seen = set()
    for i, c in enumerate(cells):
        cls = c[0]["search"]
        if i >= n_corpus and cls != "CBO" and (cls, c[3]) not in seen:
            seen.add((cls, c[3]))
            local.append(i)
    return ac.run_cells(ck, cells, inprocess=local)


# --------------------------------------------------------------------------- oracle


def _prov_key(kind, detail):
    return f"{kind}|{detail}"


def _judge(ck, d, cell, spec, script, mode, rec):
    """L3 on one record.  Returns list of (provisional key, what, detail) failures."""
    fails = []
    if rec["not_accepted"]:
        return fails
    if rec["error"]:
        e = rec["error"]
        fails.append((_prov_key("raises:" + e["type"], f"{e['stage']}|{e['site']}"),
                      f"{cell['search']} {e['at']} raised {e['type']}: {e['msg'][:120]}", e))
    xs, where = [], []
    for k, r in enumerate(rec["rounds"]):
        for j, x in enumerate(r["X"]):
            xs.append(ac.enc_cfg(x))
            where.append((k, j, r["n"]))
        if not r.get("X_dicts_ok", True):
            fails.append((_prov_key("keys", "ask"), "a proposal's keys differ from the hyperparameter names", {"round": k}))
    if xs:
        rep = d.ask({"op": "mem", "decl": rec["decl"], "xs": xs})
        if not rep["wf"]:
            raise HarnessError(f"generated declaration is not well-formed: {json.dumps(rec['decl'])[:300]}")
        for (k, j, n), res, x in zip(where, rep["res"], xs):
            ck.count("proposal:" + ("member" if res["mem"] else "NOT-member"))
            if not res["mem"]:
                clause = res["why"].split(":")[0]
                site = f"{cell['search']}.{'search' if mode == 'search' else 'ask'}(n{'>1' if n > 1 else '=1'})"
                fails.append((_prov_key(clause, site),
                              f"{site} proposed a configuration outside the declared space ({res['why']})",
                              {"round": k, "index": j, "x": x, "why": res["why"]}))
            elif not res["accept"]:
                raise HarnessError("memSpace true but checkXInSpace false (contradicts C02_accepted_back)")
    return fails


def _same_failure(key):
    """predicate for the shrinker: does (cell, spec, script) still fail with provisional key `key`?"""
    def pred(cell, spec, script, mode="asktell"):
        rec = _worker((cell, spec, script, mode))
        if rec["not_accepted"]:
            return False
        keys = set()
        if rec["error"]:
            e = rec["error"]
            keys.add(_prov_key("raises:" + e["type"], f"{e['stage']}|{e['site']}"))
        with _mini_driver() as d:
            xs, ns = [], []
            for r in rec["rounds"]:
                for x in r["X"]:
                    xs.append(ac.enc_cfg(x))
                    ns.append(r["n"])
            if xs:
                rep = d.ask({"op": "mem", "decl": rec["decl"], "xs": xs})
                for n, res in zip(ns, rep["res"]):
                    if not res["mem"]:
                        site = f"{cell['search']}.{'search' if mode == 'search' else 'ask'}(n{'>1' if n > 1 else '=1'})"
                        keys.add(_prov_key(res["why"].split(":")[0], site))
        return key in keys
    return pred


def _mini_driver():
    from .common import LeanDriver

    return LeanDriver(PROP)


def _shrink_job(args):
    key, c = args
    from . import common

    common.use_repo_sources()
    pred = _same_failure(key)
    mode = c["mode"]
    c2, s2, sc2 = ac.shrink_case(c["cell"], c["spec"], c["script"], lambda ce, sp, sc: pred(ce, sp, sc, mode), budget=12)
    return ac.requirements(c2, s2), {"cell": c2, "spec": s2, "script": sc2, "mode": mode}


def _fingerprint(key, req):
    clause, site = key.split("|", 1)
    return f"{PROP}|{clause}|{site}|{ac.req_tags(req)}"


# --------------------------------------------------------------------------- L2: fin


def _fin_cases(ck, d):
    from deephyper.hpo._problem import convert_to_skopt_space
    from deephyper.skopt.utils import normalize_dimensions

    rng = ck.rng
    n_specs = ck.pick(24, 160)
    n_rows = ck.pick(10, 24)
    for s in range(n_specs):
        surrogate = rng.choice(["ET", "TB", "GP", "RF", "DUMMY"])
        constrained = surrogate != "GP" and rng.random() < 0.45
        spec = ac.gen_spec(rng, constrained=constrained)
        if constrained and rng.random() < 0.3:
            # relations between two hyperparameters: most rows off the sampled ones are forbidden
            spec = ac.gen_tight_spec(rng, max_size=250)
        problem = ac.build_problem(spec)
        sp = convert_to_skopt_space(problem.space, surrogate_model=surrogate)
        if surrogate == "GP":
            sp.dimensions = normalize_dimensions(sp.dimensions)
        decl = ac.decl_of(spec, problem, surrogate)
        dims = sp.dimensions
        sizes = [dm.transformed_size for dm in dims]
        tb = np.asarray(sp.transformed_bounds, dtype=float)
        base_rows = np.asarray(sp.transform(sp.rvs(n_rows, random_state=rng.randint(0, 10**6))), dtype=float)
        rows, metas = [], []
        for i in range(n_rows):
            t = base_rows[i].copy()
            mode = rng.choice(["member", "jitter", "far", "bounds", "ties"])
            if mode == "jitter":
                t = t + np.array([rng.uniform(-0.3, 0.3) for _ in t])
            elif mode == "far":
                t = t + np.array([rng.choice([-1e6, -7.5, 3.25, 1e3, 1e9]) for _ in t])
            elif mode == "bounds":
                t = np.array([rng.choice([tb[j, 0], tb[j, 1]]) for j in range(len(t))], dtype=float)
            elif mode == "ties":
                t = np.floor(t) + np.array([rng.choice([0.5, 1.5, -0.5, 0.25]) for _ in t])
            # numeric-ordinal ("identity") columns only ever hold the transform of a candidate
            # (no surrogate with gradients keeps that transformer): leave them on a choice
            col = 0
            for j, dm in enumerate(dims):
                if type(dm).__name__ == "Categorical" and dm.transform_ == "identity":
                    t[col] = base_rows[i][col]
                col += sizes[j]
            # the real three steps of Optimizer._tell
            t2 = t if sp.is_categorical else np.clip(t, tb[:, 0], tb[:, 1])
            x_pre = None
            try:
                x_pre = sp.inverse_transform(t2.reshape(1, -1))[0]
                x = sp.deactivate_inactive_dimensions(x_pre)
                real = {"raises": False, "y": [ac.plain(v) for v in x]}
            except Exception as e:
                real = {"raises": True, "exc": type(e).__name__}
            # observed numerics for the model
            lg, pw, rnd = [], [], []
            col = 0
            for j, dm in enumerate(dims):
                name = type(dm).__name__
                if name in ("Real", "Integer") and dm.prior == "log-uniform":
                    llo = float(np.log10(dm.low) / dm.log_base)
                    lhi = float(np.log10(dm.high) / dm.log_base)
                    lg += [[rat(dm.low), rat(llo)], [rat(dm.high), rat(lhi)]]
                    v = float(t2[col])
                    u = v * (lhi - llo) + llo if dm.transform_ == "normalize" else v
                    with np.errstate(all="ignore"):
                        out = float(dm.base ** np.float64(u))
                    if np.isfinite(out):
                        pw.append([rat(u), rat(out)])
                if name == "Real" and sp.config_space is not None and x_pre is not None:
                    v = float(x_pre[j])
                    rnd.append([rat(v), rat(float(np.round(v, 13)))])
                col += sizes[j]
            slices, col = [], 0
            for j in range(len(dims)):
                slices.append([rat(float(v)) for v in t[col:col + sizes[j]]])
                col += sizes[j]
            rows.append({"t": slices, "lg": lg, "pw": pw, "rnd": rnd})
            metas.append((mode, real, [float(v) for v in t]))
        rep = d.ask({"op": "fin", "decl": decl, "rows": rows})
        for (mode, real, t), res in zip(metas, rep["res"]):
            case = {"kind": "fin", "spec": spec, "surrogate": surrogate, "t": t, "mode": mode}
            ck.case(case, nontrivial=mode != "member")
            ck.count("fin:" + mode)
            ck.count("fin:" + ("raises" if real["raises"] else "ok"))
            if real["raises"] != res["raises"]:
                # Normalize.inverse_transform tolerates 1e-8 around [0,1]: only reachable without the clip
                ck.mismatch(case, {"impl": real, "model": res})
                continue
            if real["raises"]:
                continue
            y_model = res["y"]
            y_real = ac.enc_cfg(real["y"])
            if not _cfg_close(y_model, y_real):
                ck.mismatch(case, {"impl": real["y"], "model": y_model, "what": "inverse step differs"})
            if not res["mem"]:
                raise HarnessError("model's fin returned a non-member (contradicts C02_inverse_member)")


def _cfg_close(a, b, tol=1e-9):
    if len(a) != len(b):
        return False
    for (ka, va), (kb, vb) in zip(a, b):
        if ka != kb:
            return False
        if ka == "f":
            from .common import unrat

            fa, fb = float(unrat(va)), float(unrat(vb))
            if abs(fa - fb) > tol * max(abs(fa), abs(fb), 1e-300):
                return False
        elif va != vb:
            return False
    return True


# --------------------------------------------------------------------------- L2: ConfigSpace semantics


def _cs_cases(ck, d):
    import ConfigSpace as CS

    rng = ck.rng
    n_specs = ck.pick(30, 250)
    for s in range(n_specs):
        spec = ac.gen_spec(rng, constrained=True)
        tight = s % 3 == 2
        if tight:
            # forbidden relations between two hyperparameters and conjunctions over value lists
            spec = ac.gen_tight_spec(rng, max_size=250)
        if not ac.spec_is_constrained(spec):
            continue
        problem = ac.build_problem(spec)
        cs = problem.space
        names = list(problem.space.keys())
        by = {h["name"]: h for h in spec["hps"]}
        decl = ac.decl_of(spec, problem, None)

        def canon(h):
            return h["lo"] if h["kind"] in ("int", "float") else h["choices"][0]

        cfgs, kinds = [], []
        confs = cs.sample_configuration(ck.pick(6, 10))
        for conf in confs:
            dct = dict(conf)
            x = [ac.plain(dct[n]) if n in dct else canon(by[n]) for n in names]
            if by and any(by[n]["kind"] == "float" for n in names):
                x = [float(v) if by[n]["kind"] == "float" else v for n, v in zip(names, x)]
            cfgs.append(x)
            kinds.append("sample")
            # mutate one coordinate to another legal value
            y = list(x)
            j = rng.randrange(len(names))
            vals = ac._values_of(by[names[j]])
            y[j] = rng.choice(vals)
            if by[names[j]]["kind"] == "int" and rng.random() < 0.5:
                # a neighbour: just on either side of a relation between two hyperparameters
                y[j] = min(by[names[j]]["hi"], max(by[names[j]]["lo"], x[j] + rng.choice([-1, 1])))
            if by[names[j]]["kind"] == "float":
                # ConfigSpace's view of a configuration is the one with floats rounded to 13 digits
                y[j] = float(np.round(float(y[j]), 13))
            cfgs.append(y)
            kinds.append("mutant")
        rep = d.ask({"op": "mem", "decl": decl, "xs": [ac.enc_cfg(x) for x in cfgs]})
        for x, kind, res in zip(cfgs, kinds, rep["res"]):
            act = res["act"]
            ok_py = True
            why = ""
            for n, v, a in zip(names, x, act):
                if not a and (type(v) is not type(canon(by[n])) or v != canon(by[n])):
                    ok_py, why = False, f"inactive {n} not canonical"
            if ok_py:
                try:
                    CS.Configuration(cs, values={n: v for n, v, a in zip(names, x, act) if a})
                except Exception as e:
                    ok_py, why = False, f"ConfigSpace: {type(e).__name__}"
            case = {"kind": "cs", "spec": spec, "x": x, "from": kind}
            ck.case(case, nontrivial=True)
            ck.count("cs:" + kind + (":member" if res["mem"] else ":not-member"))
            if tight:
                ck.count("cs:tightly-forbidden:" + kind + (":member" if res["mem"] else ":not-member"))
            if kind == "sample" and not ok_py:
                raise HarnessError(f"ConfigSpace rejects its own sample: {why} {case}")
            if res["mem"] != ok_py:
                ck.mismatch(case, {"memSpace": res["mem"], "why": res["why"], "act": act, "configspace": ok_py, "py_why": why})


def _fill_cases(ck, d):
    """RandomSearch.ask against `fillInactive`: the raw ConfigSpace samples are observed by
    wrapping `ConfigurationSpace.sample_configuration` from outside."""
    import tempfile

    import ConfigSpace as CS

    from deephyper.evaluator import Evaluator
    from deephyper.hpo import RandomSearch

    rng = ck.rng
    for s in range(ck.pick(16, 120)):
        spec = ac.gen_spec(rng, constrained=rng.random() < 0.8)
        if rng.random() < 0.25:
            spec = ac.gen_tight_spec(rng, max_size=250)
        problem = ac.build_problem(spec)
        names = list(problem.space.keys())
        decl = ac.decl_of(spec, problem, None)
        seen = []
        orig = CS.ConfigurationSpace.sample_configuration

        def spy(self_, size=None):
            out = orig(self_, size)
            seen.extend(out if isinstance(out, list) else [out])
            return out

        tmp = tempfile.mkdtemp(prefix="g5_")
        try:
            CS.ConfigurationSpace.sample_configuration = spy
            search = RandomSearch(problem, Evaluator.create(ac._run_dummy, method="serial"),
                                  random_state=rng.randint(0, 10**6), log_dir=tmp)
            X = search.ask(rng.randint(2, 6))
        except Exception as e:
            ck.fail(f"{PROP}|raises:{type(e).__name__}|ask|{ac.exc_site(e)}|search=Random", f"RandomSearch.ask raised {type(e).__name__}",
                    {"cell": {"search": "Random", "seed": 0, "n_initial": 1, "n_points": 1}, "spec": spec,
                     "script": [{"n": 3, "objs": [0.0], "tell": [True]}], "mode": "asktell"}, repr(e))
            continue
        finally:
            CS.ConfigurationSpace.sample_configuration = orig
            import shutil

            shutil.rmtree(tmp, ignore_errors=True)
        if len(seen) != len(X):
            raise HarnessError(f"observed {len(seen)} ConfigSpace samples for {len(X)} proposals")
        samples = [[ac.enc(ac.plain(dict(c)[n])) if n in dict(c) else None for n in names] for c in seen]
        rep = d.ask({"op": "fill", "decl": decl, "samples": samples})
        for c, x, m in zip(seen, X, rep["res"]):
            case = {"kind": "fill", "spec": spec, "sample": {k: ac.plain(v) for k, v in dict(c).items()}}
            ck.case(case, nontrivial=len(dict(c)) < len(names))
            ck.count("fill:" + ("has-inactive" if len(dict(c)) < len(names) else "all-active"))
            real = ac.enc_cfg([x[n] for n in names])
            if m != real:
                ck.mismatch(case, {"impl": real, "model": m})


def _regevo_cases(ck, d):
    """Real RegularizedEvolution sessions replayed through `Model/RegEvo.lean`.  The seeded choices
    are observed from outside: the `random_state` handed to the constructor is a recording
    subclass of `np.random.RandomState`; `Hyperparameter.rvs` and
    `ConfigurationSpace.sample_configuration` are wrapped (class attributes) for the session."""
    import shutil
    import tempfile

    import ConfigSpace as CS
    from ConfigSpace.hyperparameters.hyperparameter import Hyperparameter

    from deephyper.evaluator import Evaluator
    from deephyper.hpo import RegularizedEvolution

    rng = ck.rng

    class SpyRS(np.random.RandomState):
        def __init__(self, seed):
            super().__init__(seed)
            self.log = []

        def choice(self, a, size=None, replace=True, p=None):
            out = super().choice(a, size=size, replace=replace, p=p)
            self.log.append(("choice", out))
            return out

    n_loose = ck.pick(14, 120)
    for sidx in range(n_loose + ck.pick(16, 140)):
        # the second half runs on tightly forbidden spaces: most mutation trials are re-drawn and
        # the fallback branch (a fresh ConfigSpace sample, completed) is taken
        tight = sidx >= n_loose
        spec = ac.gen_tight_spec(rng) if tight else ac.gen_spec(rng, constrained=rng.random() < 0.75)
        problem = ac.build_problem(spec)
        names = list(problem.space.keys())
        decl = ac.decl_of(spec, problem, None)
        pop_size = rng.randint(2, 4) if tight else rng.randint(2, 5)
        sample_size = rng.randint(1, pop_size - 1)
        rs = SpyRS(rng.randint(0, 10**6))
        events = rs.log
        orig_rvs, orig_sample = Hyperparameter.rvs, CS.ConfigurationSpace.sample_configuration

        def spy_rvs(self_, size=None, *, random_state=None):
            out = orig_rvs(self_, size, random_state=random_state)
            events.append(("rvs", self_.name, out))
            return out

        def spy_sample(self_, size=None):
            out = orig_sample(self_, size)
            events.append(("sample", out if isinstance(out, list) else [out]))
            return out

        tmp = tempfile.mkdtemp(prefix="g5_")
        ops, rnd = [], []
        case = {"kind": "regevo", "spec": spec, "population_size": pop_size, "sample_size": sample_size}
        error = None
        try:
            Hyperparameter.rvs = spy_rvs
            CS.ConfigurationSpace.sample_configuration = spy_sample
            search = RegularizedEvolution(problem, Evaluator.create(ac._run_dummy, method="serial"), random_state=rs,
                                          log_dir=tmp, population_size=pop_size, sample_size=sample_size)
            def raw(conf):
                # the ConfigSpace sample as it is: a value for the active hyperparameters, nothing
                # for the others (the model completes it)
                dct = dict(conf)
                return [ac.enc(ac.plain(dct[nm])) if nm in dct else None for nm in names]

            def proposal(x):
                return ac.enc_cfg([x.get(nm, f"<missing {nm}>") for nm in names])

            for step in range(rng.randint(8, 14) if tight else rng.randint(5, 10)):
                n = rng.randint(1, 3)
                del events[:]
                X = search.ask(n)
                evs = list(events)
                op = {"op": "ask", "n": n, "X": [proposal(x) for x in X], "fresh": [], "children": []}
                if evs and evs[0][0] == "sample" and not any(e[0] == "choice" for e in evs):
                    op["fresh"] = [raw(c) for e in evs if e[0] == "sample" for c in e[1]]
                else:
                    cur = None
                    for e in evs:
                        if e[0] == "choice" and isinstance(e[1], np.ndarray):
                            cur = {"idxs": [int(i) for i in e[1]], "attempts": [], "fresh": None}
                            op["children"].append(cur)
                        elif e[0] == "choice":
                            cur["attempts"].append([str(e[1]), None])
                        elif e[0] == "rvs":
                            v = ac.plain(e[2])
                            cur["attempts"][-1][1] = ac.enc(v)
                            if isinstance(v, float):
                                rnd.append([rat(v), rat(float(np.round(v, 13)))])
                        elif e[0] == "sample":
                            cur["fresh"] = raw(e[1][0])
                ops.append(op)
                results = []
                for x in X:
                    obj = rng.choice([round(rng.uniform(-2, 2), 2), float(rng.randint(0, 3)), "F_crash"])
                    results.append((x, obj))
                search.tell([ac.Job(x, o) for x, o in results])
                ops.append({"op": "tell", "results": [[proposal(x), None if isinstance(o, str) else rat(o)]
                                                       for x, o in results]})
        except Exception as e:
            error = e
        finally:
            Hyperparameter.rvs = orig_rvs
            CS.ConfigurationSpace.sample_configuration = orig_sample
            shutil.rmtree(tmp, ignore_errors=True)
        ck.case(case, nontrivial=any(o.get("children") for o in ops))
        if error is not None:
            ck.fail(f"{PROP}|raises:{type(error).__name__}|ask|{ac.exc_site(error)}|search=RegEvo",
                    f"RegularizedEvolution raised {type(error).__name__}: {str(error)[:120]}",
                    {"cell": {"search": "RegEvo", "seed": 0, "n_initial": 1, "n_points": 1, "population_size": pop_size,
                              "sample_size": sample_size}, "spec": spec,
                     "script": [{"n": 2, "objs": [1.0, 0.5], "tell": [True]} for _ in range(12)], "mode": "asktell"}, repr(error))
            continue
        rep = d.ask({"op": "regevo", "decl": decl, "popSize": pop_size, "sampleSize": sample_size, "rnd": rnd, "ops": ops})
        for ph in rep["phases"]:
            ck.count("regevo:" + ph)
        n_att = sum(len(c["attempts"]) for o in ops for c in o.get("children", []))
        n_child = sum(len(o.get("children", [])) for o in ops)
        ck.count("regevo:children", n_child)
        ck.count("regevo:redrawn-mutations", n_att - n_child)
        ck.count("regevo:fallback-children(all-trials-forbidden)", rep.get("fallbacks", 0))
        ck.count("regevo:sessions-" + ("tight" if tight else "general"))
        if rep["mismatch"] is not None:
            ck.mismatch(case, {"model_vs_impl": rep["mismatch"], "replayed": rep["replayed"]})


# --------------------------------------------------------------------------- run


def _load_corpus():
    d = VERIF / "corpus" / PROP
    out = []
    if d.is_dir():
        for f in sorted(d.glob("*.json")):
            data = json.loads(f.read_text())
            c = data.get("case", data)
            if "cell" in c:
                out.append((c["cell"], c["spec"], c["script"], c.get("mode", "asktell")))
    return out


def _process(ck, d, cells, recs, reqs_meta):
    """L3 + L2(session) over finished records; returns provisional failures"""
    prov = {}
    sess_reqs, sess_meta = [], []
    for (cell, spec, script, mode), rec in zip(cells, recs):
        case = ac.cell_public(cell, spec, script)
        case["mode"] = mode
        constrained = ac.spec_is_constrained(spec)
        nprops = sum(len(r["X"]) for r in rec["rounds"])
        ck.case(case, nontrivial=nprops > 0 and not rec["not_accepted"])
        ck.count("search:" + cell["search"])
        ck.count("mode:" + mode)
        if cell["search"] == "CBO":
            for key in ("surrogate", "acq", "strategy", "design"):
                ck.count(f"{key}:{cell[key]}")
            ck.count("filter_failures:" + cell.get("filter_failures", "min"))
        elif cell["search"] == "EDS":
            ck.count("design:" + cell["design"])
        ck.count("space:" + ("constrained" if constrained else "flat"))
        if ac.spec_is_tight(spec):
            ck.count(f"space:tightly-forbidden:{cell['search']}")
        if rec.get("numpy_values"):
            ck.count(f"proposal:value-handed-out-as-numpy-scalar(observed,not-judged):{cell['search']}", rec["numpy_values"])
        for h in spec["hps"]:
            ck.count("hp:" + h["kind"] + ("-log" if h.get("log") else ""))
        if rec["not_accepted"]:
            ck.count(f"not-accepted:{rec['not_accepted']['type']}@{rec['not_accepted']['site']}")
            continue
        for k, f in enumerate(_judge(ck, d, cell, spec, script, mode, rec)):
            key, what, detail = f
            prov.setdefault(key, []).append({"what": what, "detail": detail, "cell": cell, "spec": spec,
                                             "script": script, "mode": mode})
        if mode == "asktell" and cell["search"] in ("CBO", "EDS") and rec["rounds"]:
            biggest = max([len(dr) for r in rec["rounds"] for dr in r["askDraws"] + r["tellDraws"]] or [0])
            if biggest > 256:
                # ExperimentalDesignSearch cannot set the number of candidates (10 000 per draw):
                # too large for the interpreted model; membership (L3) is still checked
                ck.count("session:skipped-large-draws")
            else:
                sess_reqs.append(ac.session_request(cell, rec["decl"], rec))
                sess_meta.append((case, rec))
    reps = d.ask_all(sess_reqs)
    for (case, rec), rep, req in zip(sess_meta, reps, sess_reqs):
        for p in rep["paths"]:
            ck.count("path:" + p)
        if rep["mismatch"] is not None and ac.repeats_initial_point(rep["replayed"], req):
            # a batch that hands out a point of the pre-computed design twice (the random points
            # completing the batch were not filtered against it): not proposing a configuration
            # twice is property C08's subject (finding recorded there); the model describes the
            # repaired code and departs from the implementation exactly at such a batch
            ck.count("session:departs-from-model-at-a-repeated-initial-point(C08)")
            continue
        ck.count("session:" + ("replayed" if rep["mismatch"] is None else "MISMATCH"))
        if rep["mismatch"] is not None:
            ck.mismatch(case, {"model_vs_impl": rep["mismatch"], "rounds_replayed": rep["replayed"],
                               "impl_error": rec["error"]})
    return prov


def run(ck):
    ck.rule = ("generated matrix: problem generator (1-6 hyperparameters from int/float x uniform/log, categorical "
               "str/bool, ordinal int/float, constant; optional conditions and a forbidden clause) x search class "
               "{CBO, ExperimentalDesignSearch, RandomSearch, RegularizedEvolution} x surrogate x acquisition x "
               "multi-point strategy x initial design x seed x 4-8 ask/tell rounds (batch 1-4, told objectives "
               "incl. failures, results told out of step) + search() runs; tightly forbidden spaces (pairs of hyperparameters "
               "forced to agree by relations / value-list conjunctions, 90-99.9 % of the box forbidden, conditional children) x "
               "{RegularizedEvolution well into its evolution phase, CBO, RandomSearch}; fin rows (members, jitter, far outside, "
               "exact bounds, rounding ties); ConfigSpace samples and mutants.  distinct by canonical case; "
               "non-trivial = at least one proposal / a row that is not the transform of a member")
    ck.assumptions = [
        "candidates returned by Space.rvs / ConfigSpace sampling are members of the declared space (contract; C10 and the L3 oracle look at the real thing)",
        "log/pow and ConfigSpace's 13-digit float rounding are arbitrary functions in the theorems; the correspondence run feeds their observed values",
        "a free (lbfgs/ga) optimiser output is only used on spaces without numeric-ordinal identity dimensions (GP normalises every dimension)",
        "pandas merge/duplicated, scikit-learn surrogates, acquisition values, RNG draws are environment (observed, universally quantified in the theorems)",
        "ConfigSpace's activity test is modelled on the rounded values; differences can only arise for float-valued parents within 1e-13 of a condition's threshold",
    ]
    ck.trusted_extra = [
        "the Space.rvs observation shim (class attribute wrapped for the duration of a session)",
        "CBO._setup_optimizer() is called directly by the harness (what CBO.search() does first)",
        "Drivers/AskSession.lean glue: decoding and the guess of argmin indices from observed proposals (a wrong guess shows up as a mismatch, never as agreement)",
    ]
    cells = _load_corpus()
    n_corpus = len(cells)
    cells += gen_cells(ck)
    import time

    t_cells = time.time()
    recs = _run_cells(ck, cells, n_corpus)
    if os.environ.get("VERIF_TIMING"):
        print("timing cells", round(time.time() - t_cells, 1))
        for secs, c in sorted(((r.get("secs", 0), c[0]) for r, c in zip(recs, cells)), key=lambda p: -p[0])[:12]:
            print("timing", secs, c)
    with ck.driver() as d:
        t_proc = time.time()
        prov = _process(ck, d, cells, recs, None)
        if os.environ.get("VERIF_TIMING"):
            print("timing process (mem oracle + session replay)", round(time.time() - t_proc, 1))
        for name, part in (("fin", _fin_cases), ("cs", _cs_cases), ("fill", _fill_cases), ("regevo", _regevo_cases)):
            try:
                import time

                t_part = time.time()
                part(ck, d)
                if os.environ.get("VERIF_TIMING"):
                    print("timing part", name, round(time.time() - t_part, 1))
            except HarnessError:
                raise
            except Exception as e:  # noqa: BLE001
                # the real code raised while this correspondence was driving it (e.g. the space
                # cannot transform its own sample).  On the tree's HEAD that is the harness's
                # fault; on a changed tree the correspondence is broken — and the failures the
                # oracle found above must still be reported with their replays
                from . import common

                if not common.tree_differs_from_head():
                    raise
                import traceback

                ck.count(f"L2_{name}_cannot_drive_implementation")
                ck.mismatch({"kind": name, "harness_exception": type(e).__name__, "message": str(e)[:300]},
                            {"traceback_tail": traceback.format_exc().strip().splitlines()[-10:],
                             "meaning": f"the `{name}` correspondence could not drive the changed implementation"})
    ck.count("corpus_cases", n_corpus)
    # fingerprints: minimal option values / input class, from shrunk cases
    for key, req, shrunk, explained in ac.fingerprint_groups(prov, _shrink_job, max_workers=ck.pick(8, 12)):
        fp = _fingerprint(key, req)
        case = ac.cell_public(shrunk["cell"], shrunk["spec"], shrunk["script"])
        case["mode"] = shrunk["mode"]
        for c in explained:
            ck.fail(fp, explained[0]["what"], case, explained[0]["detail"])


def replay(ck, case):
    cell, spec, script, mode = case["cell"], case["spec"], case["script"], case.get("mode", "asktell")
    rec = _worker((cell, spec, script, mode))
    ck.case(case)
    print("replay:", json.dumps({"not_accepted": rec["not_accepted"], "error": rec["error"],
                                 "proposals": [r["X"] for r in rec["rounds"]]}, default=str)[:3000])
    with ck.driver() as d:
        for key, what, detail in _judge(ck, d, cell, spec, script, mode, rec):
            ck.fail(_fingerprint(key, ac.requirements(cell, spec)), what, case, detail)
        if mode == "asktell" and cell["search"] in ("CBO", "EDS") and rec["rounds"] and not rec["not_accepted"]:
            rep = d.ask(ac.session_request(cell, rec["decl"], rec))
            print("replay: model session:", {k: rep[k] for k in ("mismatch", "replayed", "paths")})
            if rep["mismatch"] is not None:
                ck.mismatch(case, rep["mismatch"])
