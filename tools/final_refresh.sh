#!/bin/bash
# development aid: refresh evidence (seed 0, quick) for all properties on /repo, regenerate the generated files, validate
cd /verif
(cd lean && lake build $(python3 -c "import json;print(json.load(open('../MANIFEST.json'))['setup_cmd'].split('lake build ')[1])")) > /var/tmp/final_build.log 2>&1 || { echo BUILD FAILED; tail -20 /var/tmp/final_build.log; }
mkdir -p /var/tmp/final
printf '%s\n' C01 C02 C03 C04 C05 C06 C08 C09 C10 C11 C12 C13 C14 C15 C16 C17 C18 C19 C20 | xargs -P ${P:-3} -I{} sh -c 'VERIF_SEED=0 timeout 1500 ./check {} --tier quick > /var/tmp/final/{}.log 2>&1; echo {} exit=$? $(tail -1 /var/tmp/final/{}.log | cut -c1-160)'
VERIF_SEED=0 timeout 1500 ./check C07 --tier quick > /var/tmp/final/C07.log 2>&1; echo C07 exit=$? $(tail -1 /var/tmp/final/C07.log | cut -c1-160)
python3 tools/mkknown.py; python3 tools/mkmanifest.py; python3 tools/mkdesign_tables.py
python3-vt - <<'P'
import json,jsonschema,glob
jsonschema.validate(json.load(open('MANIFEST.json')),json.load(open('/root/.vp/MANIFEST.schema.json'))); print('manifest ok')
es=json.load(open('/root/.vp/EVIDENCE.schema.json'))
for f in sorted(glob.glob('evidence/*.json')):
    e=json.load(open(f)); jsonschema.validate(e,es)
    assert e['seed']==0 and e['tier']=='quick' and e['coverage']['repo']=='/repo', f
print('evidence ok')
P
