#!/usr/bin/env python3
"""Confirm a seeded change: demo passes on the clean tree, fails with the patch; the pinned tests still pass
with the patch (full baseline suite compared with /root/.vp/BASELINE.json unless --no-tests).
Writes the outcome into seeded/<id>/meta.json under "confirmed".   usage: tools/seeded_confirm.py [--no-tests] ids...
"""
import json, os, subprocess, sys, time
from pathlib import Path

V = Path(__file__).resolve().parent.parent
# many of these run side by side: keep BLAS/OpenMP pools small
for _k in ("OMP_NUM_THREADS", "OPENBLAS_NUM_THREADS", "MKL_NUM_THREADS"):
    os.environ.setdefault(_k, "2")


def sh(cmd, timeout=3600, **kw):
    try:
        return subprocess.run(cmd, shell=True, capture_output=True, text=True, timeout=timeout, **kw)
    except subprocess.TimeoutExpired as e:
        class R: returncode = 124; stdout = ""; stderr = "timeout"
        return R()


def main():
    args = sys.argv[1:]
    tests = "--no-tests" not in args
    ids = [a for a in args if not a.startswith("--")]
    for sid in ids:
        d = V / "seeded" / sid
        wt = Path(f"/tmp/wt_confirm_{sid}")
        sh(f"git -C /repo worktree remove --force {wt}")
        sh(f"git -C /repo worktree add --detach {wt} HEAD")
        env = f"cd {wt} && PYTHONPATH={wt}/src"
        out = {"at": time.strftime("%Y-%m-%d %H:%M"), "repo_head": sh("git -C /repo rev-parse --short HEAD").stdout.strip()}
        try:
            demo = next((d / n for n in ("demo.py", "demo_test.py", "test_demo.py") if (d / n).exists()), None)
            r0 = sh(f"{env} timeout 900 /venv/bin/python -W ignore {demo}", timeout=1000)
            out["demo_clean_exit"] = r0.returncode
            ra = sh(f"git -C {wt} apply {d / 'patch.diff'}")
            out["patch_applies"] = ra.returncode == 0
            r1 = sh(f"{env} timeout 900 /venv/bin/python -W ignore {demo}", timeout=1000)
            out["demo_patched_exit"] = r1.returncode
            out["demo_patched_tail"] = (r1.stdout + r1.stderr).strip().splitlines()[-2:]
            if tests:
                x = f"/tmp/confirm_{sid}.xml"
                sh(f"{env} env -u DEEPHYPER_VERIF timeout 3000 /venv/bin/python -m pytest -q -p no:cacheprovider --timeout=900 --continue-on-collection-errors --junitxml={x} tests", timeout=3100)
                rc = sh(f"python3 {V}/tools/baseline_cmp.py {x}")
                out["pinned_tests"] = rc.stdout.strip().splitlines()[0] if rc.stdout else rc.stderr
                out["pinned_tests_ok"] = rc.returncode == 0
                out["pinned_not_passing"] = [l.strip() for l in rc.stdout.splitlines() if "NOT PASSING" in l]
                # timing-sensitive tests can fail under machine load: re-run each non-passing test alone (twice at most)
                still = []
                for l in out["pinned_not_passing"]:
                    name = l.split()[2]
                    mod, _, fn = name.partition("::")
                    path = mod.replace(".", "/") + ".py::" + fn
                    ok = False
                    for _ in range(2):
                        rr = sh(f"{env} env -u DEEPHYPER_VERIF timeout 1000 /venv/bin/python -m pytest -q -p no:cacheprovider --timeout=900 {path}", timeout=1100)
                        if rr.returncode == 0:
                            ok = True
                            break
                    if not ok:
                        still.append(l)
                out["pinned_rerun_alone_still_failing"] = still
                out["pinned_tests_ok"] = not still
            out["ok"] = bool(out["demo_clean_exit"] == 0 and out["patch_applies"] and out["demo_patched_exit"] != 0 and (not tests or out["pinned_tests_ok"]))
        finally:
            sh(f"git -C /repo worktree remove --force {wt}")
        meta = json.loads((d / "meta.json").read_text())
        meta["confirmed"] = out
        (d / "meta.json").write_text(json.dumps(meta, indent=1) + "\n")
        print(sid, json.dumps(out))


if __name__ == "__main__":
    main()
