#!/usr/bin/env python3
"""Regenerates MANIFEST.json from the table below (kept valid against /root/.vp/MANIFEST.schema.json)."""
import json
from pathlib import Path

V = Path(__file__).resolve().parent.parent
ALL = [f"C{i:02d}" for i in range(1, 21)]

# property -> (technique, level text, level_note, design_ref)
CLAIMED = {}

# fragments written per property: manifest.d/Cxx.json = {"technique":..,"text":..,"note":..,"design_ref":..}
# a fragment is only used once the property is listed in ENABLED (checks green on /repo itself)
ENABLED = [f"C{i:02d}" for i in range(1, 21)]
for _f in sorted((V / "manifest.d").glob("C*.json")) if (V / "manifest.d").is_dir() else []:
    _d = json.loads(_f.read_text())
    if _f.stem in ENABLED:
        CLAIMED[_f.stem] = (_d["technique"], _d["text"], _d["note"], _d.get("design_ref", f"DESIGN.md section 5 {_f.stem}"))
CLAIMED = {k: v for k, v in sorted(CLAIMED.items()) if k in ENABLED}

NOT_YET = "check not built yet in this session (planned: Lean model + proof + correspondence, see DESIGN.md section 5)"


def main():
    checks = []
    for p, (tech, text, note, ref) in CLAIMED.items():
        checks.append({
            "property_id": p,
            "quick_cmd": f"./check {p} --tier quick",
            "thorough_cmd": f"./check {p} --tier thorough",
            "evidence_file": f"/verif/evidence/{p}.json",
            "replay_cmd_template": f"./check {p} --replay {{path}}",
            "engine": "lean4-model+correspondence",
            "level_claimed": {"category": "proof", "text": text, "design_ref": ref},
            "level_note": note,
            "technique": tech,
        })
    man = {
        "version": 1,
        # only the modules of registered checks (work-in-progress files of other properties cannot break setup)
        "setup_cmd": "cd lean && lake build " + " ".join(f"Props.{p} Drivers.{p}" for p in sorted(CLAIMED)),
        "hooks": {
            "guard": "DEEPHYPER_VERIF",
            "enable": "no source hooks: checks import deephyper from /repo/src (VERIF_REPO overrides) and control schedules from outside; DEEPHYPER_VERIF=1 is exported by ./check for future guarded hooks",
            "baseline_off_cmd": "cd /repo && env -u DEEPHYPER_VERIF /venv/bin/python -m pytest -ra -q -p no:cacheprovider --timeout=900 --continue-on-collection-errors",
            "source_commits": [],
            "add_only": True,
        },
        "engines": [{
            "name": "lean4-model+correspondence",
            "path": "lean/ (Model, Proofs, Props, Drivers) + harness/",
            "serves_properties": sorted(CLAIMED),
            "kind_free_text": "hand-written executable Lean 4 models with kernel-checked property theorems; Python harness drives the real "
                              "deephyper code and the Lean driver over a JSON line protocol and compares observable behaviour; "
                              "property oracle (verified checkers) on the implementation's own outputs for failing-input search",
        }],
        "checks": checks,
        "notes": "Every check: L1 lake build + #print axioms audit, L2 correspondence, L3 oracle on the real code. KNOWN_FINDINGS.json lists recorded defects.",
        "not_applicable": [{"property_id": p, "reason": NOT_YET} for p in ALL if p not in CLAIMED],  # empty: all 20 are claimed
    }
    (V / "MANIFEST.json").write_text(json.dumps(man, indent=1) + "\n")


if __name__ == "__main__":
    main()
