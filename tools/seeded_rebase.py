#!/usr/bin/env python3
"""Development aid: after a fix commit lands in /repo, bring the seeded patches that no longer apply to HEAD
up to date.  For each seeded/<id>/patch.diff that `git apply --check` rejects on HEAD: find the most recent
ancestor of HEAD on which it applies, commit it there in a scratch worktree, cherry-pick that commit onto HEAD;
if that merges cleanly the resulting diff replaces patch.diff (the original is kept as patch.orig.diff, once).
Conflicts are listed for re-creation by hand.   usage: tools/seeded_rebase.py [ids...]
"""
import json, shutil, subprocess, sys
from pathlib import Path

V = Path(__file__).resolve().parent.parent


def sh(cmd, **kw):
    return subprocess.run(cmd, shell=True, capture_output=True, text=True, **kw)


def main():
    ids = sys.argv[1:] or sorted(p.name for p in (V / "seeded").iterdir() if (p / "patch.diff").exists())
    wt = Path("/tmp/wt_rebase")
    sh(f"git -C /repo worktree remove --force {wt}")
    sh(f"git -C /repo worktree add --detach {wt} HEAD")
    head = sh("git -C /repo rev-parse HEAD").stdout.strip()
    ancestors = sh("git -C /repo rev-list --max-count=12 HEAD").stdout.split()
    rows = []
    try:
        for sid in ids:
            d = V / "seeded" / sid
            patch = d / "patch.diff"
            sh(f"git -C {wt} checkout -q --detach {head} && git -C {wt} reset -q --hard && git -C {wt} clean -fdq")
            if sh(f"git -C {wt} apply --check {patch}").returncode == 0:
                continue
            base = None
            for a in ancestors[1:]:
                sh(f"git -C {wt} checkout -q --detach {a} && git -C {wt} reset -q --hard")
                if sh(f"git -C {wt} apply --check {patch}").returncode == 0:
                    base = a
                    break
            if base is None:
                rows.append((sid, "NO-BASE-FOUND"))
                continue
            sh(f"git -C {wt} apply {patch} && git -C {wt} add -A && git -C {wt} -c user.name=s -c user.email=s@x commit -q -m seeded")
            c = sh(f"git -C {wt} rev-parse HEAD").stdout.strip()
            sh(f"git -C {wt} checkout -q --detach {head}")
            r = sh(f"git -C {wt} -c user.name=s -c user.email=s@x cherry-pick {c}")
            if r.returncode != 0:
                sh(f"git -C {wt} cherry-pick --abort")
                rows.append((sid, f"CONFLICT (base {base[:7]})"))
                continue
            new = sh(f"git -C {wt} diff {head} HEAD").stdout
            if not (d / "patch.orig.diff").exists():
                shutil.copy(patch, d / "patch.orig.diff")
            patch.write_text(new)
            meta = json.loads((d / "meta.json").read_text())
            meta["rebased"] = {"from": base[:7], "to": head[:7]}
            (d / "meta.json").write_text(json.dumps(meta, indent=1) + "\n")
            rows.append((sid, f"REBASED {base[:7]} -> {head[:7]}"))
    finally:
        sh(f"git -C /repo worktree remove --force {wt}")
    for r in rows:
        print(*r)
    print(f"{len(rows)} of {len(ids)} needed attention")


if __name__ == "__main__":
    main()
