#!/usr/bin/env python3
"""Development aid: import the deliverables of a seeding sub-agent (<out>/<k>/{patch.diff,demo.py,meta.json})
into /verif/seeded/<Cxx>-<n> with the next free n, then confirm each with tools/seeded_confirm.py.
A change that is not confirmed (demo does not fail with the patch / fails without it / pinned tests break /
patch does not apply) is moved to seeded/_rejected/<id>/ with the reason in its meta.json.

usage: tools/seeded_import.py [--no-tests] <Cxx> <out_dir>
"""
import json, shutil, subprocess, sys
from pathlib import Path

V = Path(__file__).resolve().parent.parent


def main():
    args = sys.argv[1:]
    notests = "--no-tests" in args
    args = [a for a in args if not a.startswith("--")]
    prop, out = args[0], Path(args[1])
    ids = []
    for sub in sorted(p for p in out.iterdir() if p.is_dir() and (p / "patch.diff").exists()):
        n = 1
        while (V / "seeded" / f"{prop}-{n}").exists() or (V / "seeded" / "_rejected" / f"{prop}-{n}").exists():
            n += 1
        sid = f"{prop}-{n}"
        d = V / "seeded" / sid
        d.mkdir(parents=True)
        for f in sub.iterdir():
            if f.is_file() and f.stat().st_size < 2_000_000:
                shutil.copy(f, d / f.name)
        if not (d / "meta.json").exists():
            (d / "meta.json").write_text(json.dumps({"property": prop, "summary": "(no meta given)", "needs": ""}))
        meta = json.loads((d / "meta.json").read_text())
        meta["property"] = prop
        meta["wave"] = int(__import__("os").environ.get("W", "4"))
        (d / "meta.json").write_text(json.dumps(meta, indent=1) + "\n")
        ids.append(sid)
    if not ids:
        print("nothing to import in", out)
        return
    subprocess.run([sys.executable, str(V / "tools" / "seeded_confirm.py")] + (["--no-tests"] if notests else []) + ids)
    for sid in ids:
        d = V / "seeded" / sid
        meta = json.loads((d / "meta.json").read_text())
        if not meta.get("confirmed", {}).get("ok"):
            rej = V / "seeded" / "_rejected"
            rej.mkdir(exist_ok=True)
            shutil.move(str(d), str(rej / sid))
            print("REJECTED", sid, json.dumps(meta.get("confirmed"))[:400])
        else:
            print("KEPT", sid)


if __name__ == "__main__":
    main()
