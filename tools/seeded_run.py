#!/usr/bin/env python3
"""Development aid (not a registered check): run the registered checks against every seeded
breaking change under /verif/seeded/<id>/ and print which are detected.

Each change is applied to its own scratch worktree of /repo outside /repo and /verif (removed
afterwards); the check is pointed at it with VERIF_REPO.  (Equivalent to `git -C /repo apply` +
check + `git -C /repo checkout -- .`, but does not disturb /repo while other work is going on.)
Results are appended to seeded/<id>/meta.json under "check_result".

usage: tools/seeded_run.py [--tier quick|thorough] [--jobs N] [ids...]
"""
import json
import os
import subprocess
import sys
import time
from concurrent.futures import ThreadPoolExecutor
from pathlib import Path

V = Path(__file__).resolve().parent.parent
# many of these run side by side: keep BLAS/OpenMP pools small
for _k in ("OMP_NUM_THREADS", "OPENBLAS_NUM_THREADS", "MKL_NUM_THREADS"):
    os.environ.setdefault(_k, "2")


def sh(cmd, **kw):
    return subprocess.run(cmd, shell=True, capture_output=True, text=True, **kw)


def one(sid, tier):
    d = V / "seeded" / sid
    meta = json.loads((d / "meta.json").read_text())
    prop = meta["property"]
    wt = Path(f"/tmp/wt_seedrun_{sid}")
    sh(f"git -C /repo worktree remove --force {wt}")
    r = sh(f"git -C /repo worktree add --detach {wt} HEAD")
    if r.returncode:
        return (sid, prop, "WORKTREE-FAILED", r.stderr.strip()[:100])
    try:
        r = sh(f"git -C {wt} apply {d / 'patch.diff'}")
        if r.returncode:
            r = sh(f"git -C {wt} apply --3way {d / 'patch.diff'}")
        if r.returncode:
            return (sid, prop, "PATCH-DOES-NOT-APPLY", r.stderr.strip()[:100])
        env = dict(os.environ, VERIF_REPO=str(wt))
        t0 = time.time()
        r = subprocess.run([str(V / "check"), prop, "--tier", tier], cwd=V, env=env, capture_output=True, text=True)
        viol = [l for l in r.stdout.splitlines() if l.startswith("VIOLATION")]
        status = "DETECTED" if r.returncode == 1 and viol else ("MISSED" if r.returncode == 0 else f"EXIT{r.returncode}")
        nofail = bool(viol) and all(l.endswith("no-failing-input-found") for l in viol)
        last = (r.stdout.strip().splitlines() or [r.stderr[-200:]])[-1]
        fps = []
        for l in viol[:4]:
            try:
                rp = l.split("replay=")[1].split()[0]
                fps.append(json.load(open(rp)).get("fingerprint") or "broken:" + ",".join(b["layer"] for b in json.load(open(rp)).get("broken", [])))
            except Exception:
                pass
        status += " (no-failing-input-found)" if nofail else ""
        meta["check_result"] = {"tier": tier, "status": status, "fingerprints": fps, "wall_s": round(time.time() - t0, 1),
                                "repo_head": sh("git -C /repo rev-parse --short HEAD").stdout.strip(), "at": time.strftime("%Y-%m-%d %H:%M")}
        (d / "meta.json").write_text(json.dumps(meta, indent=1) + "\n")
        return (sid, prop, status, (("; ".join(fps)) if fps else last)[:200])
    finally:
        sh(f"git -C /repo worktree remove --force {wt}")


def main():
    args = sys.argv[1:]
    tier, jobs = "quick", 4
    if "--tier" in args:
        i = args.index("--tier"); tier = args[i + 1]; del args[i:i + 2]
    if "--jobs" in args:
        i = args.index("--jobs"); jobs = int(args[i + 1]); del args[i:i + 2]
    ids = args or sorted(p.name for p in (V / "seeded").iterdir() if (p / "patch.diff").exists())
    # C07 regenerates a shared Lean file per VERIF_REPO: run those serially at the end
    par = [i for i in ids if not i.startswith("C07")]
    ser = [i for i in ids if i.startswith("C07")]
    rows = []
    with ThreadPoolExecutor(jobs) as ex:
        rows += list(ex.map(lambda s: one(s, tier), par))
    for s in ser:
        rows.append(one(s, tier))
    for r in rows:
        print(" | ".join(r))
    return 0


if __name__ == "__main__":
    sys.exit(main())
