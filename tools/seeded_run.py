#!/usr/bin/env python3
"""Development aid (not a registered check): run the registered quick checks against every seeded
breaking change under /verif/seeded/<id>/ and print which are detected.

Each change is applied to a scratch worktree of /repo outside /repo and /verif (removed afterwards);
the check is pointed at it with VERIF_REPO.  (Equivalent to `git -C /repo apply` + check + `git -C
/repo checkout -- .`, but does not disturb /repo while other work is going on; pass --in-repo to do
exactly that instead.)

usage: tools/seeded_run.py [--tier quick|thorough] [--in-repo] [ids...]
"""
import json
import os
import subprocess
import sys
from pathlib import Path

V = Path(__file__).resolve().parent.parent
WT = Path("/tmp/wt_seedrun")


def sh(cmd, **kw):
    return subprocess.run(cmd, shell=True, capture_output=True, text=True, **kw)


def main():
    args = sys.argv[1:]
    tier = "quick"
    in_repo = False
    if "--tier" in args:
        i = args.index("--tier")
        tier = args[i + 1]
        del args[i:i + 2]
    if "--in-repo" in args:
        in_repo = True
        args.remove("--in-repo")
    ids = args or sorted(p.name for p in (V / "seeded").iterdir() if (p / "patch.diff").exists())
    tree = Path("/repo") if in_repo else WT
    if not in_repo:
        sh(f"git -C /repo worktree remove --force {WT}")
        r = sh(f"git -C /repo worktree add --detach {WT} HEAD")
        if r.returncode:
            print(r.stderr)
            return 2
    rows = []
    try:
        for sid in ids:
            d = V / "seeded" / sid
            meta = json.loads((d / "meta.json").read_text())
            prop = meta["property"]
            sh(f"git -C {tree} checkout -- .")
            r = sh(f"git -C {tree} apply {d / 'patch.diff'}")
            if r.returncode:
                rows.append((sid, prop, "PATCH-DOES-NOT-APPLY", r.stderr.strip()[:100]))
                continue
            env = dict(os.environ, VERIF_REPO=str(tree))
            r = subprocess.run([str(V / "check"), prop, "--tier", tier], cwd=V, env=env, capture_output=True, text=True)
            viol = [l for l in r.stdout.splitlines() if l.startswith("VIOLATION")]
            status = "DETECTED" if r.returncode == 1 and viol else ("MISSED" if r.returncode == 0 else f"EXIT{r.returncode}")
            nofail = any(l.endswith("no-failing-input-found") for l in viol)
            last = (r.stdout.strip().splitlines() or [r.stderr[-200:]])[-1]
            rows.append((sid, prop, status + (" (no-failing-input-found)" if nofail else ""), (viol[0] if viol else last)[:160]))
            sh(f"git -C {tree} checkout -- .")
    finally:
        if not in_repo:
            sh(f"git -C /repo worktree remove --force {WT}")
        else:
            sh("git -C /repo checkout -- .")
    for r in rows:
        print(" | ".join(r))
    return 0


if __name__ == "__main__":
    sys.exit(main())
