#!/bin/bash
# development aid: import + confirm + run the seeds a wave-4 seeder left in /tmp/seed4_<Cxx>_out
p=$1
cd /verif
before=$(ls seeded | grep "^$p-" | sort)
timeout 6000 python3 tools/seeded_import.py $p /tmp/seed${W:-4}_${p}_out 2>&1 | grep -E "^(KEPT|REJECTED)"
git -C /repo worktree remove --force /tmp/seed${W:-4}_$p 2>/dev/null
new=$(comm -13 <(echo "$before") <(ls seeded | grep "^$p-" | sort))
[ -n "$new" ] && timeout 3000 python3 tools/seeded_run.py --jobs 3 $new 2>&1 | tail -5
