#!/usr/bin/env python3
"""Regenerates the machine-made tables of DESIGN.md (between <!-- AUTO:x --> ... <!-- /AUTO:x --> markers):
 asbuilt  - per property: theorems (count, partial ones), model/proof line counts, evidence numbers
 fixes    - the fix: commits in /repo
 seeded   - seeded changes and which check result they got
"""
import json, re, subprocess, sys
from pathlib import Path

V = Path(__file__).resolve().parent.parent
sys.path.insert(0, str(V))
from harness.common import theorems_of, lean_sources_of, LEAN_DIR  # noqa


def asbuilt():
    rows = ["| Prop | theorems (partial) | Lean lines model / proofs / props | quick: cases / distinct non-trivial / wall | known findings (open) |", "|---|---|---|---|---|"]
    kf = json.loads((V / "KNOWN_FINDINGS.json").read_text())
    for i in range(1, 21):
        p = f"C{i:02d}"
        f = LEAN_DIR / "Props" / f"{p}.lean"
        if not f.exists():
            rows.append(f"| {p} | not built | | | |")
            continue
        th = theorems_of(p)
        partial = [t.split(".")[-1] for t in th if "partial" in t]
        mods = lean_sources_of(p)
        def lines(prefix):
            return sum(len((LEAN_DIR / (m.replace(".", "/") + ".lean")).read_text().splitlines()) for m in mods if m.startswith(prefix))
        ev = V / "evidence" / f"{p}.json"
        e = json.loads(ev.read_text()) if ev.exists() else None
        evs = f"{e['coverage']['evaluations']} / {e['coverage']['distinct_nontrivial']} / {e['wall_s']:.0f} s ({e['tier']})" if e else ""
        nopen = sum(1 for x in kf.get("open", []) if x["property"] == p)
        rows.append(f"| {p} | {len(th)} ({', '.join(partial) if partial else 'none'}) | {lines('Model.')} / {lines('Proofs.')} / {lines('Props.')} | {evs} | {nopen} |")
    return "\n".join(rows)


def fixes():
    out = subprocess.run(["git", "-C", "/repo", "log", "--reverse", "--format=%h %s", "df03838..HEAD"], capture_output=True, text=True).stdout
    rows = ["| commit | message |", "|---|---|"]
    for l in out.splitlines():
        h, _, m = l.partition(" ")
        rows.append(f"| `{h}` | {m} |")
    return "\n".join(rows)


def seeded():
    rows = ["| id | property | what was changed (summary) | needs | confirmed (demo + pinned tests) | check result (quick) |", "|---|---|---|---|---|---|"]
    for d in sorted((V / "seeded").iterdir()):
        mf = d / "meta.json"
        if not mf.exists():
            continue
        m = json.loads(mf.read_text())
        c = m.get("confirmed", {})
        r = m.get("check_result", {})
        s = re.sub(r"\s+", " ", m.get("summary", ""))[:230].replace("|", "/")
        n = re.sub(r"\s+", " ", m.get("needs", ""))[:200].replace("|", "/")
        rows.append(f"| {d.name} | {m['property']} | {s} | {n} | {'yes' if c.get('ok') else 'NO' if c else '?'} | {r.get('status', '?')} {('('+'; '.join(x.split('|',1)[1] if '|' in x else x for x in r.get('fingerprints', [])[:2])+')') if r.get('fingerprints') else ''} |".replace("||", "| |"))
    return "\n".join(rows)


def main():
    p = V / "DESIGN.md"
    s = p.read_text()
    for name, fn in (("asbuilt", asbuilt), ("fixes", fixes), ("seeded", seeded)):
        a, b = f"<!-- AUTO:{name} -->", f"<!-- /AUTO:{name} -->"
        if a in s and b in s:
            i, j = s.index(a) + len(a), s.index(b)
            s = s[:i] + "\n" + fn() + "\n" + s[j:]
    p.write_text(s)


if __name__ == "__main__":
    main()
