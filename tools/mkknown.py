#!/usr/bin/env python3
"""Assembles KNOWN_FINDINGS.json (committed by hand; never written by a check) from the builders'
fragments in known_findings.d/ and the `fix:` commits of /repo main.

 open  : genuine defects recorded rather than repaired (fingerprint = what the oracle emits)
 fixed : one entry per fix commit in /repo: "fixed: property=<id> <commit> <what failed>" (suppresses nothing)
"""
import json, re, subprocess
from pathlib import Path

V = Path(__file__).resolve().parent.parent
PROP_OF = [  # (regex on commit subject, property)
    (r"Evaluator\.close\(\)|own copy of a submitted configuration", "C01"), (r"gather_other_jobs_done collects", "C14"),
    (r"aggregators keep the array namespace|entropy of MixedCategoricalAggregator", "C19"), (r"search\(\) returns None when this search wrote no results", "C04"), (r"MedianStopper keeps the best", "C16"), (r"queued evaluators", "C17"), (r"utopia point", "C05"),
    (r"MixedNormalAggregator|MeanAggregator|ModeAggregator", "C19"), (r"GreedySelector", "C20"),
    (r"strict max_evals offset|cap on submitted jobs|state of the dumping per results file", "C03"), (r"evaluator timeout", "C03/C14"),
    (r"number of objectives from the first non-failed|non-finite value to a failure", "C04/C06"),
    (r"impute failures per objective", "C06"),
    (r"Pareto rewrite of results\.csv keeps the CSV dialect", "C04"),
    (r"MES acquisition no longer floors|Real\.rvs clips the samples of the updated prior", "C05"),
    (r"CBO\.ask called again before any tell", "C08"),
    (r"results\.csv|earlier results|results written by another search|always starts its results file", "C15"),
    (r"Identity\(type_func\)|Real\.inverse_transform", "C09/C02"), (r"sample from their prior|keeps the weights", "C10"),
    (r"non_dominated_set_ranked returns every point", "C11"), (r"hypervolume", "C12"), (r"MedianStopper", "C16"), (r"MES acquisition|sort the active hyperparameter names|NumPy integer seeds|quantile objective scaler subsamples", "C07"),
    (r"random points completing a batch|qUCB/qUCBd batches|all told results are ignored failures|already sampled is replaced", "C08"),
    (r"topk and boltzmann|DUMMY estimator|GradientBoostingQuantileRegressor|deterministic acquisition functions|lbfgs optimisation of the MES|GBRT|"
     r"RegularizedEvolution draws another mutation|placeholder value of an inactive|boltzmann multi-point|choices have different types", "C02"),
]


def git(*a):
    return subprocess.run(["git", "-C", "/repo", *a], capture_output=True, text=True).stdout.strip()


def main():
    old = json.loads((V / "KNOWN_FINDINGS.json").read_text())
    frag_open, frag_fixed = [], {}
    for f in sorted((V / "known_findings.d").glob("C*.json")):
        d = json.loads(f.read_text())
        frag_open += d.get("open", [])
        for e in d.get("fixed", []):
            h = str(e.get("commit", "")).split()[0]
            subj = git("log", "-1", "--format=%s", h) if h else ""
            if subj:
                frag_fixed[subj] = e
    fixed = []
    for line in git("log", "--reverse", "--format=%h\t%s", "df03838..HEAD").splitlines():
        h, subj = line.split("\t", 1)
        prop = next((p for rx, p in PROP_OF if re.search(rx, subj)), None)
        e = frag_fixed.get(subj)
        # keep hand-written descriptions of earlier versions of this file
        prev = next((x for x in old.get("fixed", []) if x.get("subject") == subj), None)
        what = (e or {}).get("what") or (prev or {}).get("what") or subj
        pprev = (prev or {}).get("property")
        fixed.append({"property": (e or {}).get("property") or (pprev if pprev not in (None, "?") else None) or prop or "?", "commit": h, "subject": subj, "what": what,
                      "line": f"fixed: property={(e or {}).get('property') or prop} {h} {what}"[:400]})
    out = {
        "_comment": "Committed by hand (tools/mkknown.py assembles it from known_findings.d/ and /repo's fix commits); never written at run time. "
                    "'open' = genuine defects recorded rather than repaired: a failure whose fingerprint equals an open entry is printed as KNOWN-FINDING and does "
                    "not fail the check; any other failure of the same property is a VIOLATION. 'fixed' entries suppress nothing.",
        "open": frag_open,
        "fixed": fixed,
    }
    (V / "KNOWN_FINDINGS.json").write_text(json.dumps(out, indent=1) + "\n")
    print(f"open={len(frag_open)} fixed={len(fixed)} unmapped={[x['subject'] for x in fixed if x['property'] == '?']}")


if __name__ == "__main__":
    main()
