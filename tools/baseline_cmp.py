#!/usr/bin/env python3
"""Compare a pytest junit xml with /root/.vp/BASELINE.json's stable_pass list."""
import json, sys
import xml.etree.ElementTree as ET
base = json.load(open("/root/.vp/BASELINE.json"))
root = ET.parse(sys.argv[1]).getroot()
res = {}
for tc in root.iter("testcase"):
    name = f"{tc.get('classname')}::{tc.get('name')}"
    bad = any(c.tag in ("failure", "error") for c in tc)
    skipped = any(c.tag == "skipped" for c in tc)
    res[name] = "fail" if bad else "skip" if skipped else "pass"
missing = [t for t in base["stable_pass"] if res.get(t) != "pass"]
newpass = [t for t, r in res.items() if r == "pass" and t not in base["stable_pass"]]
print(f"passed={sum(r=='pass' for r in res.values())} failed={sum(r=='fail' for r in res.values())} baseline_missing={len(missing)}")
for t in missing:
    print("  NOT PASSING:", t, res.get(t))
print("newly passing (not in stable baseline):", newpass)
sys.exit(1 if missing else 0)
