import Proofs.EvaluatorMultiProps

/-!
Lemmas behind the `C01_multi_*` theorems: the rows behind the jobs of the simulating state, what
`gather_other_jobs_done` reports, the frame of a call, the cap.  Core Lean only.
-/

namespace DH.Evaluator

variable {C O : Type}

theorem Rel.row_of_job {rows : List (Row C O)} {me : MEv C O} {s : Ev C O} (hr : Rel rows me s)
    {j : JobRec C O} (hj : j ∈ s.jobs) :
    ∃ r ∈ rows, r.id ∈ me.jobs ∧ recOf r = renRec (rho me.jobs rows.length) j := by
  have : renRec (rho me.jobs rows.length) j ∈ (ownRows rows me.jobs).map recOf := by
    rw [← hr.jobs]; exact List.mem_map_of_mem hj
  obtain ⟨r, hro, hrec⟩ := List.mem_map.1 this
  obtain ⟨hm, hc⟩ := List.mem_filter.1 hro
  exact ⟨r, hm, by simpa using hc, hrec⟩

/-- the row of the job that carries the `i`-th configuration the simulating evaluator submitted -/
theorem Rel.row_of_cfg {p : Params C O} {rows : List (Row C O)} {me : MEv C O} {s : Ev C O} {cs : List C}
    (hr : Rel rows me s) (ht : Trace p s cs) {i : Nat} {c : C} (h : cs[i]? = some c) :
    ∃ r ∈ rows, r.id = rho me.jobs rows.length i ∧ r.cfg = c ∧ r.id ∈ me.jobs := by
  obtain ⟨hi, _, _⟩ := reach_good ht.reach
  rw [← ht.cfgs] at h
  obtain ⟨hlt, hc⟩ := List.getElem?_eq_some_iff.1 h
  simp only [List.length_map] at hlt
  have hj : s.jobs[i] ∈ s.jobs := List.getElem_mem hlt
  have hid : s.jobs[i].id = i := by
    have h1 : (s.jobs.map (·.id))[i]? = some s.jobs[i].id := by simp [hlt]
    rw [hi.ids] at h1
    have hk' : i < s.nextId := by
      have := congrArg List.length hi.ids
      simp at this; omega
    simp [hk'] at h1
    omega
  obtain ⟨r, hrm, hown, hrec⟩ := hr.row_of_job hj
  refine ⟨r, hrm, ?_, ?_, hown⟩
  · have := congrArg JobRec.id hrec
    simpa [recOf, renRec, hid] using this
  · have := congrArg JobRec.cfg hrec
    simp only [recOf, renRec] at this
    rw [this]
    simpa using hc

/-- **what `gather_other_jobs_done` reports**: finished jobs of other evaluators, not reported before, as their
rows show them (configuration, the owner's output, terminal status) -/
theorem others_spec {p : MParams C O} {n : Nat} {sys : Sys C O} (h : SInv p n sys) {who : Nat} {me : MEv C O}
    (hme : sys.evs[who]? = some me) :
    ((otherObjs p sys.rows me).map (·.id)).Nodup ∧
    ((otherObjs p sys.rows me).map (foreignRec sys.rows)).map (·.id) = (otherObjs p sys.rows me).map (·.id) ∧
    (∀ o ∈ (otherObjs p sys.rows me).map (foreignRec sys.rows),
      o.id ∉ me.reported ∧ o.id ∉ me.jobs ∧
      ∃ r ∈ sys.rows, r.id = o.id ∧ r.owner ≠ who ∧ activeRow r = false ∧ o.cfg = r.cfg ∧ o.out = r.out ∧
        o.status = r.status ∧ truthyOut p r.sout = true ∧ p.hpo = true) ∧
    (∀ r ∈ sys.rows, r.id ∉ me.submitted → r.id ∉ me.gathered → truthyOut p r.sout = true →
      r.id ∈ (otherObjs p sys.rows me).map (·.id)) := by
  have hev := h.ev who me hme
  obtain ⟨hnd, hmem⟩ := otherObjs_ids (p := p) (rows := sys.rows) (me := me)
  refine ⟨hnd, ?_, ?_, ?_⟩
  · rw [List.map_map]; rfl
  · intro o ho
    obtain ⟨ob, hob, rfl⟩ := List.mem_map.1 ho
    unfold otherObjs at hob
    obtain ⟨id, hid, hfo⟩ := List.mem_filterMap.1 hob
    obtain ⟨r, hrow, ht, rfl⟩ := foreignObj_some hfo
    obtain ⟨hrm, hrid⟩ := rowOf_some hrow
    obtain ⟨_, hns, hng⟩ := mem_otherCand.1 hid
    have hs := h.rows.sout r hrm
    have hhpo : p.hpo = true := by
      unfold RowP at hs
      cases hp : p.hpo with
      | true => rfl
      | false =>
        rw [hp] at hs
        simp only [Bool.false_eq_true, if_false] at hs
        rw [hs] at ht; simp [truthyOut] at ht
    have hso : r.sout = r.out := by
      unfold RowP at hs
      rw [hhpo] at hs; simpa using hs
    have hout : r.out ≠ none := by
      intro e; rw [hso, e] at ht; simp [truthyOut] at ht
    have hnj : id ∉ me.jobs := by
      intro hin
      rcases hev.jobs_cover id hin with h2 | h2
      · exact hns h2
      · exact hng h2
    refine ⟨fun hrep => hng (hev.hist.gath.mem_iff.2 (List.mem_append_right _ hrep)), hnj, r, hrm, hrid, ?_,
      h.terminal_of_out hrm hout, rfl, hso, ?_, ht, hhpo⟩
    · intro e
      exact hnj (hrid ▸ (hev.own r hrm).1 e)
    · simp only [foreignRec, hrow]
  · intro r hrm hns hng ht
    apply (hmem r.id).2
    refine ⟨mem_otherCand.2 ⟨row_id_lt h.rows.ids hrm, hns, hng⟩, r, rowOf_of_mem (rows_nodup h.rows.ids) hrm, ht⟩

/-- a job in flight is READY / RUNNING in the storage -/
theorem multi_running_active {p : MParams C O} {n : Nat} {sys : Sys C O} (h : SInv p n sys) {who : Nat}
    {me : MEv C O} (hme : sys.evs[who]? = some me) {g : Nat} (hg : g ∈ mRunningIds me) :
    ∃ r, rowOf sys.rows g = some r ∧ activeRow r = true := by
  obtain ⟨s, hs, hr⟩ := (h.ev who me hme).sim
  obtain ⟨hi, _, _⟩ := reach_good hs
  rw [hr.runIds] at hg
  obtain ⟨i, hi', rfl⟩ := List.mem_map.1 hg
  have hsub : i ∈ s.submitted := by rw [← hi.runSub]; exact hi'
  obtain ⟨j, hj, _, hji⟩ := hi.find (hi.sub_lt hsub)
  obtain ⟨r, hrow, hrec⟩ := hr.rowOf hj
  refine ⟨r, hrow, ?_⟩
  have hact : active j = true := (hi.act j (findJob_some hj).1).2 (hji ▸ hsub)
  have e2 : r.status = j.status := by have := congrArg JobRec.status hrec; simpa [renRec, recOf] using this
  unfold activeRow; unfold active at hact; rw [e2]; exact hact

/-- **what a call does to the shared rows and to the other evaluators** -/
theorem mStep_frame {p : MParams C O} {n : Nat} {sys : Sys C O} (h : SInv p n sys) {who : Nat} {me : MEv C O}
    (hme : sys.evs[who]? = some me) (op : MOp C) (hok : mOpOkLocal sys.rows me op = true) :
    ∃ me', (mStep p sys who op).1.evs = sys.evs.set who me' ∧
      RowsStep who me'.jobs sys.rows (mStep p sys who op).1.rows ∧
      (∀ g ∈ me.jobs, g ∈ me'.jobs) ∧ (∀ g ∈ me'.jobs, g ∈ me.jobs ∨ sys.rows.length ≤ g) := by
  have hold := h.ev who me hme
  obtain ⟨s, hs, hr⟩ := hold.sim
  obtain ⟨hi, _, _⟩ := reach_good hs
  have hn := rows_nodup h.rows.ids
  have hown : ∀ g ∈ mRunningIds me, g ∈ me.jobs := fun g hg => hr.running_own hi hg
  unfold mStep
  rw [hme]
  cases op with
  | submit cfgs =>
    have hsame := mCreateTasks_same who cfgs 0 (sys.rows, mSetEventLoop me)
    have hstep := mCreateTasks_rowsStep who cfgs 0 (sys.rows, mSetEventLoop me) h.rows.ids
    have hjobs := mCreateTasks_jobs who cfgs 0 (sys.rows, mSetEventLoop me)
    have e : (mSubmit who (sys.rows, me) cfgs).1 = (mCreateTasks who (sys.rows, mSetEventLoop me) 0 cfgs).1 :=
      mSubmit_fst who (sys.rows, me) cfgs
    rw [← e] at hsame hstep hjobs
    refine ⟨_, rfl, hstep.1, fun g hg => hjobs g (by
      show g ∈ (mSetEventLoop me).jobs; rw [(mSetEventLoop_same me).2]; exact hg), fun g hg => ?_⟩
    have := hsame.2 g hg
    rwa [(mSetEventLoop_same me).2] at this
  | setMax k => exact ⟨_, rfl, RowsStep.refl _ _ _, fun _ hg => hg, fun _ hg => Or.inl hg⟩
  | dump fl =>
    refine ⟨_, rfl, ?_, ?_, ?_⟩ <;> (simp only [mStepLocal, mDump]; split)
    · exact RowsStep.refl _ _ _
    · split <;> exact RowsStep.refl _ _ _
    · exact fun _ hg => hg
    · split <;> exact fun _ hg => hg
    · exact fun _ hg => Or.inl hg
    · split <;> exact fun _ hg => Or.inl hg
  | close fin =>
    obtain ⟨hstep, ⟨ids, hd⟩, _⟩ := mClose_facts p who hn hown fin hok h.rows.sout
    exact ⟨_, rfl, hd.jobs ▸ hstep, fun g hg => hd.jobs ▸ hg, fun g hg => Or.inl (hd.jobs ▸ hg)⟩
  | gather all k st ws =>
    obtain ⟨hstep, ⟨ids, hd⟩, _⟩ := mGatherLocal_facts p who hn hown all k st ws hok h.rows.sout
    have h1 := h.gatherLocal hme all k st ws hok
    simp only [mStepLocal, mGather]
    cases hg : mGatherLocal p (sys.rows, me) all k st ws with
    | mk st1 res =>
      rw [hg] at hstep hd h1
      cases res with
      | error e => exact ⟨_, rfl, hd.jobs ▸ hstep, fun g hg => hd.jobs ▸ hg, fun g hg => Or.inl (hd.jobs ▸ hg)⟩
      | ok js =>
        simp only
        have := gatherOther_eq p (rows_nodup h1.rows.ids) h1.noRunningStored st1.2
        simp only at this
        rw [this]
        exact ⟨_, rfl, hd.jobs ▸ hstep, fun g hg => hd.jobs ▸ hg, fun g hg => Or.inl (hd.jobs ▸ hg)⟩

/-! ### `jobs_done` -/

/-- every entry of `jobs_done` has its `Job` object: an own delivered job or a reported one -/
theorem lookupDone_some {p : MParams C O} {n : Nat} {sys : Sys C O} (h : SInv p n sys) {who : Nat}
    {me : MEv C O} (hme : sys.evs[who]? = some me) {g : Nat} (hg : g ∈ me.jobsDone) :
    ∃ j, lookupDone sys.rows me g = some j ∧ j.id = g := by
  have hev := h.ev who me hme
  obtain ⟨s, hs, hr⟩ := hev.sim
  have hmem := hev.hist.dumpOnce.mem_iff.1 (List.mem_append_right _ hg)
  unfold lookupDone
  rcases List.mem_append.1 hmem with h1 | h1
  · have hown : g ∈ me.jobs := ((multi_exactly_once h hme).2.2.1 g).2 (Or.inr h1)
    obtain ⟨r, hrow⟩ := rowOf_lt h.rows.ids (hr.lt g hown)
    rw [if_pos (by simpa using hown), hrow]
    exact ⟨recOf r, rfl, (rowOf_some hrow).2⟩
  · obtain ⟨hnj, hlt⟩ := hev.hist.repForeign g h1
    rw [if_neg (by simpa using hnj)]
    obtain ⟨r, hrow⟩ := rowOf_lt h.rows.ids hlt
    have hin : g ∈ me.foreign.map (·.id) := by rw [hev.hist.foreign]; exact h1
    obtain ⟨o, ho, hoid⟩ := List.mem_map.1 hin
    cases hf : me.foreign.find? (fun o => o.id == g) with
    | none =>
      have := List.find?_eq_none.1 hf o ho
      simp [hoid] at this
    | some o' =>
      simp only [statusAt, hrow, Option.map_some]
      exact ⟨_, rfl, rfl⟩

theorem doneRecs_ids {p : MParams C O} {n : Nat} {sys : Sys C O} (h : SInv p n sys) {who : Nat}
    {me : MEv C O} (hme : sys.evs[who]? = some me) : (doneRecs sys.rows me).map (·.id) = me.jobsDone := by
  unfold doneRecs
  have : ∀ l : List Nat, (∀ g ∈ l, g ∈ me.jobsDone) → (l.filterMap (lookupDone sys.rows me)).map (·.id) = l := by
    intro l
    induction l with
    | nil => intro _; rfl
    | cons a l ih =>
      intro hl
      obtain ⟨j, hj, hid⟩ := lookupDone_some h hme (hl a (by simp))
      simp only [List.filterMap_cons, hj, List.map_cons, hid]
      rw [ih (fun g hg => hl g (by simp [hg]))]
  exact this _ (fun _ hg => hg)

/-! ### the cap -/

theorem mRoom_reached {rows : List (Row C O)} {me : MEv C O} (h : capReached rows me = true) (n : Nat) :
    mRoom rows me n = 0 := by
  unfold capReached at h
  simp only [Bool.and_eq_true, decide_eq_true_eq] at h
  unfold mRoom
  rw [if_pos h.1]
  omega

theorem mRoom_succ {rows : List (Row C O)} {me me' : MEv C O} (h : ¬ capReached rows me = true) (r : Row C O)
    (h1 : me'.maxSub = me.maxSub) (h2 : me'.offset = me.offset) (n : Nat) :
    mRoom rows me (n + 1) = mRoom (rows ++ [r]) me' n + 1 := by
  unfold capReached at h
  simp only [Bool.and_eq_true, decide_eq_true_eq, not_and] at h
  unfold mRoom mNumSubmitted at *
  rw [h1, h2]
  simp only [List.length_append, List.length_singleton]
  by_cases hc : 0 < me.maxSub
  · have := h hc
    rw [if_pos hc, if_pos hc]
    push_cast
    omega
  · rw [if_neg hc, if_neg hc]

/-- **`_create_tasks` under the cap**: exactly the first `mRoom` configurations become jobs (with consecutive
ids, owned by the submitting evaluator, in order), `MaximumJobsSpawnReached` is raised iff some are left out -/
theorem mCreateTasks_cap (who : Nat) : ∀ (cfgs : List C) (k : Nat) (st : List (Row C O) × MEv C O),
    (mCreateTasks who st k cfgs).1.1.map (·.cfg) = st.1.map (·.cfg) ++ cfgs.take (mRoom st.1 st.2 cfgs.length) ∧
    (mCreateTasks who st k cfgs).1.1.length = st.1.length + mRoom st.1 st.2 cfgs.length ∧
    (mCreateTasks who st k cfgs).2 =
      (if mRoom st.1 st.2 cfgs.length = cfgs.length then none else some (k + mRoom st.1 st.2 cfgs.length)) ∧
    (mCreateTasks who st k cfgs).1.2.jobs = st.2.jobs ++ List.range' st.1.length (mRoom st.1 st.2 cfgs.length) ∧
    (mCreateTasks who st k cfgs).1.2.running.length = st.2.running.length + mRoom st.1 st.2 cfgs.length ∧
    (mCreateTasks who st k cfgs).1.2.maxSub = st.2.maxSub ∧ (mCreateTasks who st k cfgs).1.2.offset = st.2.offset
  | [], k, st => by
    have : mRoom st.1 st.2 0 = 0 := by unfold mRoom; split <;> simp
    simp [mCreateTasks, this]
  | c :: cs, k, st => by
    simp only [mCreateTasks, List.length_cons]
    by_cases hc : capReached st.1 st.2 = true
    · rw [if_pos hc, mRoom_reached hc]
      simp
    · rw [if_neg hc]
      have hm := mRoom_succ (me' := (mCreateTask who st c).2) hc (newRow who st.1.length c) rfl rfl cs.length
      obtain ⟨a1, a2, a3, a4, a5, a6, a7⟩ := mCreateTasks_cap who cs (k + 1) (mCreateTask who st c)
      have e1 : (mCreateTask who st c).1 = st.1 ++ [newRow who st.1.length c] := rfl
      have e2 : (mCreateTask who st c).2.jobs = st.2.jobs ++ [st.1.length] := rfl
      have e3 : (mCreateTask who st c).2.running.length = st.2.running.length + 1 := by
        show (st.2.running ++ [_]).length = _; simp
      rw [e1] at a1 a2 a3 a4 a5
      rw [hm]
      refine ⟨?_, ?_, ?_, ?_, ?_, a6, a7⟩
      · rw [a1]; simp [newRow, List.take_succ_cons]
      · rw [a2]; simp; omega
      · rw [a3]
        by_cases hh : mRoom (st.1 ++ [newRow who st.1.length c]) (mCreateTask who st c).2 cs.length = cs.length
        · rw [if_pos hh, if_pos (by omega)]
        · rw [if_neg hh, if_neg (by omega)]; congr 1; omega
      · rw [a4, e2]
        simp only [List.length_append, List.length_singleton, List.append_assoc]
        congr 1
      · rw [a5, e3]; omega

theorem mCreateTasks_owner (who : Nat) : ∀ (cfgs : List C) (k : Nat) (st : List (Row C O) × MEv C O),
    (mCreateTasks who st k cfgs).1.1.map (·.owner) =
      st.1.map (·.owner) ++ List.replicate (mRoom st.1 st.2 cfgs.length) who
  | [], k, st => by
    have : mRoom st.1 st.2 0 = 0 := by unfold mRoom; split <;> simp
    simp [mCreateTasks, this]
  | c :: cs, k, st => by
    simp only [mCreateTasks, List.length_cons]
    by_cases hc : capReached st.1 st.2 = true
    · rw [if_pos hc, mRoom_reached hc]; simp
    · rw [if_neg hc]
      have hm := mRoom_succ (me' := (mCreateTask who st c).2) hc (newRow who st.1.length c) rfl rfl cs.length
      have ih := mCreateTasks_owner who cs (k + 1) (mCreateTask who st c)
      have e1 : (mCreateTask who st c).1 = st.1 ++ [newRow who st.1.length c] := rfl
      rw [e1] at ih
      rw [hm, ih]
      simp [newRow, List.replicate_succ]

end DH.Evaluator
