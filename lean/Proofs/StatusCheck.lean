import Model.Timeout

/-! The specification decided by `checkStatusLog` and the equivalence proof. Core Lean only. -/

namespace DH.Timeout
open Status

/-- the status writes only moved forward: a non-empty prefix of `READY,RUNNING,DONE` or of
`READY,RUNNING,CANCELLING,CANCELLED`, or `READY[,RUNNING],CANCELLED` (close) -/
def MonotoneLog (l : List Status) : Prop :=
  (l ≠ [] ∧ (l <+: logDone ∨ l <+: logCancelled)) ∨ l = [ready, cancelled] ∨ l = [ready, running, cancelled]

def TerminalLog (l : List Status) : Prop := l.getLast? = some done ∨ l.getLast? = some cancelled

/-- the classification clauses of the property for one gathered job (strict inequalities: ties are
excluded by the `tie` flag of the observation) -/
def Classified (j : JobObs) : Prop :=
  match j.deadline with
  | none => j.log = logDone ∧ j.saw = false
  | some c =>
    (c < j.start → j.log = logCancelled ∧ (j.pollsAgain = true → j.saw = true)) ∧
    (j.start < c → c < j.natEnd → j.log = logCancelled ∧ (j.loopRan = true → j.saw = true)) ∧
    (j.ret < c → j.natEnd < c → j.log = logDone ∧ j.saw = false)

/-- what the property says about one observed scenario -/
structure LogSpec (o : Obs) : Prop where
  /-- status only moves forward -/
  monotone : ∀ j ∈ o.jobs, MonotoneLog j.log
  /-- no job is reported twice, only submitted jobs are reported -/
  once : o.results.Nodup ∧ ∀ i ∈ o.results, i < o.jobs.length
  /-- afterwards every submitted job is in the results -/
  complete : o.complete = true → ∀ i, i < o.jobs.length → i ∈ o.results
  /-- with a terminal status -/
  terminal : ∀ i ∈ o.results, ∀ j, o.jobs[i]? = some j → TerminalLog j.log
  /-- started after the deadline / running at the deadline ⇒ CANCELLED via CANCELLING (and CANCELLING
  observed), finished before the deadline / no timeout ⇒ DONE; the returned value is kept -/
  classified : ∀ j ∈ o.jobs, j.gathered = true → j.tie = false → Classified j ∧ j.valueKept = true

theorem monotoneB_iff (l : List Status) : monotoneB l = true ↔ MonotoneLog l := by
  unfold monotoneB MonotoneLog
  simp only [Bool.or_eq_true, Bool.and_eq_true, Bool.not_eq_true', List.isEmpty_eq_false_iff,
    List.isPrefixOf_iff_prefix, beq_iff_eq, ne_eq, or_assoc]

theorem terminalB_iff (l : List Status) : terminalB l = true ↔ TerminalLog l := by
  unfold terminalB TerminalLog
  simp only [Bool.or_eq_true, beq_iff_eq]

theorem classifiedB_iff (j : JobObs) : classifiedB j = true ↔ Classified j := by
  unfold classifiedB Classified
  cases j.deadline with
  | none => simp
  | some c =>
    simp only [Bool.and_eq_true, Bool.or_eq_true, Bool.not_eq_true', decide_eq_false_iff_not,
      decide_eq_true_eq, beq_iff_eq, Bool.not_eq_eq_eq_not, Bool.not_true]
    constructor
    · rintro ⟨⟨h1, h2⟩, h3⟩
      refine ⟨fun hc => ?_, fun ha hb => ?_, fun ha hb => ?_⟩
      · rcases h1 with h | ⟨h, h'⟩
        · exact absurd hc h
        · refine ⟨h, fun hp => ?_⟩
          rcases h' with h' | h'
          · rw [hp] at h'; simp at h'
          · exact h'
      · rcases h2 with h | ⟨h, h'⟩
        · exfalso; simp only [Bool.and_eq_false_iff, decide_eq_false_iff_not] at h; omega
        · refine ⟨h, fun hp => ?_⟩
          rcases h' with h' | h'
          · rw [hp] at h'; simp at h'
          · exact h'
      · rcases h3 with h | h
        · exfalso; simp only [Bool.and_eq_false_iff, decide_eq_false_iff_not] at h; omega
        · exact h
    · rintro ⟨h1, h2, h3⟩
      refine ⟨⟨?_, ?_⟩, ?_⟩
      · by_cases hc : c < j.start
        · right
          obtain ⟨a, b⟩ := h1 hc
          refine ⟨a, ?_⟩
          cases hp : j.pollsAgain with
          | false => left; rfl
          | true => right; exact b hp
        · left; exact hc
      · by_cases hc : j.start < c ∧ c < j.natEnd
        · right
          obtain ⟨a, b⟩ := h2 hc.1 hc.2
          refine ⟨a, ?_⟩
          cases hp : j.loopRan with
          | false => left; rfl
          | true => right; exact b hp
        · left; simpa using hc
      · by_cases hc : j.ret < c ∧ j.natEnd < c
        · right; exact h3 hc.1 hc.2
        · left; simpa using hc

/-- **the checker decides the specification** -/
theorem checkStatusLog_iff (o : Obs) : checkStatusLog o = true ↔ LogSpec o := by
  unfold checkStatusLog
  simp only [Bool.and_eq_true, List.all_eq_true, monotoneB_iff, decide_eq_true_eq, Bool.or_eq_true,
    Bool.not_eq_true', List.mem_range, List.contains_iff_mem, classifiedB_iff]
  constructor
  · rintro ⟨⟨⟨⟨h1, h2⟩, h3⟩, h4⟩, h5⟩
    refine ⟨h1, h2, ?_, ?_, ?_⟩
    · intro hc i hi
      rcases h3 with h | h
      · rw [hc] at h; simp at h
      · exact h i hi
    · intro i hi j hj
      have := h4 i hi
      rw [hj] at this
      exact (terminalB_iff _).mp this
    · intro j hj hg ht
      rcases h5 j hj with (h | h) | h
      · rw [hg] at h; simp at h
      · rw [ht] at h; simp at h
      · exact h
  · rintro ⟨h1, h2, h3, h4, h5⟩
    refine ⟨⟨⟨⟨h1, h2⟩, ?_⟩, ?_⟩, ?_⟩
    · cases hc : o.complete with
      | false => left; rfl
      | true => right; exact h3 hc
    · intro i hi
      cases hj : o.jobs[i]? with
      | none => rfl
      | some j => exact (terminalB_iff _).mpr (h4 i hi j hj)
    · intro j hj
      cases hg : j.gathered with
      | false => left; left; rfl
      | true =>
        cases ht : j.tie with
        | true => left; right; rfl
        | false => right; exact h5 j hj hg ht

end DH.Timeout
