import Proofs.SpaceDim

/-! Per-dimension lemmas for C09, categorical dimensions (label, one-hot, normalize, identity). -/

namespace DH.Space

theorem getElem?_idxOf_of_mem (s : List Val) (v : Val) (h : v ∈ s) : s[s.idxOf v]? = some v := by
  have hlt := List.idxOf_lt_length_of_mem h
  rw [List.getElem?_eq_getElem hlt]
  simp [List.getElem_idxOf hlt]

theorem length_insertU_le (v : Val) : ∀ l : List Val, (insertU v l).length ≤ l.length + 1
  | [] => by simp [insertU]
  | w :: ws => by
    unfold insertU
    split
    · simp
    · split
      · simp
      · have := length_insertU_le v ws
        simp; omega

theorem length_sortU_le : ∀ l : List Val, (sortU l).length ≤ l.length
  | [] => by simp [sortU]
  | v :: vs => by
    have h1 := length_insertU_le v (sortU vs)
    have h2 := length_sortU_le vs
    simp [sortU]; omega

theorem idx_sortU_lt (cs : List Val) (v : Val) (h : v ∈ cs) : (sortU cs).idxOf v < cs.length :=
  Nat.lt_of_lt_of_le (List.idxOf_lt_length_of_mem ((mem_sortU v cs).mpr h)) (length_sortU_le cs)

theorem roundHalfEven_natCast (k : Nat) : roundHalfEven ((k : Nat) : Rat) = (k : Int) := by
  have : ((k : Nat) : Rat) = (((k : Int)) : Rat) := by simp
  rw [this, roundHalfEven_intCast]

theorem labelInvCell_idx (cs : List Val) (v : Val) (h : v ∈ cs) :
    labelInvCell (sortU cs) (((sortU cs).idxOf v : Nat) : Rat) = .ok v := by
  unfold labelInvCell
  simp only [roundHalfEven_natCast]
  have h0 : (0 : Int) ≤ (((sortU cs).idxOf v : Nat) : Int) := Int.natCast_nonneg _
  simp [getElem?_idxOf_of_mem (sortU cs) v ((mem_sortU v cs).mpr h)]

theorem mapE_labelInv (cs : List Val) : ∀ l : List Val, (∀ v ∈ l, v ∈ cs) →
    mapE (labelInvCell (sortU cs)) (l.map (fun v => (((sortU cs).idxOf v : Nat) : Rat))) = .ok l
  | [], _ => rfl
  | v :: vs, h =>
    mapE_cons_ok (labelInvCell_idx cs v (h v (by simp))) (mapE_labelInv cs vs (fun x hx => h x (by simp [hx])))

theorem label_inverse (E : Rat → Rat) (cs l : List Val) (h : ∀ v ∈ l, v ∈ cs)
    (l' : List Val) (hn : nums .typeError l' = .ok (l.map (fun v => (((sortU cs).idxOf v : Nat) : Rat)))) :
    Stage.inverse E (.labelEncoder cs) (.vals l') = .ok (.vals l) := by
  simp [Stage.inverse, hn, mapE_labelInv cs l h]

/-! ### argmax of a one-hot row -/

theorem argmaxFrom_best_one (bi : Nat) : ∀ (xs : List Rat) (i : Nat), (∀ x ∈ xs, x ≤ 1) →
    argmaxFrom 1 bi i xs = bi
  | [], _, _ => rfl
  | x :: xs, i, h => by
    have hx : ¬ (1 : Rat) < x := not_lt.mpr (h x (by simp))
    simp only [argmaxFrom, if_neg hx]
    exact argmaxFrom_best_one bi xs (i + 1) (fun y hy => h y (by simp [hy]))

theorem argmaxFrom_first_one (best : Rat) (hbest : best < 1) :
    ∀ (xs : List Rat) (bi i k : Nat), (∀ x ∈ xs, x ≤ 1) → xs[k]? = some 1 →
      (∀ j, j < k → ∀ x, xs[j]? = some x → x ≤ best) → argmaxFrom best bi i xs = i + k
  | [], _, _, k, _, hk, _ => by simp at hk
  | x :: xs, bi, i, 0, h, hk, _ => by
    simp at hk
    subst hk
    simp only [argmaxFrom, if_pos hbest]
    rw [argmaxFrom_best_one i xs (i + 1) (fun y hy => h y (by simp [hy]))]
    rfl
  | x :: xs, bi, i, k + 1, h, hk, hlt => by
    have hx : ¬ best < x := not_lt.mpr (hlt 0 (by omega) x (by simp))
    simp only [argmaxFrom, if_neg hx]
    rw [argmaxFrom_first_one best hbest xs bi (i + 1) k (fun y hy => h y (by simp [hy]))
      (by simpa using hk)
      (fun j hj y hy => hlt (j + 1) (by omega) y (by simpa using hy))]
    omega

theorem onehot_getElem? (n k j : Nat) (hj : j < n) :
    ((List.range n).map (fun j => if j = k then (1 : Rat) else 0))[j]? = some (if j = k then 1 else 0) := by
  simp [hj]

theorem argmaxFirst_onehot (n k : Nat) (hk : k < n) :
    argmaxFirst ((List.range n).map (fun j => if j = k then (1 : Rat) else 0)) = k := by
  have hall : ∀ x ∈ (List.range n).map (fun j => if j = k then (1 : Rat) else 0), x ≤ 1 := by
    intro x hx
    obtain ⟨j, _, rfl⟩ := List.mem_map.mp hx
    split <;> norm_num
  cases hrow : (List.range n).map (fun j => if j = k then (1 : Rat) else 0) with
  | nil =>
    have : ((List.range n).map (fun j => if j = k then (1 : Rat) else 0)).length = n := by simp
    rw [hrow] at this; simp at this; omega
  | cons x xs =>
    rw [hrow] at hall
    have hget : ∀ j, j < n → (x :: xs)[j]? = some (if j = k then 1 else 0) := by
      intro j hj; rw [← hrow]; exact onehot_getElem? n k j hj
    unfold argmaxFirst
    by_cases hk0 : k = 0
    · subst hk0
      have hx : x = 1 := by simpa using hget 0 hk
      subst hx
      exact argmaxFrom_best_one 0 xs 1 (fun y hy => hall y (by simp [hy]))
    · have hx : x = 0 := by
        have := hget 0 (by omega)
        simp at this
        rw [this]; simp; omega
      subst hx
      have := argmaxFrom_first_one 0 (by norm_num) xs 0 1 (k - 1)
        (fun y hy => hall y (by simp [hy]))
        (by
          have := hget k hk
          have hk' : k = (k - 1) + 1 := by omega
          rw [hk'] at this
          simpa using this)
        (by
          intro j hj y hy
          have := hget (j + 1) (by omega)
          simp only [List.getElem?_cons_succ] at this
          rw [hy] at this
          have hne : j + 1 ≠ k := by omega
          simp [hne] at this
          rw [this])
      show argmaxFrom 0 0 1 xs = k
      rw [this]; omega

theorem oneHotInv_many (c0 c1 c2 : Val) (rest : List Val) (row : List Rat) (hrow : row ≠ []) :
    oneHotInv (c0 :: c1 :: c2 :: rest) row =
      match (c0 :: c1 :: c2 :: rest)[min (argmaxFirst row) ((c0 :: c1 :: c2 :: rest).length - 1)]? with
      | some v => .ok v
      | none => .error .indexError := by
  cases row with
  | nil => exact absurd rfl hrow
  | cons x xs => rfl

theorem oneHotInv_binarize (cs : List Val) (hnd : cs.Nodup) (v : Val) (h : v ∈ cs) :
    oneHotInv cs (binarize cs.length (cs.idxOf v)) = .ok v := by
  have hlt := List.idxOf_lt_length_of_mem h
  have hget := getElem?_idxOf_of_mem cs v h
  match cs, hnd, h, hlt, hget with
  | [c], _, h, _, _ =>
    simp at h; subst h; simp [oneHotInv]
  | [c0, c1], hnd, h, _, _ =>
    have hne : c0 ≠ c1 := by
      intro he; subst he; simp at hnd
    simp at h
    rcases h with rfl | rfl
    · simp [oneHotInv, binarize]
    · have : List.idxOf v [c0, v] = 1 := by
        simp [hne]
      simp [oneHotInv, binarize, this]; norm_num
  | c0 :: c1 :: c2 :: rest, _, h, hlt, hget =>
    have hn : ¬ (c0 :: c1 :: c2 :: rest).length = 1 := by simp
    have hn2 : ¬ (c0 :: c1 :: c2 :: rest).length = 2 := by simp
    unfold binarize
    rw [if_neg hn, if_neg hn2]
    have hrow : (List.range (c0 :: c1 :: c2 :: rest).length).map
        (fun j => if j = List.idxOf v (c0 :: c1 :: c2 :: rest) then (1 : Rat) else 0) ≠ [] := by
      intro he
      have := congrArg List.length he
      simp at this
    have ham := argmaxFirst_onehot _ _ hlt
    rw [oneHotInv_many c0 c1 c2 rest _ hrow, ham, Nat.min_eq_left (by omega), hget]

theorem onehot_inverse_mat (E : Rat → Rat) (cs l : List Val) (hnd : cs.Nodup) (h : ∀ v ∈ l, v ∈ cs) :
    Stage.inverse E (.oneHot cs) (.mat (l.map (fun v => binarize cs.length (cs.idxOf v)))) =
      .ok (.vals l) := by
  have h2 : mapE (oneHotInv cs) (l.map (fun v => binarize cs.length (cs.idxOf v))) = .ok l := by
    induction l with
    | nil => rfl
    | cons v vs ih =>
      exact mapE_cons_ok (oneHotInv_binarize cs hnd v (h v (by simp))) (ih (fun x hx => h x (by simp [hx])))
  simp [Stage.inverse, h2]

/-! ### the categorical dimension as a whole -/

theorem cellT_cat_identity (L : Rat → Rat) (cs : List Val) :
    cellT L (.cat cs .identity) = fun v => [(v.toRat?).getD 0] := by
  funext v; cases v <;> rfl

theorem cellT_cat_label (L : Rat → Rat) (cs : List Val) :
    cellT L (.cat cs .label) = fun v => [(((sortU cs).idxOf v : Nat) : Rat)] := by
  funext v; cases v <;> rfl

theorem cellT_cat_onehot (L : Rat → Rat) (cs : List Val) :
    cellT L (.cat cs .onehot) = fun v => binarize cs.length (cs.idxOf v) := by
  funext v; cases v <;> rfl

theorem cellT_cat_normalize (L : Rat → Rat) (cs : List Val) :
    cellT L (.cat cs .normalize) = fun v =>
      [((((sortU cs).idxOf v : Nat) : Rat) - 0) / (((((cs.length : Int) - 1 : Int)) : Rat) - 0)] := by
  funext v; cases v <;> rfl

theorem toRows_vals_map {α : Type} (l : List α) (g : α → Val) (r : α → List Rat)
    (h : ∀ a ∈ l, rowOfVal (g a) = .ok (r a)) : (Col.vals (l.map g)).toRows = .ok (l.map r) := by
  have := mapE_ok_map (fun a => rowOfVal (g a)) r l h
  have h2 : ∀ l : List α, mapE rowOfVal (l.map g) = mapE (fun a => rowOfVal (g a)) l := by
    intro l
    induction l with
    | nil => rfl
    | cons a as ih => simp [mapE, ih]
  simp [Col.toRows, h2, this]

theorem cat_mem (cs : List Val) (t : CatTr) (l : List Val)
    (h : ∀ v ∈ l, memDim (.cat cs t) v = true) : ∀ v ∈ l, v ∈ cs := by
  intro v hv
  simpa [memDim] using h v hv

theorem cat_numeric (cs : List Val) (h : (cs.all Val.isInt || cs.all Val.isNum) = true) (v : Val)
    (hv : v ∈ cs) : rowOfVal v = .ok [(v.toRat?).getD 0] := by
  rcases Bool.or_eq_true _ _ |>.mp h with h | h
  · have := List.all_eq_true.mp h v hv
    cases v <;> simp [Val.isInt] at this
    rfl
  · have := List.all_eq_true.mp h v hv
    cases v <;> simp [Val.isNum] at this
    rfl

theorem cat_wf (cs : List Val) (t : CatTr) (h : (Dim.cat cs t).wf = true) :
    cs ≠ [] ∧ cs.Nodup ∧ (t = .identity → (cs.all Val.isInt || cs.all Val.isNum) = true) := by
  simp only [Dim.wf, Bool.and_eq_true, Bool.not_eq_true', List.isEmpty_eq_false_iff,
    decide_eq_true_eq] at h
  refine ⟨h.1.1, h.1.2, ?_⟩
  intro ht
  subst ht
  simpa using h.2

theorem cat_transform_ok (L : Rat → Rat) (cs : List Val) (t : CatTr)
    (hwf : (Dim.cat cs t).wf = true) (l : List Val) (hm : ∀ v ∈ l, v ∈ cs) :
    ∃ c, (Dim.cat cs t).transform L l = .ok c ∧
      c.toRows = .ok (l.map (cellT L (.cat cs t))) := by
  obtain ⟨hne, hnd, hid⟩ := cat_wf cs t hwf
  cases t
  · -- identity
    have hnum := hid rfl
    refine ⟨.vals l, ?_, ?_⟩
    · by_cases hall : cs.all Val.isInt = true
      · simp [Dim.transform, Dim.transformer, hall, Tr.transform, Tr.stages, runTransform, Stage.transform]
      · simp [Dim.transform, Dim.transformer, hall, Tr.transform, Tr.stages, runTransform, Stage.transform]
    · have := toRows_vals_map l (fun v => v) (fun v => [(v.toRat?).getD 0])
        (fun v hv => cat_numeric cs hnum v (hm v hv))
      simpa [cellT_cat_identity] using this
  · -- label
    refine ⟨.vals (l.map (fun v => .int ((sortU cs).idxOf v : Nat))), ?_, ?_⟩
    · exact runTransform_one L _ _ _ (label_transform L cs l hm)
    · have := toRows_vals_map l (fun v => Val.int ((sortU cs).idxOf v : Nat))
        (fun v => [(((sortU cs).idxOf v : Nat) : Rat)])
        (fun v _ => by simp [rowOfVal, Val.toRat?])
      simpa [cellT_cat_label] using this
  · -- onehot
    refine ⟨.mat (l.map (fun v => binarize cs.length (cs.idxOf v))), ?_, ?_⟩
    · exact runTransform_one L _ _ _ (onehot_transform L cs l hm)
    · simp [Col.toRows, cellT_cat_onehot]
  · -- normalize
    have hn1 : 1 ≤ cs.length := by
      cases cs with
      | nil => exact absurd rfl hne
      | cons _ _ => simp
    let is : List Int := l.map (fun v => (((sortU cs).idxOf v : Nat) : Int))
    have h1 : Stage.transform L (.labelEncoder cs) (.vals l) = .ok (.vals (is.map Val.int)) := by
      rw [label_transform L cs l hm]
      simp [is, List.map_map, Function.comp_def]
    have hhi : (0 : Rat) ≤ ((((cs.length : Int) - 1 : Int)) : Rat) := by
      have : (0 : Int) ≤ (cs.length : Int) - 1 := by omega
      exact_mod_cast this
    have h2 := normalize_int_transform L 0 ((((cs.length : Int) - 1 : Int)) : Rat) is hhi (by
      intro i hi
      obtain ⟨v, hv, rfl⟩ := List.mem_map.mp hi
      have hlt := idx_sortU_lt cs v (hm v hv)
      constructor
      · exact_mod_cast Int.natCast_nonneg _
      · have : (((sortU cs).idxOf v : Nat) : Int) ≤ (cs.length : Int) - 1 := by omega
        exact_mod_cast this)
    refine ⟨_, runTransform_two L _ _ _ _ _ h1 h2, ?_⟩
    have := toRows_vals_num_int is
      (fun i => ((i : Rat) - 0) / (((((cs.length : Int) - 1 : Int)) : Rat) - 0))
    rw [this]
    simp [is, List.map_map, Function.comp_def, cellT_cat_normalize]

theorem normalize_cat_cell (n k : Nat) (hk : k < n) :
    roundHalfEven ((((k : Nat) : Rat) - 0) / (((((n : Int) - 1 : Int)) : Rat) - 0) *
      (((((n : Int) - 1 : Int)) : Rat) - 0) + 0) = (k : Int) := by
  by_cases h1 : n = 1
  · subst h1
    have : k = 0 := by omega
    subst this
    simp
    exact roundHalfEven_intCast 0
  · have hne : ((((n : Int) - 1 : Int)) : Rat) ≠ 0 := by
      have : (n : Int) - 1 ≠ 0 := by omega
      exact_mod_cast this
    have : (((k : Nat) : Rat) - 0) / (((((n : Int) - 1 : Int)) : Rat) - 0) *
        (((((n : Int) - 1 : Int)) : Rat) - 0) + 0 = ((k : Nat) : Rat) := by
      simp only [sub_zero, add_zero]
      field_simp
    rw [this, roundHalfEven_natCast]

theorem normalize_cat_range (n k : Nat) (hk : k < n) :
    0 ≤ (((k : Nat) : Rat) - 0) / (((((n : Int) - 1 : Int)) : Rat) - 0) ∧
      (((k : Nat) : Rat) - 0) / (((((n : Int) - 1 : Int)) : Rat) - 0) ≤ 1 := by
  by_cases h1 : n = 1
  · subst h1
    simp
  · have hpos : (0 : Rat) < ((((n : Int) - 1 : Int)) : Rat) := by
      have : (0 : Int) < (n : Int) - 1 := by omega
      exact_mod_cast this
    have hk' : ((k : Nat) : Rat) ≤ ((((n : Int) - 1 : Int)) : Rat) := by
      have : ((k : Nat) : Int) ≤ (n : Int) - 1 := by omega
      exact_mod_cast this
    have hk0 : (0 : Rat) ≤ ((k : Nat) : Rat) := by positivity
    simp only [sub_zero]
    exact ⟨div_nonneg hk0 (le_of_lt hpos), (div_le_one hpos).mpr hk'⟩

/-- for one or two categories the binarized row is a single number -/
def bin1 (n k : Nat) : Rat := if n = 1 then 0 else if k = 1 then 1 else 0

theorem binarize_small (n k : Nat) (h : n = 1 ∨ n = 2) : binarize n k = [bin1 n k] := by
  rcases h with rfl | rfl <;> simp [binarize, bin1]

theorem mapE_oneHotInv_small (cs : List Val) (hnd : cs.Nodup) (hn : cs.length = 1 ∨ cs.length = 2) :
    ∀ l : List Val, (∀ v ∈ l, v ∈ cs) →
      mapE (fun x => oneHotInv cs [x]) (l.map (fun v => bin1 cs.length (cs.idxOf v))) = .ok l
  | [], _ => rfl
  | v :: vs, h => by
    have h1 := oneHotInv_binarize cs hnd v (h v (by simp))
    rw [binarize_small _ _ hn] at h1
    exact mapE_cons_ok h1 (mapE_oneHotInv_small cs hnd hn vs (fun x hx => h x (by simp [hx])))

theorem cat_inverse_ok (L E : Rat → Rat) (cs : List Val) (t : CatTr)
    (hwf : (Dim.cat cs t).wf = true) (l : List Val) (hm : ∀ v ∈ l, v ∈ cs) :
    (Dim.cat cs t).inverseTransform L E
      (reslice (Dim.cat cs t).transformedSize (l.map (cellT L (.cat cs t)))) = .ok l := by
  obtain ⟨hne, hnd, hid⟩ := cat_wf cs t hwf
  have hn1 : 1 ≤ cs.length := by
    cases cs with
    | nil => exact absurd rfl hne
    | cons _ _ => simp
  cases t
  · -- identity
    have hnum := hid rfl
    by_cases hall : cs.all Val.isInt = true
    · -- integer categories: `Identity(type_func=int)`
      have hint : ∀ v ∈ l, ∃ i : Int, v = Val.int i := by
        intro v hv
        have := List.all_eq_true.mp hall v (hm v hv)
        cases v <;> simp [Val.isInt] at this
        exact ⟨_, rfl⟩
      have hl : ∃ is : List Int, l = is.map Val.int := by
        clear hm
        induction l with
        | nil => exact ⟨[], rfl⟩
        | cons v vs ih =>
          obtain ⟨i, rfl⟩ := hint v (by simp)
          obtain ⟨is, rfl⟩ := ih (fun x hx => hint x (by simp [hx]))
          exact ⟨i :: is, rfl⟩
      obtain ⟨is, rfl⟩ := hl
      have hs : reslice (Dim.cat cs .identity).transformedSize
          ((is.map Val.int).map (cellT L (.cat cs .identity))) =
          .vals (is.map (fun (i : Int) => Val.num (i : Rat))) := by
        simp [reslice, Dim.transformedSize, cellT_cat_identity, List.map_map, Function.comp_def,
          flatten_map_singleton, Val.toRat?]
      have ht : ((Dim.cat cs .identity).transformer L).inverse E
          (.vals (is.map (fun (i : Int) => Val.num (i : Rat)))) = .ok (.vals (is.map Val.int)) := by
        simp only [Dim.transformer, hall, if_true]
        exact runInverse_one E _ _ _ (identityTyped_inverse E is)
      rw [hs, inverseTransform_cat L E cs _ _ _ ht]
    · -- float categories: `Identity()`
      have hnum' : cs.all Val.isNum = true := by
        rcases Bool.or_eq_true _ _ |>.mp hnum with h | h
        · exact absurd h hall
        · exact h
      have hq : ∀ v ∈ l, Val.num ((v.toRat?).getD 0) = v := by
        intro v hv
        have := List.all_eq_true.mp hnum' v (hm v hv)
        cases v <;> simp [Val.isNum] at this
        rfl
      have hs : reslice (Dim.cat cs .identity).transformedSize
          (l.map (cellT L (.cat cs .identity))) = .vals l := by
        simp only [reslice, Dim.transformedSize, cellT_cat_identity, if_true, flatten_map_singleton,
          List.map_map, Function.comp_def]
        congr 1
        conv => rhs; rw [← List.map_id l]
        exact List.map_congr_left (fun v hv => hq v hv)
      have ht : ((Dim.cat cs .identity).transformer L).inverse E (.vals l) = .ok (.vals l) := by
        simp only [Dim.transformer, hall]
        exact runInverse_one E _ _ _ (identity_inverse E _)
      rw [hs, inverseTransform_cat L E cs _ _ _ ht]
  · -- label
    have hs : reslice (Dim.cat cs .label).transformedSize (l.map (cellT L (.cat cs .label))) =
        .vals ((l.map (fun v => (((sortU cs).idxOf v : Nat) : Rat))).map Val.num) := by
      simp [reslice, Dim.transformedSize, cellT_cat_label, List.map_map, Function.comp_def,
        flatten_map_singleton]
    have ht : ((Dim.cat cs .label).transformer L).inverse E
        (.vals ((l.map (fun v => (((sortU cs).idxOf v : Nat) : Rat))).map Val.num)) = .ok (.vals l) :=
      runInverse_one E _ _ _ (label_inverse E cs l hm _ (nums_map_num _ _))
    rw [hs, inverseTransform_cat L E cs _ _ _ ht]
  · -- onehot
    by_cases h3 : cs.length = 1 ∨ cs.length = 2
    · have hsize : (Dim.cat cs .onehot).transformedSize = 1 := by
        rcases h3 with h | h <;> simp [Dim.transformedSize, h]
      have hs : reslice (Dim.cat cs .onehot).transformedSize (l.map (cellT L (.cat cs .onehot))) =
          .vals ((l.map (fun v => bin1 cs.length (cs.idxOf v))).map Val.num) := by
        rw [hsize]
        simp [reslice, cellT_cat_onehot, binarize_small _ _ h3, List.map_map, Function.comp_def,
          flatten_map_singleton]
      have hlen : ¬ 3 ≤ cs.length := by omega
      have ht : ((Dim.cat cs .onehot).transformer L).inverse E
          (.vals ((l.map (fun v => bin1 cs.length (cs.idxOf v))).map Val.num)) = .ok (.vals l) := by
        apply runInverse_one
        simp only [Stage.inverse, nums_map_num]
        rw [if_neg hlen, mapE_oneHotInv_small cs hnd h3 l hm]
      rw [hs, inverseTransform_cat L E cs _ _ _ ht]
    · have hsize : (Dim.cat cs .onehot).transformedSize = cs.length := by
        have : ¬ cs.length = 2 := by omega
        simp [Dim.transformedSize, this]
      have hs : reslice (Dim.cat cs .onehot).transformedSize (l.map (cellT L (.cat cs .onehot))) =
          .mat (l.map (fun v => binarize cs.length (cs.idxOf v))) := by
        rw [hsize]
        have : ¬ cs.length = 1 := by omega
        simp [reslice, this, cellT_cat_onehot]
      have ht : ((Dim.cat cs .onehot).transformer L).inverse E
          (.mat (l.map (fun v => binarize cs.length (cs.idxOf v)))) = .ok (.vals l) :=
        runInverse_one E _ _ _ (onehot_inverse_mat E cs l hnd hm)
      rw [hs, inverseTransform_cat L E cs _ _ _ ht]
  · -- normalize
    have hs : reslice (Dim.cat cs .normalize).transformedSize (l.map (cellT L (.cat cs .normalize))) =
        .vals ((l.map (fun v => ((((sortU cs).idxOf v : Nat) : Rat) - 0) /
          (((((cs.length : Int) - 1 : Int)) : Rat) - 0))).map Val.num) := by
      simp [reslice, Dim.transformedSize, cellT_cat_normalize, List.map_map, Function.comp_def,
        flatten_map_singleton]
    have h1 := normalize_inverse E 0 ((((cs.length : Int) - 1 : Int)) : Rat) true
      (l.map (fun v => ((((sortU cs).idxOf v : Nat) : Rat) - 0) /
          (((((cs.length : Int) - 1 : Int)) : Rat) - 0))) (by
      intro t ht
      obtain ⟨v, hv, rfl⟩ := List.mem_map.mp ht
      exact normalize_cat_range cs.length _ (idx_sortU_lt cs v (hm v hv)))
    have h2 : (l.map (fun v => ((((sortU cs).idxOf v : Nat) : Rat) - 0) /
          (((((cs.length : Int) - 1 : Int)) : Rat) - 0))).map (fun t =>
        if true = true then Val.int (roundHalfEven (t * (((((cs.length : Int) - 1 : Int)) : Rat) - 0) + 0))
        else Val.num (t * (((((cs.length : Int) - 1 : Int)) : Rat) - 0) + 0)) =
        (l.map (fun v => (((sortU cs).idxOf v : Nat) : Int))).map Val.int := by
      rw [List.map_map, List.map_map]
      apply List.map_congr_left
      intro v hv
      simp only [Function.comp_def, if_true]
      rw [normalize_cat_cell cs.length _ (idx_sortU_lt cs v (hm v hv))]
    rw [h2] at h1
    have hn : nums .typeError ((l.map (fun v => (((sortU cs).idxOf v : Nat) : Int))).map Val.int) =
        .ok (l.map (fun v => (((sortU cs).idxOf v : Nat) : Rat))) := by
      rw [nums_map_int, List.map_map]
      simp [Function.comp_def]
    have ht : ((Dim.cat cs .normalize).transformer L).inverse E
        (.vals ((l.map (fun v => ((((sortU cs).idxOf v : Nat) : Rat) - 0) /
          (((((cs.length : Int) - 1 : Int)) : Rat) - 0))).map Val.num)) = .ok (.vals l) :=
      runInverse_two E _ _ _ _ _ h1 (label_inverse E cs l hm _ hn)
    rw [hs, inverseTransform_cat L E cs _ _ _ ht]

end DH.Space
