import Proofs.Sampling

/-! C10: the laws of the log-uniform samplers as statements about pre-image intervals. -/

namespace DH.Space

/-! ### rounding: the cell of an integer -/

theorem roundHalfEven_close (x : Rat) :
    ((roundHalfEven x : Int) : Rat) - 1 / 2 ≤ x ∧ x ≤ ((roundHalfEven x : Int) : Rat) + 1 / 2 := by
  have h1 := Rat.floor_le x
  have h2 := Rat.lt_floor_add_one x
  have h2' : x < (x.floor : Rat) + 1 := by simpa using h2
  unfold roundHalfEven
  simp only
  split
  · rename_i h
    constructor <;> linarith
  · split
    · rename_i h _
      push_cast
      constructor <;> linarith
    · rename_i h3 h4
      have he : x - (x.floor : Rat) = 1 / 2 := le_antisymm (not_lt.mp h4) (not_lt.mp h3)
      split
      · constructor <;> linarith
      · push_cast
        constructor <;> linarith

/-- every value strictly inside `(k - 1/2, k + 1/2)` rounds to `k` -/
theorem roundHalfEven_open (x : Rat) (k : Int) (h1 : (k : Rat) - 1 / 2 < x) (h2 : x < (k : Rat) + 1 / 2) :
    roundHalfEven x = k := by
  obtain ⟨c1, c2⟩ := roundHalfEven_close x
  have a : ((roundHalfEven x : Int) : Rat) < (k : Rat) + 1 := by linarith
  have b : (k : Rat) < ((roundHalfEven x : Int) : Rat) + 1 := by linarith
  have a' : roundHalfEven x < k + 1 := by exact_mod_cast a
  have b' : k < roundHalfEven x + 1 := by exact_mod_cast b
  omega

theorem mono_of_strict (L : Rat → Rat) (hS : StrictMonoOn L) (x y : Rat) (hx : 0 < x) (hxy : x ≤ y) :
    L x ≤ L y := by
  rcases lt_or_eq_of_le hxy with h | h
  · exact le_of_lt (hS x y hx h)
  · rw [h]

theorem lt_of_L_lt (L : Rat → Rat) (hS : StrictMonoOn L) (x y : Rat) (hy : 0 < y) (h : L x < L y) : x < y := by
  by_contra hc
  have := mono_of_strict L hS y x hy (not_lt.mp hc)
  exact absurd h (not_lt.mpr this)

theorem le_of_L_le (L : Rat → Rat) (hS : StrictMonoOn L) (x y : Rat) (hy : 0 < y) (h : L x ≤ L y) : x ≤ y := by
  by_contra hc
  have := hS y x hy (not_le.mp hc)
  exact absurd h (not_le.mpr this)

/-! ### what the log samplers compute -/

theorem sample_real_log_identity (L E : Rat → Rat) (lo hi : Rat) (prior : Option (List Rat)) (u s : Rat) :
    sampleDim L E (.real lo hi .logUniform .identity) prior (.u u s) =
      .ok (.num (clip lo hi (E (L lo + u * s)))) := by
  have hl := logN_inverse E [L lo + u * s]
  have ht : ((Dim.real lo hi .logUniform .identity).transformer L).inverse E (.vals [.num (L lo + u * s)]) =
      .ok (.vals [.num (E (L lo + u * s))]) := runInverse_one E _ _ _ (by simpa using hl)
  have h := inverse_single_real L E lo hi .logUniform .identity _ _ ht
  simp only [sampleDim, rvsTransformed, h]

theorem sample_real_log_normalize (L E : Rat → Rat) (lo hi : Rat) (prior : Option (List Rat)) (u s : Rat)
    (h0 : 0 ≤ u * s) (h1 : u * s ≤ 1) :
    sampleDim L E (.real lo hi .logUniform .normalize) prior (.u u s) =
      .ok (.num (clip lo hi (E (L lo + u * s * (L hi - L lo))))) := by
  have hn := normalize_inverse E (L lo) (L hi) false [0 + u * s] (by
    intro x hx; simp at hx; subst hx; constructor <;> linarith)
  simp only [List.map_cons, List.map_nil] at hn
  have hl := logN_inverse E [(0 + u * s) * (L hi - L lo) + L lo]
  have ht : ((Dim.real lo hi .logUniform .normalize).transformer L).inverse E (.vals [.num (0 + u * s)]) =
      .ok (.vals [.num (E ((0 + u * s) * (L hi - L lo) + L lo))]) :=
    runInverse_two E _ _ _ _ _ (by simpa using hn) (by simpa using hl)
  have h := inverse_single_real L E lo hi .logUniform .normalize _ _ ht
  have e : (0 + u * s) * (L hi - L lo) + L lo = L lo + u * s * (L hi - L lo) := by ring
  simp only [sampleDim, rvsTransformed, h, e]

theorem sample_int_log_identity (L E : Rat → Rat) (lo hi : Int) (prior : Option (List Rat)) (u s : Rat) :
    sampleDim L E (.int lo hi .logUniform .identity) prior (.u u s) =
      .ok (.int (roundHalfEven (clip (lo : Rat) (hi : Rat) (E (L (lo : Rat) + u * s))))) := by
  have hl := logN_inverse E [L (lo : Rat) + u * s]
  have ht : ((Dim.int lo hi .logUniform .identity).transformer L).inverse E (.vals [.num (L (lo : Rat) + u * s)]) =
      .ok (.vals [.num (E (L (lo : Rat) + u * s))]) := runInverse_one E _ _ _ (by simpa using hl)
  have h := inverse_single_int L E lo hi .logUniform .identity _ (.num (E (L (lo : Rat) + u * s))) _ rfl ht
  simp only [sampleDim, rvsTransformed, h]

theorem sample_int_log_normalize (L E : Rat → Rat) (lo hi : Int) (prior : Option (List Rat)) (u s : Rat)
    (h0 : 0 ≤ u * s) (h1 : u * s ≤ 1) :
    sampleDim L E (.int lo hi .logUniform .normalize) prior (.u u s) =
      .ok (.int (roundHalfEven (clip (lo : Rat) (hi : Rat)
        (E (L (lo : Rat) + u * s * (L (hi : Rat) - L (lo : Rat))))))) := by
  have hn := normalize_inverse E (L (lo : Rat)) (L (hi : Rat)) false [0 + u * s] (by
    intro x hx; simp at hx; subst hx; constructor <;> linarith)
  simp only [List.map_cons, List.map_nil] at hn
  have hl := logN_inverse E [(0 + u * s) * (L (hi : Rat) - L (lo : Rat)) + L (lo : Rat)]
  have ht : ((Dim.int lo hi .logUniform .normalize).transformer L).inverse E (.vals [.num (0 + u * s)]) =
      .ok (.vals [.num (E ((0 + u * s) * (L (hi : Rat) - L (lo : Rat)) + L (lo : Rat)))]) :=
    runInverse_two E _ _ _ _ _ (by simpa using hn) (by simpa using hl)
  have h := inverse_single_int L E lo hi .logUniform .normalize _
    (.num (E ((0 + u * s) * (L (hi : Rat) - L (lo : Rat)) + L (lo : Rat)))) _ rfl ht
  have e : (0 + u * s) * (L (hi : Rat) - L (lo : Rat)) + L (lo : Rat) =
      L (lo : Rat) + u * s * (L (hi : Rat) - L (lo : Rat)) := by ring
  simp only [sampleDim, rvsTransformed, h, e]

/-- the cell argument shared by both transforms: `a` is the exponent handed to `E` -/
theorem int_log_cell (L E : Rat → Rat) (hS : StrictMonoOn L) (lo hi : Int) (hpos : 0 < lo) (hlt : lo < hi)
    (hR : RightInvOn L E (L (lo : Rat)) (L (hi : Rat))) (a : Rat) (h1 : L (lo : Rat) ≤ a) (h2 : a ≤ L (hi : Rat))
    (k : Int) (hk : lo ≤ k ∧ k ≤ hi) :
    (L (flatCell lo hi k).1 < a → a < L (flatCell lo hi k).2 →
      roundHalfEven (clip (lo : Rat) (hi : Rat) (E a)) = k) ∧
    (roundHalfEven (clip (lo : Rat) (hi : Rat) (E a)) = k →
      L (flatCell lo hi k).1 ≤ a ∧ a ≤ L (flatCell lo hi k).2) := by
  have hposq : (0 : Rat) < (lo : Rat) := by exact_mod_cast hpos
  have hlh : (lo : Rat) ≤ (hi : Rat) := by exact_mod_cast le_of_lt hlt
  have hE := E_in_range L E hS lo hi hposq hlh hR a h1 h2
  obtain ⟨hLE, hEpos⟩ := hR a h1 h2
  rw [clip_id _ _ _ hE.1 hE.2]
  have hk1 : (lo : Rat) ≤ (k : Rat) := by exact_mod_cast hk.1
  have hk2 : (k : Rat) ≤ (hi : Rat) := by exact_mod_cast hk.2
  have hc1pos : 0 < (flatCell lo hi k).1 := by
    unfold flatCell; simp only
    split <;> linarith
  have hc2pos : 0 < (flatCell lo hi k).2 := by
    unfold flatCell; simp only
    split <;> linarith
  constructor
  · intro ha1 ha2
    rw [← hLE] at ha1 ha2
    have x1 := lt_of_L_lt L hS _ _ hEpos ha1
    have x2 := lt_of_L_lt L hS _ _ hc2pos ha2
    apply roundHalfEven_open
    · unfold flatCell at x1; simp only at x1
      split at x1 <;> linarith
    · unfold flatCell at x2; simp only at x2
      split at x2 <;> linarith
  · intro hr
    obtain ⟨c1, c2⟩ := roundHalfEven_close (E a)
    rw [hr] at c1 c2
    have y1 : (flatCell lo hi k).1 ≤ E a := by
      unfold flatCell; simp only
      split
      · exact hE.1
      · exact c1
    have y2 : E a ≤ (flatCell lo hi k).2 := by
      unfold flatCell; simp only
      split
      · exact hE.2
      · exact c2
    rw [← hLE]
    exact ⟨mono_of_strict L hS _ _ hc1pos y1, mono_of_strict L hS _ _ hEpos y2⟩

/-! ### ConfigSpace's quantisation -/

theorem csQuantize_cell (lo hi : Int) (hlt : lo < hi) (x : Rat) (hx1 : (lo : Rat) ≤ x) (hx2 : x ≤ (hi : Rat))
    (j : Int) (hj0 : 0 ≤ j) (hj1 : j ≤ hi - lo) :
    csQuantize lo hi x = lo + j ↔
      (csCell lo hi j).1 ≤ x ∧ (x < (csCell lo hi j).2 ∨ j = hi - lo) := by
  have hd : (0 : Rat) < (hi : Rat) - (lo : Rat) := by
    have : (lo : Rat) < (hi : Rat) := by exact_mod_cast hlt
    linarith
  have hb : (0 : Rat) < (((hi - lo + 1 : Int)) : Rat) := by
    have : (0 : Int) < hi - lo + 1 := by omega
    exact_mod_cast this
  -- y = unit-normalised x times the number of bins
  set y : Rat := (x - (lo : Rat)) / ((hi : Rat) - (lo : Rat)) * (((hi - lo + 1 : Int)) : Rat) with hy
  have hy0 : 0 ≤ y := by
    apply mul_nonneg
    · apply div_nonneg <;> linarith
    · exact le_of_lt hb
  have hfl0 : 0 ≤ y.floor := Rat.le_floor_iff.mpr (by simpa using hy0)
  -- the two cell inequalities in terms of y
  have e1 : (csCell lo hi j).1 ≤ x ↔ (j : Rat) ≤ y := by
    unfold csCell; simp only
    rw [hy, div_mul_eq_mul_div, le_div_iff₀ hd]
    constructor
    · intro h
      have := mul_le_mul_of_nonneg_right h (le_of_lt hb)
      have e : ((lo : Rat) + (j : Rat) * (((hi : Rat) - (lo : Rat)) / (((hi - lo + 1 : Int)) : Rat))) *
          (((hi - lo + 1 : Int)) : Rat) = (lo : Rat) * (((hi - lo + 1 : Int)) : Rat) + (j : Rat) * ((hi : Rat) - (lo : Rat)) := by
        field_simp
      rw [e] at this
      linarith
    · intro h
      have e : (lo : Rat) + (j : Rat) * (((hi : Rat) - (lo : Rat)) / (((hi - lo + 1 : Int)) : Rat)) =
          ((lo : Rat) * (((hi - lo + 1 : Int)) : Rat) + (j : Rat) * ((hi : Rat) - (lo : Rat))) / (((hi - lo + 1 : Int)) : Rat) := by
        field_simp
      rw [e, div_le_iff₀ hb]
      linarith
  have e2 : x < (csCell lo hi j).2 ↔ y < (j : Rat) + 1 := by
    unfold csCell; simp only
    rw [hy, div_mul_eq_mul_div, div_lt_iff₀ hd]
    constructor
    · intro h
      have := mul_lt_mul_of_pos_right h hb
      have e : ((lo : Rat) + ((j : Rat) + 1) * (((hi : Rat) - (lo : Rat)) / (((hi - lo + 1 : Int)) : Rat))) *
          (((hi - lo + 1 : Int)) : Rat) = (lo : Rat) * (((hi - lo + 1 : Int)) : Rat) + ((j : Rat) + 1) * ((hi : Rat) - (lo : Rat)) := by
        field_simp
      rw [e] at this
      linarith
    · intro h
      have e : (lo : Rat) + ((j : Rat) + 1) * (((hi : Rat) - (lo : Rat)) / (((hi - lo + 1 : Int)) : Rat)) =
          ((lo : Rat) * (((hi - lo + 1 : Int)) : Rat) + ((j : Rat) + 1) * ((hi : Rat) - (lo : Rat))) / (((hi - lo + 1 : Int)) : Rat) := by
        field_simp
      rw [e, lt_div_iff₀ hb]
      linarith
  have f1 : (j : Rat) ≤ y ↔ j ≤ y.floor := Rat.le_floor_iff.symm
  have f2 : y < (j : Rat) + 1 ↔ y.floor < j + 1 := by
    have := @Rat.floor_lt_iff y (j + 1)
    rw [this]; push_cast; rfl
  rw [e1, e2, f1, f2]
  unfold csQuantize
  simp only
  rw [← hy]
  have hneg : ¬ y.floor < 0 := by omega
  rw [if_neg hneg]
  by_cases hbig : hi - lo + 1 - 1 < y.floor
  · rw [if_pos hbig]
    constructor
    · intro h
      have : j = hi - lo := by omega
      exact ⟨by omega, Or.inr this⟩
    · intro ⟨_, h⟩
      rcases h with h | h
      · omega
      · omega
  · rw [if_neg hbig]
    constructor
    · intro h
      have : y.floor = j := by omega
      exact ⟨by omega, Or.inl (by omega)⟩
    · intro ⟨h1, h⟩
      rcases h with h | h
      · omega
      · omega

end DH.Space
