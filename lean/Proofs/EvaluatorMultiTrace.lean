import Model.EvaluatorMultiTrace
import Proofs.EvaluatorMultiThm
import Proofs.EvaluatorMultiFacts

/-!
Every trace an observer reads off the multi-evaluator model satisfies `MTraceSpec` (`mTraceOf_ok`): the
observer's accumulator `MAcc` agrees with the system (`MAccRel`), and every observed call satisfies `MStepOk`.
Core Lean only.
-/

namespace DH.Evaluator

variable {C O : Type}

/-! ### rows by position -/

theorem rows_getElem {rows : List (Row C O)} (hids : rows.map (·.id) = List.range rows.length) {r : Row C O}
    (hr : r ∈ rows) : rows[r.id]? = some r := by
  obtain ⟨k, hk, hrk⟩ := List.mem_iff_getElem.1 hr
  have h1 : (rows.map (·.id))[k]? = some r.id := by simp [hk, hrk]
  rw [hids, List.getElem?_range hk] at h1
  have : r.id = k := (Option.some.inj h1).symm
  rw [this]; simp [hk, hrk]

theorem rows_map_getElem {β : Type} {rows : List (Row C O)} (hids : rows.map (·.id) = List.range rows.length)
    {r : Row C O} (hr : r ∈ rows) (f : Row C O → β) : (rows.map f)[r.id]? = some (f r) := by
  rw [List.getElem?_map, rows_getElem hids hr]; rfl

theorem count_owner {p : MParams C O} {n : Nat} {sys : Sys C O} (h : SInv p n sys) {who : Nat} {me : MEv C O}
    (hme : sys.evs[who]? = some me) : (sys.rows.map (·.owner)).count who = me.jobs.length := by
  have hev := h.ev who me hme
  obtain ⟨s, _, hr⟩ := hev.sim
  rw [List.count_eq_countP, List.countP_map, List.countP_eq_length_filter]
  have : sys.rows.filter ((fun x => x == who) ∘ fun r : Row C O => r.owner) = ownRows sys.rows me.jobs := by
    unfold ownRows
    apply List.filter_congr
    intro r hr'
    have := hev.own r hr'
    simp only [Function.comp, List.contains_eq_mem]
    rw [Bool.eq_iff_iff]
    simpa using this
  rw [this]
  have := congrArg List.length hr.ownIds
  simpa using this

/-! ### the observer's accumulator agrees with the system -/

structure EAccRel (rows : List (Row C O)) (e : EAcc C O) (me : MEv C O) : Prop where
  del : e.delivered = me.delivered
  recIds : e.recs.map (·.id) = me.delivered.map (·.1)
  recRow : ∀ j ∈ e.recs, ∃ r ∈ rows, recOf r = j ∧ activeRow r = false
  rep : e.reported = me.reported
  pend : e.pending = me.jobsDone
  off : e.offset = me.offset
  cap : e.cap = me.maxSub

structure MAccRel (a : MAcc C O) (sys : Sys C O) : Prop where
  cfgs : a.cfgs = sys.rows.map (·.cfg)
  owners : a.owners = sys.rows.map (·.owner)
  len : a.evs.length = sys.evs.length
  ev : ∀ (who : Nat) (me : MEv C O), sys.evs[who]? = some me → EAccRel sys.rows (a.ev who) me

theorem MAccRel.init (n : Nat) : MAccRel (MAcc.init n : MAcc C O) (Sys.init n) := by
  refine ⟨rfl, rfl, by simp [MAcc.init, Sys.init], ?_⟩
  intro who me hme
  have hm : me = MEv.init := by
    simp only [Sys.init] at hme
    rw [List.getElem?_replicate] at hme
    split at hme
    · simpa using hme.symm
    · simp at hme
  have he : (MAcc.init n : MAcc C O).ev who = EAcc.init := by
    unfold MAcc.ev MAcc.init
    simp only [List.getD_eq_getElem?_getD, List.getElem?_replicate]
    split <;> rfl
  rw [he, hm]
  refine ⟨rfl, rfl, by simp [EAcc.init], rfl, rfl, rfl, rfl⟩

theorem MAccRel.inflight {p : MParams C O} {n : Nat} {sys : Sys C O} {a : MAcc C O} (h : SInv p n sys)
    (hrel : MAccRel a sys) {who : Nat} {me : MEv C O} (hme : sys.evs[who]? = some me) :
    a.inflight who = me.running.length := by
  obtain ⟨s, hs, hr⟩ := (h.ev who me hme).sim
  obtain ⟨hi, _, _⟩ := reach_good hs
  unfold MAcc.inflight
  rw [hrel.owners, count_owner h hme, (hrel.ev who me hme).del]
  have h4 : s.submitted.length + s.delivered.length = s.nextId := by
    have := hi.part.length_eq; simpa using this
  have h5 : s.running.length = s.submitted.length := by rw [← hi.runSub]; simp
  have e1 : me.jobs.length = s.nextId := hr.n.symm
  have e2 : me.running.length = s.running.length := hr.runLen
  have e3 : me.delivered.length = s.delivered.length := by rw [← hr.delivered]; simp
  omega

theorem MAccRel.room {sys : Sys C O} {a : MAcc C O} (hrel : MAccRel a sys) {who : Nat} {me : MEv C O}
    (hme : sys.evs[who]? = some me) (k : Nat) : a.room who k = mRoom sys.rows me k := by
  unfold MAcc.room mRoom mNumSubmitted
  simp only [(hrel.ev who me hme).cap, (hrel.ev who me hme).off, hrel.cfgs, List.length_map]

theorem mem_foreignRecs {a : MAcc C O} {who : Nat} {j : JobRec C O} :
    j ∈ a.foreignRecs who ↔ ∃ w, w < a.evs.length ∧ w ≠ who ∧ j ∈ (a.ev w).recs := by
  unfold MAcc.foreignRecs
  simp only [List.mem_flatMap, List.mem_range]
  constructor
  · rintro ⟨w, hw, hj⟩
    by_cases e : w = who
    · rw [if_pos e] at hj; simp at hj
    · rw [if_neg e] at hj; exact ⟨w, hw, e, hj⟩
  · rintro ⟨w, hw, e, hj⟩
    exact ⟨w, hw, by rw [if_neg e]; exact hj⟩

theorem MAcc.ev_set_self (a : MAcc C O) (who : Nat) (e : EAcc C O) (h : who < a.evs.length) :
    (setEv a who e).ev who = e := by
  unfold MAcc.ev setEv
  simp [List.getD_eq_getElem?_getD, List.getElem?_set_self h]

theorem MAcc.ev_set_ne (a : MAcc C O) {who w : Nat} (e : EAcc C O) (h : who ≠ w) :
    (setEv a who e).ev w = a.ev w := by
  unfold MAcc.ev setEv
  simp [List.getD_eq_getElem?_getD, List.getElem?_set_ne h]

theorem EAccRel.frame {rows rows' : List (Row C O)} {e : EAcc C O} {me : MEv C O} (h : EAccRel rows e me)
    (hfrozen : ∀ r ∈ rows, activeRow r = false → r ∈ rows') : EAccRel rows' e me :=
  ⟨h.del, h.recIds, fun j hj => by
    obtain ⟨r, hr, a, b⟩ := h.recRow j hj
    exact ⟨r, hfrozen r hr b, a, b⟩, h.rep, h.pend, h.off, h.cap⟩

theorem getD_of_getElem? {α : Type} {l : List α} {i : Nat} {a d : α} (h : l[i]? = some a) : l.getD i d = a := by
  rw [List.getD_eq_getElem?_getD, h]; rfl

/-- the accumulator after a call of `who`: only `who`'s part has to be re-established -/
theorem MAccRel.after {sys sys' : Sys C O} {a : MAcc C O} (hrel : MAccRel a sys)
    {who : Nat} {me' : MEv C O} {e' : EAcc C O} (cfgs' : List C) (owners' : List Nat)
    (hwho : who < a.evs.length)
    (hevs : ∀ j, j ≠ who → sys'.evs[j]? = sys.evs[j]?) (hme' : sys'.evs[who]? = some me')
    (hlen : sys'.evs.length = sys.evs.length)
    (hfrozen : ∀ r ∈ sys.rows, activeRow r = false → r ∈ sys'.rows)
    (hc : cfgs' = sys'.rows.map (·.cfg)) (ho : owners' = sys'.rows.map (·.owner))
    (he : EAccRel sys'.rows e' me') :
    MAccRel { cfgs := cfgs', owners := owners', evs := a.evs.set who e' } sys' := by
  refine ⟨hc, ho, by simp [hrel.len, hlen], ?_⟩
  intro w mw hw
  by_cases hww : w = who
  · subst hww
    rw [hme'] at hw
    have : mw = me' := (Option.some.inj hw).symm
    subst this
    have : ({ cfgs := cfgs', owners := owners', evs := a.evs.set w e' } : MAcc C O).ev w = e' := by
      unfold MAcc.ev
      simp [List.getD_eq_getElem?_getD, List.getElem?_set_self hwho]
    rw [this]; exact he
  · rw [hevs w hww] at hw
    have : ({ cfgs := cfgs', owners := owners', evs := a.evs.set who e' } : MAcc C O).ev w = a.ev w := by
      unfold MAcc.ev
      simp [List.getD_eq_getElem?_getD, List.getElem?_set_ne (fun e => hww e.symm)]
    rw [this]
    exact (hrel.ev w mw hw).frame hfrozen

/-- the same, for any new accumulator that only changed `who`'s part -/
theorem MAccRel.after' {sys sys' : Sys C O} {a a' : MAcc C O} (hrel : MAccRel a sys)
    {who : Nat} {me' : MEv C O}
    (hlen' : a'.evs.length = a.evs.length) (hne : ∀ w, w ≠ who → a'.ev w = a.ev w)
    (hevs : ∀ j, j ≠ who → sys'.evs[j]? = sys.evs[j]?) (hme' : sys'.evs[who]? = some me')
    (hlen : sys'.evs.length = sys.evs.length)
    (hfrozen : ∀ r ∈ sys.rows, activeRow r = false → r ∈ sys'.rows)
    (hc : a'.cfgs = sys'.rows.map (·.cfg)) (ho : a'.owners = sys'.rows.map (·.owner))
    (he : EAccRel sys'.rows (a'.ev who) me') : MAccRel a' sys' := by
  refine ⟨hc, ho, by rw [hlen', hrel.len, hlen], ?_⟩
  intro w mw hw
  by_cases hww : w = who
  · subst hww
    rw [hme'] at hw
    have : mw = me' := (Option.some.inj hw).symm
    subst this
    exact he
  · rw [hevs w hww] at hw
    rw [hne w hww]
    exact (hrel.ev w mw hw).frame hfrozen

/-! ### one observed call satisfies the property -/

theorem gath_length {p : MParams C O} {rows : List (Row C O)} {me : MEv C O} (h : HistOk p rows me) :
    me.gathered.length = me.delivered.length + me.reported.length := by
  have := h.gath.length_eq
  simpa using this

theorem who_lt {sys : Sys C O} {a : MAcc C O} (hrel : MAccRel a sys) {who : Nat} {me : MEv C O}
    (hme : sys.evs[who]? = some me) : who < a.evs.length := by
  rw [hrel.len]; exact (List.getElem?_eq_some_iff.1 hme).1

theorem mobs_setMax {p : MParams C O} {n : Nat} {sys : Sys C O} {a : MAcc C O} (hinv : SInv p n sys)
    (hrel : MAccRel a sys) {who : Nat} {me : MEv C O} (hme : sys.evs[who]? = some me) (k : Int) :
    MStepOk p a (mObsStep p sys who (.setMax k)) ∧
      MAccRel (mNextAcc a (mObsStep p sys who (.setMax k))) (mStep p sys who (.setMax k)).1 := by
  have hev := hinv.ev who me hme
  have he := hrel.ev who me hme
  have hlt := who_lt hrel hme
  have hstep : mStep p sys who (.setMax k) = ({ rows := sys.rows, evs := sys.evs.set who (mSetMax me k) }, .unit) := by
    unfold mStep; rw [hme]; rfl
  have hobs : mObsStep p sys who (.setMax k) =
      { who := who, op := .setMax k, res := .unit, numSubmitted := mNumSubmitted sys.rows (mSetMax me k),
        numGathered := mNumGathered (mSetMax me k), jobsDone := doneRecs sys.rows me } := by
    unfold mObsStep
    rw [hstep]
    simp only [getD_of_getElem? (set_getElem?_self hme)]
    rfl
  rw [hobs, hstep]
  have hnext : mNextAcc a ⟨who, MTOp.setMax k, MTRes.unit, mNumSubmitted sys.rows (mSetMax me k),
      mNumGathered (mSetMax me k), doneRecs sys.rows me⟩ =
      setEv a who { a.ev who with cap := k, offset := (a.ev who).delivered.length + (a.ev who).reported.length } := rfl
  have hgl := gath_length hev.hist
  refine ⟨⟨hlt, ?_, ?_⟩, ?_⟩
  · show (doneRecs sys.rows me).map (·.id) = (a.ev who).pending
    rw [doneRecs_ids hinv hme, he.pend]
  · unfold MCountersOk
    rw [hnext]
    simp only [MAcc.ev_set_self a who _ hlt]
    refine ⟨?_, ?_⟩
    · show mNumSubmitted sys.rows (mSetMax me k) = _
      unfold mNumSubmitted mSetMax setEv
      simp only [hrel.cfgs, List.length_map, he.del, he.rep, hgl]
    · show mNumGathered (mSetMax me k) = _
      unfold mNumGathered mSetMax
      simp only [he.del, he.rep, hgl]
  · rw [hnext]
    apply hrel.after a.cfgs a.owners hlt
    · intro j hj; exact List.getElem?_set_ne (fun e => hj e.symm)
    · exact set_getElem?_self hme
    · simp
    · exact fun _ hr _ => hr
    · exact hrel.cfgs
    · exact hrel.owners
    · exact ⟨he.del, he.recIds, he.recRow, he.rep, he.pend, by
        show (a.ev who).delivered.length + (a.ev who).reported.length = me.gathered.length
        rw [he.del, he.rep, hgl], rfl⟩

theorem counters_of_rel {p : MParams C O} {n : Nat} {sys' : Sys C O} {a' : MAcc C O} (hinv' : SInv p n sys')
    (hrel' : MAccRel a' sys') {who : Nat} {me' : MEv C O} (hme' : sys'.evs[who]? = some me') :
    mNumSubmitted sys'.rows me' = (a'.cfgs.length : Int) - (a'.ev who).offset ∧
    mNumGathered me' = (((a'.ev who).delivered.length + (a'.ev who).reported.length : Nat) : Int) - (a'.ev who).offset := by
  have he := hrel'.ev who me' hme'
  have hgl := gath_length (hinv'.ev who me' hme').hist
  unfold mNumSubmitted mNumGathered
  rw [hrel'.cfgs, he.off, he.del, he.rep, hgl]
  simp

/-- the counters clause follows from the agreement of the accumulator with the system after the call -/
theorem mobs_finish {p : MParams C O} {n : Nat} {sys : Sys C O} {a : MAcc C O} (hinv : SInv p n sys)
    (hrel : MAccRel a sys) {who : Nat} {me : MEv C O} (hme : sys.evs[who]? = some me) (op : MOp C)
    (hok : mOpOk sys who op = true) (hcall : MCallOk p a (mObsStep p sys who op))
    (hrel' : MAccRel (mNextAcc a (mObsStep p sys who op)) (mStep p sys who op).1) :
    MStepOk p a (mObsStep p sys who op) ∧
      MAccRel (mNextAcc a (mObsStep p sys who op)) (mStep p sys who op).1 := by
  have hinv' := hinv.step who op hok
  have hokl : mOpOkLocal sys.rows me op = true := by unfold mOpOk at hok; rw [hme] at hok; exact hok
  obtain ⟨me', hevs, _⟩ := mStep_frame hinv hme op hokl
  have hme' : (mStep p sys who op).1.evs[who]? = some me' := by rw [hevs]; exact set_getElem?_self hme
  obtain ⟨c1, c2⟩ := counters_of_rel hinv' hrel' hme'
  refine ⟨⟨who_lt hrel hme, hcall, ?_⟩, hrel'⟩
  unfold MCountersOk
  have e1 : (mObsStep p sys who op).numSubmitted = mNumSubmitted (mStep p sys who op).1.rows me' := by
    unfold mObsStep; simp only [getD_of_getElem? hme']
  have e2 : (mObsStep p sys who op).numGathered = mNumGathered me' := by
    unfold mObsStep; simp only [getD_of_getElem? hme']
  have e3 : (mObsStep p sys who op).who = who := rfl
  simp only [e1, e2, e3]
  exact ⟨c1, c2⟩

/-- the private state after a dump that wrote its rows -/
def meDumped (me : MEv C O) : MEv C O :=
  { me with startDumping := true, columns := true, jobsDone := [], dumped := me.dumped ++ me.jobsDone }

theorem mobs_dump {p : MParams C O} {n : Nat} {sys : Sys C O} {a : MAcc C O} (hinv : SInv p n sys)
    (hrel : MAccRel a sys) {who : Nat} {me : MEv C O} (hme : sys.evs[who]? = some me) (fl : Bool)
    (hok : mOpOk sys who (.dump fl) = true) :
    MStepOk p a (mObsStep p sys who (.dump fl)) ∧
      MAccRel (mNextAcc a (mObsStep p sys who (.dump fl))) (mStep p sys who (.dump fl)).1 := by
  have he := hrel.ev who me hme
  have hlt := who_lt hrel hme
  have hids := doneRecs_ids hinv hme
  -- nothing is written: the state does not change
  have hsame : ∀ (hs : mStep p sys who (.dump fl) = ({ rows := sys.rows, evs := sys.evs.set who me }, .rows [])),
      MStepOk p a (mObsStep p sys who (.dump fl)) ∧
        MAccRel (mNextAcc a (mObsStep p sys who (.dump fl))) (mStep p sys who (.dump fl)).1 := by
    intro hs
    have hobs : mObsStep p sys who (.dump fl) =
        ⟨who, .dump, .rows [], mNumSubmitted sys.rows me, mNumGathered me, doneRecs sys.rows me⟩ := by
      unfold mObsStep
      rw [hs]
      simp only [getD_of_getElem? (set_getElem?_self hme)]
      rfl
    apply mobs_finish hinv hrel hme _ hok
    · rw [hobs]
      exact Or.inl ⟨rfl, by rw [hids, he.pend]⟩
    · rw [hobs, hs]
      have : mNextAcc a ⟨who, MTOp.dump, MTRes.rows [], mNumSubmitted sys.rows me, mNumGathered me,
          doneRecs sys.rows me⟩ = a := rfl
      rw [this]
      have hset : sys.evs.set who me = sys.evs := by
        apply List.ext_getElem?
        intro i
        by_cases hi : i = who
        · subst hi; rw [set_getElem?_self hme, hme]
        · rw [List.getElem?_set_ne (fun e => hi e.symm)]
      rw [hset]
      exact hrel
  by_cases h0 : me.jobsDone.isEmpty = true
  · apply hsame
    unfold mStep; rw [hme]; simp only [mStepLocal, mDump, if_pos h0]
  · by_cases h1 : mDumpColumns p me fl (doneRecs sys.rows me) = true
    · clear hsame
      have hne : me.jobsDone ≠ [] := by simpa using h0
      have hstep : mStep p sys who (.dump fl) =
          ({ rows := sys.rows, evs := sys.evs.set who (meDumped me) }, .rows (doneRecs sys.rows me)) := by
        unfold mStep; rw [hme]; simp only [mStepLocal, mDump, if_neg h0, if_pos h1]; rfl
      have hobs : mObsStep p sys who (.dump fl) =
          ⟨who, .dump, .rows me.jobsDone, mNumSubmitted sys.rows (meDumped me), mNumGathered (meDumped me), []⟩ := by
        unfold mObsStep
        rw [hstep]
        simp only [getD_of_getElem? (set_getElem?_self hme), mToRes, hids]
        rfl
      have := mobs_finish hinv hrel hme (.dump fl) hok
      rw [hobs, hstep] at this
      rw [hobs, hstep]
      apply this
      · exact Or.inr ⟨he.pend.symm ▸ rfl, rfl⟩
      · have hn : mNextAcc a ⟨who, MTOp.dump, MTRes.rows me.jobsDone, mNumSubmitted sys.rows (meDumped me),
            mNumGathered (meDumped me), []⟩ = setEv a who { a.ev who with pending := [] } := by
          show (if me.jobsDone = [] then a else setEv a who { a.ev who with pending := [] }) = _
          rw [if_neg hne]
        rw [hn]
        apply hrel.after a.cfgs a.owners hlt
        · intro j hj; exact List.getElem?_set_ne (fun e => hj e.symm)
        · exact set_getElem?_self hme
        · simp
        · exact fun _ hr _ => hr
        · exact hrel.cfgs
        · exact hrel.owners
        · exact ⟨he.del, he.recIds, he.recRow, he.rep, rfl, he.off, he.cap⟩
    · apply hsame
      unfold mStep; rw [hme]; simp only [mStepLocal, mDump, if_neg h0, if_neg h1]

theorem mobs_submit {p : MParams C O} {n : Nat} {sys : Sys C O} {a : MAcc C O} (hinv : SInv p n sys)
    (hrel : MAccRel a sys) {who : Nat} {me : MEv C O} (hme : sys.evs[who]? = some me) (cfgs : List C)
    (hok : mOpOk sys who (.submit cfgs) = true) :
    MStepOk p a (mObsStep p sys who (.submit cfgs)) ∧
      MAccRel (mNextAcc a (mObsStep p sys who (.submit cfgs))) (mStep p sys who (.submit cfgs)).1 := by
  have he := hrel.ev who me hme
  have hlt := who_lt hrel hme
  have hinv' := hinv.step who (.submit cfgs) hok
  have hokl : mOpOkLocal sys.rows me (.submit cfgs) = true := rfl
  obtain ⟨me', hevs, hstepR, _, _⟩ := mStep_frame hinv hme (.submit cfgs) hokl
  have hme' : (mStep p sys who (.submit cfgs)).1.evs[who]? = some me' := by rw [hevs]; exact set_getElem?_self hme
  have hroom := hrel.room hme cfgs.length
  -- what `_create_tasks` did
  have hse := mSetEventLoop_same me
  have hse2 : (mSetEventLoop me).maxSub = me.maxSub ∧ (mSetEventLoop me).offset = me.offset := by
    unfold mSetEventLoop; split <;> exact ⟨rfl, rfl⟩
  have hroom2 : mRoom sys.rows (mSetEventLoop me) cfgs.length = mRoom sys.rows me cfgs.length := by
    unfold mRoom mNumSubmitted; rw [hse2.1, hse2.2]
  obtain ⟨a1, _, a3, _, _, a6, a7⟩ := mCreateTasks_cap who cfgs 0 (sys.rows, mSetEventLoop me)
  have a8 := mCreateTasks_owner who cfgs 0 (sys.rows, mSetEventLoop me)
  have a9 := (mCreateTasks_same who cfgs 0 (sys.rows, mSetEventLoop me)).1
  simp only [hroom2] at a1 a3 a8
  have hstep : mStep p sys who (.submit cfgs) =
      ({ rows := (mCreateTasks who (sys.rows, mSetEventLoop me) 0 cfgs).1.1,
         evs := sys.evs.set who (mCreateTasks who (sys.rows, mSetEventLoop me) 0 cfgs).1.2 },
       match (mCreateTasks who (sys.rows, mSetEventLoop me) 0 cfgs).2 with
       | none => .unit
       | some k => .spawnMax k) := by
    unfold mStep; rw [hme]
    simp only [mStepLocal, mSubmit]
    cases hc : mCreateTasks who (sys.rows, mSetEventLoop me) 0 cfgs with
    | mk st' res => cases res <;> rfl
  have hme'eq : me' = (mCreateTasks who (sys.rows, mSetEventLoop me) 0 cfgs).1.2 := by
    rw [hstep] at hme'
    rw [set_getElem?_self hme] at hme'
    exact (Option.some.inj hme').symm
  have hjd : (doneRecs (mStep p sys who (.submit cfgs)).1.rows me').map (·.id) = (a.ev who).pending := by
    rw [doneRecs_ids hinv' hme', hme'eq, a9.jobsDone, hse.1.jobsDone, he.pend]
  have hframe : ∀ r ∈ sys.rows, activeRow r = false → r ∈ (mStep p sys who (.submit cfgs)).1.rows := hstepR.frozen
  have heacc : EAccRel (mStep p sys who (.submit cfgs)).1.rows (a.ev who) me' := by
    have h0 := he.frame hframe
    rw [hme'eq]
    exact ⟨by rw [a9.delivered, hse.1.delivered]; exact h0.del,
      by rw [a9.delivered, hse.1.delivered]; exact h0.recIds, h0.recRow,
      by rw [a9.reported, hse.1.reported]; exact h0.rep, by rw [a9.jobsDone, hse.1.jobsDone]; exact h0.pend,
      by rw [a7, hse2.2]; exact h0.off, by rw [a6, hse2.1]; exact h0.cap⟩
  have hobs_common : (mObsStep p sys who (.submit cfgs)).who = who ∧
      (mObsStep p sys who (.submit cfgs)).op = .submit cfgs ∧
      (mObsStep p sys who (.submit cfgs)).jobsDone = doneRecs (mStep p sys who (.submit cfgs)).1.rows me' := by
    unfold mObsStep
    simp only [getD_of_getElem? hme', mEraseOp, and_self]
  apply mobs_finish hinv hrel hme _ hok
  · -- the call itself
    unfold MCallOk
    rw [hobs_common.1, hobs_common.2.1]
    by_cases hm : mRoom sys.rows me cfgs.length = cfgs.length
    · have hres : (mObsStep p sys who (.submit cfgs)).res = .unit := by
        unfold mObsStep; rw [hstep]; simp only [a3, if_pos hm]; rfl
      simp only [hres, hobs_common.2.2]
      exact ⟨by rw [hroom, hm], hjd⟩
    · have hres : (mObsStep p sys who (.submit cfgs)).res = .spawnMax := by
        unfold mObsStep; rw [hstep]; simp only [a3, if_neg hm]; rfl
      simp only [hres, hobs_common.2.2]
      have : mRoom sys.rows me cfgs.length ≤ cfgs.length := by unfold mRoom; split <;> omega
      exact ⟨by rw [hroom]; omega, hjd⟩
  · -- the accumulator
    have hevs' : ∀ j, j ≠ who → (mStep p sys who (.submit cfgs)).1.evs[j]? = sys.evs[j]? := by
      intro j hj; rw [hevs]; exact List.getElem?_set_ne (fun e => hj e.symm)
    have hlen : (mStep p sys who (.submit cfgs)).1.evs.length = sys.evs.length := by rw [hevs]; simp
    have hrows : (mStep p sys who (.submit cfgs)).1.rows = (mCreateTasks who (sys.rows, mSetEventLoop me) 0 cfgs).1.1 := by
      rw [hstep]
    by_cases hm : mRoom sys.rows me cfgs.length = cfgs.length
    · have hres : (mObsStep p sys who (.submit cfgs)).res = .unit := by
        unfold mObsStep; rw [hstep]; simp only [a3, if_pos hm]; rfl
      have hn : mNextAcc a (mObsStep p sys who (.submit cfgs)) =
          { a with cfgs := a.cfgs ++ cfgs, owners := a.owners ++ List.replicate cfgs.length who } := by
        unfold mNextAcc
        simp only [hobs_common.1, hobs_common.2.1, hres]
      rw [hn]
      refine hrel.after' rfl (fun _ _ => rfl) hevs' hme' hlen hframe ?_ ?_ heacc
      · show a.cfgs ++ cfgs = _
        rw [hrows, a1, hm, List.take_length, hrel.cfgs]
      · show a.owners ++ _ = _
        rw [hrows, a8, hm, hrel.owners]
    · have hres : (mObsStep p sys who (.submit cfgs)).res = .spawnMax := by
        unfold mObsStep; rw [hstep]; simp only [a3, if_neg hm]; rfl
      have hn : mNextAcc a (mObsStep p sys who (.submit cfgs)) =
          { a with cfgs := a.cfgs ++ cfgs.take (a.room who cfgs.length),
                   owners := a.owners ++ List.replicate (a.room who cfgs.length) who } := by
        unfold mNextAcc
        simp only [hobs_common.1, hobs_common.2.1, hres]
      rw [hn, hroom]
      refine hrel.after' rfl (fun _ _ => rfl) hevs' hme' hlen hframe ?_ ?_ heacc
      · show a.cfgs ++ _ = _
        rw [hrows, a1, hrel.cfgs]
      · show a.owners ++ _ = _
        rw [hrows, a8, hrel.owners]

theorem RowsStep.same_len {who : Nat} {J : List Nat} {rows rows' : List (Row C O)} (hs : RowsStep who J rows rows')
    (hl : rows'.length = rows.length) :
    rows.map (·.cfg) = rows'.map (·.cfg) ∧ rows.map (·.owner) = rows'.map (·.owner) := by
  obtain ⟨t, ht⟩ := hs.pre
  have hlen := congrArg List.length ht
  simp only [List.length_append, List.length_map] at hlen
  have ht0 : t = [] := List.length_eq_zero_iff.1 (by omega)
  rw [ht0, List.append_nil] at ht
  constructor
  · have := congrArg (List.map (fun x : Nat × Nat × C => x.2.2)) ht
    rw [List.map_map, List.map_map] at this
    exact this
  · have := congrArg (List.map (fun x : Nat × Nat × C => x.2.1)) ht
    rw [List.map_map, List.map_map] at this
    exact this

theorem lookupDone_own {rows : List (Row C O)} {me : MEv C O} {g : Nat} (h : g ∈ me.jobs) :
    lookupDone rows me g = (rowOf rows g).map recOf := by
  unfold lookupDone
  rw [if_pos (by simpa using h)]

theorem mem_doneRecs {rows : List (Row C O)} {me : MEv C O} {j : JobRec C O} (h : j ∈ doneRecs rows me) :
    ∃ g ∈ me.jobsDone, lookupDone rows me g = some j := by
  unfold doneRecs at h
  exact List.mem_filterMap.1 h

theorem mobs_close {p : MParams C O} {n : Nat} {sys : Sys C O} {a : MAcc C O} (hinv : SInv p n sys)
    (hrel : MAccRel a sys) {who : Nat} {me : MEv C O} (hme : sys.evs[who]? = some me) (fin : List Nat)
    (hok : mOpOk sys who (.close fin) = true) :
    MStepOk p a (mObsStep p sys who (.close fin)) ∧
      MAccRel (mNextAcc a (mObsStep p sys who (.close fin))) (mStep p sys who (.close fin)).1 := by
  have he := hrel.ev who me hme
  have hlt := who_lt hrel hme
  have hinv' := hinv.step who (.close fin) hok
  have hokl : mOpOkLocal sys.rows me (.close fin) = true := by unfold mOpOk at hok; rw [hme] at hok; exact hok
  obtain ⟨_, _, rows', me', _, _, _, _, hstep, _, hj, hl, ⟨ids, hd⟩⟩ := close_bundle hinv hme fin hokl
  obtain ⟨hunit, me'', hme'', _, _, _, hall⟩ := multi_close_record hinv hme fin hokl
  obtain ⟨_, _, hstepR, _, _⟩ := mStep_frame hinv hme (.close fin) hokl
  have hrows : (mStep p sys who (.close fin)).1.rows = rows' := by rw [hstep]
  have hme' : (mStep p sys who (.close fin)).1.evs[who]? = some me' := by rw [hstep]; exact set_getElem?_self hme
  have : me'' = me' := by rw [hme'] at hme''; exact (Option.some.inj hme'').symm
  subst this
  rw [hrows] at hall hstepR
  have hinvR : SInv p n { rows := rows', evs := sys.evs.set who me'' } := by rw [hstep] at hinv'; exact hinv'
  have hmeR : ({ rows := rows', evs := sys.evs.set who me'' } : Sys C O).evs[who]? = some me'' := set_getElem?_self hme
  obtain ⟨hd1, _, hpart, hdisj, _⟩ := multi_exactly_once hinv hme
  obtain ⟨hd1', _, hpart', _, _⟩ := multi_exactly_once hinvR hmeR
  -- the newly recorded ids are exactly the jobs that were in flight
  have hdel' : me''.delivered.map (·.1) = me.delivered.map (·.1) ++ ids := by
    rw [hd.delivered, List.map_append, List.map_map]
    congr 1
    conv => rhs; rw [← List.map_id ids]
    rfl
  have hidsnd : ids.Nodup := by rw [hdel'] at hd1'; exact (List.nodup_append.1 hd1').2.1
  have hids_run : ∀ g, g ∈ ids ↔ g ∈ mRunningIds me := by
    intro g
    constructor
    · intro hg
      have h1 : g ∈ me''.delivered.map (·.1) := by rw [hdel']; exact List.mem_append_right _ hg
      have h2 : g ∈ me.jobs := hj ▸ (hpart' g).2 (Or.inr h1)
      rcases (hpart g).1 h2 with h3 | h3
      · exact h3
      · rw [hdel'] at hd1'
        exact absurd rfl ((List.nodup_append.1 hd1').2.2 g h3 g hg)
    · intro hg
      have h1 := (hall g hg).1
      rw [hd.delivered] at h1
      rcases List.mem_append.1 h1 with h2 | h2
      · exact absurd (List.mem_map_of_mem (f := (·.1)) h2) (hdisj g hg)
      · obtain ⟨x, hx, hxe⟩ := List.mem_map.1 h2
        simp only [Prod.mk.injEq] at hxe
        exact hxe.1 ▸ hx
  have hrunnd : (mRunningIds me).Nodup := (multi_exactly_once hinv hme).2.1
  have hlen : ids.length = me.running.length := by
    have h1 := List.Nodup.length_le_of_subset hidsnd (fun g hg => (hids_run g).1 hg)
    have h2 := List.Nodup.length_le_of_subset hrunnd (fun g hg => (hids_run g).2 hg)
    have : (mRunningIds me).length = me.running.length := by simp [mRunningIds]
    omega
  -- the observed step
  have hD : (doneRecs rows' me'').map (·.id) = me.jobsDone ++ ids := by
    rw [doneRecs_ids hinvR hmeR, hd.jobsDone]
  have hobs : mObsStep p sys who (.close fin) =
      ⟨who, .close, .unit, mNumSubmitted rows' me'', mNumGathered me'', doneRecs rows' me''⟩ := by
    unfold mObsStep
    simp only [getD_of_getElem? hme', hrows, hunit]
    rfl
  have hpl : (a.ev who).pending.length = me.jobsDone.length := by rw [he.pend]
  have hnewids : ((doneRecs rows' me'').drop (a.ev who).pending.length).map (·.id) = ids := by
    rw [List.map_drop, hD, hpl, List.drop_left]
  have hnew : ∀ j ∈ (doneRecs rows' me'').drop (a.ev who).pending.length,
      j.id ∈ mRunningIds me ∧ ∃ row ∈ rows', recOf row = j ∧ row.id = j.id := by
    intro j hjm
    have hjid : j.id ∈ ids := by rw [← hnewids]; exact List.mem_map_of_mem hjm
    have hrun := (hids_run j.id).1 hjid
    obtain ⟨g, hg, hlook⟩ := mem_doneRecs (List.mem_of_mem_drop hjm)
    obtain ⟨j', hj', hjid'⟩ := lookupDone_some hinvR hmeR hg
    rw [hlook] at hj'
    have : j' = j := (Option.some.inj hj').symm
    subst this
    have hown : g ∈ me''.jobs := by rw [hj, ← hjid']; exact (hpart _).2 (Or.inl hrun)
    rw [lookupDone_own hown] at hlook
    cases hrow : rowOf rows' g with
    | none => rw [hrow] at hlook; simp at hlook
    | some row =>
      rw [hrow] at hlook
      simp only [Option.map_some, Option.some.injEq] at hlook
      exact ⟨hrun, row, (rowOf_some hrow).1, hlook, by rw [← hlook]; rfl⟩
  apply mobs_finish hinv hrel hme _ hok
  · rw [hobs]
    show ((doneRecs rows' me'').take (a.ev who).pending.length).map (·.id) = (a.ev who).pending ∧ _
    refine ⟨?_, ?_, ?_, ?_⟩
    · rw [List.map_take, hD, hpl, List.take_left, he.pend]
    · rw [hnewids]; exact hidsnd
    · intro j hjm
      obtain ⟨hrun, row, hrowm, hrec, hrid⟩ := hnew j hjm
      obtain ⟨_, row2, hrow2, e1, e2, ⟨row0, hrow0, e3, e4⟩, e5⟩ := hall j.id hrun
      have : row2 = row := eq_of_nodup_map (·.id) (rows_nodup hinvR.rows.ids) hrow2 hrowm (e1.trans hrid.symm)
      subst this
      have hcfg : j.cfg = row2.cfg := by rw [← hrec]; rfl
      have hst : j.status = row2.status := by rw [← hrec]; rfl
      have hout : j.out = row2.out := by rw [← hrec]; rfl
      have hown0 : row0.owner = who := ((hinv.ev who me hme).own row0 hrow0).2 (e3 ▸ (hpart _).2 (Or.inl hrun))
      refine ⟨⟨?_, ?_, ?_⟩, ?_⟩
      · rw [hrel.owners, ← e3, rows_map_getElem hinv.rows.ids hrow0, hown0]
      · rw [he.del]; exact hdisj _ hrun
      · rw [hrel.cfgs, ← e3, rows_map_getElem hinv.rows.ids hrow0, e4, hcfg]
      · rw [hcfg, hst, hout]
        by_cases hf : j.id ∈ fin
        · rw [if_pos hf] at e5; exact Or.inl e5
        · rw [if_neg hf] at e5; exact Or.inr e5
    · have := congrArg List.length hnewids
      simp only [List.length_map] at this
      rw [this, hlen, hrel.inflight hinv hme]
  · rw [hobs, hstep]
    have hn : mNextAcc a ⟨who, MTOp.close, MTRes.unit, mNumSubmitted rows' me'', mNumGathered me'', doneRecs rows' me''⟩ =
        setEv a who { a.ev who with
          delivered := (a.ev who).delivered ++ ((doneRecs rows' me'').drop (a.ev who).pending.length).map (fun j => (j.id, Via.close))
          recs := (a.ev who).recs ++ (doneRecs rows' me'').drop (a.ev who).pending.length
          pending := (a.ev who).pending ++ ((doneRecs rows' me'').drop (a.ev who).pending.length).map (·.id) } := rfl
    rw [hn]
    have hmapdel : ((doneRecs rows' me'').drop (a.ev who).pending.length).map (fun j => (j.id, Via.close)) =
        ids.map (fun i => (i, Via.close)) := by
      rw [← hnewids, List.map_map]; rfl
    apply hrel.after a.cfgs a.owners hlt
    · intro j hj'; exact List.getElem?_set_ne (fun e => hj' e.symm)
    · exact set_getElem?_self hme
    · simp
    · exact hstepR.frozen
    · rw [hrel.cfgs]; exact (hstepR.same_len hl).1
    · rw [hrel.owners]; exact (hstepR.same_len hl).2
    · have h0 := he.frame hstepR.frozen
      refine ⟨?_, ?_, ?_, by rw [hd.reported]; exact h0.rep, ?_, by rw [hd.offset]; exact h0.off,
        by rw [hd.maxSub]; exact h0.cap⟩
      · show (a.ev who).delivered ++ _ = me''.delivered
        rw [hmapdel, hd.delivered, he.del]
      · show ((a.ev who).recs ++ _).map (·.id) = _
        rw [List.map_append, hnewids, hdel', h0.recIds]
      · intro j hjm
        have hjm' : j ∈ (a.ev who).recs ++ (doneRecs rows' me'').drop (a.ev who).pending.length := hjm
        rcases List.mem_append.1 hjm' with h1 | h1
        · exact h0.recRow j h1
        · obtain ⟨hrun, row, hrowm, hrec, hrid⟩ := hnew j h1
          obtain ⟨_, row2, hrow2, e1, _, _, e5⟩ := hall j.id hrun
          have : row2 = row := eq_of_nodup_map (·.id) (rows_nodup hinvR.rows.ids) hrow2 hrowm (e1.trans hrid.symm)
          subst this
          refine ⟨row2, hrowm, hrec, ?_⟩
          by_cases hf : j.id ∈ fin
          · rw [if_pos hf] at e5; simp [activeRow, e5.1]
          · rw [if_neg hf] at e5; simp [activeRow, e5.1]
      · show (a.ev who).pending ++ _ = me''.jobsDone
        rw [hnewids, hd.jobsDone, he.pend]

theorem set_self_eq {α : Type} {l : List α} {i : Nat} {a : α} (h : l[i]? = some a) : l.set i a = l := by
  apply List.ext_getElem?
  intro j
  by_cases hj : j = i
  · subst hj; rw [set_getElem?_self h, h]
  · rw [List.getElem?_set_ne (fun e => hj e.symm)]

theorem jobRec_ext {a b : JobRec C O} (h1 : a.id = b.id) (h2 : a.cfg = b.cfg) (h3 : a.out = b.out)
    (h4 : a.status = b.status) : a = b := by
  cases a; cases b; simp only at h1 h2 h3 h4; subst h1 h2 h3 h4; rfl

theorem mobs_gather {p : MParams C O} {n : Nat} {sys : Sys C O} {a : MAcc C O} (hinv : SInv p n sys)
    (hrel : MAccRel a sys) {who : Nat} {me : MEv C O} (hme : sys.evs[who]? = some me) (all : Bool) (k : Nat)
    (st : List Nat) (ws : List (List Nat)) (hok : mOpOk sys who (.gather all k st ws) = true) :
    MStepOk p a (mObsStep p sys who (.gather all k st ws)) ∧
      MAccRel (mNextAcc a (mObsStep p sys who (.gather all k st ws))) (mStep p sys who (.gather all k st ws)).1 := by
  have he := hrel.ev who me hme
  have hlt := who_lt hrel hme
  have hokl : mOpOkLocal sys.rows me (.gather all k st ws) = true := by
    unfold mOpOk at hok; rw [hme] at hok; exact hok
  obtain ⟨s, lst, lws, rows1, me1, _, _, _, _, hm, _, hj, hl, _, h1, hstep⟩ :=
    gather_bundle hinv hme all k st ws hokl
  obtain ⟨herr, hjobs⟩ := multi_gather hinv hme all k st ws hokl
  have hme1 : ({ rows := rows1, evs := sys.evs.set who me1 } : Sys C O).evs[who]? = some me1 :=
    set_getElem?_self hme
  obtain ⟨hd1, _, hpart, hdisj, _⟩ := multi_exactly_once hinv hme
  have hinfl := hrel.inflight hinv hme
  cases hres : renRes (rho me.jobs sys.rows.length) (outRes (gather p.toParams s all k lst lws).2) with
  | error e =>
    rw [hres] at hstep hm
    simp only at hstep
    obtain ⟨ha, hk, hrun, hcase⟩ := herr e (by rw [hstep])
    have hne : e ≠ .badTask := by rcases hcase with ⟨rfl, _⟩ | ⟨rfl, _⟩ <;> simp
    have hst1 := mGatherLocal_err_state p (sys.rows, me) all k st ws e (by rw [hm]) hne
    rw [hm] at hst1
    simp only [Prod.mk.injEq] at hst1
    obtain ⟨rfl, rfl⟩ := hst1
    have hstep' : mStep p sys who (.gather all k st ws) = (sys, .error e) := by
      rw [hstep, set_self_eq hme]
    have hobs : mObsStep p sys who (.gather all k st ws) =
        ⟨who, .gather all k, mToRes (.error e), mNumSubmitted sys.rows me1, mNumGathered me1, doneRecs sys.rows me1⟩ := by
      unfold mObsStep
      rw [hstep']
      simp only [getD_of_getElem? hme]
      rfl
    have hto : mToRes (MOut.error e : MOut C O) = .error .noLoop ∨ mToRes (MOut.error e : MOut C O) = .error .noJobs := by
      rcases hcase with ⟨rfl, _⟩ | ⟨rfl, _⟩
      · exact Or.inl rfl
      · exact Or.inr rfl
    apply mobs_finish hinv hrel hme _ hok
    · rw [hobs]
      have hcall : ∀ ek : EKind, ek ≠ .other → MCallOk p a ⟨who, .gather all k, .error ek, mNumSubmitted sys.rows me1,
          mNumGathered me1, doneRecs sys.rows me1⟩ := by
        intro ek hek
        show ek ≠ .other ∧ all = false ∧ k ≠ 0 ∧ a.inflight who = 0 ∧ (doneRecs sys.rows me1).map (·.id) = (a.ev who).pending
        refine ⟨hek, ha, hk, by rw [hinfl, hrun]; rfl, by rw [doneRecs_ids hinv hme, he.pend]⟩
      rcases hto with h | h <;> rw [h]
      · exact hcall _ (by simp)
      · exact hcall _ (by simp)
    · rw [hobs, hstep']
      have : mNextAcc a ⟨who, MTOp.gather all k, mToRes (MOut.error e), mNumSubmitted sys.rows me1, mNumGathered me1,
          doneRecs sys.rows me1⟩ = a := by
        rcases hto with h | h <;> rw [h] <;> rfl
      rw [this]
      exact hrel
  | ok js =>
    rw [hres] at hstep hm
    simp only at hstep
    obtain ⟨me', hme', hjnd, hjs, hbat, hall, hrep, hond, hoth⟩ := hjobs js _ (by rw [hstep])
    have hme'eq : me' = addObjs me1 (otherObjs p rows1 me1) := by
      rw [hstep] at hme'
      rw [set_getElem?_self hme] at hme'
      exact (Option.some.inj hme').symm
    have hdl : Delta me me1 (js.map (·.id)) .gather := by
      have := mGatherLocal_delta_ok p (sys.rows, me) all k st ws js (by rw [hm])
      rw [hm] at this
      exact this
    obtain ⟨_, hrec, hspec, hcomp⟩ := others_spec h1 hme1
    obtain ⟨me2, hevs2, hstepR, _, _⟩ := mStep_frame hinv hme (.gather all k st ws) hokl
    have hme2 : me' = me2 := by
      have h' := hme'
      rw [hevs2, set_getElem?_self hme] at h'
      exact (Option.some.inj h').symm
    subst hme2
    have hrows : (mStep p sys who (.gather all k st ws)).1.rows = rows1 := by rw [hstep]
    rw [hrows] at hstepR hjs hoth
    have hinv' := hinv.step who (.gather all k st ws) hok
    have hjd : (doneRecs rows1 me').map (·.id) =
        me.jobsDone ++ js.map (·.id) ++ ((otherObjs p rows1 me1).map (foreignRec rows1)).map (·.id) := by
      have := doneRecs_ids hinv' hme'
      rw [hrows] at this
      rw [this, hme'eq, hrec]
      show me1.jobsDone ++ _ = _
      rw [hdl.jobsDone]
    have hobs : mObsStep p sys who (.gather all k st ws) =
        ⟨who, .gather all k, .jobs js ((otherObjs p rows1 me1).map (foreignRec rows1)),
          mNumSubmitted rows1 me', mNumGathered me', doneRecs rows1 me'⟩ := by
      unfold mObsStep
      simp only [getD_of_getElem? hme', hrows]
      rw [hstep]
      rfl
    -- rows of other evaluators are the same before and after the own part of the gather
    have hback : ∀ r ∈ rows1, r.id ∉ me1.jobs → r ∈ sys.rows := by
      intro r hr hnj
      have := hstepR.frame [r.id] (by simpa [hme'eq, addObjs] using hnj)
      have hmem : r ∈ ownRows rows1 [r.id] := List.mem_filter.2 ⟨hr, by simp⟩
      rw [this] at hmem
      exact (List.mem_filter.1 hmem).1
    apply mobs_finish hinv hrel hme _ hok
    · rw [hobs]
      show (js.map (·.id)).Nodup ∧ (∀ j ∈ js, MGatheredOk p a who j) ∧ MBatchOk a who all k js.length ∧
        (((otherObjs p rows1 me1).map (foreignRec rows1)).map (·.id)).Nodup ∧
        (∀ o ∈ (otherObjs p rows1 me1).map (foreignRec rows1), ReportedOk p a who o) ∧
        ReportsAll p a who ((otherObjs p rows1 me1).map (foreignRec rows1)) ∧
        (doneRecs rows1 me').map (·.id) = (a.ev who).pending ++ js.map (·.id) ++
          ((otherObjs p rows1 me1).map (foreignRec rows1)).map (·.id)
      refine ⟨hjnd, ?_, ?_, hond, ?_, ?_, by rw [hjd, he.pend]⟩
      · intro j hjm
        obtain ⟨b1, _, b3, b4, ⟨row, hrow, c1, c2, c3⟩, _⟩ := hjs j hjm
        refine ⟨⟨?_, ?_, ?_⟩, b3, b4⟩
        · rw [hrel.owners, ← c1, rows_map_getElem hinv.rows.ids hrow, c2]
        · rw [he.del]; exact hdisj _ b1
        · rw [hrel.cfgs, ← c1, rows_map_getElem hinv.rows.ids hrow, c3]
      · refine ⟨by rw [hinfl]; exact hbat, fun ha => ?_⟩
        rw [hinfl]
        have hrun' := hall ha
        have l1 := multi_jobs_length hinv hme
        have l2 := multi_jobs_length hinv' hme'
        have e1 : me'.jobs = me.jobs := by rw [hme'eq]; show me1.jobs = me.jobs; exact hdl.jobs
        have e2 : me'.delivered.length = me.delivered.length + js.length := by
          rw [hme'eq]; show me1.delivered.length = _
          rw [hdl.delivered]; simp
        rw [e1, hrun', e2] at l2
        simp only [List.length_nil] at l2
        omega
      · intro o ho
        obtain ⟨b1, b2, r, hr, c1, c2, c3, c4, c5, c6, c7, c8⟩ := hspec o ho
        have hr0 : r ∈ sys.rows := hback r hr (c1 ▸ b2)
        have hw : r.owner < sys.evs.length := hinv.len ▸ hinv.rows.owner r hr0
        have hmw : sys.evs[r.owner]? = some sys.evs[r.owner] := List.getElem?_eq_getElem hw
        have hew := hrel.ev _ _ hmw
        have hdel := delivered_of_terminal hinv hmw hr0 rfl c3
        rw [← hew.recIds] at hdel
        obtain ⟨j, hjm, hjid⟩ := List.mem_map.1 hdel
        obtain ⟨r2, hr2, hrec2, _⟩ := hew.recRow j hjm
        have : r2 = r := eq_of_nodup_map (·.id) (rows_nodup hinv.rows.ids) hr2 hr0 (by
          have := congrArg JobRec.id hrec2; simp only [recOf] at this; rw [this, hjid])
        subst this
        have hoj : o = j := by
          rw [← hrec2]
          exact jobRec_ext c1.symm c4 c5 c6
        have hso : r2.sout = r2.out := by
          have := h1.rows.sout r2 hr
          unfold RowP at this
          rw [c8] at this; simpa using this
        refine ⟨mem_foreignRecs.2 ⟨r2.owner, by rw [hrel.len]; exact hw, c2, hoj ▸ hjm⟩, by rw [he.rep, ← hdl.reported]; exact b1,
          ?_, c8, by rw [c5, ← hso]; exact c7⟩
        rw [hrel.cfgs, ← c1, rows_map_getElem hinv.rows.ids hr0, c4]
      · intro r hrf hnrep hhpo htr
        obtain ⟨w, hwlt, hwne, hrm⟩ := mem_foreignRecs.1 hrf
        have hw : w < sys.evs.length := hrel.len ▸ hwlt
        have hmw : sys.evs[w]? = some sys.evs[w] := List.getElem?_eq_getElem hw
        have hew := hrel.ev _ _ hmw
        obtain ⟨r0, hr0, hrec0, hterm⟩ := hew.recRow r hrm
        have hid0 : r0.id = r.id := by rw [← hrec0]; rfl
        have hr1' : r0 ∈ rows1 := hstepR.frozen r0 hr0 hterm
        have hdelw : r0.id ∈ sys.evs[w].delivered.map (·.1) := by
          rw [← hew.recIds, hid0]; exact List.mem_map_of_mem hrm
        obtain ⟨_, _, hpartw, _, _⟩ := multi_exactly_once hinv hmw
        have hjw : r0.id ∈ sys.evs[w].jobs := (hpartw r0.id).2 (Or.inr hdelw)
        have hown0 : r0.owner = w := ((hinv.ev _ _ hmw).own r0 hr0).2 hjw
        have hnj : r0.id ∉ me1.jobs := by
          rw [hdl.jobs]
          intro hin
          exact hwne (hown0.symm.trans (((hinv.ev who me hme).own r0 hr0).2 hin))
        have hev1 := h1.ev who me1 hme1
        have hnsub : r0.id ∉ me1.submitted := by
          intro hin
          obtain ⟨s1, hs1, hr1s⟩ := hev1.sim
          obtain ⟨hi1, _, _⟩ := reach_good hs1
          apply hnj
          rw [← hr1s.submitted] at hin
          obtain ⟨i, hi', hie⟩ := List.mem_map.1 hin
          rw [← hie]
          exact hr1s.mem_jobs_of_sub hi1.wf (hi1.sub_lt hi')
        have hngath : r0.id ∉ me1.gathered := by
          intro hin
          rcases List.mem_append.1 (hev1.hist.gath.mem_iff.1 hin) with h2 | h2
          · obtain ⟨_, _, hpart1, _, _⟩ := multi_exactly_once h1 hme1
            exact hnj ((hpart1 r0.id).2 (Or.inr h2))
          · rw [hdl.reported, ← he.rep, hid0] at h2
            exact hnrep h2
        have hso : r0.sout = r0.out := by
          have := hinv.rows.sout r0 hr0
          unfold RowP at this
          rw [hhpo] at this; simpa using this
        have hout0 : r0.out = r.out := by rw [← hrec0]; rfl
        have := hcomp r0 hr1' hnsub hngath (by rw [hso, hout0]; exact htr)
        rw [hrec, ← hid0]
        exact this
    · rw [hobs, hstep]
      have hn : mNextAcc a ⟨who, MTOp.gather all k, MTRes.jobs js ((otherObjs p rows1 me1).map (foreignRec rows1)),
          mNumSubmitted rows1 me', mNumGathered me', doneRecs rows1 me'⟩ =
          setEv a who { a.ev who with
            delivered := (a.ev who).delivered ++ js.map (fun j => (j.id, Via.gather))
            recs := (a.ev who).recs ++ js
            reported := (a.ev who).reported ++ ((otherObjs p rows1 me1).map (foreignRec rows1)).map (·.id)
            pending := (a.ev who).pending ++ js.map (·.id) ++
              ((otherObjs p rows1 me1).map (foreignRec rows1)).map (·.id) } := rfl
      rw [hn]
      have hsl := hstepR.same_len hl
      apply hrel.after a.cfgs a.owners hlt
      · intro j hj'; exact List.getElem?_set_ne (fun e => hj' e.symm)
      · exact set_getElem?_self hme
      · simp
      · exact hstepR.frozen
      · rw [hrel.cfgs]; exact hsl.1
      · rw [hrel.owners]; exact hsl.2
      · have h0 := he.frame hstepR.frozen
        have hdel' : (addObjs me1 (otherObjs p rows1 me1)).delivered =
            me.delivered ++ js.map (fun j => (j.id, Via.gather)) := by
          show me1.delivered = _
          rw [hdl.delivered, List.map_map]; rfl
        refine ⟨?_, ?_, ?_, ?_, ?_, ?_, ?_⟩
        · show (a.ev who).delivered ++ _ = _
          rw [hdel', he.del]
        · show ((a.ev who).recs ++ js).map (·.id) = _
          rw [hdel', List.map_append, List.map_append, h0.recIds, List.map_map]; rfl
        · intro j hjm
          have hjm' : j ∈ (a.ev who).recs ++ js := hjm
          rcases List.mem_append.1 hjm' with h2 | h2
          · exact h0.recRow j h2
          · obtain ⟨_, _, b3, _, _, row', hrow', hrec'⟩ := hjs j h2
            refine ⟨row', hrow', hrec', ?_⟩
            have : row'.status = j.status := by rw [← hrec']; rfl
            simp [activeRow, this, b3]
        · show (a.ev who).reported ++ _ = (addObjs me1 (otherObjs p rows1 me1)).reported
          rw [← hme'eq, hrep, he.rep]
        · show (a.ev who).pending ++ _ ++ _ = (addObjs me1 (otherObjs p rows1 me1)).jobsDone
          show _ = me1.jobsDone ++ _
          rw [hdl.jobsDone, he.pend, hrec]
        · show (a.ev who).offset = me1.offset
          rw [hdl.offset]; exact h0.off
        · show (a.ev who).cap = me1.maxSub
          rw [hdl.maxSub]; exact h0.cap

/-- one observed call of the model satisfies the property, and the observer stays in step with the system -/
theorem mobs_step {p : MParams C O} {n : Nat} {sys : Sys C O} {a : MAcc C O} (hinv : SInv p n sys)
    (hrel : MAccRel a sys) (who : Nat) (op : MOp C) (hok : mOpOk sys who op = true) :
    MStepOk p a (mObsStep p sys who op) ∧ MAccRel (mNextAcc a (mObsStep p sys who op)) (mStep p sys who op).1 := by
  cases hme : sys.evs[who]? with
  | none => unfold mOpOk at hok; rw [hme] at hok; simp at hok
  | some me =>
    cases op with
    | submit cfgs => exact mobs_submit hinv hrel hme cfgs hok
    | gather all k st ws => exact mobs_gather hinv hrel hme all k st ws hok
    | close fin => exact mobs_close hinv hrel hme fin hok
    | dump fl => exact mobs_dump hinv hrel hme fl hok
    | setMax k => exact mobs_setMax hinv hrel hme k

theorem mTraceOf_ok {p : MParams C O} {n : Nat} : ∀ (ops : List (Nat × MOp C)) {sys : Sys C O} {a : MAcc C O},
    SInv p n sys → MAccRel a sys → mOpsOk p sys ops = true → MTraceSpecFrom p a (mTraceOf p sys ops)
  | [], _, _, _, _, _ => trivial
  | (who, op) :: ops, sys, a, hinv, hrel, hok => by
    simp only [mOpsOk, Bool.and_eq_true] at hok
    obtain ⟨h1, h2⟩ := mobs_step hinv hrel who op hok.1
    exact ⟨h1, mTraceOf_ok ops (hinv.step who op hok.1) h2 hok.2⟩

end DH.Evaluator
