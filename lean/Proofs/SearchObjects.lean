import Model.SearchObjects
import Proofs.Search

/-! Helper lemmas for the several-search-objects / files / working-directory part of C03
(core Lean only). -/

namespace DH.SearchObjects
open DH.Search

/-- closes goals that are `x = x` or have been simplified to `True` -/
macro "triv" : tactic => `(tactic| first | rfl | trivial | (simp; done))

/-! ### files -/

theorem fsSet_self (fs : FS) (p : Path) (v : Option File) : fsSet fs p v p = v := by
  simp [fsSet]

theorem fsSet_other (fs : FS) {p q : Path} (v : Option File) (h : q ≠ p) : fsSet fs p v q = fs q := by
  simp [fsSet, h]

theorem fsSet_fsSet (fs : FS) (p : Path) (v v' : Option File) :
    fsSet (fsSet fs p v) p v' = fsSet fs p v' := by
  funext q
  simp only [fsSet]
  split <;> rfl

theorem setStarted_self (cfg : Cfg) (st : Path → Bool) (p : Path) (v : Bool) :
    setStarted cfg st p v p = v := by
  unfold setStarted; split <;> simp

theorem writeRows_add (cfg : Cfg) (d : Disk) (p : Path) (a b : Nat) :
    writeRows cfg (writeRows cfg d p a) p b = writeRows cfg d p (a + b) := by
  obtain ⟨st, fs⟩ := d
  unfold writeRows
  cases h : st p with
  | true =>
    simp only [h, if_true, fsSet_self, fsSet_fsSet]
    cases fs p with
    | none => simp
    | some f => simp [Nat.add_assoc]
  | false =>
    simp only [h, Bool.false_eq_true, if_false, setStarted_self, if_true, fsSet_self, fsSet_fsSet]

/-- several dumps to the same file are one dump of all the rows -/
theorem dumpTo_add (cfg : Cfg) (d : Disk) (p : Path) (a b : Nat) :
    dumpTo cfg (dumpTo cfg d p a) p b = dumpTo cfg d p (a + b) := by
  by_cases ha : a = 0
  · subst ha; simp [dumpTo]
  · by_cases hb : b = 0
    · subst hb; simp [dumpTo]
    · have hab : a + b ≠ 0 := by omega
      simp only [dumpTo, ha, hb, hab, if_false]
      exact writeRows_add cfg d p a b

/-- the disk after a piece of code that made no dump at all, or dumps of `k` rows in all to
`p/results.csv`, the counters model having counted the same `k` rows -/
def Tracks (cfg : Cfg) (p : Path) (s : Ev) (d : Disk) (s' : Ev) (d' : Disk) : Prop :=
  (s'.rows = s.rows ∧ d' = d) ∨ ∃ k, s'.rows = s.rows + k ∧ d' = dumpTo cfg d p k

theorem Tracks.refl (cfg : Cfg) (p : Path) (s : Ev) (d : Disk) : Tracks cfg p s d s d :=
  Or.inl ⟨rfl, rfl⟩

theorem Tracks.same {cfg : Cfg} {p : Path} {s s' : Ev} (d : Disk) (h : s'.rows = s.rows) :
    Tracks cfg p s d s' d := Or.inl ⟨h, rfl⟩

theorem Tracks.trans {cfg : Cfg} {p : Path} {s s1 s2 : Ev} {d d1 d2 : Disk}
    (h1 : Tracks cfg p s d s1 d1) (h2 : Tracks cfg p s1 d1 s2 d2) : Tracks cfg p s d s2 d2 := by
  rcases h1 with ⟨r1, e1⟩ | ⟨k1, r1, e1⟩ <;> rcases h2 with ⟨r2, e2⟩ | ⟨k2, r2, e2⟩
  · exact Or.inl ⟨by omega, by rw [e2, e1]⟩
  · exact Or.inr ⟨k2, by omega, by rw [e2, e1]⟩
  · exact Or.inr ⟨k1, by omega, by rw [e2, e1]⟩
  · exact Or.inr ⟨k1 + k2, by omega, by rw [e2, e1, dumpTo_add]⟩

theorem Tracks.dump {cfg : Cfg} {p : Path} (s : Ev) (d : Disk) :
    Tracks cfg p s d (dump s) (dumpTo cfg d p s.pending) :=
  Or.inr ⟨s.pending, by simp [Search.dump], rfl⟩

/-! ### `loopD`, `drainD`, `searchCallD` project onto the counters model -/

theorem loopD_proj (cfg : Cfg) (strict : Bool) (T : Int) (p : Path) :
    ∀ (env : List Step) (s : Ev) (d : Disk) (nAsk : Nat),
      (loopD cfg strict T p s d nAsk env).1 = loop strict T s nAsk env ∧
      Tracks cfg p s d (loop strict T s nAsk env).1 (loopD cfg strict T p s d nAsk env).2 := by
  intro env
  induction env with
  | nil =>
    intro s d nAsk
    unfold loopD loop
    dsimp only
    split
    · have sp := submit_spec nAsk { s with asks := s.asks ++ [nAsk] }
      generalize submit { s with asks := s.asks ++ [nAsk] } nAsk = sub at sp ⊢
      obtain ⟨s1, raised⟩ := sub
      have hr : s1.rows = s.rows := sp.rows
      cases raised <;> exact ⟨rfl, Tracks.same d hr⟩
    · exact ⟨rfl, Tracks.refl cfg p s d⟩
  | cons st rest ih =>
    intro s d nAsk
    unfold loopD loop
    dsimp only
    split
    · have sp := submit_spec nAsk { s with asks := s.asks ++ [nAsk] }
      generalize submit { s with asks := s.asks ++ [nAsk] } nAsk = sub at sp ⊢
      obtain ⟨s1, raised⟩ := sub
      have hr : s1.rows = s.rows := sp.rows
      cases raised with
      | true => exact ⟨rfl, Tracks.same d hr⟩
      | false =>
        simp only [Bool.false_eq_true, if_false]
        cases hga : (gatherBatch1 s1 st.g).2 with
        | noJobs =>
          have h0 : gatherBatch1 s1 st.g = (s1, .noJobs) := by
            unfold gatherBatch1 at hga ⊢
            split at hga
            · next h => simp [h]
            · split at hga <;> simp at hga
          simp only [h0]
          exact ⟨by triv, Tracks.same d hr⟩
        | badEnv =>
          simp only [gatherBatch1_badEnv hga]
          exact ⟨by triv, Tracks.same d hr⟩
        | ok =>
          obtain ⟨_, _, heq⟩ := gatherBatch1_ok hga
          simp only [heq]
          have hg : (afterGather s1 st.g).rows = s.rows := by simp [afterGather, hr]
          have t1 : Tracks cfg p s d (dump (afterGather s1 st.g))
              (dumpTo cfg d p (afterGather s1 st.g).pending) :=
            Tracks.trans (Tracks.same d hg) (Tracks.dump _ d)
          split
          · exact ⟨rfl, t1⟩
          · obtain ⟨i1, i2⟩ := ih (dump (afterGather s1 st.g))
              (dumpTo cfg d p (afterGather s1 st.g).pending) st.g
            exact ⟨i1, Tracks.trans t1 i2⟩
    · exact ⟨rfl, Tracks.refl cfg p s d⟩

theorem drainD_proj (cfg : Cfg) (p : Path) (s : Ev) (d : Disk) :
    (drainD cfg p s d).1 = drain s ∧ Tracks cfg p s d (drain s).1 (drainD cfg p s d).2 := by
  unfold drainD drain
  have hg : (gatherAll s).rows = s.rows := by simp [gatherAll]
  have t1 : Tracks cfg p s d (dump (gatherAll s)) (dumpTo cfg d p (gatherAll s).pending) :=
    Tracks.trans (Tracks.same d hg) (Tracks.dump _ d)
  by_cases h : numSubmitted s > numGathered s
  · simp only [h, if_true]
    by_cases h2 : numSubmitted (dump (gatherAll s)) > numGathered (dump (gatherAll s))
    · simp only [h2, if_true]; exact ⟨by triv, t1⟩
    · simp only [h2, if_false]; exact ⟨by triv, t1⟩
  · simp only [h, if_false]; exact ⟨by triv, Tracks.refl cfg p s d⟩

/-- the evaluator after the cap / timeout have been (re)set for this call, any `Fixes` -/
def prepFx (fx : Fixes) (s : Ev) (c : Call) : Ev :=
  let s1 := if c.strict then setMax fx s c.maxEvals
            else if fx.resetCap then { s with maxSub := -1 } else s
  match c.timeout with
  | some _ => { s1 with timeoutSet := true }
  | none => if fx.clearTimeout then { s1 with timeoutSet := false } else s1

/-- everything after the loop, with the disk -/
def finishD (cfg : Cfg) (p : Path) (s : Ev) (lp : (Ev × Stop) × Disk) : (Ev × Out) × Disk :=
  match lp.1.2 with
  | .noJobs => ((lp.1.1, mkOut s lp.1.1 .noJobs false), lp.2)
  | .badEnv => ((lp.1.1, mkOut s lp.1.1 .badEnv false), lp.2)
  | .envExhausted => ((lp.1.1, mkOut s lp.1.1 .envExhausted false), lp.2)
  | stop =>
    let dr := drainD cfg p lp.1.1 lp.2
    if dr.1.2 then ((dr.1.1, mkOut s dr.1.1 .hang false), dr.2)
    else
      let c5 := close dr.1.1
      let s5 := dump c5
      ((s5, mkOut s s5 stop true), dumpTo cfg dr.2 p c5.pending)

theorem searchCallD_def (fx : Fixes) (cfg : Cfg) (p : Path) (s : Ev) (d : Disk) (c : Call) (env : List Step) :
    searchCallD fx cfg p s d c env =
      if badTimeout c then ((s, mkOut s s .badTimeout false), d)
      else finishD cfg p s (loopD cfg c.strict (target c (prepFx fx s c)) p (prepFx fx s c) d
        (prepFx fx s c).W env) := by
  obtain ⟨n, strict, to⟩ := c
  cases to <;> rfl

theorem searchCall_defFx (fx : Fixes) (s : Ev) (c : Call) (env : List Step) :
    searchCall fx s c env =
      if badTimeout c then (s, mkOut s s .badTimeout false)
      else finish s (loop c.strict (target c (prepFx fx s c)) (prepFx fx s c) (prepFx fx s c).W env) := by
  obtain ⟨n, strict, to⟩ := c
  cases to <;> rfl

theorem prepFx_rows (fx : Fixes) (s : Ev) (c : Call) : (prepFx fx s c).rows = s.rows := by
  obtain ⟨n, strict, to⟩ := c
  cases to <;> cases strict <;> cases h1 : fx.resetCap <;> cases h2 : fx.clearTimeout <;>
    simp [prepFx, setMax, h1, h2]

theorem finishD_proj (cfg : Cfg) (p : Path) (s s0 : Ev) (d : Disk) (lp : Ev × Stop) (dl : Disk)
    (ht : Tracks cfg p s0 d lp.1 dl) :
    (finishD cfg p s (lp, dl)).1 = finish s lp ∧ Tracks cfg p s0 d (finish s lp).1 (finishD cfg p s (lp, dl)).2 := by
  obtain ⟨sl, stop⟩ := lp
  simp only at ht
  obtain ⟨d1, d2⟩ := drainD_proj cfg p sl dl
  have tail : ∀ st : Stop,
      (if (drainD cfg p sl dl).1.2 = true then
          (((drainD cfg p sl dl).1.1, mkOut s (drainD cfg p sl dl).1.1 .hang false), (drainD cfg p sl dl).2)
        else
          ((dump (close (drainD cfg p sl dl).1.1),
            mkOut s (dump (close (drainD cfg p sl dl).1.1)) st true),
           dumpTo cfg (drainD cfg p sl dl).2 p (close (drainD cfg p sl dl).1.1).pending)).1 =
        (if (drain sl).2 = true then ((drain sl).1, mkOut s (drain sl).1 .hang false)
         else (dump (close (drain sl).1), mkOut s (dump (close (drain sl).1)) st true)) ∧
      Tracks cfg p s0 d
        (if (drain sl).2 = true then ((drain sl).1, mkOut s (drain sl).1 .hang false)
         else (dump (close (drain sl).1), mkOut s (dump (close (drain sl).1)) st true)).1
        (if (drainD cfg p sl dl).1.2 = true then
          (((drainD cfg p sl dl).1.1, mkOut s (drainD cfg p sl dl).1.1 .hang false), (drainD cfg p sl dl).2)
        else
          ((dump (close (drainD cfg p sl dl).1.1),
            mkOut s (dump (close (drainD cfg p sl dl).1.1)) st true),
           dumpTo cfg (drainD cfg p sl dl).2 p (close (drainD cfg p sl dl).1.1).pending)).2 := by
    intro st
    rw [d1]
    have t2 := Tracks.trans ht d2
    by_cases hh : (drain sl).2 = true
    · simp only [hh, if_true]; exact ⟨by triv, t2⟩
    · have hh' : (drain sl).2 = false := by cases h : (drain sl).2 <;> simp_all
      simp only [hh', Bool.false_eq_true, if_false]
      have hc : (close (drain sl).1).rows = (drain sl).1.rows := by simp [close]
      exact ⟨by triv, Tracks.trans t2 (Tracks.trans (Tracks.same _ hc) (Tracks.dump _ _))⟩
  cases stop with
  | noJobs => exact ⟨rfl, ht⟩
  | badEnv => exact ⟨rfl, ht⟩
  | envExhausted => exact ⟨rfl, ht⟩
  | budget => exact tail .budget
  | cap => exact tail .cap
  | timeout => exact tail .timeout
  | badTimeout => exact tail .badTimeout
  | hang => exact tail .hang

/-- `searchCallD` is `searchCall` with the rows it counts written to `p/results.csv` -/
theorem searchCallD_proj (fx : Fixes) (cfg : Cfg) (p : Path) (s : Ev) (d : Disk) (c : Call) (env : List Step) :
    (searchCallD fx cfg p s d c env).1 = searchCall fx s c env ∧
    Tracks cfg p s d (searchCall fx s c env).1 (searchCallD fx cfg p s d c env).2 := by
  rw [searchCallD_def, searchCall_defFx]
  cases badTimeout c with
  | true => exact ⟨rfl, Tracks.refl cfg p s d⟩
  | false =>
    simp only [Bool.false_eq_true, if_false]
    obtain ⟨l1, l2⟩ := loopD_proj cfg c.strict (target c (prepFx fx s c)) p env (prepFx fx s c) d
      (prepFx fx s c).W
    have l2' : Tracks cfg p s d (loop c.strict (target c (prepFx fx s c)) (prepFx fx s c)
        (prepFx fx s c).W env).1
        (loopD cfg c.strict (target c (prepFx fx s c)) p (prepFx fx s c) d (prepFx fx s c).W env).2 := by
      rcases l2 with ⟨r, e⟩ | ⟨k, r, e⟩
      · exact Or.inl ⟨by rw [r, prepFx_rows], e⟩
      · exact Or.inr ⟨k, by rw [r, prepFx_rows], e⟩
    generalize loopD cfg c.strict (target c (prepFx fx s c)) p (prepFx fx s c) d (prepFx fx s c).W env
      = lpd at l1 l2'
    obtain ⟨lp', dl⟩ := lpd
    simp only at l1 l2'
    subst l1
    exact finishD_proj cfg p s s d _ dl l2'

/-! ### what a dump does to the disk (repaired code: the dump state is per file) -/

theorem dumpTo_other (d : Disk) (p : Path) (k : Nat) {q : Path} (h : q ≠ p) :
    (dumpTo {} d p k).fs q = d.fs q ∧ (dumpTo {} d p k).started q = d.started q := by
  unfold dumpTo
  split
  · exact ⟨rfl, rfl⟩
  · unfold writeRows
    split
    · exact ⟨fsSet_other _ _ h, rfl⟩
    · exact ⟨fsSet_other _ _ h, by simp [setStarted, h]⟩

theorem dumpTo_pos_spec (d : Disk) (p : Path) {k : Nat} (hk : 0 < k) :
    (dumpTo {} d p k).started p = true ∧
    (d.started p = true → (dumpTo {} d p k).fs p = (match d.fs p with
        | some f => some { f with lines := f.lines + k }
        | none => some { header := false, lines := k })) ∧
    (d.started p = false → (dumpTo {} d p k).fs p = some { header := true, lines := k }) := by
  have hk0 : k ≠ 0 := by omega
  unfold dumpTo
  simp only [hk0, if_false]
  unfold writeRows
  cases h1 : d.started p with
  | true =>
    simp only [if_true, fsSet_self]
    exact ⟨h1, fun _ => by triv, fun hn => by simp at hn⟩
  | false =>
    simp only [Bool.false_eq_true, if_false, fsSet_self, setStarted_self]
    exact ⟨by triv, fun ha => by simp at ha, fun _ => by triv⟩

/-! ### the world invariant -/

/-- what holds between two events for a search object that is not over: as long as it has performed
no evaluation its results file does not exist and no header is recorded as written for it;
afterwards the file holds exactly its evaluations under the header line, recorded as written -/
structure ObjOK (started : Path → Bool) (fs : FS) (ob : Obj) : Prop where
  empty : ob.own = 0 → fs ob.dir = none ∧ started ob.dir = false
  full : 0 < ob.own → started ob.dir = true ∧ fs ob.dir = some { header := true, lines := ob.own }

theorem ObjOK_congr {st st' : Path → Bool} {fs fs' : FS} {ob : Obj}
    (h1 : fs' ob.dir = fs ob.dir) (h2 : st' ob.dir = st ob.dir) :
    ObjOK st' fs' ob = ObjOK st fs ob := by
  apply propext
  constructor
  · intro ⟨a, b⟩
    exact ⟨fun h => by rw [← h1, ← h2]; exact a h, fun h => by rw [← h1, ← h2]; exact b h⟩
  · intro ⟨a, b⟩
    exact ⟨fun h => by rw [h1, h2]; exact a h, fun h => by rw [h1, h2]; exact b h⟩

/-- between two events: the evaluator is quiescent and every search object that is not over is in
order -/
structure Inv (W : Nat) (w : World) : Prop where
  quiet : Quiet w.ev
  evW : w.ev.W = W
  objs : ∀ j ob, w.objs j = some ob → ob.valid = true → ObjOK w.started w.fs ob

theorem initW_inv (W : Nat) (fs : FS) (cwd : Path) : Inv W (initW W fs cwd) :=
  ⟨init_quiet W, rfl, by intro j ob h; simp [initW] at h⟩

/-- the table a call on a search object must return after `e` more evaluations -/
def expectTable (own e : Nat) : Option Table :=
  if own + e = 0 then none else some { rows := own + e, wellFormed := true }

theorem returned_settled {o : Out} (h : returned o = true) : Settled o := by
  unfold returned at h
  unfold Settled
  cases hs : o.stop <;> simp [hs] at h ⊢

/-- an object that is still valid after another object was constructed / called in `dir` is in
another directory, and is unchanged -/
theorem overBy_valid {b : Obj} {dir : Path} (h : (b.overBy dir).valid = true) :
    b.overBy dir = b ∧ b.valid = true ∧ b.dir ≠ dir := by
  unfold Obj.overBy at h ⊢
  by_cases hc : b.dir = dir
  · simp [hc] at h
  · simp only [hc, if_false] at h ⊢
    exact ⟨by triv, h, hc⟩

/-- a construction keeps the invariant -/
theorem new_inv (W : Nat) (w : World) (hi : Inv W w) (ld : LogDir) :
    Inv W (stepW {} w (.new ld)).1 := by
  obtain ⟨hq, hw, hobjs⟩ := hi
  refine ⟨hq, hw, ?_⟩
  intro j ob hj hv
  simp only [stepW] at hj ⊢
  have hfs : ∀ q, q ≠ resolve w.cwd ld →
      (if (w.fs (resolve w.cwd ld)).isSome = true then fsSet w.fs (resolve w.cwd ld) none else w.fs) q
        = w.fs q := by
    intro q hq'
    split
    · exact fsSet_other _ _ hq'
    · rfl
  have hnone : (if (w.fs (resolve w.cwd ld)).isSome = true then fsSet w.fs (resolve w.cwd ld) none
      else w.fs) (resolve w.cwd ld) = none := by
    split
    · exact fsSet_self _ _ _
    · next h => simpa using h
  by_cases hjn : j = w.nobj
  · simp only [hjn, if_true, Option.some.injEq] at hj
    subst hj
    exact ⟨fun _ => ⟨hnone, by simp only [if_true]; exact setStarted_self _ _ _ _⟩, fun h => by simp at h⟩
  · simp only [hjn, if_false] at hj
    cases hb : w.objs j with
    | none => simp [hb] at hj
    | some b =>
      simp only [hb, Option.map_some, Option.some.injEq] at hj
      subst hj
      obtain ⟨e1, e2, e4⟩ := overBy_valid hv
      rw [e1]
      obtain ⟨oe, of⟩ := hobjs j b hb e2
      have hst : setStarted {} w.started (resolve w.cwd ld) false b.dir = w.started b.dir := by
        simp [setStarted, e4]
      simp only [if_true]
      exact ⟨fun h0 => ⟨by rw [hfs _ e4]; exact (oe h0).1, by rw [hst]; exact (oe h0).2⟩,
        fun h0 => ⟨by rw [hst]; exact (of h0).1, by rw [hfs _ e4]; exact (of h0).2⟩⟩

/-- a call keeps the invariant; on an object that is not over it returns the table of the object's
own evaluations -/
theorem call_inv (W : Nat) (hW : 1 ≤ W) (w : World) (hi : Inv W w) (o : Nat) (c : Call)
    (env : List Step) (a : Option Path)
    (hs : ∀ ow, (stepW {} w (.call o c env a)).2 = some ow → Settled ow.out) :
    Inv W (stepW {} w (.call o c env a)).1 ∧
    ∀ ob, w.objs o = some ob → ∀ ow, (stepW {} w (.call o c env a)).2 = some ow →
      (stepW {} w (.call o c env a)).1.objs o = some { ob with own := ob.own + ow.out.evals } ∧
      (ob.valid = true → returned ow.out = true → ow.table = expectTable ob.own ow.out.evals) := by
  obtain ⟨hq, hw, hobjs⟩ := hi
  cases hob : w.objs o with
  | none =>
    simp only [stepW, hob]
    exact ⟨⟨hq, hw, hobjs⟩, by intro ob h; simp at h⟩
  | some ob =>
    simp only [stepW, hob] at hs ⊢
    obtain ⟨p1, p2⟩ := searchCallD_proj {} {} ob.dir w.ev { started := w.started, fs := w.fs } c env
    generalize searchCallD {} {} ob.dir w.ev { started := w.started, fs := w.fs } c env
      = r at p1 p2 hs ⊢
    obtain ⟨sc, dk⟩ := r
    simp only at p1 p2 hs ⊢
    subst p1
    have hset : Settled (searchCall {} w.ev c env).2 := hs _ rfl
    obtain ⟨cq, cw, cr, _⟩ := searchCall_settled w.ev c env (by omega) hq hset
    generalize he : (searchCall {} w.ev c env).2.evals = e at cr ⊢
    -- the disk: one dump of `e` rows in all
    have hdk : dk = dumpTo {} { started := w.started, fs := w.fs } ob.dir e := by
      rcases p2 with ⟨r1, e1⟩ | ⟨k, r1, e1⟩
      · have : e = 0 := by omega
        subst this
        rw [e1]; simp [dumpTo]
      · have : k = e := by omega
        subst this
        exact e1
    -- the called object, when it is not over
    have hme : ob.valid = true →
        ObjOK dk.started dk.fs { ob with own := ob.own + e } ∧
        dk.fs ob.dir = (if ob.own + e = 0 then none
          else some { header := true, lines := ob.own + e }) := by
      intro hv
      obtain ⟨oe, of⟩ := hobjs o ob hob hv
      rw [hdk]
      by_cases hez : e = 0
      · subst hez
        simp only [dumpTo, if_true, Nat.add_zero]
        refine ⟨⟨oe, of⟩, ?_⟩
        by_cases h0 : ob.own = 0
        · rw [if_pos h0]; exact (oe h0).1
        · rw [if_neg h0]; exact (of (by omega)).2
      · obtain ⟨z1, z2, z3⟩ := dumpTo_pos_spec { started := w.started, fs := w.fs } ob.dir
          (k := e) (by omega)
        have hne : ob.own + e ≠ 0 := by omega
        rw [if_neg hne]
        by_cases h0 : ob.own = 0
        · obtain ⟨g1, g2⟩ := oe h0
          have hf := z3 g2
          rw [h0, Nat.zero_add]
          exact ⟨⟨fun h => absurd h hez, fun _ => ⟨z1, hf⟩⟩, hf⟩
        · obtain ⟨g1, g3⟩ := of (by omega)
          have hf := z2 g1
          simp only [g3] at hf
          exact ⟨⟨fun h => by have : ob.own + e = 0 := h; omega, fun _ => ⟨z1, hf⟩⟩, hf⟩
    subst he
    refine ⟨⟨cq, by rw [cw, hw], ?_⟩, ?_⟩
    · intro j b hj hv
      dsimp only at hj ⊢
      by_cases hjo : j = o
      · simp only [hjo, if_true, Option.some.injEq] at hj
        subst hj
        exact (hme hv).1
      · simp only [hjo, if_false] at hj
        cases hb : w.objs j with
        | none => simp [hb] at hj
        | some b0 =>
          simp only [hb, Option.map_some, Option.some.injEq] at hj
          subst hj
          obtain ⟨e1, e2, e4⟩ := overBy_valid hv
          rw [e1]
          obtain ⟨be, bf⟩ := hobjs j b0 hb e2
          obtain ⟨x1, x2⟩ := dumpTo_other { started := w.started, fs := w.fs } ob.dir
            (searchCall {} w.ev c env).2.evals e4
          rw [hdk, ObjOK_congr x1 x2]
          exact ⟨be, bf⟩
    · intro ob' hob' ow how
      simp only [Option.some.injEq] at hob' how
      subst hob'
      subst how
      dsimp only
      refine ⟨by simp, ?_⟩
      intro hv hret
      rw [if_pos hret, (hme hv).2]
      unfold expectTable
      split
      · rfl
      · simp [readCsv]

/-- every call of the history returned or raised the argument error -/
def AllSettledW (outs : List (Option OutW)) : Prop := ∀ o ∈ outs, ∀ ow, o = some ow → Settled ow.out

theorem stepW_inv (W : Nat) (hW : 1 ≤ W) (w : World) (hi : Inv W w) (op : Op)
    (hs : ∀ ow, (stepW {} w op).2 = some ow → Settled ow.out) : Inv W (stepW {} w op).1 := by
  cases op with
  | new ld => exact new_inv W w hi ld
  | chdir p => exact ⟨hi.quiet, hi.evW, hi.objs⟩
  | call o c env a => exact (call_inv W hW w hi o c env a hs).1

theorem runOps_inv (W : Nat) (hW : 1 ≤ W) : ∀ (ops : List Op) (w : World), Inv W w →
    AllSettledW (runOps {} w ops).2 → Inv W (runOps {} w ops).1
  | [], w, hi, _ => by simpa [runOps] using hi
  | op :: rest, w, hi, hs => by
    simp only [runOps] at hs ⊢
    have h1 := stepW_inv W hW w hi op (fun ow h => hs _ (List.mem_cons_self ..) ow h)
    exact runOps_inv W hW rest _ h1 (fun o ho => hs o (List.mem_cons_of_mem _ ho))

/-- the evaluations of the calls on object `o` in a history and its results -/
def sumEvalsOn (o : Nat) : List Op → List (Option OutW) → Nat
  | .call o' _ _ _ :: ops, some ow :: outs =>
    (if o' = o then ow.out.evals else 0) + sumEvalsOn o ops outs
  | _ :: ops, _ :: outs => sumEvalsOn o ops outs
  | _, _ => 0

/-- `own` is what it is called: the evaluations of the calls on the object; its directory never
changes -/
theorem runOps_own (cfg : Cfg) (o : Nat) : ∀ (ops : List Op) (w : World) (ob : Obj),
    w.objs o = some ob → o < w.nobj →
    ∃ ob', (runOps cfg w ops).1.objs o = some ob' ∧ ob'.dir = ob.dir ∧
      ob'.own = ob.own + sumEvalsOn o ops (runOps cfg w ops).2
  | [], w, ob, h, _ => ⟨ob, by simpa [runOps] using h, rfl, by simp [sumEvalsOn]⟩
  | op :: rest, w, ob, h, hlt => by
    simp only [runOps]
    have key : ∃ ob1, (stepW cfg w op).1.objs o = some ob1 ∧ ob1.dir = ob.dir ∧
        o < (stepW cfg w op).1.nobj ∧
        ∀ outs, ob1.own + sumEvalsOn o rest outs =
          ob.own + sumEvalsOn o (op :: rest) ((stepW cfg w op).2 :: outs) := by
      cases op with
      | new ld =>
        have hne : o ≠ w.nobj := by omega
        refine ⟨ob.overBy (resolve w.cwd ld), by simp [stepW, hne, h], ?_, by simp [stepW]; omega, ?_⟩
        · unfold Obj.overBy; split <;> rfl
        · intro outs
          have : (ob.overBy (resolve w.cwd ld)).own = ob.own := by unfold Obj.overBy; split <;> rfl
          simp [sumEvalsOn, this]
      | chdir p => exact ⟨ob, by simpa [stepW] using h, rfl, by simpa [stepW] using hlt,
          by intro outs; simp [sumEvalsOn]⟩
      | call o' c env a =>
        cases hob : w.objs o' with
        | none =>
          exact ⟨ob, by simpa [stepW, hob] using h, rfl, by simpa [stepW, hob] using hlt,
            by intro outs; simp [stepW, hob, sumEvalsOn]⟩
        | some ob2 =>
          by_cases hoo : o = o'
          · subst hoo
            rw [h] at hob
            simp only [Option.some.injEq] at hob
            subst hob
            refine ⟨{ ob with own := ob.own + (searchCallD {} cfg ob.dir w.ev
                { started := w.started, fs := w.fs } c env).1.2.evals },
              by simp [stepW, h], rfl, by simpa [stepW, h] using hlt, ?_⟩
            intro outs
            simp [stepW, h, sumEvalsOn, Nat.add_assoc]
          · have hoo' : ¬ o' = o := fun e => hoo e.symm
            refine ⟨ob.overBy ob2.dir, by simp [stepW, hob, hoo, h], ?_, by simpa [stepW, hob] using hlt, ?_⟩
            · unfold Obj.overBy; split <;> rfl
            · intro outs
              have : (ob.overBy ob2.dir).own = ob.own := by unfold Obj.overBy; split <;> rfl
              simp [stepW, hob, sumEvalsOn, this, hoo']
    obtain ⟨ob1, k1, k2, k3, k4⟩ := key
    obtain ⟨ob', r1, r2, r3⟩ := runOps_own cfg o rest (stepW cfg w op).1 ob1 k1 k3
    exact ⟨ob', r1, by rw [r2, k2], by rw [r3, k4]⟩

end DH.SearchObjects
