import Proofs.EvaluatorMultiSim3

/-!
What a call of one evaluator can do to the rows of the shared storage search (`RowsStep`): only the rows of
its own READY/RUNNING jobs change (id, owner and configuration never), new rows are its own and are
appended; consequently every selection of rows by ids that are not its own is untouched, and rows with a
terminal status are immutable.  Core Lean only.
-/

namespace DH.Evaluator

variable {C O : Type}

structure RowsStep (who : Nat) (J : List Nat) (rows rows' : List (Row C O)) : Prop where
  len : rows.length ≤ rows'.length
  /-- the rows selected by ids that are not jobs of `who` are the same -/
  frame : ∀ K : List Nat, (∀ g ∈ K, g ∉ J) → ownRows rows' K = ownRows rows K
  /-- rows with a terminal status are immutable -/
  frozen : ∀ r ∈ rows, activeRow r = false → r ∈ rows'
  /-- every row is an old row (same id, owner) or a new row of `who` -/
  keys : ∀ r' ∈ rows', (∃ r ∈ rows, r.id = r'.id ∧ r.owner = r'.owner) ∨ (r'.owner = who ∧ r'.id ∈ J ∧ rows.length ≤ r'.id)
  /-- ids, owners and configurations are never rewritten -/
  pre : rows.map (fun r => (r.id, r.owner, r.cfg)) <+: rows'.map (fun r => (r.id, r.owner, r.cfg))

theorem RowsStep.refl (who : Nat) (J : List Nat) (rows : List (Row C O)) : RowsStep who J rows rows :=
  ⟨Nat.le_refl _, fun _ _ => rfl, fun _ h _ => h, fun r h => Or.inl ⟨r, h, rfl, rfl⟩, List.prefix_refl _⟩

theorem RowsStep.mono {who : Nat} {J J' : List Nat} {rows rows' : List (Row C O)} (h : RowsStep who J rows rows')
    (hJ : ∀ g ∈ J, g ∈ J') : RowsStep who J' rows rows' :=
  ⟨h.len, fun K hK => h.frame K (fun g hg hj => hK g hg (hJ g hj)), h.frozen,
    fun r' hr' => (h.keys r' hr').imp id (fun ⟨a, b, c⟩ => ⟨a, hJ _ b, c⟩), h.pre⟩

theorem RowsStep.trans {who : Nat} {J : List Nat} {rows rows' rows'' : List (Row C O)}
    (h1 : RowsStep who J rows rows') (h2 : RowsStep who J rows' rows'') : RowsStep who J rows rows'' := by
  refine ⟨Nat.le_trans h1.len h2.len, fun K hK => (h2.frame K hK).trans (h1.frame K hK), ?_, ?_,
    h1.pre.trans h2.pre⟩
  · intro r hr ht
    exact h2.frozen r (h1.frozen r hr ht) ht
  · intro r'' hr''
    rcases h2.keys r'' hr'' with ⟨r', hr', e1, e2⟩ | ⟨a, b, c⟩
    · rcases h1.keys r' hr' with ⟨r, hr, e3, e4⟩ | ⟨a, b, c⟩
      · exact Or.inl ⟨r, hr, e3.trans e1, e4.trans e2⟩
      · exact Or.inr ⟨e2 ▸ a, e1 ▸ b, e1 ▸ c⟩
    · exact Or.inr ⟨a, b, Nat.le_trans h1.len c⟩

/-- an update of the rows that only touches READY/RUNNING jobs of `who` -/
theorem RowsStep.map (who : Nat) (J : List Nat) (rows : List (Row C O)) (f : Row C O → Row C O)
    (hid : ∀ r, (f r).id = r.id ∧ (f r).owner = r.owner ∧ (f r).cfg = r.cfg)
    (hf : ∀ r ∈ rows, f r ≠ r → r.id ∈ J ∧ activeRow r = true) :
    RowsStep who J rows (rows.map f) := by
  refine ⟨by simp, ?_, ?_, ?_, ?_⟩
  · intro K hK
    rw [ownRows_map _ _ _ (fun r => (hid r).1)]
    conv => rhs; rw [← List.map_id (ownRows rows K)]
    apply List.map_congr_left
    intro r hr
    obtain ⟨hm, hc⟩ := List.mem_filter.1 hr
    by_cases h : f r = r
    · simpa using h
    · exact absurd (hf r hm h).1 (hK r.id (by simpa using hc))
  · intro r hr ht
    by_cases h : f r = r
    · exact List.mem_map.2 ⟨r, hr, h⟩
    · have := (hf r hr h).2; rw [ht] at this; simp at this
  · intro r' hr'
    obtain ⟨r, hr, rfl⟩ := List.mem_map.1 hr'
    exact Or.inl ⟨r, hr, (hid r).1.symm, (hid r).2.1.symm⟩
  · rw [List.map_map]
    have : (fun r : Row C O => (r.id, r.owner, r.cfg)) ∘ f = fun r => (r.id, r.owner, r.cfg) := by
      funext r
      simp [Function.comp, (hid r).1, (hid r).2.1, (hid r).2.2]
    rw [this]
    exact List.prefix_refl _

/-- a new job of `who` -/
theorem RowsStep.create (who : Nat) (J : List Nat) (rows : List (Row C O)) (c : C)
    (hids : rows.map (·.id) = List.range rows.length) (hJ : rows.length ∈ J) :
    RowsStep who J rows (rows ++ [newRow who rows.length c]) := by
  refine ⟨by simp, ?_, ?_, ?_, ?_⟩
  · intro K hK
    unfold ownRows
    rw [List.filter_append]
    have : ([newRow who rows.length c] : List (Row C O)).filter (fun r => K.contains r.id) = [] := by
      simp only [List.filter_cons, List.filter_nil, newRow, List.contains_eq_mem, decide_eq_true_eq]
      rw [if_neg (fun h => hK _ h hJ)]
    rw [this, List.append_nil]
  · intro r hr _; exact List.mem_append_left _ hr
  · intro r' hr'
    rcases List.mem_append.1 hr' with h | h
    · exact Or.inl ⟨r', h, rfl, rfl⟩
    · simp only [List.mem_singleton] at h
      subst h
      exact Or.inr ⟨rfl, hJ, Nat.le_refl _⟩
  · rw [List.map_append]; exact List.prefix_append _ _

/-! ### the operations of an evaluator -/

theorem mCreateTasks_jobs (who : Nat) : ∀ (cfgs : List C) (k : Nat) (st : List (Row C O) × MEv C O),
    ∀ g ∈ st.2.jobs, g ∈ (mCreateTasks who st k cfgs).1.2.jobs
  | [], _, _, g, hg => hg
  | c :: cs, k, st, g, hg => by
    simp only [mCreateTasks]
    split
    · exact hg
    · apply mCreateTasks_jobs who cs (k + 1) (mCreateTask who st c) g
      show g ∈ st.2.jobs ++ [st.1.length]
      exact List.mem_append_left _ hg

theorem mCreateTasks_rowsStep (who : Nat) : ∀ (cfgs : List C) (k : Nat) (st : List (Row C O) × MEv C O),
    st.1.map (·.id) = List.range st.1.length →
    RowsStep who (mCreateTasks who st k cfgs).1.2.jobs st.1 (mCreateTasks who st k cfgs).1.1 ∧
      (mCreateTasks who st k cfgs).1.1.map (·.id) = List.range (mCreateTasks who st k cfgs).1.1.length
  | [], _, st, h => ⟨RowsStep.refl _ _ _, h⟩
  | c :: cs, k, st, h => by
    simp only [mCreateTasks]
    split
    · exact ⟨RowsStep.refl _ _ _, h⟩
    · have hids : (mCreateTask who st c).1.map (·.id) = List.range (mCreateTask who st c).1.length := by
        show (st.1 ++ [newRow who st.1.length c]).map (fun r : Row C O => r.id) =
          List.range (st.1 ++ [newRow who st.1.length c]).length
        rw [List.map_append, h]
        simp [List.range_succ, newRow]
      obtain ⟨ih, hids'⟩ := mCreateTasks_rowsStep who cs (k + 1) (mCreateTask who st c) hids
      refine ⟨?_, hids'⟩
      have hJ : st.1.length ∈ (mCreateTasks who (mCreateTask who st c) (k + 1) cs).1.2.jobs := by
        apply mCreateTasks_jobs
        show st.1.length ∈ st.2.jobs ++ [st.1.length]
        simp
      exact (RowsStep.create who _ st.1 c h hJ).trans ih

theorem rowOf_updRow_ne (rows : List (Row C O)) (g g' : Nat) (r' : Row C O) (hr' : r'.id = g) (hne : g' ≠ g) :
    rowOf (updRow rows g (fun _ => r')) g' = rowOf rows g' := by
  unfold rowOf updRow
  rw [List.find?_map]
  have : ((fun r : Row C O => r.id == g') ∘ fun r => if r.id = g then r' else r) = fun r => r.id == g' := by
    funext r
    simp only [Function.comp]
    by_cases h : r.id = g
    · rw [if_pos h, hr', h]
    · rw [if_neg h]
  rw [this]
  cases hf : rows.find? (fun r => r.id == g') with
  | none => rfl
  | some x =>
    have hx : x.id = g' := by simpa using List.find?_some hf
    simp only [Option.map_some]
    rw [if_neg (by rw [hx]; exact hne)]

theorem updRow_const_rowsStep (who : Nat) (J : List Nat) {rows : List (Row C O)} {g : Nat} {r r' : Row C O}
    (hn : (rows.map (·.id)).Nodup) (hrow : rowOf rows g = some r)
    (hr' : r'.id = r.id ∧ r'.owner = r.owner ∧ r'.cfg = r.cfg) (hJ : g ∈ J) (hact : activeRow r = true) :
    RowsStep who J rows (updRow rows g (fun _ => r')) := by
  obtain ⟨hm, hid⟩ := rowOf_some hrow
  have heq : ∀ x ∈ rows, x.id = g → x = r := fun x hx e =>
    eq_of_nodup_map (·.id) hn hx hm (e.trans hid.symm)
  -- an equal update function that keeps id / owner / cfg of EVERY row
  have hfun : updRow rows g (fun _ => r') =
      rows.map (fun x => if x.id = g then { x with out := r'.out, sout := r'.sout, status := r'.status } else x) := by
    unfold updRow
    apply List.map_congr_left
    intro x hx
    by_cases h : x.id = g
    · rw [if_pos h, if_pos h]
      have := heq x hx h
      subst this
      cases r'; cases x
      simp only at hr'
      obtain ⟨a, b, c⟩ := hr'
      subst a b c
      rfl
    · rw [if_neg h, if_neg h]
  rw [hfun]
  apply RowsStep.map
  · intro x; split <;> exact ⟨rfl, rfl, rfl⟩
  · intro x hx hne
    by_cases h : x.id = g
    · have := heq x hx h
      subst this
      exact ⟨h ▸ hJ, hact⟩
    · rw [if_neg h] at hne; exact absurd rfl hne

theorem mProcessAll_rowsStep (p : MParams C O) (via : Via) (who : Nat) (J : List Nat) :
    ∀ (l : List Nat) (st : List (Row C O) × MEv C O), (st.1.map (·.id)).Nodup → l.Nodup →
      (∀ g ∈ l, g ∈ J ∧ ∃ r, rowOf st.1 g = some r ∧ activeRow r = true) →
      RowsStep who J st.1 (mProcessAll p via st l).1.1
  | [], st, _, _, _ => RowsStep.refl _ _ _
  | g :: rest, st, hn, hl, hall => by
    simp only [mProcessAll]
    cases h1 : mProcessOne p via st g with
    | error e => exact RowsStep.refl _ _ _
    | ok x =>
      obtain ⟨st1, j⟩ := x
      obtain ⟨r, hrow, _, _, _, hst1⟩ := mProcessOne_ok h1
      obtain ⟨hJ, r0, hrow0, hact⟩ := hall g (by simp)
      rw [hrow] at hrow0
      simp only [Option.some.injEq] at hrow0
      subst hrow0
      have hstep : RowsStep who J st.1 st1.1 := by
        rw [hst1]
        exact updRow_const_rowsStep who J hn hrow ⟨rfl, rfl, rfl⟩ hJ hact
      have hn1 : (st1.1.map (·.id)).Nodup := by
        rw [hst1]
        show ((updRow st.1 g (fun _ => procRow p r)).map (·.id)).Nodup
        unfold updRow
        rw [map_id_map _ _ (updRow_id g (procRow p r) (rowOf_some hrow).2)]
        exact hn
      have hl' := List.nodup_cons.1 hl
      have hall1 : ∀ g' ∈ rest, g' ∈ J ∧ ∃ r, rowOf st1.1 g' = some r ∧ activeRow r = true := by
        intro g' hg'
        obtain ⟨a, b⟩ := hall g' (by simp [hg'])
        refine ⟨a, ?_⟩
        rw [hst1]
        show ∃ r_1, rowOf (updRow st.1 g (fun _ => procRow p r)) g' = some r_1 ∧ _
        rw [rowOf_updRow_ne st.1 g g' (procRow p r) (rowOf_some hrow).2 (fun e => hl'.1 (e ▸ hg'))]
        exact b
      have ih := mProcessAll_rowsStep p via who J rest st1 hn1 hl'.2 hall1
      simp only
      cases h2 : mProcessAll p via st1 rest with
      | mk st2 res =>
        rw [h2] at ih
        cases res with
        | ok js => exact hstep.trans ih
        | error e => exact hstep.trans ih

end DH.Evaluator
