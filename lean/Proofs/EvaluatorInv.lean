import Proofs.Evaluator

/-! The bookkeeping invariant of the evaluator model and its preservation (core Lean only). -/

namespace DH.Evaluator

variable {C O : Type}

theorem eq_of_nodup_map {α β : Type} (f : α → β) :
    ∀ {l : List α}, (l.map f).Nodup → ∀ {a b : α}, a ∈ l → b ∈ l → f a = f b → a = b
  | [], _, _, _, ha, _, _ => by simp at ha
  | x :: l, hn, a, b, ha, hb, hab => by
    simp only [List.map_cons, List.nodup_cons, List.mem_map, not_exists, not_and] at hn
    simp only [List.mem_cons] at ha hb
    rcases ha with rfl | ha <;> rcases hb with rfl | hb
    · rfl
    · exact absurd hab.symm (hn.1 b hb)
    · exact absurd hab (hn.1 a ha)
    · exact eq_of_nodup_map f hn.2 ha hb hab

/-- the structural invariant: ids are `0..nextId-1`; tasks in flight = `job_id_submitted`;
in-flight ids and delivered ids partition all ids; every task lives on the current loop;
a job is READY/RUNNING exactly when it is in flight -/
structure Inv (s : Ev C O) : Prop where
  ids : s.jobs.map (·.id) = List.range s.nextId
  runSub : s.running.map (·.id) = s.submitted
  part : (s.submitted ++ s.delivered.map (·.1)).Perm (List.range s.nextId)
  gen : ∀ t ∈ s.running, t.gen = s.loopGen
  loop : s.running ≠ [] → s.loopOpen = true
  act : ∀ j ∈ s.jobs, (active j = true ↔ j.id ∈ s.submitted)

theorem Inv.init : Inv (init : Ev C O) := by
  refine ⟨rfl, rfl, ?_, ?_, ?_, ?_⟩ <;> simp [DH.Evaluator.init]

theorem Inv.nodup {s : Ev C O} (h : Inv s) : (s.submitted ++ s.delivered.map (·.1)).Nodup :=
  h.part.nodup_iff.2 List.nodup_range

theorem Inv.sub_nodup {s : Ev C O} (h : Inv s) : s.submitted.Nodup :=
  (List.nodup_append.1 h.nodup).1

theorem Inv.sub_lt {s : Ev C O} (h : Inv s) {i : Nat} (hi : i ∈ s.submitted) : i < s.nextId := by
  have : i ∈ List.range s.nextId := h.part.subset (List.mem_append_left _ hi)
  simpa using this

theorem Inv.del_lt {s : Ev C O} (h : Inv s) {i : Nat} (hi : i ∈ s.delivered.map (·.1)) :
    i < s.nextId := by
  have : i ∈ List.range s.nextId := h.part.subset (List.mem_append_right _ hi)
  simpa using this

theorem Inv.sub_not_del {s : Ev C O} (h : Inv s) {i : Nat} (hi : i ∈ s.submitted) :
    i ∉ s.delivered.map (·.1) := fun hd =>
  (List.nodup_append.1 h.nodup).2.2 i hi i hd rfl

theorem Inv.job_lt {s : Ev C O} (h : Inv s) {j : JobRec C O} (hj : j ∈ s.jobs) : j.id < s.nextId := by
  have : j.id ∈ s.jobs.map (·.id) := List.mem_map_of_mem hj
  rw [h.ids] at this
  simpa using this

theorem Inv.ids_nodup {s : Ev C O} (h : Inv s) : (s.jobs.map (·.id)).Nodup := by
  rw [h.ids]; exact List.nodup_range

/-- two records of `jobs` with the same id are the same record -/
theorem Inv.job_unique {s : Ev C O} (h : Inv s) {a b : JobRec C O} (ha : a ∈ s.jobs) (hb : b ∈ s.jobs)
    (hab : a.id = b.id) : a = b :=
  eq_of_nodup_map (·.id) h.ids_nodup ha hb hab

theorem Inv.find {s : Ev C O} (h : Inv s) {i : Nat} (hi : i < s.nextId) :
    ∃ j, findJob s.jobs i = some j ∧ j ∈ s.jobs ∧ j.id = i := by
  have : i ∈ s.jobs.map (·.id) := by rw [h.ids]; simpa using hi
  obtain ⟨j, hj⟩ := findJob_of_mem_ids this
  exact ⟨j, hj, (findJob_some hj).1, (findJob_some hj).2⟩

/-! ### submit -/

theorem Inv.setEventLoop {s : Ev C O} (h : Inv s) :
    Inv (setEventLoop s) ∧ (setEventLoop s).loopOpen = true := by
  unfold DH.Evaluator.setEventLoop
  split
  · rename_i hl; exact ⟨h, hl⟩
  · rename_i hl
    have hr : s.running = [] := by
      by_cases hr : s.running = []
      · exact hr
      · exact absurd (h.loop hr) hl
    refine ⟨⟨h.ids, h.runSub, h.part, ?_, fun _ => rfl, h.act⟩, rfl⟩
    intro t ht
    simp [hr] at ht

theorem Inv.createTask {s : Ev C O} (h : Inv s) (hl : s.loopOpen = true) (c : C) :
    Inv (createTask s c) ∧ (createTask s c).loopOpen = true := by
  refine ⟨⟨?_, ?_, ?_, ?_, fun _ => hl, ?_⟩, hl⟩
  · simp [DH.Evaluator.createTask, h.ids, List.range_succ]
  · simp [DH.Evaluator.createTask, h.runSub]
  · simp only [DH.Evaluator.createTask, List.range_succ]
    have h1 : (s.submitted ++ [s.nextId] ++ s.delivered.map (·.1)).Perm
        (s.submitted ++ s.delivered.map (·.1) ++ [s.nextId]) := by
      rw [List.append_assoc, List.append_assoc]
      exact List.Perm.append_left _ List.perm_append_comm
    exact h1.trans (List.Perm.append_right _ h.part)
  · intro t ht
    simp only [DH.Evaluator.createTask, List.mem_append, List.mem_singleton] at ht
    rcases ht with ht | rfl
    · exact h.gen t ht
    · rfl
  · intro j hj
    simp only [DH.Evaluator.createTask, List.mem_append, List.mem_singleton] at hj ⊢
    rcases hj with hj | rfl
    · have hlt := h.job_lt hj
      rw [h.act j hj]
      constructor
      · exact Or.inl
      · rintro (h1 | h1)
        · exact h1
        · omega
    · simp [active]

theorem Inv.submit {s : Ev C O} (h : Inv s) (cfgs : List C) : Inv (submit s cfgs) := by
  unfold DH.Evaluator.submit
  exact (foldl_createTask_invariant (fun s => Inv s ∧ s.loopOpen = true)
    (fun s c hs => hs.1.createTask hs.2 c) cfgs _ h.setEventLoop).1

/-! ### one processed task -/

theorem mem_updJob {jobs : List (JobRec C O)} {id : Nat} {g : JobRec C O → JobRec C O} {x : JobRec C O} :
    x ∈ updJob jobs id g ↔ ∃ y ∈ jobs, x = if y.id = id then g y else y := by
  simp [updJob, eq_comm]

theorem map_id_eraseP (l : List Task) (id : Nat) :
    (l.eraseP (fun t => t.id == id)).map (·.id) = (l.map (·.id)).erase id := by
  rw [List.erase_eq_eraseP', List.eraseP_map]
  rfl

/-- job `i` is in flight and its task has got a worker slot -/
def RunningAt (s : Ev C O) (i : Nat) : Prop :=
  i ∈ s.submitted ∧ ∀ x ∈ s.jobs, x.id = i → x.status = .running

def idCfg (j : JobRec C O) : Nat × C := (j.id, j.cfg)

/-- everything one iteration of `process_local_tasks_done` does -/
structure OneStep (p : Params C O) (via : Via) (s s' : Ev C O) (id : Nat) (j' : JobRec C O) : Prop where
  inv : Inv s'
  sub : ∀ i, i ∈ s'.submitted ↔ i ∈ s.submitted ∧ i ≠ id
  del : s'.delivered = s.delivered ++ [(id, via)]
  jd : s'.jobsDone = s.jobsDone ++ [id]
  st : j'.status = .done
  out : j'.out = some (p.f j'.cfg)
  jid : j'.id = id
  mem : j' ∈ s'.jobs
  frame : ∀ x : JobRec C O, x.id ≠ id → (x ∈ s'.jobs ↔ x ∈ s.jobs)
  cfgs : s'.jobs.map idCfg = s.jobs.map idCfg
  next : s'.nextId = s.nextId
  lgen : s'.loopGen = s.loopGen
  lopen : s'.loopOpen = s.loopOpen
  runLen : s'.running.length + 1 = s.running.length

theorem Inv.processOne_ok {p : Params C O} {via : Via} {s : Ev C O} {id : Nat} (h : Inv s)
    (hr : RunningAt s id) : ∃ s' j', processOne p via s id = .ok (s', j') := by
  obtain ⟨j, hj, _, _⟩ := h.find (h.sub_lt hr.1)
  have h1 : s.running.any (fun t => t.id == id) = true := by
    have : id ∈ s.running.map (·.id) := by rw [h.runSub]; exact hr.1
    rcases List.mem_map.1 this with ⟨t, ht, hti⟩
    exact List.any_eq_true.2 ⟨t, ht, by simp [hti]⟩
  simp [DH.Evaluator.processOne, h1, hr.1, hj]

theorem Inv.processOne {p : Params C O} {via : Via} {s s' : Ev C O} {id : Nat} {j' : JobRec C O}
    (h : Inv s) (hr : RunningAt s id) (hp : processOne p via s id = .ok (s', j')) :
    OneStep p via s s' id j' := by
  obtain ⟨j, hj, hany, hcont, hj', hs'⟩ := DH.Evaluator.processOne_ok hp
  obtain ⟨hjm, hjid⟩ := findJob_some hj
  have hjst : j.status = .running := hr.2 j hjm hjid
  have hj'id : j'.id = id := by rw [hj']; exact hjid
  have hj'st : j'.status = .done := by rw [hj']; simp [hjst]
  have hj'cfg : j'.cfg = j.cfg := by rw [hj']
  have hidsub : id ∈ s.submitted := hr.1
  have hsubn := h.sub_nodup
  have hmemsub : ∀ i, i ∈ s.submitted.erase id ↔ i ∈ s.submitted ∧ i ≠ id := by
    intro i; rw [hsubn.mem_erase_iff]; exact ⟨fun h => ⟨h.2, h.1⟩, fun h => ⟨h.2, h.1⟩⟩
  have hframe : ∀ x : JobRec C O, x.id ≠ id → (x ∈ updJob s.jobs id (fun _ => j') ↔ x ∈ s.jobs) := by
    intro x hx
    rw [mem_updJob]
    constructor
    · rintro ⟨y, hy, rfl⟩
      by_cases hyi : y.id = id
      · simp only [hyi, if_true] at hx; exact absurd hj'id hx
      · simpa [hyi] using hy
    · intro hxm; exact ⟨x, hxm, by simp [hx]⟩
  have hmem : j' ∈ updJob s.jobs id (fun _ => j') := mem_updJob.2 ⟨j, hjm, by simp [hjid]⟩
  have hcfgs : (updJob s.jobs id (fun _ => j')).map idCfg = s.jobs.map idCfg := by
    simp only [updJob, List.map_map]
    apply List.map_congr_left
    intro y hy
    simp only [Function.comp]
    split
    · rename_i hyi
      have : y = j := h.job_unique hy hjm (hyi.trans hjid.symm)
      subst this
      simp [idCfg, hj'id, hj'cfg, hyi]
    · rfl
  have hids : (updJob s.jobs id (fun _ => j')).map (·.id) = s.jobs.map (·.id) := by
    have := congrArg (List.map Prod.fst) hcfgs
    simpa [List.map_map, Function.comp_def, idCfg] using this
  subst hs'
  refine ⟨⟨?_, ?_, ?_, ?_, ?_, ?_⟩, hmemsub, rfl, rfl, hj'st, ?_, hj'id, hmem, hframe, hcfgs, rfl, rfl, rfl, ?_⟩
  · exact hids.trans h.ids
  · show (s.running.eraseP _).map _ = s.submitted.erase id
    rw [map_id_eraseP, h.runSub]
  · show (s.submitted.erase id ++ (s.delivered ++ [(id, via)]).map (·.1)).Perm _
    simp only [List.map_append, List.map_cons, List.map_nil]
    have h1 : (s.submitted.erase id ++ (s.delivered.map (·.1) ++ [id])).Perm
        (id :: (s.submitted.erase id ++ s.delivered.map (·.1))) := by
      rw [← List.append_assoc]; exact List.perm_append_singleton _ _
    have h2 : (id :: (s.submitted.erase id ++ s.delivered.map (·.1))).Perm
        (s.submitted ++ s.delivered.map (·.1)) := by
      rw [← List.cons_append]
      exact List.Perm.append_right _ (List.perm_cons_erase hidsub).symm
    exact h1.trans (h2.trans h.part)
  · intro t ht; exact h.gen t (List.mem_of_mem_eraseP ht)
  · intro hne
    apply h.loop
    intro he
    apply hne
    show s.running.eraseP _ = []
    rw [he]; rfl
  · intro x hx
    show active x = true ↔ x.id ∈ s.submitted.erase id
    rw [hmemsub]
    by_cases hxi : x.id = id
    · obtain ⟨y, hy, hxy⟩ := mem_updJob.1 hx
      have : x = j' := by
        by_cases hyi : y.id = id
        · simpa [hyi] using hxy
        · rw [hxy] at hxi; simp [hyi] at hxi
      subst this
      simp [active, hj'st, hxi]
    · have hx' := (hframe x hxi).1 hx
      rw [h.act x hx']
      exact ⟨fun h => ⟨h, hxi⟩, fun h => h.1⟩
  · rw [hj'cfg, hj']
  · show (s.running.eraseP _).length + 1 = s.running.length
    obtain ⟨t, ht, hti⟩ := List.any_eq_true.1 hany
    rw [List.length_eraseP_of_mem ht hti]
    have : 0 < s.running.length := List.length_pos_of_mem ht
    omega

/-! ### `process_local_tasks_done` on a whole `done` set -/

structure ManyStep (p : Params C O) (via : Via) (s s' : Ev C O) (l : List Nat)
    (js : List (JobRec C O)) : Prop where
  inv : Inv s'
  sub : ∀ i, i ∈ s'.submitted ↔ i ∈ s.submitted ∧ i ∉ l
  del : s'.delivered = s.delivered ++ l.map (fun i => (i, via))
  jd : s'.jobsDone = s.jobsDone ++ l
  ids : js.map (·.id) = l
  res : ∀ j ∈ js, j.status = .done ∧ j.out = some (p.f j.cfg) ∧ j ∈ s'.jobs
  frame : ∀ x : JobRec C O, x.id ∉ l → (x ∈ s'.jobs ↔ x ∈ s.jobs)
  cfgs : s'.jobs.map idCfg = s.jobs.map idCfg
  next : s'.nextId = s.nextId
  lgen : s'.loopGen = s.loopGen
  lopen : s'.loopOpen = s.loopOpen
  runLen : s'.running.length + l.length = s.running.length

theorem Inv.processAll {p : Params C O} {via : Via} :
    ∀ (l : List Nat) (s : Ev C O), Inv s → l.Nodup → (∀ i ∈ l, RunningAt s i) →
      ∃ s' js, processAll p via s l = (s', .ok js) ∧ ManyStep p via s s' l js
  | [], s, h, _, _ =>
    ⟨s, [], rfl, ⟨h, by simp, by simp, by simp, rfl, by simp, by simp, rfl, rfl, rfl, rfl, rfl⟩⟩
  | id :: rest, s, h, hn, hr => by
    obtain ⟨s1, j, hp⟩ := h.processOne_ok (p := p) (via := via) (hr id (by simp))
    have one := h.processOne (hr id (by simp)) hp
    have hn' := List.nodup_cons.1 hn
    have hr1 : ∀ i ∈ rest, RunningAt s1 i := by
      intro i hi
      have hne : i ≠ id := fun e => hn'.1 (e ▸ hi)
      have hri := hr i (by simp [hi])
      refine ⟨(one.sub i).2 ⟨hri.1, hne⟩, ?_⟩
      intro x hx hxi
      exact hri.2 x ((one.frame x (by rw [hxi]; exact hne)).1 hx) hxi
    obtain ⟨s2, js, hp2, many⟩ := Inv.processAll (p := p) (via := via) rest s1 one.inv hn'.2 hr1
    refine ⟨s2, j :: js, by simp [DH.Evaluator.processAll, hp, hp2], ?_⟩
    refine ⟨many.inv, ?_, ?_, ?_, ?_, ?_, ?_, ?_, ?_, ?_, ?_, ?_⟩
    · intro i
      rw [many.sub, one.sub]
      simp only [List.mem_cons, not_or]
      exact ⟨fun h => ⟨h.1.1, h.1.2, h.2⟩, fun h => ⟨⟨h.1, h.2.1⟩, h.2.2⟩⟩
    · rw [many.del, one.del]; simp
    · rw [many.jd, one.jd]; simp
    · simp [many.ids, one.jid]
    · intro x hx
      rcases List.mem_cons.1 hx with rfl | hx
      · refine ⟨one.st, one.out, ?_⟩
        exact (many.frame x (by rw [one.jid]; exact hn'.1)).2 one.mem
      · exact many.res x hx
    · intro x hx
      simp only [List.mem_cons, not_or] at hx
      rw [many.frame x hx.2, one.frame x hx.1]
    · rw [many.cfgs, one.cfgs]
    · rw [many.next, one.next]
    · rw [many.lgen, one.lgen]
    · rw [many.lopen, one.lopen]
    · have := many.runLen; have := one.runLen
      simp only [List.length_cons]; omega

/-! ### the environment contract gives `RunningAt` -/

theorem Inv.runningAt_of_waitOk {s : Ev C O} (h : Inv s) {w : List Nat} (hw : waitOk s w = true) :
    w.Nodup ∧ ∀ i ∈ w, RunningAt s i := by
  simp only [waitOk, Bool.and_eq_true, decide_eq_true_eq, List.all_eq_true, beq_iff_eq] at hw
  refine ⟨hw.1, fun i hi => ?_⟩
  obtain ⟨h1, h2⟩ := hw.2 i hi
  have hsub : i ∈ s.submitted := by
    rw [← h.runSub]; simpa [runningIds] using h1
  refine ⟨hsub, fun x hx hxi => ?_⟩
  simp only [statusOf, Option.map_eq_some_iff] at h2
  obtain ⟨j, hj, hjs⟩ := h2
  obtain ⟨hjm, hji⟩ := findJob_some hj
  have : x = j := h.job_unique hx hjm (hxi.trans hji.symm)
  rw [this]; exact hjs

theorem mem_markStarted {jobs : List (JobRec C O)} {st : List Nat} {x : JobRec C O} :
    x ∈ markStarted jobs st ↔
      ∃ y ∈ jobs, x = if st.contains y.id then { y with status := .running } else y := by
  simp [markStarted, eq_comm]

theorem Inv.markStarted {s : Ev C O} (h : Inv s) {st : List Nat} (hst : startedOk s st = true) :
    Inv { s with jobs := markStarted s.jobs st } := by
  simp only [startedOk, Bool.and_eq_true, decide_eq_true_eq, List.all_eq_true, beq_iff_eq] at hst
  refine ⟨?_, h.runSub, h.part, h.gen, h.loop, ?_⟩
  · show (DH.Evaluator.markStarted s.jobs st).map _ = _
    rw [map_id_markStarted]; exact h.ids
  · intro x hx
    obtain ⟨y, hy, rfl⟩ := mem_markStarted.1 hx
    show active _ = true ↔ _ ∈ s.submitted
    by_cases hc : st.contains y.id = true
    · simp only [hc, if_true]
      have hsub : y.id ∈ s.submitted := by
        rw [← h.runSub]
        have := (hst.2 y.id (by simpa using hc)).1
        simpa [runningIds] using this
      simp [active, hsub]
    · simp only [hc]; exact h.act y hy

/-! ### `_await_at_least_n_tasks` -/

theorem waitLoop_ok {n : Nat} : ∀ {ws : List (List Nat)} {d d' : List Nat} {rest : List (List Nat)},
    waitLoop n d ws = .ok (d', rest) → n ≤ d'.length ∧ (d' = d ∨ d' ∈ ws)
  | [], d, d', rest, h => by
    simp only [waitLoop] at h
    split at h
    · simp only [Except.ok.injEq, Prod.mk.injEq] at h
      rename_i hle
      exact ⟨h.1 ▸ hle, Or.inl h.1.symm⟩
    · simp at h
  | w :: ws, d, d', rest, h => by
    simp only [waitLoop] at h
    split at h
    · simp only [Except.ok.injEq, Prod.mk.injEq] at h
      rename_i hle
      exact ⟨h.1 ▸ hle, Or.inl h.1.symm⟩
    · obtain ⟨h1, h2⟩ := waitLoop_ok h
      refine ⟨h1, Or.inr ?_⟩
      rcases h2 with rfl | h2
      · simp
      · simp [h2]

theorem Inv.not_stale {s : Ev C O} (h : Inv s) : staleTask s = false := by
  simp only [staleTask, List.any_eq_false, bne_iff_ne, ne_eq, Decidable.not_not]
  exact h.gen

theorem waitLoop_error {n : Nat} : ∀ {ws : List (List Nat)} {d : List Nat} {e : Err},
    waitLoop n d ws = .error e → e = .envStuck
  | [], d, e, h => by
    simp only [waitLoop] at h
    split at h
    · simp at h
    · simp only [Except.error.injEq] at h; exact h.symm
  | w :: ws, d, e, h => by
    simp only [waitLoop] at h
    split at h
    · simp at h
    · exact waitLoop_error h

/-- what a successful `_await_at_least_n_tasks` returns: one of the observed `done` sets,
of size at least the clamped `n` in the BATCH branch -/
theorem awaitM_ok {s : Ev C O} {m : Nat} {ws : List (List Nat)} {d : List Nat}
    (h : awaitM s m ws = .ok d) (hm : m ≠ 0) :
    d ∈ ws ∧ (m ≠ s.running.length → m ≤ d.length) := by
  unfold awaitM at h
  by_cases heq : m = s.running.length
  · simp only [heq, if_true] at h
    by_cases hemp : s.running.isEmpty = true
    · simp [hemp] at h
    · simp only [hemp, Bool.false_eq_true, if_false] at h
      by_cases hst : staleTask s = true
      · simp [hst] at h
      · simp only [hst, Bool.false_eq_true, if_false] at h
        split at h
        · simp only [Except.ok.injEq] at h
          subst h
          exact ⟨by simp, fun hne => absurd heq hne⟩
        · simp at h
  · simp only [heq, if_false] at h
    by_cases hst : staleTask s = true
    · simp [hst] at h
    · simp only [hst, Bool.false_eq_true, if_false] at h
      split at h
      · rename_i done hwl
        simp only [Except.ok.injEq] at h
        subst h
        obtain ⟨h1, h2⟩ := waitLoop_ok hwl
        have hd : done ∈ ws := by
          rcases h2 with rfl | h2
          · simp only [List.length_nil, Nat.le_zero_eq] at h1
            exact absurd h1 hm
          · exact h2
        exact ⟨hd, fun _ => h1⟩
      · simp at h
      · simp at h

theorem awaitM_error {s : Ev C O} {m : Nat} {ws : List (List Nat)} {e : Err}
    (h : awaitM s m ws = .error e) :
    (e = .noJobs ∧ s.running = []) ∨ (e = .loopClosed ∧ staleTask s = true) ∨ e = .envStuck := by
  unfold awaitM at h
  by_cases hst : staleTask s = true
  · by_cases heq : m = s.running.length
    · simp only [heq, if_true, hst] at h
      split at h
      · rename_i he
        simp only [Except.error.injEq] at h
        exact Or.inl ⟨h.symm, by simpa using he⟩
      · simp only [Except.error.injEq] at h
        exact Or.inr (Or.inl ⟨h.symm, hst⟩)
    · simp only [heq, if_false, hst, if_true] at h
      simp only [Except.error.injEq] at h
      exact Or.inr (Or.inl ⟨h.symm, hst⟩)
  · simp only [hst, Bool.false_eq_true, if_false] at h
    by_cases heq : m = s.running.length
    · simp only [heq, if_true] at h
      split at h
      · rename_i he
        simp only [Except.error.injEq] at h
        exact Or.inl ⟨h.symm, by simpa using he⟩
      · split at h
        · simp at h
        · simp only [Except.error.injEq] at h
          exact Or.inr (Or.inr h.symm)
    · simp only [heq, if_false] at h
      split at h
      · simp at h
      · simp only [Except.error.injEq] at h
        exact Or.inr (Or.inr h.symm)
      · rename_i e' hwl
        simp only [Except.error.injEq] at h
        subst h
        exact Or.inr (Or.inr (waitLoop_error hwl))

theorem clampN_le (s : Ev C O) (n : Nat) : clampN s n ≤ s.running.length := by
  unfold clampN; split <;> omega

theorem clampN_le_self (s : Ev C O) (n : Nat) : clampN s n ≤ n := by
  unfold clampN; split <;> omega

theorem clampN_eq_min (s : Ev C O) (n : Nat) : clampN s n = min n s.running.length := by
  unfold clampN; split <;> omega

/-! ### gather -/

/-- the four ways a `gather` call can go under the invariant and the environment contract -/
theorem gather_spec {p : Params C O} {s : Ev C O} (h : Inv s) (all : Bool) (k : Nat) (st : List Nat)
    (ws : List (List Nat)) (hok : opOk s (.gather all k st ws) = true) :
    (gather p s all k st ws = (s, .jobs []) ∧ (if all then s.running.length else k) = 0) ∨
    (gather p s all k st ws = (s, .error .noLoop) ∧ (if all then s.running.length else k) ≠ 0 ∧
        s.loopOpen = false) ∨
    (gather p s all k st ws = (s, .error .noJobs) ∧ (if all then s.running.length else k) ≠ 0 ∧
        s.running = []) ∨
    (∃ done s' js, gather p s all k st ws = (s', .jobs js) ∧
        (if all then s.running.length else k) ≠ 0 ∧ done.Nodup ∧ startedOk s st = true ∧
        s.loopOpen = true ∧ s.running ≠ [] ∧ (∀ i ∈ done, i ∈ s.submitted) ∧
        Inv { s with jobs := markStarted s.jobs st } ∧
        ManyStep p .gather { s with jobs := markStarted s.jobs st } s' done js ∧
        min (if all then s.running.length else k) s.running.length ≤ done.length ∧
        (all = true → ∀ i ∈ s.submitted, i ∈ done)) := by
  unfold DH.Evaluator.gather
  simp only [opOk] at hok
  generalize hsz : (if all then s.running.length else k) = size at hok ⊢
  by_cases h0 : size = 0
  · left; simp [h0]
  · by_cases hl : s.loopOpen = true
    · have hl' : (!s.loopOpen) = false := by simp [hl]
      simp only [h0, hl', decide_false, Bool.or_false, Bool.false_eq_true, if_false] at hok ⊢
      cases ha : awaitN s size ws with
      | error e =>
        simp only [ha, Bool.and_eq_true, bne_iff_ne, ne_eq] at hok ⊢
        rcases awaitM_error ha with ⟨rfl, hr⟩ | ⟨_, hst⟩ | rfl
        · right; right; left; exact ⟨rfl, h0, hr⟩
        · rw [h.not_stale] at hst; exact absurd hst (by simp)
        · exact absurd rfl hok.1
      | ok done =>
        simp only [ha, Bool.and_eq_true] at hok ⊢
        obtain ⟨⟨hst, hws⟩, hall⟩ := hok
        right; right; right
        have hs1 := h.markStarted hst
        have hm0 : clampN s size ≠ 0 := by
          intro hc
          have hrun : s.running = [] := by
            rw [clampN_eq_min] at hc
            have : s.running.length = 0 := by omega
            exact List.length_eq_zero_iff.1 this
          have : awaitN s size ws = .error .noJobs := by
            simp [awaitN, awaitM, hc, hrun]
          rw [this] at ha; simp at ha
        have hrun : s.running ≠ [] := by
          intro he
          apply hm0
          rw [clampN_eq_min, he]; simp
        obtain ⟨hdm, hlen⟩ := awaitM_ok ha hm0
        have hwd := List.all_eq_true.1 hws done hdm
        obtain ⟨hnd, hra⟩ := hs1.runningAt_of_waitOk hwd
        obtain ⟨s', js, hp, many⟩ := Inv.processAll (p := p) (via := .gather) done _ hs1 hnd hra
        refine ⟨done, s', js, by simp [hp], h0, hnd, hst, hl, hrun, fun i hi => (hra i hi).1, hs1, many, ?_, ?_⟩
        · rw [← clampN_eq_min]
          by_cases hc : clampN s size = s.running.length
          · -- the ALL branch: every running task is in `done`
            have hge : size ≥ s.running.length := by
              rw [← hc]; exact clampN_le_self s size
            simp only [hge, if_true, List.all_eq_true, List.contains_eq_mem, decide_eq_true_eq] at hall
            rw [hc, ← List.length_map (f := (·.id))]
            apply List.Nodup.length_le_of_subset (by rw [h.runSub]; exact h.sub_nodup)
            intro i hi; exact hall i hi
          · exact hlen hc
        · intro ha'
          subst ha'
          simp only [if_true] at hsz
          have hge : size ≥ s.running.length := by omega
          simp only [hge, if_true, List.all_eq_true, List.contains_eq_mem, decide_eq_true_eq] at hall
          intro i hi
          apply hall i
          simpa [runningIds, h.runSub] using hi
    · have hl' : s.loopOpen = false := by simpa using hl
      right; left
      simp [h0, hl']

/-! ### close -/

/-- the ids the `for job in self.jobs` loop of `close` cancels -/
def activeIds (s : Ev C O) : List Nat := (s.jobs.filter active).map (·.id)

theorem Inv.activeIds_perm {s : Ev C O} (h : Inv s) : (activeIds s).Perm s.submitted := by
  have hnd : (activeIds s).Nodup :=
    List.Nodup.sublist (List.Sublist.map _ List.filter_sublist) h.ids_nodup
  rw [List.perm_ext_iff_of_nodup hnd h.sub_nodup]
  intro a
  simp only [activeIds, List.mem_map, List.mem_filter]
  constructor
  · rintro ⟨j, ⟨hj, hact⟩, rfl⟩
    exact (h.act j hj).1 hact
  · intro ha
    obtain ⟨j, _, hjm, hji⟩ := h.find (h.sub_lt ha)
    exact ⟨j, ⟨hjm, (h.act j hjm).2 (hji ▸ ha)⟩, hji⟩

theorem Inv.cancelClear (p : Params C O) {s : Ev C O} (h : Inv s) :
    Inv { cancelActive p s with running := [], submitted := [], loopOpen := false } := by
  refine ⟨?_, rfl, ?_, ?_, ?_, ?_⟩
  · have : (cancelActive p s).jobs.map (·.id) = s.jobs.map (·.id) := by
      simp only [DH.Evaluator.cancelActive, List.map_map]
      apply List.map_congr_left
      intro j _
      simp only [Function.comp]
      split <;> rfl
    exact this.trans h.ids
  · show ([] ++ (s.delivered ++ _).map _).Perm _
    simp only [List.nil_append, List.map_append, List.map_map, Function.comp_def]
    have h1 : (s.delivered.map (·.1) ++ activeIds s).Perm (s.submitted ++ s.delivered.map (·.1)) :=
      List.perm_append_comm.trans (List.Perm.append_right _ h.activeIds_perm)
    exact h1.trans h.part
  · intro t ht; simp at ht
  · intro hne; exact absurd rfl hne
  · intro x hx
    simp only [DH.Evaluator.cancelActive, List.mem_map] at hx
    obtain ⟨y, _, rfl⟩ := hx
    simp only [List.not_mem_nil, iff_false, Bool.not_eq_true]
    by_cases hy : active y = true
    · rw [if_pos hy]; rfl
    · rw [if_neg hy]; simpa using hy

/-- the ways a `close` call can go under the invariant and the environment contract -/
theorem close_spec {p : Params C O} {s : Ev C O} (h : Inv s) (fin : List Nat)
    (hok : opOk s (.close fin) = true) :
    (close p s fin = (s, .unit) ∧ s.loopOpen = false) ∨
    (close p s fin = ({ s with loopOpen := false }, .unit) ∧ s.loopOpen = true ∧ s.running = []) ∨
    (∃ s1 js, s.loopOpen = true ∧ s.running ≠ [] ∧ fin.Nodup ∧ ManyStep p .close s s1 fin js ∧
      close p s fin =
        ({ cancelActive p s1 with running := [], submitted := [], loopOpen := false }, .unit)) := by
  simp only [opOk] at hok
  obtain ⟨hnd, hra⟩ := h.runningAt_of_waitOk hok
  rcases close_shape true p s fin with ⟨o, ho⟩ | ⟨hl, hr, hc⟩ | ⟨hl, hr, _, hc⟩
  · -- state unchanged: only the `self.loop is None` early return is possible
    by_cases hl : s.loopOpen = true
    · by_cases hr : s.running = []
      · right; left
        exact ⟨by simp [close, closeWith, hl, hr], hl, hr⟩
      · exfalso
        obtain ⟨s1, js, hp, _⟩ := Inv.processAll (p := p) (via := .close) fin s h hnd hra
        have hr' : s.running.isEmpty = false := by simpa using hr
        simp [closeWith, hl, hr', h.not_stale, hp] at ho
        have := congrArg Ev.loopOpen ho.1
        simp [hl] at this
    · have hl' : s.loopOpen = false := by simpa using hl
      left; exact ⟨by simp [close, closeWith, hl'], hl'⟩
  · right; left; exact ⟨hc, hl, hr⟩
  · right; right
    obtain ⟨s1, js, hp, many⟩ := Inv.processAll (p := p) (via := .close) fin s h hnd hra
    rcases hc with ⟨s1', e, hp', _⟩ | ⟨s1', js', hp', hc⟩
    · rw [hp] at hp'; simp at hp'
    · rw [hp] at hp'
      simp only [Prod.mk.injEq, Except.ok.injEq] at hp'
      obtain ⟨rfl, rfl⟩ := hp'
      exact ⟨s1, js, hl, hr, hnd, many, hc⟩

end DH.Evaluator
