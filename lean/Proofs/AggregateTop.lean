import Proofs.AggregateMode

/-! C19: the cell/row lemmas lifted to the four aggregators' outputs. -/

namespace DH.Aggregate

/-! ### a common factor on the weights -/

theorem meanAgg_scale (k : Rat) (hk : k ≠ 0) (ws : List Rat) (ys : List Cell) :
    meanAgg (ws.map (k * ·)) ys = meanAgg ws ys := by
  simp only [meanAgg, average_scale k hk]

theorem mixedNormal_scale (k : Rat) (hk : k ≠ 0) (ws : List Rat) (locs scales : List Cell) :
    mixedNormal (ws.map (k * ·)) locs scales = mixedNormal ws locs scales := by
  simp only [mixedNormal, average_scale k hk]

theorem catAgg_scale (u : List Rat → Option Rat) (c : Nat) (k : Rat) (hk : k ≠ 0) (ws : List Rat)
    (rows : List Row) : catAgg u c (ws.map (k * ·)) rows = catAgg u c ws rows := by
  simp only [catAgg, catLoc_scale c k hk, average_scale k hk]

theorem modeAgg_scale (c : Nat) (k : Rat) (hk : k ≠ 0) (ws : List Rat) (rows : List Row) :
    modeAgg c (ws.map (k * ·)) rows = modeAgg c ws rows := by
  simp only [modeAgg, catLoc_scale c k hk]

/-! ### permutations of the members together with their weights -/

theorem meanAgg_perm {ws ws' : List Rat} {ys ys' : List Cell}
    (h : (ws.zip ys).Perm (ws'.zip ys')) : meanAgg ws ys = meanAgg ws' ys' := by
  unfold meanAgg
  rw [average_perm h]
  cases average ws' ys' with
  | none => rfl
  | some m => simp only [average_perm (perm_cellMap _ h)]

theorem zip_secondMoment (ws : List Rat) (locs scales : List Cell) :
    ws.zip (secondMoment locs scales) = (ws.zip (locs.zip scales)).map
      (fun t => (t.1, match t.2.1, t.2.2 with
        | some l, some s => some (l * l + s * s)
        | _, _ => none)) := by
  induction ws generalizing locs scales with
  | nil => simp
  | cons w ws ih => cases locs with
    | nil => simp [secondMoment]
    | cons l ls => cases scales with
      | nil => cases l <;> simp [secondMoment]
      | cons s ss => cases l <;> cases s <;> simp [secondMoment, ih]

theorem zip_fst_of_length (ws : List Rat) {locs scales : List Cell} (h : locs.length = scales.length) :
    ws.zip locs = (ws.zip (locs.zip scales)).map (fun t => (t.1, t.2.1)) ∧
    ws.zip scales = (ws.zip (locs.zip scales)).map (fun t => (t.1, t.2.2)) := by
  induction ws generalizing locs scales with
  | nil => simp
  | cons w ws ih => cases locs with
    | nil => cases scales with
      | nil => simp
      | cons s ss => simp at h
    | cons l ls => cases scales with
      | nil => simp at h
      | cons s ss =>
        obtain ⟨h1, h2⟩ := ih (locs := ls) (scales := ss) (by simpa using h)
        simp [h1, h2]

theorem mixedNormal_perm {ws ws' : List Rat} {locs locs' scales scales' : List Cell}
    (hl : locs.length = scales.length) (hl' : locs'.length = scales'.length)
    (h : (ws.zip (locs.zip scales)).Perm (ws'.zip (locs'.zip scales'))) :
    mixedNormal ws locs scales = mixedNormal ws' locs' scales' := by
  obtain ⟨z1, z2⟩ := zip_fst_of_length ws hl
  obtain ⟨z1', z2'⟩ := zip_fst_of_length ws' hl'
  have hlocs : (ws.zip locs).Perm (ws'.zip locs') := by rw [z1, z1']; exact h.map _
  have hscales : (ws.zip scales).Perm (ws'.zip scales') := by rw [z2, z2']; exact h.map _
  have hsm : (ws.zip (secondMoment locs scales)).Perm (ws'.zip (secondMoment locs' scales')) := by
    rw [zip_secondMoment, zip_secondMoment]; exact h.map _
  unfold mixedNormal
  rw [average_perm hlocs, average_perm (perm_cellMap _ hscales)]
  cases average ws' locs' with
  | none => rfl
  | some m => simp only [average_perm hsm, average_perm (perm_cellMap _ hlocs)]

theorem zip_rowStat (f : List Rat → Option Rat) (ws : List Rat) (rows : List Row) :
    ws.zip (rowStat f rows) = (ws.zip rows).map (fun p => (p.1, p.2.bind f)) := by
  induction ws generalizing rows with
  | nil => simp
  | cons w ws ih => cases rows with
    | nil => simp [rowStat]
    | cons r rows => simpa [rowStat] using ih rows

theorem zip_votes (c : Nat) (ws : List Rat) (rows : List Row) :
    ws.zip (votes c rows) = (ws.zip rows).map (fun p => (p.1, p.2.map (fun q => onehot c (argmax q)))) := by
  induction ws generalizing rows with
  | nil => simp
  | cons w ws ih => cases rows with
    | nil => simp [votes]
    | cons r rows => simpa [votes] using ih rows

theorem catAgg_perm (u : List Rat → Option Rat) (c : Nat) {ws ws' : List Rat} {rows rows' : List Row}
    (h : (ws.zip rows).Perm (ws'.zip rows')) : catAgg u c ws rows = catAgg u c ws' rows' := by
  have hs : (ws.zip (rowStat u rows)).Perm (ws'.zip (rowStat u rows')) := by
    rw [zip_rowStat, zip_rowStat]; exact h.map _
  simp only [catAgg, catLoc_perm c h, average_perm hs]

theorem modeAgg_perm (c : Nat) {ws ws' : List Rat} {rows rows' : List Row}
    (h : (ws.zip rows).Perm (ws'.zip rows')) : modeAgg c ws rows = modeAgg c ws' rows' := by
  have hv : (ws.zip (votes c rows)).Perm (ws'.zip (votes c rows')) := by
    rw [zip_votes, zip_votes]; exact h.map _
  simp only [modeAgg, catLoc_perm c hv]

/-! ### masked members are ignored -/

/-- weights of the members present at a cell -/
def pw (ws : List Rat) (ys : List Cell) : List Rat := (present ws ys).map (·.1)
/-- the cells of the members present at a cell (all `some`) -/
def pys (ws : List Rat) (ys : List Cell) : List Cell := (present ws ys).map (fun p => some p.2)

theorem pys_cellMap (f : Rat → Rat) (ws : List Rat) (ys : List Cell) :
    pys ws (cellMap f ys) = cellMap f (pys ws ys) ∧ pw ws (cellMap f ys) = pw ws ys := by
  unfold pys pw
  rw [present_cellMap]
  simp [cellMap, List.map_map, Function.comp_def]

theorem average_pres (ws : List Rat) (ys : List Cell) : average (pw ws ys) (pys ws ys) = average ws ys :=
  average_present ws ys

theorem meanAgg_present (ws : List Rat) (ys : List Cell) :
    meanAgg (pw ws ys) (pys ws ys) = meanAgg ws ys := by
  unfold meanAgg
  rw [average_pres]
  cases average ws ys with
  | none => rfl
  | some m =>
    have := pys_cellMap (fun y => (y - m) * (y - m)) ws ys
    simp only [← this.1, ← average_pres ws (cellMap _ ys), this.2]

theorem present_same {ws : List Rat} {locs scales : List Cell} (h : SamePresence locs scales) :
    pw ws scales = pw ws locs ∧
    wsum (pw ws locs) (secondMoment (pys ws locs) (pys ws scales)) = wsum ws (secondMoment locs scales) ∧
    wdot (pw ws locs) (secondMoment (pys ws locs) (pys ws scales)) = wdot ws (secondMoment locs scales) := by
  unfold SamePresence at h
  induction ws generalizing locs scales with
  | nil => simp [pw, pys, present, secondMoment, wsum, wdot]
  | cons w ws ih =>
    cases locs with
    | nil => cases scales with
      | nil => simp [pw, pys, present, secondMoment, wsum, wdot]
      | cons s ss => simp at h
    | cons l ls => cases scales with
      | nil => simp at h
      | cons s ss =>
        simp only [List.map_cons, List.cons.injEq] at h
        obtain ⟨h1, h2, h3⟩ := ih (locs := ls) (scales := ss) h.2
        simp only [pw, pys] at h1 h2 h3 ⊢
        cases l <;> cases s <;> simp at h <;>
          simp only [present, secondMoment, List.map_cons, wsum, wdot, h1, h2, h3] <;> simp

theorem mixedNormal_present {ws : List Rat} {locs scales : List Cell} (h : SamePresence locs scales) :
    mixedNormal (pw ws locs) (pys ws locs) (pys ws scales) = mixedNormal ws locs scales := by
  obtain ⟨h1, h2, h3⟩ := present_same (ws := ws) h
  have hal : average (pw ws locs) (cellMap (fun s => s * s) (pys ws scales)) =
      average ws (cellMap (fun s => s * s) scales) := by
    have := pys_cellMap (fun s => s * s) ws scales
    rw [← h1, ← this.1, ← this.2, average_pres]
  have hsm : average (pw ws locs) (secondMoment (pys ws locs) (pys ws scales)) =
      average ws (secondMoment locs scales) := by
    unfold average; rw [h2, h3]
  unfold mixedNormal
  rw [average_pres, hal]
  cases average ws locs with
  | none => rfl
  | some m =>
    have := pys_cellMap (fun l => (l - m) * (l - m)) ws locs
    simp only [hsm, ← this.1, ← average_pres ws (cellMap _ locs), this.2]

end DH.Aggregate
