import Proofs.EvaluatorMultiSim

/-!
Simulation, continued: `close` (`cancelActive`), `_create_tasks`, `set_event_loop`.  Core Lean only.
-/

namespace DH.Evaluator

variable {C O : Type}

/-! ### `close` -/

/-- what `close` does to the row of a READY/RUNNING job -/
def cancelRow (p : MParams C O) (r : Row C O) : Row C O :=
  { r with status := .cancelled, out := if p.hpo then some p.cancelOut else r.out,
           sout := if p.hpo then some p.cancelOut else r.sout }

def cancelRec (p : Params C O) (j : JobRec C O) : JobRec C O :=
  { j with status := .cancelled, out := if p.hpo then some p.cancelOut else j.out }

theorem ite_cancel_recOf (p : MParams C O) (c : Bool) (r : Row C O) :
    recOf (if c = true then cancelRow p r else r) = if c = true then cancelRec p.toParams (recOf r) else recOf r := by
  cases c <;> rfl

theorem ite_cancel_renRec (p : Params C O) (f : Nat → Nat) (c : Bool) (j : JobRec C O) :
    renRec f (if c = true then cancelRec p j else j) = if c = true then cancelRec p (renRec f j) else renRec f j := by
  cases c <;> rfl

/-- the ids `close` records as cancelled: the evaluator's READY/RUNNING jobs, in creation order -/
def mActiveIds (rows : List (Row C O)) (me : MEv C O) : List Nat :=
  me.jobs.filter (fun id => match rowOf rows id with
    | some r => activeRow r
    | none => false)

theorem Rel.activeIds {rows : List (Row C O)} {me : MEv C O} {s : Ev C O} (hr : Rel rows me s) :
    mActiveIds rows me = ((s.jobs.filter active).map (·.id)).map (rho me.jobs rows.length) := by
  have h1 : mActiveIds rows me = ((ownRows rows me.jobs).filter activeRow).map (·.id) := by
    unfold mActiveIds
    conv => lhs; rw [← hr.ownIds]
    rw [List.filter_map]
    congr 1
    apply List.filter_congr
    intro r hr'
    have hm : r ∈ rows := (List.mem_filter.1 hr').1
    simp only [Function.comp, rowOf_of_mem (rows_nodup hr.ids) hm]
  have h2 : ((s.jobs.filter active).map (·.id)).map (rho me.jobs rows.length) =
      (((s.jobs.map (renRec (rho me.jobs rows.length))).filter active).map (·.id)) := by
    rw [List.filter_map, List.map_map, List.map_map]
    rfl
  rw [h1, h2, hr.jobs, List.filter_map, List.map_map]
  rfl

theorem mCancelActive_eq (p : MParams C O) (st : List (Row C O) × MEv C O) :
    mCancelActive p st =
      (st.1.map (fun r => if (st.2.jobs.contains r.id && activeRow r) = true then cancelRow p r else r),
       { st.2 with
         jobsDone := st.2.jobsDone ++ mActiveIds st.1 st.2
         gathered := st.2.gathered ++ mActiveIds st.1 st.2
         delivered := st.2.delivered ++ (mActiveIds st.1 st.2).map (fun i => (i, Via.close)) }) := rfl

theorem cancelActive_eq (p : Params C O) (s : Ev C O) :
    cancelActive p s =
      { s with
        jobs := s.jobs.map (fun j => if active j = true then cancelRec p j else j)
        jobsDone := s.jobsDone ++ (s.jobs.filter active).map (·.id)
        gathered := s.gathered ++ (s.jobs.filter active).map (·.id)
        delivered := s.delivered ++ ((s.jobs.filter active).map (·.id)).map (fun i => (i, Via.close)) } := rfl

theorem Rel.cancelActive (p : MParams C O) {rows : List (Row C O)} {me : MEv C O} {s : Ev C O}
    (hr : Rel rows me s) :
    Rel (mCancelActive p (rows, me)).1 (mCancelActive p (rows, me)).2 (cancelActive p.toParams s) := by
  rw [mCancelActive_eq, cancelActive_eq]
  have hid : ∀ r : Row C O, (if (me.jobs.contains r.id && activeRow r) = true then cancelRow p r else r).id = r.id := by
    intro r; split <;> rfl
  have hlen : (rows.map (fun r => if (me.jobs.contains r.id && activeRow r) = true then cancelRow p r else r)).length =
      rows.length := by simp
  refine ⟨hr.sorted, ?_, ?_, hr.n, ?_, ?_, ?_, ?_, ?_, hr.gen, hr.lopen⟩
  · intro g hg; rw [hlen]; exact hr.lt g hg
  · rw [hlen, map_id_map _ _ hid]; exact hr.ids
  · show (ownRows (rows.map _) me.jobs).map (·.id) = me.jobs
    rw [ownRows_map _ _ _ hid, map_id_map _ _ hid]; exact hr.ownIds
  · show (s.jobs.map _).map (renRec (rho me.jobs (rows.map _).length)) = (ownRows (rows.map _) me.jobs).map recOf
    rw [hlen, ownRows_map _ _ _ hid, List.map_map, List.map_map]
    have : (ownRows rows me.jobs).map (recOf ∘ fun r =>
          if (me.jobs.contains r.id && activeRow r) = true then cancelRow p r else r) =
        ((ownRows rows me.jobs).map recOf).map (fun j => if active j = true then cancelRec p.toParams j else j) := by
      rw [List.map_map]
      apply List.map_congr_left
      intro r hr'
      have hc : me.jobs.contains r.id = true := (List.mem_filter.1 hr').2
      simp only [Function.comp, hc, Bool.true_and]
      exact ite_cancel_recOf p (activeRow r) r
    rw [this, ← hr.jobs, List.map_map]
    apply List.map_congr_left
    intro j _
    exact ite_cancel_renRec p.toParams _ (active j) j
  · rw [hlen]; exact hr.running
  · rw [hlen]; exact hr.submitted
  · show (s.delivered ++ _).map (renDel (rho me.jobs (rows.map _).length)) = me.delivered ++ _
    rw [hlen, List.map_append, hr.delivered, hr.activeIds]
    simp only [List.map_map]
    rfl

theorem Wf.cancelActive (p : Params C O) {s : Ev C O} (hw : Wf s) : Wf (cancelActive p s) := by
  rw [cancelActive_eq]
  refine ⟨?_, hw.sub⟩
  show (s.jobs.map (fun j => if active j = true then cancelRec p j else j)).map (fun j : JobRec C O => j.id) = _
  rw [List.map_map, ← hw.ids]
  apply List.map_congr_left
  intro j _
  simp only [Function.comp]
  split <;> rfl

/-- the results of `close` in the two models -/
def outM : Out C O → MOut C O
  | .unit => .unit
  | .error e => .error e
  | .jobs js => .jobs js []
  | .rows l => .rows l

theorem close_sim (p : MParams C O) {rows : List (Row C O)} {me : MEv C O} {s : Ev C O}
    (hr : Rel rows me s) (hw : Wf s) (lfin : List Nat) :
    ∃ rows' me', mClose p (rows, me) (lfin.map (rho me.jobs rows.length)) =
        ((rows', me'), outM (close p.toParams s lfin).2) ∧
      Rel rows' me' (close p.toParams s lfin).1 ∧ Wf (close p.toParams s lfin).1 ∧
      me'.jobs = me.jobs ∧ rows'.length = rows.length := by
  have hemp : me.running.isEmpty = s.running.isEmpty := by rw [← hr.running]; simp
  unfold mClose close closeWith
  simp only [← hr.lopen, hr.stale, hemp]
  by_cases h0 : (!s.loopOpen) = true
  · rw [if_pos h0, if_pos h0]
    exact ⟨rows, me, rfl, hr, hw, rfl, rfl⟩
  · rw [if_neg h0, if_neg h0]
    by_cases h1 : s.running.isEmpty = true
    · rw [if_pos h1, if_pos h1]
      exact ⟨rows, _, rfl, ⟨hr.sorted, hr.lt, hr.ids, hr.n, hr.ownIds, hr.jobs, hr.running, hr.submitted,
        hr.delivered, hr.gen, rfl⟩, ⟨hw.ids, hw.sub⟩, rfl, rfl⟩
    · rw [if_neg h1, if_neg h1]
      by_cases h2 : staleTask s = true
      · rw [if_pos h2, if_pos h2]
        exact ⟨rows, me, rfl, hr, hw, rfl, rfl⟩
      · rw [if_neg h2, if_neg h2]
        obtain ⟨rows1, me1, hm, hr1, hw1, hj1, hl1⟩ := processAll_sim p .close lfin hr hw
        rw [hm]
        cases h3 : processAll p.toParams Via.close s lfin with
        | mk s1 res =>
          rw [h3] at hr1 hw1
          cases res with
          | error e => exact ⟨rows1, me1, rfl, hr1, hw1, hj1, hl1⟩
          | ok js =>
            simp only [renRes, if_true]
            have hr2 := hr1.cancelActive p
            have hw2 := hw1.cancelActive p.toParams
            have hj2 : (mCancelActive p (rows1, me1)).2.jobs = me1.jobs := rfl
            have hl2 : (mCancelActive p (rows1, me1)).1.length = rows1.length := by
              rw [mCancelActive_eq]; simp
            refine ⟨_, _, rfl, ?_, ⟨hw2.ids, ?_⟩, hj2.trans hj1, hl2.trans hl1⟩
            · exact ⟨hr2.sorted, hr2.lt, hr2.ids, hr2.n, hr2.ownIds, hr2.jobs, rfl, rfl, hr2.delivered, hr2.gen, rfl⟩
            · intro i hi; simp at hi

/-! ### `_create_tasks` -/

theorem ownRows_append_new (rows : List (Row C O)) (jobs : List Nat) (r : Row C O)
    (hids : rows.map (·.id) = List.range rows.length) (hr : r.id = rows.length) :
    ownRows (rows ++ [r]) (jobs ++ [rows.length]) = ownRows rows jobs ++ [r] := by
  unfold ownRows
  rw [List.filter_append]
  congr 1
  · apply List.filter_congr
    intro x hx
    have := row_id_lt hids hx
    simp only [List.contains_eq_mem, List.mem_append, List.mem_singleton, decide_eq_decide]
    constructor
    · rintro (h | h)
      · exact h
      · omega
    · exact Or.inl
  · simp [hr]

def newRow (who id : Nat) (c : C) : Row C O :=
  { id := id, owner := who, cfg := c, out := none, sout := none, status := Status.ready }

theorem mCreateTask_eq (who : Nat) (rows : List (Row C O)) (me : MEv C O) (c : C) :
    mCreateTask who (rows, me) c =
      (rows ++ [newRow who rows.length c],
       { me with jobs := me.jobs ++ [rows.length], submitted := me.submitted ++ [rows.length],
                 running := me.running ++ [{ id := rows.length, gen := me.loopGen }] }) := rfl

theorem Rel.createTask (who : Nat) {rows : List (Row C O)} {me : MEv C O} {s : Ev C O} (hr : Rel rows me s)
    (c : C) : Rel (mCreateTask who (rows, me) c).1 (mCreateTask who (rows, me) c).2 (createTask s c) := by
  have hlen : (rows ++ [(newRow who rows.length c : Row C O)]).length = rows.length + 1 := by simp
  have hn : rho me.jobs rows.length s.nextId = rows.length := by
    rw [rho_ge (by rw [hr.n]; exact Nat.le_refl _), hr.n]; simp
  rw [mCreateTask_eq]
  unfold DH.Evaluator.createTask
  refine ⟨?_, ?_, ?_, ?_, ?_, ?_, ?_, ?_, ?_, hr.gen, hr.lopen⟩
  · show (me.jobs ++ [rows.length]).Pairwise (· < ·)
    rw [List.pairwise_append]
    refine ⟨hr.sorted, by simp, ?_⟩
    intro a ha b hb
    simp only [List.mem_singleton] at hb
    subst hb; exact hr.lt a ha
  · intro g hg
    show g < (rows ++ [newRow who rows.length c]).length
    rw [hlen]
    have hg' : g ∈ me.jobs ++ [rows.length] := hg
    simp only [List.mem_append, List.mem_singleton] at hg'
    rcases hg' with hg' | hg'
    · exact Nat.lt_succ_of_lt (hr.lt g hg')
    · omega
  · show (rows ++ [newRow who rows.length c]).map (fun r : Row C O => r.id) = List.range (rows ++ [newRow who rows.length c]).length
    rw [hlen, List.range_succ, List.map_append, hr.ids]; rfl
  · show s.nextId + 1 = (me.jobs ++ [rows.length]).length
    rw [hr.n]; simp
  · show (ownRows (rows ++ [newRow who rows.length c]) (me.jobs ++ [rows.length])).map (fun r : Row C O => r.id) =
      me.jobs ++ [rows.length]
    rw [ownRows_append_new _ _ _ hr.ids rfl, List.map_append, hr.ownIds]; rfl
  · show (s.jobs ++ [_]).map (renRec (rho (me.jobs ++ [rows.length]) (rows ++ [newRow who rows.length c]).length)) =
      (ownRows (rows ++ [newRow who rows.length c]) (me.jobs ++ [rows.length])).map recOf
    rw [hlen, rho_append, ownRows_append_new _ _ _ hr.ids rfl, List.map_append, List.map_append, hr.jobs]
    simp only [List.map_cons, List.map_nil, renRec, recOf, hn, newRow]
  · show (s.running ++ [_]).map (renTask (rho (me.jobs ++ [rows.length]) (rows ++ [newRow who rows.length c]).length)) =
      me.running ++ [_]
    rw [hlen, rho_append, List.map_append, hr.running]
    simp only [List.map_cons, List.map_nil, renTask, hn, hr.gen]
  · show (s.submitted ++ [s.nextId]).map (rho (me.jobs ++ [rows.length]) (rows ++ [newRow who rows.length c]).length) =
      me.submitted ++ [_]
    rw [hlen, rho_append, List.map_append, hr.submitted]
    simp only [List.map_cons, List.map_nil, hn]
  · show s.delivered.map (renDel (rho (me.jobs ++ [rows.length]) (rows ++ [newRow who rows.length c]).length)) =
      me.delivered
    rw [hlen, rho_append, hr.delivered]

theorem Rel.setEventLoop {rows : List (Row C O)} {me : MEv C O} {s : Ev C O} (hr : Rel rows me s) :
    Rel rows (mSetEventLoop me) (setEventLoop s) := by
  unfold mSetEventLoop DH.Evaluator.setEventLoop
  rw [← hr.lopen]
  split
  · exact hr
  · exact ⟨hr.sorted, hr.lt, hr.ids, hr.n, hr.ownIds, hr.jobs, hr.running, hr.submitted, hr.delivered,
      by show s.loopGen + 1 = me.loopGen + 1; rw [hr.gen], rfl⟩

/-- the `for args in args_list` loop with the cap: a prefix of the configurations becomes jobs -/
theorem createTasks_sim (who : Nat) : ∀ (cfgs : List C) (k : Nat) {rows : List (Row C O)} {me : MEv C O}
    {s : Ev C O}, Rel rows me s →
    ∃ m, m ≤ cfgs.length ∧
      Rel (mCreateTasks who (rows, me) k cfgs).1.1 (mCreateTasks who (rows, me) k cfgs).1.2
        ((cfgs.take m).foldl DH.Evaluator.createTask s) ∧
      ((mCreateTasks who (rows, me) k cfgs).2 = none → m = cfgs.length)
  | [], k, rows, me, s, hr => ⟨0, Nat.le_refl _, hr, fun _ => rfl⟩
  | c :: cs, k, rows, me, s, hr => by
    simp only [mCreateTasks]
    split
    · exact ⟨0, Nat.zero_le _, hr, fun h => by simp at h⟩
    · obtain ⟨m, hm, hrel, hnone⟩ := createTasks_sim who cs (k + 1) (hr.createTask who c)
      refine ⟨m + 1, by simp; omega, ?_, fun h => by simp [hnone h]⟩
      simpa [List.take_succ_cons, List.foldl_cons] using hrel

theorem submit_sim (who : Nat) {rows : List (Row C O)} {me : MEv C O} {s : Ev C O} (hr : Rel rows me s)
    (cfgs : List C) :
    ∃ m, m ≤ cfgs.length ∧
      Rel (mSubmit who (rows, me) cfgs).1.1 (mSubmit who (rows, me) cfgs).1.2 (submit s (cfgs.take m)) ∧
      ((mSubmit who (rows, me) cfgs).2 = .unit → m = cfgs.length) := by
  obtain ⟨m, hm, hrel, hnone⟩ := createTasks_sim who cfgs 0 hr.setEventLoop
  refine ⟨m, hm, ?_, ?_⟩
  · unfold mSubmit submit
    split <;> rename_i heq <;> rw [heq] at hrel <;> exact hrel
  · unfold mSubmit
    split <;> rename_i heq
    · intro _; exact hnone (by rw [heq])
    · intro h; simp at h

end DH.Evaluator
