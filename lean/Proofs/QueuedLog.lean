import Model.QueuedLog
import Proofs.Queued

/-! The log checker decides `LogSpec` (core Lean only). -/

namespace DH.Queued

variable {R : Type}

section
variable [DecidableEq R]

theorem checkEv_iff (q0 : List R) (pop : Nat) (a : LAcc R) (e : LEv R) :
    checkEv q0 pop a e = true ↔ EvOk q0 pop a e := by
  cases e with
  | submit n => simp [checkEv, EvOk]
  | endRun j => simp [checkEv, EvOk]
  | closed q => simp [checkEv, EvOk, List.isPerm_iff]
  | start j recv =>
    cases recv with
    | none => simp [checkEv, EvOk]
    | some l =>
      simp only [checkEv, EvOk, Bool.or_eq_true, decide_eq_true_eq, Bool.and_eq_true, List.all_eq_true,
        Bool.not_eq_true', List.contains_eq_mem, decide_eq_false_iff_not, Option.some.injEq]
      constructor
      · rintro (h | ⟨h1, h2⟩)
        · exact Or.inl h
        · exact Or.inr ⟨l, rfl, h1, h2⟩
      · rintro (h | ⟨l', rfl, h1, h2⟩)
        · exact Or.inl h
        · exact Or.inr ⟨h1, h2⟩

theorem checkEvents_iff (q0 : List R) (pop : Nat) :
    ∀ (es : List (LEv R)) (a : LAcc R), checkEvents q0 pop a es = true ↔ EventsOk q0 pop a es
  | [], a => by simp [checkEvents, EventsOk]
  | e :: es, a => by
    simp only [checkEvents, EventsOk, Bool.and_eq_true, checkEv_iff, checkEvents_iff q0 pop es]

theorem checkFinal_iff (lg : Log R) (a : LAcc R) : checkFinal lg a = true ↔ FinalOk lg a := by
  simp only [checkFinal, FinalOk, Bool.and_eq_true, Bool.not_eq_true', decide_eq_true_eq,
    List.all_eq_true, List.mem_range, Bool.or_eq_true, List.contains_eq_mem, List.isPerm_iff]
  constructor
  · rintro ⟨⟨⟨⟨h1, h2⟩, h3⟩, h4⟩, h5⟩
    refine ⟨h1, h2, h3, h4, ?_⟩
    intro x hx m hm
    have := h5 x hx
    rw [hm] at this
    simpa using this
  · rintro ⟨h1, h2, h3, h4, h5⟩
    refine ⟨⟨⟨⟨h1, h2⟩, h3⟩, h4⟩, ?_⟩
    intro x hx
    cases hm : lg.metas[x.1]? with
    | none => rfl
    | some o =>
      cases o with
      | none => rfl
      | some m => simpa using h5 x hx m hm

theorem checkLog_iff (lg : Log R) : checkLog lg = true ↔ LogSpec lg := by
  simp only [checkLog, LogSpec, Bool.and_eq_true, checkEvents_iff, checkFinal_iff]

end

/-! ### the log of every complete model run satisfies `LogSpec` -/

variable {q0 : List R} {pop workers : Nat}

theorem phaseAt_setJob (s0 : QState R) (j : Nat) (y : QJob R) (k : Nat) (hj : j < s0.jobs.length) :
    phaseAt (setJob s0 j y) k = if k = j then some y.phase else phaseAt s0 k := by
  simp only [phaseAt, setJob, List.getElem?_set]
  by_cases hk : j = k
  · subst hk; simp [hj]
  · simp [hk, Ne.symm hk]

theorem phaseAt_of_get {s : QState R} {k : Nat} {x : QJob R} (h : s.jobs[k]? = some x) :
    phaseAt s k = some x.phase := by simp [phaseAt, h]

/-- what an entry of `recvOf` says about its job -/
def RecvEntry (s : QState R) (x : Nat × List R) : Prop :=
  phaseAt s x.1 = some (.running x.2 (some x.2)) ∨ phaseAt s x.1 = some (.returning x.2 (some x.2)) ∨
    (∃ md, phaseAt s x.1 = some (.finished (some x.2) md)) ∨ phaseAt s x.1 = some .cancelled

/-- the observer's accumulator agrees with the model state -/
structure LRel (a : LAcc R) (s : QState R) : Prop where
  nsub : a.nsub = s.jobs.length
  cle : a.closedOver ≤ a.nsub
  canc : ∀ k, phaseAt s k = some .cancelled → k < a.closedOver
  cl : ∀ k, k < a.closedOver → ∃ ph, phaseAt s k = some ph ∧ isEnded ph = true
  run : ∀ x ∈ a.running, ∃ recv, phaseAt s x.1 = some (.running x.2 recv)
  rcv : ∀ x ∈ a.recvOf, RecvEntry s x

theorem LRel.init (q0 : List R) (pop workers : Nat) : LRel (LAcc.init : LAcc R) (init q0 pop workers) :=
  ⟨rfl, Nat.le_refl _, by simp [phaseAt, DH.Queued.init], by simp [LAcc.init], by simp [LAcc.init],
    by simp [LAcc.init]⟩

/-- a transition that only rewrites job `j` and leaves no log line: the relation survives when
the entries that mention `j` stay true -/
theorem LRel.frame {a : LAcc R} {s s' : QState R} {j : Nat} (r : LRel a s)
    (hlen : s'.jobs.length = s.jobs.length)
    (hother : ∀ k, k ≠ j → phaseAt s' k = phaseAt s k)
    (hcanc : phaseAt s' j ≠ some .cancelled)
    (hcl : j < a.closedOver → ∃ ph, phaseAt s' j = some ph ∧ isEnded ph = true)
    (hrun : ∀ l, (j, l) ∈ a.running → ∃ recv, phaseAt s' j = some (.running l recv))
    (hrcv : ∀ l, (j, l) ∈ a.recvOf → RecvEntry s' (j, l)) : LRel a s' := by
  refine ⟨r.nsub.trans hlen.symm, r.cle, ?_, ?_, ?_, ?_⟩
  · intro k hk
    by_cases hkj : k = j
    · subst hkj; exact absurd hk hcanc
    · exact r.canc k (hother k hkj ▸ hk)
  · intro k hk
    by_cases hkj : k = j
    · subst hkj; exact hcl hk
    · rw [hother k hkj]; exact r.cl k hk
  · intro x hx
    by_cases hkj : x.1 = j
    · obtain ⟨k, l⟩ := x; simp only at hkj; subst hkj; exact hrun l hx
    · rw [hother x.1 hkj]; exact r.run x hx
  · intro x hx
    by_cases hkj : x.1 = j
    · obtain ⟨k, l⟩ := x; simp only at hkj; subst hkj; exact hrcv l hx
    · simp only [RecvEntry, hother x.1 hkj]; exact r.rcv x hx

theorem cancelAll_phase : ∀ (order : List Nat) (s : QState R) (k : Nat),
    phaseAt (cancelAll s order) k = phaseAt s k ∨ phaseAt (cancelAll s order) k = some .cancelled
  | [], s, k => Or.inl rfl
  | c :: cs, s, k => by
    simp only [cancelAll]
    cases hc : step s (.cancel c) with
    | none => exact cancelAll_phase cs s k
    | some s1 =>
      have h1 : phaseAt s1 k = phaseAt s k ∨ phaseAt s1 k = some .cancelled := by
        cases step_spec hc with
        | cancel _ x hx hne =>
          have hlt : c < s.jobs.length := (List.getElem?_eq_some_iff.1 hx).1
          rw [phaseAt_setJob { s with queue := s.queue ++ held x.phase } c _ k hlt]
          by_cases hk : k = c
          · right; simp [hk]
          · left; simp [hk, phaseAt]
      rcases cancelAll_phase cs s1 k with h2 | h2
      · rcases h1 with h1 | h1
        · exact Or.inl (h2.trans h1)
        · exact Or.inr (h2.trans h1)
      · exact Or.inr h2

theorem ended_of_phaseAt {s : QState R} (hall : ∀ x ∈ s.jobs, isEnded x.phase = true) {k : Nat}
    {ph : Phase R} (h : phaseAt s k = some ph) : isEnded ph = true := by
  simp only [phaseAt, Option.map_eq_some_iff] at h
  obtain ⟨x, hx, rfl⟩ := h
  exact hall x (List.mem_of_getElem? hx)

/-- one action: its log lines satisfy the event clauses and the relation is kept -/
theorem act_ok {a : LAcc R} {s s' : QState R} {act : QAct} (h : Reach q0 pop workers s)
    (hq : q0.Nodup) (r : LRel a s) (hs : runAct s act = some s') :
    Reach q0 pop workers s' ∧ EventsOk q0 pop a (evOf s' act) ∧ LRel (accAfter a (evOf s' act)) s' := by
  have hi := reach_inv h
  cases act with
  | close order =>
    simp only [runAct] at hs
    split at hs
    · rename_i hall
      simp only [Option.some.injEq] at hs
      subst hs
      have hall' : ∀ j, j < s.jobs.length → j ∈ order := by
        intro j hj
        have := List.all_eq_true.1 hall j (List.mem_range.2 hj)
        simpa using this
      have hr' := reach_cancelAll h order
      obtain ⟨hlen, hend, _⟩ := cancelAll_spec order s
      have hfin : ∀ x ∈ (cancelAll s order).jobs, isEnded x.phase = true := by
        intro x hx
        obtain ⟨j, hj⟩ := exists_index hx
        have hjl : j < s.jobs.length := hlen ▸ (List.getElem?_eq_some_iff.1 hj).1
        obtain ⟨y, hy, hye⟩ := hend j hjl (Or.inl (hall' j hjl))
        rw [hj] at hy; cases hy; exact hye
      refine ⟨hr', ⟨queue_perm_of_all_ended hr' hfin, trivial⟩, ?_⟩
      simp only [evOf, accAfter, nextL]
      refine ⟨r.nsub.trans hlen.symm, Nat.le_refl _, ?_, ?_, by simp, ?_⟩
      · intro k hk
        simp only [phaseAt, Option.map_eq_some_iff] at hk
        obtain ⟨x, hx, _⟩ := hk
        have := (List.getElem?_eq_some_iff.1 hx).1
        rw [r.nsub, ← hlen]; exact this
      · intro k hk
        rw [r.nsub, ← hlen] at hk
        have hx : (cancelAll s order).jobs[k]? = some (cancelAll s order).jobs[k] := by simp [hk]
        exact ⟨_, phaseAt_of_get hx, hfin _ (List.mem_of_getElem? hx)⟩
      · intro x hx
        have := r.rcv x hx
        simp only [RecvEntry] at this ⊢
        rcases cancelAll_phase order s x.1 with h1 | h1
        · rw [h1]; exact this
        · exact Or.inr (Or.inr (Or.inr h1))
    · simp at hs
  | step t =>
    have hst : step s t = some s' := by
      cases t <;> simp only [runAct] at hs <;> first | exact hs | simp at hs
    have hr' : Reach q0 pop workers s' := .step t h hst
    refine ⟨hr', ?_⟩
    cases step_spec hst with
    | cancel j x hx hne => simp [runAct] at hs
    | submit n =>
      refine ⟨⟨trivial, trivial⟩, ?_⟩
      simp only [evOf, accAfter, nextL]
      have hph : ∀ k ph, phaseAt s k = some ph →
          phaseAt ({ s with jobs := s.jobs ++ List.replicate n { sem := 0, ctx := none, phase := Phase.created },
                            waves := s.waves + 1 } : QState R) k = some ph := by
        intro k ph hk
        simp only [phaseAt, Option.map_eq_some_iff] at hk ⊢
        obtain ⟨x, hx, hxp⟩ := hk
        exact ⟨x, by rw [List.getElem?_append_left (List.getElem?_eq_some_iff.1 hx).1]; exact hx, hxp⟩
      refine ⟨by simp [r.nsub], by have := r.cle; simp only; omega, ?_, ?_, ?_, ?_⟩
      · intro k hk
        by_cases hkl : k < s.jobs.length
        · apply r.canc k
          simp only [phaseAt, List.getElem?_append_left hkl] at hk
          exact hk
        · exfalso
          simp only [phaseAt, Option.map_eq_some_iff] at hk
          obtain ⟨x, hx, hxp⟩ := hk
          rw [List.getElem?_append_right (by omega)] at hx
          have := List.mem_of_getElem? hx
          rw [(List.mem_replicate.1 this).2] at hxp
          cases hxp
      · intro k hk
        obtain ⟨ph, h1, h2⟩ := r.cl k hk
        exact ⟨ph, hph k ph h1, h2⟩
      · intro x hx
        obtain ⟨recv, h1⟩ := r.run x hx
        exact ⟨recv, hph _ _ h1⟩
      · intro x hx
        have := r.rcv x hx
        simp only [RecvEntry] at this ⊢
        rcases this with h1 | h1 | ⟨md, h1⟩ | h1
        · exact Or.inl (hph _ _ h1)
        · exact Or.inr (Or.inl (hph _ _ h1))
        · exact Or.inr (Or.inr (Or.inl ⟨md, hph _ _ h1⟩))
        · exact Or.inr (Or.inr (Or.inr (hph _ _ h1)))
    | take j x hx hp hle =>
      refine ⟨trivial, ?_⟩
      simp only [evOf, accAfter]
      have hlt : j < s.jobs.length := (List.getElem?_eq_some_iff.1 hx).1
      have hpj : phaseAt s j = some .created := by rw [phaseAt_of_get hx, hp]
      have hset := fun k => phaseAt_setJob { s with queue := s.queue.drop s.pop } j
        { x with sem := s.waves, ctx := some (s.queue.take s.pop), phase := .holding (s.queue.take s.pop) } k hlt
      apply r.frame (j := j) (by simp [setJob]) (fun k hk => by rw [hset k]; simp [hk, phaseAt])
      · rw [hset j]; simp
      · intro hc
        obtain ⟨ph, h1, h2⟩ := r.cl j hc
        rw [hpj] at h1; cases h1; simp [isEnded] at h2
      · intro l hl
        obtain ⟨recv, h1⟩ := r.run _ hl
        rw [hpj] at h1; cases h1
      · intro l hl
        have := r.rcv _ hl
        simp only [RecvEntry, hpj] at this
        rcases this with h1 | h1 | ⟨_, h1⟩ | h1 <;> cases h1
    | start j x ds hx hp hlt' =>
      have hlt : j < s.jobs.length := (List.getElem?_eq_some_iff.1 hx).1
      have hpj : phaseAt s j = some (.holding ds) := by rw [phaseAt_of_get hx, hp]
      have hxo := hi.ph x (List.mem_of_getElem? hx)
      simp only [PhaseOk, hp] at hxo
      have hset := fun k => phaseAt_setJob s j { x with phase := .running ds x.ctx } k hlt
      have hrecv : recvAt (setJob s j { x with phase := .running ds x.ctx }) j = some ds := by
        simp only [recvAt, hset j, if_true]; exact hxo.2
      have hnc : ¬ j < a.closedOver := by
        intro hc
        obtain ⟨ph, h1, h2⟩ := r.cl j hc
        rw [hpj] at h1; cases h1; simp [isEnded] at h2
      simp only [evOf, hrecv]
      refine ⟨⟨Or.inr ⟨ds, rfl, hxo.1, ?_⟩, trivial⟩, ?_⟩
      · -- exclusivity: every evaluation that is running holds resources disjoint from `ds`
        intro y hy r' hr'
        obtain ⟨recv, h1⟩ := r.run y hy
        simp only [phaseAt, Option.map_eq_some_iff] at h1
        obtain ⟨xk, hxk, hxkp⟩ := h1
        have hne : j ≠ y.1 := by
          rintro rfl
          rw [hx] at hxk; cases hxk; rw [hp] at hxkp; cases hxkp
        have := held_disjoint h hq hne hx hxk r' (by rw [hp]; exact hr')
        rw [hxkp] at this; exact this
      · simp only [accAfter, nextL, hnc, if_false]
        refine ⟨by simp [setJob, r.nsub], r.cle, ?_, ?_, ?_, ?_⟩
        · intro k hk
          rw [hset k] at hk
          by_cases hkj : k = j
          · simp [hkj] at hk
          · simp only [hkj, if_false] at hk; exact r.canc k hk
        · intro k hk
          have hkj : k ≠ j := fun e => hnc (e ▸ hk)
          rw [hset k]; simp only [hkj, if_false]; exact r.cl k hk
        · intro y hy
          rcases List.mem_cons.1 hy with rfl | hy
          · exact ⟨x.ctx, by rw [hset j]; simp⟩
          · obtain ⟨recv, h1⟩ := r.run y hy
            have hkj : y.1 ≠ j := by
              rintro e; rw [e, hpj] at h1; cases h1
            exact ⟨recv, by rw [hset y.1]; simp only [hkj, if_false]; exact h1⟩
        · intro y hy
          rcases List.mem_cons.1 hy with rfl | hy
          · left; rw [hset j]; simp [hxo.2]
          · have := r.rcv y hy
            have hkj : y.1 ≠ j := by
              rintro e
              simp only [RecvEntry, e, hpj] at this
              rcases this with h1 | h1 | ⟨_, h1⟩ | h1 <;> cases h1
            simp only [RecvEntry, hset y.1, hkj, if_false] at this ⊢
            exact this
    | endRun j x ds recv hx hp =>
      have hlt : j < s.jobs.length := (List.getElem?_eq_some_iff.1 hx).1
      have hpj : phaseAt s j = some (.running ds recv) := by rw [phaseAt_of_get hx, hp]
      have hset := fun k => phaseAt_setJob s j { x with phase := .returning ds recv } k hlt
      have hnc : ¬ j < a.closedOver := by
        intro hc
        obtain ⟨ph, h1, h2⟩ := r.cl j hc
        rw [hpj] at h1; cases h1; simp [isEnded] at h2
      refine ⟨⟨trivial, trivial⟩, ?_⟩
      simp only [evOf, accAfter, nextL, hnc, if_false]
      refine ⟨by simp [setJob, r.nsub], r.cle, ?_, ?_, ?_, ?_⟩
      · intro k hk
        rw [hset k] at hk
        by_cases hkj : k = j
        · simp [hkj] at hk
        · simp only [hkj, if_false] at hk; exact r.canc k hk
      · intro k hk
        have hkj : k ≠ j := fun e => hnc (e ▸ hk)
        rw [hset k]; simp only [hkj, if_false]; exact r.cl k hk
      · intro y hy
        simp only [List.mem_filter, bne_iff_ne, ne_eq] at hy
        obtain ⟨recv', h1⟩ := r.run y hy.1
        exact ⟨recv', by rw [hset y.1]; simp only [hy.2, if_false]; exact h1⟩
      · intro y hy
        have := r.rcv y hy
        by_cases hkj : y.1 = j
        · simp only [RecvEntry, hkj, hpj] at this
          rcases this with h1 | h1 | ⟨_, h1⟩ | h1
          · simp only [Option.some.injEq, Phase.running.injEq] at h1
            obtain ⟨e1, e2⟩ := h1
            right; left
            subst e1 e2
            rw [hkj, hset j]; simp
          · cases h1
          · cases h1
          · cases h1
        · simp only [RecvEntry, hset y.1, hkj, if_false] at this ⊢
          exact this
    | release j x ds recv hx hp =>
      refine ⟨trivial, ?_⟩
      simp only [evOf, accAfter]
      have hlt : j < s.jobs.length := (List.getElem?_eq_some_iff.1 hx).1
      have hpj : phaseAt s j = some (.returning ds recv) := by rw [phaseAt_of_get hx, hp]
      have hset := fun k => phaseAt_setJob { s with queue := s.queue ++ ds } j
        { x with phase := .finished recv ds } k hlt
      apply r.frame (j := j) (by simp [setJob]) (fun k hk => by rw [hset k]; simp [hk, phaseAt])
      · rw [hset j]; simp
      · intro _; exact ⟨.finished recv ds, by rw [hset j]; simp, rfl⟩
      · intro l hl
        obtain ⟨recv', h1⟩ := r.run _ hl
        rw [hpj] at h1; cases h1
      · intro l hl
        have := r.rcv _ hl
        simp only [RecvEntry, hpj] at this
        rcases this with h1 | h1 | ⟨_, h1⟩ | h1
        · cases h1
        · simp only [Option.some.injEq, Phase.returning.injEq] at h1
          obtain ⟨e1, e2⟩ := h1
          right; right; left
          subst e1 e2
          exact ⟨ds, by rw [hset j]; simp⟩
        · cases h1
        · cases h1

theorem eventsOk_append (q0 : List R) (pop : Nat) : ∀ (l1 l2 : List (LEv R)) (a : LAcc R),
    EventsOk q0 pop a (l1 ++ l2) ↔ EventsOk q0 pop a l1 ∧ EventsOk q0 pop (accAfter a l1) l2
  | [], l2, a => by simp [EventsOk, accAfter]
  | e :: l1, l2, a => by
    simp only [List.cons_append, EventsOk, accAfter, eventsOk_append q0 pop l1 l2, and_assoc]

theorem accAfter_append : ∀ (l1 l2 : List (LEv R)) (a : LAcc R),
    accAfter a (l1 ++ l2) = accAfter (accAfter a l1) l2
  | [], _, _ => rfl
  | e :: l1, l2, a => by simp only [List.cons_append, accAfter, accAfter_append l1 l2]

theorem script_ok (hq : q0.Nodup) : ∀ (acts : List QAct) {a : LAcc R} {s s' : QState R} {evs : List (LEv R)},
    Reach q0 pop workers s → LRel a s → runScript s acts = some (s', evs) →
    Reach q0 pop workers s' ∧ EventsOk q0 pop a evs ∧ LRel (accAfter a evs) s'
  | [], a, s, s', evs, h, r, hs => by
    simp only [runScript, Option.some.injEq, Prod.mk.injEq] at hs
    obtain ⟨rfl, rfl⟩ := hs
    exact ⟨h, trivial, r⟩
  | act :: acts, a, s, s', evs, h, r, hs => by
    simp only [runScript] at hs
    cases h1 : runAct s act with
    | none => simp [h1] at hs
    | some s1 =>
      simp only [h1] at hs
      cases h2 : runScript s1 acts with
      | none => simp [h2] at hs
      | some pr =>
        obtain ⟨s2, evs2⟩ := pr
        simp only [h2, Option.some.injEq, Prod.mk.injEq] at hs
        obtain ⟨rfl, rfl⟩ := hs
        obtain ⟨hr1, he1, hl1⟩ := act_ok h hq r h1
        obtain ⟨hr2, he2, hl2⟩ := script_ok hq acts hr1 hl1 h2
        exact ⟨hr2, (eventsOk_append q0 pop _ _ a).2 ⟨he1, he2⟩, by rw [accAfter_append]; exact hl2⟩

theorem model_log_ok (hq : q0.Nodup) (acts : List QAct) {s : QState R} {evs : List (LEv R)}
    (hs : runScript (init q0 pop workers) acts = some (s, evs))
    (hall : ∀ x ∈ s.jobs, isEnded x.phase = true) : LogSpec (logOf q0 pop s evs) := by
  obtain ⟨hr, he, hl⟩ := script_ok (workers := workers) hq acts .init (LRel.init q0 pop workers) hs
  refine ⟨he, rfl, ?_, ?_, queue_perm_of_all_ended hr hall, ?_⟩
  · exact List.Nodup.sublist List.filter_sublist List.nodup_range
  · intro j hj
    change j < (accAfter LAcc.init evs).nsub at hj
    show j ∈ (logOf q0 pop s evs).returned ∨ j < (accAfter LAcc.init evs).closedOver
    rw [hl.nsub] at hj
    have hx : s.jobs[j]? = some s.jobs[j] := by simp [hj]
    have hph := phaseAt_of_get hx
    have hend := hall _ (List.mem_of_getElem? hx)
    cases hp : (s.jobs[j]).phase with
    | finished recv md =>
      left
      simp only [logOf, List.mem_filter, List.mem_range]
      exact ⟨hj, by rw [hph, hp]; rfl⟩
    | cancelled => right; exact hl.canc j (by rw [hph, hp])
    | created => rw [hp] at hend; cases hend
    | holding ds => rw [hp] at hend; cases hend
    | running ds recv => rw [hp] at hend; cases hend
    | returning ds recv => rw [hp] at hend; cases hend
  · intro x hx m hm
    change x ∈ (accAfter LAcc.init evs).recvOf at hx
    simp only [logOf, List.getElem?_map, Option.map_eq_some_iff] at hm
    obtain ⟨y, hy, hym⟩ := hm
    have hph := phaseAt_of_get hy
    have hyo := (reach_inv hr).ph y (List.mem_of_getElem? hy)
    cases hp : y.phase with
    | finished recv md =>
      rw [hp] at hym hph
      simp only [metaOf, Option.some.injEq] at hym
      subst hym
      simp only [PhaseOk, hp] at hyo
      have := hl.rcv x hx
      simp only [RecvEntry, hph] at this
      rcases this with h1 | h1 | ⟨md', h1⟩ | h1
      · cases h1
      · cases h1
      · simp only [Option.some.injEq, Phase.finished.injEq] at h1
        rw [hyo.2] at h1
        exact (Option.some.inj h1.1)
      · cases h1
    | created => rw [hp] at hym; cases hym
    | holding ds => rw [hp] at hym; cases hym
    | running ds recv => rw [hp] at hym; cases hym
    | returning ds recv => rw [hp] at hym; cases hym
    | cancelled => rw [hp] at hym; cases hym

end DH.Queued
