import Proofs.HypervolumeNds
import Model.HvRecorder

/-! Lemmas about the model of `ObjectiveRecorder` / `SearchEarlyStopping`
(`Model/HvRecorder.lean`): the hypervolume is monotone in the reference point, the componentwise
worst point is dominated by every recorded point, the recorded value never decreases along a
stream of jobs, and the value the code computes is the specified one. -/

namespace DH.Hypervolume
open DH.Pareto (Vec wdVec)

/-! ### enlarging the reference point never decreases the hypervolume -/

theorem filter_le_nil {r : Rat} {l : List Rat} (h : ∀ c ∈ l, r < c) :
    l.filter (fun c => decide (c ≤ r)) = [] := by
  rw [List.filter_eq_nil_iff]
  intro c hc
  simp [not_le.mpr (h c hc)]

/-- integrating a non-negative step function over the longer interval `[·, r']` with all its
cuts gives at least the integral over `[·, r]` with the cuts `≤ r` -/
theorem slabs_extend {A : Rat → Rat} {r r' : Rat} (hrr : r ≤ r') :
    ∀ {l : List Rat}, Sorted l → (∀ c ∈ l, c ≤ r') → (∀ c ∈ l, 0 ≤ A c) →
      slabs A r (l.filter (fun c => decide (c ≤ r))) ≤ slabs A r' l
  | [], _, _, _ => by simp [slabs]
  | [c], _, hr, hA => by
    have hAc : 0 ≤ A c := hA c (by simp)
    by_cases hc : c ≤ r
    · rw [List.filter_cons_of_pos (by simpa using hc)]
      simp only [List.filter_nil, slabs]
      exact mul_le_mul_of_nonneg_right (by linarith) hAc
    · rw [List.filter_cons_of_neg (by simpa using hc)]
      simp only [List.filter_nil, slabs]
      exact mul_nonneg (sub_nonneg.mpr (hr c (by simp))) hAc
  | c :: c' :: rest, hs, hr, hA => by
    have hc := List.pairwise_cons.mp hs
    have hcc' : c < c' := hc.1 c' (by simp)
    have hAc : 0 ≤ A c := hA c (by simp)
    have hr' : ∀ x ∈ c' :: rest, x ≤ r' := fun x hx => hr x (by simp [List.mem_cons.mp hx])
    have hA' : ∀ x ∈ c' :: rest, 0 ≤ A x := fun x hx => hA x (by simp [List.mem_cons.mp hx])
    have hnn : 0 ≤ slabs A r' (c' :: rest) := slabs_nonneg hc.2 hr' hA'
    have ih := slabs_extend (A := A) hrr (l := c' :: rest) hc.2 hr' hA'
    by_cases h1 : c ≤ r
    · by_cases h2 : c' ≤ r
      · rw [List.filter_cons_of_pos (by simpa using h1)]
        rw [List.filter_cons_of_pos (by simpa using h2)] at ih ⊢
        simp only [slabs]
        linarith
      · have hnil : (c' :: rest).filter (fun c => decide (c ≤ r)) = [] := by
          apply filter_le_nil
          intro x hx
          rcases List.mem_cons.mp hx with rfl | hx
          · exact not_le.mp h2
          · exact lt_trans (not_le.mp h2) ((List.pairwise_cons.mp hc.2).1 x hx)
        rw [List.filter_cons_of_pos (by simpa using h1), hnil]
        simp only [slabs]
        have : (r - c) * A c ≤ (c' - c) * A c :=
          mul_le_mul_of_nonneg_right (by linarith [not_le.mp h2]) hAc
        linarith
    · have hnil : (c :: c' :: rest).filter (fun c => decide (c ≤ r)) = [] := by
        apply filter_le_nil
        intro x hx
        rcases List.mem_cons.mp hx with rfl | hx
        · exact not_le.mp h1
        · exact lt_trans (not_le.mp h1) (hc.1 x hx)
      rw [hnil]
      simp only [slabs]
      exact slabs_nonneg hs hr hA

theorem cuts_filter {r r' : Rat} (hrr : r ≤ r') (P : List Vec) :
    (cuts r' P).filter (fun c => decide (c ≤ r)) = cuts r P := by
  apply sorted_ext ((sorted_cuts r' P).filter _) (sorted_cuts r P)
  intro x
  simp only [List.mem_filter, mem_cuts, decide_eq_true_eq]
  constructor
  · rintro ⟨⟨h, _⟩, hx⟩; exact ⟨h, hx⟩
  · rintro ⟨h, hx⟩; exact ⟨⟨h, le_trans hx hrr⟩, hx⟩

/-- **the hypervolume is monotone in the reference point** (componentwise `ref ≤ ref'`) -/
theorem hv_ref_mono : ∀ (ref ref' : List Rat) (P : List Vec), wdVec ref ref' = true →
    hv ref P ≤ hv ref' P
  | [], [], _, _ => le_refl _
  | [], _ :: _, _, h => by simp [wdVec] at h
  | _ :: _, [], _, h => by simp [wdVec] at h
  | r :: rs, r' :: rs', P, h => by
    simp only [wdVec, Bool.and_eq_true, decide_eq_true_eq] at h
    simp only [hv]
    rw [← cuts_filter h.1 P]
    refine le_trans (slabs_mono (B := fun t => hv rs' (proj t P)) ((sorted_cuts r' P).filter _) ?_ ?_)
      (slabs_extend h.1 (sorted_cuts r' P) (fun c hc => le_of_mem_cuts hc) (fun c _ => hv_nonneg rs' _))
    · intro c hc
      exact of_decide_eq_true (List.mem_filter.mp hc).2
    · intro c _
      exact hv_ref_mono rs rs' _ h.2

/-! ### the componentwise worst point -/

theorem vmax_length : ∀ (p q : Vec), p.length = q.length → (vmax p q).length = p.length
  | [], [], _ => rfl
  | [], _ :: _, h => by simp at h
  | _ :: _, [], h => by simp at h
  | a :: as, b :: bs, h => by simp [vmax] at h ⊢; omega

theorem wd_vmax_left : ∀ (p q : Vec), p.length = q.length → wdVec p (vmax p q) = true
  | [], [], _ => rfl
  | [], _ :: _, h => by simp at h
  | _ :: _, [], h => by simp at h
  | a :: as, b :: bs, h => by
    have ih := wd_vmax_left as bs (by simpa using h)
    simp only [vmax, List.zipWith_cons_cons, wdVec, Bool.and_eq_true, decide_eq_true_eq] at ih ⊢
    refine ⟨?_, ih⟩
    split
    · assumption
    · exact le_refl _

theorem wd_vmax_right : ∀ (p q : Vec), p.length = q.length → wdVec q (vmax p q) = true
  | [], [], _ => rfl
  | [], _ :: _, h => by simp at h
  | _ :: _, [], h => by simp at h
  | a :: as, b :: bs, h => by
    have ih := wd_vmax_right as bs (by simpa using h)
    simp only [vmax, List.zipWith_cons_cons, wdVec, Bool.and_eq_true, decide_eq_true_eq] at ih ⊢
    refine ⟨?_, ih⟩
    split
    · exact le_refl _
    · rename_i hab; exact le_of_lt (not_le.mp hab)

theorem vmax_mono_right : ∀ (p a b : Vec), p.length = a.length → wdVec a b = true →
    wdVec (vmax p a) (vmax p b) = true
  | [], [], [], _, _ => rfl
  | [], _ :: _, _, h, _ => by simp at h
  | _ :: _, [], _, h, _ => by simp at h
  | [], [], _ :: _, _, h => by simp [wdVec] at h
  | _ :: _, _ :: _, [], _, h => by simp [wdVec] at h
  | x :: xs, a :: as, b :: bs, hl, h => by
    simp only [wdVec, Bool.and_eq_true, decide_eq_true_eq] at h
    have ih := vmax_mono_right xs as bs (by simpa using hl) h.2
    simp only [vmax, List.zipWith_cons_cons, wdVec, Bool.and_eq_true, decide_eq_true_eq] at ih ⊢
    refine ⟨?_, ih⟩
    split <;> split
    · exact h.1
    · rename_i h1 h2; exact absurd (le_trans h1 h.1) h2
    · assumption
    · exact le_refl _

theorem wdVec_length : ∀ {p q : Vec}, wdVec p q = true → p.length = q.length
  | [], [], _ => rfl
  | [], _ :: _, h => by simp [wdVec] at h
  | _ :: _, [], h => by simp [wdVec] at h
  | _ :: as, _ :: bs, h => by
    simp only [wdVec, Bool.and_eq_true] at h
    simp [wdVec_length h.2]

theorem worst_length {m : Nat} : ∀ {P : List Vec}, P ≠ [] → Rect m P → (worst P).length = m
  | [], h, _ => absurd rfl h
  | [p], _, hP => hP p (by simp)
  | p :: q :: ps, _, hP => by
    have ih := worst_length (P := q :: ps) (by simp) (fun x hx => hP x (by simp [List.mem_cons.mp hx]))
    have hp : p.length = m := hP p (by simp)
    show (vmax p (worst (q :: ps))).length = m
    rw [vmax_length p _ (by rw [hp, ih]), hp]

/-- **every point is weakly below the componentwise worst point**: the recorder's call of
`hypervolume` is inside the property's quantifier -/
theorem wd_worst {m : Nat} : ∀ {P : List Vec}, Rect m P → ∀ p ∈ P, wdVec p (worst P) = true
  | [], _, p, hp => by simp at hp
  | [q], _, p, hp => by
    have : p = q := by simpa using hp
    subst this
    exact wd_refl p
  | q :: q' :: ps, hP, p, hp => by
    have hP' : Rect m (q' :: ps) := fun x hx => hP x (by simp [List.mem_cons.mp hx])
    have hlen : q.length = (worst (q' :: ps)).length := by
      rw [worst_length (by simp) hP', hP q (by simp)]
    show wdVec p (vmax q (worst (q' :: ps))) = true
    rcases List.mem_cons.mp hp with rfl | hp
    · exact wd_vmax_left _ _ hlen
    · exact wd_trans _ _ _ (wd_worst hP' p hp) (wd_vmax_right _ _ hlen)

/-- recording one more point can only move the worst point up -/
theorem worst_append {m : Nat} (q : Vec) (hq : q.length = m) :
    ∀ {P : List Vec}, P ≠ [] → Rect m P → wdVec (worst P) (worst (P ++ [q])) = true
  | [], h, _ => absurd rfl h
  | [p], _, hP => by
    show wdVec p (vmax p q) = true
    exact wd_vmax_left p q (by rw [hP p (by simp), hq])
  | p :: p' :: ps, _, hP => by
    have hP' : Rect m (p' :: ps) := fun x hx => hP x (by simp [List.mem_cons.mp hx])
    have ih := worst_append q hq (P := p' :: ps) (by simp) hP'
    show wdVec (vmax p (worst (p' :: ps))) (vmax p (worst (p' :: (ps ++ [q])))) = true
    exact vmax_mono_right p _ _ (by rw [worst_length (by simp) hP', hP p (by simp)]) ih

/-- componentwise maximum is associative (rows of any lengths) -/
theorem vmax_assoc : ∀ (p a q : Vec), vmax p (vmax a q) = vmax (vmax p a) q
  | [], _, _ => by simp [vmax]
  | _ :: _, [], _ => by simp [vmax]
  | _ :: _, _ :: _, [] => by simp [vmax]
  | x :: p, y :: a, z :: q => by
    have ih := vmax_assoc p a q
    simp only [vmax, List.zipWith_cons_cons, List.cons.injEq] at ih ⊢
    refine ⟨?_, ih⟩
    have e : ∀ u w : Rat, (if u ≤ w then w else u) = max u w := fun u w => (max_def u w).symm
    rw [e, e, e, e, max_assoc]

/-- the worst point of a history with one more row is the componentwise maximum of the old worst
point and the new row: the reference point can be kept incrementally, by EXACT maxima -/
theorem worst_snoc (q : Vec) : ∀ {P : List Vec}, P ≠ [] → worst (P ++ [q]) = vmax (worst P) q
  | [], h => absurd rfl h
  | [p], _ => rfl
  | p :: p' :: ps, _ => by
    have ih := worst_snoc q (P := p' :: ps) (by simp)
    show vmax p (worst (p' :: (ps ++ [q]))) = vmax (vmax p (worst (p' :: ps))) q
    rw [← vmax_assoc]
    exact congrArg (vmax p) ih

/-! ### the recorder -/

theorem negVec_length (p : Vec) : (negVec p).length = p.length := by simp [negVec]

theorem rect_recPts {m : Nat} {objs : List Vec} (h : Rect m objs) : Rect m (recPts objs) := by
  intro p hp
  obtain ⟨o, ho, rfl⟩ := List.mem_map.mp hp
  rw [negVec_length]; exact h o ho

theorem recPts_append (st : List Vec) (v : Vec) : recPts (st ++ [v]) = recPts st ++ [negVec v] := by
  simp [recPts]

theorem refStep_refOf (st : List Vec) : ∀ (o : Option Vec), refStep (refOf st) o = refOf (recStep st o)
  | none => rfl
  | some v => by
    cases st with
    | nil => simp [refOf, refStep, recStep, recPts, worst]
    | cons s ss =>
      have h : worst (recPts (s :: ss) ++ [negVec v]) = vmax (worst (recPts (s :: ss))) (negVec v) :=
        worst_snoc (negVec v) (by simp [recPts])
      simp only [refOf, refStep, recStep, List.isEmpty_cons, List.cons_append, List.isEmpty_cons,
        Bool.false_eq_true, if_false]
      rw [← List.cons_append, recPts_append, h]

/-- the incrementally kept reference point is the worst point of the history, after every stream -/
theorem refRun_eq : ∀ (jobs : List (Option Vec)) (st : List Vec),
    refRun (refOf st) jobs = refOf (jobs.foldl recStep st)
  | [], _ => rfl
  | o :: os, st => by
    show refRun (refStep (refOf st) o) os = refOf (os.foldl recStep (recStep st o))
    rw [refStep_refOf]
    exact refRun_eq os (recStep st o)

theorem recValueFast_eq (objs : List Vec) : recValueFast objs = recValue objs := by
  simp only [recValueFast, recValue, hvFast_eq]

theorem recRunFast_eq : ∀ (jobs : List (Option Vec)) (st : List Vec), recRunFast st jobs = recRun st jobs
  | [], _ => rfl
  | o :: os, st => by simp only [recRunFast, recRun, recValueFast_eq, recRunFast_eq os]

theorem leVal_refl : ∀ a : Option Rat, leVal a a
  | none => trivial
  | some _ => le_refl _

theorem leVal_trans : ∀ {a b c : Option Rat}, leVal a b → leVal b c → leVal a c
  | none, _, _, _, _ => trivial
  | some _, none, _, h, _ => absurd h (by simp [leVal])
  | some _, some _, none, _, h => absurd h (by simp [leVal])
  | some _, some _, some _, h1, h2 => le_trans h1 h2

/-- **one more recorded job never decreases the recorded value** (the reference point can only
move up, the point set only grows) -/
theorem recValue_step {m : Nat} (st : List Vec) (v : Vec) (hst : Rect m st) (hv' : v.length = m) :
    leVal (recValue st) (recValue (st ++ [v])) := by
  cases st with
  | nil => simp [recValue, leVal]
  | cons s ss =>
    have hne : (s :: ss) ++ [v] ≠ [] := by simp
    have h1 : recValue (s :: ss) = some (hv (worst (recPts (s :: ss))) (recPts (s :: ss))) := by
      simp [recValue]
    have h2 : recValue ((s :: ss) ++ [v]) =
        some (hv (worst (recPts ((s :: ss) ++ [v]))) (recPts ((s :: ss) ++ [v]))) := by
      simp [recValue]
    rw [h1, h2]
    show hv _ _ ≤ hv _ _
    rw [recPts_append]
    have hP : Rect m (recPts (s :: ss)) := rect_recPts hst
    have hw := worst_append (negVec v) (by rw [negVec_length, hv']) (P := recPts (s :: ss))
      (by simp [recPts]) hP
    exact le_trans (hv_ref_mono _ _ _ hw) (hv_mono _ (fun p hp => List.mem_append_left _ hp))

theorem rect_recStep {m : Nat} {st : List Vec} (hst : Rect m st) :
    ∀ (o : Option Vec), (∀ v, o = some v → v.length = m) → Rect m (recStep st o)
  | none, _ => hst
  | some v, h => by
    intro p hp
    rcases List.mem_append.mp hp with hp | hp
    · exact hst p hp
    · have : p = v := by simpa using hp
      subst this; exact h p rfl

theorem recValue_recStep {m : Nat} (st : List Vec) (hst : Rect m st) :
    ∀ (o : Option Vec), (∀ v, o = some v → v.length = m) → leVal (recValue st) (recValue (recStep st o))
  | none, _ => leVal_refl _
  | some v, h => recValue_step st v hst (h v rfl)

theorem recRun_lower {m : Nat} : ∀ (jobs : List (Option Vec)) (st : List Vec), Rect m st →
    (∀ v, some v ∈ jobs → v.length = m) → ∀ x ∈ recRun st jobs, leVal (recValue st) x
  | [], _, _, _, x, hx => by simp [recRun] at hx
  | o :: os, st, hst, hj, x, hx => by
    have ho : ∀ v, o = some v → v.length = m := fun v hv' => hj v (by simp [hv'])
    have h1 := recValue_recStep st hst o ho
    simp only [recRun, List.mem_cons] at hx
    rcases hx with rfl | hx
    · exact h1
    · exact leVal_trans h1 (recRun_lower os _ (rect_recStep hst o ho) (fun v hv' => hj v (by simp [hv'])) x hx)

/-- **the values reported along any stream of jobs (failures included) never decrease** -/
theorem recRun_pairwise {m : Nat} : ∀ (jobs : List (Option Vec)) (st : List Vec), Rect m st →
    (∀ v, some v ∈ jobs → v.length = m) → (recRun st jobs).Pairwise leVal
  | [], _, _, _ => by simp [recRun]
  | o :: os, st, hst, hj => by
    have ho : ∀ v, o = some v → v.length = m := fun v hv' => hj v (by simp [hv'])
    have hj' : ∀ v, some v ∈ os → v.length = m := fun v hv' => hj v (by simp [hv'])
    simp only [recRun, List.pairwise_cons]
    exact ⟨recRun_lower os _ (rect_recStep hst o ho) hj', recRun_pairwise os _ (rect_recStep hst o ho) hj'⟩

/-- **the value the code computes is the specified one** for 1–5 objectives: `hypervolume` is called
with the worst point as reference, every point is weakly below it (`wd_worst`), so the end-to-end
theorems about `hypervolumeCode` apply (boundary points included: each coordinate of the worst
point is attained by a recorded point). -/
theorem recValueCode_eq {m : Nat} (objs : List Vec) (order : List Nat) (hm : 1 ≤ m) (hm5 : m ≤ 5)
    (hrect : Rect m objs)
    (h1 : ∀ i, i < objs.length → i ∈ order) (h2 : ∀ i ∈ order, i < objs.length)
    (hbig : ∀ p ∈ recPts objs, ∀ k, k < m → negInf < co p k - co (worst (recPts objs)) k) :
    recValueCode objs order = recValue objs := by
  cases objs with
  | nil => simp [recValueCode, recValue]
  | cons s ss =>
    have hP : Rect m (recPts (s :: ss)) := rect_recPts hrect
    have hne : recPts (s :: ss) ≠ [] := by simp [recPts]
    have hlen : (worst (recPts (s :: ss))).length = m := worst_length hne hP
    have hle := wd_worst hP
    have hpl : (recPts (s :: ss)).length = (s :: ss).length := by simp [recPts]
    have e1 : recValueCode (s :: ss) order =
        hypervolumeCode (recPts (s :: ss)) (worst (recPts (s :: ss))) order := by simp [recValueCode]
    have e2 : recValue (s :: ss) = some (hv (worst (recPts (s :: ss))) (recPts (s :: ss))) := by
      simp [recValue]
    rw [e1, e2]
    by_cases hm1 : m = 1
    · subst hm1
      obtain ⟨r, hr⟩ := len1 hlen
      rw [hr] at hle ⊢
      exact hypervolumeCode_1d r _ order (by rw [hpl]; exact h1) (by rw [hpl]; exact h2) hP hle
    · refine hypervolumeCode_nd5 _ _ order (by rw [hpl]; exact h1) (by rw [hpl]; exact h2)
        (by rw [hlen]; omega) (by rw [hlen]; exact hP) hle (by rw [hlen]; exact hbig) ?_
      intro p _ k hk _
      rw [hlen] at hk ⊢
      omega

/-! ### the early-stopping decision -/

theorem stopStep_improving (patience : Nat) (thr : Option Rat) (s : Stopper) (v b : Option Rat)
    (hp : 0 < patience) (hb : s.best = some b) (hgt : gtVal v b = true) :
    stopStep patience thr s v = { s with best := some v, nLower := 0 } := by
  have : ¬ patience ≤ 0 := by omega
  simp [stopStep, hb, hgt, this]

theorem stopStep_stopped (patience : Nat) (thr : Option Rat) (s : Stopper) (v : Option Rat)
    (h : (stopStep patience thr s v).stopped = true) :
    s.stopped = true ∨ patience ≤ (stopStep patience thr s v).nLower := by
  unfold stopStep at h ⊢
  cases hb : s.best with
  | none =>
    simp only [hb] at h ⊢
    by_cases hp : patience ≤ s.nLower
    · right
      simp only [hp, if_true] at h ⊢
      cases thr with
      | none => simpa using hp
      | some t => simp only; split <;> simpa using hp
    · left; simpa [hp] using h
  | some b =>
    simp only [hb] at h ⊢
    by_cases hg : gtVal v b = true
    · simp only [hg, if_true] at h ⊢
      by_cases hp : patience ≤ 0
      · right
        simp only [hp, if_true] at h ⊢
        cases thr with
        | none => simpa using hp
        | some t => simp only; split <;> simpa using hp
      · left; simpa [hp] using h
    · simp only [hg] at h ⊢
      by_cases hp : patience ≤ s.nLower + 1
      · right
        simp only [Bool.false_eq_true, if_false, hp, if_true] at h ⊢
        cases thr with
        | none => simpa using hp
        | some t => simp only; split <;> simpa using hp
      · left; simpa [hp] using h

end DH.Hypervolume
