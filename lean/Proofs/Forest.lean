import Model.Forest
import Mathlib.Tactic.Ring
import Mathlib.Tactic.Linarith
import Mathlib.Tactic.Positivity
import Mathlib.Tactic.FieldSimp

/-! Helper lemmas for C18 (law of total variance of the forest aggregation). -/

namespace DH.Forest

/-! ### folds are sums -/

theorem foldl_add_sumL (f : TreeOut → Rat) (a : Rat) (l : List TreeOut) :
    l.foldl (fun out t => out + f t) a = a + sumL (l.map f) := by
  induction l generalizing a with
  | nil => simp [sumL]
  | cons x xs ih => simp only [List.foldl_cons, List.map_cons, sumL, ih]; ring

theorem accMean_eq (l : List TreeOut) : accMean l = sumL (l.map (·.1)) := by
  unfold accMean
  rw [foldl_add_sumL (fun t => t.1)]; ring

theorem accStd_gen (minVar : Rat) (l : List TreeOut) (a b : Rat) :
    l.foldl (fun out t => (out.1 + t.1, out.2 + (rmax t.2 minVar + t.1 * t.1))) (a, b)
      = (a + sumL (l.map (·.1)), b + sumL (l.map (fun t => rmax t.2 minVar + t.1 * t.1))) := by
  induction l generalizing a b with
  | nil => simp [sumL]
  | cons x xs ih =>
    simp only [List.foldl_cons, List.map_cons, sumL, ih]
    congr 1 <;> ring

theorem accStd_eq (minVar : Rat) (l : List TreeOut) :
    accStd minVar l = (sumL (l.map (·.1)), sumL (l.map (fun t => rmax t.2 minVar + t.1 * t.1))) := by
  unfold accStd; rw [accStd_gen]; simp

theorem accDis_gen (minVar : Rat) (l : List TreeOut) (a b c : Rat) :
    l.foldl (fun out t => (out.1 + t.1, out.2.1 + rmax t.2 minVar, out.2.2 + t.1 * t.1)) (a, b, c)
      = (a + sumL (l.map (·.1)), b + sumL (l.map (fun t => rmax t.2 minVar)),
         c + sumL (l.map (fun t => t.1 * t.1))) := by
  induction l generalizing a b c with
  | nil => simp [sumL]
  | cons x xs ih =>
    simp only [List.foldl_cons, List.map_cons, sumL, ih]
    congr 1
    · ring
    · congr 1 <;> ring

theorem accDis_eq (minVar : Rat) (l : List TreeOut) :
    accDis minVar l = (sumL (l.map (·.1)), sumL (l.map (fun t => rmax t.2 minVar)),
      sumL (l.map (fun t => t.1 * t.1))) := by
  unfold accDis; rw [accDis_gen]; simp

theorem sumL_add (f g : TreeOut → Rat) (l : List TreeOut) :
    sumL (l.map (fun t => f t + g t)) = sumL (l.map f) + sumL (l.map g) := by
  induction l with
  | nil => simp [sumL]
  | cons x xs ih => simp only [List.map_cons, sumL, ih]; ring

/-! ### sums do not depend on the order -/

theorem sumL_perm {l l' : List Rat} (h : l.Perm l') : sumL l = sumL l' := by
  induction h with
  | nil => rfl
  | cons a _ ih => simp [sumL, ih]
  | swap a b l => simp only [sumL]; ring
  | trans _ _ ih1 ih2 => exact ih1.trans ih2

theorem permute_range (l : List TreeOut) :
    permute l (List.range l.length) = l := by
  unfold permute
  induction l with
  | nil => rfl
  | cons a as ih =>
    rw [List.length_cons, List.range_succ_eq_map, List.filterMap_cons]
    simp only [List.getElem?_cons_zero, List.filterMap_map]
    congr 1

/-- what the order is assumed to be: every tree exactly once -/
def OrderOK (n : Nat) (order : List Nat) : Prop := order.Perm (List.range n)

theorem permute_perm (l : List TreeOut) (order : List Nat) (h : OrderOK l.length order) :
    (permute l order).Perm l := by
  have := List.Perm.filterMap (fun i => l[i]?) h
  rw [show List.filterMap (fun i => l[i]?) (List.range l.length) = l from permute_range l] at this
  exact this

theorem sumL_map_permute (f : TreeOut → Rat) (l : List TreeOut) (order : List Nat)
    (h : OrderOK l.length order) :
    sumL ((permute l order).map f) = sumL (l.map f) :=
  sumL_perm ((permute_perm l order h).map f)

/-! ### mean of squares ≥ square of mean -/

theorem sumL_sq_nonneg (l : List Rat) : 0 ≤ sumL (l.map (fun x => x * x)) := by
  induction l with
  | nil => simp [sumL]
  | cons a as ih =>
    simp only [List.map_cons, sumL]
    have : 0 ≤ a * a := mul_self_nonneg a
    linarith

theorem sumL_centered (c : Rat) (l : List Rat) :
    sumL (l.map (fun x => (x - c) * (x - c)))
      = sumL (l.map (fun x => x * x)) - 2 * c * sumL l + (l.length : Rat) * (c * c) := by
  induction l with
  | nil => simp [sumL]
  | cons a as ih =>
    simp only [List.map_cons, sumL, ih, List.length_cons]
    push_cast; ring

theorem sumL_centered_nonneg (c : Rat) (l : List Rat) :
    0 ≤ sumL (l.map (fun x => (x - c) * (x - c))) := by
  have := sumL_sq_nonneg (l.map (fun x => x - c))
  simpa [List.map_map, Function.comp_def] using this

/-- `E[m²] − (E m)² ≥ 0` for a non-empty list -/
theorem second_moment_ge (l : List Rat) (hn : l ≠ []) :
    0 ≤ sumL (l.map (fun x => x * x)) / (l.length : Rat)
        - (sumL l / (l.length : Rat)) * (sumL l / (l.length : Rat)) := by
  have hpos : (0 : Rat) < (l.length : Rat) := by
    have : 0 < l.length := List.length_pos_of_ne_nil hn
    exact_mod_cast this
  have h := sumL_centered_nonneg (sumL l / (l.length : Rat)) l
  rw [sumL_centered] at h
  have key : sumL (l.map (fun x => x * x)) / (l.length : Rat)
        - (sumL l / (l.length : Rat)) * (sumL l / (l.length : Rat))
      = (sumL (l.map (fun x => x * x)) - 2 * (sumL l / (l.length : Rat)) * sumL l
          + (l.length : Rat) * ((sumL l / (l.length : Rat)) * (sumL l / (l.length : Rat))))
        / (l.length : Rat) := by
    field_simp; ring
  rw [key]
  exact div_nonneg h hpos.le

theorem sumL_nonneg_of (l : List Rat) (h : ∀ x ∈ l, 0 ≤ x) : 0 ≤ sumL l := by
  induction l with
  | nil => simp [sumL]
  | cons a as ih =>
    simp only [sumL]
    have h1 := h a (by simp)
    have h2 := ih (fun x hx => h x (by simp [hx]))
    linarith

theorem clamp0_nonneg (v : Rat) : 0 ≤ clamp0 v := by
  unfold clamp0; split <;> linarith

theorem clamp0_of_nonneg {v : Rat} (h : 0 ≤ v) : clamp0 v = v := by
  unfold clamp0; split
  · linarith
  · rfl

theorem rmax0_nonneg (v : Rat) : 0 ≤ rmax v 0 := by
  unfold rmax; split <;> linarith

theorem rmax0_of_nonneg {v : Rat} (h : 0 ≤ v) : rmax v 0 = v := by
  unfold rmax; split
  · linarith
  · rfl

/-! ### the three forms in closed form -/

theorem specEp_nonneg (trees : List TreeOut) (hn : trees ≠ []) : 0 ≤ specEp trees := by
  have h := second_moment_ge (trees.map (·.1)) (by simpa using hn)
  simpa [specEp, specMean, List.map_map, Function.comp_def] using h

theorem specAl_nonneg (minVar : Rat) (trees : List TreeOut)
    (h : ∀ t ∈ trees, 0 ≤ rmax t.2 minVar) : 0 ≤ specAl minVar trees := by
  unfold specAl
  apply div_nonneg
  · apply sumL_nonneg_of
    intro x hx
    rcases List.mem_map.1 hx with ⟨t, ht, rfl⟩
    exact h t ht
  · exact_mod_cast Nat.zero_le _

theorem predictMean_eq (trees : List TreeOut) (order : List Nat) (hn : trees ≠ [])
    (ho : OrderOK trees.length order) :
    predictMean trees order = some (specMean trees) := by
  have hl : trees.length ≠ 0 := by simpa using hn
  simp only [predictMean, hl, if_false, accMean_eq, sumL_map_permute _ trees order ho, specMean]

/-- the tail of `_return_mean_and_std` applied to the complete sums, in closed form -/
theorem finishStd_closed (minVar : Rat) (l : List TreeOut) :
    finishStd (l.length : Rat)
        (sumL (l.map (·.1)), sumL (l.map (fun t => rmax t.2 minVar + t.1 * t.1)))
      = ⟨specMean l, rmax (specAl minVar l + specEp l) 0⟩ := by
  unfold finishStd
  rw [sumL_add (fun t => rmax t.2 minVar) (fun t => t.1 * t.1)]
  simp only [specAl, specEp, specMean]
  congr 2
  ring

theorem finishDis_closed (minVar : Rat) (l : List TreeOut) :
    finishDis (l.length : Rat)
        (sumL (l.map (·.1)), sumL (l.map (fun t => rmax t.2 minVar)), sumL (l.map (fun t => t.1 * t.1)))
      = ⟨specMean l, clamp0 (specAl minVar l), clamp0 (specEp l)⟩ := rfl

theorem predictStd_eq (minVar : Rat) (trees : List TreeOut) (order : List Nat) (hn : trees ≠ [])
    (ho : OrderOK trees.length order) :
    predictStd minVar trees order
      = some ⟨specMean trees, rmax (specAl minVar trees + specEp trees) 0⟩ := by
  have hl : trees.length ≠ 0 := by simpa using hn
  simp only [predictStd, hl, if_false, accStd_eq, sumL_map_permute _ trees order ho]
  rw [finishStd_closed]

theorem predictDis_eq (minVar : Rat) (trees : List TreeOut) (order : List Nat) (hn : trees ≠ [])
    (ho : OrderOK trees.length order) :
    predictDis minVar trees order
      = some ⟨specMean trees, clamp0 (specAl minVar trees), clamp0 (specEp trees)⟩ := by
  have hl : trees.length ≠ 0 := by simpa using hn
  simp only [predictDis, hl, if_false, accDis_eq, sumL_map_permute _ trees order ho]
  rw [finishDis_closed]

/-! ### blocks of trees -/

theorem sumL_append (a b : List Rat) : sumL (a ++ b) = sumL a + sumL b := by
  induction a with
  | nil => simp [sumL]
  | cons x xs ih => simp only [List.cons_append, sumL, ih]; ring

theorem permute_flatten (trees : List TreeOut) (blocks : List (List Nat)) :
    (blocks.map (permute trees)).flatten = permute trees blocks.flatten := by
  unfold permute
  rw [List.filterMap_flatten]

theorem accStdBlocks_gen (minVar : Rat) (bs : List (List TreeOut)) (a b : Rat) :
    bs.foldl (fun out blk => (out.1 + (accStd minVar blk).1, out.2 + (accStd minVar blk).2)) (a, b)
      = (a + sumL (bs.flatten.map (·.1)),
         b + sumL (bs.flatten.map (fun t => rmax t.2 minVar + t.1 * t.1))) := by
  induction bs generalizing a b with
  | nil => simp [sumL]
  | cons x xs ih =>
    simp only [List.foldl_cons]
    rw [ih]
    simp only [List.flatten_cons, List.map_append, sumL_append, accStd_eq]
    congr 1 <;> ring

theorem accStdBlocks_eq (minVar : Rat) (bs : List (List TreeOut)) :
    accStdBlocks minVar bs = accStd minVar bs.flatten := by
  unfold accStdBlocks
  rw [accStdBlocks_gen, accStd_eq]; simp

theorem accDisBlocks_gen (minVar : Rat) (bs : List (List TreeOut)) (a b c : Rat) :
    bs.foldl (fun out blk => (out.1 + (accDis minVar blk).1, out.2.1 + (accDis minVar blk).2.1,
        out.2.2 + (accDis minVar blk).2.2)) (a, b, c)
      = (a + sumL (bs.flatten.map (·.1)), b + sumL (bs.flatten.map (fun t => rmax t.2 minVar)),
         c + sumL (bs.flatten.map (fun t => t.1 * t.1))) := by
  induction bs generalizing a b c with
  | nil => simp [sumL]
  | cons x xs ih =>
    simp only [List.foldl_cons]
    rw [ih]
    simp only [List.flatten_cons, List.map_append, sumL_append, accDis_eq]
    congr 1
    · ring
    · congr 1 <;> ring

theorem accDisBlocks_eq (minVar : Rat) (bs : List (List TreeOut)) :
    accDisBlocks minVar bs = accDis minVar bs.flatten := by
  unfold accDisBlocks
  rw [accDisBlocks_gen, accDis_eq]; simp

theorem accMeanBlocks_gen (bs : List (List TreeOut)) (a : Rat) :
    bs.foldl (fun out blk => out + accMean blk) a = a + sumL (bs.flatten.map (·.1)) := by
  induction bs generalizing a with
  | nil => simp [sumL]
  | cons x xs ih =>
    simp only [List.foldl_cons]
    rw [ih]
    simp only [List.flatten_cons, List.map_append, sumL_append, accMean_eq]
    ring

theorem accMeanBlocks_eq (bs : List (List TreeOut)) : accMeanBlocks bs = accMean bs.flatten := by
  unfold accMeanBlocks
  rw [accMeanBlocks_gen, accMean_eq]; simp

/-- the blocks cover every tree exactly once -/
def PartitionOK (n : Nat) (blocks : List (List Nat)) : Prop := OrderOK n blocks.flatten

theorem predictMeanBlocks_flat (trees : List TreeOut) (blocks : List (List Nat)) :
    predictMeanBlocks trees blocks = predictMean trees blocks.flatten := by
  unfold predictMeanBlocks predictMean
  rw [accMeanBlocks_eq, permute_flatten]

theorem predictStdBlocks_flat (minVar : Rat) (trees : List TreeOut) (blocks : List (List Nat)) :
    predictStdBlocks minVar trees blocks = predictStd minVar trees blocks.flatten := by
  unfold predictStdBlocks predictStd
  rw [accStdBlocks_eq, permute_flatten]

theorem predictDisBlocks_flat (minVar : Rat) (trees : List TreeOut) (blocks : List (List Nat)) :
    predictDisBlocks minVar trees blocks = predictDis minVar trees blocks.flatten := by
  unfold predictDisBlocks predictDis
  rw [accDisBlocks_eq, permute_flatten]

/-! ### the vectorised batch: row `j` of the result only sees column `j` -/

theorem vadd_length (a b : List Rat) : (vadd a b).length = min a.length b.length := by
  unfold vadd; simp

theorem accVec_gen_length (g : TreeOut → Rat) (nrows : Nat) (ts : List TreeRows) (acc : List Rat)
    (hacc : acc.length = nrows) (hlen : ∀ t ∈ ts, t.length = nrows) :
    (ts.foldl (fun out t => vadd out (t.map g)) acc).length = nrows := by
  induction ts generalizing acc with
  | nil => simpa using hacc
  | cons t ts ih =>
    simp only [List.foldl_cons]
    apply ih
    · rw [vadd_length, List.length_map, hacc, hlen t (by simp)]; simp
    · intro t' ht'; exact hlen t' (by simp [ht'])

theorem accVec_gen (g : TreeOut → Rat) (nrows : Nat) (ts : List TreeRows) (acc : List Rat)
    (hacc : acc.length = nrows) (hlen : ∀ t ∈ ts, t.length = nrows) (j : Nat) (hj : j < nrows) :
    (ts.foldl (fun out t => vadd out (t.map g)) acc)[j]?
      = acc[j]?.map (fun a => a + sumL ((col j ts).map g)) := by
  induction ts generalizing acc with
  | nil =>
    have : (fun a : Rat => a + sumL ((col j ([] : List TreeRows)).map g)) = id := by
      funext a; simp [col, sumL]
    simp [this]
  | cons t ts ih =>
    have htl : t.length = nrows := hlen t (by simp)
    have hjt : j < t.length := by omega
    have hja : j < acc.length := by omega
    simp only [List.foldl_cons]
    rw [ih (vadd acc (t.map g))
      (by rw [vadd_length, List.length_map, hacc, htl]; simp)
      (fun t' ht' => hlen t' (by simp [ht']))]
    have hcol : col j (t :: ts) = t[j] :: col j ts := by
      unfold col
      rw [List.filterMap_cons]
      simp [List.getElem?_eq_getElem hjt]
    rw [hcol]
    unfold vadd
    rw [List.getElem?_zipWith, List.getElem?_eq_getElem hja, List.getElem?_map,
      List.getElem?_eq_getElem hjt]
    simp only [Option.map_some, List.map_cons, sumL]
    congr 1
    ring

theorem accVec_getElem? (g : TreeOut → Rat) (nrows : Nat) (ts : List TreeRows)
    (hlen : ∀ t ∈ ts, t.length = nrows) (j : Nat) (hj : j < nrows) :
    (accVec g nrows ts)[j]? = some (sumL ((col j ts).map g)) := by
  unfold accVec
  rw [accVec_gen g nrows ts _ (by simp) hlen j hj, List.getElem?_replicate_of_lt hj]
  simp

theorem accVec_length (g : TreeOut → Rat) (nrows : Nat) (ts : List TreeRows)
    (hlen : ∀ t ∈ ts, t.length = nrows) : (accVec g nrows ts).length = nrows :=
  accVec_gen_length g nrows ts _ (by simp) hlen

theorem col_length (j nrows : Nat) (trees : List TreeRows) (hlen : ∀ t ∈ trees, t.length = nrows)
    (hj : j < nrows) : (col j trees).length = trees.length := by
  induction trees with
  | nil => rfl
  | cons t ts ih =>
    have hjt : j < t.length := by rw [hlen t (by simp)]; exact hj
    unfold col at ih ⊢
    rw [List.filterMap_cons]
    simp only [List.getElem?_eq_getElem hjt, List.length_cons]
    rw [ih (fun t' ht' => hlen t' (by simp [ht']))]

theorem permute_perm' {α : Type} (l : List α) (order : List Nat) (h : OrderOK l.length order) :
    (permute l order).Perm l := by
  have hr : ∀ (l : List α), List.filterMap (fun i => l[i]?) (List.range l.length) = l := by
    intro l
    induction l with
    | nil => rfl
    | cons a as ih =>
      rw [List.length_cons, List.range_succ_eq_map, List.filterMap_cons]
      simp only [List.getElem?_cons_zero, List.filterMap_map]
      congr 1
  have := List.Perm.filterMap (fun i => l[i]?) h
  rw [hr l] at this
  exact this

theorem mem_permute {α : Type} (l : List α) (order : List Nat) (x : α) (hx : x ∈ permute l order) :
    x ∈ l := by
  unfold permute at hx
  rcases List.mem_filterMap.1 hx with ⟨i, _, hi⟩
  exact List.mem_of_getElem? hi

theorem sumL_col_permute (g : TreeOut → Rat) (j : Nat) (trees : List TreeRows) (order : List Nat)
    (ho : OrderOK trees.length order) :
    sumL ((col j (permute trees order)).map g) = sumL ((col j trees).map g) := by
  apply sumL_perm
  apply List.Perm.map
  unfold col
  exact List.Perm.filterMap _ (permute_perm' trees order ho)

theorem hlen_permute (nrows : Nat) (trees : List TreeRows) (order : List Nat)
    (hlen : ∀ t ∈ trees, t.length = nrows) : ∀ t ∈ permute trees order, t.length = nrows :=
  fun t ht => hlen t (mem_permute trees order t ht)

theorem col_ne_nil (j nrows : Nat) (trees : List TreeRows) (hn : trees ≠ [])
    (hlen : ∀ t ∈ trees, t.length = nrows) (hj : j < nrows) : col j trees ≠ [] := by
  intro h
  have := col_length j nrows trees hlen hj
  rw [h] at this
  exact hn (List.eq_nil_of_length_eq_zero this.symm)

theorem predictMeanBatch_row (nrows : Nat) (trees : List TreeRows) (order o' : List Nat)
    (hn : trees ≠ []) (hlen : ∀ t ∈ trees, t.length = nrows)
    (ho : OrderOK trees.length order) (ho' : OrderOK trees.length o') (j : Nat) (hj : j < nrows) :
    (predictMeanBatch nrows trees order).bind (·[j]?) = predictMean (col j trees) o' := by
  have hl : trees.length ≠ 0 := by simpa using hn
  have hc := col_length j nrows trees hlen hj
  rw [predictMean_eq (col j trees) o' (col_ne_nil j nrows trees hn hlen hj) (by rw [hc]; exact ho')]
  simp only [predictMeanBatch, hl, if_false, Option.bind_some, List.getElem?_map]
  rw [accVec_getElem? _ nrows _ (hlen_permute nrows trees order hlen) j hj,
    sumL_col_permute _ j trees order ho]
  simp only [Option.map_some, specMean, hc]

theorem predictStdBatch_row (minVar : Rat) (nrows : Nat) (trees : List TreeRows) (order o' : List Nat)
    (hn : trees ≠ []) (hlen : ∀ t ∈ trees, t.length = nrows)
    (ho : OrderOK trees.length order) (ho' : OrderOK trees.length o') (j : Nat) (hj : j < nrows) :
    (predictStdBatch minVar nrows trees order).bind (·[j]?) = predictStd minVar (col j trees) o' := by
  have hl : trees.length ≠ 0 := by simpa using hn
  have hc := col_length j nrows trees hlen hj
  rw [predictStd_eq minVar (col j trees) o' (col_ne_nil j nrows trees hn hlen hj) (by rw [hc]; exact ho')]
  simp only [predictStdBatch, hl, if_false, Option.bind_some]
  rw [List.getElem?_zipWith,
    accVec_getElem? _ nrows _ (hlen_permute nrows trees order hlen) j hj,
    accVec_getElem? _ nrows _ (hlen_permute nrows trees order hlen) j hj,
    sumL_col_permute _ j trees order ho, sumL_col_permute _ j trees order ho]
  simp only
  rw [← hc, finishStd_closed]

theorem predictDisBatch_row (minVar : Rat) (nrows : Nat) (trees : List TreeRows) (order o' : List Nat)
    (hn : trees ≠ []) (hlen : ∀ t ∈ trees, t.length = nrows)
    (ho : OrderOK trees.length order) (ho' : OrderOK trees.length o') (j : Nat) (hj : j < nrows) :
    (predictDisBatch minVar nrows trees order).bind (·[j]?) = predictDis minVar (col j trees) o' := by
  have hl : trees.length ≠ 0 := by simpa using hn
  have hc := col_length j nrows trees hlen hj
  rw [predictDis_eq minVar (col j trees) o' (col_ne_nil j nrows trees hn hlen hj) (by rw [hc]; exact ho')]
  simp only [predictDisBatch, hl, if_false, Option.bind_some]
  have hp := hlen_permute nrows trees order hlen
  have h1 := accVec_getElem? (fun t => rmax t.2 minVar) nrows _ hp j hj
  have h2 := accVec_getElem? (fun t => t.1 * t.1) nrows _ hp j hj
  have hz : ((accVec (fun t => rmax t.2 minVar) nrows (permute trees order)).zip
      (accVec (fun t => t.1 * t.1) nrows (permute trees order)))[j]?
      = some (sumL ((col j (permute trees order)).map (fun t => rmax t.2 minVar)),
              sumL ((col j (permute trees order)).map (fun t => t.1 * t.1))) :=
    List.getElem?_zip_eq_some.2 ⟨h1, h2⟩
  rw [List.getElem?_zipWith, hz,
    accVec_getElem? _ nrows _ hp j hj,
    sumL_col_permute _ j trees order ho, sumL_col_permute _ j trees order ho,
    sumL_col_permute _ j trees order ho]
  simp only
  rw [← hc, finishDis_closed]

theorem batch_lengths (minVar : Rat) (nrows : Nat) (trees : List TreeRows) (order : List Nat)
    (hn : trees ≠ []) (hlen : ∀ t ∈ trees, t.length = nrows) :
    (∃ ms, predictMeanBatch nrows trees order = some ms ∧ ms.length = nrows) ∧
    (∃ ss, predictStdBatch minVar nrows trees order = some ss ∧ ss.length = nrows) ∧
    (∃ ds, predictDisBatch minVar nrows trees order = some ds ∧ ds.length = nrows) := by
  have hl : trees.length ≠ 0 := by simpa using hn
  have hp := hlen_permute nrows trees order hlen
  refine ⟨⟨_, by rw [predictMeanBatch, if_neg hl], ?_⟩,
    ⟨_, by rw [predictStdBatch, if_neg hl], ?_⟩,
    ⟨_, by rw [predictDisBatch, if_neg hl], ?_⟩⟩
  · simp [accVec_length _ nrows _ hp]
  · simp [accVec_length _ nrows _ hp]
  · simp [accVec_length _ nrows _ hp]

/-! ### where the `min_variance` floor sits -/

theorem le_rmax_right (a b : Rat) : b ≤ rmax a b := by
  unfold rmax; split
  · exact Rat.le_refl
  · rename_i h; exact Rat.le_of_lt (Rat.not_le.1 h)

theorem le_rmax_left (a b : Rat) : a ≤ rmax a b := by
  unfold rmax; split
  · assumption
  · exact Rat.le_refl

theorem rmax_mono_right (a : Rat) {b b' : Rat} (h : b ≤ b') : rmax a b ≤ rmax a b' := by
  unfold rmax; split <;> split <;> linarith

theorem sumL_le_sumL (f g : TreeOut → Rat) (l : List TreeOut) (h : ∀ t ∈ l, f t ≤ g t) :
    sumL (l.map f) ≤ sumL (l.map g) := by
  induction l with
  | nil => simp [sumL]
  | cons a as ih =>
    simp only [List.map_cons, sumL]
    have h1 := h a (by simp)
    have h2 := ih (fun t ht => h t (by simp [ht]))
    linarith

theorem sumL_const (c : Rat) (l : List TreeOut) : sumL (l.map (fun _ => c)) = (l.length : Rat) * c := by
  induction l with
  | nil => simp [sumL]
  | cons a as ih => simp only [List.map_cons, sumL, ih, List.length_cons]; push_cast; ring

theorem length_pos_rat (l : List TreeOut) (hn : l ≠ []) : (0 : Rat) < (l.length : Rat) := by
  have : 0 < l.length := List.length_pos_of_ne_nil hn
  exact_mod_cast this

/-- the averaged floored variance is at least the floor -/
theorem minVar_le_specAl (minVar : Rat) (trees : List TreeOut) (hn : trees ≠ []) :
    minVar ≤ specAl minVar trees := by
  have hpos := length_pos_rat trees hn
  have h := sumL_le_sumL (fun _ => minVar) (fun t => rmax t.2 minVar) trees
    (fun t _ => le_rmax_right t.2 minVar)
  rw [sumL_const] at h
  unfold specAl
  rw [le_div_iff₀ hpos]
  linarith

/-- … and at least the average of the raw leaf variances -/
theorem rawAl_le_specAl (minVar : Rat) (trees : List TreeOut) (hn : trees ≠ []) :
    rawAl trees ≤ specAl minVar trees := by
  have hpos := length_pos_rat trees hn
  have h := sumL_le_sumL (fun t => t.2) (fun t => rmax t.2 minVar) trees
    (fun t _ => le_rmax_left t.2 minVar)
  unfold specAl rawAl
  exact div_le_div_of_nonneg_right h hpos.le

theorem specAl_mono (trees : List TreeOut) {a b : Rat} (h : a ≤ b) :
    specAl a trees ≤ specAl b trees := by
  unfold specAl
  apply div_le_div_of_nonneg_right
  · exact sumL_le_sumL _ _ trees (fun t _ => rmax_mono_right t.2 h)
  · exact_mod_cast Nat.zero_le _

theorem specAl_of_all_le (minVar : Rat) (trees : List TreeOut) (hn : trees ≠ [])
    (h : ∀ t ∈ trees, t.2 ≤ minVar) : specAl minVar trees = minVar := by
  have hpos := length_pos_rat trees hn
  have : trees.map (fun t => rmax t.2 minVar) = trees.map (fun _ => minVar) := by
    apply List.map_congr_left
    intro t ht; unfold rmax; simp [h t ht]
  unfold specAl
  rw [this, sumL_const]
  field_simp

theorem specAl_of_all_ge (minVar : Rat) (trees : List TreeOut)
    (h : ∀ t ∈ trees, minVar ≤ t.2) : specAl minVar trees = rawAl trees := by
  have : trees.map (fun t => rmax t.2 minVar) = trees.map (·.2) := by
    apply List.map_congr_left
    intro t ht
    have := h t ht
    unfold rmax; split
    · exact Rat.le_antisymm this ‹_›
    · rfl
  unfold specAl rawAl
  rw [this]

/-! ### the environment of the call -/

/-- with `require="sharedmem"` the tasks always run where the caller's arrays are -/
theorem resolve_code_shared (cpus : Nat) (a : Ambient) (nJobs : Option Int) :
    (resolve cpus codeHints a nJobs).shared = true ∧ (resolve cpus codeHints a nJobs).backend.sharedmem = true := by
  rcases a with ⟨_ | b, nj⟩
  · simp [resolve, codeHints, Backend.sharedmem]
  · cases b <;> simp [resolve, codeHints, Backend.sharedmem]

/-- a context backend is never overridden by a mere preference -/
theorem resolve_prefer_keeps_backend (cpus : Nat) (b : Backend) (nj nJobs : Option Int) :
    (resolve cpus ⟨true, false⟩ ⟨some b, nj⟩ nJobs).backend = b := by
  cases b <;> simp [resolve, Backend.sharedmem, Backend.usesThreads]

end DH.Forest
