import Model.Forest
import Mathlib.Tactic.Ring
import Mathlib.Tactic.Linarith
import Mathlib.Tactic.Positivity
import Mathlib.Tactic.FieldSimp

/-! Helper lemmas for C18 (law of total variance of the forest aggregation). -/

namespace DH.Forest

/-! ### folds are sums -/

theorem foldl_add_sumL (f : TreeOut → Rat) (a : Rat) (l : List TreeOut) :
    l.foldl (fun out t => out + f t) a = a + sumL (l.map f) := by
  induction l generalizing a with
  | nil => simp [sumL]
  | cons x xs ih => simp only [List.foldl_cons, List.map_cons, sumL, ih]; ring

theorem accMean_eq (l : List TreeOut) : accMean l = sumL (l.map (·.1)) := by
  unfold accMean
  rw [foldl_add_sumL (fun t => t.1)]; ring

theorem accStd_gen (minVar : Rat) (l : List TreeOut) (a b : Rat) :
    l.foldl (fun out t => (out.1 + t.1, out.2 + (rmax t.2 minVar + t.1 * t.1))) (a, b)
      = (a + sumL (l.map (·.1)), b + sumL (l.map (fun t => rmax t.2 minVar + t.1 * t.1))) := by
  induction l generalizing a b with
  | nil => simp [sumL]
  | cons x xs ih =>
    simp only [List.foldl_cons, List.map_cons, sumL, ih]
    congr 1 <;> ring

theorem accStd_eq (minVar : Rat) (l : List TreeOut) :
    accStd minVar l = (sumL (l.map (·.1)), sumL (l.map (fun t => rmax t.2 minVar + t.1 * t.1))) := by
  unfold accStd; rw [accStd_gen]; simp

theorem accDis_gen (minVar : Rat) (l : List TreeOut) (a b c : Rat) :
    l.foldl (fun out t => (out.1 + t.1, out.2.1 + rmax t.2 minVar, out.2.2 + t.1 * t.1)) (a, b, c)
      = (a + sumL (l.map (·.1)), b + sumL (l.map (fun t => rmax t.2 minVar)),
         c + sumL (l.map (fun t => t.1 * t.1))) := by
  induction l generalizing a b c with
  | nil => simp [sumL]
  | cons x xs ih =>
    simp only [List.foldl_cons, List.map_cons, sumL, ih]
    congr 1
    · ring
    · congr 1 <;> ring

theorem accDis_eq (minVar : Rat) (l : List TreeOut) :
    accDis minVar l = (sumL (l.map (·.1)), sumL (l.map (fun t => rmax t.2 minVar)),
      sumL (l.map (fun t => t.1 * t.1))) := by
  unfold accDis; rw [accDis_gen]; simp

theorem sumL_add (f g : TreeOut → Rat) (l : List TreeOut) :
    sumL (l.map (fun t => f t + g t)) = sumL (l.map f) + sumL (l.map g) := by
  induction l with
  | nil => simp [sumL]
  | cons x xs ih => simp only [List.map_cons, sumL, ih]; ring

/-! ### sums do not depend on the order -/

theorem sumL_perm {l l' : List Rat} (h : l.Perm l') : sumL l = sumL l' := by
  induction h with
  | nil => rfl
  | cons a _ ih => simp [sumL, ih]
  | swap a b l => simp only [sumL]; ring
  | trans _ _ ih1 ih2 => exact ih1.trans ih2

theorem permute_range (l : List TreeOut) :
    permute l (List.range l.length) = l := by
  unfold permute
  induction l with
  | nil => rfl
  | cons a as ih =>
    rw [List.length_cons, List.range_succ_eq_map, List.filterMap_cons]
    simp only [List.getElem?_cons_zero, List.filterMap_map]
    congr 1

/-- what the order is assumed to be: every tree exactly once -/
def OrderOK (n : Nat) (order : List Nat) : Prop := order.Perm (List.range n)

theorem permute_perm (l : List TreeOut) (order : List Nat) (h : OrderOK l.length order) :
    (permute l order).Perm l := by
  have := List.Perm.filterMap (fun i => l[i]?) h
  rw [show List.filterMap (fun i => l[i]?) (List.range l.length) = l from permute_range l] at this
  exact this

theorem sumL_map_permute (f : TreeOut → Rat) (l : List TreeOut) (order : List Nat)
    (h : OrderOK l.length order) :
    sumL ((permute l order).map f) = sumL (l.map f) :=
  sumL_perm ((permute_perm l order h).map f)

/-! ### mean of squares ≥ square of mean -/

theorem sumL_sq_nonneg (l : List Rat) : 0 ≤ sumL (l.map (fun x => x * x)) := by
  induction l with
  | nil => simp [sumL]
  | cons a as ih =>
    simp only [List.map_cons, sumL]
    have : 0 ≤ a * a := mul_self_nonneg a
    linarith

theorem sumL_centered (c : Rat) (l : List Rat) :
    sumL (l.map (fun x => (x - c) * (x - c)))
      = sumL (l.map (fun x => x * x)) - 2 * c * sumL l + (l.length : Rat) * (c * c) := by
  induction l with
  | nil => simp [sumL]
  | cons a as ih =>
    simp only [List.map_cons, sumL, ih, List.length_cons]
    push_cast; ring

theorem sumL_centered_nonneg (c : Rat) (l : List Rat) :
    0 ≤ sumL (l.map (fun x => (x - c) * (x - c))) := by
  have := sumL_sq_nonneg (l.map (fun x => x - c))
  simpa [List.map_map, Function.comp_def] using this

/-- `E[m²] − (E m)² ≥ 0` for a non-empty list -/
theorem second_moment_ge (l : List Rat) (hn : l ≠ []) :
    0 ≤ sumL (l.map (fun x => x * x)) / (l.length : Rat)
        - (sumL l / (l.length : Rat)) * (sumL l / (l.length : Rat)) := by
  have hpos : (0 : Rat) < (l.length : Rat) := by
    have : 0 < l.length := List.length_pos_of_ne_nil hn
    exact_mod_cast this
  have h := sumL_centered_nonneg (sumL l / (l.length : Rat)) l
  rw [sumL_centered] at h
  have key : sumL (l.map (fun x => x * x)) / (l.length : Rat)
        - (sumL l / (l.length : Rat)) * (sumL l / (l.length : Rat))
      = (sumL (l.map (fun x => x * x)) - 2 * (sumL l / (l.length : Rat)) * sumL l
          + (l.length : Rat) * ((sumL l / (l.length : Rat)) * (sumL l / (l.length : Rat))))
        / (l.length : Rat) := by
    field_simp; ring
  rw [key]
  exact div_nonneg h hpos.le

theorem sumL_nonneg_of (l : List Rat) (h : ∀ x ∈ l, 0 ≤ x) : 0 ≤ sumL l := by
  induction l with
  | nil => simp [sumL]
  | cons a as ih =>
    simp only [sumL]
    have h1 := h a (by simp)
    have h2 := ih (fun x hx => h x (by simp [hx]))
    linarith

theorem clamp0_nonneg (v : Rat) : 0 ≤ clamp0 v := by
  unfold clamp0; split <;> linarith

theorem clamp0_of_nonneg {v : Rat} (h : 0 ≤ v) : clamp0 v = v := by
  unfold clamp0; split
  · linarith
  · rfl

theorem rmax0_nonneg (v : Rat) : 0 ≤ rmax v 0 := by
  unfold rmax; split <;> linarith

theorem rmax0_of_nonneg {v : Rat} (h : 0 ≤ v) : rmax v 0 = v := by
  unfold rmax; split
  · linarith
  · rfl

/-! ### the three forms in closed form -/

theorem specEp_nonneg (trees : List TreeOut) (hn : trees ≠ []) : 0 ≤ specEp trees := by
  have h := second_moment_ge (trees.map (·.1)) (by simpa using hn)
  simpa [specEp, specMean, List.map_map, Function.comp_def] using h

theorem specAl_nonneg (minVar : Rat) (trees : List TreeOut)
    (h : ∀ t ∈ trees, 0 ≤ rmax t.2 minVar) : 0 ≤ specAl minVar trees := by
  unfold specAl
  apply div_nonneg
  · apply sumL_nonneg_of
    intro x hx
    rcases List.mem_map.1 hx with ⟨t, ht, rfl⟩
    exact h t ht
  · exact_mod_cast Nat.zero_le _

theorem predictMean_eq (trees : List TreeOut) (order : List Nat) (hn : trees ≠ [])
    (ho : OrderOK trees.length order) :
    predictMean trees order = some (specMean trees) := by
  have hl : trees.length ≠ 0 := by simpa using hn
  simp only [predictMean, hl, if_false, accMean_eq, sumL_map_permute _ trees order ho, specMean]

theorem predictStd_eq (minVar : Rat) (trees : List TreeOut) (order : List Nat) (hn : trees ≠ [])
    (ho : OrderOK trees.length order) :
    predictStd minVar trees order
      = some ⟨specMean trees, rmax (specAl minVar trees + specEp trees) 0⟩ := by
  have hl : trees.length ≠ 0 := by simpa using hn
  simp only [predictStd, hl, if_false, accStd_eq, sumL_map_permute _ trees order ho]
  congr 2
  rw [sumL_add (fun t => rmax t.2 minVar) (fun t => t.1 * t.1)]
  simp only [specAl, specEp, specMean]
  congr 1
  ring

theorem predictDis_eq (minVar : Rat) (trees : List TreeOut) (order : List Nat) (hn : trees ≠ [])
    (ho : OrderOK trees.length order) :
    predictDis minVar trees order
      = some ⟨specMean trees, clamp0 (specAl minVar trees), clamp0 (specEp trees)⟩ := by
  have hl : trees.length ≠ 0 := by simpa using hn
  simp only [predictDis, hl, if_false, accDis_eq, sumL_map_permute _ trees order ho]
  rfl

end DH.Forest
