import Proofs.StorageSpec

/-! C13: a call changes only the location it stores to (frame), hence read-your-writes and isolation. -/

namespace DH.Storage

theorem recOfJob_storeJob (s : Store) (jid' key' : String) (v' : Val) (jid : String) :
    (abs (storeJob s jid' key' v').1).recOfJob jid =
      if jid = jid' then ((abs s).recOfJob jid).map (fun r => upd r key' (some v')) else (abs s).recOfJob jid := by
  rcases storeJob_abs s jid' key' v' with ⟨e, h1, h2⟩ | ⟨h1, h2⟩
  · rw [h2]
    split
    · rename_i ej
      subst ej
      -- the store failed: there is no such job
      have : (abs s).recOfJob jid = none := by
        unfold storeJob at h1
        rcases hf : findJob s jid with e' | ⟨sid, pid, S, j⟩
        · rcases findJob_error_abs hf with ⟨hp, _⟩ | ⟨sid, pid, hp, hj, _⟩
          · simp [Spec.recOfJob, hp]
          · simp [Spec.recOfJob, hp, hj]
        · simp [hf] at h1
      simp [this]
    · rfl
  · rw [h2]
    unfold Spec.storeKey
    rcases hp' : parseJobId jid' with _ | ⟨sid', pid'⟩
    · simp only
      split
      · rename_i ej; subst ej; simp [Spec.recOfJob, hp']
      · rfl
    · simp only [Spec.setKey, Spec.recOfJob]
      rcases hp : parseJobId jid with _ | ⟨sid, pid⟩
      · simp
      · simp only
        by_cases ej : jid = jid'
        · subst ej
          rw [hp] at hp'; cases hp'
          simp
        · have : ¬ (sid = sid' ∧ pid = pid') := by
            rintro ⟨e1, e2⟩
            subst e1 e2
            exact ej (parseJobId_inj hp hp')
          simp [this, ej]

theorem vals_storeJob (s : Store) (jid' key' : String) (v' : Val) (sid : String) :
    (abs (storeJob s jid' key' v').1).vals sid = (abs s).vals sid := by
  rcases storeJob_abs s jid' key' v' with ⟨e, h1, h2⟩ | ⟨h1, h2⟩
  · rw [h2]
  · rw [h2]; unfold Spec.storeKey; split <;> rfl

/-- `store_job_metadata` is a `store_job` of the updated metadata dict, or fails and changes nothing -/
theorem storeJobMetadata_cases (s : Store) (jid key : String) (v : Val) :
    ((storeJobMetadata s jid key v).1 = s ∧ ∃ e, (storeJobMetadata s jid key v).2 = .error e) ∨
    ∃ m, ((abs s).recOfJob jid).bind (· "metadata") = some (.dict m) ∧
      storeJobMetadata s jid key v = storeJob s jid "metadata" (.dict (aset key v m)) := by
  rcases h : findJob s jid with e | ⟨sid, pid, S, j⟩
  · left; simp [storeJobMetadata, h]
  · rcases hm : aget "metadata" j with _ | mv
    · left; simp [storeJobMetadata, h, hm]
    · cases mv with
      | dict m =>
        right
        exact ⟨m, by rw [abs_recOfJob h]; simpa [recOf] using hm, storeJobMetadata_eq h hm⟩
      | none => left; simp [storeJobMetadata, h, hm]
      | bool b => left; simp [storeJobMetadata, h, hm]
      | int i => left; simp [storeJobMetadata, h, hm]
      | num q => left; simp [storeJobMetadata, h, hm]
      | str x => left; simp [storeJobMetadata, h, hm]
      | list l => left; simp [storeJobMetadata, h, hm]
      | tuple l => left; simp [storeJobMetadata, h, hm]

/-- creating a search or a job, or storing a search value, leaves every existing job's record alone -/
theorem recOfJob_other (s : Store) (w : WF s) (op : Op) (jid : String)
    (hop : match op with
      | .createSearch => True
      | .createJob _ => True
      | .storeSearchValue _ _ _ => True
      | _ => False)
    (hex : ((abs s).recOfJob jid).isSome) :
    (abs (step s op).1).recOfJob jid = (abs s).recOfJob jid := by
  unfold Spec.recOfJob at hex ⊢
  rcases hp : parseJobId jid with _ | ⟨sid, pid⟩
  · rfl
  · simp only [hp] at hex ⊢
    cases op with
    | createSearch =>
      simp only [step, createSearch]
      rw [abs_newSearch s w]
      simp only
      split
      · rename_i e
        -- the new search id is fresh, so no job lives under it
        exfalso
        rcases hS : aget sid s.data with _ | S
        · simp [abs, hS] at hex
        · obtain ⟨k, hk, e'⟩ := w.sids sid S hS
          rw [e'] at e; have := repr_inj e; omega
      · rfl
    | createJob sid0 =>
      simp only [step, createJob]
      split
      · rfl
      · rename_i S hS
        rw [abs_setJobs newJob hS]
        simp only
        split
        · rename_i e
          exfalso
          obtain ⟨e1, e2⟩ := e
          subst e1 e2
          rcases hx : aget (Nat.repr S.counter) S.jobs with _ | j
          · simp [abs, hS, hx] at hex
          · obtain ⟨k', hk', e'⟩ := w.pids _ S hS _ j hx
            have := repr_inj e'; omega
        · rfl
    | storeSearchValue sid0 key v =>
      simp only [step]
      split
      · rfl
      · rename_i S hS
        split
        · rfl
        · rw [abs_setFree hS]
    | _ => exact hop.elim

theorem vals_other (s : Store) (w : WF s) (op : Op) (sid : String)
    (hop : match op with
      | .createSearch => True
      | .createJob _ => True
      | _ => False)
    (hex : ((abs s).vals sid).isSome) :
    (abs (step s op).1).vals sid = (abs s).vals sid := by
  cases op with
  | createSearch =>
    simp only [step, createSearch]
    rw [abs_newSearch s w]
    simp only [upd]
    split
    · rename_i e
      exfalso
      rcases hS : aget sid s.data with _ | S
      · simp [abs, hS] at hex
      · obtain ⟨k, hk, e'⟩ := w.sids sid S hS
        rw [e'] at e; have := repr_inj e; omega
    · rfl
  | createJob sid0 =>
    simp only [step, createJob]
    split
    · rfl
    · rename_i S hS
      rw [abs_setJobs newJob hS]
  | _ => exact hop.elim

/-- loads change nothing -/
theorem step_load_same (s : Store) (op : Op)
    (hop : match op with
      | .createSearch | .createJob _ | .storeJob _ _ _ | .storeJobIn _ _ _ | .storeJobOut _ _
      | .storeJobStatus _ _ | .storeJobMetadata _ _ _ | .storeSearchValue _ _ _ => False
      | _ => True) : (step s op).1 = s := by
  cases op with
  | loadAllSearchIds => rfl
  | loadAllJobIds sid => simp only [step]; split <;> rfl
  | loadSearch sid => simp only [step]; split <;> rfl
  | loadJob jid => rfl
  | loadSearchValue sid key => simp only [step]; split <;> (try split) <;> rfl
  | loadMetadataFromAllJobs sid key => simp only [step]; split <;> rfl
  | loadOutFromAllJobs sid => simp only [step]; split <;> rfl
  | loadJobs jids => rfl
  | loadJobStatus jid => simp only [step]; split <;> (try split) <;> rfl
  | _ => exact hop.elim


/-! ### the frame property -/

theorem frame_of_rec_eq {a a' : Spec} {jid : String} (h : a'.recOfJob jid = a.recOfJob jid) (key : String) :
    (a'.read (.job jid key) = a.read (.job jid key) ∧ a'.has (.job jid key) = a.has (.job jid key)) ∧
    (a'.read (.mdata jid key) = a.read (.mdata jid key) ∧ a'.has (.mdata jid key) = a.has (.mdata jid key)) := by
  simp [Spec.read, Spec.has, h]

theorem frame_of_vals_eq {a a' : Spec} {sid : String} (h : a'.vals sid = a.vals sid) (key : String) :
    a'.read (.search sid key) = a.read (.search sid key) ∧ a'.has (.search sid key) = a.has (.search sid key) := by
  simp [Spec.read, Spec.has, h]

/-- `store_job(jid', key', v')` -/
theorem frame_storeJob (s : Store) (jid' key' : String) (v' : Val) (loc : Loc)
    (hno : (Op.storeJob jid' key' v').writes loc = false) :
    (abs (storeJob s jid' key' v').1).read loc = (abs s).read loc ∧
    (abs (storeJob s jid' key' v').1).has loc = (abs s).has loc := by
  cases loc with
  | search sid key => exact frame_of_vals_eq (vals_storeJob s jid' key' v' sid) key
  | job jid key =>
    have hr := recOfJob_storeJob s jid' key' v' jid
    by_cases ej : jid = jid'
    · subst ej
      have hk : key ≠ key' := by
        intro e; subst e; simp [Op.writes] at hno
      rw [if_pos rfl] at hr
      simp only [Spec.read, Spec.has, hr]
      cases (abs s).recOfJob jid <;> simp [upd, hk]
    · rw [if_neg ej] at hr
      exact (frame_of_rec_eq hr key).1
  | mdata jid key =>
    have hr := recOfJob_storeJob s jid' key' v' jid
    by_cases ej : jid = jid'
    · subst ej
      have hk : "metadata" ≠ key' := by
        intro e; subst e; simp [Op.writes] at hno
      rw [if_pos rfl] at hr
      simp only [Spec.read, Spec.has, hr]
      cases (abs s).recOfJob jid <;> simp [upd, hk]
    · rw [if_neg ej] at hr
      exact (frame_of_rec_eq hr key).2

theorem frame_other (s : Store) (w : WF s) (op : Op) (loc : Loc)
    (hop : match op with
      | .createSearch => True
      | .createJob _ => True
      | _ => False)
    (hex : (abs s).has loc = true) :
    (abs (step s op).1).read loc = (abs s).read loc ∧ (abs (step s op).1).has loc = true := by
  have key : ∀ (op' : Op),
      (match op' with
        | .createSearch => True
        | .createJob _ => True
        | .storeSearchValue _ _ _ => True
        | _ => False) →
      (match op' with
        | .createSearch => True
        | .createJob _ => True
        | _ => False) →
      (abs (step s op').1).read loc = (abs s).read loc ∧ (abs (step s op').1).has loc = true := by
    intro op' h1 h2
    cases loc with
    | job jid key =>
      have := (frame_of_rec_eq (recOfJob_other s w op' jid h1 (by simpa [Spec.has] using hex)) key).1
      exact ⟨this.1, this.2.trans hex⟩
    | mdata jid key =>
      have := (frame_of_rec_eq (recOfJob_other s w op' jid h1 (by simpa [Spec.has] using hex)) key).2
      exact ⟨this.1, this.2.trans hex⟩
    | search sid key =>
      have := frame_of_vals_eq (vals_other s w op' sid h2 (by simpa [Spec.has] using hex)) key
      exact ⟨this.1, this.2.trans hex⟩
  cases op with
  | createSearch => exact key _ trivial trivial
  | createJob sid => exact key _ trivial trivial
  | _ => exact hop.elim

theorem frame_load (s : Store) (op : Op) (loc : Loc)
    (hop : match op with
      | .createSearch | .createJob _ | .storeJob _ _ _ | .storeJobIn _ _ _ | .storeJobOut _ _
      | .storeJobStatus _ _ | .storeJobMetadata _ _ _ | .storeSearchValue _ _ _ => False
      | _ => True)
    (hex : (abs s).has loc = true) :
    (abs (step s op).1).read loc = (abs s).read loc ∧ (abs (step s op).1).has loc = true := by
  rw [step_load_same s op hop]; exact ⟨rfl, hex⟩

theorem frame_step (s : Store) (w : WF s) (op : Op) (hin : op.inScope = true) (loc : Loc)
    (hex : (abs s).has loc = true) (hno : op.writes loc = false) :
    (abs (step s op).1).read loc = (abs s).read loc ∧ (abs (step s op).1).has loc = true := by
  have finish : ∀ {a' : Spec}, a'.read loc = (abs s).read loc ∧ a'.has loc = (abs s).has loc →
      a'.read loc = (abs s).read loc ∧ a'.has loc = true := fun h => ⟨h.1, h.2.trans hex⟩
  cases op with
  | createSearch => exact frame_other s w _ loc trivial hex
  | createJob sid => exact frame_other s w _ loc trivial hex
  | storeJob jid' key' v' => exact finish (frame_storeJob s jid' key' v' loc hno)
  | storeJobIn jid' a k =>
    refine finish (frame_storeJob s jid' "in" _ loc ?_)
    cases loc with
    | job jid key => simpa [Op.writes] using hno
    | mdata jid key => simp [Op.writes]
    | search sid key => simp [Op.writes]
  | storeJobOut jid' v' =>
    refine finish (frame_storeJob s jid' "out" _ loc ?_)
    cases loc with
    | job jid key => simpa [Op.writes] using hno
    | mdata jid key => simp [Op.writes]
    | search sid key => simp [Op.writes]
  | storeJobStatus jid' v' =>
    refine finish (frame_storeJob s jid' "status" _ loc ?_)
    cases loc with
    | job jid key => simpa [Op.writes] using hno
    | mdata jid key => simp [Op.writes]
    | search sid key => simp [Op.writes]
  | storeJobMetadata jid' k' v' =>
    simp only [step]
    rcases storeJobMetadata_cases s jid' k' v' with ⟨h, _⟩ | ⟨m, hm, h⟩
    · rw [h]; exact ⟨rfl, hex⟩
    · rw [h]
      cases loc with
      | search sid key => exact finish (frame_of_vals_eq (vals_storeJob s jid' _ _ sid) key)
      | job jid key =>
        refine finish (frame_storeJob s jid' "metadata" _ (.job jid key) ?_)
        simpa [Op.writes] using hno
      | mdata jid key =>
        have hr := recOfJob_storeJob s jid' "metadata" (.dict (aset k' v' m)) jid
        by_cases ej : jid = jid'
        · subst ej
          have hk : key ≠ k' := by
            intro e; subst e; simp [Op.writes] at hno
          rw [if_pos rfl] at hr
          refine finish ?_
          simp only [Spec.read, Spec.has, hr]
          rcases hrec : (abs s).recOfJob jid with _ | r
          · simp
          · rw [hrec] at hm
            simp only [Option.bind_some] at hm
            simp [upd, hm, aget_aset_ne _ hk]
        · rw [if_neg ej] at hr
          exact finish (frame_of_rec_eq hr key).2
  | storeSearchValue sid0 k0 v0 =>
    simp only [Op.inScope, Bool.not_eq_true'] at hin
    cases loc with
    | job jid key => exact finish (frame_of_rec_eq (recOfJob_other s w _ jid trivial (by simpa [Spec.has] using hex)) key).1
    | mdata jid key => exact finish (frame_of_rec_eq (recOfJob_other s w _ jid trivial (by simpa [Spec.has] using hex)) key).2
    | search sid key =>
      simp only [step]
      rcases hS : aget sid0 s.data with _ | S
      · exact ⟨rfl, hex⟩
      · simp only [hin, Bool.false_eq_true, if_false]
        rw [abs_setFree hS]
        refine finish ?_
        simp only [Spec.read, Spec.has]
        by_cases es : sid = sid0
        · subst es
          have hk : key ≠ k0 := by
            intro e; subst e; simp [Op.writes] at hno
          cases (abs s).vals sid <;> simp [upd, hk]
        · simp [es]
  | loadAllSearchIds => exact frame_load s _ loc trivial hex
  | loadAllJobIds sid => exact frame_load s _ loc trivial hex
  | loadSearch sid => exact frame_load s _ loc trivial hex
  | loadJob jid => exact frame_load s _ loc trivial hex
  | loadSearchValue sid key => exact frame_load s _ loc trivial hex
  | loadMetadataFromAllJobs sid key => exact frame_load s _ loc trivial hex
  | loadOutFromAllJobs sid => exact frame_load s _ loc trivial hex
  | loadJobs jids => exact frame_load s _ loc trivial hex
  | loadJobStatus jid => exact frame_load s _ loc trivial hex

/-- … along a whole history -/
theorem frame_run : ∀ (ops : List Op) (s : Store), WF s → (∀ op ∈ ops, op.inScope = true) →
    ∀ loc, (abs s).has loc = true → (∀ op ∈ ops, op.writes loc = false) →
    (abs (run s ops).1).read loc = (abs s).read loc ∧ (abs (run s ops).1).has loc = true := by
  intro ops
  induction ops with
  | nil => intro s _ _ loc hex _; exact ⟨rfl, hex⟩
  | cons op ops ih =>
    intro s w hin loc hex hno
    rw [run_cons]
    obtain ⟨h1, h2⟩ := frame_step s w op (hin op List.mem_cons_self) loc hex (hno op List.mem_cons_self)
    obtain ⟨h3, h4⟩ := ih (step s op).1 (WF_step w op) (fun o ho => hin o (List.mem_cons_of_mem _ ho)) loc h2
      (fun o ho => hno o (List.mem_cons_of_mem _ ho))
    exact ⟨h3.trans h1, h4⟩

theorem run_append (s : Store) : ∀ (a b : List Op),
    run s (a ++ b) = ((run (run s a).1 b).1, (run s a).2 ++ (run (run s a).1 b).2) := by
  intro a
  induction a generalizing s with
  | nil => intro b; rfl
  | cons op a ih => intro b; simp only [List.cons_append, run_cons, ih]


/-! ### loads return what the map holds -/

theorem storeJob_none_has {s : Store} {jid key : String} {v : Val} (h : (storeJob s jid key v).2 = .none) :
    ((abs s).recOfJob jid).isSome = true := by
  have := storeJob_answer s jid key v
  rw [h] at this
  unfold Spec.storeAnswer at this
  unfold Spec.recOfJob
  rcases hp : parseJobId jid with _ | ⟨sid, pid⟩
  · simp [hp] at this
  · simp only [hp] at this ⊢
    rcases hj : (abs s).jobs sid pid with _ | r
    · simp [hj] at this
    · rfl

theorem loadJob_reads (s : Store) (w : WF s) (jid : String) (hex : ((abs s).recOfJob jid).isSome = true) :
    ∃ kvs, (step s (.loadJob jid)).2 = .val (.dict kvs) ∧ ∀ key, aget key kvs = (abs s).read (.job jid key) := by
  have := step_answers s w (.loadJob jid) rfl
  simp only [Spec.answers] at this
  unfold Spec.recOfJob at hex
  simp only [Spec.read, Spec.recOfJob]
  rcases hp : parseJobId jid with _ | ⟨sid, pid⟩
  · simp [hp] at hex
  · simp only [hp] at this hex ⊢
    rcases hj : (abs s).jobs sid pid with _ | r
    · simp [hj] at hex
    · simp only [hj] at this ⊢
      obtain ⟨kvs, h1, h2⟩ := this
      exact ⟨kvs, h1, fun key => by simpa using h2 key⟩

end DH.Storage
