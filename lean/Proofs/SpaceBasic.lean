import Model.Space
import Mathlib.Tactic.Linarith
import Mathlib.Tactic.FieldSimp
import Mathlib.Tactic.Ring
import Mathlib.Tactic.Positivity
import Mathlib.Algebra.Order.Field.Rat

/-! Helper lemmas for C09 / C10: `mapE`, rounding, clipping, the normalize algebra, sorting. -/

namespace DH.Space

/-! ### `mapE` -/

theorem mapE_ok_map {α β : Type} (f : α → Except Err β) (g : α → β) :
    ∀ l : List α, (∀ a ∈ l, f a = .ok (g a)) → mapE f l = .ok (l.map g)
  | [], _ => rfl
  | a :: as, h => by
    have h1 := h a (by simp)
    have h2 := mapE_ok_map f g as (fun x hx => h x (by simp [hx]))
    simp [mapE, h1, h2]

theorem mapE_ok_inv {α β : Type} (f : α → Except Err β) :
    ∀ (l : List α) (r : List β), mapE f l = .ok r →
      r.length = l.length ∧ ∀ b ∈ r, ∃ a ∈ l, f a = .ok b
  | [], r, h => by
    simp [mapE] at h; subst h; simp
  | a :: as, r, h => by
    simp only [mapE] at h
    cases hfa : f a with
    | error e => simp [hfa] at h
    | ok b =>
      cases hm : mapE f as with
      | error e => simp [hfa, hm] at h
      | ok bs =>
        simp [hfa, hm] at h
        subst h
        have ih := mapE_ok_inv f as bs hm
        refine ⟨by simp [ih.1], ?_⟩
        intro b' hb'
        rcases List.mem_cons.mp hb' with rfl | hb'
        · exact ⟨a, by simp, hfa⟩
        · obtain ⟨a', ha', hfa'⟩ := ih.2 b' hb'
          exact ⟨a', by simp [ha'], hfa'⟩

theorem mapE_cons_ok {α β : Type} {f : α → Except Err β} {a : α} {as : List α} {b : β} {bs : List β}
    (h : f a = .ok b) (h2 : mapE f as = .ok bs) : mapE f (a :: as) = .ok (b :: bs) := by
  simp [mapE, h, h2]

theorem nums_map_num (e : Err) : ∀ qs : List Rat, nums e (qs.map Val.num) = .ok qs
  | [] => rfl
  | q :: qs => mapE_cons_ok rfl (nums_map_num e qs)

theorem nums_map_int (e : Err) :
    ∀ is : List Int, nums e (is.map Val.int) = .ok (is.map (fun (i : Int) => (i : Rat)))
  | [] => rfl
  | i :: is => mapE_cons_ok rfl (nums_map_int e is)

/-! ### rounding and clipping -/

theorem roundHalfEven_intCast (i : Int) : roundHalfEven (i : Rat) = i := by
  simp [roundHalfEven, Rat.floor_intCast]

theorem floor_le_roundHalfEven (q : Rat) : q.floor ≤ roundHalfEven q := by
  unfold roundHalfEven
  simp only
  split
  · exact Int.le_refl _
  · split
    · omega
    · split <;> omega

theorem roundHalfEven_le_floor_add_one (q : Rat) : roundHalfEven q ≤ q.floor + 1 := by
  unfold roundHalfEven
  simp only
  split
  · omega
  · split
    · omega
    · split <;> omega

/-- rounding never leaves an interval with integer end points: the reason why
`Integer.inverse_transform` (clip, then round) always returns a member -/
theorem roundHalfEven_mem (lo hi : Int) (q : Rat) (h1 : (lo : Rat) ≤ q) (h2 : q ≤ (hi : Rat)) :
    lo ≤ roundHalfEven q ∧ roundHalfEven q ≤ hi := by
  constructor
  · exact Int.le_trans (Rat.le_floor_iff.mpr h1) (floor_le_roundHalfEven q)
  · by_cases hf : q.floor + 1 ≤ hi
    · exact Int.le_trans (roundHalfEven_le_floor_add_one q) hf
    · -- floor q ≥ hi, and q ≤ hi, hence q = hi
      have hge : hi ≤ q.floor := by omega
      have h3 : (hi : Rat) ≤ q := Rat.le_floor_iff.mp hge
      have hq : q = (hi : Rat) := le_antisymm h2 h3
      rw [hq, roundHalfEven_intCast]

theorem clip_mem (lo hi x : Rat) (h : lo ≤ hi) : lo ≤ clip lo hi x ∧ clip lo hi x ≤ hi := by
  unfold clip
  simp only
  split <;> split <;> constructor <;> linarith

theorem clip_id (lo hi x : Rat) (h1 : lo ≤ x) (h2 : x ≤ hi) : clip lo hi x = x := by
  unfold clip
  simp only
  rw [if_neg (not_lt.mpr h1), if_neg (not_lt.mpr h2)]

theorem eps_pos : (0 : Rat) < eps := by unfold eps; norm_num

/-! ### normalize algebra -/

theorem norm_denorm (x lo hi : Rat) (h : lo < hi) : (x - lo) / (hi - lo) * (hi - lo) + lo = x := by
  have : hi - lo ≠ 0 := by intro h'; linarith
  field_simp
  ring

theorem norm_range (x lo hi : Rat) (h : lo < hi) (h1 : lo ≤ x) (h2 : x ≤ hi) :
    0 ≤ (x - lo) / (hi - lo) ∧ (x - lo) / (hi - lo) ≤ 1 := by
  have hp : 0 < hi - lo := by linarith
  constructor
  · apply div_nonneg <;> linarith
  · rw [div_le_one hp]; linarith

/-! ### `sortU` keeps exactly the elements -/

theorem mem_insertU (v x : Val) : ∀ l : List Val, x ∈ insertU v l ↔ x = v ∨ x ∈ l
  | [] => by simp [insertU]
  | w :: ws => by
    unfold insertU
    split
    · rename_i h; subst h; simp
    · split
      · simp
      · simp [mem_insertU v x ws]; tauto

theorem mem_sortU (x : Val) : ∀ l : List Val, x ∈ sortU l ↔ x ∈ l
  | [] => by simp [sortU]
  | v :: vs => by simp [sortU, mem_insertU, mem_sortU x vs]

/-! ### lists of members are lists of numbers -/

theorem real_members (lo hi : Rat) (p : Prior) (t : NumTr) :
    ∀ col : List Val, (∀ v ∈ col, memDim (.real lo hi p t) v = true) →
      ∃ qs : List Rat, col = qs.map Val.num ∧ ∀ q ∈ qs, lo ≤ q ∧ q ≤ hi
  | [], _ => ⟨[], rfl, by simp⟩
  | v :: vs, h => by
    obtain ⟨qs, hqs, hb⟩ := real_members lo hi p t vs (fun x hx => h x (by simp [hx]))
    have hv := h v (by simp)
    cases v with
    | num q =>
      simp [memDim] at hv
      exact ⟨q :: qs, by simp [hqs], by
        intro q' hq'
        rcases List.mem_cons.mp hq' with rfl | hq'
        · exact hv
        · exact hb q' hq'⟩
    | int i => simp [memDim] at hv
    | str s => simp [memDim] at hv
    | bool b => simp [memDim] at hv

theorem int_members (lo hi : Int) (p : Prior) (t : NumTr) :
    ∀ col : List Val, (∀ v ∈ col, memDim (.int lo hi p t) v = true) →
      ∃ is : List Int, col = is.map Val.int ∧ ∀ i ∈ is, lo ≤ i ∧ i ≤ hi
  | [], _ => ⟨[], rfl, by simp⟩
  | v :: vs, h => by
    obtain ⟨is, his, hb⟩ := int_members lo hi p t vs (fun x hx => h x (by simp [hx]))
    have hv := h v (by simp)
    cases v with
    | int i =>
      simp [memDim] at hv
      exact ⟨i :: is, by simp [his], by
        intro i' hi'
        rcases List.mem_cons.mp hi' with rfl | hi'
        · exact hv
        · exact hb i' hi'⟩
    | num q => simp [memDim] at hv
    | str s => simp [memDim] at hv
    | bool b => simp [memDim] at hv

end DH.Space
