import Model.Ask

/-!
# Lemmas about `Model/Ask.lean`

1. `dedup` / `filterDup` (what `_filter_duplicated` guarantees),
2. inversion lemmas (what an `.ok` result of each modelled method looks like),
3. `PInv`: a predicate `P` on configurations that holds for everything the environment offers
   holds for everything that is handed out (used by C02 with `P = memSpace`),
4. `Good`/`SelsOK`: every handed-out configuration is recorded in `sampled`, and a configuration
   that repeats an earlier one was selected from a candidate list that was already exhausted
   (used by C08).
-/

namespace DH.Ask

variable {α τ : Type} [DecidableEq α]
set_option linter.unusedSectionVars false

/-! ## 1. `dedup`, `filterDup` -/

theorem mem_dedup (x : α) (l : List α) : x ∈ dedup l ↔ x ∈ l := by
  induction l with
  | nil => simp [dedup]
  | cons a t ih =>
    simp only [dedup, List.mem_cons, List.mem_filter, decide_eq_true_eq, ih]
    by_cases h : x = a <;> simp [h]

theorem nodup_dedup (l : List α) : (dedup l).Nodup := by
  induction l with
  | nil => simp [dedup]
  | cons a t ih =>
    simp only [dedup, List.nodup_cons, List.mem_filter, decide_eq_true_eq]
    exact ⟨fun h => h.2 rfl, ih.filter _⟩

theorem length_dedup_le (l : List α) : (dedup l).length ≤ l.length := by
  induction l with
  | nil => simp [dedup]
  | cons a t ih =>
    simp only [dedup, List.length_cons]
    have := List.length_filter_le (fun y => decide (y ≠ a)) (dedup t)
    omega

/-- `_filter_duplicated` never invents a point -/
theorem mem_filterDup {on : Bool} {smp l : List α} {x : α} (h : x ∈ filterDup on smp l) : x ∈ l := by
  unfold filterDup at h
  split at h
  · simp only at h
    split at h
    · exact h
    · exact (mem_dedup x l).1 (List.mem_filter.1 h).1
  · exact h

theorem length_filterDup_le (on : Bool) (smp l : List α) : (filterDup on smp l).length ≤ l.length := by
  unfold filterDup
  split
  · simp only
    split
    · exact Nat.le_refl _
    · exact Nat.le_trans (List.length_filter_le _ _) (length_dedup_le l)
  · exact Nat.le_refl _

/-- The contract of `_filter_duplicated` with the filter on: either every offered candidate was
already sampled (then the raw input comes back), or the result is duplicate-free, disjoint from
`sampled`, drawn from the candidates, and contains every candidate not sampled yet. -/
theorem filterDup_cases (smp l : List α) :
    (∀ c ∈ l, c ∈ smp) ∨
    ((filterDup true smp l).Nodup ∧ (∀ x ∈ filterDup true smp l, x ∉ smp ∧ x ∈ l) ∧
      (∀ c ∈ l, c ∈ smp ∨ c ∈ filterDup true smp l)) := by
  unfold filterDup
  simp only [if_true]
  split
  · rename_i hd
    left
    intro c hc
    by_cases hs : c ∈ smp
    · exact hs
    · exfalso
      have : c ∈ (dedup l).filter (fun s => decide (s ∉ smp)) :=
        List.mem_filter.2 ⟨(mem_dedup c l).2 hc, by simpa using hs⟩
      rw [List.isEmpty_iff.1 hd] at this
      exact absurd this (by simp)
  · right
    refine ⟨(nodup_dedup l).filter _, ?_, ?_⟩
    · intro x hx
      have := List.mem_filter.1 hx
      exact ⟨by simpa using this.2, (mem_dedup x l).1 this.1⟩
    · intro c hc
      by_cases hs : c ∈ smp
      · exact Or.inl hs
      · exact Or.inr (List.mem_filter.2 ⟨(mem_dedup c l).2 hc, by simpa using hs⟩)

/-- a member of the filtered list is new, unless nothing new was offered -/
theorem filterDup_fresh {smp l : List α} {x : α} (h : x ∈ filterDup true smp l) :
    x ∉ smp ∨ ∀ c ∈ l, c ∈ smp := by
  rcases filterDup_cases smp l with hall | ⟨_, hf, _⟩
  · exact Or.inr hall
  · exact Or.inl (hf x h).1

/-- pigeonhole: a duplicate-free list whose members all occur in `m` is no longer than `m` -/
theorem nodup_length_le_of_subset : ∀ {l m : List α}, l.Nodup → (∀ x ∈ l, x ∈ m) → l.length ≤ m.length
  | [], _, _, _ => Nat.zero_le _
  | a :: t, m, hnd, hsub => by
    have ha : a ∈ m := hsub a (List.mem_cons_self)
    have hnd' := List.nodup_cons.1 hnd
    have hsub' : ∀ x ∈ t, x ∈ m.erase a := by
      intro x hx
      have hxa : x ≠ a := fun h => hnd'.1 (h ▸ hx)
      exact (List.mem_erase_of_ne hxa).2 (hsub x (List.mem_cons_of_mem _ hx))
    have ih := nodup_length_le_of_subset hnd'.2 hsub'
    have hl := List.length_erase_of_mem ha
    have hpos : 0 < m.length := List.length_pos_of_mem ha
    simp only [List.length_cons]
    omega

/-! ## 2. inversion lemmas -/

theorem fit_ok {ops : Ops α τ} {s s' : Opt α} {e : Fit α τ} (h : fit ops s e = .ok s') :
    ∃ x, s' = { s with nextX := some x, nextFrom := e.cands,
                       last := some (filterDup s.filterOn s.sampled e.cands) } ∧
      ((∃ sel c, e.pick = .idx sel ∧
          (filterDup s.filterOn s.sampled e.cands)[sel (filterDup s.filterOn s.sampled e.cands)]? = some c ∧
          ops.fin (ops.tr c) = some x) ∨
       (∃ t fb, e.pick = .free t fb ∧ ops.fin t = some x ∧ ¬ (s.filterOn = true ∧ x ∈ s.sampled)) ∨
       (∃ t fb y c, e.pick = .free t fb ∧ ops.fin t = some y ∧ s.filterOn = true ∧ y ∈ s.sampled ∧
          (filterDup s.filterOn s.sampled e.cands)[fb (filterDup s.filterOn s.sampled e.cands)]? = some c ∧
          ops.fin (ops.tr c) = some x)) := by
  unfold fit at h
  simp only at h
  split at h
  · cases h
  · rename_i x hx
    cases h
    refine ⟨x, rfl, ?_⟩
    split at hx
    · rename_i i hp
      left
      split at hx
      · cases hx
      · rename_i c hc
        split at hx
        · cases hx
        · rename_i y hy
          cases hx
          exact ⟨i, c, hp, hc, hy⟩
    · rename_i t fb hp
      split at hx
      · cases hx
      · rename_i y hy
        split at hx
        · rename_i hcond
          simp only [Bool.and_eq_true, decide_eq_true_eq] at hcond
          right; right
          split at hx
          · cases hx
          · rename_i c hc
            split at hx
            · cases hx
            · rename_i z hz
              cases hx
              exact ⟨t, fb, y, c, hp, hy, hcond.1, hcond.2, hc, hz⟩
        · rename_i hcond
          simp only [Bool.and_eq_true, decide_eq_true_eq] at hcond
          cases hx
          right; left
          exact ⟨t, fb, hp, hy, hcond⟩

theorem tellCore_ok {ops : Ops α τ} {s s' : Opt α} {xs : List (α × Obj)} {e : Fit α τ}
    (h : tellCore ops s xs e = .ok s') :
    (((told1 s xs).nInit ≤ 0 ∧ (told1 s xs).dummy = false) ∧ fit ops (told1 s xs) e = .ok s') ∨
    (¬ ((told1 s xs).nInit ≤ 0 ∧ (told1 s xs).dummy = false) ∧ s' = told1 s xs) := by
  unfold tellCore at h
  simp only at h
  split at h
  · rename_i hc
    exact Or.inl ⟨hc, h⟩
  · rename_i hc
    cases h
    exact Or.inr ⟨hc, rfl⟩

theorem tell_ok {ops : Ops α τ} {s s' : Opt α} {xs : List (α × Obj)} {e : Fit α τ}
    (h : tell ops s xs e = .ok s') :
    (∀ p ∈ xs, ops.accept p.1 = true) ∧ tellCore ops s xs e = .ok s' := by
  unfold tell at h
  split at h
  · rename_i hc
    exact ⟨by simpa using hc, h⟩
  · cases h

theorem copy_ok {ops : Ops α τ} {s c : Opt α} {e : Fit α τ} (h : copy ops s e = .ok c) :
    (s.told.isEmpty = true ∧ c = copy0 s) ∨
    (s.told.isEmpty = false ∧ tellCore ops (copy0 s) s.told e = .ok c) := by
  unfold copy at h
  simp only at h
  split at h
  · rename_i hc
    cases h
    exact Or.inl ⟨hc, rfl⟩
  · rename_i hc
    exact Or.inr ⟨by simpa using hc, h⟩

theorem updateNext_ok {ops : Ops α τ} {s s' : Opt α} {e : Fit α τ} (h : updateNext ops s e = .ok s') :
    (s.nextX = none ∧ s' = { s with cache := none }) ∨
    (∃ x c y, s.nextX = some x ∧ copy ops { s with cache := none } e = .ok c ∧ c.nextX = some y ∧
        s' = { s with cache := none, nextX := some y, nextFrom := c.nextFrom }) := by
  unfold updateNext at h
  simp only at h
  split at h
  · rename_i hn
    cases h
    exact Or.inl ⟨hn, rfl⟩
  · rename_i x hn
    split at h
    · cases h
    · rename_i c hc
      split at h
      · cases h
      · rename_i y hy
        cases h
        exact Or.inr ⟨x, c, y, hn, hc, hy, rfl⟩

theorem askOne_ok {s s' : Opt α} {cands : List α} {z : Sel α} (h : askOne s cands = .ok (s', z)) :
    (s.randomPhase = true ∧ s.initSamples = [] ∧
        (∃ rest, filterDup s.filterOn s.sampled cands = z.x :: rest) ∧ z.offered = cands ∧
        s' = { s with sampled := s.sampled ++ [z.x] }) ∨
    (s.randomPhase = true ∧ (∃ rest, s.initSamples = z.x :: rest ∧
        s' = { s with initSamples := rest, sampled := s.sampled ++ [z.x] }) ∧ z.offered = []) ∨
    (s.randomPhase = false ∧ s.nextX = some z.x ∧ z.offered = s.nextFrom ∧
        s' = { s with sampled := s.sampled ++ [z.x] }) := by
  unfold askOne at h
  split at h
  · rename_i hr
    split at h
    · rename_i hi
      split at h
      · cases h
      · rename_i x rest hf
        cases h
        exact Or.inl ⟨hr, hi, ⟨rest, hf⟩, rfl, rfl⟩
    · rename_i x rest hi
      cases h
      exact Or.inr (Or.inl ⟨hr, ⟨rest, hi, rfl⟩, rfl⟩)
  · rename_i hr
    split at h
    · cases h
    · rename_i x hn
      cases h
      exact Or.inr (Or.inr ⟨by simpa using hr, hn, rfl, rfl⟩)

theorem rows_mem {l : List α} : ∀ {idx : List Nat} {X : List α}, rows l idx = .ok X → ∀ x ∈ X, x ∈ l
  | [], X, h => by simp [rows] at h; subst h; simp
  | i :: is, X, h => by
    unfold rows at h
    split at h
    · cases h
    · rename_i y hy
      split at h
      · cases h
      · rename_i r hr
        cases h
        intro x hx
        rcases List.mem_cons.1 hx with rfl | hx
        · exact List.mem_of_getElem? hy
        · exact rows_mem hr x hx

theorem qLoop_mem {f : List α} : ∀ {os : List (List Nat)} {ch : List Nat} {acc X : List α},
    qLoop f os ch acc = .ok X → ∀ x ∈ X, x ∈ acc ∨ x ∈ f
  | [], ch, acc, X, h => by simp [qLoop] at h; subst h; intro x hx; exact Or.inl hx
  | o :: os, ch, acc, X, h => by
    unfold qLoop at h
    split at h
    · cases h
    · rename_i i hi
      split at h
      · cases h
      · rename_i y hy
        intro x hx
        rcases qLoop_mem h x hx with h1 | h1
        · rcases List.mem_append.1 h1 with h2 | h2
          · exact Or.inl h2
          · simp at h2; subst h2; exact Or.inr (List.mem_of_getElem? hy)
        · exact Or.inr h1

theorem askTopk_ok {s s' : Opt α} {n : Nat} {l : List α} {order : List Nat} {Z : List (Sel α)}
    (h : askTopk s n l order = .ok (s', Z)) :
    ∃ X, rows l (order.take n) = .ok X ∧ s' = { s with sampled := s.sampled ++ X } ∧
      Z = X.map (fun x => ⟨x, l⟩) := by
  unfold askTopk at h
  split at h
  · cases h
  · rename_i X hX
    cases h
    exact ⟨X, hX, rfl, rfl⟩

theorem askBoltzmann_ok {s s' : Opt α} {n : Nat} {l : List α} {orders : List (List Nat)}
    {Z : List (Sel α)} (h : askBoltzmann s n l orders = .ok (s', Z)) :
    ∃ idx smp X, rows l idx = .ok X ∧ s' = { s with sampled := smp } ∧ Z = X.map (fun x => ⟨x, l⟩) := by
  unfold askBoltzmann at h
  split at h
  · split at h
    · cases h
    · rename_i idx smp hb
      split at h
      · cases h
      · rename_i X hX
        cases h
        exact ⟨idx, smp, X, hX, rfl, rfl⟩
  · cases h

theorem askQ_ok {s s' : Opt α} {n : Nat} {x0 : α} {cands : List α} {orders : List α → List (List Nat)}
    {Z : List (Sel α)} (h : askQ s n x0 cands orders = .ok (s', Z)) :
    ∃ X, qLoop (filterDup s.filterOn (s.sampled ++ [x0]) cands)
        ((orders (filterDup s.filterOn (s.sampled ++ [x0]) cands)).take (n - 1)) [] [] = .ok X ∧
      s' = { s with sampled := (s.sampled ++ [x0]) ++ X } ∧
      Z = ⟨x0, s.nextFrom⟩ :: X.map (fun x => ⟨x, cands⟩) := by
  unfold askQ at h
  simp only at h
  split at h
  · cases h
  · rename_i X hX
    split at h
    · cases h
      exact ⟨X, hX, rfl, rfl⟩
    · cases h

/-! ## 3. a predicate on configurations is preserved -/

/-- everything stored in the optimizer that can later be handed out satisfies `P` -/
structure PInv (P : α → Prop) (s : Opt α) : Prop where
  init : ∀ x ∈ s.initSamples, P x
  next : ∀ x, s.nextX = some x → P x
  last : ∀ l, s.last = some l → ∀ x ∈ l, P x
  cache : ∀ n st X, s.cache = some (n, st, X) → ∀ p ∈ X, P p.1

/-- contract of the space: `fin` (clip, inverse transform, deactivate) lands in `P` for every
admissible transformed vector, and the transform of a `P`-point is admissible -/
structure SpaceOK (P : α → Prop) (Tok : τ → Prop) (ops : Ops α τ) : Prop where
  fin : ∀ t x, Tok t → ops.fin t = some x → P x
  tr : ∀ c, P c → Tok (ops.tr c)

/-- contract of one fit's environment: the candidates are `P`-points (`Space.rvs`), a free
optimiser output is admissible -/
structure FitOK (P : α → Prop) (Tok : τ → Prop) (e : Fit α τ) : Prop where
  cands : ∀ c ∈ e.cands, P c
  free : ∀ t fb, e.pick = .free t fb → Tok t

structure AskEnvOK (P : α → Prop) (Tok : τ → Prop) (env : AskEnv α τ) : Prop where
  cands : ∀ c ∈ env.cands, P c
  copyFit : FitOK P Tok env.copyFit
  steps : ∀ st ∈ env.steps, (∀ c ∈ st.askCands, P c) ∧ FitOK P Tok st.fit
  refresh : FitOK P Tok env.refresh

variable {P : α → Prop} {Tok : τ → Prop} {ops : Ops α τ}

theorem fit_P (hs : SpaceOK P Tok ops) {s s' : Opt α} {e : Fit α τ} (hi : PInv P s)
    (he : FitOK P Tok e) (h : fit ops s e = .ok s') : PInv P s' := by
  obtain ⟨x, rfl, hx⟩ := fit_ok h
  have hf : ∀ c ∈ filterDup s.filterOn s.sampled e.cands, P c :=
    fun c hc => he.cands c (mem_filterDup hc)
  have hPx : P x := by
    rcases hx with ⟨i, c, _, hc, hfin⟩ | ⟨t, fb, hp, hfin, _⟩ | ⟨t, fb, y, c, _, _, _, _, hc, hfin⟩
    · exact hs.fin _ _ (hs.tr c (hf c (List.mem_of_getElem? hc))) hfin
    · exact hs.fin _ _ (he.free t fb hp) hfin
    · exact hs.fin _ _ (hs.tr c (hf c (List.mem_of_getElem? hc))) hfin
  refine ⟨hi.init, ?_, ?_, hi.cache⟩
  · intro y hy; cases hy; exact hPx
  · intro l hl; cases hl; exact hf

theorem told1_P {s : Opt α} (hi : PInv P s) (xs : List (α × Obj)) : PInv P (told1 s xs) :=
  ⟨hi.init, hi.next, hi.last, by intro n st X h; cases h⟩

theorem tellCore_P (hs : SpaceOK P Tok ops) {s s' : Opt α} {xs : List (α × Obj)} {e : Fit α τ}
    (hi : PInv P s) (he : FitOK P Tok e) (h : tellCore ops s xs e = .ok s') : PInv P s' := by
  rcases tellCore_ok h with ⟨_, hf⟩ | ⟨_, rfl⟩
  · exact fit_P hs (told1_P hi xs) he hf
  · exact told1_P hi xs

theorem copy0_P {s : Opt α} (hi : PInv P s) : PInv P (copy0 s) :=
  ⟨hi.init, (by intro x h; cases h), (by intro l h; cases h), (by intro n st X h; cases h)⟩

theorem copy_P (hs : SpaceOK P Tok ops) {s c : Opt α} {e : Fit α τ}
    (hi : PInv P s) (he : FitOK P Tok e) (h : copy ops s e = .ok c) : PInv P c := by
  rcases copy_ok h with ⟨_, rfl⟩ | ⟨_, ht⟩
  · exact copy0_P hi
  · exact tellCore_P hs (copy0_P hi) he ht

theorem updateNext_P (hs : SpaceOK P Tok ops) {s s' : Opt α} {e : Fit α τ}
    (hi : PInv P s) (he : FitOK P Tok e) (h : updateNext ops s e = .ok s') : PInv P s' := by
  rcases updateNext_ok h with ⟨_, rfl⟩ | ⟨x, c, y, _, hc, hy, rfl⟩
  · exact ⟨hi.init, hi.next, hi.last, by intro n st X h; cases h⟩
  · have hi1 : PInv P { s with cache := none } :=
      ⟨hi.init, hi.next, hi.last, by intro n st X h; cases h⟩
    have hc' := copy_P hs hi1 he hc
    exact ⟨hi.init, (by intro z hz; cases hz; exact hc'.next y hy), hi.last, (by intro n st X h; cases h)⟩

theorem askOne_P {s s' : Opt α} {cands : List α} {z : Sel α} (hi : PInv P s)
    (hc : ∀ c ∈ cands, P c) (h : askOne s cands = .ok (s', z)) : PInv P s' ∧ P z.x := by
  rcases askOne_ok h with ⟨_, _, ⟨rest, hf⟩, _, rfl⟩ | ⟨_, ⟨rest, hr, rfl⟩, _⟩ | ⟨_, hn, _, rfl⟩
  · refine ⟨⟨hi.init, hi.next, hi.last, hi.cache⟩, ?_⟩
    exact hc _ (mem_filterDup (by rw [hf]; exact List.mem_cons_self))
  · refine ⟨⟨?_, hi.next, hi.last, hi.cache⟩, hi.init _ (by rw [hr]; exact List.mem_cons_self)⟩
    intro x hx; exact hi.init x (by rw [hr]; exact List.mem_cons_of_mem _ hx)
  · exact ⟨⟨hi.init, hi.next, hi.last, hi.cache⟩, hi.next _ hn⟩


theorem clLoop_P (hs : SpaceOK P Tok ops) : ∀ (k : Nat) {steps : List (ClStep α τ)} {opt : Opt α}
    {smp smp' : List α} {X X' : List (Sel α)},
    PInv P opt → (∀ st ∈ steps, (∀ c ∈ st.askCands, P c) ∧ FitOK P Tok st.fit) →
    (∀ z ∈ X, P z.x) → clLoop ops k steps opt smp X = .ok (smp', X') → ∀ z ∈ X', P z.x
  | 0, steps, opt, smp, smp', X, X', _, _, hX, h => by
    simp [clLoop] at h; rw [← h.2]; exact hX
  | k + 1, steps, opt, smp, smp', X, X', hi, hst, hX, h => by
    unfold clLoop at h
    split at h
    · cases h
    · rename_i st rest
      have hst0 := hst st (List.mem_cons_self)
      split at h
      · cases h
      · rename_i opt1 sel ha
        have ⟨hi1, hsel⟩ := askOne_P hi hst0.1 ha
        have hX1 : ∀ z ∈ X ++ [sel], P z.x := by
          intro z hz
          rcases List.mem_append.1 hz with h1 | h1
          · exact hX z h1
          · simp at h1; subst h1; exact hsel
        split at h
        · cases h; exact hX1
        · split at h
          · cases h
          · rename_i opt2 ht
            exact clLoop_P hs k (tellCore_P hs hi1 hst0.2 ht)
              (fun st' h' => hst st' (List.mem_cons_of_mem _ h')) hX1 h

theorem askCL_ok {s s' : Opt α} {n : Nat} {strat : Strategy} {env : AskEnv α τ} {Z : List (Sel α)}
    (h : askCL ops s n strat env = .ok (s', Z)) :
    ∃ opt smp, copy ops s env.copyFit = .ok opt ∧ clLoop ops n env.steps opt s.sampled [] = .ok (smp, Z) ∧
      s' = { s with sampled := smp, cache := some (n, strat, Z.map (fun z => (z.x, z.offered))) } := by
  unfold askCL at h
  split at h
  · cases h
  · rename_i opt hc
    split at h
    · cases h
    · rename_i smp X hl
      cases h
      exact ⟨opt, smp, hc, hl, rfl⟩

theorem askCL_P (hs : SpaceOK P Tok ops) {s s' : Opt α} {n : Nat} {strat : Strategy}
    {env : AskEnv α τ} {Z : List (Sel α)} (hi : PInv P s) (he : AskEnvOK P Tok env)
    (h : askCL ops s n strat env = .ok (s', Z)) : PInv P s' ∧ ∀ z ∈ Z, P z.x := by
  obtain ⟨opt, smp, hc, hl, rfl⟩ := askCL_ok h
  have hZ := clLoop_P hs n (copy_P hs hi he.copyFit hc) he.steps (by intro z hz; cases hz) hl
  refine ⟨⟨hi.init, hi.next, hi.last, ?_⟩, hZ⟩
  intro n' st X hX p hp
  cases hX
  obtain ⟨z, hz, rfl⟩ := List.mem_map.1 hp
  exact hZ z hz

theorem ask_P (hs : SpaceOK P Tok ops) {s s' : Opt α} {n : Option Nat} {strat : Strategy}
    {env : AskEnv α τ} {Z : List (Sel α)} (hi : PInv P s) (he : AskEnvOK P Tok env)
    (h : ask ops s n strat env = .ok (s', Z)) : PInv P s' ∧ ∀ z ∈ Z, P z.x := by
  have single : ∀ {s' Z}, (match askOne s env.cands with
      | .error e => (.error e : Except Err (Opt α × List (Sel α)))
      | .ok (s', sel) => .ok (s', [sel])) = .ok (s', Z) → PInv P s' ∧ ∀ z ∈ Z, P z.x := by
    intro s' Z h
    split at h
    · cases h
    · rename_i s1 sel ha
      cases h
      have ⟨h1, h2⟩ := askOne_P hi he.cands ha
      exact ⟨h1, by intro z hz; simp at hz; subst hz; exact h2⟩
  unfold ask at h
  split at h
  · exact single h
  · exact single h
  · rename_i n hn1 hn2
    split at h
    · -- initial batch
      cases h
      refine ⟨⟨?_, hi.next, hi.last, hi.cache⟩, ?_⟩
      · intro x hx; exact hi.init x (List.mem_of_mem_drop hx)
      · intro z hz
        rcases List.mem_append.1 hz with h1 | h1
        · obtain ⟨x, hx, rfl⟩ := List.mem_map.1 h1
          exact hi.init x (List.mem_of_mem_take hx)
        · obtain ⟨x, hx, rfl⟩ := List.mem_map.1 h1
          exact he.cands x (mem_filterDup (List.mem_of_mem_take hx))
    · split at h
      · cases h
      · split at h
        · -- one-shot strategies
          rename_i l hl
          have hl' : s.last = some l := by
            split at hl
            · exact hl
            · cases hl
          have hPl := hi.last l hl'
          split at h
          · obtain ⟨X, hX, rfl, rfl⟩ := askTopk_ok h
            refine ⟨⟨hi.init, hi.next, hi.last, hi.cache⟩, ?_⟩
            intro z hz
            obtain ⟨x, hx, rfl⟩ := List.mem_map.1 hz
            exact hPl x (rows_mem hX x hx)
          · obtain ⟨idx, smp, X, hX, rfl, rfl⟩ := askBoltzmann_ok h
            refine ⟨⟨hi.init, hi.next, hi.last, hi.cache⟩, ?_⟩
            intro z hz
            obtain ⟨x, hx, rfl⟩ := List.mem_map.1 hz
            exact hPl x (rows_mem hX x hx)
        · split at h
          · -- qLCB
            rename_i x0 hx0
            have hx0' : s.nextX = some x0 := by
              split at hx0
              · exact hx0
              · cases hx0
            obtain ⟨X, hX, rfl, rfl⟩ := askQ_ok h
            refine ⟨⟨hi.init, hi.next, hi.last, hi.cache⟩, ?_⟩
            intro z hz
            rcases List.mem_cons.1 hz with rfl | hz
            · exact hi.next x0 hx0'
            · obtain ⟨x, hx, rfl⟩ := List.mem_map.1 hz
              rcases qLoop_mem hX x hx with h1 | h1
              · cases h1
              · exact he.cands x (mem_filterDup h1)
          · split at h
            · rename_i n' st' X hc
              split at h
              · cases h
                refine ⟨hi, ?_⟩
                intro z hz
                obtain ⟨p, hp, rfl⟩ := List.mem_map.1 hz
                exact hi.cache n' st' X hc p hp
              · exact askCL_P hs hi he h
            · exact askCL_P hs hi he h


theorem cboAsk_ok {c c' : Cbo α} {n : Nat} {env : AskEnv α τ} {Z : List (Sel α)}
    (h : cboAsk ops c n env = .ok (c', Z)) :
    ∃ o0 o, ((c.asked = true ∧ updateNext ops c.opt env.refresh = .ok o0) ∨ (c.asked = false ∧ o0 = c.opt)) ∧
      ask ops o0 (some n) c.strat env = .ok (o, Z) ∧ c' = { c with opt := o, asked := true } := by
  unfold cboAsk at h
  simp only at h
  split at h
  · cases h
  · rename_i o0 ho0
    split at h
    · cases h
    · rename_i o X ha
      cases h
      refine ⟨o0, o, ?_, ha, rfl⟩
      split at ho0
      · rename_i hc; exact Or.inl ⟨hc, ho0⟩
      · rename_i hc; cases ho0; exact Or.inr ⟨by simpa using hc, rfl⟩

theorem cboTell_ok {c c' : Cbo α} {results : List (α × Res)} {e : Fit α τ}
    (h : cboTell ops c results e = .ok c') :
    ∃ o, c' = { c with opt := o, asked := false } ∧
      (((cboTold c.ignoreFailures results).isEmpty = true ∧ updateNext ops c.opt e = .ok o) ∨
       ((cboTold c.ignoreFailures results).isEmpty = false ∧
          tell ops c.opt (cboTold c.ignoreFailures results) e = .ok o)) := by
  unfold cboTell at h
  simp only at h
  split at h
  · cases h
  · rename_i o ho
    cases h
    refine ⟨o, rfl, ?_⟩
    split at ho
    · rename_i hc; exact Or.inl ⟨hc, ho⟩
    · rename_i hc; exact Or.inr ⟨by simpa using hc, ho⟩

/-- environment contract of one call of the ask/tell interface -/
def OpOK (P : α → Prop) (Tok : τ → Prop) : Op α τ → Prop
  | .ask _ env => AskEnvOK P Tok env
  | .tell _ e => FitOK P Tok e

/-- environment contract of one round of the search loop -/
structure RoundOK (P : α → Prop) (Tok : τ → Prop) (r : Round α τ) : Prop where
  ask : AskEnvOK P Tok r.askEnv
  tell : FitOK P Tok r.tellEnv

theorem cboAsk_P (hs : SpaceOK P Tok ops) {c c' : Cbo α} {n : Nat} {env : AskEnv α τ}
    {Z : List (Sel α)} (hi : PInv P c.opt) (he : AskEnvOK P Tok env)
    (h : cboAsk ops c n env = .ok (c', Z)) : PInv P c'.opt ∧ ∀ z ∈ Z, P z.x := by
  obtain ⟨o0, o, h0, hask, rfl⟩ := cboAsk_ok h
  have hi0 : PInv P o0 := by
    rcases h0 with ⟨_, hu⟩ | ⟨_, rfl⟩
    · exact updateNext_P hs hi he.refresh hu
    · exact hi
  exact ask_P hs hi0 he hask

theorem cboTell_P (hs : SpaceOK P Tok ops) {c c' : Cbo α} {results : List (α × Res)} {e : Fit α τ}
    (hi : PInv P c.opt) (he : FitOK P Tok e) (h : cboTell ops c results e = .ok c') : PInv P c'.opt := by
  obtain ⟨o, rfl, ⟨_, hu⟩ | ⟨_, ht⟩⟩ := cboTell_ok h
  · exact updateNext_P hs hi he hu
  · exact tellCore_P hs hi he (tell_ok ht).2

/-- **every configuration proposed during any sequence of ask/tell calls satisfies `P`** -/
theorem runOps_P (hs : SpaceOK P Tok ops) : ∀ {l : List (Op α τ)} {c c' : Cbo α} {Z : List (Sel α)},
    PInv P c.opt → (∀ o ∈ l, OpOK P Tok o) → runOps ops c l = .ok (c', Z) →
    PInv P c'.opt ∧ ∀ z ∈ Z, P z.x
  | [], c, c', Z, hi, _, h => by
    simp [runOps] at h
    obtain ⟨rfl, rfl⟩ := h
    exact ⟨hi, by intro z hz; cases hz⟩
  | .ask n env :: rest, c, c', Z, hi, hr, h => by
    unfold runOps at h
    split at h
    · cases h
    · rename_i c1 X ha
      split at h
      · cases h
      · rename_i c2 Y hrun
        cases h
        have ⟨hi1, hX⟩ := cboAsk_P hs hi (hr _ List.mem_cons_self) ha
        have ⟨hi2, hY⟩ := runOps_P hs hi1 (fun o h' => hr o (List.mem_cons_of_mem _ h')) hrun
        refine ⟨hi2, ?_⟩
        intro z hz
        rcases List.mem_append.1 hz with h1 | h1
        · exact hX z h1
        · exact hY z h1
  | .tell results e :: rest, c, c', Z, hi, hr, h => by
    unfold runOps at h
    split at h
    · cases h
    · rename_i c1 ht
      have hi1 := cboTell_P hs hi (hr _ List.mem_cons_self) ht
      exact runOps_P hs hi1 (fun o h' => hr o (List.mem_cons_of_mem _ h')) h

theorem roundsOK_ops {rounds : List (Round α τ)} (h : ∀ r ∈ rounds, RoundOK P Tok r) :
    ∀ o ∈ rounds.flatMap Round.ops, OpOK P Tok o := by
  intro o ho
  obtain ⟨r, hr, hor⟩ := List.mem_flatMap.1 ho
  simp only [Round.ops, List.mem_cons, List.not_mem_nil, or_false] at hor
  rcases hor with rfl | rfl
  · exact (h r hr).ask
  · exact (h r hr).tell

/-- … in particular during the search loop -/
theorem run_P (hs : SpaceOK P Tok ops) {rounds : List (Round α τ)} {c c' : Cbo α} {Z : List (Sel α)}
    (hi : PInv P c.opt) (hr : ∀ r ∈ rounds, RoundOK P Tok r) (h : run ops c rounds = .ok (c', Z)) :
    PInv P c'.opt ∧ ∀ z ∈ Z, P z.x :=
  runOps_P hs hi (roundsOK_ops hr) h


/-! ## 4. freshness (C08) -/

section fresh
variable (C : List α → Prop)

/-- A proposal `z` is fine w.r.t. the earlier proposals `H`: it is an initial point (given by
the user or pre-computed by a design: selected from no candidate list) that was never proposed
before; or it was selected from a candidate list satisfying `C`, and if it repeats an earlier
proposal then every candidate it was selected from had been proposed before. -/
def SelOK (H : List α) (z : Sel α) : Prop :=
  (z.offered = [] ∧ z.x ∉ H) ∨ (C z.offered ∧ (z.x ∈ H → ∀ c ∈ z.offered, c ∈ H))

/-- `SelOK` for a sequence of proposals, each one judged against everything proposed before it -/
def SelsOK : List α → List (Sel α) → Prop
  | _, [] => True
  | H, z :: zs => SelOK C H z ∧ SelsOK (H ++ [z.x]) zs

theorem selsOK_append : ∀ {A B : List (Sel α)} {H : List α},
    SelsOK C H A → SelsOK C (H ++ A.map (·.x)) B → SelsOK C H (A ++ B)
  | [], B, H, _, hb => by simpa using hb
  | a :: A, B, H, ha, hb => by
    refine ⟨ha.1, selsOK_append ha.2 ?_⟩
    simpa [List.append_assoc] using hb

/-- candidates that are all new and pairwise distinct — or a candidate list that is exhausted —
make a fine sequence of proposals -/
theorem selsOK_of_fresh {cands : List α} (hC : C cands) : ∀ {b : List α} {H : List α},
    ((∀ c ∈ cands, c ∈ H) ∨ (b.Nodup ∧ ∀ x ∈ b, x ∉ H)) →
    SelsOK C H (b.map (fun x => (⟨x, cands⟩ : Sel α)))
  | [], _, _ => trivial
  | x :: b, H, h => by
    refine ⟨Or.inr ⟨hC, ?_⟩, selsOK_of_fresh hC ?_⟩
    · intro hx
      rcases h with h | ⟨_, h⟩
      · exact h
      · exact absurd hx (h x List.mem_cons_self)
    · rcases h with h | ⟨hnd, h⟩
      · exact Or.inl (fun c hc => List.mem_append_left _ (h c hc))
      · have hnd' := List.nodup_cons.1 hnd
        refine Or.inr ⟨hnd'.2, ?_⟩
        intro y hy hy'
        rcases List.mem_append.1 hy' with h1 | h1
        · exact h y (List.mem_cons_of_mem _ hy) h1
        · simp at h1; subst h1; exact hnd'.1 hy

/-- the bookkeeping invariant: duplicates are filtered, `sampled` holds exactly what has been
proposed (`H`), and `_n_initial_points` counts down the non-failed results told so far -/
structure Good (s : Opt α) (H : List α) : Prop where
  on : s.filterOn = true
  smp : ∀ x, x ∈ s.sampled ↔ x ∈ H
  cnt : s.nInit = s.nInit0 - (nonFail s.told : Nat)

/-- the initial points still pending (given by the user / pre-computed by a design): as long as
the optimizer is in its random phase — the only phase in which they are handed out — they are
pairwise distinct and none of them has been proposed yet -/
def InitOK (s : Opt α) (H : List α) : Prop :=
  s.randomPhase = true → s.initSamples.Nodup ∧ ∀ x ∈ s.initSamples, x ∉ H

theorem nonFail_append (a b : List (α × Obj)) : nonFail (a ++ b) = nonFail a + nonFail b := by
  simp [nonFail, List.filter_append]

/-- `InitOK` only looks at the phase and at the pending initial points -/
theorem initOK_of_fields {s s' : Opt α} {H : List α} (hi : InitOK s H)
    (h1 : s'.initSamples = s.initSamples) (h2 : s'.nInit ≤ s.nInit) (h3 : s'.dummy = s.dummy) :
    InitOK s' H := by
  intro hr
  rw [h1]
  apply hi
  unfold Opt.randomPhase at hr ⊢
  rw [h3] at hr
  simp only [Bool.or_eq_true, decide_eq_true_eq] at hr ⊢
  rcases hr with hr | hr
  · exact Or.inl (by omega)
  · exact Or.inr hr

theorem initOK_of_not_random {s : Opt α} (H : List α) (h : s.randomPhase = false) : InitOK s H := by
  intro hr; rw [h] at hr; cases hr

/-- `_next_x` (if set) is new w.r.t. `H`, or was selected from an exhausted candidate list -/
def NextU (s : Opt α) (H : List α) : Prop :=
  ∀ x, s.nextX = some x → C s.nextFrom ∧ (x ∈ H → ∀ c ∈ s.nextFrom, c ∈ H)

/-- the same, needed only once the random phase is over -/
def NextOK (s : Opt α) (H : List α) : Prop := s.randomPhase = false → NextU C s H

/-- round trip contract of one fit: transforming a candidate and coming back (clip, inverse
transform, deactivate) gives the candidate itself; and the candidate list satisfies `C` -/
structure FitRT (ops : Ops α τ) (e : Fit α τ) : Prop where
  rt : ∀ c ∈ e.cands, ops.fin (ops.tr c) = some c
  c : C e.cands

variable {C}
variable {ops : Ops α τ}

theorem fit_next {s s' : Opt α} {e : Fit α τ} {H : List α} (hg : Good s H) (he : FitRT C ops e)
    (h : fit ops s e = .ok s') : Good s' H ∧ NextU C s' H ∧ s'.cache = s.cache := by
  obtain ⟨x, rfl, hx⟩ := fit_ok h
  refine ⟨⟨hg.on, hg.smp, hg.cnt⟩, ?_, rfl⟩
  intro y hy
  cases hy
  refine ⟨he.c, ?_⟩
  have key : ∀ (i : Nat) (c : α), (filterDup s.filterOn s.sampled e.cands)[i]? = some c → ops.fin (ops.tr c) = some x →
      x ∈ H → ∀ c' ∈ e.cands, c' ∈ H := by
    intro i c hc hfin hxH
    have hcf : c ∈ filterDup true s.sampled e.cands := by
      have := List.mem_of_getElem? hc
      rwa [hg.on] at this
    have hcx : c = x := by
      have := he.rt c (mem_filterDup hcf)
      rw [hfin] at this
      exact (Option.some.inj this).symm
    subst hcx
    rcases filterDup_fresh hcf with h1 | h1
    · exact absurd ((hg.smp c).2 hxH) h1
    · exact fun c' hc' => (hg.smp c').1 (h1 c' hc')
  rcases hx with ⟨i, c, _, hc, hfin⟩ | ⟨t, fb, _, _, hnot⟩ | ⟨t, fb, y, c, _, _, _, _, hc, hfin⟩
  · exact key _ c hc hfin
  · intro hxH
    exact absurd ⟨hg.on, (hg.smp x).2 hxH⟩ hnot
  · exact key _ c hc hfin

theorem told1_good {s : Opt α} {H : List α} (hg : Good s H) (xs : List (α × Obj)) :
    Good (told1 s xs) H := by
  refine ⟨hg.on, hg.smp, ?_⟩
  show s.nInit - (nonFail xs : Nat) = s.nInit0 - (nonFail (s.told ++ xs) : Nat)
  rw [nonFail_append, hg.cnt]
  omega

/-- what `_tell` does to the fields the phase depends on -/
theorem tellCore_fields {s s' : Opt α} {xs : List (α × Obj)} {e : Fit α τ}
    (h : tellCore ops s xs e = .ok s') :
    s'.nInit = s.nInit - (nonFail xs : Nat) ∧ s'.dummy = s.dummy ∧ s'.initSamples = s.initSamples := by
  rcases tellCore_ok h with ⟨_, hf⟩ | ⟨_, rfl⟩
  · obtain ⟨x, rfl, _⟩ := fit_ok hf
    exact ⟨rfl, rfl, rfl⟩
  · exact ⟨rfl, rfl, rfl⟩

theorem tellCore_initOK {s s' : Opt α} {xs : List (α × Obj)} {e : Fit α τ} {H : List α}
    (hi : InitOK s H) (h : tellCore ops s xs e = .ok s') : InitOK s' H := by
  have ⟨h1, h2, h3⟩ := tellCore_fields h
  exact initOK_of_fields hi h3 (by rw [h1]; omega) h2

/-- after `_tell`: either `_next_x` was recomputed, or the optimizer is (still) in its random
phase and nothing but the counters changed -/
theorem tellCore_next {s s' : Opt α} {xs : List (α × Obj)} {e : Fit α τ} {H : List α}
    (hg : Good s H) (he : FitRT C ops e) (h : tellCore ops s xs e = .ok s') :
    Good s' H ∧ s'.cache = none ∧
      (NextU C s' H ∨ (s'.randomPhase = true ∧ s'.nextX = s.nextX ∧ s'.nextFrom = s.nextFrom)) := by
  rcases tellCore_ok h with ⟨_, hf⟩ | ⟨hc, rfl⟩
  · have ⟨h1, h2, h3⟩ := fit_next (told1_good hg xs) he hf
    exact ⟨h1, by rw [h3]; rfl, Or.inl h2⟩
  · refine ⟨told1_good hg xs, rfl, Or.inr ⟨?_, rfl, rfl⟩⟩
    unfold Opt.randomPhase
    by_cases hd : (told1 s xs).dummy = true
    · simp [hd]
    · have hd' : (told1 s xs).dummy = false := by simpa using hd
      have : ¬ (told1 s xs).nInit ≤ 0 := fun hn => hc ⟨hn, hd'⟩
      simp [hd']
      omega

theorem tellCore_nextOK {s s' : Opt α} {xs : List (α × Obj)} {e : Fit α τ} {H : List α}
    (hg : Good s H) (he : FitRT C ops e) (h : tellCore ops s xs e = .ok s') :
    Good s' H ∧ s'.cache = none ∧ NextOK C s' H := by
  have ⟨h1, h2, h3⟩ := tellCore_next hg he h
  refine ⟨h1, h2, ?_⟩
  intro hr
  rcases h3 with h3 | ⟨h3, _⟩
  · exact h3
  · rw [h3] at hr; cases hr

theorem copy_next {s c : Opt α} {e : Fit α τ} {H : List α} (hg : Good s H) (he : FitRT C ops e)
    (h : copy ops s e = .ok c) :
    Good c H ∧ NextU C c H ∧ c.nInit = s.nInit ∧ c.dummy = s.dummy ∧ c.initSamples = s.initSamples := by
  have hg0 : Good (copy0 s) H := ⟨hg.on, hg.smp, by simp [copy0, nonFail]⟩
  have hn0 : NextU C (copy0 s) H := by intro x hx; cases hx
  rcases copy_ok h with ⟨hemp, rfl⟩ | ⟨_, ht⟩
  · refine ⟨hg0, hn0, ?_, rfl, rfl⟩
    have := hg.cnt
    rw [List.isEmpty_iff.1 hemp] at this
    simp only [nonFail, List.filter_nil, List.length_nil] at this
    show s.nInit0 = s.nInit
    omega
  · have ⟨h1, _, h3⟩ := tellCore_next hg0 he ht
    have ⟨f1, f2, f3⟩ := tellCore_fields ht
    refine ⟨h1, ?_, ?_, f2, f3⟩
    · rcases h3 with h3 | ⟨_, h3, _⟩
      · exact h3
      · intro x hx; rw [h3] at hx; cases hx
    · rw [f1, hg.cnt]; rfl

theorem updateNext_next {s s' : Opt α} {e : Fit α τ} {H : List α} (hg : Good s H)
    (he : FitRT C ops e) (h : updateNext ops s e = .ok s') :
    Good s' H ∧ s'.cache = none ∧ NextOK C s' H := by
  rcases updateNext_ok h with ⟨hn, rfl⟩ | ⟨x, c, y, _, hc, hy, rfl⟩
  · refine ⟨⟨hg.on, hg.smp, hg.cnt⟩, rfl, ?_⟩
    intro _ z hz
    rw [show ({ s with cache := none } : Opt α).nextX = s.nextX from rfl, hn] at hz
    cases hz
  · have hg1 : Good ({ s with cache := none } : Opt α) H := ⟨hg.on, hg.smp, hg.cnt⟩
    have ⟨_, hcn, _⟩ := copy_next hg1 he hc
    refine ⟨⟨hg.on, hg.smp, hg.cnt⟩, rfl, ?_⟩
    intro _ z hz
    cases hz
    exact hcn y hy

theorem updateNext_fields {s s' : Opt α} {e : Fit α τ} (h : updateNext ops s e = .ok s') :
    s'.nInit = s.nInit ∧ s'.dummy = s.dummy ∧ s'.initSamples = s.initSamples := by
  rcases updateNext_ok h with ⟨_, rfl⟩ | ⟨x, c, y, _, _, _, rfl⟩ <;> exact ⟨rfl, rfl, rfl⟩

theorem updateNext_initOK {s s' : Opt α} {e : Fit α τ} {H : List α} (hi : InitOK s H)
    (h : updateNext ops s e = .ok s') : InitOK s' H := by
  have ⟨h1, h2, h3⟩ := updateNext_fields h
  exact initOK_of_fields hi h3 (by omega) h2

theorem askOne_fresh {s s' : Opt α} {cands : List α} {z : Sel α} {H : List α} (hg : Good s H)
    (hi : InitOK s H) (hn : NextOK C s H) (hC : C cands) (h : askOne s cands = .ok (s', z)) :
    SelOK C H z ∧ Good s' (H ++ [z.x]) ∧ InitOK s' (H ++ [z.x]) := by
  have good' : ∀ (s'' : Opt α), s''.filterOn = s.filterOn →
      s''.sampled = s.sampled ++ [z.x] → s''.nInit = s''.nInit0 - (nonFail s''.told : Nat) →
      Good s'' (H ++ [z.x]) := by
    intro s'' h1 h3 h4
    refine ⟨h1 ▸ hg.on, ?_, h4⟩
    intro x
    rw [h3, List.mem_append, List.mem_append, hg.smp x]
  rcases askOne_ok h with ⟨_, hinit, ⟨rest, hf⟩, ho, rfl⟩ | ⟨hr, ⟨rest, hri, rfl⟩, ho⟩ | ⟨hr, hx, ho, rfl⟩
  · refine ⟨Or.inr ⟨ho ▸ hC, ?_⟩, good' _ rfl rfl hg.cnt, ?_⟩
    · intro hxH
      have hmem : z.x ∈ filterDup true s.sampled cands := by
        rw [← hg.on, hf]; exact List.mem_cons_self
      rw [ho]
      rcases filterDup_fresh hmem with h1 | h1
      · exact absurd ((hg.smp _).2 hxH) h1
      · exact fun c hc => (hg.smp c).1 (h1 c hc)
    · intro _
      show s.initSamples.Nodup ∧ ∀ x ∈ s.initSamples, x ∉ H ++ [z.x]
      rw [hinit]
      exact ⟨List.nodup_nil, fun x hx => by cases hx⟩
  · -- an initial point: never proposed before, and the pending ones stay distinct from it
    have ⟨hnd, hnew⟩ := hi hr
    rw [hri] at hnd hnew
    have hnd' := List.nodup_cons.1 hnd
    refine ⟨Or.inl ⟨ho, hnew z.x List.mem_cons_self⟩, good' _ rfl rfl hg.cnt, ?_⟩
    intro _
    refine ⟨hnd'.2, ?_⟩
    intro y hy hmem
    rcases List.mem_append.1 hmem with h1 | h1
    · exact hnew y (List.mem_cons_of_mem _ hy) h1
    · simp only [List.mem_singleton] at h1
      subst h1
      exact hnd'.1 hy
  · have := hn hr z.x hx
    exact ⟨Or.inr ⟨ho ▸ this.1, ho ▸ this.2⟩, good' _ rfl rfl hg.cnt, initOK_of_not_random _ hr⟩

end fresh


section fresh2
variable {C : List α → Prop} {ops : Ops α τ}

theorem good_append {s : Opt α} {H : List α} (hg : Good s H) (s' : Opt α) (X : List α)
    (h1 : s'.filterOn = s.filterOn) (h3 : s'.sampled = s.sampled ++ X)
    (h4 : s'.nInit = s'.nInit0 - (nonFail s'.told : Nat)) : Good s' (H ++ X) := by
  refine ⟨h1 ▸ hg.on, ?_, h4⟩
  intro x
  rw [h3, List.mem_append, List.mem_append, hg.smp x]

/-- initial points that are pairwise distinct and were never proposed make a fine sequence -/
theorem selsOK_init (C : List α → Prop) : ∀ {a : List α} {H : List α}, a.Nodup → (∀ x ∈ a, x ∉ H) →
    SelsOK C H (a.map (fun x => (⟨x, []⟩ : Sel α)))
  | [], _, _, _ => trivial
  | x :: a, H, hnd, hnew => by
    have hnd' := List.nodup_cons.1 hnd
    refine ⟨Or.inl ⟨rfl, hnew x List.mem_cons_self⟩, selsOK_init C hnd'.2 ?_⟩
    intro y hy hmem
    rcases List.mem_append.1 hmem with h1 | h1
    · exact hnew y (List.mem_cons_of_mem _ hy) h1
    · simp only [List.mem_singleton] at h1
      subst h1
      exact hnd'.1 hy

theorem map_sel_x (l : List α) (cands : List α) :
    (l.map (fun x => (⟨x, cands⟩ : Sel α))).map (·.x) = l := by
  induction l with
  | nil => rfl
  | cons a t ih => simp [ih]

/-- what `_filter_duplicated` guarantees, relative to the proposals `H` (`sampled ≡ H`) -/
theorem filterDup_cases_H {smp H l : List α} (hs : ∀ x, x ∈ smp ↔ x ∈ H) :
    (∀ c ∈ l, c ∈ H) ∨
    ((filterDup true smp l).Nodup ∧ (∀ x ∈ filterDup true smp l, x ∉ H) ∧
      (∀ c ∈ l, c ∈ H ∨ c ∈ filterDup true smp l)) := by
  rcases filterDup_cases smp l with h | ⟨h1, h2, h3⟩
  · exact Or.inl (fun c hc => (hs c).1 (h c hc))
  · refine Or.inr ⟨h1, fun x hx hxH => (h2 x hx).1 ((hs x).2 hxH), ?_⟩
    intro c hc
    rcases h3 c hc with h | h
    · exact Or.inl ((hs c).1 h)
    · exact Or.inr h

theorem askInitBatch_fresh {s : Opt α} {n : Nat} {cands : List α} {H : List α} (hg : Good s H)
    (hi : InitOK s H) (hr : s.randomPhase = true) (hC : C cands) :
    SelsOK C H (askInitBatch s n cands).2 ∧
      Good (askInitBatch s n cands).1 (H ++ (askInitBatch s n cands).2.map (·.x)) ∧
      InitOK (askInitBatch s n cands).1 (H ++ (askInitBatch s n cands).2.map (·.x)) := by
  have ⟨hnd, hnew⟩ := hi hr
  have hk : s.initSamples.take (min s.initSamples.length n) = s.initSamples.take n := by
    rw [List.take_eq_take_iff]; omega
  have hd : s.initSamples.drop (min s.initSamples.length n) = s.initSamples.drop n := by
    by_cases h : s.initSamples.length ≤ n
    · rw [Nat.min_eq_left h, List.drop_eq_nil_of_le (Nat.le_refl _), List.drop_eq_nil_of_le h]
    · rw [Nat.min_eq_right (by omega)]
  have hnd' : (s.initSamples.take n ++ s.initSamples.drop n).Nodup := by
    rw [List.take_append_drop]; exact hnd
  have hsmp' : ∀ x, x ∈ s.sampled ++ s.initSamples.take n ↔ x ∈ H ++ s.initSamples.take n := by
    intro x; rw [List.mem_append, List.mem_append, hg.smp x]
  have hanew : ∀ x ∈ s.initSamples.take n, x ∉ H := fun x hx => hnew x (List.mem_of_mem_take hx)
  -- the two halves of the batch
  have hX : (askInitBatch s n cands).2.map (·.x) = s.initSamples.take n ++
      (filterDup true (s.sampled ++ s.initSamples.take n) cands).take (n - min s.initSamples.length n) := by
    simp [askInitBatch, hk, hg.on, List.map_append, Function.comp_def]
  refine ⟨?_, ?_, ?_⟩
  · have hZ : (askInitBatch s n cands).2 = (s.initSamples.take n).map (fun x => (⟨x, []⟩ : Sel α)) ++
        ((filterDup true (s.sampled ++ s.initSamples.take n) cands).take
          (n - min s.initSamples.length n)).map (fun x => (⟨x, cands⟩ : Sel α)) := by
      simp [askInitBatch, hk, hg.on]
    rw [hZ]
    apply selsOK_append C (selsOK_init C (List.nodup_append.1 hnd').1 hanew)
    rw [map_sel_x]
    apply selsOK_of_fresh C hC
    rcases filterDup_cases_H (l := cands) hsmp' with h | ⟨h1, h2, _⟩
    · exact Or.inl h
    · exact Or.inr ⟨h1.sublist (List.take_sublist _ _), fun x hx => h2 x (List.mem_of_mem_take hx)⟩
  · rw [hX]
    refine good_append hg _ _ ?_ ?_ hg.cnt
    · simp [askInitBatch]
    · simp [askInitBatch, hk, hg.on]
  · intro _
    rw [hX]
    show (s.initSamples.drop (min s.initSamples.length n)).Nodup ∧
      ∀ x ∈ s.initSamples.drop (min s.initSamples.length n), x ∉ _
    rw [hd]
    refine ⟨(List.nodup_append.1 hnd').2.1, ?_⟩
    intro x hx hmem
    have hxI : x ∈ s.initSamples := List.mem_of_mem_drop hx
    rcases List.mem_append.1 hmem with hmem | hmem
    · exact hnew x hxI hmem
    · rcases List.mem_append.1 hmem with hmem | hmem
      · exact (List.nodup_append.1 hnd').2.2 x hmem x hx rfl
      · -- a pending point is left only if the whole batch was made of initial points
        have hlen : n < s.initSamples.length := by
          apply Nat.lt_of_not_le
          intro hle
          rw [List.drop_eq_nil_of_le hle] at hx
          cases hx
        rw [Nat.min_eq_right (by omega), Nat.sub_self, List.take_zero] at hmem
        cases hmem

theorem pickQ_cases {m : Nat} {o ch : List Nat} {i : Nat} (h : pickQ m o ch = some i) :
    (i < m ∧ i ∉ ch) ∨ (∀ j ∈ o, j < m → j ∈ ch) := by
  unfold pickQ at h
  split at h
  · rename_i j hj
    cases h
    have := List.find?_some hj
    simp only [Bool.and_eq_true, decide_eq_true_eq, Bool.not_eq_true', List.contains_eq_mem,
      decide_eq_false_iff_not] at this
    exact Or.inl this
  · rename_i hnone
    right
    intro j hj hjm
    have := List.find?_eq_none.1 hnone j hj
    simp only [Bool.and_eq_true, decide_eq_true_eq, Bool.not_eq_true', List.contains_eq_mem,
      decide_eq_false_iff_not, not_and, Decidable.not_not] at this
    exact this hjm

/-- the `for kappa in kappas` loop: each new point is fresh (w.r.t. `H1` and the points already
put in the batch) or every candidate is used up -/
theorem qLoop_fresh {f cands H1 : List α} (hC : C cands)
    (hcase : (∀ c ∈ cands, c ∈ H1) ∨
      (f.Nodup ∧ (∀ x ∈ f, x ∉ H1) ∧ (∀ c ∈ cands, c ∈ H1 ∨ c ∈ f))) :
    ∀ {os : List (List Nat)} {ch : List Nat} {acc X : List α},
    (∀ o ∈ os, ∀ i, i < f.length → i ∈ o) →
    (∀ x ∈ acc, ∃ j ∈ ch, f[j]? = some x) → (∀ j ∈ ch, ∀ x, f[j]? = some x → x ∈ acc) →
    qLoop f os ch acc = .ok X →
    ∃ new, X = acc ++ new ∧ SelsOK C (H1 ++ acc) (new.map (fun x => (⟨x, cands⟩ : Sel α)))
  | [], ch, acc, X, _, _, _, h => by
    simp [qLoop] at h; subst h; exact ⟨[], by simp, trivial⟩
  | o :: os, ch, acc, X, hcov, hacc, hch, h => by
    unfold qLoop at h
    split at h
    · cases h
    · rename_i i hi
      split at h
      · cases h
      · rename_i x hx
        have hacc' : ∀ y ∈ acc ++ [x], ∃ j ∈ ch ++ [i], f[j]? = some y := by
          intro y hy
          rcases List.mem_append.1 hy with h1 | h1
          · obtain ⟨j, hj, hjy⟩ := hacc y h1
            exact ⟨j, List.mem_append_left _ hj, hjy⟩
          · simp at h1; subst h1
            exact ⟨i, by simp, hx⟩
        have hch' : ∀ j ∈ ch ++ [i], ∀ y, f[j]? = some y → y ∈ acc ++ [x] := by
          intro j hj y hjy
          rcases List.mem_append.1 hj with h1 | h1
          · exact List.mem_append_left _ (hch j h1 y hjy)
          · simp at h1; subst h1
            rw [hx] at hjy; cases hjy; simp
        obtain ⟨new, rfl, hnew⟩ := qLoop_fresh hC hcase
          (fun o' ho' => hcov o' (List.mem_cons_of_mem _ ho')) hacc' hch' h
        refine ⟨x :: new, by simp, ?_⟩
        refine ⟨Or.inr ⟨hC, ?_⟩, by simpa [List.append_assoc] using hnew⟩
        intro hxH
        rcases hcase with hE | ⟨hnd, hfresh, hcover⟩
        · exact fun c hc => List.mem_append_left _ (hE c hc)
        · -- x ∈ f is not in H1, hence it is in acc: its index was already chosen
          have hxf : x ∈ f := List.mem_of_getElem? hx
          have hxacc : x ∈ acc := by
            rcases List.mem_append.1 hxH with h1 | h1
            · exact absurd h1 (hfresh x hxf)
            · exact h1
          obtain ⟨j, hj, hjx⟩ := hacc x hxacc
          have hij : i = j := by
            have hi' : i < f.length := (List.getElem?_eq_some_iff.1 hx).1
            exact (List.getElem?_inj hi' hnd).1 (hx.trans hjx.symm)
          have hall : ∀ k ∈ o, k < f.length → k ∈ ch := by
            rcases pickQ_cases hi with ⟨_, hni⟩ | hall
            · exact absurd (hij ▸ hj) hni
            · exact hall
          have hfacc : ∀ y ∈ f, y ∈ acc := by
            intro y hy
            obtain ⟨k, hk, hky⟩ := List.getElem_of_mem hy
            have hkch := hall k (hcov o List.mem_cons_self k hk) hk
            exact hch k hkch y (by rw [List.getElem?_eq_getElem hk, hky])
          intro c hc
          rcases hcover c hc with h1 | h1
          · exact List.mem_append_left _ h1
          · exact List.mem_append_right _ (hfacc c h1)
end fresh2


section fresh3
variable {C : List α → Prop} {ops : Ops α τ}

theorem sels_x_cons (z : Sel α) (X cands : List α) :
    ((z :: X.map (fun x => (⟨x, cands⟩ : Sel α))).map (·.x)) = [z.x] ++ X := by
  rw [List.map_cons, map_sel_x]; rfl

/-- the argsorts handed to the qLCB loop mention every index of the array they were computed on -/
def OrdersCover (env : AskEnv α τ) : Prop := ∀ l, ∀ o ∈ env.orders l, ∀ i, i < l.length → i ∈ o

theorem askQ_fresh {s s' : Opt α} {n : Nat} {x0 : α} {cands : List α} {orders : List α → List (List Nat)}
    {Z : List (Sel α)} {H : List α} (hg : Good s H) (hn : NextU C s H) (hx0 : s.nextX = some x0)
    (hC : C cands) (hcov : ∀ l, ∀ o ∈ orders l, ∀ i, i < l.length → i ∈ o)
    (h : askQ s n x0 cands orders = .ok (s', Z)) :
    SelsOK C H Z ∧ Good s' (H ++ Z.map (·.x)) := by
  obtain ⟨X, hX, rfl, rfl⟩ := askQ_ok h
  have hg1 : ∀ x, x ∈ s.sampled ++ [x0] ↔ x ∈ H ++ [x0] := by
    intro x; rw [List.mem_append, List.mem_append, hg.smp x]
  rw [hg.on] at hX
  obtain ⟨new, hnew, hsel⟩ := qLoop_fresh (C := C) (H1 := H ++ [x0]) hC (filterDup_cases_H hg1)
    (fun o ho i hi => hcov _ o (List.mem_of_mem_take ho) i hi)
    (by intro x hx; cases hx) (by intro j hj; cases hj) hX
  simp only [List.nil_append] at hnew
  subst hnew
  refine ⟨⟨Or.inr (hn x0 hx0), by simpa using hsel⟩, ?_⟩
  rw [sels_x_cons]
  exact good_append hg _ _ rfl (by simp [List.append_assoc]) hg.cnt

/-- constant-liar loop: `Hc` = proposals so far (`self.sampled` and the copy's `sampled`) -/
theorem clLoop_fresh : ∀ (k : Nat) {steps : List (ClStep α τ)} {opt : Opt α} {smp smp' : List α}
    {X X' : List (Sel α)} {Hc : List α},
    Good opt Hc → InitOK opt Hc → NextOK C opt Hc → (∀ x, x ∈ smp ↔ x ∈ Hc) →
    (∀ st ∈ steps, C st.askCands ∧ FitRT C ops st.fit) →
    clLoop ops k steps opt smp X = .ok (smp', X') →
    ∃ new, X' = X ++ new ∧ SelsOK C Hc new ∧ (∀ x, x ∈ smp' ↔ x ∈ Hc ++ new.map (·.x))
  | 0, steps, opt, smp, smp', X, X', Hc, _, _, _, hs, _, h => by
    simp [clLoop] at h
    obtain ⟨rfl, rfl⟩ := h
    exact ⟨[], by simp, trivial, by simpa using hs⟩
  | k + 1, steps, opt, smp, smp', X, X', Hc, hg, hi, hn, hs, hst, h => by
    unfold clLoop at h
    split at h
    · cases h
    · rename_i st rest
      have hst0 := hst st List.mem_cons_self
      split at h
      · cases h
      · rename_i opt1 sel ha
        have ⟨hsel, hg1, hi1⟩ := askOne_fresh hg hi hn hst0.1 ha
        have hs1 : ∀ x, x ∈ smp ++ [sel.x] ↔ x ∈ Hc ++ [sel.x] := by
          intro x; rw [List.mem_append, List.mem_append, hs x]
        split at h
        · cases h
          exact ⟨[sel], rfl, ⟨hsel, trivial⟩, by simpa using hs1⟩
        · split at h
          · cases h
          · rename_i opt2 ht
            have ⟨hg2, _, hn2⟩ := tellCore_nextOK hg1 hst0.2 ht
            have hi2 := tellCore_initOK hi1 ht
            obtain ⟨new, rfl, hnew, hsmp⟩ := clLoop_fresh k hg2 hi2 hn2 hs1
              (fun st' h' => hst st' (List.mem_cons_of_mem _ h')) h
            refine ⟨sel :: new, by simp, ⟨hsel, hnew⟩, ?_⟩
            intro x
            rw [hsmp x]
            simp [List.append_assoc]

/-- contract of the environment of one `ask` -/
structure AskRT (C : List α → Prop) (ops : Ops α τ) (env : AskEnv α τ) : Prop where
  cands : C env.cands
  copyFit : FitRT C ops env.copyFit
  steps : ∀ st ∈ env.steps, C st.askCands ∧ FitRT C ops st.fit
  orders : OrdersCover env
  refresh : FitRT C ops env.refresh

theorem askCL_fresh {s s' : Opt α} {n : Nat} {strat : Strategy} {env : AskEnv α τ}
    {Z : List (Sel α)} {H : List α} (hg : Good s H) (hi : InitOK s H) (he : AskRT C ops env)
    (h : askCL ops s n strat env = .ok (s', Z)) : SelsOK C H Z ∧ Good s' (H ++ Z.map (·.x)) := by
  obtain ⟨opt, smp, hc, hl, rfl⟩ := askCL_ok h
  have ⟨hgo, hno, f1, f2, f3⟩ := copy_next hg he.copyFit hc
  have hio : InitOK opt H := initOK_of_fields hi f3 (by omega) f2
  obtain ⟨new, hnew, hsel, hsmp⟩ := clLoop_fresh n hgo hio (fun _ => hno) hg.smp he.steps hl
  simp only [List.nil_append] at hnew
  subst hnew
  exact ⟨hsel, ⟨hg.on, hsmp, hg.cnt⟩⟩

/-- the multi-point strategies C08 quantifies over (constant liar and qUCB families) -/
def Strategy.c08 (st : Strategy) : Prop := st.isOneShot = false

theorem ask_fresh {s s' : Opt α} {n : Nat} {strat : Strategy} {env : AskEnv α τ}
    {Z : List (Sel α)} {H : List α} (hg : Good s H) (hi : InitOK s H) (hn : NextOK C s H)
    (hcache : s.cache = none) (hst : strat.c08) (he : AskRT C ops env)
    (h : ask ops s (some n) strat env = .ok (s', Z)) :
    SelsOK C H Z ∧ Good s' (H ++ Z.map (·.x)) ∧ InitOK s' (H ++ Z.map (·.x)) := by
  have single : ∀ {s' Z}, (match askOne s env.cands with
      | .error e => (.error e : Except Err (Opt α × List (Sel α)))
      | .ok (s', sel) => .ok (s', [sel])) = .ok (s', Z) →
      SelsOK C H Z ∧ Good s' (H ++ Z.map (·.x)) ∧ InitOK s' (H ++ Z.map (·.x)) := by
    intro s' Z h
    split at h
    · cases h
    · rename_i s1 sel ha
      cases h
      have ⟨h1, h2, h3⟩ := askOne_fresh hg hi hn he.cands ha
      exact ⟨⟨h1, trivial⟩, by simpa using h2, by simpa using h3⟩
  unfold ask at h
  split at h
  · exact single h
  · exact single h
  · rename_i m hm1 hm2
    split at h
    · rename_i hphase
      cases h
      exact askInitBatch_fresh hg hi hphase.2 he.cands
    · rename_i hphase
      split at h
      · cases h
      · rename_i hm0
        have hrand : s.randomPhase = false := by
          have : ¬ (s.randomPhase = true) := fun hr => hphase ⟨Nat.pos_of_ne_zero hm0, hr⟩
          simpa using this
        split at h
        · rename_i l hl
          rw [show strat.isOneShot = false from hst] at hl
          cases hl
        · split at h
          · rename_i x0 hx0
            have hx0' : s.nextX = some x0 := by
              split at hx0
              · exact hx0
              · cases hx0
            have hq := askQ_fresh hg (hn hrand) hx0' he.cands he.orders h
            obtain ⟨X, _, rfl, _⟩ := askQ_ok h
            exact ⟨hq.1, hq.2, initOK_of_not_random _ hrand⟩
          · rw [hcache] at h
            have hq := askCL_fresh hg hi he h
            obtain ⟨opt, smp, _, _, rfl⟩ := askCL_ok h
            exact ⟨hq.1, hq.2, initOK_of_not_random _ hrand⟩

/-- the state between two calls of the ask/tell interface: the bookkeeping invariant, and — when
no configuration was asked since the last tell — a fresh `_next_x` and an empty cache -/
structure Bnd (C : List α → Prop) (c : Cbo α) (H : List α) : Prop where
  good : Good c.opt H
  init : InitOK c.opt H
  ready : c.asked = false → NextOK C c.opt H ∧ c.opt.cache = none
  strat : c.strat.c08

/-- contract of the environment of one call -/
def OpRT (C : List α → Prop) (ops : Ops α τ) : Op α τ → Prop
  | .ask _ env => AskRT C ops env
  | .tell _ e => FitRT C ops e

/-- contract of the environment of one round -/
structure RoundRT (C : List α → Prop) (ops : Ops α τ) (r : Round α τ) : Prop where
  ask : AskRT C ops r.askEnv
  tell : FitRT C ops r.tellEnv

theorem cboTell_next {c c' : Cbo α} {results : List (α × Res)} {e : Fit α τ} {H : List α}
    (hg : Good c.opt H) (hi : InitOK c.opt H) (hst : c.strat.c08) (he : FitRT C ops e)
    (h : cboTell ops c results e = .ok c') : Bnd C c' H := by
  obtain ⟨o, rfl, ⟨_, hu⟩ | ⟨_, ht⟩⟩ := cboTell_ok h
  · have ⟨h1, h2, h3⟩ := updateNext_next hg he hu
    exact ⟨h1, updateNext_initOK hi hu, fun _ => ⟨h3, h2⟩, hst⟩
  · have ⟨h1, h2, h3⟩ := tellCore_nextOK hg he (tell_ok ht).2
    exact ⟨h1, tellCore_initOK hi (tell_ok ht).2, fun _ => ⟨h3, h2⟩, hst⟩

theorem cboAsk_fresh {c c' : Cbo α} {n : Nat} {env : AskEnv α τ} {Z : List (Sel α)} {H : List α}
    (hb : Bnd C c H) (he : AskRT C ops env) (h : cboAsk ops c n env = .ok (c', Z)) :
    SelsOK C H Z ∧ Bnd C c' (H ++ Z.map (·.x)) := by
  obtain ⟨o0, o, h0, hask, rfl⟩ := cboAsk_ok h
  have h00 : Good o0 H ∧ NextOK C o0 H ∧ o0.cache = none ∧ InitOK o0 H := by
    rcases h0 with ⟨_, hu⟩ | ⟨ha, rfl⟩
    · have ⟨h1, h2, h3⟩ := updateNext_next hb.good he.refresh hu
      exact ⟨h1, h3, h2, updateNext_initOK hb.init hu⟩
    · exact ⟨hb.good, (hb.ready ha).1, (hb.ready ha).2, hb.init⟩
  have ⟨hX, hg1, hi1⟩ := ask_fresh h00.1 h00.2.2.2 h00.2.1 h00.2.2.1 hb.strat he hask
  exact ⟨hX, ⟨hg1, hi1, (fun ha => by cases ha), hb.strat⟩⟩

/-- **freshness along any sequence of ask/tell calls** -/
theorem runOps_fresh : ∀ {l : List (Op α τ)} {c c' : Cbo α} {Z : List (Sel α)} {H : List α},
    Bnd C c H → (∀ o ∈ l, OpRT C ops o) → runOps ops c l = .ok (c', Z) →
    SelsOK C H Z ∧ Bnd C c' (H ++ Z.map (·.x))
  | [], c, c', Z, H, hb, _, h => by
    simp [runOps] at h
    obtain ⟨rfl, rfl⟩ := h
    exact ⟨trivial, by simpa using hb⟩
  | .ask n env :: rest, c, c', Z, H, hb, hr, h => by
    unfold runOps at h
    split at h
    · cases h
    · rename_i c1 X ha
      split at h
      · cases h
      · rename_i c2 Y hrun
        cases h
        have ⟨hX, hb1⟩ := cboAsk_fresh hb (hr _ List.mem_cons_self) ha
        have ⟨hY, hb2⟩ := runOps_fresh hb1 (fun o h' => hr o (List.mem_cons_of_mem _ h')) hrun
        refine ⟨selsOK_append C hX hY, ?_⟩
        simpa [List.append_assoc] using hb2
  | .tell results e :: rest, c, c', Z, H, hb, hr, h => by
    unfold runOps at h
    split at h
    · cases h
    · rename_i c1 ht
      have hb1 := cboTell_next hb.good hb.init hb.strat (hr _ List.mem_cons_self) ht
      exact runOps_fresh hb1 (fun o h' => hr o (List.mem_cons_of_mem _ h')) h

theorem roundsRT_ops {rounds : List (Round α τ)} (h : ∀ r ∈ rounds, RoundRT C ops r) :
    ∀ o ∈ rounds.flatMap Round.ops, OpRT C ops o := by
  intro o ho
  obtain ⟨r, hr, hor⟩ := List.mem_flatMap.1 ho
  simp only [Round.ops, List.mem_cons, List.not_mem_nil, or_false] at hor
  rcases hor with rfl | rfl
  · exact (h r hr).ask
  · exact (h r hr).tell

/-- index form of `SelsOK`: the `i`-th proposal is an initial point never proposed before, or
was selected from a list satisfying `C` which was exhausted if the proposal is a repetition -/
theorem selsOK_index : ∀ {Z : List (Sel α)} {H : List α}, SelsOK C H Z →
    ∀ (i : Nat) (hi : i < Z.length),
      (Z[i].offered = [] ∧ Z[i].x ∉ H ++ (Z.take i).map (·.x)) ∨
      (C Z[i].offered ∧
        (Z[i].x ∈ H ++ (Z.take i).map (·.x) → ∀ c ∈ Z[i].offered, c ∈ H ++ (Z.take i).map (·.x)))
  | [], _, _, i, hi => by simp at hi
  | z :: Z, H, h, 0, _ => by
    have := h.1
    unfold SelOK at this
    simpa using this
  | z :: Z, H, h, i + 1, hi => by
    have := selsOK_index h.2 i (by simpa using hi)
    simpa [List.append_assoc] using this

end fresh3


theorem startInit_bnd (C : List α → Prop) (nInit : Int) (dummy : Bool) (strat : Strategy)
    (ign : Bool) (init : List α) (hst : strat.c08) (hnd : init.Nodup) :
    Bnd C (Cbo.startInit (α := α) nInit dummy strat ign init) [] :=
  ⟨⟨rfl, fun _ => Iff.rfl, by simp [Cbo.startInit, Opt.init, nonFail]⟩,
   fun _ => ⟨hnd, fun _ _ h => by cases h⟩,
   fun _ => ⟨(by intro _ x hx; cases hx), rfl⟩, hst⟩

theorem start_bnd (C : List α → Prop) (nInit : Int) (dummy : Bool) (strat : Strategy)
    (ign : Bool) (hst : strat.c08) : Bnd C (Cbo.start (α := α) nInit dummy strat ign) [] :=
  startInit_bnd C nInit dummy strat ign [] hst List.nodup_nil


theorem nodup_of_not_mem_take {β : Type} (L : List β)
    (h : ∀ i (hi : i < L.length), L[i] ∉ L.take i) : L.Nodup := by
  rw [List.Nodup, List.pairwise_iff_getElem]
  intro i j hi hj hij heq
  apply h j hj
  rw [← heq, List.mem_take_iff_getElem]
  exact ⟨i, by omega, rfl⟩


end DH.Ask
