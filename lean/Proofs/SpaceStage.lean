import Proofs.SpaceBasic

/-! Stage-level lemmas for C09: what each transformer does to a column of members. -/

namespace DH.Space

/-! ### pipelines -/

theorem identity_transform (L : Rat → Rat) (c : Col) : Stage.transform L .identity c = .ok c := by
  cases c <;> rfl

theorem identity_inverse (E : Rat → Rat) (c : Col) : Stage.inverse E .identity c = .ok c := by
  cases c <;> rfl

theorem runTransform_one (L : Rat → Rat) (s : Stage) (c c1 : Col) (h : s.transform L c = .ok c1) :
    runTransform L [s] c = .ok c1 := by
  simp [runTransform, h]

theorem runTransform_two (L : Rat → Rat) (s1 s2 : Stage) (c c1 c2 : Col)
    (h1 : s1.transform L c = .ok c1) (h2 : s2.transform L c1 = .ok c2) :
    runTransform L [s1, s2] c = .ok c2 := by
  simp [runTransform, h1, h2]

theorem runInverse_one (E : Rat → Rat) (s : Stage) (c c1 : Col) (h : s.inverse E c = .ok c1) :
    runInverse E [s] c = .ok c1 := by
  simp [runInverse, h]

theorem runInverse_two (E : Rat → Rat) (s1 s2 : Stage) (c c1 c2 : Col)
    (h1 : s1.inverse E c = .ok c1) (h2 : s2.inverse E c1 = .ok c2) :
    runInverse E [s1, s2] c = .ok c2 := by
  simp [runInverse, h1, h2]

/-! ### transform -/

theorem logN_transform (L : Rat → Rat) (l : List Val) (xs : List Rat)
    (h : nums .valueError l = .ok xs) :
    Stage.transform L .logN (.vals l) = .ok (.vals (xs.map (fun x => .num (L x)))) := by
  simp [Stage.transform, h]

theorem any_false_of_forall {α : Type} (p : α → Bool) (l : List α) (h : ∀ x ∈ l, p x = false) :
    l.any p = false := by
  rw [List.any_eq_false]
  intro x hx
  simp [h x hx]

theorem normalize_transform (L : Rat → Rat) (lo hi : Rat) (l : List Val) (xs : List Rat)
    (h : nums .typeError l = .ok xs) (hlh : lo ≤ hi) (hb : ∀ x ∈ xs, lo ≤ x ∧ x ≤ hi) :
    Stage.transform L (.normalize lo hi false) (.vals l) =
      .ok (.vals (xs.map (fun x => .num ((x - lo) / (hi - lo))))) := by
  have h1 : xs.any (fun x => decide (hi + eps < x)) = false := by
    apply any_false_of_forall
    intro x hx
    have := (hb x hx).2
    have := eps_pos
    simp only [decide_eq_false_iff_not, not_lt]
    linarith
  have h2 : xs.any (fun x => decide (x < lo - eps)) = false := by
    apply any_false_of_forall
    intro x hx
    have := (hb x hx).1
    have := eps_pos
    simp only [decide_eq_false_iff_not, not_lt]
    linarith
  simp only [Stage.transform, h, h1, h2]
  by_cases hz : hi - lo = 0
  · simp [hz]
  · simp [hz]

theorem normalize_int_transform (L : Rat → Rat) (lo hi : Rat) (is : List Int) (hlh : lo ≤ hi)
    (hb : ∀ i ∈ is, lo ≤ (i : Rat) ∧ (i : Rat) ≤ hi) :
    Stage.transform L (.normalize lo hi true) (.vals (is.map Val.int)) =
      .ok (.vals (is.map (fun (i : Int) => Val.num (((i : Rat) - lo) / (hi - lo))))) := by
  have h := nums_map_int .typeError is
  have h1 : (is.map (fun (i : Int) => (i : Rat))).any
      (fun x => decide (hi < ((roundHalfEven x : Int) : Rat))) = false := by
    apply any_false_of_forall
    intro x hx
    obtain ⟨i, hi', rfl⟩ := List.mem_map.mp hx
    simp only [roundHalfEven_intCast, decide_eq_false_iff_not, not_lt]
    exact (hb i hi').2
  have h2 : (is.map (fun (i : Int) => (i : Rat))).any
      (fun x => decide (((roundHalfEven x : Int) : Rat) < lo)) = false := by
    apply any_false_of_forall
    intro x hx
    obtain ⟨i, hi', rfl⟩ := List.mem_map.mp hx
    simp only [roundHalfEven_intCast, decide_eq_false_iff_not, not_lt]
    exact (hb i hi').1
  simp only [Stage.transform, h, h1, h2]
  by_cases hz : hi - lo = 0
  · simp [hz, List.map_map, Function.comp_def]
  · simp [hz, List.map_map, Function.comp_def, roundHalfEven_intCast]

theorem label_transform (L : Rat → Rat) (cats l : List Val) (h : ∀ v ∈ l, v ∈ cats) :
    Stage.transform L (.labelEncoder cats) (.vals l) =
      .ok (.vals (l.map (fun v => .int ((sortU cats).idxOf v : Nat)))) := by
  have := mapE_ok_map
    (fun v => if v ∈ sortU cats then .ok (Val.int ((sortU cats).idxOf v : Nat)) else .error Err.keyError)
    (fun v => Val.int ((sortU cats).idxOf v : Nat)) l
    (by intro v hv; simp [(mem_sortU v cats).mpr (h v hv)])
  simp [Stage.transform, this]

theorem onehot_transform (L : Rat → Rat) (cats l : List Val) (h : ∀ v ∈ l, v ∈ cats) :
    Stage.transform L (.oneHot cats) (.vals l) =
      .ok (.mat (l.map (fun v => binarize cats.length (cats.idxOf v)))) := by
  have := mapE_ok_map
    (fun v => if v ∈ cats then .ok (binarize cats.length (cats.idxOf v)) else .error Err.keyError)
    (fun v => binarize cats.length (cats.idxOf v)) l
    (by intro v hv; simp [h v hv])
  simp [Stage.transform, this]

/-! ### inverse -/

theorem logN_inverse (E : Rat → Rat) (ts : List Rat) :
    Stage.inverse E .logN (.vals (ts.map Val.num)) = .ok (.vals (ts.map (fun t => .num (E t)))) := by
  simp [Stage.inverse, nums_map_num]

theorem normalize_inverse (E : Rat → Rat) (lo hi : Rat) (b : Bool) (ts : List Rat)
    (hb : ∀ t ∈ ts, 0 ≤ t ∧ t ≤ 1) :
    Stage.inverse E (.normalize lo hi b) (.vals (ts.map Val.num)) =
      .ok (.vals (ts.map (fun t =>
        if b then .int (roundHalfEven (t * (hi - lo) + lo)) else .num (t * (hi - lo) + lo)))) := by
  have h1 : ts.any (fun x => decide (1 + eps < x)) = false := by
    apply any_false_of_forall
    intro x hx
    have := (hb x hx).2
    have := eps_pos
    simp only [decide_eq_false_iff_not, not_lt]
    linarith
  have h2 : ts.any (fun x => decide (x < 0 - eps)) = false := by
    apply any_false_of_forall
    intro x hx
    have := (hb x hx).1
    have := eps_pos
    simp only [decide_eq_false_iff_not, not_lt]
    linarith
  have h3 : ∀ x ∈ ts, -eps ≤ x := by
    intro x hx
    have := (hb x hx).1
    have := eps_pos
    linarith
  cases b <;> simp [Stage.inverse, nums_map_num, h1] <;> exact h3

theorem truncZero_intCast (i : Int) : truncZero (i : Rat) = i := by
  unfold truncZero
  split
  · exact Rat.floor_intCast i
  · have : (-(i : Rat)) = ((-i : Int) : Rat) := by simp
    rw [this, Rat.floor_intCast]; omega

theorem identityTyped_inverse (E : Rat → Rat) (is : List Int) :
    Stage.inverse E .identityTyped (.vals (is.map (fun (i : Int) => Val.num (i : Rat)))) =
      .ok (.vals (is.map Val.int)) := by
  have := mapE_ok_map identityTypedCell
    (fun v => match v with
        | .num q => Val.int (truncZero q)
        | v => v) (is.map (fun (i : Int) => Val.num (i : Rat)))
    (by intro v hv; obtain ⟨i, _, rfl⟩ := List.mem_map.mp hv; rfl)
  simp [Stage.inverse, this, List.map_map, Function.comp_def, truncZero_intCast]

end DH.Space
