import Proofs.Storage

/-! C13: every method call commutes with the abstraction to the simple map (`Spec`), and answers what
the map says it must. -/

namespace DH.Storage

theorem Spec.ext' {a b : Spec} (h1 : ∀ s, a.vals s = b.vals s) (h2 : ∀ s p, a.jobs s p = b.jobs s p) : a = b := by
  cases a; cases b
  simp only [Spec.mk.injEq]
  exact ⟨funext h1, funext fun s => funext fun p => h2 s p⟩

theorem recOf_aset (k : String) (v : Val) (d : List (String × Val)) :
    recOf (aset k v d) = upd (recOf d) k (some v) := by
  funext x
  simp [recOf, upd, aget_aset]

theorem recOf_nil : recOf [] = fun _ => none := rfl

/-! ### the abstraction of the four kinds of change -/

theorem abs_newSearch (s : Store) (w : WF s) :
    abs { searchCounter := s.searchCounter + 1, data := aset (Nat.repr s.searchCounter) ⟨0, [], []⟩ s.data } =
      { vals := upd (abs s).vals (Nat.repr s.searchCounter) (some (fun _ => none)),
        jobs := fun x p => if x = Nat.repr s.searchCounter then none else (abs s).jobs x p } := by
  apply Spec.ext'
  · intro x
    simp only [abs, aget_aset, upd]
    split <;> simp [recOf_nil]
  · intro x p
    simp only [abs, aget_aset]
    split <;> simp [aget]

theorem abs_data_set {s : Store} {sid : String} {S S' : Search} (hS : aget sid s.data = some S)
    (hfree : S'.free = S.free) :
    abs { s with data := aset sid S' s.data } =
      { abs s with jobs := fun x p => if x = sid then (aget p S'.jobs).map recOf else (abs s).jobs x p } := by
  apply Spec.ext'
  · intro x
    simp only [abs, aget_aset]
    split
    · rename_i e; subst e; simp [hS, hfree]
    · rfl
  · intro x p
    simp only [abs, aget_aset]
    split <;> simp

theorem abs_setJobs {s : Store} {sid pid : String} {S : Search} (j' : Job) (hS : aget sid s.data = some S)
    (c : Nat) :
    abs { s with data := aset sid { S with counter := c, jobs := aset pid j' S.jobs } s.data } =
      { abs s with jobs := fun x p => if x = sid ∧ p = pid then some (recOf j') else (abs s).jobs x p } := by
  rw [abs_data_set (S' := { S with counter := c, jobs := aset pid j' S.jobs }) hS rfl]
  apply Spec.ext'
  · intro x; rfl
  · intro x p
    simp only
    by_cases hx : x = sid
    · subst hx
      simp only [true_and, if_true, aget_aset]
      split
      · simp
      · simp [abs, hS]
    · simp [hx]

theorem abs_putJob {s : Store} {sid pid : String} {S : Search} (j' : Job) (hS : aget sid s.data = some S) :
    abs (putJob s sid pid S j') =
      { abs s with jobs := fun x p => if x = sid ∧ p = pid then some (recOf j') else (abs s).jobs x p } :=
  abs_setJobs j' hS S.counter

theorem abs_jobs_of {s : Store} {sid pid : String} {S : Search} {j : Job}
    (hS : aget sid s.data = some S) (hj : aget pid S.jobs = some j) : (abs s).jobs sid pid = some (recOf j) := by
  simp [abs, hS, hj]

theorem abs_vals_of {s : Store} {sid : String} {S : Search} (hS : aget sid s.data = some S) :
    (abs s).vals sid = some (recOf S.free) := by
  simp [abs, hS]

theorem abs_vals_none {s : Store} {sid : String} (hS : aget sid s.data = none) : (abs s).vals sid = none := by
  simp [abs, hS]

theorem abs_jobs_none_of_search {s : Store} {sid : String} (hS : aget sid s.data = none) (pid : String) :
    (abs s).jobs sid pid = none := by
  simp [abs, hS]

/-! ### stores -/

theorem findJob_error_abs {s : Store} {jid : String} {e : Err} (h : findJob s jid = .error e) :
    (parseJobId jid = none ∧ e = .valueError) ∨
    (∃ sid pid, parseJobId jid = some (sid, pid) ∧ (abs s).jobs sid pid = none ∧ e = .keyError) := by
  unfold findJob at h
  split at h
  · cases h; exact Or.inl ⟨by assumption, rfl⟩
  · rename_i sid pid hp
    split at h
    · rename_i hS
      cases h
      exact Or.inr ⟨sid, pid, hp, abs_jobs_none_of_search hS pid, rfl⟩
    · rename_i S hS
      split at h
      · rename_i hj
        cases h
        exact Or.inr ⟨sid, pid, hp, by simp [abs, hS, hj], rfl⟩
      · cases h

theorem storeJob_abs (s : Store) (jid key : String) (v : Val) :
    (∃ e, (storeJob s jid key v).2 = .error e ∧ (storeJob s jid key v).1 = s) ∨
    ((storeJob s jid key v).2 = .none ∧ abs (storeJob s jid key v).1 = (abs s).storeKey jid key v) := by
  unfold storeJob
  split
  · rename_i e _; exact Or.inl ⟨e, rfl, rfl⟩
  · rename_i sid pid S j h
    obtain ⟨hp, hS, hj⟩ := findJob_ok h
    right
    refine ⟨rfl, ?_⟩
    simp only [Spec.storeKey, hp, Spec.setKey]
    rw [abs_putJob _ hS]
    apply Spec.ext'
    · intro x; rfl
    · intro x p
      simp only
      split
      · rename_i hxp
        rw [hxp.1, hxp.2, abs_jobs_of hS hj, recOf_aset]; rfl
      · rfl

theorem storeJob_answer (s : Store) (jid key : String) (v : Val) :
    (abs s).storeAnswer jid (storeJob s jid key v).2 := by
  unfold storeJob
  rcases h : findJob s jid with e | ⟨sid, pid, S, j⟩
  · simp only [Spec.storeAnswer]
    rcases findJob_error_abs h with ⟨hp, he⟩ | ⟨sid, pid, hp, hj, he⟩
    · simp [hp, he]
    · simp [hp, hj, he]
  · obtain ⟨hp, hS, hj⟩ := findJob_ok h
    simp [Spec.storeAnswer, hp, abs_jobs_of hS hj]


theorem storeJobMetadata_eq {s : Store} {jid key : String} {v : Val} {sid pid : String} {S : Search} {j : Job}
    {m : List (String × Val)} (h : findJob s jid = .ok (sid, pid, S, j)) (hm : aget "metadata" j = some (.dict m)) :
    storeJobMetadata s jid key v = storeJob s jid "metadata" (.dict (aset key v m)) := by
  simp [storeJobMetadata, storeJob, h, hm]

theorem abs_recOfJob {s : Store} {jid sid pid : String} {S : Search} {j : Job}
    (h : findJob s jid = .ok (sid, pid, S, j)) : (abs s).recOfJob jid = some (recOf j) := by
  obtain ⟨hp, hS, hj⟩ := findJob_ok h
  simp [Spec.recOfJob, hp, abs_jobs_of hS hj]

theorem abs_setFree {s : Store} {sid : String} {S : Search} (hS : aget sid s.data = some S) (key : String) (v : Val) :
    abs { s with data := aset sid { S with free := aset key v S.free } s.data } =
      { abs s with vals := fun x => if x = sid then ((abs s).vals x).map (fun r => upd r key (some v)) else (abs s).vals x } := by
  apply Spec.ext'
  · intro x
    simp only [abs, aget_aset]
    split
    · rename_i e; subst e; simp [hS, recOf_aset]
    · rfl
  · intro x p
    simp only [abs, aget_aset]
    split
    · rename_i e; subst e; simp [hS]
    · rfl

/-- **state part of the refinement**: the abstraction of the store after a call is the map updated as the
specification says for the answer the call gave -/
theorem abs_step (s : Store) (w : WF s) (op : Op) (hin : op.inScope = true) :
    abs (step s op).1 = (abs s).next op (step s op).2 := by
  cases op with
  | createSearch =>
    simp only [step, createSearch, Spec.next]
    exact abs_newSearch s w
  | createJob sid =>
    simp only [step, createJob]
    split
    · rfl
    · rename_i S hS
      obtain ⟨k, _, hk⟩ := w.sids sid S hS
      have hp : parseJobId (jobId sid (Nat.repr S.counter)) = some (sid, Nat.repr S.counter) :=
        parseJobId_jobId (hk ▸ repr_nodot k) (repr_nodot _)
      simp only [Spec.next, hp]
      exact abs_setJobs newJob hS (S.counter + 1)
  | storeJob jid key v =>
    simp only [step]
    rcases storeJob_abs s jid key v with ⟨e, h1, h2⟩ | ⟨h1, h2⟩
    · rw [h1, h2]; rfl
    · rw [h1, h2]; rfl
  | storeJobIn jid a k =>
    simp only [step]
    rcases storeJob_abs s jid "in" (.dict [("args", a), ("kwargs", k)]) with ⟨e, h1, h2⟩ | ⟨h1, h2⟩
    · rw [h1, h2]; rfl
    · rw [h1, h2]; rfl
  | storeJobOut jid v =>
    simp only [step]
    rcases storeJob_abs s jid "out" v with ⟨e, h1, h2⟩ | ⟨h1, h2⟩
    · rw [h1, h2]; rfl
    · rw [h1, h2]; rfl
  | storeJobStatus jid v =>
    simp only [step]
    rcases storeJob_abs s jid "status" v with ⟨e, h1, h2⟩ | ⟨h1, h2⟩
    · rw [h1, h2]; rfl
    · rw [h1, h2]; rfl
  | storeJobMetadata jid key v =>
    simp only [step]
    rcases h : findJob s jid with e | ⟨sid, pid, S, j⟩
    · simp [storeJobMetadata, h, Spec.next]
    · rcases hm : aget "metadata" j with _ | mv
      · simp [storeJobMetadata, h, hm, Spec.next]
      · cases mv with
        | dict m =>
          rw [storeJobMetadata_eq h hm]
          have hb : ((abs s).recOfJob jid).bind (· "metadata") = some (.dict m) := by
            rw [abs_recOfJob h]; simpa [recOf] using hm
          rcases storeJob_abs s jid "metadata" (.dict (aset key v m)) with ⟨e, h1, h2⟩ | ⟨h1, h2⟩
          · simp [storeJob, h] at h1
          · rw [h1, h2]; simp only [Spec.next, hb]
        | none => simp [storeJobMetadata, h, hm, Spec.next]
        | bool b => simp [storeJobMetadata, h, hm, Spec.next]
        | int i => simp [storeJobMetadata, h, hm, Spec.next]
        | num q => simp [storeJobMetadata, h, hm, Spec.next]
        | str x => simp [storeJobMetadata, h, hm, Spec.next]
        | list l => simp [storeJobMetadata, h, hm, Spec.next]
        | tuple l => simp [storeJobMetadata, h, hm, Spec.next]
  | storeSearchValue sid key v =>
    simp only [Op.inScope, Bool.not_eq_true'] at hin
    simp only [step]
    split
    · rfl
    · rename_i S hS
      simp only [hin, Bool.false_eq_true, if_false, Spec.next]
      exact abs_setFree hS key v
  | loadAllSearchIds => rfl
  | loadAllJobIds sid => simp only [step]; split <;> rfl
  | loadSearch sid => simp only [step]; split <;> rfl
  | loadJob jid => simp only [step]; cases findJob s jid <;> rfl
  | loadSearchValue sid key => simp only [step]; split <;> (try split) <;> rfl
  | loadMetadataFromAllJobs sid key =>
    simp only [step]; split
    · rfl
    · cases collectMeta key _ <;> rfl
  | loadOutFromAllJobs sid =>
    simp only [step]; split
    · rfl
    · cases collectOut _ <;> rfl
  | loadJobs jids => simp only [step]; cases collectJobs s jids [] <;> rfl
  | loadJobStatus jid => simp only [step]; split <;> (try split) <;> rfl


/-! ### answers -/

theorem aget_map_val {α β : Type} (f : α → β) (k : String) :
    ∀ l : List (String × α), aget k (l.map (fun (p, j) => (p, f j))) = (aget k l).map f
  | [] => rfl
  | (a, w) :: r => by
    by_cases h : a = k
    · simp [aget, h]
    · simp [aget, h, aget_map_val f k r]

theorem aget_of_mem_keys_ne {α : Type} {k k0 : String} {v0 : α} {r : List (String × α)}
    (hnd : (keys ((k0, v0) :: r)).Nodup) (h : (aget k r).isSome) : k0 ≠ k := by
  intro e; subst e
  have hm := (mem_keys_iff _ r).2 h
  simp only [keys, List.map_cons, List.nodup_cons] at hnd
  exact hnd.1 hm

theorem collectOut_spec : ∀ (jobs : List (String × Job)) (vs : List Val), collectOut jobs = .ok vs →
    (keys jobs).Nodup → ∀ v, v ∈ vs ↔ (isNone v = false ∧ ∃ p j, aget p jobs = some j ∧ aget "out" j = some v)
  | [], vs, h, _, v => by
    simp only [collectOut] at h; cases h
    simp [aget]
  | (p0, j0) :: r, vs, h, hnd, v => by
    simp only [collectOut] at h
    split at h
    · cases h
    · rename_i v0 hv0
      split at h
      · cases h
      · rename_i vs' hr
        have hnd' : (keys r).Nodup := by
          simp only [keys, List.map_cons, List.nodup_cons] at hnd; exact hnd.2
        have ih := collectOut_spec r vs' hr hnd' v
        cases h
        constructor
        · intro hv
          have : (v = v0 ∧ isNone v0 = false) ∨ v ∈ vs' := by
            split at hv
            · exact Or.inr hv
            · rename_i hn
              rcases List.mem_cons.1 hv with e | e
              · exact Or.inl ⟨e, by simpa using hn⟩
              · exact Or.inr e
          rcases this with ⟨e, hn⟩ | hv'
          · subst e
            exact ⟨hn, p0, j0, by simp [aget], hv0⟩
          · obtain ⟨hn, p, j, hp, ho⟩ := ih.1 hv'
            have hne : p0 ≠ p := aget_of_mem_keys_ne hnd (by simp [hp])
            exact ⟨hn, p, j, by simp [aget, hne, hp], ho⟩
        · rintro ⟨hn, p, j, hp, ho⟩
          by_cases e : p0 = p
          · subst e
            simp only [aget, if_true, Option.some.injEq] at hp
            subst hp
            rw [hv0] at ho; cases ho
            simp [hn]
          · simp only [aget, e, if_false] at hp
            have := ih.2 ⟨hn, p, j, hp, ho⟩
            split
            · exact this
            · exact List.mem_cons_of_mem _ this

theorem collectMeta_spec (key : String) : ∀ (jobs : List (String × Job)) (vs : List Val),
    collectMeta key jobs = .ok vs → (keys jobs).Nodup →
    ∀ v, v ∈ vs ↔ (isNone v = false ∧ ∃ p j m, aget p jobs = some j ∧ aget "metadata" j = some (.dict m) ∧ aget key m = some v)
  | [], vs, h, _, v => by
    simp only [collectMeta] at h; cases h
    simp [aget]
  | (p0, j0) :: r, vs, h, hnd, v => by
    simp only [collectMeta] at h
    split at h
    · cases h
    · rename_i v0 hv0
      split at h
      · cases h
      · rename_i vs' hr
        have hnd' : (keys r).Nodup := by
          simp only [keys, List.map_cons, List.nodup_cons] at hnd; exact hnd.2
        have ih := collectMeta_spec key r vs' hr hnd' v
        -- what `metaGet` returned
        have hmeta : ∃ m, aget "metadata" j0 = some (.dict m) ∧ v0 = (aget key m).getD .none := by
          unfold metaGet at hv0
          split at hv0
          · cases hv0
          · rename_i m hm; cases hv0; exact ⟨m, hm, rfl⟩
          · cases hv0
        obtain ⟨m0, hm0, hv0'⟩ := hmeta
        cases h
        constructor
        · intro hv
          have : (v = v0 ∧ isNone v0 = false) ∨ v ∈ vs' := by
            split at hv
            · exact Or.inr hv
            · rename_i hn
              rcases List.mem_cons.1 hv with e | e
              · exact Or.inl ⟨e, by simpa using hn⟩
              · exact Or.inr e
          rcases this with ⟨e, hn⟩ | hv'
          · subst e
            refine ⟨hn, p0, j0, m0, by simp [aget], hm0, ?_⟩
            rcases hk : aget key m0 with _ | x
            · rw [hv0', hk] at hn; simp [isNone] at hn
            · rw [hv0', hk]; rfl
          · obtain ⟨hn, p, j, m, hp, hm, ho⟩ := ih.1 hv'
            have hne : p0 ≠ p := aget_of_mem_keys_ne hnd (by simp [hp])
            exact ⟨hn, p, j, m, by simp [aget, hne, hp], hm, ho⟩
        · rintro ⟨hn, p, j, m, hp, hm, ho⟩
          by_cases e : p0 = p
          · subst e
            simp only [aget, if_true, Option.some.injEq] at hp
            subst hp
            rw [hm0] at hm; cases hm
            have : v0 = v := by rw [hv0', ho]; rfl
            subst this
            simp [hn]
          · simp only [aget, e, if_false] at hp
            have := ih.2 ⟨hn, p, j, m, hp, hm, ho⟩
            split
            · exact this
            · exact List.mem_cons_of_mem _ this

theorem collectJobs_spec (s : Store) : ∀ (jids : List String) (acc d : List (String × Val)),
    collectJobs s jids acc = .ok d →
    ∀ jid, aget jid d =
      if jid ∈ jids then (match findJob s jid with | .ok (_, _, _, j) => some (jobVal j) | .error _ => none)
      else aget jid acc
  | [], acc, d, h, jid => by
    simp only [collectJobs] at h; cases h; simp
  | x :: r, acc, d, h, jid => by
    simp only [collectJobs] at h
    split at h
    · cases h
    · rename_i sid pid S j hx
      have ih := collectJobs_spec s r _ d h jid
      rw [ih]
      by_cases hr : jid ∈ r
      · simp [hr]
      · simp only [hr, if_false, List.mem_cons, or_false]
        by_cases e : jid = x
        · subst e; simp [aget_aset_self, hx]
        · simp [e, aget_aset_ne _ e]

theorem collectJobs_ok_of_mem (s : Store) : ∀ (jids : List String) (acc d : List (String × Val)),
    collectJobs s jids acc = .ok d → ∀ jid ∈ jids, ∃ sid pid S j, findJob s jid = .ok (sid, pid, S, j)
  | [], _, _, _, jid, hm => by cases hm
  | x :: r, acc, d, h, jid, hm => by
    simp only [collectJobs] at h
    split at h
    · cases h
    · rename_i sid pid S j hx
      rcases List.mem_cons.1 hm with e | e
      · subst e; exact ⟨sid, pid, S, j, hx⟩
      · exact collectJobs_ok_of_mem s r _ d h jid e

/-- **output part of the refinement**: every call answers what the map says it must -/
theorem step_answers (s : Store) (w : WF s) (op : Op) (hin : op.inScope = true) :
    (abs s).answers op (step s op).2 := by
  cases op with
  | createSearch =>
    refine ⟨Nat.repr s.searchCounter, rfl, ?_⟩
    apply abs_vals_none
    rcases h : aget (Nat.repr s.searchCounter) s.data with _ | S
    · rfl
    · obtain ⟨k, hk, e⟩ := w.sids _ S h
      have := repr_inj e; omega
  | createJob sid =>
    simp only [Spec.answers, step, createJob]
    rcases hS : aget sid s.data with _ | S
    · simp [abs_vals_none hS]
    · simp only [abs_vals_of hS]
      obtain ⟨k, _, hk⟩ := w.sids sid S hS
      refine ⟨Nat.repr S.counter, rfl, parseJobId_jobId (hk ▸ repr_nodot k) (repr_nodot _), ?_⟩
      rcases hx : aget (Nat.repr S.counter) S.jobs with _ | j
      · simp [abs, hS, hx]
      · obtain ⟨k', hk', e⟩ := w.pids _ S hS _ j hx
        have := repr_inj e; omega
  | storeJob jid key v => exact storeJob_answer s jid key v
  | storeJobIn jid a k => exact storeJob_answer s jid _ _
  | storeJobOut jid v => exact storeJob_answer s jid _ _
  | storeJobStatus jid v => exact storeJob_answer s jid _ _
  | storeJobMetadata jid key v =>
    simp only [Spec.answers, step, storeJobMetadata]
    rcases h : findJob s jid with e | ⟨sid, pid, S, j⟩
    · rcases findJob_error_abs h with ⟨hp, he⟩ | ⟨sid, pid, hp, hj, he⟩
      · simp [hp, he]
      · simp [hp, hj, he]
    · obtain ⟨hp, hS, hj⟩ := findJob_ok h
      simp only [hp, abs_jobs_of hS hj, recOf]
      rcases hm : aget "metadata" j with _ | mv
      · simp
      · cases mv <;> simp
  | storeSearchValue sid key v =>
    simp only [Op.inScope, Bool.not_eq_true'] at hin
    simp only [Spec.answers, step]
    rcases hS : aget sid s.data with _ | S
    · simp [abs_vals_none hS]
    · simp [abs_vals_of hS, hin]
  | loadAllSearchIds =>
    refine ⟨keys s.data, rfl, fun sid => ?_⟩
    rw [mem_keys_iff]
    simp only [abs]
    cases aget sid s.data <;> simp
  | loadAllJobIds sid =>
    simp only [Spec.answers, step]
    rcases hS : aget sid s.data with _ | S
    · simp [abs_vals_none hS]
    · simp only [abs_vals_of hS]
      refine ⟨_, rfl, fun x => ?_⟩
      simp only [List.mem_map]
      constructor
      · rintro ⟨pid, hp, e⟩
        refine ⟨pid, e.symm, ?_⟩
        have := (mem_keys_iff pid S.jobs).1 hp
        simp only [abs, hS, Option.bind_some]
        cases h : aget pid S.jobs <;> simp_all
      · rintro ⟨pid, e, hp⟩
        refine ⟨pid, (mem_keys_iff pid S.jobs).2 ?_, e.symm⟩
        simp only [abs, hS, Option.bind_some] at hp
        cases h : aget pid S.jobs <;> simp_all
  | loadSearch sid =>
    simp only [Spec.answers, step]
    rcases hS : aget sid s.data with _ | S
    · simp [abs_vals_none hS]
    · simp only [abs_vals_of hS, jobsVal]
      refine ⟨_, rfl, fun pid => ?_⟩
      rw [aget_map_val jobVal pid S.jobs]
      rcases hj : aget pid S.jobs with _ | j
      · simp [abs, hS, hj]
      · simp only [abs, hS, hj, Option.map_some, Option.bind_some, jobVal]
        intro k; rfl
  | loadJob jid =>
    simp only [Spec.answers, step]
    rcases h : findJob s jid with e | ⟨sid, pid, S, j⟩
    · rcases findJob_error_abs h with ⟨hp, he⟩ | ⟨sid, pid, hp, hj, he⟩
      · simp [hp, he, outOfExcept]
      · simp [hp, hj, he, outOfExcept]
    · obtain ⟨hp, hS, hj⟩ := findJob_ok h
      simp only [hp, abs_jobs_of hS hj, outOfExcept, jobVal]
      exact ⟨j, rfl, fun k => rfl⟩
  | loadSearchValue sid key =>
    simp only [Spec.answers, step]
    rcases hS : aget sid s.data with _ | S
    · simp [abs_vals_none hS]
    · simp only [abs_vals_of hS]
      by_cases hr : reservedKey key = true
      · simp [hr]
      · have hr' : reservedKey key = false := by simpa using hr
        have h1 : key ≠ "job_id_counter" := by intro e; subst e; simp [reservedKey] at hr'
        have h2 : key ≠ "data" := by intro e; subst e; simp [reservedKey] at hr'
        simp only [hr', Bool.false_eq_true, if_false, searchGet, h1, h2, recOf]
        cases aget key S.free <;> simp
  | loadMetadataFromAllJobs sid key =>
    simp only [Spec.answers, step]
    rcases hS : aget sid s.data with _ | S
    · simp [abs_vals_none hS]
    · simp only [abs_vals_of hS]
      intro l hl v
      rcases hc : collectMeta key S.jobs with e | vs
      · simp [hc, outOfExcept] at hl
      · simp only [hc, outOfExcept, Out.vals.injEq] at hl
        subst hl
        rw [collectMeta_spec key S.jobs vs hc (w.nodup sid S hS) v]
        constructor
        · rintro ⟨hn, p, j, m, hp, hm, ho⟩
          exact ⟨hn, p, recOf j, m, abs_jobs_of hS hp, hm, ho⟩
        · rintro ⟨hn, p, r, m, hp, hm, ho⟩
          simp only [abs, hS, Option.bind_some] at hp
          rcases hj : aget p S.jobs with _ | j
          · simp [hj] at hp
          · simp only [hj, Option.map_some, Option.some.injEq] at hp
            subst hp
            exact ⟨hn, p, j, m, hj, hm, ho⟩
  | loadOutFromAllJobs sid =>
    simp only [Spec.answers, step]
    rcases hS : aget sid s.data with _ | S
    · simp [abs_vals_none hS]
    · simp only [abs_vals_of hS]
      intro l hl v
      rcases hc : collectOut S.jobs with e | vs
      · simp [hc, outOfExcept] at hl
      · simp only [hc, outOfExcept, Out.vals.injEq] at hl
        subst hl
        rw [collectOut_spec S.jobs vs hc (w.nodup sid S hS) v]
        constructor
        · rintro ⟨hn, p, j, hp, ho⟩
          exact ⟨hn, p, recOf j, abs_jobs_of hS hp, ho⟩
        · rintro ⟨hn, p, r, hp, ho⟩
          simp only [abs, hS, Option.bind_some] at hp
          rcases hj : aget p S.jobs with _ | j
          · simp [hj] at hp
          · simp only [hj, Option.map_some, Option.some.injEq] at hp
            subst hp
            exact ⟨hn, p, j, hj, ho⟩
  | loadJobs jids =>
    simp only [Spec.answers, step]
    intro d hd jid
    rcases hc : collectJobs s jids [] with e | d'
    · simp [hc, outOfExcept] at hd
    · simp only [hc, outOfExcept, Out.val.injEq, Val.dict.injEq] at hd
      subst hd
      rw [collectJobs_spec s jids [] d' hc jid]
      by_cases hm : jid ∈ jids
      · obtain ⟨sid, pid, S, j, hf⟩ := collectJobs_ok_of_mem s jids [] d' hc jid hm
        simp only [hm, if_true, hf, jobVal]
        exact ⟨trivial, recOf j, abs_recOfJob hf, fun k => rfl⟩
      · simp [hm, aget]
  | loadJobStatus jid =>
    simp only [Spec.answers, step]
    rcases h : findJob s jid with e | ⟨sid, pid, S, j⟩
    · rcases findJob_error_abs h with ⟨hp, he⟩ | ⟨sid, pid, hp, hj, he⟩
      · simp [hp, he]
      · simp [hp, hj, he]
    · obtain ⟨hp, hS, hj⟩ := findJob_ok h
      simp only [hp, abs_jobs_of hS hj, recOf]
      cases aget "status" j <;> simp

end DH.Storage
