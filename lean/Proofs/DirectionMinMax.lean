import Proofs.DirectionInv

/-! Helper lemmas for C05, part 5: `MinMaxScaler` is invariant under a constant shift of the
columns, and under a positive rescaling as long as no column range crosses the
`10·eps` threshold below which scikit-learn treats the range as zero. -/

namespace DH.Direction

open List (Forall₂)

theorem rmax_add (a b c : Rat) : rmax (a + c) (b + c) = rmax a b + c := by
  unfold rmax
  by_cases h : a ≤ b
  · have : a + c ≤ b + c := by linarith
    simp [h, this]
  · have : ¬ a + c ≤ b + c := by intro h'; apply h; linarith
    simp [h, this]

theorem rmax_mul_of_pos {c : Rat} (hc : 0 < c) (a b : Rat) : rmax (c * a) (c * b) = c * rmax a b := by
  unfold rmax
  by_cases h : a ≤ b
  · have : c * a ≤ c * b := by nlinarith
    simp [h, this]
  · have : ¬ c * a ≤ c * b := by intro h'; apply h; nlinarith
    simp [h, this]

/-! ### column maximum under shift / scaling (mirror of the column minimum) -/

theorem zipWith_rmax_vadd : ∀ (a b c : Vec), a.length = c.length → b.length = c.length →
    List.zipWith rmax (vadd a c) (vadd b c) = vadd (List.zipWith rmax a b) c
  | [], [], [], _, _ => rfl
  | _ :: _, _, [], h, _ => by simp at h
  | [], _, _ :: _, h, _ => by simp at h
  | _, [], _ :: _, _, h => by simp at h
  | _, _ :: _, [], _, h => by simp at h
  | x :: xs, y :: ys, z :: zs, h1, h2 => by
    have := zipWith_rmax_vadd xs ys zs (by simpa using h1) (by simpa using h2)
    simp only [vadd, List.zipWith_cons_cons] at this ⊢
    rw [this, rmax_add]

theorem foldl_rmax_vadd (c : Vec) (rs : List Vec) (acc : Vec) (hacc : acc.length = c.length)
    (hrs : ∀ r ∈ rs, r.length = c.length) :
    (rs.map (fun r => vadd r c)).foldl (List.zipWith rmax) (vadd acc c)
      = vadd (rs.foldl (List.zipWith rmax) acc) c := by
  induction rs generalizing acc with
  | nil => rfl
  | cons r rs ih =>
    have hr := hrs r (by simp)
    simp only [List.map_cons, List.foldl_cons, zipWith_rmax_vadd acc r c hacc hr]
    exact ih _ (by simp [hacc, hr]) (fun x hx => hrs x (by simp [hx]))

theorem colMax_vadd (c : Vec) (rows : List Vec) (h : ∀ r ∈ rows, r.length = c.length) :
    colMax (rows.map (fun r => vadd r c)) = (colMax rows).map (fun u => vadd u c) := by
  cases rows with
  | nil => rfl
  | cons r rs =>
    simp only [List.map_cons, colMax, Option.map_some]
    rw [foldl_rmax_vadd c rs r (h r (by simp)) (fun x hx => h x (by simp [hx]))]

theorem foldl_rmax_length (rs : List Vec) (acc : Vec) (n : Nat) (hacc : acc.length = n)
    (hrs : ∀ r ∈ rs, r.length = n) : (rs.foldl (List.zipWith rmax) acc).length = n := by
  induction rs generalizing acc with
  | nil => exact hacc
  | cons r rs ih =>
    simp only [List.foldl_cons]
    exact ih _ (by simp [hacc, hrs r (by simp)]) (fun x hx => hrs x (by simp [hx]))

theorem colMax_length {rows : List Vec} {u : Vec} (h : colMax rows = some u) (n : Nat)
    (hn : ∀ r ∈ rows, r.length = n) : u.length = n := by
  cases rows with
  | nil => simp [colMax] at h
  | cons r rs =>
    simp only [colMax, Option.some.injEq] at h; subst h
    exact foldl_rmax_length rs r n (hn r (by simp)) (fun x hx => hn x (by simp [hx]))

theorem zipWith_rmax_smul {c : Rat} (hc : 0 < c) (a b : Vec) :
    List.zipWith rmax (smul c a) (smul c b) = smul c (List.zipWith rmax a b) := by
  induction a generalizing b with
  | nil => simp [smul]
  | cons x xs ih =>
    cases b with
    | nil => simp [smul]
    | cons y ys =>
      have := ih ys
      simp only [smul, List.map_cons, List.zipWith_cons_cons] at this ⊢
      rw [this, rmax_mul_of_pos hc]

theorem foldl_rmax_smul {c : Rat} (hc : 0 < c) (rs : List Vec) (acc : Vec) :
    (rs.map (smul c)).foldl (List.zipWith rmax) (smul c acc)
      = smul c (rs.foldl (List.zipWith rmax) acc) := by
  induction rs generalizing acc with
  | nil => rfl
  | cons r rs ih =>
    simp only [List.map_cons, List.foldl_cons, zipWith_rmax_smul hc]
    exact ih _

theorem colMax_smul {c : Rat} (hc : 0 < c) (rows : List Vec) :
    colMax (rows.map (smul c)) = (colMax rows).map (smul c) := by
  cases rows with
  | nil => rfl
  | cons r rs => simp only [List.map_cons, colMax, foldl_rmax_smul hc, Option.map_some]

/-! ### one scaled row -/

/-- `X * scale_ + min_` for one row, written with the fitted `data_min_`, `data_max_` -/
def mmRow (mn mx r : Vec) : Vec :=
  List.zipWith (· + ·) (List.zipWith (· * ·) r (List.zipWith mmScale mn mx))
    (List.zipWith (fun m s => 0 - m * s) mn (List.zipWith mmScale mn mx))

theorem scaleMinMax_eq (rows : List Vec) :
    scaleMinMax rows = match colMin rows, colMax rows with
      | some mn, some mx => some (rows.map (mmRow mn mx))
      | _, _ => none := by
  unfold scaleMinMax mmRow
  rfl

theorem mmScale_vadd (a b c : Rat) : mmScale (a + c) (b + c) = mmScale a b := by
  unfold mmScale
  have : b + c - (a + c) = b - a := by ring
  simp only [this]

theorem mmRow_vadd : ∀ (r mn mx c : Vec), r.length = c.length → mn.length = c.length →
    mx.length = c.length → mmRow (vadd mn c) (vadd mx c) (vadd r c) = mmRow mn mx r
  | [], [], [], [], _, _, _ => rfl
  | _ :: _, _, _, [], h, _, _ => by simp at h
  | _, _ :: _, _, [], _, h, _ => by simp at h
  | _, _, _ :: _, [], _, _, h => by simp at h
  | [], _, _, _ :: _, h, _, _ => by simp at h
  | _, [], _, _ :: _, _, h, _ => by simp at h
  | _, _, [], _ :: _, _, _, h => by simp at h
  | x :: xs, m :: ms, M :: Ms, z :: zs, h1, h2, h3 => by
    have := mmRow_vadd xs ms Ms zs (by simpa using h1) (by simpa using h2) (by simpa using h3)
    simp only [mmRow, vadd, List.zipWith_cons_cons] at this ⊢
    rw [this, mmScale_vadd]
    congr 1; ring

/-- `MinMaxScaler` output does not change when a constant vector is added to every row -/
theorem scaleMinMax_vadd (c : Vec) (rows : List Vec) (h : ∀ r ∈ rows, r.length = c.length) :
    scaleMinMax (rows.map (fun r => vadd r c)) = scaleMinMax rows := by
  rw [scaleMinMax_eq, scaleMinMax_eq, colMin_vadd c rows h, colMax_vadd c rows h]
  cases hmn : colMin rows with
  | none => rfl
  | some mn =>
    cases hmx : colMax rows with
    | none => rfl
    | some mx =>
      simp only [Option.map_some, List.map_map]
      congr 1
      apply List.map_congr_left
      intro r hr
      exact mmRow_vadd r mn mx c (h r hr) (colMin_le hmn c.length h).1 (colMax_length hmx c.length h)

/-- ranges that stay on the same side of the `10·eps` threshold when multiplied by `lam` -/
def RangesStable (lam : Rat) (mn mx : Vec) : Prop :=
  Forall₂ (fun a b => tinyRange ≤ b - a ∧ tinyRange ≤ lam * (b - a)) mn mx

theorem mmRow_smul {lam : Rat} (hl : 0 < lam) : ∀ (r mn mx : Vec), RangesStable lam mn mx →
    mmRow (smul lam mn) (smul lam mx) (smul lam r) = mmRow mn mx r
  | _, [], [], _ => by simp [mmRow, smul]
  | [], _ :: _, _ :: _, _ => by simp [mmRow, smul]
  | x :: xs, m :: ms, M :: Ms, h => by
    cases h with
    | cons hab htl =>
      have := mmRow_smul hl xs ms Ms htl
      simp only [mmRow, smul, List.map_cons, List.zipWith_cons_cons] at this ⊢
      rw [this]
      have h1 : ¬ (M - m < tinyRange) := not_lt.mpr hab.1
      have h2 : ¬ (lam * M - lam * m < tinyRange) := by
        have : lam * M - lam * m = lam * (M - m) := by ring
        rw [this]; exact not_lt.mpr hab.2
      have hpos : 0 < M - m := lt_of_lt_of_le tinyRange_pos hab.1
      have hne : M - m ≠ 0 := ne_of_gt hpos
      have hne' : lam * M - lam * m ≠ 0 := by
        have : lam * M - lam * m = lam * (M - m) := by ring
        rw [this]; exact ne_of_gt (mul_pos hl hpos)
      have hlne : lam ≠ 0 := ne_of_gt hl
      simp only [mmScale, h1, h2, if_false]
      congr 1
      have e : lam * M - lam * m = lam * (M - m) := by ring
      rw [e]
      field_simp

theorem scaleMinMax_smul {lam : Rat} (hl : 0 < lam) (rows : List Vec)
    (hst : ∀ mn mx, colMin rows = some mn → colMax rows = some mx → RangesStable lam mn mx) :
    scaleMinMax (rows.map (smul lam)) = scaleMinMax rows := by
  rw [scaleMinMax_eq, scaleMinMax_eq, colMin_smul hl, colMax_smul hl]
  cases hmn : colMin rows with
  | none => rfl
  | some mn =>
    cases hmx : colMax rows with
    | none => rfl
    | some mx =>
      simp only [Option.map_some, List.map_map]
      congr 1
      apply List.map_congr_left
      intro r _
      exact mmRow_smul hl r mn mx (hst mn mx hmn hmx)

end DH.Direction
