import Proofs.SelectGreedy

/-! C20: the executable checkers of `Model/Select.lean` decide exactly their specifications. -/

namespace DH.Select

/-- the TopK clause of the property -/
def TopKSpec (n : Nat) (losses : Nat → Rat) (k : Nat) (idx : List Nat) (ws : List Rat) : Prop :=
  idx.length = min k n ∧ idx.Nodup ∧ (∀ i ∈ idx, i < n) ∧
  (∀ i ∈ idx, ∀ j, j < n → j ∉ idx → losses i ≤ losses j) ∧ ws = List.replicate (min k n) 1

theorem checkTopK_iff (losses : List Rat) (k : Nat) (idx : List Nat) (ws : List Rat) :
    checkTopK losses k idx ws = true ↔ TopKSpec losses.length (fun i => losses.getD i 0) k idx ws := by
  simp only [checkTopK, TopKSpec, Bool.and_eq_true, beq_iff_eq, decide_eq_true_eq, List.all_eq_true,
    List.mem_range, Bool.or_eq_true, List.contains_iff_mem, and_assoc]
  constructor
  · rintro ⟨h1, h2, h3, h4, h5⟩
    refine ⟨h1, h2, h3, fun i hi j hj hnj => ?_, h5⟩
    rcases h4 i hi j hj with h | h
    · exact absurd h hnj
    · exact h
  · rintro ⟨h1, h2, h3, h4, h5⟩
    refine ⟨h1, h2, h3, fun i hi j hj => ?_, h5⟩
    by_cases hm : j ∈ idx
    · exact Or.inl hm
    · exact Or.inr (h4 i hi j hj hm)

/-- the well-formedness clause of the property for greedy selection (weights sum to one up to `tol`) -/
def GreedyOutSpec (tol : Rat) (n bound : Nat) (idx : List Nat) (ws : List Rat) : Prop :=
  idx.Nodup ∧ (∀ i ∈ idx, i < n) ∧ idx ≠ [] ∧ idx.length ≤ bound ∧ ws.length = idx.length ∧
  (∀ w ∈ ws, 0 < w) ∧ ws.sum - 1 ≤ tol ∧ 1 - ws.sum ≤ tol

theorem checkGreedyOut_iff (tol : Rat) (n bound : Nat) (idx : List Nat) (ws : List Rat) :
    checkGreedyOut tol n bound idx ws = true ↔ GreedyOutSpec tol n bound idx ws := by
  simp [checkGreedyOut, GreedyOutSpec, and_assoc]

/-! ### histories on one selector object -/

/-- the TopK clause of the property for a history of calls on ONE selector object: as many answers as
calls, each of them the `min k n` lowest-loss members of the candidates of its own call -/
def TopKHistorySpec (k : Nat) (lossess : List (List Rat)) (outs : List (List Nat × List Rat)) : Prop :=
  lossess.length = outs.length ∧
  ∀ p ∈ lossess.zip outs, TopKSpec p.1.length (fun i => p.1.getD i 0) k p.2.1 p.2.2

theorem checkTopKHistory_iff (k : Nat) (ls : List (List Rat)) (os : List (List Nat × List Rat)) :
    checkTopKHistory k ls os = true ↔ TopKHistorySpec k ls os := by
  induction ls generalizing os with
  | nil => cases os <;> simp [checkTopKHistory, TopKHistorySpec]
  | cons l ls ih =>
    cases os with
    | nil => simp [checkTopKHistory, TopKHistorySpec]
    | cons o os =>
      simp only [checkTopKHistory, Bool.and_eq_true, checkTopK_iff, ih, TopKHistorySpec,
        List.length_cons, List.zip_cons_cons, List.mem_cons]
      constructor
      · rintro ⟨h1, h2, h3⟩
        refine ⟨by omega, fun p hp => ?_⟩
        rcases hp with rfl | hp
        · exact h1
        · exact h3 p hp
      · rintro ⟨h1, h2⟩
        exact ⟨h2 _ (Or.inl rfl), by omega, fun p hp => h2 p (Or.inr hp)⟩

theorem topKHistory_length (k : Nat) (cs : List TopKCall) : (topKHistory k cs).length = cs.length := by
  induction cs with
  | nil => rfl
  | cons c cs ih => simp [topKHistory, ih]

theorem topKHistory_append (k : Nat) (pre post : List TopKCall) :
    topKHistory k (pre ++ post) = topKHistory k pre ++ topKHistory k post := by
  induction pre with
  | nil => rfl
  | cons c cs ih => simp [topKHistory, ih]

theorem topKHistory_zip (k : Nat) (cs : List TopKCall) :
    ∀ p ∈ cs.zip (topKHistory k cs), p.2 = topK p.1.order k := by
  induction cs with
  | nil => simp [topKHistory]
  | cons c cs ih =>
    intro p hp
    simp only [topKHistory, List.zip_cons_cons, List.mem_cons] at hp
    rcases hp with rfl | hp
    · rfl
    · exact ih p hp

theorem topKHistory_spec (k : Nat) (cs : List TopKCall)
    (h : ∀ c ∈ cs, OrderOK c.losses.length (fun i => c.losses.getD i 0) c.order) :
    TopKHistorySpec k (cs.map (·.losses)) (topKHistory k cs) := by
  induction cs with
  | nil => exact ⟨rfl, by simp [topKHistory]⟩
  | cons c cs ih =>
    obtain ⟨h1, h2⟩ := ih (fun c' hc' => h c' (List.mem_cons_of_mem _ hc'))
    refine ⟨by simp [topKHistory, topKHistory_length], fun p hp => ?_⟩
    simp only [topKHistory, List.map_cons, List.zip_cons_cons, List.mem_cons] at hp
    rcases hp with rfl | hp
    · exact topK_spec (h c (List.mem_cons_self ..)) k
    · exact h2 p hp

theorem greedyHistory_length (o : Opts) (cs : List GreedyCall) : (greedyHistory o cs).length = cs.length := by
  induction cs with
  | nil => rfl
  | cons c cs ih => simp [greedyHistory, ih]

theorem greedyHistory_append (o : Opts) (pre post : List GreedyCall) :
    greedyHistory o (pre ++ post) = greedyHistory o pre ++ greedyHistory o post := by
  induction pre with
  | nil => rfl
  | cons c cs ih => simp [greedyHistory, ih]

theorem greedyHistory_zip (o : Opts) (cs : List GreedyCall) :
    ∀ p ∈ cs.zip (greedyHistory o cs), p.2 = greedy o p.1.n p.1.order p.1.L0 p.1.L p.1.bags p.1.fuel := by
  induction cs with
  | nil => simp [greedyHistory]
  | cons c cs ih =>
    intro p hp
    simp only [greedyHistory, List.zip_cons_cons, List.mem_cons] at hp
    rcases hp with rfl | hp
    · rfl
    · exact ih p hp

end DH.Select
