import Proofs.SelectGreedy

/-! C20: the executable checkers of `Model/Select.lean` decide exactly their specifications. -/

namespace DH.Select

/-- the TopK clause of the property -/
def TopKSpec (n : Nat) (losses : Nat → Rat) (k : Nat) (idx : List Nat) (ws : List Rat) : Prop :=
  idx.length = min k n ∧ idx.Nodup ∧ (∀ i ∈ idx, i < n) ∧
  (∀ i ∈ idx, ∀ j, j < n → j ∉ idx → losses i ≤ losses j) ∧ ws = List.replicate (min k n) 1

theorem checkTopK_iff (losses : List Rat) (k : Nat) (idx : List Nat) (ws : List Rat) :
    checkTopK losses k idx ws = true ↔ TopKSpec losses.length (fun i => losses.getD i 0) k idx ws := by
  simp only [checkTopK, TopKSpec, Bool.and_eq_true, beq_iff_eq, decide_eq_true_eq, List.all_eq_true,
    List.mem_range, Bool.or_eq_true, List.contains_iff_mem, and_assoc]
  constructor
  · rintro ⟨h1, h2, h3, h4, h5⟩
    refine ⟨h1, h2, h3, fun i hi j hj hnj => ?_, h5⟩
    rcases h4 i hi j hj with h | h
    · exact absurd h hnj
    · exact h
  · rintro ⟨h1, h2, h3, h4, h5⟩
    refine ⟨h1, h2, h3, fun i hi j hj => ?_, h5⟩
    by_cases hm : j ∈ idx
    · exact Or.inl hm
    · exact Or.inr (h4 i hi j hj hm)

/-- the well-formedness clause of the property for greedy selection (weights sum to one up to `tol`) -/
def GreedyOutSpec (tol : Rat) (n bound : Nat) (idx : List Nat) (ws : List Rat) : Prop :=
  idx.Nodup ∧ (∀ i ∈ idx, i < n) ∧ idx ≠ [] ∧ idx.length ≤ bound ∧ ws.length = idx.length ∧
  (∀ w ∈ ws, 0 < w) ∧ ws.sum - 1 ≤ tol ∧ 1 - ws.sum ≤ tol

theorem checkGreedyOut_iff (tol : Rat) (n bound : Nat) (idx : List Nat) (ws : List Rat) :
    checkGreedyOut tol n bound idx ws = true ↔ GreedyOutSpec tol n bound idx ws := by
  simp [checkGreedyOut, GreedyOutSpec, and_assoc]

end DH.Select
