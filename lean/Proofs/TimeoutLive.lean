import Proofs.Timeout

/-! Liveness of the waiting part of `gather` in search-only runs (for `C14_returns`). Core Lean only. -/

namespace DH.Timeout

/-! ### generic list facts -/

theorem forall_upd {P : Job → Prop} {f : Job → Job} (hf : ∀ j, P j → P (f j)) :
    ∀ (i : Nat) (l : List Job), (∀ j ∈ l, P j) → ∀ j ∈ upd f i l, P j
  | _, [], h => by simpa [upd] using h
  | 0, j :: js, h => by
    intro x hx
    simp only [upd, List.mem_cons] at hx
    rcases hx with rfl | hx
    · exact hf _ (h j (by simp))
    · exact h x (by simp [hx])
  | i + 1, j :: js, h => by
    intro x hx
    simp only [upd, List.mem_cons] at hx
    rcases hx with rfl | hx
    · exact h _ (by simp)
    · exact forall_upd hf i js (fun y hy => h y (by simp [hy])) x hx

theorem getElem?_upd_self (f : Job → Job) : ∀ (i : Nat) (l : List Job), (upd f i l)[i]? = (l[i]?).map f
  | _, [] => by simp [upd]
  | 0, j :: js => by simp [upd]
  | i + 1, j :: js => by simp [upd, getElem?_upd_self f i js]

theorem getElem?_upd_ne (f : Job → Job) : ∀ (i k : Nat) (l : List Job), i ≠ k → (upd f i l)[k]? = l[k]?
  | _, _, [], _ => by simp [upd]
  | 0, 0, _ :: _, h => absurd rfl h
  | 0, k + 1, j :: js, _ => by simp [upd]
  | i + 1, 0, j :: js, _ => by simp [upd]
  | i + 1, k + 1, j :: js, h => by
    simp only [upd, List.getElem?_cons_succ]
    exact getElem?_upd_ne f i k js (by omega)

theorem filter_length_lt {α} (p q : α → Bool) : ∀ (l : List α), (∀ x ∈ l, p x = true → q x = true) →
    (∃ k ∈ l, p k = false ∧ q k = true) → (l.filter p).length < (l.filter q).length
  | [], _, h => by obtain ⟨k, hk, _⟩ := h; simp at hk
  | a :: l, hpq, hex => by
    have hle : ∀ (m : List α), (∀ x ∈ m, p x = true → q x = true) → (m.filter p).length ≤ (m.filter q).length := by
      intro m
      induction m with
      | nil => intro _; simp
      | cons b m ih =>
        intro hm
        have := ih (fun x hx => hm x (by simp [hx]))
        simp only [List.filter_cons]
        cases hpb : p b with
        | true => simp [hm b (by simp) hpb]; omega
        | false => cases hqb : q b <;> simp <;> omega
    obtain ⟨k, hk, hpk, hqk⟩ := hex
    simp only [List.mem_cons] at hk
    simp only [List.filter_cons]
    rcases hk with rfl | hk
    · simp only [hpk, hqk, if_true, Bool.false_eq_true, if_false, List.length_cons]
      have := hle l (fun x hx => hpq x (by simp [hx]))
      omega
    · have ih := filter_length_lt p q l (fun x hx => hpq x (by simp [hx])) ⟨k, hk, hpk, hqk⟩
      cases hpa : p a with
      | true => simp [hpq a (by simp) hpa]; omega
      | false => cases hqa : q a <;> simp <;> omega

theorem exists_of_filter_lt {α} (p : α → Bool) : ∀ (l : List α), (l.filter p).length < l.length →
    ∃ x ∈ l, p x = false
  | [], h => by simp at h
  | a :: l, h => by
    cases hpa : p a with
    | false => exact ⟨a, by simp, hpa⟩
    | true =>
      simp only [List.filter_cons, hpa, if_true, List.length_cons] at h
      obtain ⟨x, hx, hpx⟩ := exists_of_filter_lt p l (by omega)
      exact ⟨x, by simp [hx], hpx⟩

/-! ### started jobs, semaphore generations -/

/-- the job's coroutine has started and is not blocked on the semaphore -/
def Go (j : Job) : Prop := j.pc ≠ .created ∧ j.pc ≠ .queued

def Started (jobs : List Job) : Prop := ∀ j ∈ jobs, Go j
def NoQueued (jobs : List Job) : Prop := ∀ j ∈ jobs, j.pc ≠ .queued
def GenLe (G : Nat) (jobs : List Job) : Prop := ∀ j ∈ jobs, j.gen ≤ G
def nCreated (jobs : List Job) : Nat := jobs.countP (fun j => decide (j.pc = .created))

theorem go_of_acquire {g now : Nat} {dl : Option Nat} {j : Job} (h : j.pc = .created ∨ j.pc = .queued) :
    Go (jAcquire g now dl j) := by
  unfold jAcquire
  rw [if_pos h]
  simp [Go, Job.write]

theorem go_keep_jAcquire (g now : Nat) (dl : Option Nat) {j : Job} (h : Go j) : Go (jAcquire g now dl j) := by
  unfold jAcquire
  split
  · next hp => exact absurd hp (by simp [h.1, h.2])
  · exact h

theorem go_jFire {j : Job} (h : Go j) : Go (jFire j) := by
  unfold jFire; split
  · simp [Go, Job.write]
  · exact h

theorem go_jReturn {j : Job} (h : Go j) : Go (jReturn j) := by
  have h1 := go_jFire h
  unfold jReturn
  simp only
  split
  · simp [Go]
  · split
    · simp [Go, Job.write]
    · exact h1

theorem go_fireDue (now : Nat) {j : Job} (h : Go j) : Go (fireDue now j) := by
  unfold fireDue; split
  · split
    · exact go_jFire h
    · exact h
  · exact h

theorem go_jOnDone {j : Job} (h : Go j) : Go (jOnDone j) := by
  unfold jOnDone; split
  · split <;> simp [Go, Job.write]
  · exact h

theorem gen_jFire (j : Job) : (jFire j).gen = j.gen := by
  unfold jFire; split <;> simp [Job.write]

theorem gen_jReturn (j : Job) : (jReturn j).gen = j.gen := by
  unfold jReturn
  simp only
  split
  · simp [gen_jFire]
  · split
    · simp [Job.write, gen_jFire]
    · exact gen_jFire j

theorem gen_fireDue (now : Nat) (j : Job) : (fireDue now j).gen = j.gen := by
  unfold fireDue; split
  · split
    · exact gen_jFire j
    · rfl
  · rfl

theorem gen_jOnDone (j : Job) : (jOnDone j).gen = j.gen := by
  unfold jOnDone; split
  · split <;> simp [Job.write]
  · rfl

theorem gen_jAcquire_le {G g now : Nat} {dl : Option Nat} {j : Job} (hg : g ≤ G) (h : j.gen ≤ G) :
    (jAcquire g now dl j).gen ≤ G := by
  unfold jAcquire; split
  · simpa [Job.write] using hg
  · exact h

theorem gen_jQueue_le {G g : Nat} {j : Job} (hg : g ≤ G) (h : j.gen ≤ G) : (jQueue g j).gen ≤ G := by
  unfold jQueue; split
  · simpa using hg
  · exact h

theorem inUse_append (g : Nat) (a b : List Job) : inUse g (a ++ b) = inUse g a + inUse g b := by
  simp [inUse]

theorem inUse_zero_of_genLt {g : Nat} {l : List Job} (h : ∀ j ∈ l, j.gen < g) : inUse g l = 0 := by
  unfold inUse
  rw [List.length_eq_zero_iff, List.filter_eq_nil_iff]
  intro j hj
  have := h j hj
  simp only [decide_eq_true_eq, not_and]
  intro hh; omega

theorem nCreated_append (a b : List Job) : nCreated (a ++ b) = nCreated a + nCreated b := by
  simp [nCreated]

theorem inUse_single_le (g : Nat) (j : Job) : inUse g [j] ≤ 1 := by
  unfold inUse
  exact Nat.le_trans (List.length_filter_le _ _) (by simp)

theorem inUse_single_created (g : Nat) {j : Job} (h : j.pc = .created) : inUse g [j] = 0 := by
  simp [inUse, h]

theorem nCreated_cons (j : Job) (js : List Job) :
    nCreated (j :: js) = nCreated js + (if j.pc = .created then 1 else 0) := by
  simp only [nCreated, List.countP_cons, decide_eq_true_eq]

/-- the first loop iteration of a gather: if no task is queued and the current semaphore has room
for every task that has not started yet, all of them acquire it — nothing is left created / queued -/
theorem startCreated_spec (W g now : Nat) (dl : Option Nat) (G : Nat) (hg : g ≤ G) :
    ∀ (js acc : List Job), Started acc → NoQueued js → GenLe G acc → GenLe G js →
      (nCreated js = 0 ∨ inUse g (acc ++ js) + nCreated js ≤ W) →
      Started (startCreated W g now dl acc js) ∧ GenLe G (startCreated W g now dl acc js)
  | [], acc, ha, _, ga, _, _ => by simpa [startCreated] using ⟨ha, ga⟩
  | j :: js, acc, ha, hq, ga, gj, hd => by
    have hq' : NoQueued js := fun y hy => hq y (by simp [hy])
    have gj' : GenLe G js := fun y hy => gj y (by simp [hy])
    have gj0 : j.gen ≤ G := gj j (by simp)
    simp only [startCreated]
    split
    · next hc =>
      have hd' : inUse g (acc ++ j :: js) + nCreated (j :: js) ≤ W := by
        rcases hd with hd | hd
        · rw [nCreated_cons, if_pos hc] at hd; omega
        · exact hd
      rw [nCreated_cons, if_pos hc] at hd'
      have hlt : inUse g (acc ++ j :: js) < W := by omega
      rw [if_pos hlt]
      apply startCreated_spec W g now dl G hg js
      · intro x hx
        simp only [List.mem_append, List.mem_singleton] at hx
        rcases hx with hx | rfl
        · exact ha x hx
        · exact go_of_acquire (Or.inl hc)
      · exact hq'
      · intro x hx
        simp only [List.mem_append, List.mem_singleton] at hx
        rcases hx with hx | rfl
        · exact ga x hx
        · exact gen_jAcquire_le hg gj0
      · exact gj'
      · right
        have e1 : inUse g (acc ++ j :: js) = inUse g acc + inUse g [j] + inUse g js := by
          rw [show acc ++ j :: js = acc ++ ([j] ++ js) by simp, inUse_append, inUse_append]; omega
        have e2 : inUse g (acc ++ [jAcquire g now dl j] ++ js) =
            inUse g acc + inUse g [jAcquire g now dl j] + inUse g js := by
          rw [inUse_append, inUse_append]
        have := inUse_single_le g (jAcquire g now dl j)
        rw [inUse_single_created g hc] at e1
        omega
    · next hc =>
      apply startCreated_spec W g now dl G hg js
      · intro x hx
        simp only [List.mem_append, List.mem_singleton] at hx
        rcases hx with hx | rfl
        · exact ha x hx
        · exact ⟨hc, hq x (by simp)⟩
      · exact hq'
      · intro x hx
        simp only [List.mem_append, List.mem_singleton] at hx
        rcases hx with hx | rfl
        · exact ga x hx
        · exact gj0
      · exact gj'
      · rw [nCreated_cons, if_neg hc] at hd
        simpa using hd

/-! ### the event loop keeps jobs started -/

theorem started_stepReturn {s s' : Ev} {G : Nat} (h : Started s.jobs) (hG : GenLe G s.jobs)
    (hs : stepReturn s = some s') : Started s'.jobs ∧ GenLe G s'.jobs := by
  unfold stepReturn at hs
  split at hs
  · simp at hs
  · next i r _ =>
    simp only [Option.some.injEq] at hs
    subst hs
    simp only
    have h1 : Started (upd jReturn i s.jobs) := forall_upd (fun j hj => go_jReturn hj) i s.jobs h
    have g1 : GenLe G (upd jReturn i s.jobs) :=
      forall_upd (P := fun j => j.gen ≤ G) (fun j hj => by rw [gen_jReturn]; exact hj) i s.jobs hG
    have hgen : ((s.jobs[i]?).map (·.gen)).getD 0 ≤ G := by
      cases hj : s.jobs[i]? with
      | none => simp
      | some j => simpa using hG j (List.mem_of_getElem? hj)
    split
    · exact ⟨forall_upd (fun j hj => go_keep_jAcquire _ _ _ hj) _ _ h1,
        forall_upd (P := fun j => j.gen ≤ G) (fun j hj => gen_jAcquire_le hgen hj) _ _ g1⟩
    · exact ⟨h1, g1⟩

theorem started_advance (need : Nat) (G : Nat) : ∀ (fuel : Nat) (s : Ev), Started s.jobs → GenLe G s.jobs →
    Started (advance need fuel s).1.jobs ∧ GenLe G (advance need fuel s).1.jobs
  | 0, s, h, hG => by simpa [advance] using ⟨h, hG⟩
  | fuel + 1, s, h, hG => by
    simp only [advance]
    split
    · exact ⟨h, hG⟩
    · split
      · exact ⟨h, hG⟩
      · next s' hs =>
        obtain ⟨a, b⟩ := started_stepReturn h hG hs
        exact started_advance need G fuel s' a b

theorem started_flush (G : Nat) : ∀ (fuel : Nat) (s : Ev), Started s.jobs → GenLe G s.jobs →
    Started (flush fuel s).jobs ∧ GenLe G (flush fuel s).jobs
  | 0, s, h, hG => by simpa [flush] using ⟨h, hG⟩
  | fuel + 1, s, h, hG => by
    simp only [flush]
    split
    · exact ⟨h, hG⟩
    · split
      · split
        · next s' hs =>
          obtain ⟨a, b⟩ := started_stepReturn h hG hs
          exact started_flush G fuel s' a b
        · exact ⟨h, hG⟩
      · exact ⟨h, hG⟩

theorem started_report (G : Nat) : ∀ (rep : List Nat) (s s' : Ev), Started s.jobs → GenLe G s.jobs →
    report s rep = some s' → Started s'.jobs ∧ GenLe G s'.jobs ∧ s'.semGen = s.semGen
  | [], s, s', h, hG, hr => by simp [report] at hr; subst hr; exact ⟨h, hG, rfl⟩
  | i :: rest, s, s', h, hG, hr => by
    simp only [report] at hr
    split at hr
    · have a : Started (upd jOnDone i s.jobs) := forall_upd (fun j hj => go_jOnDone hj) i s.jobs h
      have b : GenLe G (upd jOnDone i s.jobs) :=
        forall_upd (P := fun j => j.gen ≤ G) (fun j hj => by rw [gen_jOnDone]; exact hj) i s.jobs hG
      exact started_report G rest
        { s with jobs := upd jOnDone i s.jobs, running := s.running.erase i, results := s.results ++ [i] }
        s' a b hr
    · simp at hr

/-! ### every wait step finishes one more running task -/

def Active (j : Job) : Prop := j.pc = .waiting ∨ j.pc = .cancelling

theorem nextReturn_valid : ∀ (l : List Job) (base : Nat) (best : Option (Nat × Nat)) (k r : Nat),
    nextReturn l base best = some (k, r) →
    best = some (k, r) ∨ (base ≤ k ∧ ∃ j, l[k - base]? = some j ∧ Active j)
  | [], _, best, k, r, h => by simp [nextReturn] at h; exact Or.inl h
  | j :: js, base, best, k, r, h => by
    simp only [nextReturn] at h
    have lift : ∀ (b' : Option (Nat × Nat)), nextReturn js (base + 1) b' = some (k, r) →
        (b' = some (k, r) → best = some (k, r) ∨ (base ≤ k ∧ ∃ j', (j :: js)[k - base]? = some j' ∧ Active j')) →
        best = some (k, r) ∨ (base ≤ k ∧ ∃ j', (j :: js)[k - base]? = some j' ∧ Active j') := by
      intro b' hb' hbest
      rcases nextReturn_valid js (base + 1) b' k r hb' with h1 | ⟨h1, j', h2, h3⟩
      · exact hbest h1
      · right
        refine ⟨by omega, j', ?_, h3⟩
        have : k - base = (k - (base + 1)) + 1 := by omega
        rw [this, List.getElem?_cons_succ]; exact h2
    split at h
    · next hact =>
      have self : best = some (k, r) ∨ (base ≤ k ∧ ∃ j', (j :: js)[k - base]? = some j' ∧ Active j') →
          best = some (k, r) ∨ (base ≤ k ∧ ∃ j', (j :: js)[k - base]? = some j' ∧ Active j') := id
      cases best with
      | none =>
        simp only at h
        exact lift _ h (fun e => by
          simp only [Option.some.injEq, Prod.mk.injEq] at e
          right; refine ⟨by omega, j, ?_, hact⟩
          rw [← e.1]; simp)
      | some b =>
        obtain ⟨b1, b2⟩ := b
        simp only at h
        split at h
        · exact lift _ h (fun e => by
            simp only [Option.some.injEq, Prod.mk.injEq] at e
            right; refine ⟨by omega, j, ?_, hact⟩
            rw [← e.1]; simp)
        · exact lift _ h (fun e => Or.inl e)
    · exact lift _ h (fun e => Or.inl e)

theorem jReturn_active {j : Job} (h : Active j) : (jReturn j).pc = .returned := by
  unfold jReturn
  simp only
  have hf : (jFire j).pc = .waiting ∨ (jFire j).pc = .cancelling := by
    unfold jFire
    split
    · right; simp [Job.write]
    · exact h
  split
  · rfl
  · next h1 =>
    rcases hf with hf | hf
    · exact absurd hf h1
    · rw [if_pos hf]

theorem jReturn_returned {j : Job} (h : j.pc = .returned) : (jReturn j).pc = .returned := by
  unfold jReturn jFire
  simp [h]

theorem jAcquire_returned (g now : Nat) (dl : Option Nat) {j : Job} (h : j.pc = .returned) :
    (jAcquire g now dl j).pc = .returned := by
  unfold jAcquire
  simp [h]

theorem doneCount_step {s s' : Ev} (hrep : Rep s) (hs : stepReturn s = some s') :
    doneCount s + 1 ≤ doneCount s' := by
  unfold stepReturn at hs
  split at hs
  · simp at hs
  · next k r hn =>
    simp only [Option.some.injEq] at hs
    -- the job that returns
    have hv := nextReturn_valid s.jobs 0 none k r hn
    simp only [reduceCtorEq, Nat.zero_le, Nat.sub_zero, true_and, false_or] at hv
    obtain ⟨j, hj, hact⟩ := hv
    have hk_run : k ∈ s.running := by
      apply (hrep.run k).mpr
      have hc : cls j.pc = 0 := by rcases hact with h | h <;> simp [h, cls]
      simp [clsList, hj, hc]
    have hk_not : pcOf s k ≠ some .returned := by
      simp only [pcOf, hj, Option.map_some, ne_eq, Option.some.injEq]
      rcases hact with h | h <;> simp [h]
    -- program counters after the step
    have key : ∀ i : Nat, (pcOf s i = some .returned → pcOf s' i = some .returned) ∧
        pcOf s' k = some .returned := by
      intro i
      subst hs
      simp only [pcOf]
      have e1 : ∀ i : Nat, ((upd jReturn k s.jobs)[i]?).map (·.pc) = some .returned ↔
          (i = k ∨ (s.jobs[i]?).map (·.pc) = some .returned) := by
        intro i
        by_cases hik : k = i
        · subst hik
          simp [getElem?_upd_self, hj, jReturn_active hact]
        · rw [getElem?_upd_ne jReturn k i s.jobs hik]
          constructor
          · intro h; exact Or.inr h
          · intro h; rcases h with h | h
            · exact absurd h.symm hik
            · exact h
      split
      · next q _ =>
        have e2 : ∀ i : Nat, ((upd jReturn k s.jobs)[i]?).map (·.pc) = some .returned →
            ((upd (jAcquire (((s.jobs[k]?).map (·.gen)).getD 0) (max s.now r) s.deadline) q
              (upd jReturn k s.jobs))[i]?).map (·.pc) = some .returned := by
          intro i h
          by_cases hqi : q = i
          · subst hqi
            rw [getElem?_upd_self]
            cases hx : (upd jReturn k s.jobs)[q]? with
            | none => simp [hx] at h
            | some x =>
              simp only [hx, Option.map_some, Option.some.injEq] at h ⊢
              exact jAcquire_returned _ _ _ h
          · rw [getElem?_upd_ne _ q i _ hqi]; exact h
        exact ⟨fun h => e2 i ((e1 i).mpr (Or.inr h)), e2 k ((e1 k).mpr (Or.inl rfl))⟩
      · exact ⟨fun h => (e1 i).mpr (Or.inr h), (e1 k).mpr (Or.inl rfl)⟩
    have hrun : s'.running = s.running := by subst hs; rfl
    unfold doneCount
    rw [hrun]
    have := filter_length_lt (fun i => decide (pcOf s i = some .returned))
      (fun i => decide (pcOf s' i = some .returned)) s.running
      (fun x _ hx => by simp only [decide_eq_true_eq] at hx ⊢; exact (key x).1 hx)
      ⟨k, hk_run, by simp [hk_not], by simp [(key k).2]⟩
    omega

theorem active_of_running_not_done {s : Ev} (hrep : Rep s) (hst : Started s.jobs) {i : Nat}
    (hi : i ∈ s.running) (hnd : pcOf s i ≠ some .returned) :
    ∃ j, s.jobs[i]? = some j ∧ Active j := by
  have h0 := (hrep.run i).mp hi
  simp only [clsList, List.getElem?_map] at h0
  cases hj : s.jobs[i]? with
  | none => simp [hj] at h0
  | some j =>
    simp only [hj, Option.map_some, Option.some.injEq] at h0
    have hgo := hst j (List.mem_of_getElem? hj)
    have hnr : j.pc ≠ .returned := by
      intro e; apply hnd; simp [pcOf, hj, e]
    refine ⟨j, rfl, ?_⟩
    unfold Active
    cases hp : j.pc <;> simp [hp, cls] at h0 hgo hnr ⊢ <;> simp_all [Go]

/-- the wait loop of a gather reaches the number of finished tasks it waits for, whenever every
running task has started -/
theorem advance_true (need G : Nat) : ∀ (fuel : Nat) (s : Ev), Rep s → Started s.jobs → GenLe G s.jobs →
    need ≤ s.running.length → need ≤ doneCount s + fuel → (advance need fuel s).2 = true
  | 0, s, _, _, _, _, hf => by simp [advance]; omega
  | fuel + 1, s, hrep, hst, hG, hneed, hf => by
    simp only [advance]
    split
    · rfl
    · next hnd =>
      have hlt : (s.running.filter (fun i => decide (pcOf s i = some .returned))).length < s.running.length := by
        unfold doneCount at hnd; omega
      obtain ⟨i, hi, hpi⟩ := exists_of_filter_lt _ _ hlt
      simp only [decide_eq_false_iff_not] at hpi
      obtain ⟨j, hj, hact⟩ := active_of_running_not_done hrep hst hi hpi
      obtain ⟨k, r, hn, _⟩ := nextReturn_some s.jobs 0 none i j hj hact
      have hstep : ∃ s', stepReturn s = some s' := by
        unfold stepReturn; rw [hn]; exact ⟨_, rfl⟩
      obtain ⟨s', hs'⟩ := hstep
      rw [hs']
      have fr := frame_stepReturn hs'
      obtain ⟨a, b⟩ := started_stepReturn hst hG hs'
      have hd := doneCount_step hrep hs'
      exact advance_true need G fuel s' (rep_frame fr hrep) a b (by rw [fr.running]; exact hneed) (by omega)

/-- **liveness of the waiting part of a gather**: if no task is blocked on a semaphore and the
current semaphore has room for every task that has not started yet, the wait returns, and afterwards
every job has started -/
theorem waitFor_live (s : Ev) (need G : Nat) (hrep : Rep s) (hq : NoQueued s.jobs)
    (hG : GenLe G s.jobs) (hg : s.semGen ≤ G)
    (hroom : nCreated s.jobs = 0 ∨ inUse s.semGen s.jobs + nCreated s.jobs ≤ s.W)
    (hneed : need ≤ s.running.length) :
    (waitFor s need).2 = true ∧ Started (waitFor s need).1.jobs ∧ GenLe G (waitFor s need).1.jobs := by
  unfold waitFor
  simp only
  obtain ⟨st1, g1⟩ := startCreated_spec s.W s.semGen s.now s.deadline G hg s.jobs []
    (by intro x hx; simp at hx) hq (by intro x hx; simp at hx) hG (by simpa using hroom)
  have f1 : Frame s { s with jobs := startCreated s.W s.semGen s.now s.deadline [] s.jobs } :=
    ⟨rfl, rfl, by simp [clsList_startCreated], rfl, rfl, rfl, rfl, rfl, rfl, rfl⟩
  have hlen : (startCreated s.W s.semGen s.now s.deadline [] s.jobs).length = s.jobs.length := by
    rw [← clsList_length, clsList_startCreated]; simp [clsList_length]
  have hfuel : need ≤ (startCreated s.W s.semGen s.now s.deadline [] s.jobs).length := by
    rw [hlen]; have := hrep.count; omega
  generalize (startCreated s.W s.semGen s.now s.deadline [] s.jobs).length = fuel at hfuel ⊢
  generalize hs1 : ({ s with jobs := startCreated s.W s.semGen s.now s.deadline [] s.jobs } : Ev) = s1 at f1 ⊢
  have st1' : Started s1.jobs := by rw [← hs1]; exact st1
  have g1' : GenLe G s1.jobs := by rw [← hs1]; exact g1
  have r1 := rep_frame f1 hrep
  have hadv := advance_true need G fuel s1 r1 st1' g1' (by rw [f1.running]; exact hneed) (by omega)
  obtain ⟨a2, b2⟩ := started_advance need G fuel s1 st1' g1'
  generalize advance need fuel s1 = adv at hadv a2 b2 ⊢
  rw [hadv]
  simp only [Bool.true_eq_false, if_false]
  obtain ⟨a3, b3⟩ := started_flush G adv.1.jobs.length adv.1 a2 b2
  refine ⟨trivial, ?_, ?_⟩
  · intro x hx
    simp only [List.mem_map] at hx
    obtain ⟨y, hy, rfl⟩ := hx
    exact go_fireDue _ (a3 y hy)
  · intro x hx
    simp only [List.mem_map] at hx
    obtain ⟨y, hy, rfl⟩ := hx
    rw [gen_fireDue]; exact b3 y hy

/-! ### `gather` never hangs when every task can start -/

theorem gatherN_live (s : Ev) (size : Nat) (rep : List Nat) (G : Nat) (hrep : Rep s)
    (hq : NoQueued s.jobs) (hG : GenLe G s.jobs) (hg : s.semGen ≤ G)
    (hroom : nCreated s.jobs = 0 ∨ inUse s.semGen s.jobs + nCreated s.jobs ≤ s.W) :
    (gatherN s size rep).2 ≠ some .hang ∧
    ((gatherN s size rep).2 = none →
      Started (gatherN s size rep).1.jobs ∧ GenLe G (gatherN s size rep).1.jobs ∧
      (gatherN s size rep).1.semGen = s.semGen ∧ (gatherN s size rep).1.W = s.W) := by
  unfold gatherN
  simp only
  split
  · simp
  · obtain ⟨w1, w2, w3⟩ := waitFor_live s (min size s.running.length) G hrep hq hG hg hroom
      (Nat.min_le_right _ _)
    have fw := frame_waitFor s (min size s.running.length)
    generalize waitFor s (min size s.running.length) = w at w1 w2 w3 fw ⊢
    rw [w1]
    simp only [Bool.true_eq_false, if_false]
    split
    · simp
    · split
      · next s3 hr =>
        obtain ⟨a, b, c⟩ := started_report G rep w.1 s3 w2 w3 hr
        obtain ⟨_, _, _, _, _, d, _⟩ := rep_report rep w.1 s3 (rep_frame fw hrep) hr
        exact ⟨by simp, fun _ => ⟨a, b, by rw [c, fw.semGen], by rw [d, fw.W]⟩⟩
      · simp

theorem gatherN_noJobs (s : Ev) (size : Nat) (rep : List Nat) (h : s.running ≠ []) :
    (gatherN s size rep).2 ≠ some .noJobs := by
  unfold gatherN
  simp only [h, if_false]
  split
  · simp
  · split
    · simp
    · split <;> simp

theorem gatherN_rep_len (s : Ev) (size : Nat) (rep : List Nat) (h : (gatherN s size rep).2 = none) :
    min size s.running.length ≤ rep.length := by
  unfold gatherN at h
  simp only at h
  split at h
  · simp at h
  · split at h
    · simp at h
    · split at h
      · simp at h
      · next hc => omega

theorem submitCap_spec : ∀ (k : Nat) (s : Ev), ∃ extra : List Job,
    (submitCap s k).1.jobs = s.jobs ++ extra ∧ (∀ j ∈ extra, j.pc = .created ∧ j.gen = 0) ∧
    extra.length ≤ k ∧ (submitCap s k).1.running.length = s.running.length + extra.length ∧
    (submitCap s k).1.W = s.W ∧ (submitCap s k).1.semGen = s.semGen ∧
    ((submitCap s k).2 = false → extra.length = k)
  | 0, s => ⟨[], by simp [submitCap]⟩
  | k + 1, s => by
    simp only [submitCap]
    split
    · exact ⟨[], by simp⟩
    · obtain ⟨extra, h1, h2, h3, h4, h5, h6, h7⟩ := submitCap_spec k
        { s with jobs := s.jobs ++ [{ spec := (s.specs[s.jobs.length]?).getD { m := 0, p := 0 } }],
                 running := s.running ++ [s.jobs.length] }
      simp only at h1 h4 h5 h6 h7
      refine ⟨({ spec := (s.specs[s.jobs.length]?).getD { m := 0, p := 0 } } : Job) :: extra, ?_, ?_, ?_, ?_, h5, h6,
        fun hh => by simp only [List.length_cons]; rw [h7 hh]⟩
      · rw [h1]; simp
      · intro j hj
        simp only [List.mem_cons] at hj
        rcases hj with rfl | hj
        · exact ⟨rfl, rfl⟩
        · exact h2 j hj
      · simp only [List.length_cons]; omega
      · simp only [List.length_append, List.length_singleton, List.length_cons, List.length_nil] at h4 ⊢
        omega

theorem nCreated_all {l : List Job} (h : ∀ j ∈ l, j.pc = .created) : nCreated l = l.length := by
  induction l with
  | nil => rfl
  | cons a l ih =>
    rw [nCreated_cons, if_pos (h a (by simp)), ih (fun j hj => h j (by simp [hj]))]; simp

theorem nCreated_started {l : List Job} (h : Started l) : nCreated l = 0 := by
  unfold nCreated
  rw [List.countP_eq_zero]
  intro j hj
  simpa using (h j hj).1

/-- what the loop needs of its state before a gather -/
structure Ready (s : Ev) : Prop where
  noq : NoQueued s.jobs
  gen : GenLe s.semGen s.jobs
  room : nCreated s.jobs = 0 ∨ inUse s.semGen s.jobs + nCreated s.jobs ≤ s.W

theorem ready_of_started {s : Ev} (h : Started s.jobs) (hG : GenLe s.semGen s.jobs) : Ready s :=
  ⟨fun j hj => (h j hj).2, hG, Or.inl (nCreated_started h)⟩

/-- the evaluator after `submit` of a new batch on a fresh semaphore -/
theorem ready_after_submit {s : Ev} (nAsk : Nat) (hst : Started s.jobs) (hG : GenLe s.semGen s.jobs)
    (hW : nAsk ≤ s.W) : Ready (submitCap (askStep s) nAsk).1 := by
  obtain ⟨extra, h1, h2, h3, _, h5, h6, _⟩ := submitCap_spec nAsk (askStep s)
  rw [show (askStep s).jobs = s.jobs from rfl] at h1
  rw [show (askStep s).W = s.W from rfl] at h5
  rw [show (askStep s).semGen = s.semGen + 1 from rfl] at h6
  refine ⟨?_, ?_, ?_⟩
  · rw [h1]
    intro j hj
    simp only [List.mem_append] at hj
    rcases hj with hj | hj
    · exact (hst j hj).2
    · rw [(h2 j hj).1]; simp
  · rw [h1, h6]
    intro j hj
    simp only [List.mem_append] at hj
    rcases hj with hj | hj
    · have := hG j hj; omega
    · rw [(h2 j hj).2]; omega
  · right
    rw [h1, h5, h6, nCreated_append, nCreated_started hst, nCreated_all (fun j hj => (h2 j hj).1)]
    have : inUse (s.semGen + 1) (s.jobs ++ extra) = 0 := by
      apply inUse_zero_of_genLt
      intro j hj
      simp only [List.mem_append] at hj
      rcases hj with hj | hj
      · have := hG j hj; omega
      · rw [(h2 j hj).2]; omega
    omega

theorem gather_batch1 (s : Ev) (rep : List Nat) : gather s false 1 rep = gatherN s 1 rep := by
  simp [gather]

theorem loop_live (strict : Bool) (target : Int) :
    ∀ (reps : List (List Nat)) (s : Ev) (nAsk : Nat), Rep s → Started s.jobs →
      GenLe s.semGen s.jobs → s.running.length + nAsk ≤ s.W → 1 ≤ nAsk →
      (loop strict target s nAsk reps).2 ≠ .hang ∧ (loop strict target s nAsk reps).2 ≠ .noJobs ∧
      (SettledStop (loop strict target s nAsk reps).2 →
        Ready (loop strict target s nAsk reps).1 ∧ (loop strict target s nAsk reps).1.W = s.W) := by
  intro reps
  induction reps with
  | nil =>
    intro s nAsk hrep hst hG hW h1
    unfold loop
    dsimp only
    split
    · have hready := ready_after_submit nAsk hst hG (by omega)
      obtain ⟨extra, _, _, _, _, h5, _, _⟩ := submitCap_spec nAsk (askStep s)
      rw [show (askStep s).W = s.W from rfl] at h5
      generalize submitCap (askStep s) nAsk = sub at hready h5 ⊢
      split
      · exact ⟨by simp, by simp, fun _ => ⟨hready, h5⟩⟩
      · exact ⟨by simp, by simp, fun h => by simp [SettledStop] at h⟩
    · exact ⟨by simp, by simp, fun _ => ⟨ready_of_started hst hG, rfl⟩⟩
  | cons rep rest ih =>
    intro s nAsk hrep hst hG hW h1
    unfold loop
    dsimp only
    split
    · have hready := ready_after_submit nAsk hst hG (by omega)
      have hrsub := rep_submitCap nAsk (askStep s) (rep_cfg (s := s) rfl rfl rfl hrep)
      obtain ⟨extra, _, _, h3, h4, h5, _, h7⟩ := submitCap_spec nAsk (askStep s)
      rw [show (askStep s).running = s.running from rfl] at h4
      rw [show (askStep s).W = s.W from rfl] at h5
      generalize submitCap (askStep s) nAsk = sub at hready hrsub h4 h5 h7 ⊢
      split
      · exact ⟨by simp, by simp, fun _ => ⟨hready, h5⟩⟩
      · next hnr =>
        have hne : sub.1.running ≠ [] := by
          intro e
          have := h7 (by simpa using hnr)
          rw [e] at h4; simp at h4; omega
        rw [gather_batch1]
        obtain ⟨l1, l2⟩ := gatherN_live sub.1 1 rep sub.1.semGen hrsub hready.noq hready.gen
          (Nat.le_refl _) hready.room
        have hnj := gatherN_noJobs sub.1 1 rep hne
        have hlen := gatherN_rep_len sub.1 1 rep
        have hrg := rep_gatherN sub.1 1 rep hrsub
        generalize gatherN sub.1 1 rep = ga at l1 l2 hrg hnj hlen ⊢
        obtain ⟨g1, g2⟩ := ga
        cases g2 with
        | some e =>
          cases e with
          | noJobs => exact absurd rfl hnj
          | hang => exact absurd rfl l1
          | badEnv => exact ⟨by simp, by simp, fun h => by simp [SettledStop] at h⟩
        | none =>
          simp only at l2 hrg hlen ⊢
          obtain ⟨a, b, c, d⟩ := l2 trivial
          obtain ⟨r1, r2, _⟩ := hrg trivial
          have hl := hlen trivial
          have hpos : 0 < sub.1.running.length := List.length_pos_iff.mpr hne
          have hG' : GenLe g1.semGen g1.jobs := by rw [c]; exact b
          split
          · exact ⟨by simp, by simp, fun _ => ⟨ready_of_started a hG', by rw [d, h5]⟩⟩
          · have := ih g1 rep.length r1 a hG' (by rw [d, h5]; omega) (by omega)
            exact ⟨this.1, this.2.1, fun h => ⟨(this.2.2 h).1, by rw [(this.2.2 h).2, d, h5]⟩⟩
    · exact ⟨by simp, by simp, fun _ => ⟨ready_of_started hst hG, rfl⟩⟩

/-- the evaluator between two `search()` calls -/
structure Idle (s : Ev) : Prop where
  rep : Rep s
  inv : AllInv s.jobs
  running : s.running = []
  gen : GenLe s.semGen s.jobs
  W : 1 ≤ s.W

theorem started_of_idle {s : Ev} (h : Idle s) : Started s.jobs := by
  intro j hj
  obtain ⟨i, hi⟩ := List.getElem?_of_mem hj
  have := ((complete_of_rep h.rep h.running h.inv).2.2 i j hi).1
  rcases this with e | e <;> simp [Go, e]

theorem gather_all_live (s : Ev) (rep : List Nat) (hrep : Rep s) (hready : Ready s) :
    (gather s true 0 rep).2 ≠ some .hang ∧ (gather s true 0 rep).2 ≠ some .noJobs ∧
    ((gather s true 0 rep).2 = none →
      GenLe s.semGen (gather s true 0 rep).1.jobs ∧ (gather s true 0 rep).1.semGen = s.semGen ∧
      (gather s true 0 rep).1.W = s.W) := by
  unfold gather
  simp only [if_true]
  split
  · split
    · exact ⟨by simp, by simp, fun _ => ⟨hready.gen, rfl, rfl⟩⟩
    · exact ⟨by simp, by simp, fun h => by simp at h⟩
  · next h0 =>
    obtain ⟨l1, l2⟩ := gatherN_live s s.running.length rep s.semGen hrep hready.noq hready.gen
      (Nat.le_refl _) hready.room
    have hne : s.running ≠ [] := by intro e; rw [e] at h0; simp at h0
    exact ⟨l1, gatherN_noJobs s _ rep hne, fun h => by obtain ⟨_, b, c, d⟩ := l2 h; exact ⟨b, c, d⟩⟩

/-- **a `search()` call on an idle evaluator never hangs**, and leaves it idle when it returns -/
theorem search_live (s : Ev) (c : Call) (reps : List (List Nat)) (drainRep : List Nat) (h : Idle s) :
    (search s c reps drainRep).2 ≠ .hang ∧ (search s c reps drainRep).2 ≠ .noJobs ∧
    (SettledStop (search s c reps drainRep).2 → Idle (search s c reps drainRep).1) := by
  have hrs := rep_search s c reps drainRep h.rep
  have hinv := allInv_search s c reps drainRep h.inv
  have hst := started_of_idle h
  unfold search at hrs hinv ⊢
  dsimp only at hrs hinv ⊢
  have hcfg : ∀ (t : Ev), t.jobs = s.jobs → t.running = s.running → t.results = s.results →
      t.semGen = s.semGen → t.W = s.W →
      Rep t ∧ Started t.jobs ∧ GenLe t.semGen t.jobs ∧ t.running.length + t.W ≤ t.W ∧ t.W = s.W ∧
      1 ≤ t.W := by
    intro t e1 e2 e3 e4 e5
    refine ⟨rep_cfg e1 e2 e3 h.rep, by rw [e1]; exact hst, by rw [e1, e4]; exact h.gen, ?_, e5,
      by rw [e5]; exact h.W⟩
    rw [e2, h.running]; simp
  have h2 := hcfg (setTimeout (if c.strict = true then
      { s with maxSub := c.maxEvals, offset := (s.results.length : Int) } else { s with maxSub := -1 })
      c.timeout)
    (by unfold setTimeout; split <;> rfl) (by unfold setTimeout; split <;> rfl)
    (by unfold setTimeout; split <;> rfl) (by unfold setTimeout; split <;> rfl)
    (by unfold setTimeout; split <;> rfl)
  generalize setTimeout (if c.strict = true then
      { s with maxSub := c.maxEvals, offset := (s.results.length : Int) } else { s with maxSub := -1 })
      c.timeout = s2 at h2 hrs hinv ⊢
  obtain ⟨r2, st2, g2, w2, e2, w1⟩ := h2
  have hl := loop_live c.strict (if c.maxEvals < 0 then c.maxEvals else c.maxEvals + numEvals c.strict s2)
    reps s2 s2.W r2 st2 g2 w2 w1
  have hlr := rep_loop c.strict (if c.maxEvals < 0 then c.maxEvals else c.maxEvals + numEvals c.strict s2)
    reps s2 s2.W r2
  generalize loop c.strict (if c.maxEvals < 0 then c.maxEvals else c.maxEvals + numEvals c.strict s2)
    s2 s2.W reps = lp at hl hlr hrs hinv ⊢
  obtain ⟨l1, l2⟩ := lp
  obtain ⟨hl1, hl0, hl2⟩ := hl
  simp only at hl1 hl0 hl2 hlr hrs hinv ⊢
  have close_nil : ∀ (t : Ev), t.running = [] → (close t []).1 = t := by
    intro t ht; unfold close; simp [ht]
  have settled_case : ∀ (st : Stop), l2 = st → SettledStop st →
      ((if numSubmitted l1 > numGathered l1 then
          match (gather l1 true 0 drainRep).2 with
          | some GErr.noJobs => ((gather l1 true 0 drainRep).1, Stop.noJobs)
          | some GErr.hang => ((gather l1 true 0 drainRep).1, Stop.hang)
          | some GErr.badEnv => ((gather l1 true 0 drainRep).1, Stop.badEnv)
          | none =>
            if numSubmitted (gather l1 true 0 drainRep).1 > numGathered (gather l1 true 0 drainRep).1 then
              ((gather l1 true 0 drainRep).1, Stop.hang)
            else ((close (gather l1 true 0 drainRep).1 []).1, st)
        else ((close l1 []).1, st)).2 ≠ .hang) ∧
      ((if numSubmitted l1 > numGathered l1 then
          match (gather l1 true 0 drainRep).2 with
          | some GErr.noJobs => ((gather l1 true 0 drainRep).1, Stop.noJobs)
          | some GErr.hang => ((gather l1 true 0 drainRep).1, Stop.hang)
          | some GErr.badEnv => ((gather l1 true 0 drainRep).1, Stop.badEnv)
          | none =>
            if numSubmitted (gather l1 true 0 drainRep).1 > numGathered (gather l1 true 0 drainRep).1 then
              ((gather l1 true 0 drainRep).1, Stop.hang)
            else ((close (gather l1 true 0 drainRep).1 []).1, st)
        else ((close l1 []).1, st)).2 ≠ .noJobs) ∧
      (∀ (res : Ev × Stop), res = (if numSubmitted l1 > numGathered l1 then
          match (gather l1 true 0 drainRep).2 with
          | some GErr.noJobs => ((gather l1 true 0 drainRep).1, Stop.noJobs)
          | some GErr.hang => ((gather l1 true 0 drainRep).1, Stop.hang)
          | some GErr.badEnv => ((gather l1 true 0 drainRep).1, Stop.badEnv)
          | none =>
            if numSubmitted (gather l1 true 0 drainRep).1 > numGathered (gather l1 true 0 drainRep).1 then
              ((gather l1 true 0 drainRep).1, Stop.hang)
            else ((close (gather l1 true 0 drainRep).1 []).1, st)
        else ((close l1 []).1, st)) → SettledStop res.2 →
        GenLe res.1.semGen res.1.jobs ∧ res.1.W = s.W) := by
    intro st hst' hsettled
    subst hst'
    obtain ⟨hready, hw⟩ := hl2 hsettled
    have hr1 := hlr hsettled
    split
    · obtain ⟨ga1, ga0, ga2⟩ := gather_all_live l1 drainRep hr1 hready
      have hrg := rep_gather l1 true 0 drainRep hr1
      generalize gather l1 true 0 drainRep = ga at ga1 ga0 ga2 hrg ⊢
      obtain ⟨g1, gerr⟩ := ga
      cases gerr with
      | some e =>
        cases e with
        | noJobs => exact absurd rfl ga0
        | hang => exact absurd rfl ga1
        | badEnv => exact ⟨by simp, by simp, fun res hres hs => by subst hres; simp [SettledStop] at hs⟩
      | none =>
        simp only at ga2 hrg ⊢
        obtain ⟨ra, rb⟩ := hrg trivial
        have rb' := rb trivial
        have hno : ¬ (numSubmitted g1 > numGathered g1) := by
          simp only [numSubmitted, numGathered]
          have := ra.count
          rw [rb'] at this
          simp only [List.length_nil, Nat.add_zero] at this
          omega
        rw [if_neg hno, close_nil g1 rb']
        obtain ⟨x, y, z⟩ := ga2 trivial
        have hns : l2 ≠ Stop.hang ∧ l2 ≠ Stop.noJobs := by
          rcases hsettled with e | e | e <;> rw [e] <;> simp
        refine ⟨hns.1, hns.2, fun res hres _ => ?_⟩
        subst hres
        exact ⟨by simp only; rw [y]; exact x, by simp only; rw [z, hw, e2]⟩
    · next hd =>
      simp only [numSubmitted, numGathered] at hd
      have hrun : l1.running = [] := List.eq_nil_of_length_eq_zero (by have := hr1.count; omega)
      rw [close_nil l1 hrun]
      have hns : l2 ≠ Stop.hang ∧ l2 ≠ Stop.noJobs := by
        rcases hsettled with e | e | e <;> rw [e] <;> simp
      refine ⟨hns.1, hns.2, fun res hres _ => ?_⟩
      subst hres
      exact ⟨hready.gen, by simp only; rw [hw, e2]⟩
  cases l2 with
  | noJobs => exact absurd rfl hl0
  | hang => exact absurd rfl hl1
  | badEnv => exact ⟨by simp, by simp, fun hs => by simp [SettledStop] at hs⟩
  | envExhausted => exact ⟨by simp, by simp, fun hs => by simp [SettledStop] at hs⟩
  | budget =>
    obtain ⟨a, a0, b⟩ := settled_case .budget rfl (Or.inl rfl)
    simp only at hrs hinv ⊢
    refine ⟨a, a0, fun hs => ?_⟩
    obtain ⟨q1, q2⟩ := hrs hs
    obtain ⟨q3, q4⟩ := b _ rfl hs
    exact ⟨q1, hinv, q2, q3, Nat.le_trans h.W (Nat.le_of_eq q4.symm)⟩
  | cap =>
    obtain ⟨a, a0, b⟩ := settled_case .cap rfl (Or.inr (Or.inl rfl))
    simp only at hrs hinv ⊢
    refine ⟨a, a0, fun hs => ?_⟩
    obtain ⟨q1, q2⟩ := hrs hs
    obtain ⟨q3, q4⟩ := b _ rfl hs
    exact ⟨q1, hinv, q2, q3, Nat.le_trans h.W (Nat.le_of_eq q4.symm)⟩
  | timeout =>
    obtain ⟨a, a0, b⟩ := settled_case .timeout rfl (Or.inr (Or.inr rfl))
    simp only at hrs hinv ⊢
    refine ⟨a, a0, fun hs => ?_⟩
    obtain ⟨q1, q2⟩ := hrs hs
    obtain ⟨q3, q4⟩ := b _ rfl hs
    exact ⟨q1, hinv, q2, q3, Nat.le_trans h.W (Nat.le_of_eq q4.symm)⟩

theorem idle_init (W : Nat) (hW : 1 ≤ W) (specs : List Spec) : Idle (init W true specs) :=
  ⟨rep_init W true specs, allInv_init W true specs, rfl, by intro j hj; simp [init] at hj, hW⟩

theorem runSearches_idle : ∀ (hist : List SCall) (s : Ev), Idle s →
    (∀ st ∈ (runSearches s hist).2, SettledStop st) → Idle (runSearches s hist).1
  | [], s, h, _ => h
  | sc :: rest, s, h, hs => by
    simp only [runSearches] at hs ⊢
    have h1 := (search_live s sc.call sc.reps sc.drainRep h).2.2 (hs _ (List.mem_cons_self ..))
    exact runSearches_idle rest _ h1 (fun st hst => hs st (List.mem_cons_of_mem _ hst))

end DH.Timeout
