import Proofs.Space

/-! C09: shape, bounds and membership-for-arbitrary-input lemmas. -/

namespace DH.Space

/-! ### shape -/

theorem rowT_length (L : Rat → Rat) : ∀ (dims : List Dim) (r : List Val), memRow dims r = true →
    (rowT L dims r).length = transformedNDims dims
  | [], [], _ => rfl
  | [], _ :: _, h => by simp [memRow] at h
  | _ :: _, [], h => by simp [memRow] at h
  | d :: ds, v :: vs, h => by
    simp only [memRow, Bool.and_eq_true] at h
    simp [rowT, transformedNDims, cellT_length L d v h.1]
    have := rowT_length L ds vs h.2
    simpa [transformedNDims] using this

/-! ### bounds -/

theorem inBounds_append : ∀ (a : List Rat) (ba : List (Rat × Rat)) (b : List Rat) (bb : List (Rat × Rat)),
    inBounds a ba = true → inBounds b bb = true → inBounds (a ++ b) (ba ++ bb) = true
  | [], [], _, _, _, h => by simpa using h
  | [], _ :: _, _, _, h, _ => by simp [inBounds] at h
  | _ :: _, [], _, _, h, _ => by simp [inBounds] at h
  | x :: xs, p :: ps, b, bb, h1, h2 => by
    simp only [inBounds, Bool.and_eq_true] at h1
    simp only [List.cons_append, inBounds, Bool.and_eq_true]
    exact ⟨h1.1, inBounds_append xs ps b bb h1.2 h2⟩

theorem inBounds_single (x lo hi : Rat) (h1 : lo ≤ x) (h2 : x ≤ hi) : inBounds [x] [(lo, hi)] = true := by
  simp [inBounds, h1, h2]

theorem inBounds_map_replicate {α : Type} (f : α → Rat) (h : ∀ a, 0 ≤ f a ∧ f a ≤ 1) :
    ∀ l : List α, inBounds (l.map f) (List.replicate l.length ((0 : Rat), (1 : Rat))) = true
  | [] => rfl
  | a :: as => by
    simp [inBounds, List.replicate_succ, (h a).1, (h a).2, inBounds_map_replicate f h as]

theorem minRat_le_init : ∀ (l : List Rat) (m : Rat), minRat m l ≤ m
  | [], _ => le_refl _
  | x :: xs, m => by
    unfold minRat
    split
    · rename_i h; exact le_trans (minRat_le_init xs x) (le_of_lt h)
    · exact minRat_le_init xs m

theorem minRat_le_mem : ∀ (l : List Rat) (m x : Rat), x ∈ l → minRat m l ≤ x
  | [], _, _, h => by simp at h
  | y :: ys, m, x, h => by
    unfold minRat
    rcases List.mem_cons.mp h with rfl | h
    · split
      · exact minRat_le_init ys _
      · rename_i hlt; exact le_trans (minRat_le_init ys m) (not_lt.mp hlt)
    · exact minRat_le_mem ys _ x h

theorem le_maxRat_init : ∀ (l : List Rat) (m : Rat), m ≤ maxRat m l
  | [], _ => le_refl _
  | x :: xs, m => by
    unfold maxRat
    split
    · rename_i h; exact le_trans (le_of_lt h) (le_maxRat_init xs x)
    · exact le_maxRat_init xs m

theorem mem_le_maxRat : ∀ (l : List Rat) (m x : Rat), x ∈ l → x ≤ maxRat m l
  | [], _, _, h => by simp at h
  | y :: ys, m, x, h => by
    unfold maxRat
    rcases List.mem_cons.mp h with rfl | h
    · split
      · exact le_maxRat_init ys _
      · rename_i hlt; exact le_trans (not_lt.mp hlt) (le_maxRat_init ys m)
    · exact mem_le_maxRat ys _ x h

theorem norm_range' (x lo hi : Rat) (h : lo ≤ hi) (h1 : lo ≤ x) (h2 : x ≤ hi) :
    0 ≤ (x - lo) / (hi - lo) ∧ (x - lo) / (hi - lo) ≤ 1 := by
  rcases lt_or_eq_of_le h with hlt | heq
  · exact norm_range x lo hi hlt h1 h2
  · subst heq; simp

theorem cellT_bounds (L : Rat → Rat) (hM : MonoOn L) (d : Dim) (hwf : d.wf = true) (v : Val)
    (hmem : memDim d v = true) : inBounds (cellT L d v) (d.transformedBounds L) = true := by
  cases d with
  | real lo hi p t =>
    cases v <;> simp [memDim] at hmem
    rename_i q
    have hlt : lo < hi := by simp [Dim.wf] at hwf; exact hwf.1
    cases p <;> cases t
    · exact inBounds_single q lo hi hmem.1 hmem.2
    · have := norm_range q lo hi hlt hmem.1 hmem.2
      exact inBounds_single _ 0 1 this.1 this.2
    · have hpos : 0 < lo := by simp [Dim.wf] at hwf; exact hwf.2
      exact inBounds_single _ _ _ (hM lo q hpos hmem.1) (hM q hi (lt_of_lt_of_le hpos hmem.1) hmem.2)
    · have hpos : 0 < lo := by simp [Dim.wf] at hwf; exact hwf.2
      have := norm_range' (L q) (L lo) (L hi) (hM lo hi hpos (le_of_lt hlt)) (hM lo q hpos hmem.1)
        (hM q hi (lt_of_lt_of_le hpos hmem.1) hmem.2)
      exact inBounds_single _ 0 1 this.1 this.2
  | int lo hi p t =>
    cases v <;> simp [memDim] at hmem
    rename_i i
    have hlt : (lo : Rat) < (hi : Rat) := by simp [Dim.wf] at hwf; exact_mod_cast hwf.1
    have h1 : (lo : Rat) ≤ (i : Rat) := by exact_mod_cast hmem.1
    have h2 : (i : Rat) ≤ (hi : Rat) := by exact_mod_cast hmem.2
    cases p <;> cases t
    · exact inBounds_single _ _ _ h1 h2
    · have := norm_range (i : Rat) lo hi hlt h1 h2
      exact inBounds_single _ 0 1 this.1 this.2
    · have hpos : (0 : Rat) < (lo : Rat) := by simp [Dim.wf] at hwf; exact_mod_cast hwf.2
      exact inBounds_single _ _ _ (hM lo i hpos h1) (hM i hi (lt_of_lt_of_le hpos h1) h2)
    · have hpos : (0 : Rat) < (lo : Rat) := by simp [Dim.wf] at hwf; exact_mod_cast hwf.2
      have := norm_range' (L i) (L lo) (L hi) (hM lo hi hpos (le_of_lt hlt)) (hM lo i hpos h1)
        (hM i hi (lt_of_lt_of_le hpos h1) h2)
      exact inBounds_single _ 0 1 this.1 this.2
  | cat cs t =>
    have hv : v ∈ cs := by simpa [memDim] using hmem
    obtain ⟨hne, hnd, hid⟩ := cat_wf cs t hwf
    have hlt := idx_sortU_lt cs v hv
    cases t
    · -- identity: (min, max) of the numeric categories
      have hnum := cat_numeric cs (hid rfl) v hv
      have hq : ∃ q, v.toRat? = some q := by
        cases h : v.toRat? with
        | none => simp [rowOfVal, h] at hnum
        | some q => exact ⟨q, rfl⟩
      obtain ⟨q, hq⟩ := hq
      have hin : q ∈ cs.filterMap Val.toRat? := List.mem_filterMap.mpr ⟨v, hv, hq⟩
      simp only [cellT_cat_identity, hq, Option.getD_some, Dim.transformedBounds]
      cases hl : cs.filterMap Val.toRat? with
      | nil => rw [hl] at hin; simp at hin
      | cons x xs =>
        rw [hl] at hin
        simp only
        apply inBounds_single
        · rcases List.mem_cons.mp hin with rfl | h
          · exact minRat_le_init xs _
          · exact minRat_le_mem xs x q h
        · rcases List.mem_cons.mp hin with rfl | h
          · exact le_maxRat_init xs _
          · exact mem_le_maxRat xs x q h
    · -- label
      simp only [cellT_cat_label, Dim.transformedBounds]
      apply inBounds_single
      · positivity
      · have : (((sortU cs).idxOf v : Nat) : Int) ≤ (cs.length : Int) - 1 := by omega
        exact_mod_cast this
    · -- onehot
      simp only [cellT_cat_onehot, Dim.transformedBounds]
      by_cases h1 : cs.length = 1
      · simp [binarize, h1, inBounds]
      · by_cases h2 : cs.length = 2
        · by_cases hk : cs.idxOf v = 1 <;> simp [binarize, h2, hk, inBounds]
        · simp only [binarize, h1, h2, if_false]
          have := inBounds_map_replicate (fun j => if j = cs.idxOf v then (1 : Rat) else 0)
            (by intro a; split <;> norm_num) (List.range cs.length)
          simpa using this
    · -- normalize
      have := normalize_cat_range cs.length _ hlt
      simp only [cellT_cat_normalize, Dim.transformedBounds]
      exact inBounds_single _ 0 1 this.1 this.2

theorem rowT_bounds (L : Rat → Rat) (hM : MonoOn L) : ∀ (dims : List Dim) (r : List Val),
    (∀ d ∈ dims, d.wf = true) → memRow dims r = true →
    inBounds (rowT L dims r) (transformedBounds L dims) = true
  | [], [], _, _ => rfl
  | [], _ :: _, _, h => by simp [memRow] at h
  | _ :: _, [], _, h => by simp [memRow] at h
  | d :: ds, v :: vs, hwf, h => by
    simp only [memRow, Bool.and_eq_true] at h
    have h1 := cellT_bounds L hM d (hwf d (by simp)) v h.1
    have h2 := rowT_bounds L hM ds vs (fun d' hd' => hwf d' (by simp [hd'])) h.2
    simpa [rowT, transformedBounds] using inBounds_append _ _ _ _ h1 h2

/-! ### membership of whatever `inverse_transform` returns (arbitrary `L`, `E`, arbitrary input) -/

theorem label_inverse_mem (E : Rat → Rat) (cs : List Val) (c : Col) (l : List Val)
    (h : Stage.inverse E (.labelEncoder cs) c = .ok (.vals l)) : ∀ v ∈ l, v ∈ cs := by
  cases c with
  | mat rows => simp [Stage.inverse] at h
  | vals l' =>
    simp only [Stage.inverse] at h
    cases hn : nums .typeError l' with
    | error e => simp [hn] at h
    | ok xs =>
      cases hm : mapE (labelInvCell (sortU cs)) xs with
      | error e => simp [hn, hm] at h
      | ok r =>
        simp [hn, hm] at h
        subst h
        intro v hv
        obtain ⟨x, _, hx⟩ := (mapE_ok_inv _ xs r hm).2 v hv
        unfold labelInvCell at hx
        simp only at hx
        split at hx
        · split at hx
          · rename_i w hw
            simp at hx
            subst hx
            exact (mem_sortU _ cs).mp (List.mem_of_getElem? hw)
          · simp at hx
        · simp at hx

theorem oneHotInv_mem (cs : List Val) (row : List Rat) (v : Val) (h : oneHotInv cs row = .ok v) :
    v ∈ cs := by
  match cs, row, h with
  | [c], _, h => simp [oneHotInv] at h; simp [h]
  | [c0, c1], [x], h =>
    simp [oneHotInv] at h
    split at h <;> simp [← h]
  | [c0, c1], [_, x], h =>
    simp [oneHotInv] at h
    split at h <;> simp [← h]
  | [c0, c1], [], h => simp [oneHotInv] at h
  | [c0, c1], _ :: _ :: _ :: _, h => simp [oneHotInv] at h
  | c0 :: c1 :: c2 :: rest, [], h => simp [oneHotInv] at h
  | c0 :: c1 :: c2 :: rest, x :: xs, h =>
    rw [oneHotInv_many c0 c1 c2 rest (x :: xs) (by simp)] at h
    split at h
    · rename_i w hw
      simp at h
      subst h
      exact List.mem_of_getElem? hw
    · simp at h

theorem onehot_inverse_mem (E : Rat → Rat) (cs : List Val) (c : Col) (l : List Val)
    (h : Stage.inverse E (.oneHot cs) c = .ok (.vals l)) : ∀ v ∈ l, v ∈ cs := by
  cases c with
  | mat rows =>
    simp only [Stage.inverse] at h
    cases hm : mapE (oneHotInv cs) rows with
    | error e => simp [hm] at h
    | ok r =>
      simp [hm] at h
      subst h
      intro v hv
      obtain ⟨row, _, hrow⟩ := (mapE_ok_inv _ rows r hm).2 v hv
      exact oneHotInv_mem cs row v hrow
  | vals l' =>
    simp only [Stage.inverse] at h
    cases hn : nums .typeError l' with
    | error e => simp [hn] at h
    | ok xs =>
      simp only [hn] at h
      split at h
      · simp at h
      · cases hm : mapE (fun x => oneHotInv cs [x]) xs with
        | error e => simp [hm] at h
        | ok r =>
          simp [hm] at h
          subst h
          intro v hv
          obtain ⟨x, _, hx⟩ := (mapE_ok_inv _ xs r hm).2 v hv
          exact oneHotInv_mem cs [x] v hx

/-- **the clip/round/lookup argument**: whatever the inner transformers (in particular `L`, `E`)
compute, what `Dimension.inverse_transform` returns is a member -/
theorem dim_inverse_member (L E : Rat → Rat) (d : Dim) (hwf : d.wf = true) (hs : d.snaps = true)
    (c : Col) (col : List Val) (h : d.inverseTransform L E c = .ok col) :
    ∀ v ∈ col, memDim d v = true := by
  unfold Dim.inverseTransform at h
  cases ht : (d.transformer L).inverse E c with
  | error e => simp [ht] at h
  | ok c' =>
    cases c' with
    | mat rows => simp [ht] at h
    | vals l =>
      simp only [ht] at h
      cases d with
      | real lo hi p t =>
        have hle : lo ≤ hi := by simp [Dim.wf] at hwf; exact le_of_lt hwf.1
        simp only at h
        cases hn : nums .typeError l with
        | error e => simp [hn] at h
        | ok xs =>
          simp [hn] at h
          subst h
          intro v hv
          obtain ⟨x, _, rfl⟩ := List.mem_map.mp hv
          have := clip_mem lo hi x hle
          simp [memDim, this.1, this.2]
      | int lo hi p t =>
        have hle : (lo : Rat) ≤ (hi : Rat) := by
          simp [Dim.wf] at hwf; exact_mod_cast le_of_lt hwf.1
        simp only at h
        cases hn : nums .typeError l with
        | error e => simp [hn] at h
        | ok xs =>
          simp [hn] at h
          subst h
          intro v hv
          obtain ⟨x, _, rfl⟩ := List.mem_map.mp hv
          have hc := clip_mem (lo : Rat) (hi : Rat) x hle
          have := roundHalfEven_mem lo hi _ hc.1 hc.2
          simp [memDim, this.1, this.2]
      | cat cs t =>
        simp at h
        subst h
        intro v hv
        simp only [memDim, decide_eq_true_eq]
        cases t
        · simp [Dim.snaps] at hs
        · -- label
          simp only [Dim.transformer, Tr.inverse, Tr.stages, List.reverse_cons, List.reverse_nil,
            List.nil_append, runInverse] at ht
          cases h1 : Stage.inverse E (.labelEncoder cs) c with
          | error e => simp [h1] at ht
          | ok c1 =>
            simp [h1] at ht
            subst ht
            exact label_inverse_mem E cs c _ h1 v hv
        · -- onehot
          simp only [Dim.transformer, Tr.inverse, Tr.stages, List.reverse_cons, List.reverse_nil,
            List.nil_append, runInverse] at ht
          cases h1 : Stage.inverse E (.oneHot cs) c with
          | error e => simp [h1] at ht
          | ok c1 =>
            simp [h1] at ht
            subst ht
            exact onehot_inverse_mem E cs c _ h1 v hv
        · -- normalize: whatever Normalize returns, the label lookup comes last
          simp only [Dim.transformer, Tr.inverse, Tr.stages, List.reverse_cons, List.reverse_nil,
            List.nil_append, List.cons_append, runInverse] at ht
          split at ht
          · simp at ht
          · rename_i c1 h1
            split at ht
            · simp at ht
            · rename_i c2 h2
              simp at ht
              subst ht
              exact label_inverse_mem E cs c1 _ h2 v hv

/-! the same for a whole space: columns of members transpose to rows of members -/

def colsMem : List Dim → List (List Val) → Prop
  | [], [] => True
  | d :: ds, c :: cs => (∀ v ∈ c, memDim d v = true) ∧ colsMem ds cs
  | _, _ => False

theorem inverseCols_mem (L E : Rat → Rat) : ∀ (dims : List Dim) (Xt : List (List Rat))
    (cols : List (List Val)), (∀ d ∈ dims, d.wf = true ∧ d.snaps = true) →
    inverseCols L E dims Xt = .ok cols → colsMem dims cols
  | [], _, cols, _, h => by
    simp [inverseCols] at h; subst h; trivial
  | d :: ds, Xt, cols, hd, h => by
    simp only [inverseCols] at h
    cases hs : sliceCol d.transformedSize Xt with
    | error e => simp [hs] at h
    | ok c =>
      cases hi : d.inverseTransform L E c with
      | error e => simp [hs, hi] at h
      | ok col =>
        cases hr : inverseCols L E ds (Xt.map (List.drop d.transformedSize)) with
        | error e => simp [hs, hi, hr] at h
        | ok rest =>
          simp [hs, hi, hr] at h
          subst h
          exact ⟨dim_inverse_member L E d (hd d (by simp)).1 (hd d (by simp)).2 c col hi,
            inverseCols_mem L E ds _ rest (fun d' hd' => hd d' (by simp [hd'])) hr⟩

theorem heads_mem : ∀ (dims : List Dim) (cols : List (List Val)) (row : List Val),
    colsMem dims cols → heads cols = .ok row → memRow dims row = true
  | [], [], row, _, h => by
    simp [heads, mapE] at h; subst h; rfl
  | [], _ :: _, _, hc, _ => by simp [colsMem] at hc
  | _ :: _, [], _, hc, _ => by simp [colsMem] at hc
  | d :: ds, c :: cs, row, hc, h => by
    simp only [heads, mapE] at h
    cases c with
    | nil => simp [headE] at h
    | cons v vs =>
      cases hm : mapE headE cs with
      | error e => simp [headE, hm] at h
      | ok r =>
        simp [headE, hm] at h
        subst h
        simp only [memRow, Bool.and_eq_true]
        exact ⟨hc.1 v (by simp), heads_mem ds cs r hc.2 hm⟩

theorem tails_mem : ∀ (dims : List Dim) (cols : List (List Val)),
    colsMem dims cols → colsMem dims (cols.map List.tail)
  | [], [], _ => trivial
  | [], _ :: _, hc => by simp [colsMem] at hc
  | _ :: _, [], hc => by simp [colsMem] at hc
  | d :: ds, c :: cs, hc =>
    ⟨fun v hv => hc.1 v (List.mem_of_mem_tail hv), tails_mem ds cs hc.2⟩

theorem transposeAux_mem (dims : List Dim) : ∀ (m : Nat) (cols : List (List Val)) (X : List (List Val)),
    colsMem dims cols → transposeAux m cols = .ok X → ∀ r ∈ X, memRow dims r = true
  | 0, _, X, _, h => by
    simp [transposeAux] at h; subst h; simp
  | m + 1, cols, X, hc, h => by
    simp only [transposeAux] at h
    cases hh : heads cols with
    | error e => simp [hh] at h
    | ok row =>
      cases hr : transposeAux m (cols.map List.tail) with
      | error e => simp [hh, hr] at h
      | ok rest =>
        simp [hh, hr] at h
        subst h
        intro r hr'
        rcases List.mem_cons.mp hr' with rfl | hr'
        · exact heads_mem dims cols _ hc hh
        · exact transposeAux_mem dims m _ rest (tails_mem dims cols hc) hr r hr'

theorem inverseTransform_member (L E : Rat → Rat) (dims : List Dim) (Xt : List (List Rat))
    (X : List (List Val)) (hd : ∀ d ∈ dims, d.wf = true ∧ d.snaps = true)
    (h : inverseTransform L E dims Xt = .ok X) : ∀ r ∈ X, memRow dims r = true := by
  unfold inverseTransform at h
  cases hc : inverseCols L E dims Xt with
  | error e => simp [hc] at h
  | ok cols =>
    simp only [hc] at h
    have hm := inverseCols_mem L E dims Xt cols hd hc
    cases cols with
    | nil => simp [transposeCols] at h
    | cons c0 rest =>
      simp only [transposeCols] at h
      exact transposeAux_mem dims _ _ X hm h

end DH.Space
