import Model.AggregateArray

/-!
Lemmas about the member arrays (`Model/AggregateArray.lean`): the stacked cells of a homogeneous list are
the members' meanings, and the conversions that keep the class and the mask keep the meaning.
-/

namespace DH.Aggregate

theorem cells_plain (a : Arr) (h : a.ma = false) : a.cells = a.data.map some := by
  simp [Arr.cells, h]

theorem cells_nomask (a : Arr) (h : a.mask = .nomask) : a.cells = a.data.map some := by
  unfold Arr.cells
  cases hm : a.ma <;> simp [h]

theorem maskCells_allFalse (vs : List Rat) : maskCells (vs.map (fun _ => false)) vs = vs.map some := by
  induction vs with
  | nil => rfl
  | cons v vs ih => simp [maskCells, ih]

/-- homogeneous lists: the stacked cells are the members' meanings -/
theorem stackCells_homogeneous (ys : List Arr) (h : Homogeneous ys) : stackCells ys = ys.map Arr.cells := by
  unfold stackCells stackWith
  rcases h with h | h
  · have : useMa ys = true := by simp [useMa, List.all_eq_true]; exact h
    simp [this]
  · by_cases hu : useMa ys = true
    · simp [hu]
    · simp [hu]
      intro a ha
      exact (cells_plain a (h a ha)).symm

theorem useMa_append (xs ys : List Arr) : useMa (xs ++ ys) = (useMa xs && useMa ys) := by
  simp [useMa, List.all_append]

theorem stackWith_plain (ys : List Arr) (h : ∀ a ∈ ys, a.ma = false) (b : Bool) :
    stackWith b ys = ys.map Arr.cells := by
  unfold stackWith
  cases b
  · simp
    intro a ha
    exact (cells_plain a (h a ha)).symm
  · simp

theorem stackNormal_homogeneous (locs scales : List Arr) (h : Homogeneous (locs ++ scales)) :
    stackNormal locs scales = (locs.map Arr.cells, scales.map Arr.cells) := by
  unfold stackNormal
  rcases h with h | h
  · have : (useMa locs && useMa scales) = true := by
      rw [← useMa_append]; simp only [useMa, List.all_eq_true]; intro a ha; simpa using h a ha
    simp [this, stackWith]
  · have hl : ∀ a ∈ locs, a.ma = false := fun a ha => h a (by simp [ha])
    have hs : ∀ a ∈ scales, a.ma = false := fun a ha => h a (by simp [ha])
    rw [stackWith_plain locs hl, stackWith_plain scales hs]

theorem cells_astype (d : DType) (a : Arr) : (a.astype d).cells = a.cells := rfl

theorem cells_withMaskArray (a : Arr) : a.withMaskArray.cells = a.cells := by
  unfold Arr.withMaskArray
  cases hm : a.mask with
  | bits bs => rfl
  | nomask =>
    rw [cells_nomask a hm]
    cases hma : a.ma
    · simp [Arr.cells]
    · simp [Arr.cells, maskCells_allFalse]

theorem ma_withMaskArray (a : Arr) : a.withMaskArray.ma = a.ma := by
  unfold Arr.withMaskArray
  cases a.mask <;> rfl

theorem overwriteMasked_present (ds vs : List Rat) : overwriteMasked (ds.map some) ds vs = ds := by
  induction ds generalizing vs with
  | nil => cases vs <;> simp [overwriteMasked]
  | cons d ds ih =>
    cases vs with
    | nil => simp [overwriteMasked]
    | cons v vs => simp [overwriteMasked, ih]

theorem maskCells_overwrite (bs : List Bool) (ds vs : List Rat) :
    maskCells bs (overwriteMasked (maskCells bs ds) ds vs) = maskCells bs ds := by
  induction ds generalizing bs vs with
  | nil => cases bs <;> cases vs <;> simp [maskCells, overwriteMasked]
  | cons d ds ih =>
    cases vs with
    | nil => cases bs <;> simp [maskCells, overwriteMasked]
    | cons v vs =>
      cases bs with
      | nil => simp [maskCells, overwriteMasked, ih]
      | cons b bs =>
        cases b <;> simp [maskCells, overwriteMasked, ih]

/-- other data under the mask: the meaning is the same -/
theorem cells_scribble (vs : List Rat) (a : Arr) : (a.scribbleUnderMask vs).cells = a.cells := by
  unfold Arr.scribbleUnderMask
  cases hma : a.ma
  · simp [Arr.cells, hma, overwriteMasked_present]
  · cases hm : a.mask with
    | nomask => simp [Arr.cells, hma, hm, overwriteMasked_present]
    | bits bs => simp [Arr.cells, hma, hm, maskCells_overwrite]

end DH.Aggregate
