import Proofs.StorageFrame

/-! C13: the history checker decides "the answers are those of the map specification". -/

namespace DH.Storage

/-! ### equality test on values -/

mutual
theorem Val.beq_iff : ∀ a b : Val, Val.beq a b = true ↔ a = b
  | .none, b => by cases b <;> simp [Val.beq]
  | .bool x, b => by cases b <;> simp [Val.beq]
  | .int x, b => by cases b <;> simp [Val.beq]
  | .num x, b => by cases b <;> simp [Val.beq]
  | .str x, b => by cases b <;> simp [Val.beq]
  | .list x, b => by
    cases b <;> simp [Val.beq]
    exact Val.beqList_iff x _
  | .tuple x, b => by
    cases b <;> simp [Val.beq]
    exact Val.beqList_iff x _
  | .dict x, b => by
    cases b <;> simp [Val.beq]
    exact Val.beqKV_iff x _
theorem Val.beqList_iff : ∀ a b : List Val, Val.beqList a b = true ↔ a = b
  | [], b => by cases b <;> simp [Val.beqList]
  | x :: xs, b => by
    cases b with
    | nil => simp [Val.beqList]
    | cons y ys => simp [Val.beqList, Val.beq_iff x y, Val.beqList_iff xs ys]
theorem Val.beqKV_iff : ∀ a b : List (String × Val), Val.beqKV a b = true ↔ a = b
  | [], b => by cases b <;> simp [Val.beqKV]
  | (k, x) :: xs, b => by
    cases b with
    | nil => simp [Val.beqKV]
    | cons y ys =>
      obtain ⟨l, y⟩ := y
      simp [Val.beqKV, Val.beq_iff x y, Val.beqKV_iff xs ys, and_assoc]
end

theorem optBeq_iff (a b : Option Val) : optBeq a b = true ↔ a = b := by
  cases a <;> cases b <;> simp [optBeq, Val.beq_iff]

theorem mapEq_iff (a b : List (String × Val)) : mapEq a b = true ↔ Holds a (recOf b) := by
  simp only [mapEq, List.all_eq_true, List.mem_append, optBeq_iff, Holds, recOf]
  constructor
  · intro h k
    by_cases hk : k ∈ keys a ∨ k ∈ keys b
    · exact h k hk
    · have h1 : aget k a = none := by
        rcases hx : aget k a with _ | v
        · rfl
        · exact absurd (Or.inl ((mem_keys_iff k a).2 (by simp [hx]))) hk
      have h2 : aget k b = none := by
        rcases hx : aget k b with _ | v
        · rfl
        · exact absurd (Or.inr ((mem_keys_iff k b).2 (by simp [hx]))) hk
      rw [h1, h2]
  · intro h k _; exact h k

theorem isErr_iff (e : Err) (out : Out) : isErr e out = true ↔ out = .error e := by
  cases out with
  | error e' => simp only [isErr, beq_iff_eq, Out.error.injEq]
  | _ => simp [isErr]

theorem isNoneOut_iff (out : Out) : isNoneOut out = true ↔ out = .none := by
  cases out <;> simp [isNoneOut]

theorem isVal_iff (v : Val) (out : Out) : isVal v out = true ↔ out = .val v := by
  cases out <;> simp [isVal, Val.beq_iff]

theorem sameSet_iff (a b : List String) : sameSet a b = true ↔ ∀ x, x ∈ a ↔ x ∈ b := by
  simp only [sameSet, Bool.and_eq_true, List.all_eq_true, List.contains_iff_mem]
  constructor
  · rintro ⟨h1, h2⟩ x; exact ⟨h1 x, h2 x⟩
  · intro h; exact ⟨fun x hx => (h x).1 hx, fun x hx => (h x).2 hx⟩

theorem sameVals_iff (a b : List Val) : sameVals a b = true ↔ ∀ x, x ∈ a ↔ x ∈ b := by
  simp only [sameVals, Bool.and_eq_true, List.all_eq_true, List.any_eq_true, Val.beq_iff]
  constructor
  · rintro ⟨h1, h2⟩ x
    constructor
    · intro hx; obtain ⟨y, hy, e⟩ := h1 x hx; exact e ▸ hy
    · intro hx; obtain ⟨y, hy, e⟩ := h2 x hx; exact e ▸ hy
  · intro h
    exact ⟨fun x hx => ⟨x, (h x).1 hx, rfl⟩, fun x hx => ⟨x, (h x).2 hx, rfl⟩⟩


/-! ### the finite map denotes a `Spec`; `enext` mirrors `Spec.next` -/

theorem abs_eJob (e : Store) (sid pid : String) : (abs e).jobs sid pid = (eJob e sid pid).map recOf := by
  simp only [abs, eJob]
  cases aget sid e.data <;> simp

theorem abs_eJobOf (e : Store) (jid : String) : (abs e).recOfJob jid = (eJobOf e jid).map recOf := by
  simp only [Spec.recOfJob, eJobOf]
  cases parseJobId jid with
  | none => rfl
  | some x => obtain ⟨sid, pid⟩ := x; exact abs_eJob e sid pid

theorem findJob_eJob (e : Store) (jid : String) :
    (∃ sid pid S j, findJob e jid = .ok (sid, pid, S, j) ∧ parseJobId jid = some (sid, pid) ∧ eJob e sid pid = some j) ∨
    ((∃ err, findJob e jid = .error err) ∧ eJobOf e jid = none) := by
  rcases h : findJob e jid with err | ⟨sid, pid, S, j⟩
  · right
    refine ⟨⟨err, rfl⟩, ?_⟩
    have := abs_eJobOf e jid
    rcases findJob_error_abs h with ⟨hp, _⟩ | ⟨sid, pid, hp, hj, _⟩
    · simp [eJobOf, hp]
    · simp only [Spec.recOfJob, hp, hj] at this
      cases hx : eJobOf e jid with
      | none => rfl
      | some j => rw [hx] at this; simp at this
  · left
    obtain ⟨hp, hS, hj⟩ := findJob_ok h
    exact ⟨sid, pid, S, j, rfl, hp, by simp [eJob, hS, hj]⟩

theorem abs_newSearch_gen (e : Store) (sid : String) :
    abs { e with data := aset sid ⟨0, [], []⟩ e.data } =
      { vals := upd (abs e).vals sid (some (fun _ => none)),
        jobs := fun x p => if x = sid then none else (abs e).jobs x p } := by
  apply Spec.ext'
  · intro x
    simp only [abs, aget_aset, upd]
    split <;> simp [recOf_nil]
  · intro x p
    simp only [abs, aget_aset]
    split <;> simp [aget]

/-- a store to a job that does not exist leaves the map as it is -/
theorem storeKey_missing (a : Spec) (jid key : String) (v : Val) (h : a.recOfJob jid = none) :
    a.storeKey jid key v = a := by
  unfold Spec.storeKey
  unfold Spec.recOfJob at h
  cases hp : parseJobId jid with
  | none => rfl
  | some x =>
    obtain ⟨sid, pid⟩ := x
    simp only [hp] at h
    simp only [Spec.setKey]
    apply Spec.ext'
    · intro s; rfl
    · intro s p
      simp only
      split
      · rename_i hsp; rw [hsp.1, hsp.2, h]; rfl
      · rfl

theorem abs_storeJob (e : Store) (jid key : String) (v : Val) :
    abs (storeJob e jid key v).1 = (abs e).storeKey jid key v := by
  rcases storeJob_abs e jid key v with ⟨err, h1, h2⟩ | ⟨_, h2⟩
  · rw [h2]
    symm
    apply storeKey_missing
    -- the store failed: no such job
    rcases findJob_eJob e jid with ⟨sid, pid, S, j, hf, _, _⟩ | ⟨_, hnone⟩
    · simp [storeJob, hf] at h1
    · rw [abs_eJobOf, hnone]; rfl
  · exact h2

theorem abs_storeJobMetadata (e : Store) (jid key : String) (v : Val) :
    abs (storeJobMetadata e jid key v).1 = (abs e).next (.storeJobMetadata jid key v) .none := by
  simp only [Spec.next]
  rcases h : findJob e jid with err | ⟨sid, pid, S, j⟩
  · have : (abs e).recOfJob jid = none := by
      rcases findJob_eJob e jid with ⟨sid, pid, S, j, hf, _, _⟩ | ⟨_, hnone⟩
      · rw [h] at hf; cases hf
      · rw [abs_eJobOf, hnone]; rfl
    simp [storeJobMetadata, h, this]
  · have hrec := abs_recOfJob h
    rcases hm : aget "metadata" j with _ | mv
    · have : ((abs e).recOfJob jid).bind (· "metadata") = none := by rw [hrec]; simpa [recOf] using hm
      simp [storeJobMetadata, h, hm, this]
    · have hb : ((abs e).recOfJob jid).bind (· "metadata") = some mv := by rw [hrec]; simpa [recOf] using hm
      cases mv with
      | dict m =>
        rw [storeJobMetadata_eq h hm, abs_storeJob]
        simp only [hb]
      | none => simp [storeJobMetadata, h, hm, hb]
      | bool b => simp [storeJobMetadata, h, hm, hb]
      | int i => simp [storeJobMetadata, h, hm, hb]
      | num q => simp [storeJobMetadata, h, hm, hb]
      | str x => simp [storeJobMetadata, h, hm, hb]
      | list l => simp [storeJobMetadata, h, hm, hb]
      | tuple l => simp [storeJobMetadata, h, hm, hb]

/-- `enext` follows `Spec.next` whenever the answer passed the check -/
theorem abs_enext (e : Store) (op : Op) (out : Out) (hc : checkAns e op out = true) :
    abs (enext e op out) = (abs e).next op out := by
  cases op with
  | createSearch =>
    cases out with
    | id sid => exact abs_newSearch_gen e sid
    | _ => rfl
  | createJob sid =>
    cases out with
    | id x =>
      simp only [checkAns] at hc
      rcases hS : aget sid e.data with _ | S
      · simp [hS, isErr] at hc
      · simp only [hS] at hc
        rcases hp : parseJobId x with _ | ⟨s, p⟩
        · simp [hp] at hc
        · simp only [hp, Bool.and_eq_true, beq_iff_eq] at hc
          obtain ⟨rfl, _⟩ := hc
          simp only [enext, Spec.next, hp, hS]
          exact abs_setJobs newJob hS S.counter
    | _ => rfl
  | storeJob jid key v =>
    cases out with
    | none => exact abs_storeJob e jid key v
    | _ => rfl
  | storeJobIn jid a k =>
    cases out with
    | none => exact abs_storeJob e jid _ _
    | _ => rfl
  | storeJobOut jid v =>
    cases out with
    | none => exact abs_storeJob e jid _ _
    | _ => rfl
  | storeJobStatus jid v =>
    cases out with
    | none => exact abs_storeJob e jid _ _
    | _ => rfl
  | storeJobMetadata jid key v =>
    cases out with
    | none => exact abs_storeJobMetadata e jid key v
    | _ => rfl
  | storeSearchValue sid key v =>
    cases out with
    | none =>
      simp only [enext, Spec.next]
      rcases hS : aget sid e.data with _ | S
      · simp only
        apply Spec.ext'
        · intro s
          simp only
          split
          · rename_i es; rw [es, abs_vals_none hS]; rfl
          · rfl
        · intro s p; rfl
      · exact abs_setFree hS key v
    | _ => rfl
  | loadAllSearchIds => cases out <;> rfl
  | loadAllJobIds sid => cases out <;> rfl
  | loadSearch sid => cases out <;> rfl
  | loadJob jid => cases out <;> rfl
  | loadSearchValue sid key => cases out <;> rfl
  | loadMetadataFromAllJobs sid key => cases out <;> rfl
  | loadOutFromAllJobs sid => cases out <;> rfl
  | loadJobs jids => cases out <;> rfl
  | loadJobStatus jid => cases out <;> rfl

/-! ### job keys stay duplicate-free -/

def ND (e : Store) : Prop := ∀ sid S, aget sid e.data = some S → (keys S.jobs).Nodup

theorem keys_aset_nodup {α : Type} (k : String) (v : α) (l : List (String × α)) (h : (keys l).Nodup) :
    (keys (aset k v l)).Nodup := by
  rcases hk : aget k l with _ | x
  · rw [keys_aset_of_not_mem k v l hk]
    refine List.nodup_append.2 ⟨h, by simp, ?_⟩
    intro a ha b hb
    simp only [List.mem_singleton] at hb
    subst hb
    intro e; subst e
    have := (mem_keys_iff _ _).1 ha
    rw [hk] at this; simp at this
  · rw [keys_aset_of_mem k v l (by simp [hk])]
    exact h

theorem ND_set {e : Store} (h : ND e) (sid : String) (S' : Search) (hS' : (keys S'.jobs).Nodup) :
    ND { e with data := aset sid S' e.data } := by
  intro x S hx
  simp only [aget_aset] at hx
  split at hx
  · cases hx; exact hS'
  · exact h x S hx

theorem ND_effect {s s' : Store} (ef : Effect s s') (h : ND s) : ND s' := by
  cases ef with
  | same => exact h
  | newSearch => exact ND_set h _ _ (by simp [keys])
  | newJob sid S hS => exact ND_set h _ _ (keys_aset_nodup _ _ _ (h sid S hS))
  | setJob sid pid S j j' hS hj => exact ND_set h _ _ (keys_aset_nodup _ _ _ (h sid S hS))
  | setFree sid S f' hS => exact ND_set h _ _ (h sid S hS)

theorem ND_enext (e : Store) (op : Op) (out : Out) (h : ND e) : ND (enext e op out) := by
  cases op with
  | createSearch =>
    cases out with
    | id sid => exact ND_set h _ _ (by simp [keys])
    | _ => exact h
  | createJob sid =>
    cases out with
    | id x =>
      simp only [enext]
      split
      · split
        · rename_i S hS; exact ND_set h _ _ (keys_aset_nodup _ _ _ (h _ S hS))
        · exact h
      · exact h
    | _ => exact h
  | storeJob jid key v =>
    cases out with
    | none => exact ND_effect (storeJob_effect e jid key v) h
    | _ => exact h
  | storeJobIn jid a k =>
    cases out with
    | none => exact ND_effect (storeJob_effect e jid _ _) h
    | _ => exact h
  | storeJobOut jid v =>
    cases out with
    | none => exact ND_effect (storeJob_effect e jid _ _) h
    | _ => exact h
  | storeJobStatus jid v =>
    cases out with
    | none => exact ND_effect (storeJob_effect e jid _ _) h
    | _ => exact h
  | storeJobMetadata jid key v =>
    cases out with
    | none => exact ND_effect (storeJobMetadata_effect e jid key v) h
    | _ => exact h
  | storeSearchValue sid key v =>
    cases out with
    | none =>
      simp only [enext]
      split
      · rename_i S hS; exact ND_set h _ _ (h sid S hS)
      · exact h
    | _ => exact h
  | loadAllSearchIds => cases out <;> exact h
  | loadAllJobIds sid => cases out <;> exact h
  | loadSearch sid => cases out <;> exact h
  | loadJob jid => cases out <;> exact h
  | loadSearchValue sid key => cases out <;> exact h
  | loadMetadataFromAllJobs sid key => cases out <;> exact h
  | loadOutFromAllJobs sid => cases out <;> exact h
  | loadJobs jids => cases out <;> exact h
  | loadJobStatus jid => cases out <;> exact h


/-! ### `checkAns` decides `Spec.answers` -/

theorem mem_filterMap_aget (f : Job → Option Val) (v : Val) : ∀ (jobs : List (String × Job)), (keys jobs).Nodup →
    (v ∈ jobs.filterMap (fun pj => f pj.2) ↔ ∃ p j, aget p jobs = some j ∧ f j = some v)
  | [], _ => by simp [aget]
  | (p0, j0) :: r, hnd => by
    have hnd' : (keys r).Nodup := by
      simp only [keys, List.map_cons, List.nodup_cons] at hnd; exact hnd.2
    have ih := mem_filterMap_aget f v r hnd'
    simp only [List.filterMap_cons]
    constructor
    · intro h
      have : f j0 = some v ∨ v ∈ r.filterMap (fun pj => f pj.2) := by
        cases hf : f j0 with
        | none => rw [hf] at h; exact Or.inr h
        | some w =>
          rw [hf] at h
          rcases List.mem_cons.1 h with e | e
          · exact Or.inl (by rw [e])
          · exact Or.inr e
      rcases this with h0 | h1
      · exact ⟨p0, j0, by simp [aget], h0⟩
      · obtain ⟨p, j, hp, hj⟩ := ih.1 h1
        have hne : p0 ≠ p := aget_of_mem_keys_ne hnd (by simp [hp])
        exact ⟨p, j, by simp [aget, hne, hp], hj⟩
    · rintro ⟨p, j, hp, hj⟩
      by_cases e : p0 = p
      · subst e
        simp only [aget, if_true, Option.some.injEq] at hp
        subst hp
        rw [hj]; exact List.mem_cons_self
      · simp only [aget, e, if_false] at hp
        have := ih.2 ⟨p, j, hp, hj⟩
        cases f j0 with
        | none => exact this
        | some w => exact List.mem_cons_of_mem _ this

theorem notNone_eq_some (x v : Val) : notNone x = some v ↔ (x = v ∧ isNone v = false) := by
  unfold notNone
  cases h : isNone x with
  | true =>
    simp only [if_true]
    constructor
    · intro h'; cases h'
    · rintro ⟨rfl, h'⟩; rw [h] at h'; cases h'
  | false =>
    simp only [Bool.false_eq_true, if_false, Option.some.injEq]
    constructor
    · intro e; subst e; exact ⟨rfl, h⟩
    · rintro ⟨e, _⟩; exact e

theorem outCand_iff (j : Job) (v : Val) :
    (aget "out" j).bind notNone = some v ↔ (isNone v = false ∧ aget "out" j = some v) := by
  cases h : aget "out" j with
  | none => simp
  | some x =>
    simp only [Option.bind_some, notNone_eq_some, Option.some.injEq]
    constructor
    · rintro ⟨e, hn⟩; exact ⟨hn, e⟩
    · rintro ⟨hn, e⟩; exact ⟨e, hn⟩

theorem metaCand_iff (key : String) (j : Job) (v : Val) :
    metaCand key j = some v ↔ (isNone v = false ∧ ∃ m, aget "metadata" j = some (.dict m) ∧ aget key m = some v) := by
  unfold metaCand
  rcases h : aget "metadata" j with _ | mv
  · simp
  · cases mv with
    | dict m =>
      simp only [Option.some.injEq, Val.dict.injEq, exists_eq_left']
      cases hk : aget key m with
      | none => simp
      | some x =>
        simp only [Option.bind_some, notNone_eq_some, Option.some.injEq]
        constructor
        · rintro ⟨e, hn⟩; exact ⟨hn, e⟩
        · rintro ⟨hn, e⟩; exact ⟨e, hn⟩
    | none => simp
    | bool b => simp
    | int i => simp
    | num q => simp
    | str x => simp
    | list l => simp
    | tuple l => simp

theorem abs_jobs_of_search {e : Store} {sid : String} {S : Search} (hS : aget sid e.data = some S) (pid : String) :
    (abs e).jobs sid pid = (aget pid S.jobs).map recOf := by
  simp [abs, hS]

theorem checkStore_iff (e : Store) (jid : String) (out : Out) :
    checkStore e jid out = true ↔ (abs e).storeAnswer jid out := by
  unfold checkStore Spec.storeAnswer
  cases parseJobId jid with
  | none => simp only [isErr_iff]
  | some x =>
    obtain ⟨sid, pid⟩ := x
    simp only [abs_eJob]
    cases eJob e sid pid with
    | none => simp only [Option.map_none, isErr_iff]
    | some j => simp only [Option.map_some, isNoneOut_iff]

theorem checkAns_iff (e : Store) (hnd : ND e) (op : Op) (out : Out) :
    checkAns e op out = true ↔ (abs e).answers op out := by
  cases op with
  | createSearch =>
    simp only [checkAns, Spec.answers]
    cases out with
    | id x =>
      simp only [Out.id.injEq, exists_eq_left']
      simp only [abs]
      cases aget x e.data <;> simp
    | _ => simp
  | createJob sid =>
    simp only [checkAns, Spec.answers]
    rcases hS : aget sid e.data with _ | S
    · simp only [abs_vals_none hS, isErr_iff]
    · simp only [abs_vals_of hS]
      cases out with
      | id x =>
        constructor
        · intro h
          rcases hp : parseJobId x with _ | ⟨s, p⟩
          · simp [hp] at h
          · simp only [hp, Bool.and_eq_true, beq_iff_eq] at h
            obtain ⟨rfl, hnone⟩ := h
            refine ⟨p, by rw [parseJobId_eq hp], by rw [← parseJobId_eq hp]; exact hp, ?_⟩
            rw [abs_jobs_of_search hS]
            cases hx : aget p S.jobs with
            | none => rfl
            | some j => simp [hx] at hnone
        · rintro ⟨pid, hx, hp, hj⟩
          simp only [Out.id.injEq] at hx
          subst hx
          simp only [hp, beq_self_eq_true, Bool.true_and]
          rw [abs_jobs_of_search hS] at hj
          cases hx : aget pid S.jobs with
          | none => rfl
          | some j => simp [hx] at hj
      | _ => simp
  | storeJob jid key v => exact checkStore_iff e jid out
  | storeJobIn jid a k => exact checkStore_iff e jid out
  | storeJobOut jid v => exact checkStore_iff e jid out
  | storeJobStatus jid v => exact checkStore_iff e jid out
  | storeJobMetadata jid key v =>
    simp only [checkAns, Spec.answers]
    cases parseJobId jid with
    | none => simp only [isErr_iff]
    | some x =>
      obtain ⟨sid, pid⟩ := x
      simp only [abs_eJob]
      cases eJob e sid pid with
      | none => simp only [Option.map_none, isErr_iff]
      | some j =>
        simp only [Option.map_some, recOf]
        rcases aget "metadata" j with _ | mv
        · simp only [isErr_iff]
        · cases mv <;> simp only [isErr_iff, isNoneOut_iff]
  | storeSearchValue sid key v =>
    simp only [checkAns, Spec.answers]
    rcases hS : aget sid e.data with _ | S
    · simp only [abs_vals_none hS, isErr_iff]
    · simp only [abs_vals_of hS, isNoneOut_iff]
  | loadAllSearchIds =>
    simp only [checkAns, Spec.answers]
    cases out with
    | ids l =>
      simp only [sameSet_iff, Out.ids.injEq, exists_eq_left']
      constructor
      · intro h sid
        rw [h sid, mem_keys_iff]
        simp only [abs]; cases aget sid e.data <;> simp
      · intro h sid
        rw [h sid, mem_keys_iff]
        simp only [abs]; cases aget sid e.data <;> simp
    | _ => simp
  | loadAllJobIds sid =>
    simp only [checkAns, Spec.answers]
    rcases hS : aget sid e.data with _ | S
    · simp only [abs_vals_none hS, isErr_iff]
    · simp only [abs_vals_of hS]
      cases out with
      | ids l =>
        simp only [sameSet_iff, Out.ids.injEq, exists_eq_left']
        have key : ∀ x, x ∈ (keys S.jobs).map (jobId sid) ↔ ∃ pid, x = jobId sid pid ∧ ((abs e).jobs sid pid).isSome = true := by
          intro x
          simp only [List.mem_map, abs_jobs_of_search hS]
          constructor
          · rintro ⟨pid, hp, rfl⟩
            have := (mem_keys_iff pid S.jobs).1 hp
            exact ⟨pid, rfl, by cases h : aget pid S.jobs <;> simp_all⟩
          · rintro ⟨pid, rfl, hp⟩
            exact ⟨pid, (mem_keys_iff pid S.jobs).2 (by cases h : aget pid S.jobs <;> simp_all), rfl⟩
        constructor
        · intro h x; rw [h x, key x]
        · intro h x; rw [h x, key x]
      | _ => simp
  | loadSearch sid =>
    simp only [checkAns, Spec.answers]
    rcases hS : aget sid e.data with _ | S
    · simp only [abs_vals_none hS, isErr_iff]
    · simp only [abs_vals_of hS]
      have body : ∀ (kvs : List (String × Val)) (pid : String),
          (match aget pid kvs, aget pid S.jobs with
            | some (.dict kv), some j => mapEq kv j
            | none, none => true
            | _, _ => false) = true ↔
          (match aget pid kvs, (abs e).jobs sid pid with
            | some (.dict kv), some r => Holds kv r
            | none, none => True
            | _, _ => False) := by
        intro kvs pid
        rw [abs_jobs_of_search hS]
        rcases aget pid kvs with _ | x <;> rcases aget pid S.jobs with _ | j
        · simp
        · simp
        · cases x <;> simp
        · cases x <;> simp [mapEq_iff]
      cases out with
      | val v =>
        cases v with
        | dict kvs =>
          simp only [Out.val.injEq, Val.dict.injEq, exists_eq_left', List.all_eq_true]
          constructor
          · intro h pid
            by_cases hk : pid ∈ keys kvs ++ keys S.jobs
            · exact (body kvs pid).1 (h pid hk)
            · simp only [List.mem_append, not_or] at hk
              have h1 : aget pid kvs = none := by
                rcases hx : aget pid kvs with _ | v
                · rfl
                · exact absurd ((mem_keys_iff pid kvs).2 (by simp [hx])) hk.1
              have h2 : aget pid S.jobs = none := by
                rcases hx : aget pid S.jobs with _ | v
                · rfl
                · exact absurd ((mem_keys_iff pid S.jobs).2 (by simp [hx])) hk.2
              rw [abs_jobs_of_search hS, h1, h2]; trivial
          · intro h pid _; exact (body kvs pid).2 (h pid)
        | _ => simp
      | _ => simp
  | loadJob jid =>
    simp only [checkAns, Spec.answers]
    cases parseJobId jid with
    | none => simp only [isErr_iff]
    | some x =>
      obtain ⟨sid, pid⟩ := x
      simp only [abs_eJob]
      cases eJob e sid pid with
      | none => simp only [Option.map_none, isErr_iff]
      | some j =>
        simp only [Option.map_some]
        cases out with
        | val v =>
          cases v with
          | dict kvs => simp only [mapEq_iff, Out.val.injEq, Val.dict.injEq, exists_eq_left']
          | _ => simp
        | _ => simp
  | loadJobStatus jid =>
    simp only [checkAns, Spec.answers]
    cases parseJobId jid with
    | none => simp only [isErr_iff]
    | some x =>
      obtain ⟨sid, pid⟩ := x
      simp only [abs_eJob]
      cases eJob e sid pid with
      | none => simp only [Option.map_none, isErr_iff]
      | some j =>
        simp only [Option.map_some, recOf]
        cases aget "status" j with
        | none => simp only [isErr_iff]
        | some v => simp only [isVal_iff]
  | loadSearchValue sid key =>
    simp only [checkAns, Spec.answers]
    rcases hS : aget sid e.data with _ | S
    · simp only [abs_vals_none hS, isErr_iff]
    · simp only [abs_vals_of hS, recOf]
      by_cases hr : reservedKey key = true
      · simp [hr]
      · simp only [hr, Bool.false_eq_true, if_false]
        cases aget key S.free with
        | none => simp only [isErr_iff]
        | some v => simp only [isVal_iff]
  | loadOutFromAllJobs sid =>
    simp only [checkAns, Spec.answers]
    rcases hS : aget sid e.data with _ | S
    · simp only [abs_vals_none hS, isErr_iff]
    · simp only [abs_vals_of hS]
      have key : ∀ v, v ∈ S.jobs.filterMap (fun pj => (aget "out" pj.2).bind notNone) ↔
          (isNone v = false ∧ ∃ pid r, (abs e).jobs sid pid = some r ∧ r "out" = some v) := by
        intro v
        rw [mem_filterMap_aget (fun j => (aget "out" j).bind notNone) v S.jobs (hnd sid S hS)]
        constructor
        · rintro ⟨p, j, hp, hj⟩
          obtain ⟨hn, ho⟩ := (outCand_iff j v).1 hj
          exact ⟨hn, p, recOf j, by rw [abs_jobs_of_search hS, hp]; rfl, ho⟩
        · rintro ⟨hn, p, r, hp, ho⟩
          rw [abs_jobs_of_search hS] at hp
          rcases hj : aget p S.jobs with _ | j
          · simp [hj] at hp
          · simp only [hj, Option.map_some, Option.some.injEq] at hp
            subst hp
            exact ⟨p, j, hj, (outCand_iff j v).2 ⟨hn, ho⟩⟩
      cases out with
      | vals l =>
        simp only [sameVals_iff, Out.vals.injEq, forall_eq']
        constructor
        · intro h v; rw [h v, key v]
        · intro h v; rw [h v, key v]
      | _ => simp
  | loadMetadataFromAllJobs sid mkey =>
    simp only [checkAns, Spec.answers]
    rcases hS : aget sid e.data with _ | S
    · simp only [abs_vals_none hS, isErr_iff]
    · simp only [abs_vals_of hS]
      have key : ∀ v, v ∈ S.jobs.filterMap (fun pj => metaCand mkey pj.2) ↔
          (isNone v = false ∧ ∃ pid r m, (abs e).jobs sid pid = some r ∧ r "metadata" = some (.dict m) ∧ aget mkey m = some v) := by
        intro v
        rw [mem_filterMap_aget (metaCand mkey) v S.jobs (hnd sid S hS)]
        constructor
        · rintro ⟨p, j, hp, hj⟩
          obtain ⟨hn, m, hm, ho⟩ := (metaCand_iff mkey j v).1 hj
          exact ⟨hn, p, recOf j, m, by rw [abs_jobs_of_search hS, hp]; rfl, hm, ho⟩
        · rintro ⟨hn, p, r, m, hp, hm, ho⟩
          rw [abs_jobs_of_search hS] at hp
          rcases hj : aget p S.jobs with _ | j
          · simp [hj] at hp
          · simp only [hj, Option.map_some, Option.some.injEq] at hp
            subst hp
            exact ⟨p, j, hj, (metaCand_iff mkey j v).2 ⟨hn, m, hm, ho⟩⟩
      cases out with
      | vals l =>
        simp only [sameVals_iff, Out.vals.injEq, forall_eq']
        constructor
        · intro h v; rw [h v, key v]
        · intro h v; rw [h v, key v]
      | _ => simp
  | loadJobs jids =>
    simp only [checkAns, Spec.answers]
    have body : ∀ (d : List (String × Val)) (jid : String),
        (match aget jid d with
          | none => !jids.contains jid
          | some (.dict kv) => jids.contains jid && (match eJobOf e jid with | some j => mapEq kv j | none => false)
          | some _ => false) = true ↔
        (match aget jid d with
          | none => jid ∉ jids
          | some (.dict kv) => jid ∈ jids ∧ ∃ r, (abs e).recOfJob jid = some r ∧ Holds kv r
          | some _ => False) := by
      intro d jid
      rcases aget jid d with _ | x
      · simp
      · cases x with
        | dict kv =>
          simp only [Bool.and_eq_true, List.contains_iff_mem, abs_eJobOf]
          cases eJobOf e jid with
          | none => simp
          | some j => simp [mapEq_iff]
        | _ => simp
    cases out with
    | val v =>
      cases v with
      | dict d =>
        simp only [Out.val.injEq, Val.dict.injEq, forall_eq', List.all_eq_true]
        constructor
        · intro h jid
          by_cases hk : jid ∈ keys d ++ jids
          · exact (body d jid).1 (h jid hk)
          · simp only [List.mem_append, not_or] at hk
            have h1 : aget jid d = none := by
              rcases hx : aget jid d with _ | v
              · rfl
              · exact absurd ((mem_keys_iff jid d).2 (by simp [hx])) hk.1
            rw [h1]; exact hk.2
        · intro h jid _; exact (body d jid).2 (h jid)
      | _ => simp
    | _ => simp

/-- the checker follows the specification step by step -/
theorem checkHistoryFrom_iff : ∀ (h : List (Op × Out)) (e : Store), ND e →
    (checkHistoryFrom e h = true ↔ SpecRun (abs e) h) := by
  intro h
  induction h with
  | nil => intro e _; simp [checkHistoryFrom, SpecRun]
  | cons x h ih =>
    intro e hnd
    obtain ⟨op, out⟩ := x
    simp only [checkHistoryFrom, SpecRun, Bool.and_eq_true]
    constructor
    · rintro ⟨h1, h2⟩
      refine ⟨(checkAns_iff e hnd op out).1 h1, ?_⟩
      rw [← abs_enext e op out h1]
      exact (ih _ (ND_enext e op out hnd)).1 h2
    · rintro ⟨h1, h2⟩
      have hc := (checkAns_iff e hnd op out).2 h1
      refine ⟨hc, ?_⟩
      rw [← abs_enext e op out hc] at h2
      exact (ih _ (ND_enext e op out hnd)).2 h2

theorem abs_init : abs Store.init = Spec.empty := by
  apply Spec.ext' <;> intros <;> rfl

theorem ND_init : ND Store.init := by
  intro sid S h; simp [Store.init, aget] at h

end DH.Storage
