import Mathlib.Tactic.Ring
import Mathlib.Tactic.Linarith
import Mathlib.Tactic.Positivity
import Mathlib.Tactic.FieldSimp
import Mathlib.Tactic.NormNum
import Model.Select

/-! Helper lemmas for C20 (`Model/Select.lean`). -/

namespace DH.Select


/-! ### argsort -/

theorem insertBy_perm (key : Nat → Rat) (i : Nat) (l : List Nat) : (insertBy key i l).Perm (i :: l) := by
  induction l with
  | nil => simp [insertBy]
  | cons j js ih =>
    simp only [insertBy]
    split
    · exact List.Perm.refl _
    · exact (List.Perm.cons j ih).trans (List.Perm.swap i j js)

theorem argsort_perm (key : Nat → Rat) (n : Nat) : (argsort key n).Perm (List.range n) := by
  unfold argsort
  induction List.range n with
  | nil => simp
  | cons i l ih => exact (insertBy_perm key i _).trans (List.Perm.cons i ih)

theorem insertBy_sorted (key : Nat → Rat) (i : Nat) (l : List Nat)
    (h : l.Pairwise (fun a b => key a ≤ key b)) : (insertBy key i l).Pairwise (fun a b => key a ≤ key b) := by
  induction l with
  | nil => simp [insertBy]
  | cons j js ih =>
    simp only [insertBy]
    have hj := List.pairwise_cons.1 h
    split
    · rename_i hij
      refine List.pairwise_cons.2 ⟨?_, h⟩
      intro b hb
      rcases List.mem_cons.1 hb with rfl | hb
      · exact hij
      · exact le_trans hij (hj.1 b hb)
    · rename_i hij
      refine List.pairwise_cons.2 ⟨?_, ih hj.2⟩
      intro b hb
      rcases List.mem_cons.1 ((insertBy_perm key i js).subset hb) with rfl | hb
      · exact le_of_lt (lt_of_not_ge hij)
      · exact hj.1 b hb

theorem argsort_sorted (key : Nat → Rat) (n : Nat) :
    (argsort key n).Pairwise (fun a b => key a ≤ key b) := by
  unfold argsort
  induction List.range n with
  | nil => simp
  | cons i l ih => exact insertBy_sorted key i _ ih

/-- what `np.argsort(losses)` is assumed to return: a permutation of `range n`, non-decreasing in loss
(whatever it does with ties) -/
def OrderOK (n : Nat) (losses : Nat → Rat) (order : List Nat) : Prop :=
  order.Perm (List.range n) ∧ order.Pairwise (fun a b => losses a ≤ losses b)

theorem argsort_ok (losses : Nat → Rat) (n : Nat) : OrderOK n losses (argsort losses n) :=
  ⟨argsort_perm losses n, argsort_sorted losses n⟩

theorem OrderOK.length {n losses order} (h : OrderOK n losses order) : order.length = n := by
  simpa using h.1.length_eq

theorem OrderOK.mem {n losses order} (h : OrderOK n losses order) (i : Nat) : i ∈ order ↔ i < n := by
  rw [h.1.mem_iff]; simp

theorem OrderOK.nodup {n losses order} (h : OrderOK n losses order) : order.Nodup :=
  (h.1.nodup_iff).2 List.nodup_range

/-! ### top-k -/

theorem topK_spec {n : Nat} {losses : Nat → Rat} {order : List Nat} (h : OrderOK n losses order) (k : Nat) :
    (topK order k).1.length = min k n ∧ (topK order k).1.Nodup ∧ (∀ i ∈ (topK order k).1, i < n) ∧
    (∀ i ∈ (topK order k).1, ∀ j, j < n → j ∉ (topK order k).1 → losses i ≤ losses j) ∧
    (topK order k).2 = List.replicate (min k n) 1 := by
  have hlen := h.length
  simp only [topK]
  refine ⟨by simp [hlen], (List.take_sublist k order).nodup h.nodup, ?_, ?_, by simp [hlen]⟩
  · intro i hi; exact (h.mem i).1 (List.mem_of_mem_take hi)
  · intro i hi j hj hnj
    have hjo : j ∈ order := (h.mem j).2 hj
    rw [← List.take_append_drop k order] at hjo
    rcases List.mem_append.1 hjo with hjt | hjd
    · exact absurd hjt hnj
    · have hp := h.2
      rw [← List.take_append_drop k order, List.pairwise_append] at hp
      exact hp.2.2 i hi j hjd



/-! ### unique / counts -/

theorem mem_uniqueCounts {n : Nat} {sel : List Nat} {p : Nat × Nat} :
    p ∈ uniqueCounts n sel ↔ p.1 < n ∧ p.1 ∈ sel ∧ p.2 = sel.count p.1 := by
  simp only [uniqueCounts, List.mem_filterMap, List.mem_range]
  constructor
  · rintro ⟨i, hi, h⟩
    split at h
    · simp at h
    · rename_i hc
      simp only [Option.some.injEq] at h
      subst h
      exact ⟨hi, List.count_pos_iff.1 (Nat.pos_of_ne_zero hc), rfl⟩
  · rintro ⟨h1, h2, h3⟩
    refine ⟨p.1, h1, ?_⟩
    have : sel.count p.1 ≠ 0 := Nat.pos_iff_ne_zero.1 (List.count_pos_iff.2 h2)
    have hp2 : p.2 ≠ 0 := h3 ▸ this
    simp [← h3, hp2]

theorem uniqueCounts_fst (n : Nat) (sel : List Nat) :
    (uniqueCounts n sel).map (·.1) = (List.range n).filter (fun i => decide (i ∈ sel)) := by
  unfold uniqueCounts
  induction List.range n with
  | nil => simp
  | cons i l ih =>
    simp only [List.filterMap_cons, List.filter_cons]
    by_cases hi : i ∈ sel
    · have : sel.count i ≠ 0 := Nat.pos_iff_ne_zero.1 (List.count_pos_iff.2 hi)
      simp [this, hi, ih]
    · have : sel.count i = 0 := List.count_eq_zero.2 hi
      simp [this, hi, ih]

theorem uniqueCounts_nodup (n : Nat) (sel : List Nat) : ((uniqueCounts n sel).map (·.1)).Nodup := by
  rw [uniqueCounts_fst]; exact List.nodup_range.filter _

theorem numUnique_eq (n : Nat) (sel : List Nat) :
    numUnique n sel = (List.range n).countP (fun i => decide (i ∈ sel)) := by
  unfold numUnique
  rw [← List.length_map (f := (·.1)), uniqueCounts_fst, List.countP_eq_length_filter]

theorem countP_or_le {α} (p q : α → Bool) (l : List α) :
    l.countP (fun x => p x || q x) ≤ l.countP p + l.countP q := by
  induction l with
  | nil => simp
  | cons a l ih =>
    simp only [List.countP_cons]
    cases p a <;> cases q a <;> simp <;> omega

theorem numUnique_singleton_le (n i : Nat) : numUnique n [i] ≤ 1 := by
  rw [numUnique_eq]
  have h := (List.nodup_iff_count (l := List.range n)).1 List.nodup_range i
  have : (List.range n).countP (fun j => decide (j ∈ [i])) = (List.range n).count i := by
    simp only [List.count, List.mem_singleton]
    congr 1
  omega

theorem numUnique_append_le (n : Nat) (l₁ l₂ : List Nat) :
    numUnique n (l₁ ++ l₂) ≤ numUnique n l₁ + numUnique n l₂ := by
  simp only [numUnique_eq]
  have : (fun i => decide (i ∈ l₁ ++ l₂)) = (fun i => decide (i ∈ l₁) || decide (i ∈ l₂)) := by
    funext i; simp
  rw [this]; exact countP_or_le _ _ _

theorem numUnique_snoc_le (n : Nat) (sel : List Nat) (i : Nat) : numUnique n (sel ++ [i]) ≤ numUnique n sel + 1 := by
  have := numUnique_append_le n sel [i]
  have := numUnique_singleton_le n i
  omega

theorem numUnique_nil (n : Nat) : numUnique n [] = 0 := by
  simp [numUnique_eq]

theorem numUnique_le_length (n : Nat) (sel : List Nat) : numUnique n sel ≤ sel.length := by
  induction sel with
  | nil => simp [numUnique_nil]
  | cons a sel ih =>
    have := numUnique_append_le n [a] sel
    have := numUnique_singleton_le n a
    simp only [List.singleton_append] at *
    simp only [List.length_cons]; omega

theorem numUnique_mono {n : Nat} {l₁ l₂ : List Nat} (h : ∀ i ∈ l₁, i ∈ l₂) : numUnique n l₁ ≤ numUnique n l₂ := by
  simp only [numUnique_eq]
  exact List.countP_mono_left (fun x _ hx => by simpa using h x (by simpa using hx))

/-- appending an index that is valid and new adds exactly one unique member -/
theorem numUnique_snoc_new {n : Nat} {sel : List Nat} {i : Nat} (hi : i < n) (hni : i ∉ sel) :
    numUnique n (sel ++ [i]) = numUnique n sel + 1 := by
  simp only [numUnique_eq]
  have hrange : ∀ m, (List.range m).countP (fun j => decide (j ∈ sel ++ [i])) =
      (List.range m).countP (fun j => decide (j ∈ sel)) + if i < m then 1 else 0 := by
    intro m
    induction m with
    | zero => simp
    | succ m ih =>
      simp only [List.range_succ, List.countP_append, ih, List.countP_cons, List.countP_nil]
      by_cases hm : m = i
      · subst hm; simp [hni]
      · have h1 : ¬ i < m + 1 ↔ ¬ i < m := by omega
        by_cases him : i < m
        · have : i < m + 1 := by omega
          simp [him, this, hm]; omega
        · have : ¬ i < m + 1 := by omega
          simp [him, this, hm]
  rw [hrange n]; simp [hi]

/-! ### weights -/

theorem cast_sum_snd (l : List (Nat × Nat)) :
    (((l.map (·.2)).sum : Nat) : Rat) = (l.map (fun p => ((p.2 : Nat) : Rat))).sum := by
  induction l with
  | nil => simp
  | cons p l ih => rw [List.map_cons, List.sum_cons, List.map_cons, List.sum_cons, Nat.cast_add, ih]

theorem sum_div_const (l : List (Nat × Nat)) (T : Rat) :
    (l.map (fun p => ((p.2 : Nat) : Rat) / T)).sum = (l.map (fun p => ((p.2 : Nat) : Rat))).sum / T := by
  induction l with
  | nil => simp
  | cons p l ih => rw [List.map_cons, List.sum_cons, List.map_cons, List.sum_cons, add_div, ih]

theorem weightsOf_spec {uc : List (Nat × Nat)} (hne : uc ≠ []) (hpos : ∀ p ∈ uc, 0 < p.2) :
    (weightsOf uc).length = uc.length ∧ (∀ w ∈ weightsOf uc, 0 < w) ∧ (weightsOf uc).sum = 1 := by
  have htot : 0 < (uc.map (·.2)).sum := by
    cases uc with
    | nil => exact absurd rfl hne
    | cons p uc =>
      have := hpos p (by simp)
      simp only [List.map_cons, List.sum_cons]; omega
  have htotR : (0 : Rat) < ((uc.map (·.2)).sum : Nat) := by exact_mod_cast htot
  refine ⟨by simp [weightsOf], ?_, ?_⟩
  · intro w hw
    simp only [weightsOf, List.mem_map] at hw
    obtain ⟨p, hp, rfl⟩ := hw
    have : (0 : Rat) < (p.2 : Nat) := by exact_mod_cast hpos p hp
    exact div_pos this htotR
  · simp only [weightsOf]
    rw [sum_div_const, cast_sum_snd]
    exact div_self (by
      have := htotR
      rw [cast_sum_snd] at this
      exact ne_of_gt this)



/-! ### nanargmin, candidate losses -/

theorem nanargminFrom_spec (xs : List (Option Rat)) (i : Nat) (best : Option (Nat × Rat)) {j : Nat} {v : Rat}
    (h : nanargminFrom i best xs = some (j, v)) :
    best = some (j, v) ∨ (i ≤ j ∧ xs[j - i]? = some (some v)) := by
  induction xs generalizing i best with
  | nil => left; simpa [nanargminFrom] using h
  | cons x xs ih =>
    have shift : ∀ {j : Nat}, (i + 1 ≤ j ∧ xs[j - (i + 1)]? = some (some v)) →
        (i ≤ j ∧ (x :: xs)[j - i]? = some (some v)) := by
      intro j hj
      refine ⟨by omega, ?_⟩
      have : j - i = (j - (i + 1)) + 1 := by omega
      rw [this, List.getElem?_cons_succ]; exact hj.2
    have here : ∀ {y : Rat}, x = some y → some (i, y) = some (j, v) →
        (i ≤ j ∧ (x :: xs)[j - i]? = some (some v)) := by
      intro y hx hy
      simp only [Option.some.injEq, Prod.mk.injEq] at hy
      obtain ⟨rfl, rfl⟩ := hy
      simp [hx]
    cases x with
    | none =>
      simp only [nanargminFrom] at h
      rcases ih (i + 1) best h with h' | h'
      · exact Or.inl h'
      · exact Or.inr (shift h')
    | some y =>
      cases best with
      | none =>
        simp only [nanargminFrom] at h
        rcases ih (i + 1) (some (i, y)) h with h' | h'
        · exact Or.inr (here rfl h')
        · exact Or.inr (shift h')
      | some b =>
        obtain ⟨b, bv⟩ := b
        simp only [nanargminFrom] at h
        split at h
        · rcases ih (i + 1) (some (i, y)) h with h' | h'
          · exact Or.inr (here rfl h')
          · exact Or.inr (shift h')
        · rcases ih (i + 1) (some (b, bv)) h with h' | h'
          · exact Or.inl h'
          · exact Or.inr (shift h')

theorem nanargmin_spec {xs : List (Option Rat)} {j : Nat} {v : Rat} (h : nanargmin xs = some (j, v)) :
    xs[j]? = some (some v) := by
  rcases nanargminFrom_spec xs 0 none h with h' | h'
  · simp at h'
  · simpa using h'.2

theorem candLosses_spec {o : Opts} {n : Nat} {L : List (Nat × Nat) → Rat} {sel bag : List Nat} {j : Nat} {v : Rat}
    (h : (candLosses o n L sel bag)[j]? = some (some v)) :
    j < n ∧ eligible o sel bag j = true ∧ v = L (uniqueCounts n (sel ++ [j])) := by
  simp only [candLosses, List.getElem?_map, Option.map_eq_some_iff] at h
  obtain ⟨i, hi, h⟩ := h
  have hij : j < n ∧ i = j := by
    rw [List.getElem?_eq_some_iff] at hi
    obtain ⟨hlt, hget⟩ := hi
    simp at hlt hget
    exact ⟨hlt, hget.symm⟩
  obtain ⟨hj, rfl⟩ := hij
  split at h
  · rename_i he
    simp only [Option.some.injEq] at h
    exact ⟨hj, he, h.symm⟩
  · simp at h

/-- what one successful `nanargmin` of an iteration provides -/
theorem step_spec {o : Opts} {n : Nat} {L : List (Nat × Nat) → Rat} {sel bag : List Nat} {iMin : Nat} {lMin : Rat}
    (h : nanargmin (candLosses o n L sel bag) = some (iMin, lMin)) :
    iMin < n ∧ eligible o sel bag iMin = true ∧ lMin = L (uniqueCounts n (sel ++ [iMin])) :=
  candLosses_spec (nanargmin_spec h)

/-! ### the loop -/

theorem greedyLoop_unfold (o : Opts) (n : Nat) (L : List (Nat × Nat) → Rat) (bags : Nat → List Nat)
    (fuel it : Nat) (sel : List Nat) (lossMin : Rat) :
    greedyLoop o n L bags fuel it sel lossMin =
      if continues o n it sel then
        match fuel with
        | 0 => .outOfFuel
        | fuel' + 1 =>
          match nanargmin (candLosses o n L sel (bags it)) with
          | none => .ok sel
          | some (iMin, lMin) =>
            if stops o n sel lossMin iMin lMin then .ok sel
            else greedyLoop o n L bags fuel' (it + 1) (sel ++ [iMin]) lMin
      else .ok sel := by
  cases fuel with
  | zero => rw [greedyLoop]
  | succ f => rw [greedyLoop]; rfl

/-- invariants of the loop carry over to the returned list -/
theorem greedyLoop_inv (o : Opts) (n : Nat) (L : List (Nat × Nat) → Rat) (bags : Nat → List Nat)
    (P : List Nat → Rat → Prop)
    (step : ∀ it sel lossMin iMin lMin, P sel lossMin → continues o n it sel = true →
      nanargmin (candLosses o n L sel (bags it)) = some (iMin, lMin) →
      stops o n sel lossMin iMin lMin = false → P (sel ++ [iMin]) lMin) :
    ∀ fuel it sel lossMin sel', P sel lossMin →
      greedyLoop o n L bags fuel it sel lossMin = .ok sel' → ∃ lm, P sel' lm := by
  intro fuel
  induction fuel with
  | zero =>
    intro it sel lossMin sel' hP h
    rw [greedyLoop_unfold] at h
    split at h
    · simp at h
    · simp only [Res.ok.injEq] at h; subst h; exact ⟨_, hP⟩
  | succ fuel ih =>
    intro it sel lossMin sel' hP h
    rw [greedyLoop_unfold] at h
    split at h
    · rename_i hc
      simp only at h
      split at h
      · simp only [Res.ok.injEq] at h; subst h; exact ⟨_, hP⟩
      · rename_i iMin lMin hn
        split at h
        · simp only [Res.ok.injEq] at h; subst h; exact ⟨_, hP⟩
        · rename_i hs
          exact ih _ _ _ _ (step it sel lossMin iMin lMin hP hc hn (by simpa using hs)) h
    · simp only [Res.ok.injEq] at h; subst h; exact ⟨_, hP⟩

/-- the loop has no error branch: it returns or is still running -/
theorem greedyLoop_total (o : Opts) (n : Nat) (L : List (Nat × Nat) → Rat) (bags : Nat → List Nat) :
    ∀ fuel it sel lossMin, (∃ s, greedyLoop o n L bags fuel it sel lossMin = .ok s) ∨
      greedyLoop o n L bags fuel it sel lossMin = .outOfFuel := by
  intro fuel
  induction fuel with
  | zero =>
    intro it sel lossMin
    rw [greedyLoop_unfold]
    split
    · right; rfl
    · left; exact ⟨_, rfl⟩
  | succ fuel ih =>
    intro it sel lossMin
    rw [greedyLoop_unfold]
    split
    · simp only
      split
      · left; exact ⟨_, rfl⟩
      · split
        · left; exact ⟨_, rfl⟩
        · exact ih _ _ _
    · left; exact ⟨_, rfl⟩

end DH.Select
