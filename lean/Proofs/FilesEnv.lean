import Model.FilesEnv
import Proofs.Files

/-! Lemmas for the environment layer of C15 (`Model/FilesEnv.lean`): the protocol names only result files of
`log_dir`; such calls do the same in every mount layout; a copy fills its destination faithfully.  Core Lean
only. -/

namespace DH.Files

/-! ### every call of the protocol is local -/

@[simp] theorem evLocal_sys (op : Op) : evLocal (.sys op) = opLocal op := rfl
@[simp] theorem evLocal_created : evLocal .created = true := rfl
@[simp] theorem evLocal_reused : evLocal .reused = true := rfl
@[simp] theorem evLocal_done (j : Job) : evLocal (.done j) = true := rfl
@[simp] theorem evLocal_dumped (js : List Job) : evLocal (.dumped js) = true := rfl
@[simp] theorem opLocal_openW (n : Name) : opLocal (.openW n) = nameLocal n := rfl
@[simp] theorem opLocal_openA (n : Name) : opLocal (.openA n) = nameLocal n := rfl
@[simp] theorem opLocal_openR (n : Name) : opLocal (.openR n) = nameLocal n := rfl
@[simp] theorem opLocal_write (n : Name) (ls : List Line) : opLocal (.write n ls) = nameLocal n := rfl
@[simp] theorem opLocal_close (n : Name) : opLocal (.close n) = nameLocal n := rfl
@[simp] theorem opLocal_rename (a b : Name) : opLocal (.rename a b) = (nameLocal a && nameLocal b) := rfl
@[simp] theorem nameLocal_results : nameLocal .results = true := rfl
@[simp] theorem nameLocal_tmp : nameLocal .tmp = true := rfl
@[simp] theorem nameLocal_backup (st : String) (k : Nat) : nameLocal (.backup st k) = true := rfl

@[simp] theorem nameLocal_backupFor (cfg : Cfg) (fs : FS) (stamp : String) : nameLocal (backupFor cfg fs stamp) = true := by
  unfold backupFor backupName
  split <;> rfl

theorem all_evLocal_writes (n : Name) (cs : List (List Line)) (h : nameLocal n = true) :
    (writes n cs).all evLocal = true := by
  rw [List.all_eq_true]
  intro e he
  simp only [writes, List.mem_map] at he
  obtain ⟨c, _, rfl⟩ := he
  simpa using h

theorem all_evLocal_expand (cfg : Cfg) (s : St) (a : Act) : (expand cfg s a).all evLocal = true := by
  have w1 := fun cs => all_evLocal_writes .results cs rfl
  have w2 := fun cs => all_evLocal_writes .tmp cs rfl
  cases a with
  | create stamp =>
    simp only [expand]
    cases get s.fs .results <;> simp
  | recreate stamp =>
    simp only [expand]
    cases get s.fs .results <;> (split <;> simp)
  | resume => simp [expand]
  | finish j => simp [expand]
  | dump js sizes stamp =>
    simp only [expand]
    split
    · rfl
    · split
      · simp only [List.all_cons, List.all_append, List.all_nil, w1, evLocal_sys, evLocal_dumped, opLocal_openA,
          opLocal_close, nameLocal_results, Bool.and_self]
      · split
        · cases get s.fs .results <;> cases cfg.keepForeign <;>
            simp only [List.all_cons, List.all_append, List.all_nil, w2, evLocal_sys, evLocal_dumped, opLocal_openW,
              opLocal_close, opLocal_rename, nameLocal_results, nameLocal_tmp, nameLocal_backupFor, Bool.and_self,
              List.nil_append, Bool.false_eq_true, if_false, if_true]
        · simp only [List.all_cons, List.all_append, List.all_nil, w1, evLocal_sys, evLocal_dumped, opLocal_openW,
            opLocal_close, nameLocal_results, Bool.and_self]
  | endCall multi sizes =>
    simp only [expand]
    cases get s.fs .results with
    | none => rfl
    | some c =>
      cases multi <;> cases cfg.atomicRewrite <;>
        simp only [List.all_cons, List.all_append, List.all_nil, w1, w2, evLocal_sys, opLocal_openW, opLocal_openR,
          opLocal_close, opLocal_rename, nameLocal_results, nameLocal_tmp, Bool.and_self, List.nil_append,
          Bool.false_eq_true, if_false, if_true, List.append_nil, List.cons_append]

theorem all_evLocal_trace (cfg : Cfg) (acts : List Act) : ∀ s : St, (trace cfg s acts).all evLocal = true := by
  induction acts with
  | nil => intro s; simp [trace]
  | cons a as ih =>
    intro s
    simp only [trace, List.all_append, Bool.and_eq_true]
    exact ⟨all_evLocal_expand cfg s a, ih _⟩

theorem all_evLocal_take {l : List Ev} (h : l.all evLocal = true) (n : Nat) : (l.take n).all evLocal = true := by
  rw [List.all_eq_true] at h ⊢
  intro e he
  exact h e (List.mem_of_mem_take he)

theorem all_evLocal_searchFiles (cfg : Cfg) (runs : List Run) :
    ∀ s : St, (searchFiles cfg s runs).all evLocal = true := by
  induction runs with
  | nil => intro s; simp [searchFiles]
  | cons r rs ih =>
    intro s
    simp only [searchFiles, List.all_append, Bool.and_eq_true]
    exact ⟨all_evLocal_take (all_evLocal_trace cfg _ s) _, ih _⟩

/-! ### local calls do not see the mount layout -/

theorem devOf_local (m : Mounts) {n : Name} (h : nameLocal n = true) : devOf m n = .logDev := by
  cases n <;> simp_all [nameLocal, devOf]

theorem stepIn_local (m : Mounts) (fs : FS) {op : Op} (h : opLocal op = true) : stepIn m fs op = step fs op := by
  cases op with
  | rename a b =>
    simp only [opLocal, Bool.and_eq_true] at h
    simp [stepIn, devOf_local m h.1, devOf_local m h.2]
  | _ => rfl

theorem opOkIn_local (m : Mounts) (fs : FS) {op : Op} (h : opLocal op = true) : opOkIn m fs op = opOk fs op := by
  cases op with
  | rename a b =>
    simp only [opLocal, Bool.and_eq_true] at h
    simp [opOkIn, devOf_local m h.1, devOf_local m h.2]
  | _ => rfl

/-- the directory after an event list = the system calls folded with `step` -/
theorem fs_execAll (es : List Ev) : ∀ s : St, (execAll s es).fs = (sysOf es).foldl step s.fs := by
  induction es with
  | nil => intro s; rfl
  | cons e es ih =>
    intro s
    rw [execAll_cons, ih]
    cases e <;> simp [exec, sysOf]

theorem runOps_local (m : Mounts) (es : List Ev) (h : es.all evLocal = true) :
    ∀ fs : FS, runOps m fs (sysOf es) = (sysOf es).foldl step fs := by
  induction es with
  | nil => intro fs; rfl
  | cons e es ih =>
    intro fs
    simp only [List.all_cons, Bool.and_eq_true] at h
    cases e with
    | sys op =>
      have hl : opLocal op = true := by simpa [evLocal] using h.1
      simp only [sysOf, runOps, List.foldl_cons, stepIn_local m fs hl]
      exact ih h.2 _
    | created => simpa [sysOf] using ih h.2 fs
    | reused => simpa [sysOf] using ih h.2 fs
    | done j => simpa [sysOf] using ih h.2 fs
    | dumped js => simpa [sysOf] using ih h.2 fs

theorem all_evLocal_prefix {p l : List Ev} (hp : p <+: l) (h : l.all evLocal = true) : p.all evLocal = true := by
  obtain ⟨q, rfl⟩ := hp
  rw [List.all_append, Bool.and_eq_true] at h
  exact h.1

/-! ### a copy fills its destination faithfully -/

theorem get_runOps_writes (m : Mounts) (dst : Name) (cs : List (List Line)) :
    ∀ (fs : FS) (a : Content), get fs dst = some a →
      get (runOps m fs (cs.map (Op.write dst))) dst = some (a ++ cs.flatten) := by
  induction cs with
  | nil => intro fs a h; simpa [runOps] using h
  | cons c cs ih =>
    intro fs a h
    have h1 : get (stepIn m fs (.write dst c)) dst = some (a ++ c) := by
      simp [stepIn, step, h]
    have := ih _ _ h1
    simpa [runOps, List.append_assoc] using this

theorem runOps_append (m : Mounts) (fs : FS) (a b : List Op) :
    runOps m fs (a ++ b) = runOps m (runOps m fs a) b := by
  simp [runOps, List.foldl_append]

end DH.Files
