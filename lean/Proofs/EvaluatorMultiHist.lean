import Proofs.EvaluatorMultiFrame

/-!
What the calls of an evaluator do to its history (`job_id_gathered`, `jobs_done`, `delivered`, `reported`,
the foreign `Job` objects): own deliveries (`Delta`) and reports of other evaluators' jobs (`ODelta`).
Core Lean only.
-/

namespace DH.Evaluator

variable {C O : Type}

/-- `me'` = `me` after handing back / recording the own jobs `ids` (in this order) -/
structure Delta (me me' : MEv C O) (ids : List Nat) (via : Via) : Prop where
  jobs : me'.jobs = me.jobs
  gathered : me'.gathered = me.gathered ++ ids
  jobsDone : me'.jobsDone = me.jobsDone ++ ids
  delivered : me'.delivered = me.delivered ++ ids.map (fun i => (i, via))
  foreign : me'.foreign = me.foreign
  reported : me'.reported = me.reported
  dumped : me'.dumped = me.dumped
  offset : me'.offset = me.offset
  maxSub : me'.maxSub = me.maxSub
  startDumping : me'.startDumping = me.startDumping
  columns : me'.columns = me.columns

theorem Delta.refl (me : MEv C O) (via : Via) : Delta me me [] via := by
  constructor <;> simp

theorem Delta.trans {me me1 me2 : MEv C O} {a b : List Nat} {via : Via} (h1 : Delta me me1 a via)
    (h2 : Delta me1 me2 b via) : Delta me me2 (a ++ b) via := by
  constructor
  · rw [h2.jobs, h1.jobs]
  · rw [h2.gathered, h1.gathered, List.append_assoc]
  · rw [h2.jobsDone, h1.jobsDone, List.append_assoc]
  · rw [h2.delivered, h1.delivered, List.map_append, List.append_assoc]
  · rw [h2.foreign, h1.foreign]
  · rw [h2.reported, h1.reported]
  · rw [h2.dumped, h1.dumped]
  · rw [h2.offset, h1.offset]
  · rw [h2.maxSub, h1.maxSub]
  · rw [h2.startDumping, h1.startDumping]
  · rw [h2.columns, h1.columns]

theorem procMe_delta (me : MEv C O) (g : Nat) (via : Via) : Delta me (procMe me g via) [g] via := by
  constructor <;> rfl

/-- `process_local_tasks_done`: the tasks processed before an exception (all of them when it returns) -/
theorem mProcessAll_delta (p : MParams C O) (via : Via) : ∀ (l : List Nat) (st : List (Row C O) × MEv C O),
    ∃ ids, ids <+: l ∧ Delta st.2 (mProcessAll p via st l).1.2 ids via ∧
      (∀ js, (mProcessAll p via st l).2 = .ok js → ids = l ∧ js.map (·.id) = l)
  | [], st => ⟨[], List.prefix_refl _, Delta.refl _ _, fun js h => by
      simp only [mProcessAll, Except.ok.injEq] at h; subst h; simp⟩
  | g :: rest, st => by
    simp only [mProcessAll]
    cases h1 : mProcessOne p via st g with
    | error e => exact ⟨[], List.nil_prefix, Delta.refl _ _, fun js h => by simp at h⟩
    | ok x =>
      obtain ⟨st1, j⟩ := x
      obtain ⟨r, hrow, _, _, hj, hst1⟩ := mProcessOne_ok h1
      obtain ⟨ids, hpre, hd, hok⟩ := mProcessAll_delta p via rest st1
      have hd1 : Delta st.2 st1.2 [g] via := by rw [hst1]; exact procMe_delta _ _ _
      simp only
      cases h2 : mProcessAll p via st1 rest with
      | mk st2 res =>
        rw [h2] at hd hok
        cases res with
        | ok js =>
          refine ⟨g :: ids, List.cons_prefix_cons.2 ⟨rfl, hpre⟩, hd1.trans hd, ?_⟩
          intro js' hjs'
          simp only [Except.ok.injEq] at hjs'
          obtain ⟨e1, e2⟩ := hok js rfl
          subst hjs'
          refine ⟨by rw [e1], ?_⟩
          simp only [List.map_cons, e2, hj, recOf, procRow, (rowOf_some hrow).2]
        | error e =>
          exact ⟨g :: ids, List.cons_prefix_cons.2 ⟨rfl, hpre⟩, hd1.trans hd, fun js h => by simp at h⟩

theorem mCancelActive_delta (p : MParams C O) (st : List (Row C O) × MEv C O) :
    Delta st.2 (mCancelActive p st).2 (mActiveIds st.1 st.2) .close := by
  rw [mCancelActive_eq]
  constructor <;> rfl

/-- `me'` = `me` after `gather_other_jobs_done` reported the jobs `ids` of other evaluators -/
structure ODelta (me me' : MEv C O) (objs : List (Obj C O)) : Prop where
  jobs : me'.jobs = me.jobs
  running : me'.running = me.running
  submitted : me'.submitted = me.submitted
  gathered : me'.gathered = me.gathered ++ objs.map (·.id)
  jobsDone : me'.jobsDone = me.jobsDone ++ objs.map (·.id)
  delivered : me'.delivered = me.delivered
  foreign : me'.foreign = me.foreign ++ objs
  reported : me'.reported = me.reported ++ objs.map (·.id)
  dumped : me'.dumped = me.dumped
  offset : me'.offset = me.offset
  maxSub : me'.maxSub = me.maxSub
  loopGen : me'.loopGen = me.loopGen
  loopOpen : me'.loopOpen = me.loopOpen
  startDumping : me'.startDumping = me.startDumping
  columns : me'.columns = me.columns

theorem ODelta.refl (me : MEv C O) : ODelta me me [] := by
  constructor <;> simp

theorem ODelta.trans {me me1 me2 : MEv C O} {a b : List (Obj C O)} (h1 : ODelta me me1 a)
    (h2 : ODelta me1 me2 b) : ODelta me me2 (a ++ b) := by
  constructor
  · rw [h2.jobs, h1.jobs]
  · rw [h2.running, h1.running]
  · rw [h2.submitted, h1.submitted]
  · rw [h2.gathered, h1.gathered, List.map_append, List.append_assoc]
  · rw [h2.jobsDone, h1.jobsDone, List.map_append, List.append_assoc]
  · rw [h2.delivered, h1.delivered]
  · rw [h2.foreign, h1.foreign, List.append_assoc]
  · rw [h2.reported, h1.reported, List.map_append, List.append_assoc]
  · rw [h2.dumped, h1.dumped]
  · rw [h2.offset, h1.offset]
  · rw [h2.maxSub, h1.maxSub]
  · rw [h2.loopGen, h1.loopGen]
  · rw [h2.loopOpen, h1.loopOpen]
  · rw [h2.startDumping, h1.startDumping]
  · rw [h2.columns, h1.columns]

/-! ### permutations of histories -/

theorem perm_append_mid {l a b x : List Nat} (h : l.Perm (a ++ b)) : (l ++ x).Perm ((a ++ x) ++ b) := by
  have h1 : (l ++ x).Perm ((a ++ b) ++ x) := h.append_right x
  have h2 : ((a ++ b) ++ x).Perm ((a ++ x) ++ b) := by
    rw [List.append_assoc, List.append_assoc]
    exact List.Perm.append_left a List.perm_append_comm
  exact h1.trans h2

theorem perm_append_end {l a b x : List Nat} (h : l.Perm (a ++ b)) : (l ++ x).Perm (a ++ (b ++ x)) := by
  rw [← List.append_assoc]
  exact h.append_right x

end DH.Evaluator
