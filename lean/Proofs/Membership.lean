import Model.Membership
import Mathlib.Tactic.Linarith

/-!
# Lemmas about `Model/Membership.lean`

* `mem_accept` — a member of the declared space passes `check_x_in_space`;
* `invDim_mem` — `Dimension.inverse_transform` of *any* slice is a member of the dimension
  (for arbitrary `log`/`pow`, because of the final clip; numeric-ordinal "identity" dimensions
  need the slice to hold a choice, `TokDim`);
* `fin_mem` — clip → inverse transform → deactivate lands in the declared space or raises.
-/

namespace DH.Mem

theorem pyEq_refl (v : Val) : pyEq v v = true := by
  cases v <;> simp [pyEq, Val.toRat?]

/-- Python-equal to a number of value `q`: a number (or `bool`) of the same value -/
theorem pyEq_toRat {v c : Val} {q : Rat} (h : pyEq v c = true) (hq : v.toRat? = some q) :
    c.toRat? = some q := by
  cases v <;> cases c <;> simp_all [pyEq, Val.toRat?]

/-- a declared choice (in either sense) equals (Python `==`) one of the choices -/
theorem memChoice_any {cs : List Val} {v : Val} (h : memChoice cs v = true) : cs.any (pyEq v) = true := by
  simp only [memChoice, Bool.or_eq_true, decide_eq_true_eq, Bool.and_eq_true] at h
  rcases h with h | h
  · exact List.any_eq_true.2 ⟨v, h, pyEq_refl v⟩
  · exact h.2

theorem memChoice_of_mem {cs : List Val} {v : Val} (h : v ∈ cs) : memChoice cs v = true := by
  simp [memChoice, h]

theorem clip_bounds {lo hi v : Rat} (h : lo ≤ hi) : lo ≤ clip lo hi v ∧ clip lo hi v ≤ hi := by
  unfold clip
  simp only [Rat.min_def, Rat.max_def]
  split_ifs <;> constructor <;> linarith

theorem round_bounds {lo hi : Int} {q : Rat} (h1 : (lo : Rat) ≤ q) (h2 : q ≤ (hi : Rat)) :
    lo ≤ roundHalfEven q ∧ roundHalfEven q ≤ hi := by
  have hf1 : lo ≤ q.floor := Rat.le_floor_iff.2 h1
  have hf2 : q.floor ≤ hi := by
    have := Rat.floor_monotone h2
    rwa [Rat.floor_intCast] at this
  have hup : ¬ ((q - (q.floor : Rat)) < 1 / 2) → q.floor + 1 ≤ hi := by
    intro hr
    have hlt : (q.floor : Rat) < (hi : Rat) := by linarith
    have := Rat.intCast_lt_intCast.1 hlt
    omega
  unfold roundHalfEven
  simp only
  split_ifs with a b c
  · exact ⟨hf1, hf2⟩
  · have := hup a; omega
  · omega
  · have := hup a; omega

/-! ### accepted back -/

theorem memDim_contains {d : Dim} {v : Val} (h : memDim d v = true) : containsDim d v = true := by
  cases d with
  | int lo hi p =>
    cases v <;> simp [memDim] at h
    rename_i i
    simp [containsDim, Val.toRat?, h.1, h.2]
  | real lo hi p =>
    cases v <;> simp [memDim] at h
    simp [containsDim, Val.toRat?, h.1, h.2]
  | cat cs =>
    simp only [memDim] at h
    simp only [containsDim]
    exact memChoice_any h

theorem canon_mem {d : Dim} {v : Val} (hw : d.wf = true) (h : canon d = some v) : memDim d v = true := by
  cases d with
  | int lo hi p =>
    simp only [canon, Option.some.injEq] at h; subst h
    simpa [memDim, Dim.wf] using hw
  | real lo hi p =>
    simp only [canon, Option.some.injEq] at h; subst h
    simpa [memDim, Dim.wf] using hw
  | cat cs =>
    simp only [canon] at h
    simp only [memDim]
    exact memChoice_of_mem (List.mem_of_mem_head? h)

theorem Hp.wf_dim {h : Hp} (hw : h.wf = true) : h.dim.wf = true := by
  simp only [Hp.wf, Bool.and_eq_true] at hw; exact hw.1

theorem Hp.wf_enc {h : Hp} {cs : List Val} (hw : h.wf = true) (hd : h.dim = .cat cs) :
    ∀ v ∈ h.enc, v ∈ cs := by
  simp only [Hp.wf, Bool.and_eq_true, hd, List.all_eq_true, decide_eq_true_eq] at hw
  exact hw.2

theorem memAll_contains : ∀ (hps : List Hp) (x : List Val) (act : List Bool),
    (∀ h ∈ hps, h.wf = true) → memAll hps x act = true →
    containsAll hps x = true ∧ x.length = hps.length
  | [], [], [], _, _ => by simp [containsAll]
  | h :: hs, v :: vs, a :: as, hw, hm => by
    simp only [memAll, Bool.and_eq_true] at hm
    have ih := memAll_contains hs vs as (fun h' hh => hw h' (List.mem_cons_of_mem _ hh)) hm.2
    have hv : containsDim h.dim v = true := by
      cases a
      · simp only [Bool.false_eq_true, if_false, decide_eq_true_eq] at hm
        exact memDim_contains (canon_mem (Hp.wf_dim (hw h List.mem_cons_self)) hm.1)
      · simp only [if_true] at hm
        exact memDim_contains hm.1
    simp [containsAll, hv, ih.1, ih.2]
  | [], [], _ :: _, _, hm => by simp [memAll] at hm
  | [], _ :: _, _, _, hm => by simp [memAll] at hm
  | _ :: _, [], _, _, hm => by simp [memAll] at hm
  | _ :: _, _ :: _, [], _, hm => by simp [memAll] at hm

/-- **a member of the declared space is accepted back by `check_x_in_space`** -/
theorem mem_accept (d : Decl) (x : Config) (hw : d.wf = true) (h : memSpace d x = true) :
    checkXInSpace d x = true := by
  unfold memSpace at h
  simp only [Bool.and_eq_true] at h
  have hw' : ∀ h ∈ d.hps, h.wf = true := by
    simpa [Decl.wf, List.all_eq_true] using hw
  have := memAll_contains d.hps x _ hw' h.1
  simp [checkXInSpace, this.1, this.2]


/-! ### inverse transform -/

theorem real_mem {lo hi w : Rat} (h : lo ≤ hi) (p : Prior) : memDim (.real lo hi p) (.real (clip lo hi w)) = true := by
  have := clip_bounds (v := w) h
  simp [memDim, this.1, this.2]

theorem int_mem {lo hi : Int} {w : Rat} (h : lo ≤ hi) (p : Prior) :
    memDim (.int lo hi p) (.int (roundHalfEven (clip lo hi w))) = true := by
  have hc := clip_bounds (v := w) (Rat.intCast_le_intCast.2 h)
  have := round_bounds hc.1 hc.2
  simp [memDim, this.1, this.2]

theorem choiceAt_mem {cs : List Val} {i : Int} {v : Val} (h : choiceAt cs i = some v) : v ∈ cs := by
  unfold choiceAt at h
  split at h
  · cases h
  · exact List.mem_of_getElem? h

/-- admissible slice for a numeric-ordinal ("identity") dimension: what comes back is a choice;
no condition for the other transformers -/
def TokDim (ne : NumEnv) (h : Hp) (t : Slice) : Prop :=
  match h.dim, h.tr with
  | .cat cs, .identity => ∀ v, invDim ne h t = some v → memChoice cs v = true
  | _, _ => True

/-- **`inverse_transform` of anything is a member of the dimension** -/
theorem invDim_mem {ne : NumEnv} {h : Hp} {t : Slice} {v : Val} (hwf : h.wf = true)
    (htok : TokDim ne h t) (hv : invDim ne h t = some v) : memDim h.dim v = true := by
  have hw : h.dim.wf = true := Hp.wf_dim hwf
  have henc : ∀ cs, h.dim = .cat cs → ∀ v ∈ h.enc, v ∈ cs := fun cs hd => Hp.wf_enc hwf hd
  obtain ⟨name, dim, tr, cond, enc⟩ := h
  cases dim with
  | real lo hi p =>
    have hle : lo ≤ hi := by simpa [Dim.wf] using hw
    cases p <;> cases tr <;> rcases t with _ | ⟨w, _ | ⟨w2, t⟩⟩ <;>
      simp only [invDim] at hv <;> (try cases hv) <;>
      (try (split at hv <;> (try cases hv))) <;> exact real_mem hle _
  | int lo hi p =>
    have hle : lo ≤ hi := by simpa [Dim.wf] using hw
    cases p <;> cases tr <;> rcases t with _ | ⟨w, _ | ⟨w2, t⟩⟩ <;>
      simp only [invDim] at hv <;> (try cases hv) <;>
      (try (split at hv <;> (try cases hv))) <;> exact int_mem hle _
  | cat cs =>
    simp only [memDim]
    cases tr with
    | identity => exact htok v hv
    | label =>
      rcases t with _ | ⟨w, _ | ⟨w2, t⟩⟩ <;> simp only [invDim] at hv <;> (try cases hv)
      exact memChoice_of_mem (henc cs rfl v (choiceAt_mem hv))
    | normalize =>
      rcases t with _ | ⟨w, _ | ⟨w2, t⟩⟩ <;> simp only [invDim] at hv <;> (try cases hv)
      split at hv
      · exact memChoice_of_mem (henc cs rfl v (choiceAt_mem hv))
      · cases hv
    | onehot =>
      simp only [invDim] at hv
      split at hv
      · split at hv
        · exact memChoice_of_mem (List.mem_of_getElem? hv)
        · cases hv
      · split at hv
        · exact memChoice_of_mem (List.mem_of_getElem? hv)
        · cases hv


/-- every value is a member of its dimension (and the lengths agree) -/
def dimsAll : List Hp → List Val → Bool
  | [], [] => true
  | h :: hs, v :: vs => memDim h.dim v && dimsAll hs vs
  | _, _ => false

/-- pointwise `TokDim` -/
def TokAll (ne : NumEnv) : List Hp → List Slice → Prop
  | h :: hs, t :: ts => TokDim ne h t ∧ TokAll ne hs ts
  | _, _ => True

theorem invAll_mem {ne : NumEnv} : ∀ {hps : List Hp} {ts : List Slice} {x : Config},
    (∀ h ∈ hps, h.wf = true) → TokAll ne hps ts → invAll ne hps ts = some x →
    dimsAll hps x = true
  | [], [], x, _, _, h => by simp [invAll] at h; subst h; rfl
  | h :: hs, t :: ts, x, hw, htok, hx => by
    simp only [invAll] at hx
    split at hx
    · rename_i v vs hv hvs
      cases hx
      simp only [dimsAll, Bool.and_eq_true]
      exact ⟨invDim_mem (hw h List.mem_cons_self) htok.1 hv,
        invAll_mem (fun h' hh => hw h' (List.mem_cons_of_mem _ hh)) htok.2 hvs⟩
    · cases hx
  | [], _ :: _, _, _, _, h => by simp [invAll] at h
  | _ :: _, [], _, _, _, h => by simp [invAll] at h

/-! ### unconstrained spaces: every hyperparameter is active -/

theorem activeGo_noCond (hps : List Hp) (x : Config) : ∀ (rest : List Hp) (acc : List Bool),
    (∀ h ∈ rest, h.cond = none) → activeGo hps x rest acc = acc ++ List.replicate rest.length true
  | [], acc, _ => by simp [activeGo]
  | h :: rest, acc, hc => by
    have h0 : h.cond = none := hc h List.mem_cons_self
    simp only [activeGo, h0]
    rw [activeGo_noCond hps x rest _ (fun h' hh => hc h' (List.mem_cons_of_mem _ hh))]
    simp [List.replicate_succ, List.append_assoc]

theorem memAll_allTrue : ∀ (hps : List Hp) (x : List Val),
    memAll hps x (List.replicate hps.length true) = dimsAll hps x
  | [], [] => rfl
  | [], _ :: _ => rfl
  | _ :: _, [] => rfl
  | h :: hs, v :: vs => by
    simp [memAll, dimsAll, List.replicate_succ, memAll_allTrue hs vs]

theorem memSpace_unconstrained {d : Decl} {x : Config} (hu : d.unconstrained = true)
    (hx : dimsAll d.hps x = true) : memSpace d x = true := by
  simp only [Decl.unconstrained, Bool.and_eq_true, List.all_eq_true, List.isEmpty_iff,
    Option.isNone_iff_eq_none] at hu
  unfold memSpace activeList
  rw [activeGo_noCond d.hps x d.hps [] hu.2]
  simp [memAll_allTrue, hx, hu.1]

/-! ### constrained spaces: ConfigSpace validates what `deactivate_inactive_dimensions` returns -/

/-- a member of the dimension, or (before ConfigSpace's bound check of the rounded float) a
float in a real dimension -/
def almost (d : Dim) (v : Val) : Bool :=
  memDim d v || (match d, v with | .real _ _ _, .real _ => true | _, _ => false)

def almostAll : List Hp → List Val → Bool
  | [], [] => true
  | h :: hs, v :: vs => almost h.dim v && almostAll hs vs
  | _, _ => false

theorem dimsAll_almostAll : ∀ {hps : List Hp} {x : List Val}, dimsAll hps x = true → almostAll hps x = true
  | [], [], _ => rfl
  | h :: hs, v :: vs, hd => by
    simp only [dimsAll, Bool.and_eq_true] at hd
    simp only [almostAll, Bool.and_eq_true, almost, Bool.or_eq_true]
    exact ⟨Or.inl hd.1, dimsAll_almostAll hd.2⟩
  | [], _ :: _, h => by simp [dimsAll] at h
  | _ :: _, [], h => by simp [dimsAll] at h

theorem canonAll_almost {ne : NumEnv} : ∀ {hps : List Hp} {x : List Val} {act : List Bool} {y : Config},
    (∀ h ∈ hps, h.wf = true) → almostAll hps x = true → canonAll ne hps x act = some y →
    almostAll hps y = true
  | [], [], [], y, _, _, h => by simp [canonAll] at h; subst h; rfl
  | h :: hs, v :: vs, a :: as, y, hw, hd, hy => by
    simp only [almostAll, Bool.and_eq_true] at hd
    simp only [canonAll] at hy
    split at hy
    · rename_i w ws hw' hws
      cases hy
      simp only [almostAll, Bool.and_eq_true]
      refine ⟨?_, canonAll_almost (fun h' hh => hw h' (List.mem_cons_of_mem _ hh)) hd.2 hws⟩
      cases a
      · simp only [Bool.false_eq_true, if_false] at hw'
        simp [almost, canon_mem (Hp.wf_dim (hw h List.mem_cons_self)) hw']
      · simp only [if_true] at hw'
        split at hw'
        · rename_i lo hi p q hdim
          cases hw'
          simp [almost, hdim]
        · cases hw'
          exact hd.1
    · cases hy
  | [], [], _ :: _, _, _, _, h => by simp [canonAll] at h
  | [], _ :: _, _, _, _, _, h => by simp [canonAll] at h
  | _ :: _, [], _, _, _, _, h => by simp [canonAll] at h
  | _ :: _, _ :: _, [], _, _, _, h => by simp [canonAll] at h

theorem almost_legal_mem {d : Dim} {v : Val} (ha : almost d v = true) (hl : legalDim d v = true) :
    memDim d v = true := by
  simp only [almost, Bool.or_eq_true] at ha
  rcases ha with ha | ha
  · exact ha
  · cases d <;> cases v <;> simp at ha
    simp only [legalDim, Val.toRat?, Bool.and_eq_true, decide_eq_true_eq] at hl
    simp [memDim, hl.1, hl.2]

theorem legalAll_mem : ∀ {hps : List Hp} {y : List Val} {act : List Bool},
    almostAll hps y = true → legalAll hps y act = true → memAll hps y act = true
  | [], [], [], _, _ => rfl
  | h :: hs, v :: vs, a :: as, ha, hl => by
    simp only [almostAll, Bool.and_eq_true] at ha
    simp only [legalAll, Bool.and_eq_true] at hl
    simp only [memAll, Bool.and_eq_true]
    refine ⟨?_, legalAll_mem ha.2 hl.2⟩
    cases a
    · simpa using hl.1
    · simp only [if_true] at hl ⊢
      exact almost_legal_mem ha.1 hl.1
  | [], [], _ :: _, _, h => by simp [legalAll] at h
  | [], _ :: _, _, _, h => by simp [legalAll] at h
  | _ :: _, [], _, _, h => by simp [legalAll] at h
  | _ :: _, _ :: _, [], _, h => by simp [legalAll] at h

theorem deactivateCS_mem {ne : NumEnv} {d : Decl} {x y : Config} (hw : d.wf = true)
    (hx : dimsAll d.hps x = true) (h : deactivateCS ne d x = .ok y) : memSpace d y = true := by
  have hw' : ∀ h ∈ d.hps, h.wf = true := by
    simpa [Decl.wf, List.all_eq_true] using hw
  unfold deactivateCS at h
  simp only at h
  split at h
  · cases h
  · rename_i y1 hy1
    split at h
    · cases h
    · split at h
      · cases h
      · rename_i y' hy'
        split at h
        · rename_i hl
          split at h
          · cases h
          · rename_i hf
            cases h
            unfold memSpace
            simp only [Bool.and_eq_true]
            have ha1 := canonAll_almost hw' (dimsAll_almostAll hx) hy1
            exact ⟨legalAll_mem (canonAll_almost hw' ha1 hy') hl, by simpa using hf⟩
        · cases h

theorem deactivateE_mem {ne : NumEnv} {d : Decl} {x y : Config} (hw : d.wf = true)
    (hx : dimsAll d.hps x = true) (h : deactivateE ne d x = .ok y) : memSpace d y = true := by
  unfold deactivateE at h
  split at h
  · rename_i hu
    cases h
    exact memSpace_unconstrained hu hx
  · exact deactivateCS_mem hw hx h

theorem deactivate_mem {ne : NumEnv} {d : Decl} {x y : Config} (hw : d.wf = true)
    (hx : dimsAll d.hps x = true) (h : deactivate ne d x = some y) : memSpace d y = true := by
  unfold deactivate at h
  cases hE : deactivateE ne d x with
  | error e => rw [hE] at h; cases h
  | ok z =>
    rw [hE] at h
    cases h
    exact deactivateE_mem hw hx hE

/-- admissible transformed row: the numeric-ordinal slices (after the clip) hold choices -/
def Tok (ne : NumEnv) (d : Decl) (t : List Slice) : Prop :=
  TokAll ne d.hps (if d.allCat then t else clipAll ne d.hps t)

/-- **clip → `inverse_transform` → `deactivate_inactive_dimensions` returns a member of the
declared space, whatever the optimiser output `t` was** (or raises) -/
theorem fin_mem {ne : NumEnv} {d : Decl} {t : List Slice} {y : Config} (hw : d.wf = true)
    (htok : Tok ne d t) (h : fin ne d t = some y) : memSpace d y = true := by
  have hw' : ∀ h ∈ d.hps, h.wf = true := by
    simpa [Decl.wf, List.all_eq_true] using hw
  unfold fin at h
  simp only at h
  split at h
  · cases h
  · rename_i x hx
    exact deactivate_mem hw (invAll_mem hw' htok hx) h


/-! ### the transform of a member is admissible -/

theorem foldl_min_le : ∀ (qs : List Rat) (q0 x : Rat), x ∈ q0 :: qs → qs.foldl min q0 ≤ x
  | [], q0, x, hx => by simp at hx; subst hx; exact Rat.le_refl
  | a :: qs, q0, x, hx => by
    simp only [List.foldl_cons]
    have hhead := foldl_min_le qs (min q0 a) (min q0 a) List.mem_cons_self
    rcases List.mem_cons.1 hx with rfl | hx
    · have : min x a ≤ x := by simp only [Rat.min_def]; split_ifs <;> linarith
      exact Rat.le_trans hhead this
    · rcases List.mem_cons.1 hx with rfl | hx
      · have : min q0 x ≤ x := by simp only [Rat.min_def]; split_ifs <;> linarith
        exact Rat.le_trans hhead this
      · exact foldl_min_le qs (min q0 a) x (List.mem_cons_of_mem _ hx)

theorem le_foldl_max : ∀ (qs : List Rat) (q0 x : Rat), x ∈ q0 :: qs → x ≤ qs.foldl max q0
  | [], q0, x, hx => by simp at hx; subst hx; exact Rat.le_refl
  | a :: qs, q0, x, hx => by
    simp only [List.foldl_cons]
    have hhead := le_foldl_max qs (max q0 a) (max q0 a) List.mem_cons_self
    rcases List.mem_cons.1 hx with rfl | hx
    · have : x ≤ max x a := by simp only [Rat.max_def]; split_ifs <;> linarith
      exact Rat.le_trans this hhead
    · rcases List.mem_cons.1 hx with rfl | hx
      · have : x ≤ max q0 x := by simp only [Rat.max_def]; split_ifs <;> linarith
        exact Rat.le_trans this hhead
      · exact le_foldl_max qs (max q0 a) x (List.mem_cons_of_mem _ hx)

theorem clip_id {lo hi q : Rat} (h1 : lo ≤ q) (h2 : q ≤ hi) : clip lo hi q = q := by
  unfold clip
  simp only [Rat.min_def, Rat.max_def]
  split_ifs <;> linarith

theorem trunc_intCast (i : Int) : trunc (i : Rat) = i := by
  unfold trunc
  split
  · exact Rat.floor_intCast i
  · have : (-(i : Rat)) = ((-i : Int) : Rat) := by simp
    rw [this, Rat.floor_intCast]; omega

theorem trDim_tok {ne : NumEnv} {h : Hp} {v : Val} (hwt : h.wfTr = true) (hm : memDim h.dim v = true) :
    TokDim ne h (trDim ne h v) ∧ TokDim ne h (clipSlice (tBounds ne h) (trDim ne h v)) := by
  obtain ⟨name, dim, tr, cond, enc⟩ := h
  cases dim with
  | real lo hi p => cases tr <;> exact ⟨trivial, trivial⟩
  | int lo hi p => cases tr <;> exact ⟨trivial, trivial⟩
  | cat cs =>
    cases tr with
    | label => exact ⟨trivial, trivial⟩
    | normalize => exact ⟨trivial, trivial⟩
    | onehot => exact ⟨trivial, trivial⟩
    | identity =>
      simp only [memDim] at hm
      simp only [Hp.wfTr] at hwt
      -- the value is numeric: its slice is `[q]`, the clip leaves it alone, and it comes back
      have hany := memChoice_any hm
      obtain ⟨c0, hc0, hpe⟩ := List.any_eq_true.1 hany
      cases hq : v.toRat? with
      | none =>
        have e : trDim ne ⟨name, .cat cs, .identity, cond, enc⟩ v = [] := by simp [trDim, hq]
        rw [e]
        constructor <;> (intro w hw; simp [invDim, clipSlice] at hw)
      | some q =>
        have e : trDim ne ⟨name, .cat cs, .identity, cond, enc⟩ v = [q] := by simp [trDim, hq]
        -- the declared choice `c0` the value equals has the same numeric value
        have hc0q : c0.toRat? = some q := pyEq_toRat hpe hq
        have hqmem : q ∈ cs.filterMap Val.toRat? := List.mem_filterMap.2 ⟨c0, hc0, hc0q⟩
        have eclip : clipSlice (tBounds ne ⟨name, .cat cs, .identity, cond, enc⟩) [q] = [q] := by
          simp only [tBounds]
          split
          · rename_i hnil; rw [hnil] at hqmem; cases hqmem
          · rename_i q0 qs hcons
            rw [hcons] at hqmem
            simp only [clipSlice]
            rw [clip_id (foldl_min_le qs q0 q hqmem) (le_foldl_max qs q0 q hqmem)]
        have back : ∀ w, invDim ne ⟨name, .cat cs, .identity, cond, enc⟩ [q] = some w →
            memChoice cs w = true := by
          intro w hw
          simp only [invDim] at hw
          split at hw
          · -- every choice is an `int`: the sequence is not mixed, `v` is the choice itself
            rename_i hall
            have hnm : mixedNum cs = false := by
              simp only [mixedNum, Bool.and_eq_false_imp, Bool.and_eq_true]
              intro _
              rw [← Bool.not_eq_true, List.any_eq_true]
              rintro ⟨c, hc, hcr⟩
              have := (List.all_eq_true.1 hall) c hc
              cases c <;> simp [Val.isInt, Val.isReal] at this hcr
            have hv : v ∈ cs := by
              simpa [memChoice, hnm] using hm
            have hvi := (List.all_eq_true.1 hall) v hv
            cases v <;> simp [Val.isInt] at hvi
            rename_i i
            simp only [Val.toRat?, Option.some.injEq] at hq
            subst hq
            rw [trunc_intCast] at hw
            cases hw
            exact memChoice_of_mem hv
          · -- some choice is not an `int`: the float itself comes back
            rename_i hnall
            cases hw
            have hallnum : ∀ c ∈ cs, c.isNum = true := List.all_eq_true.1 hwt
            have hreal : cs.any Val.isReal = true := by
              rw [List.any_eq_true]
              have : ¬ ∀ c ∈ cs, c.isInt = true := fun h => hnall (List.all_eq_true.2 h)
              by_contra hno
              apply this
              intro c hc
              have hn := hallnum c hc
              cases c <;> simp [Val.isNum, Val.isInt] at hn ⊢
              exact hno ⟨_, hc, rfl⟩
            have hc0n := hallnum c0 hc0
            have hpe' : pyEq (.real q) c0 = true := by
              cases c0 <;> simp [Val.isNum] at hc0n <;>
                simp only [Val.toRat?, Option.some.injEq] at hc0q <;> subst hc0q <;>
                simp [pyEq, Val.toRat?]
            cases hci : c0.isInt with
            | true =>
              -- an `int` choice and a `float` choice: the sequence is mixed
              have hmix : mixedNum cs = true := by
                simp only [mixedNum, Bool.and_eq_true]
                exact ⟨⟨hwt, List.any_eq_true.2 ⟨c0, hc0, hci⟩⟩, hreal⟩
              simp only [memChoice, hmix, Val.isNum, Bool.true_and, Bool.or_eq_true, decide_eq_true_eq]
              exact Or.inr (List.any_eq_true.2 ⟨c0, hc0, hpe'⟩)
            | false =>
              -- the choice is the float `q` itself
              have : c0 = .real q := by
                cases c0 <;> simp [Val.isNum, Val.isInt] at hc0n hci
                simp only [Val.toRat?, Option.some.injEq] at hc0q
                rw [hc0q]
              rw [this] at hc0
              exact memChoice_of_mem hc0
        rw [e, eclip]
        exact ⟨back, back⟩

theorem memAll_dimsAll : ∀ {hps : List Hp} {x : List Val} {act : List Bool},
    (∀ h ∈ hps, h.wf = true) → memAll hps x act = true → dimsAll hps x = true
  | [], [], [], _, _ => rfl
  | h :: hs, v :: vs, a :: as, hw, hm => by
    simp only [memAll, Bool.and_eq_true] at hm
    simp only [dimsAll, Bool.and_eq_true]
    refine ⟨?_, memAll_dimsAll (fun h' hh => hw h' (List.mem_cons_of_mem _ hh)) hm.2⟩
    cases a
    · exact canon_mem (Hp.wf_dim (hw h List.mem_cons_self)) (by simpa using hm.1)
    · simpa using hm.1
  | [], [], _ :: _, _, h => by simp [memAll] at h
  | [], _ :: _, _, _, h => by simp [memAll] at h
  | _ :: _, [], _, _, h => by simp [memAll] at h
  | _ :: _, _ :: _, [], _, h => by simp [memAll] at h

theorem tr_tokAll {ne : NumEnv} : ∀ {hps : List Hp} {x : List Val},
    (∀ h ∈ hps, h.wfTr = true) → dimsAll hps x = true →
    TokAll ne hps (List.zipWith (trDim ne) hps x) ∧
    TokAll ne hps (clipAll ne hps (List.zipWith (trDim ne) hps x))
  | [], _, _, _ => by simp [TokAll]
  | _ :: _, [], _, _ => by simp [TokAll, clipAll]
  | h :: hs, v :: vs, hw, hd => by
    simp only [dimsAll, Bool.and_eq_true] at hd
    have h1 := trDim_tok (ne := ne) (hw h List.mem_cons_self) hd.1
    have h2 := tr_tokAll (ne := ne) (fun h' hh => hw h' (List.mem_cons_of_mem _ hh)) hd.2
    simp only [List.zipWith_cons_cons, TokAll, clipAll]
    exact ⟨⟨h1.1, h2.1⟩, ⟨h1.2, h2.2⟩⟩

/-- **the transform of a member is an admissible transformed row** -/
theorem tr_tok {ne : NumEnv} {d : Decl} {c : Config} (hw : d.wfAll = true)
    (hc : memSpace d c = true) : Tok ne d (tr ne d c) := by
  simp only [Decl.wfAll, Bool.and_eq_true] at hw
  have hw1 : ∀ h ∈ d.hps, h.wf = true := by simpa [Decl.wf, List.all_eq_true] using hw.1
  have hw2 : ∀ h ∈ d.hps, h.wfTr = true := by simpa [List.all_eq_true] using hw.2
  unfold memSpace at hc
  simp only [Bool.and_eq_true] at hc
  have := tr_tokAll (ne := ne) hw2 (memAll_dimsAll hw1 hc.1)
  unfold Tok tr
  split
  · exact this.1
  · exact this.2


/-! ### spaces without numeric-ordinal "identity" dimensions: every row is admissible -/

/-- no dimension uses the "identity" transformer on a choice list (true for every space the
optimizer normalises — GP — and for spaces without numeric ordinal hyperparameters) -/
def Decl.noIdentityCat (d : Decl) : Bool :=
  d.hps.all (fun h => match h.dim, h.tr with | .cat _, .identity => false | _, _ => true)

theorem tokAll_of_noIdentity {ne : NumEnv} : ∀ {hps : List Hp} {ts : List Slice},
    (∀ h ∈ hps, (match h.dim, h.tr with | .cat _, .identity => false | _, _ => true) = true) →
    TokAll ne hps ts
  | [], _, _ => by simp [TokAll]
  | _ :: _, [], _ => by simp [TokAll]
  | h :: hs, t :: ts, hn => by
    refine ⟨?_, tokAll_of_noIdentity (fun h' hh => hn h' (List.mem_cons_of_mem _ hh))⟩
    have := hn h List.mem_cons_self
    unfold TokDim
    split
    · rename_i cs hd ht
      simp [hd, ht] at this
    · trivial

theorem tok_of_noIdentity {ne : NumEnv} {d : Decl} (hn : d.noIdentityCat = true) (t : List Slice) :
    Tok ne d t := by
  have : ∀ h ∈ d.hps, (match h.dim, h.tr with | .cat _, .identity => false | _, _ => true) = true := by
    simpa [Decl.noIdentityCat, List.all_eq_true] using hn
  exact tokAll_of_noIdentity this

/-! ### initial designs (sobol, halton, hammersly, lhs, grid) -/

/-- the space as the initial point generators see it: `space.set_transformer("normalize")` -/
def normalizedHps (hps : List Hp) : List Hp := hps.map (fun h => { h with tr := .normalize })

theorem dimsAll_normalized : ∀ {hps : List Hp} {x : List Val},
    dimsAll (normalizedHps hps) x = dimsAll hps x
  | [], [] => rfl
  | [], _ :: _ => rfl
  | _ :: _, [] => rfl
  | h :: hs, v :: vs => by
    simp only [normalizedHps, List.map_cons, dimsAll]
    rw [show List.map (fun h => ({ h with tr := .normalize } : Hp)) hs = normalizedHps hs from rfl,
      dimsAll_normalized]

/-- every point of an initial design (inverse transform of *any* point of the unit cube, or of
anything else `Normalize` accepts) is a member of an unconstrained declared space -/
theorem design_mem {ne : NumEnv} {d : Decl} {ts : List Slice} {x : Config} (hw : d.wf = true)
    (hu : d.unconstrained = true) (h : invAll ne (normalizedHps d.hps) ts = some x) :
    memSpace d x = true := by
  have hw' : ∀ h ∈ normalizedHps d.hps, h.wf = true := by
    intro h hh
    obtain ⟨h0, hh0, rfl⟩ := List.mem_map.1 hh
    have : ∀ h ∈ d.hps, h.wf = true := by simpa [Decl.wf, List.all_eq_true] using hw
    exact this h0 hh0
  have htok : TokAll ne (normalizedHps d.hps) ts := by
    apply tokAll_of_noIdentity
    intro h hh
    obtain ⟨h0, _, rfl⟩ := List.mem_map.1 hh
    cases h0.dim <;> rfl
  have := invAll_mem hw' htok h
  rw [dimsAll_normalized] at this
  exact memSpace_unconstrained hu this


/-! ### ConfigSpace samples completed with the canonical inactive values -/

/-- contract of a ConfigSpace sample `s` w.r.t. the completed configuration `x`: a value is
present exactly for the active hyperparameters and is a member of its dimension -/
def sampleOK : List Hp → List (Option Val) → List Bool → Bool
  | [], [], [] => true
  | h :: hs, v :: vs, a :: as =>
    (match v with
     | some w => a && memDim h.dim w
     | none => !a) && sampleOK hs vs as
  | _, _, _ => false

theorem fillInactive_memAll : ∀ {hps : List Hp} {s : List (Option Val)} {act : List Bool} {x : Config},
    fillInactive hps s = some x → sampleOK hps s act = true → memAll hps x act = true
  | [], [], [], x, h, _ => by simp [fillInactive] at h; subst h; rfl
  | h :: hs, v :: vs, a :: as, x, hx, hs' => by
    simp only [fillInactive] at hx
    split at hx
    · rename_i w ws hw hws
      cases hx
      simp only [sampleOK, Bool.and_eq_true] at hs'
      simp only [memAll, Bool.and_eq_true]
      refine ⟨?_, fillInactive_memAll hws hs'.2⟩
      cases v with
      | some w' =>
        simp only [Bool.and_eq_true] at hs'
        cases hw
        simp [hs'.1.1, hs'.1.2]
      | none =>
        have ha : a = false := by simpa using hs'.1
        subst ha
        simpa using hw
    · cases hx
  | [], [], _ :: _, _, _, h => by simp [sampleOK] at h
  | [], _ :: _, _, _, h, _ => by simp [fillInactive] at h
  | _ :: _, [], _, _, h, _ => by simp [fillInactive] at h
  | _ :: _, _ :: _, [], _, _, h => by simp [sampleOK] at h


/-! ### members are fixed points of `deactivate_inactive_dimensions` (it does not raise on them) -/

/-- ConfigSpace's rounding leaves the floats of `x` alone (true for what ConfigSpace sampled:
those values are already rounded to 13 digits) -/
def RndFix (ne : NumEnv) (x : Config) : Prop := ∀ q, Val.real q ∈ x → ne.rnd q = q

theorem canonAll_self {ne : NumEnv} : ∀ {hps : List Hp} {x : List Val} {act : List Bool},
    memAll hps x act = true → RndFix ne x → canonAll ne hps x act = some x
  | [], [], [], _, _ => rfl
  | h :: hs, v :: vs, a :: as, hm, hr => by
    simp only [memAll, Bool.and_eq_true] at hm
    have ih := canonAll_self (ne := ne) hm.2 (fun q hq => hr q (List.mem_cons_of_mem _ hq))
    simp only [canonAll, ih]
    cases a
    · have : canon h.dim = some v := by simpa using hm.1
      simp [this]
    · cases hd : h.dim <;> cases v <;> simp
      rename_i lo hi p q
      exact hr q List.mem_cons_self
  | [], [], _ :: _, h, _ => by simp [memAll] at h
  | [], _ :: _, _, h, _ => by simp [memAll] at h
  | _ :: _, [], _, h, _ => by simp [memAll] at h
  | _ :: _, _ :: _, [], h, _ => by simp [memAll] at h

theorem memDim_legal {d : Dim} {v : Val} (h : memDim d v = true) : legalDim d v = true := by
  cases d with
  | int lo hi p =>
    cases v <;> simp [memDim] at h
    rename_i i
    simp [legalDim, Val.toRat?, h.1, h.2, Rat.floor_intCast]
  | real lo hi p =>
    cases v <;> simp [memDim] at h
    simp [legalDim, Val.toRat?, h.1, h.2]
  | cat cs =>
    simp only [memDim] at h
    simp only [legalDim]
    exact memChoice_any h

theorem memAll_legalAll : ∀ {hps : List Hp} {x : List Val} {act : List Bool},
    memAll hps x act = true → legalAll hps x act = true
  | [], [], [], _ => rfl
  | h :: hs, v :: vs, a :: as, hm => by
    simp only [memAll, Bool.and_eq_true] at hm
    simp only [legalAll, Bool.and_eq_true]
    refine ⟨?_, memAll_legalAll hm.2⟩
    cases a
    · simpa using hm.1
    · simp only [if_true] at hm ⊢
      exact memDim_legal hm.1
  | [], [], _ :: _, h => by simp [memAll] at h
  | [], _ :: _, _, h => by simp [memAll] at h
  | _ :: _, [], _, h => by simp [memAll] at h
  | _ :: _, _ :: _, [], h => by simp [memAll] at h

theorem zip_self_no_new (l : List Bool) : (List.zip l l).any (fun p => !p.1 && p.2) = false := by
  induction l with
  | nil => rfl
  | cons a t ih => cases a <;> simp [ih]

/-- **a member of the declared space passes `deactivate_inactive_dimensions` unchanged** (after
the fix: in particular when the placeholder of an inactive hyperparameter would make a forbidden
clause true) -/
theorem deactivateCS_member {ne : NumEnv} {d : Decl} {x : Config} (hx : memSpace d x = true)
    (hr : RndFix ne x) : deactivateCS ne d x = .ok x := by
  unfold memSpace at hx
  simp only [Bool.and_eq_true, Bool.not_eq_true'] at hx
  unfold deactivateCS
  simp only
  rw [canonAll_self hx.1 hr]
  simp only
  rw [zip_self_no_new]
  simp only [Bool.false_eq_true, if_false]
  rw [canonAll_self (ne := { ne with rnd := fun q => q }) hx.1 (fun q _ => rfl)]
  simp only
  rw [memAll_legalAll hx.1, hx.2]
  rfl

theorem deactivateE_member {ne : NumEnv} {d : Decl} {x : Config} (hx : memSpace d x = true)
    (hr : RndFix ne x) : deactivateE ne d x = .ok x := by
  unfold deactivateE
  split
  · rfl
  · exact deactivateCS_member hx hr

theorem deactivate_member {ne : NumEnv} {d : Decl} {x : Config} (hx : memSpace d x = true)
    (hr : RndFix ne x) : deactivate ne d x = some x := by
  unfold deactivate
  rw [deactivateE_member hx hr]
  rfl

end DH.Mem
