import Model.Failures
import Proofs.Dump

/-! Helper lemmas for C06.  Core Lean only. -/

namespace DH.Failures
open DH.Dump

/-! ### `_on_done` leaves no non-finite number -/

/-- no non-finite number at top level or inside a tuple/list -/
def noNonFin : Val → Bool
  | .nonfin _ => false
  | .list l => !l.any isNonFinite
  | _ => true

theorem onDone_noNonFin (o : Val) : noNonFin (onDoneObjective o) = true := by
  cases o with
  | list l =>
    unfold onDoneObjective
    by_cases h : l.any isNonFinite = true
    · simp [h, noNonFin]
    · simp [h, noNonFin]
  | nonfin k => rfl
  | num q => rfl
  | str s => rfl
  | none => rfl
  | dict d => rfl

/-! ### `CBO._tell` -/

theorem Num.neg_isFinite (x : Num) : (Num.neg x).isFinite = x.isFinite := by
  cases x with
  | fin q => rfl
  | nf k => cases k <;> rfl

theorem optMap_asNumber_finite :
    ∀ (l : List Val) (xs : List Num), optMap asNumber l = some xs → l.any isNonFinite = false →
      xs.all Num.isFinite = true
  | [], xs, h, _ => by simp [optMap] at h; subst h; rfl
  | v :: l, xs, h, hn => by
    simp only [List.any_cons, Bool.or_eq_false_iff] at hn
    unfold optMap at h
    cases hv : asNumber v with
    | none => simp [hv] at h
    | some b =>
      cases hl : optMap asNumber l with
      | none => simp [hv, hl] at h
      | some bs =>
        simp [hv, hl] at h; subst h
        have hb : b.isFinite = true := by
          cases v <;> simp [asNumber] at hv
          · subst hv; rfl
          · simp [isNonFinite] at hn
        simp [hb, optMap_asNumber_finite l bs hl hn.2]

theorem cboTellOne_finite (p : Policy) (o : Val) (y : Y) (h : noNonFin o = true)
    (hy : cboTellOne p o = .ok (some y)) : y.isFinite = true := by
  cases o with
  | num q => simp [cboTellOne] at hy; subst hy; rfl
  | nonfin k => simp [noNonFin] at h
  | str s =>
    simp only [cboTellOne] at hy
    split at hy
    · cases hy
    · split at hy
      · simp only [failOut, Except.ok.injEq] at hy
        split at hy
        · cases hy
        · cases hy; rfl
      · cases hy
  | list l =>
    simp only [cboTellOne] at hy
    simp only [noNonFin, Bool.not_eq_true'] at h
    cases hm : optMap asNumber l with
    | some xs =>
      simp only [hm, Except.ok.injEq, Option.some.injEq] at hy; subst hy
      have := optMap_asNumber_finite l xs hm h
      simp only [Y.isFinite, List.all_map]
      rw [List.all_eq_true] at this ⊢
      intro x hx
      simp only [Function.comp_apply, Num.neg_isFinite]
      exact this x hx
    | none =>
      simp only [hm] at hy
      cases ha : anyFail l with
      | error e => simp [ha] at hy
      | ok b =>
        cases b with
        | true =>
          simp only [ha, failOut, Except.ok.injEq] at hy
          split at hy
          · cases hy
          · cases hy; rfl
        | false => simp [ha] at hy
  | none => simp [cboTellOne] at hy
  | dict d => simp [cboTellOne] at hy

theorem cboTellOne_ignore_nofail (o : Val) (y : Y) (hy : cboTellOne .ignore o = .ok (some y)) :
    y ≠ Y.fail := by
  intro hf; subst hf
  cases o with
  | num q => simp [cboTellOne] at hy
  | nonfin k => simp [cboTellOne] at hy
  | str s =>
    simp only [cboTellOne] at hy
    split at hy
    · cases hy
    · split at hy <;> simp [failOut] at hy
  | list l =>
    simp only [cboTellOne] at hy
    cases hm : optMap asNumber l with
    | some xs => simp [hm] at hy
    | none =>
      simp only [hm] at hy
      cases ha : anyFail l with
      | error e => simp [ha] at hy
      | ok b => cases b <;> simp [ha, failOut] at hy
  | none => simp [cboTellOne] at hy
  | dict d => simp [cboTellOne] at hy

/-- unfolding of the loop of `CBO._tell` -/
theorem cboTell_cons_ok (p : Policy) (o : Val) (r : List Val) (ys : List Y)
    (h : cboTell p (o :: r) = .ok ys) :
    ∃ y ys', cboTellOne p o = .ok y ∧ cboTell p r = .ok ys' ∧
      ys = (match y with | some y => y :: ys' | none => ys') := by
  simp only [cboTell] at h
  cases h1 : cboTellOne p o with
  | error e => simp [h1] at h
  | ok y =>
    cases h2 : cboTell p r with
    | error e => simp [h1, h2] at h
    | ok ys' =>
      simp only [h1, h2, Except.ok.injEq] at h
      exact ⟨y, ys', rfl, rfl, h.symm⟩

theorem cboTell_finite (p : Policy) :
    ∀ (objs : List Val) (ys : List Y), (∀ o ∈ objs, noNonFin o = true) → cboTell p objs = .ok ys →
      ys.all Y.isFinite = true
  | [], ys, _, h => by simp [cboTell] at h; subst h; rfl
  | o :: r, ys, hn, h => by
    obtain ⟨y, ys', h1, h2, rfl⟩ := cboTell_cons_ok p o r ys h
    have ih := cboTell_finite p r ys' (fun o' ho' => hn o' (by simp [ho'])) h2
    cases y with
    | none => exact ih
    | some y =>
      have := cboTellOne_finite p o y (hn o (by simp)) h1
      simp [this, ih]

theorem cboTell_ignore_nofail :
    ∀ (objs : List Val) (ys : List Y), cboTell .ignore objs = .ok ys → ∀ y ∈ ys, y ≠ Y.fail
  | [], ys, h => by simp [cboTell] at h; subst h; simp
  | o :: r, ys, h => by
    obtain ⟨y, ys', h1, h2, rfl⟩ := cboTell_cons_ok .ignore o r ys h
    have ih := cboTell_ignore_nofail r ys' h2
    cases y with
    | none => exact ih
    | some y =>
      intro z hz
      simp only [List.mem_cons] at hz
      rcases hz with rfl | hz
      · exact cboTellOne_ignore_nofail o z h1
      · exact ih z hz

theorem cboTell_length (p : Policy) :
    ∀ (objs : List Val) (ys : List Y), cboTell p objs = .ok ys → ys.length ≤ objs.length
  | [], ys, h => by simp [cboTell] at h; subst h; simp
  | o :: r, ys, h => by
    obtain ⟨y, ys', _, h2, rfl⟩ := cboTell_cons_ok p o r ys h
    have ih := cboTell_length p r ys' h2
    cases y <;> simp <;> omega

/-! ### `_filter_failures` on scalar histories (what the fit uses) -/

def IsSingle (v : List Rat) : Prop := ∃ q, v = [q]

theorem sumCols_single : ∀ (vs : List (List Rat)), vs ≠ [] → (∀ v ∈ vs, IsSingle v) → IsSingle (sumCols vs)
  | [], h, _ => absurd rfl h
  | [v], _, h => by simpa [sumCols] using h v (by simp)
  | v :: w :: r, _, h => by
    obtain ⟨a, rfl⟩ := h v (by simp)
    obtain ⟨b, hb⟩ := sumCols_single (w :: r) (by simp) (fun x hx => h x (by simp [hx]))
    exact ⟨a + b, by simp [sumCols, hb]⟩

theorem maxCols_single : ∀ (vs : List (List Rat)), vs ≠ [] → (∀ v ∈ vs, IsSingle v) → IsSingle (maxCols vs)
  | [], h, _ => absurd rfl h
  | [v], _, h => by simpa [maxCols] using h v (by simp)
  | v :: w :: r, _, h => by
    obtain ⟨a, rfl⟩ := h v (by simp)
    obtain ⟨b, hb⟩ := maxCols_single (w :: r) (by simp) (fun x hx => h x (by simp [hx]))
    exact ⟨if a ≤ b then b else a, by simp [maxCols, hb]⟩

theorem sameLength_single (vs : List (List Rat)) (h : ∀ v ∈ vs, IsSingle v) : sameLength vs = true := by
  cases vs with
  | nil => rfl
  | cons v r =>
    obtain ⟨a, rfl⟩ := h v (by simp)
    simp only [sameLength, List.all_eq_true]
    intro w hw
    obtain ⟨b, rfl⟩ := h w (by simp [hw])
    rfl

/-- every defined entry is a 1-vector -/
def Singles (ys : List (Option (List Rat))) : Prop := ∀ v, some v ∈ ys → IsSingle v

theorem filterMap_id_single (ys : List (Option (List Rat))) (h : Singles ys) :
    ∀ v ∈ ys.filterMap id, IsSingle v := by
  intro v hv
  simp only [List.mem_filterMap, id] at hv
  obtain ⟨y, hy, rfl⟩ := hv
  exact h v hy

/-- on scalar histories `_filter_failures` either returns a list whose entries are all numbers
(policies mean / max) or the list itself (ignore), or raises `ExhaustedFailures` — the latter only
when every entry is a failure and there are at least `max_failures` of them -/
theorem filterFailures_single (p : Policy) (mf : Nat) (ys : List (Option (List Rat))) (h : Singles ys) :
    (∃ zs, filterFailures p mf ys = .ok zs ∧
        ((p ≠ .ignore ∧ ∀ z ∈ zs, ∃ q, z = some [q]) ∨ (p = .ignore ∧ zs = ys))) ∨
    (filterFailures p mf ys = .error .exhausted ∧ mf ≤ ys.length ∧ ys.filterMap id = []) := by
  have hgood := filterMap_id_single ys h
  cases p with
  | ignore => left; exact ⟨ys, rfl, Or.inr ⟨rfl, rfl⟩⟩
  | mean =>
    simp only [filterFailures]
    by_cases he : (ys.filterMap id).isEmpty = true
    · simp only [he, if_true]
      by_cases hm : ys.length ≥ mf
      · right; exact ⟨by simp [hm], hm, by simpa using he⟩
      · left; simp only [hm, if_false]
        refine ⟨_, rfl, Or.inl ⟨by simp, ?_⟩⟩
        intro z hz; simp only [List.mem_map] at hz; obtain ⟨_, _, rfl⟩ := hz; exact ⟨0, rfl⟩
    · simp only [he, sameLength_single _ hgood]
      left
      refine ⟨_, rfl, Or.inl ⟨by simp, ?_⟩⟩
      have hne : ys.filterMap id ≠ [] := by intro h0; rw [h0] at he; simp at he
      obtain ⟨s, hs⟩ := sumCols_single _ hne hgood
      intro z hz
      simp only [List.mem_map] at hz
      obtain ⟨y, hy, rfl⟩ := hz
      cases y with
      | none => exact ⟨s / ((ys.filterMap id).length : Rat), by simp [meanCols, hs]⟩
      | some v => obtain ⟨q, rfl⟩ := h v hy; exact ⟨q, rfl⟩
  | max =>
    simp only [filterFailures]
    by_cases he : (ys.filterMap id).isEmpty = true
    · simp only [he, if_true]
      by_cases hm : ys.length ≥ mf
      · right; exact ⟨by simp [hm], hm, by simpa using he⟩
      · left; simp only [hm, if_false]
        refine ⟨_, rfl, Or.inl ⟨by simp, ?_⟩⟩
        intro z hz; simp only [List.mem_map] at hz; obtain ⟨_, _, rfl⟩ := hz; exact ⟨0, rfl⟩
    · simp only [he, sameLength_single _ hgood]
      left
      refine ⟨_, rfl, Or.inl ⟨by simp, ?_⟩⟩
      have hne : ys.filterMap id ≠ [] := by intro h0; rw [h0] at he; simp at he
      obtain ⟨s, hs⟩ := maxCols_single _ hne hgood
      intro z hz
      simp only [List.mem_map] at hz
      obtain ⟨y, hy, rfl⟩ := hz
      cases y with
      | none => exact ⟨s, by simp [hs]⟩
      | some v => obtain ⟨q, rfl⟩ := h v hy; exact ⟨q, rfl⟩

/-! ### the fit input -/

theorem mergeScaled_spec :
    ∀ (yi : List Y) (sc : List Rat) (ys : List (Option (List Rat))), mergeScaled yi sc = some ys →
      Singles ys ∧ ys.length = yi.length ∧ ((∀ y ∈ yi, y ≠ Y.fail) → ∀ z ∈ ys, ∃ q, z = some [q])
  | [], [], ys, h => by simp [mergeScaled] at h; subst h; simp [Singles]
  | [], _ :: _, ys, h => by simp [mergeScaled] at h
  | .fail :: r, s, ys, h => by
    simp only [mergeScaled, Option.map_eq_some_iff] at h
    obtain ⟨ys', h', rfl⟩ := h
    obtain ⟨a, b, c⟩ := mergeScaled_spec r s ys' h'
    refine ⟨?_, by simp [b], ?_⟩
    · intro v hv; simp only [List.mem_cons] at hv
      rcases hv with hv | hv
      · cases hv
      · exact a v hv
    · intro hn; exact absurd rfl (hn Y.fail (by simp))
  | .val x :: r, [], ys, h => by simp [mergeScaled] at h
  | .vec x :: r, [], ys, h => by simp [mergeScaled] at h
  | .val x :: r, q :: s, ys, h => by
    simp only [mergeScaled, Option.map_eq_some_iff] at h
    obtain ⟨ys', h', rfl⟩ := h
    obtain ⟨a, b, c⟩ := mergeScaled_spec r s ys' h'
    refine ⟨?_, by simp [b], ?_⟩
    · intro v hv; simp only [List.mem_cons, Option.some.injEq] at hv
      rcases hv with rfl | hv
      · exact ⟨q, rfl⟩
      · exact a v hv
    · intro hn z hz; simp only [List.mem_cons] at hz
      rcases hz with rfl | hz
      · exact ⟨q, rfl⟩
      · exact c (fun y hy => hn y (by simp [hy])) z hz
  | .vec x :: r, q :: s, ys, h => by
    simp only [mergeScaled, Option.map_eq_some_iff] at h
    obtain ⟨ys', h', rfl⟩ := h
    obtain ⟨a, b, c⟩ := mergeScaled_spec r s ys' h'
    refine ⟨?_, by simp [b], ?_⟩
    · intro v hv; simp only [List.mem_cons, Option.some.injEq] at hv
      rcases hv with rfl | hv
      · exact ⟨q, rfl⟩
      · exact a v hv
    · intro hn z hz; simp only [List.mem_cons] at hz
      rcases hz with rfl | hz
      · exact ⟨q, rfl⟩
      · exact c (fun y hy => hn y (by simp [hy])) z hz

theorem optMap_scalars :
    ∀ (zs : List (Option (List Rat))), (∀ z ∈ zs, ∃ q, z = some [q]) →
      ∃ out, optMap scalarOf zs = some out
  | [], _ => ⟨[], rfl⟩
  | z :: zs, h => by
    obtain ⟨q, rfl⟩ := h z (by simp)
    obtain ⟨out, ho⟩ := optMap_scalars zs (fun z hz => h z (by simp [hz]))
    exact ⟨q :: out, by simp [optMap, scalarOf, ho]⟩

/-- the invariant of the optimizer's history under `CBO._tell` -/
structure OptInv (p : Policy) (st : Opt) : Prop where
  fin : st.yi.all Y.isFinite = true
  ign : p = .ignore → ∀ y ∈ st.yi, y ≠ Y.fail

/-- what `est.fit` can receive: a list of rationals, or the call never happens because
`ExhaustedFailures` was raised (≥ `max_failures` entries, all failed) or the environment broke its
contract; never a non-finite number, never the failure marker, never a ragged array -/
theorem fitInput_cases (p : Policy) (mf : Nat) (yi : List Y) (sc : List Rat)
    (hfin : yi.all Y.isFinite = true) (hign : p = .ignore → ∀ y ∈ yi, y ≠ Y.fail) :
    (∃ out, fitInput p mf yi sc = .ok out) ∨ fitInput p mf yi sc = .error .envContract ∨
    (fitInput p mf yi sc = .error .exhausted ∧ mf ≤ yi.length) := by
  unfold fitInput
  simp only [hfin, Bool.not_true, Bool.false_eq_true, if_false]
  cases hm : mergeScaled yi sc with
  | none => right; left; rfl
  | some ys =>
    obtain ⟨hs, hlen, hnf⟩ := mergeScaled_spec yi sc ys hm
    simp only
    rcases filterFailures_single p mf ys hs with ⟨zs, hz, hcase⟩ | ⟨he, hmf, _⟩
    · rw [hz]
      have hall : ∀ z ∈ zs, ∃ q, z = some [q] := by
        rcases hcase with ⟨_, h⟩ | ⟨hp, rfl⟩
        · exact h
        · exact hnf (hign hp)
      obtain ⟨out, ho⟩ := optMap_scalars zs hall
      left; exact ⟨out, by simp [ho]⟩
    · rw [he]; right; right; exact ⟨rfl, by omega⟩

/-! ### one tell, a whole history -/

theorem countOk_le (ys : List Y) : countOk ys ≤ ys.length := List.length_filter_le _ _

/-- number of results told in a history -/
def histLen (bs : List (List Val × List Rat)) : Nat := (bs.map (fun b => b.1.length)).sum

theorem searchTell_cases (p : Policy) (mf : Nat) (st : Opt) (objs : List Val) (sc : List Rat)
    (hinv : OptInv p st) (hobjs : ∀ o ∈ objs, noNonFin o = true) :
    (∃ st' fit, searchTell p mf st objs sc = .ok (st', fit) ∧ OptInv p st' ∧
        st'.yi.length ≤ st.yi.length + objs.length) ∨
    (∃ e, searchTell p mf st objs sc = .error (.inl e)) ∨
    searchTell p mf st objs sc = .error (.inr .envContract) ∨
    (searchTell p mf st objs sc = .error (.inr .exhausted) ∧ mf ≤ st.yi.length + objs.length) := by
  unfold searchTell
  cases hc : cboTell p objs with
  | error e => right; left; exact ⟨e, rfl⟩
  | ok ys =>
    cases ys with
    | nil => left; exact ⟨st, none, rfl, hinv, by omega⟩
    | cons y r =>
      have hfin' := cboTell_finite p objs (y :: r) hobjs hc
      have hlen := cboTell_length p objs (y :: r) hc
      have hinv' : OptInv p ⟨st.nInit - countOk (y :: r), st.yi ++ (y :: r)⟩ := by
        refine ⟨?_, ?_⟩
        · simp only [List.all_append, hinv.fin, Bool.true_and]; exact hfin'
        · intro hp z hz
          simp only [List.mem_append] at hz
          rcases hz with hz | hz
          · exact hinv.ign hp z hz
          · subst hp; exact cboTell_ignore_nofail objs (y :: r) hc z hz
      simp only [optTell]
      by_cases hn : st.nInit - (countOk (y :: r) : Int) ≤ 0
      · simp only [hn, if_true]
        rcases fitInput_cases p mf (st.yi ++ (y :: r)) sc hinv'.fin hinv'.ign with ⟨out, ho⟩ | he | ⟨he, hm⟩
        · left; rw [ho]; exact ⟨_, some out, rfl, hinv', by simp only [List.length_append]; omega⟩
        · right; right; left; rw [he]
        · right; right; right; rw [he]
          refine ⟨rfl, ?_⟩
          simp only [List.length_append] at hm; omega
      · simp only [hn, if_false]
        left; exact ⟨_, none, rfl, hinv', by simp only [List.length_append]; omega⟩

theorem runTells_cases (p : Policy) (mf : Nat) :
    ∀ (bs : List (List Val × List Rat)) (st : Opt), OptInv p st →
      (∀ b ∈ bs, ∀ o ∈ b.1, noNonFin o = true) →
      (∃ r, runTells p mf st bs = .ok r) ∨ (∃ e, runTells p mf st bs = .error (.inl e)) ∨
      runTells p mf st bs = .error (.inr .envContract) ∨
      (runTells p mf st bs = .error (.inr .exhausted) ∧ mf ≤ st.yi.length + histLen bs)
  | [], st, _, _ => Or.inl ⟨(st, []), rfl⟩
  | (objs, sc) :: rest, st, hinv, hobjs => by
    have h1 := searchTell_cases p mf st objs sc hinv (hobjs (objs, sc) (by simp))
    simp only [runTells]
    rcases h1 with ⟨st', fit, he, hinv', hlen⟩ | ⟨e, he⟩ | he | ⟨he, hm⟩
    · rw [he]
      dsimp only
      have ih := runTells_cases p mf rest st' hinv' (fun b hb => hobjs b (by simp [hb]))
      rcases ih with ⟨r, hr⟩ | ⟨e, hr⟩ | hr | ⟨hr, hm⟩
      · left; rw [hr]; exact ⟨_, rfl⟩
      · right; left; rw [hr]; exact ⟨e, rfl⟩
      · right; right; left; rw [hr]
      · right; right; right; rw [hr]
        refine ⟨rfl, ?_⟩
        simp only [histLen, List.map_cons, List.sum_cons] at hm ⊢
        omega
    · right; left; rw [he]; exact ⟨e, rfl⟩
    · right; right; left; rw [he]
    · right; right; right; rw [he]
      refine ⟨rfl, ?_⟩
      simp only [histLen, List.map_cons, List.sum_cons]; omega

/-! ### well-formed objectives never make `CBO._tell` raise -/

/-- objectives as `_on_done` leaves them for the supported forms, failure labels starting with
`F`: a number, a failure label, a tuple/list of numbers -/
def WFObj : Val → Prop
  | .num _ => True
  | .str s => firstIsF s = true
  | .list l => ∀ v ∈ l, ∃ q, v = Val.num q
  | _ => False

theorem firstIsF_ne_empty (s : String) (h : firstIsF s = true) : s ≠ "" := by
  intro h0; subst h0; revert h; decide

theorem optMap_asNumber_nums :
    ∀ (l : List Val), (∀ v ∈ l, ∃ q, v = Val.num q) → ∃ xs, optMap asNumber l = some xs
  | [], _ => ⟨[], rfl⟩
  | v :: l, h => by
    obtain ⟨q, rfl⟩ := h v (by simp)
    obtain ⟨xs, hx⟩ := optMap_asNumber_nums l (fun v hv => h v (by simp [hv]))
    exact ⟨Num.fin q :: xs, by simp [optMap, asNumber, hx]⟩

theorem cboTellOne_ok (p : Policy) (o : Val) (h : WFObj o) : ∃ y, cboTellOne p o = .ok y := by
  cases o with
  | num q => exact ⟨_, rfl⟩
  | str s =>
    have hne := firstIsF_ne_empty s h
    have hF : firstIsF s = true := h
    exact ⟨failOut p, by simp [cboTellOne, hne, hF]⟩
  | list l =>
    obtain ⟨xs, hx⟩ := optMap_asNumber_nums l h
    exact ⟨some (Y.vec (xs.map Num.neg)), by simp [cboTellOne, hx]⟩
  | nonfin k => exact absurd h (by simp [WFObj])
  | none => exact absurd h (by simp [WFObj])
  | dict d => exact absurd h (by simp [WFObj])

theorem cboTell_ok (p : Policy) : ∀ (objs : List Val), (∀ o ∈ objs, WFObj o) → ∃ ys, cboTell p objs = .ok ys
  | [], _ => ⟨[], rfl⟩
  | o :: r, h => by
    obtain ⟨y, hy⟩ := cboTellOne_ok p o (h o (by simp))
    obtain ⟨ys, hys⟩ := cboTell_ok p r (fun o' ho' => h o' (by simp [ho']))
    cases y with
    | none => exact ⟨ys, by simp [cboTell, hy, hys]⟩
    | some y => exact ⟨y :: ys, by simp [cboTell, hy, hys]⟩

theorem WFObj_noNonFin (o : Val) (h : WFObj o) : noNonFin o = true := by
  cases o with
  | list l =>
    simp only [noNonFin, Bool.not_eq_true', List.any_eq_false]
    intro v hv
    obtain ⟨q, rfl⟩ := h v hv
    simp [isNonFinite]
  | nonfin k => exact absurd h (by simp [WFObj])
  | num q => rfl
  | str s => rfl
  | none => rfl
  | dict d => rfl

theorem searchTell_no_tellErr (p : Policy) (mf : Nat) (st : Opt) (objs : List Val) (sc : List Rat)
    (h : ∀ o ∈ objs, WFObj o) (e : TellErr) : searchTell p mf st objs sc ≠ .error (.inl e) := by
  obtain ⟨ys, hys⟩ := cboTell_ok p objs h
  unfold searchTell
  rw [hys]
  cases ys with
  | nil => simp
  | cons y r =>
    simp only
    cases optTell p mf st (y :: r) sc <;> simp

theorem runTells_no_tellErr (p : Policy) (mf : Nat) :
    ∀ (bs : List (List Val × List Rat)) (st : Opt), (∀ b ∈ bs, ∀ o ∈ b.1, WFObj o) →
      ∀ e : TellErr, runTells p mf st bs ≠ .error (.inl e)
  | [], st, _, e => by simp [runTells]
  | (objs, sc) :: rest, st, h, e => by
    simp only [runTells]
    cases hs : searchTell p mf st objs sc with
    | error e' =>
      cases e' with
      | inl t => exact absurd hs (searchTell_no_tellErr p mf st objs sc (h (objs, sc) (by simp)) t)
      | inr t => simp
    | ok r =>
      obtain ⟨st', fit⟩ := r
      simp only
      have ih := runTells_no_tellErr p mf rest st' (fun b hb => h b (by simp [hb])) e
      cases hr : runTells p mf st' rest with
      | error e' => rw [hr] at ih; simpa using ih
      | ok r' => simp

/-! ### label non-interference -/

/-- equal, or two failure labels (strings starting with `F`) -/
def LabelEq (a b : Val) : Prop :=
  a = b ∨ ∃ s s', a = Val.str s ∧ b = Val.str s' ∧ firstIsF s = true ∧ firstIsF s' = true

def LabelEqL : List Val → List Val → Prop
  | [], [] => True
  | a :: as, b :: bs => LabelEq a b ∧ LabelEqL as bs
  | _, _ => False

theorem cboTellOne_label (p : Policy) (a b : Val) (h : LabelEq a b) : cboTellOne p a = cboTellOne p b := by
  rcases h with rfl | ⟨s, s', rfl, rfl, hs, hs'⟩
  · rfl
  · simp [cboTellOne, firstIsF_ne_empty s hs, firstIsF_ne_empty s' hs', hs, hs']

theorem cboTell_label (p : Policy) : ∀ (as bs : List Val), LabelEqL as bs → cboTell p as = cboTell p bs
  | [], [], _ => rfl
  | [], _ :: _, h => absurd h (by simp [LabelEqL])
  | _ :: _, [], h => absurd h (by simp [LabelEqL])
  | a :: as, b :: bs, h => by
    simp only [cboTell, cboTellOne_label p a b h.1, cboTell_label p as bs h.2]

/-- two histories that differ only in the text of failure labels (same environment values) -/
def HistEq : List (List Val × List Rat) → List (List Val × List Rat) → Prop
  | [], [] => True
  | (o, s) :: r, (o', s') :: r' => LabelEqL o o' ∧ s = s' ∧ HistEq r r'
  | _, _ => False

theorem searchTell_label (p : Policy) (mf : Nat) (st : Opt) (o o' : List Val) (sc : List Rat)
    (h : LabelEqL o o') : searchTell p mf st o sc = searchTell p mf st o' sc := by
  unfold searchTell; rw [cboTell_label p o o' h]

theorem runTells_label (p : Policy) (mf : Nat) :
    ∀ (h1 h2 : List (List Val × List Rat)) (st : Opt), HistEq h1 h2 →
      runTells p mf st h1 = runTells p mf st h2
  | [], [], _, _ => rfl
  | [], _ :: _, _, h => absurd h (by simp [HistEq])
  | _ :: _, [], _, h => absurd h (by simp [HistEq])
  | (o, s) :: r, (o', s') :: r', st, h => by
    obtain ⟨ho, rfl, hr⟩ := h
    simp only [runTells, searchTell_label p mf st o o' s ho]
    cases searchTell p mf st o' s with
    | error e => rfl
    | ok x => obtain ⟨st', fit⟩ := x; simp only [runTells_label p mf r r' st' hr]

/-! ### regularized evolution -/

def ItemsEq : List (Nat × Val) → List (Nat × Val) → Prop
  | [], [] => True
  | (c, o) :: r, (c', o') :: r' => c = c' ∧ LabelEq o o' ∧ ItemsEq r r'
  | _, _ => False

theorem regevoTell_label (cap : Nat) :
    ∀ (a b : List (Nat × Val)) (pop : List (Nat × Val)), ItemsEq a b →
      regevoTell cap pop a = regevoTell cap pop b
  | [], [], _, _ => rfl
  | [], _ :: _, _, h => absurd h (by simp [ItemsEq])
  | _ :: _, [], _, h => absurd h (by simp [ItemsEq])
  | (c, o) :: r, (c', o') :: r', pop, h => by
    obtain ⟨rfl, ho, hr⟩ := h
    rcases ho with rfl | ⟨s, s', rfl, rfl, _, _⟩
    · simp only [regevoTell]
      split
      · exact regevoTell_label cap r r' pop hr
      · exact regevoTell_label cap r r' _ hr
    · simp only [regevoTell, isStr, if_true]
      exact regevoTell_label cap r r' pop hr

theorem mem_dequeAppend {α : Type} (cap : Nat) (q : List α) (x y : α) (h : y ∈ dequeAppend cap q x) :
    y ∈ q ∨ y = x := by
  unfold dequeAppend at h
  have := List.mem_of_mem_drop h
  simpa using this

theorem regevoTell_no_str (cap : Nat) :
    ∀ (items pop : List (Nat × Val)), (∀ e ∈ pop, isStr e.2 = false) →
      ∀ e ∈ regevoTell cap pop items, isStr e.2 = false
  | [], pop, h => by simpa [regevoTell] using h
  | (c, o) :: r, pop, h => by
    simp only [regevoTell]
    split
    · exact regevoTell_no_str cap r pop h
    · rename_i hs
      apply regevoTell_no_str cap r
      intro e he
      rcases mem_dequeAppend cap pop (c, o) e he with he | rfl
      · exact h e he
      · simpa using hs

/-! ### `_filter_failures` with several objectives (fix 3) -/

theorem sumCols_length (m : Nat) : ∀ (vs : List (List Rat)), vs ≠ [] → (∀ v ∈ vs, v.length = m) →
    (sumCols vs).length = m
  | [], h, _ => absurd rfl h
  | [v], _, h => by simpa [sumCols] using h v (by simp)
  | v :: w :: r, _, h => by
    have := sumCols_length m (w :: r) (by simp) (fun x hx => h x (by simp [hx]))
    simp [sumCols, List.length_zipWith, this, h v (by simp)]

theorem maxCols_length (m : Nat) : ∀ (vs : List (List Rat)), vs ≠ [] → (∀ v ∈ vs, v.length = m) →
    (maxCols vs).length = m
  | [], h, _ => absurd rfl h
  | [v], _, h => by simpa [maxCols] using h v (by simp)
  | v :: w :: r, _, h => by
    have := maxCols_length m (w :: r) (by simp) (fun x hx => h x (by simp [hx]))
    simp [maxCols, List.length_zipWith, this, h v (by simp)]

theorem sameLength_of_length (m : Nat) (vs : List (List Rat)) (h : ∀ v ∈ vs, v.length = m) :
    sameLength vs = true := by
  cases vs with
  | nil => rfl
  | cons v r =>
    simp only [sameLength, List.all_eq_true, beq_iff_eq]
    intro w hw
    rw [h w (by simp [hw]), h v (by simp)]

/-! ### when can `ExhaustedFailures` be raised? -/

theorem mergeScaled_good_length :
    ∀ (yi : List Y) (sc : List Rat) (ys : List (Option (List Rat))), mergeScaled yi sc = some ys →
      (ys.filterMap id).length = countOk yi
  | [], [], ys, h => by simp [mergeScaled] at h; subst h; rfl
  | [], _ :: _, ys, h => by simp [mergeScaled] at h
  | .fail :: r, s, ys, h => by
    simp only [mergeScaled, Option.map_eq_some_iff] at h
    obtain ⟨ys', h', rfl⟩ := h
    have := mergeScaled_good_length r s ys' h'
    simpa [countOk, isOk] using this
  | .val x :: r, [], ys, h => by simp [mergeScaled] at h
  | .vec x :: r, [], ys, h => by simp [mergeScaled] at h
  | .val x :: r, q :: s, ys, h => by
    simp only [mergeScaled, Option.map_eq_some_iff] at h
    obtain ⟨ys', h', rfl⟩ := h
    have := mergeScaled_good_length r s ys' h'
    simp only [countOk] at this
    simp [countOk, List.filter_cons, isOk, this]
  | .vec x :: r, q :: s, ys, h => by
    simp only [mergeScaled, Option.map_eq_some_iff] at h
    obtain ⟨ys', h', rfl⟩ := h
    have := mergeScaled_good_length r s ys' h'
    simp only [countOk] at this
    simp [countOk, List.filter_cons, isOk, this]

/-- `ExhaustedFailures` at a fit means: not a single non-failed entry in the history, at least
`max_failures` entries, and a policy that imputes -/
theorem fitInput_exhausted (p : Policy) (mf : Nat) (yi : List Y) (sc : List Rat)
    (h : fitInput p mf yi sc = .error .exhausted) : countOk yi = 0 ∧ mf ≤ yi.length ∧ p ≠ .ignore := by
  unfold fitInput at h
  split at h
  · cases h
  · cases hm : mergeScaled yi sc with
    | none => simp [hm] at h
    | some ys =>
      simp only [hm] at h
      obtain ⟨hs, hlen, _⟩ := mergeScaled_spec yi sc ys hm
      have hgl := mergeScaled_good_length yi sc ys hm
      rcases filterFailures_single p mf ys hs with ⟨zs, hz, _⟩ | ⟨he, hmf, hnil⟩
      · rw [hz] at h
        simp only at h
        split at h <;> cases h
      · refine ⟨by rw [← hgl, hnil]; rfl, by omega, ?_⟩
        intro hp; subst hp; simp [filterFailures] at he

theorem countOk_append (a b : List Y) : countOk (a ++ b) = countOk a + countOk b := by
  simp [countOk, List.filter_append]

/-- `_n_initial_points` = initial value minus the number of non-failed results told -/
def NInitInv (n0 : Int) (st : Opt) : Prop := st.nInit = n0 - (countOk st.yi : Int)

theorem searchTell_unfold (p : Policy) (mf : Nat) (st : Opt) (objs : List Val) (sc : List Rat)
    (y : Y) (r : List Y) (hc : cboTell p objs = .ok (y :: r)) :
    searchTell p mf st objs sc =
      (if st.nInit - (countOk (y :: r) : Int) ≤ 0 then
        match fitInput p mf (st.yi ++ y :: r) sc with
        | .error e => .error (.inr e)
        | .ok out => .ok (⟨st.nInit - countOk (y :: r), st.yi ++ y :: r⟩, some out)
       else .ok (⟨st.nInit - countOk (y :: r), st.yi ++ y :: r⟩, none)) := by
  unfold searchTell
  simp only [hc, optTell]
  by_cases hle : st.nInit - (countOk (y :: r) : Int) ≤ 0
  · simp only [hle, if_true]
    cases fitInput p mf (st.yi ++ y :: r) sc <;> rfl
  · simp only [hle, if_false]

theorem searchTell_ninit (p : Policy) (mf : Nat) (n0 : Int) (st st' : Opt) (objs : List Val)
    (sc : List Rat) (fit : Option (List Rat)) (hinv : NInitInv n0 st)
    (h : searchTell p mf st objs sc = .ok (st', fit)) : NInitInv n0 st' := by
  cases hc : cboTell p objs with
  | error e => unfold searchTell at h; simp [hc] at h
  | ok ys =>
    cases ys with
    | nil => unfold searchTell at h; simp [hc] at h; obtain ⟨rfl, _⟩ := h; exact hinv
    | cons y r =>
      rw [searchTell_unfold p mf st objs sc y r hc] at h
      have key : NInitInv n0 ⟨st.nInit - countOk (y :: r), st.yi ++ (y :: r)⟩ := by
        unfold NInitInv at hinv ⊢
        simp only [countOk_append, hinv]
        omega
      by_cases hle : st.nInit - (countOk (y :: r) : Int) ≤ 0
      · simp only [hle, if_true] at h
        cases hf : fitInput p mf (st.yi ++ y :: r) sc with
        | error e => simp [hf] at h
        | ok out => simp only [hf, Except.ok.injEq, Prod.mk.injEq] at h; obtain ⟨rfl, _⟩ := h; exact key
      · simp only [hle, if_false, Except.ok.injEq, Prod.mk.injEq] at h; obtain ⟨rfl, _⟩ := h; exact key

/-- with `n_initial_points ≥ 1` a tell never raises `ExhaustedFailures`: a fit needs
`_n_initial_points ≤ 0`, i.e. at least one non-failed result, and then there is something to
impute from -/
theorem searchTell_not_exhausted (p : Policy) (mf : Nat) (n0 : Int) (hn0 : 1 ≤ n0) (st : Opt)
    (objs : List Val) (sc : List Rat) (hinv : NInitInv n0 st) :
    searchTell p mf st objs sc ≠ .error (.inr .exhausted) := by
  intro h
  cases hc : cboTell p objs with
  | error e => unfold searchTell at h; simp [hc] at h
  | ok ys =>
    cases ys with
    | nil => unfold searchTell at h; simp [hc] at h
    | cons y r =>
      rw [searchTell_unfold p mf st objs sc y r hc] at h
      by_cases hle : st.nInit - (countOk (y :: r) : Int) ≤ 0
      · simp only [hle, if_true] at h
        cases hf : fitInput p mf (st.yi ++ y :: r) sc with
        | ok out => simp [hf] at h
        | error e =>
          simp only [hf, Except.error.injEq, Sum.inr.injEq] at h
          subst h
          obtain ⟨h0, _, _⟩ := fitInput_exhausted p mf _ sc hf
          unfold NInitInv at hinv
          rw [countOk_append] at h0
          have h1 : countOk (y :: r) = 0 := by omega
          have h2 : countOk st.yi = 0 := by omega
          simp only [h1, hinv, h2] at hle
          omega
      · simp [hle] at h

theorem runTells_not_exhausted (p : Policy) (mf : Nat) (n0 : Int) (hn0 : 1 ≤ n0) :
    ∀ (bs : List (List Val × List Rat)) (st : Opt), NInitInv n0 st →
      runTells p mf st bs ≠ .error (.inr .exhausted)
  | [], st, _ => by simp [runTells]
  | (objs, sc) :: rest, st, hinv => by
    simp only [runTells]
    cases hs : searchTell p mf st objs sc with
    | error e =>
      intro h
      simp only [Except.error.injEq] at h
      subst h
      exact searchTell_not_exhausted p mf n0 hn0 st objs sc hinv hs
    | ok r =>
      obtain ⟨st', fit⟩ := r
      dsimp only
      have ih := runTells_not_exhausted p mf n0 hn0 rest st' (searchTell_ninit p mf n0 st st' objs sc fit hinv hs)
      cases hr : runTells p mf st' rest with
      | error e => rw [hr] at ih; simpa using ih
      | ok r' => simp

/-- a batch of failure labels is told as that many `"F"` markers (policy mean / max) -/
theorem cboTell_all_fail (p : Policy) (hp : p ≠ .ignore) :
    ∀ (objs : List Val), (∀ o ∈ objs, ∃ s, o = Val.str s ∧ firstIsF s = true) →
      cboTell p objs = .ok (objs.map (fun _ => Y.fail))
  | [], _ => rfl
  | o :: r, h => by
    obtain ⟨s, rfl, hs⟩ := h o (by simp)
    have ih := cboTell_all_fail p hp r (fun o' ho' => h o' (by simp [ho']))
    have hne := firstIsF_ne_empty s hs
    have hf : failOut p = some Y.fail := by simp [failOut, hp]
    simp [cboTell, cboTellOne, hne, hs, hf, ih]

theorem mergeScaled_all_fail : ∀ (n : Nat), mergeScaled (List.replicate n Y.fail) [] = some (List.replicate n none)
  | 0 => rfl
  | n + 1 => by simp [List.replicate_succ, mergeScaled, mergeScaled_all_fail n]

end DH.Failures

namespace DH.Failures
open DH.Dump

/-! ### the storage between two evaluators -/

/-- not a dict-valued objective (dict objectives are not modelled in `CBO._tell` either) -/
def NotDict : Val → Prop
  | .dict _ => False
  | _ => True

theorem otherObjective_stored (o : Val) (h : NotDict o) (hn : o ≠ Val.none) :
    otherObjective (onDoneStore o).stored = .ok (some (onDoneObjective o)) := by
  cases o with
  | num q => rfl
  | nonfin k => rfl
  | str s => rfl
  | none => exact absurd rfl hn
  | dict d => exact absurd h (by simp [NotDict])
  | list l =>
    simp only [onDoneStore, onDoneObjective]
    by_cases hany : l.any isNonFinite = true
    · simp only [hany, if_true]; rfl
    · simp only [hany]; rfl

/-- an objective `None` is stored as `None`: the other evaluators never report the job -/
theorem otherObjective_stored_none : otherObjective (onDoneStore Val.none).stored = .ok none := rfl

theorem otherView_cons (v : Val) (r : List Val) (x : Option Val) (xs : List Val)
    (hv : otherObjective v = .ok x) (hr : otherView r = .ok xs) :
    otherView (v :: r) = .ok (match x with | some o => o :: xs | none => xs) := by
  cases x <;> simp [otherView, hv, hr]

/-- supported raw objectives are never `None`, never a dict -/
theorem otherView_raw :
    ∀ (objs : List Val), (∀ o ∈ objs, NotDict o ∧ o ≠ Val.none) →
      otherView (objs.map (fun o => (onDoneStore o).stored)) = .ok (objs.map onDoneObjective)
  | [], _ => rfl
  | o :: r, h => by
    have ih := otherView_raw r (fun x hx => h x (by simp [hx]))
    have ho := h o (by simp)
    have h1 := otherObjective_stored o ho.1 ho.2
    simp only [List.map_cons]
    rw [otherView_cons _ _ _ _ h1 ih]

/-! ### the ask cache -/

/-- the cache can only hold something while `_asked_since_tell` is set -/
def CacheInv {κ β : Type} (c : AskCache κ β) : Prop := c.asked = false → c.entry = none

theorem cboAsk_spec {κ β : Type} [DecidableEq κ] (c : AskCache κ β) (h : CacheInv c) (single : Bool) (key : κ)
    (fresh refreshed : β) :
    (cboAsk c single key fresh refreshed).2 =
        ((if single then (if c.asked then refreshed else c.next) else fresh), false) ∧
      (cboAsk c single key fresh refreshed).1.asked = true ∧
      (cboAsk c single key fresh refreshed).1.next = (if c.asked then refreshed else c.next) := by
  unfold cboAsk
  cases ha : c.asked with
  | true => cases single <;> simp [optReset, optAsk]
  | false =>
    have := h ha
    cases single <;> simp [optAsk, this]

theorem runCache_spec {κ β : Type} [DecidableEq κ] :
    ∀ (ops : List (CacheOp κ β)) (c : AskCache κ β), CacheInv c →
      runCache c ops = (specCache c.asked c.next ops).map (fun f => (f, false))
  | [], _, _ => rfl
  | .ask single key fresh refreshed :: r, c, h => by
    have hf := cboAsk_spec c h single key fresh refreshed
    have hinv : CacheInv (cboAsk c single key fresh refreshed).1 := by
      intro hx; rw [hf.2.1] at hx; exact absurd hx (by simp)
    have ih := runCache_spec r (cboAsk c single key fresh refreshed).1 hinv
    simp only [runCache, specCache, List.map_cons]
    rw [ih, hf.2.1, hf.2.2]
    have : ((cboAsk c single key fresh refreshed).2.1, (cboAsk c single key fresh refreshed).2.2) =
        ((if single then (if c.asked then refreshed else c.next) else fresh), false) := hf.1
    simp only [Prod.mk.injEq] at this
    rw [this.1, this.2]
  | .tell p objs newNext :: r, c, _ => by
    simp only [runCache, specCache]
    exact runCache_spec r _ (by intro _; rfl)

end DH.Failures
