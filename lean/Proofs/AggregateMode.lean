import Proofs.AggregateCat

/-! Helper lemmas for C19: `ModeAggregator` (votes are one-hot rows) and "masked rows are ignored". -/

namespace DH.Aggregate

/-! ### argmax, one-hot -/

theorem argmaxFrom_lt (i best : Nat) (bv : Rat) (xs : List Rat) (h : best < i) :
    argmaxFrom i best bv xs < i + xs.length := by
  induction xs generalizing i best bv with
  | nil => simpa [argmaxFrom] using h
  | cons x xs ih =>
    simp only [argmaxFrom, List.length_cons]
    split
    · have := ih (i + 1) i x (by omega); omega
    · have := ih (i + 1) best bv (by omega); omega

theorem argmax_lt {p : List Rat} (h : p ≠ []) : argmax p < p.length := by
  cases p with
  | nil => exact absurd rfl h
  | cons x xs =>
    have := argmaxFrom_lt 1 0 x xs (by omega)
    simp only [argmax, List.length_cons]; omega

theorem onehot_length (c j : Nat) : (onehot c j).length = c := by simp [onehot]

theorem onehot_nonneg (c j : Nat) : ∀ x ∈ onehot c j, 0 ≤ x := by
  intro x hx
  simp only [onehot, List.mem_map] at hx
  obtain ⟨i, _, rfl⟩ := hx
  split <;> norm_num

theorem onehot_sum_ge (c j : Nat) (h : c ≤ j) : (onehot c j).sum = 0 := by
  induction c with
  | zero => simp [onehot]
  | succ c ih =>
    have := ih (by omega)
    simp only [onehot, List.range_succ, List.map_append, List.sum_append, List.map_cons, List.map_nil,
      List.sum_cons, List.sum_nil] at this ⊢
    rw [this]
    have : c ≠ j := by omega
    simp [this]

theorem onehot_sum (c j : Nat) (h : j < c) : (onehot c j).sum = 1 := by
  induction c with
  | zero => omega
  | succ c ih =>
    simp only [onehot, List.range_succ, List.map_append, List.sum_append, List.map_cons, List.map_nil,
      List.sum_cons, List.sum_nil]
    by_cases hj : j = c
    · subst hj
      have := onehot_sum_ge j j (le_refl _)
      simp only [onehot] at this
      rw [this]; simp
    · have := ih (by omega)
      simp only [onehot] at this
      rw [this]
      have : c ≠ j := fun h => hj h.symm
      simp [this]

theorem votes_simplex {c : Nat} (hc : 0 < c) {rows : List Row} (hr : RowsLen c rows) :
    RowsSimplex c (votes c rows) := by
  intro q hq
  simp only [votes, List.mem_map] at hq
  obtain ⟨r, hr', hq⟩ := hq
  cases r with
  | none => simp at hq
  | some p =>
    simp only [Option.map_some, Option.some.injEq] at hq
    subst hq
    have hp : p ≠ [] := by
      intro h; have := hr p hr'; subst h; simp at this; omega
    have hlt : argmax p < c := by have := argmax_lt hp; rw [hr p hr'] at this; exact this
    exact ⟨onehot_length _ _, onehot_nonneg _ _, onehot_sum _ _ hlt⟩

theorem rsum_votes (c : Nat) (ws : List Rat) (rows : List Row) :
    rsum ws (votes c rows) = rsum ws rows := by
  induction ws generalizing rows with
  | nil => simp [rsum]
  | cons w ws ih => cases rows with
    | nil => simp [rsum, votes]
    | cons r rows =>
      have := ih rows
      cases r <;> simp [rsum, votes] at * <;> rw [this]

/-- `ModeAggregator`: the vote is a distribution, the uncertainty lies in `[0, 1 - 1/c] ⊆ [0, 1]`,
the returned class is a valid class index -/
theorem mode_out {c : Nat} (hc : 0 < c) {ws : List Rat} (hw : ∀ w ∈ ws, 0 ≤ w) {rows : List Row}
    (hr : RowsLen c rows) (hW : rsum ws rows ≠ 0) :
    ∃ counts k u, modeAgg c ws rows = ⟨some counts, some k, some u⟩ ∧
      (counts.length = c ∧ (∀ x ∈ counts, 0 ≤ x) ∧ counts.sum = 1) ∧ k < c ∧
      0 ≤ u ∧ u ≤ 1 - 1 / (c : Rat) ∧ u ≤ 1 := by
  have hW' : rsum ws (votes c rows) ≠ 0 := by rw [rsum_votes]; exact hW
  have hloc := catLoc_of_ne (c := c) hW'
  have hsim := catLoc_simplex hw (votes_simplex hc hr) hloc
  obtain ⟨u, hu, hu0, hu1⟩ := conf_range hc hsim.1 hsim.2.1 hsim.2.2
  have hne : (rdot c ws (votes c rows)).map (· / rsum ws (votes c rows)) ≠ [] := by
    intro h
    have h0 := hsim.1
    rw [h] at h0
    simp only [List.length_nil] at h0
    omega
  have hcpos : (0 : Rat) < c := by exact_mod_cast hc
  have : 0 ≤ 1 / (c : Rat) := by positivity
  have h1 : modeAgg c ws rows = ⟨some ((rdot c ws (votes c rows)).map (· / rsum ws (votes c rows))),
      some (argmax ((rdot c ws (votes c rows)).map (· / rsum ws (votes c rows)))), some u⟩ := by
    simp [modeAgg, hloc, hu]
  have h2 : argmax ((rdot c ws (votes c rows)).map (· / rsum ws (votes c rows))) < c := by
    have := argmax_lt hne; rw [hsim.1] at this; exact this
  have h3 : u ≤ 1 := by linarith
  exact ⟨_, _, u, h1, hsim, h2, hu0, hu1, h3⟩

/-! ### masked rows are ignored -/

/-- the rows that are present, with their weights -/
def presentRows : List Rat → List Row → List (Rat × List Rat)
  | w :: ws, some p :: rs => (w, p) :: presentRows ws rs
  | _ :: ws, none :: rs => presentRows ws rs
  | _, _ => []

theorem rsum_presentRows (ws : List Rat) (rows : List Row) :
    rsum ((presentRows ws rows).map (·.1)) ((presentRows ws rows).map (fun p => some p.2)) = rsum ws rows := by
  induction ws generalizing rows with
  | nil => simp [rsum, presentRows]
  | cons w ws ih => cases rows with
    | nil => simp [rsum, presentRows]
    | cons r rows => cases r <;> simp [rsum, presentRows, ih]

theorem rdot_presentRows (c : Nat) (ws : List Rat) (rows : List Row) :
    rdot c ((presentRows ws rows).map (·.1)) ((presentRows ws rows).map (fun p => some p.2)) = rdot c ws rows := by
  induction ws generalizing rows with
  | nil => simp [rdot, presentRows]
  | cons w ws ih => cases rows with
    | nil => simp [rdot, presentRows]
    | cons r rows => cases r <;> simp [rdot, presentRows, ih]

theorem catLoc_presentRows (c : Nat) (ws : List Rat) (rows : List Row) :
    catLoc c ((presentRows ws rows).map (·.1)) ((presentRows ws rows).map (fun p => some p.2)) = catLoc c ws rows := by
  unfold catLoc; rw [rsum_presentRows, rdot_presentRows]

theorem wsum_rowStat_presentRows (f : List Rat → Option Rat) (ws : List Rat) (rows : List Row) :
    wsum ((presentRows ws rows).map (·.1)) ((presentRows ws rows).map (fun p => f p.2)) =
      wsum ws (rows.map (fun r => r.bind f)) ∧
    wdot ((presentRows ws rows).map (·.1)) ((presentRows ws rows).map (fun p => f p.2)) =
      wdot ws (rows.map (fun r => r.bind f)) := by
  induction ws generalizing rows with
  | nil => simp [wsum, wdot, presentRows]
  | cons w ws ih => cases rows with
    | nil => simp [wsum, wdot, presentRows]
    | cons r rows =>
      obtain ⟨h1, h2⟩ := ih rows
      cases r with
      | none =>
        simp only [presentRows, List.map_cons, Option.bind_none, wsum, wdot]
        exact ⟨h1, h2⟩
      | some p =>
        simp only [presentRows, List.map_cons, Option.bind_some]
        cases f p with
        | none => simp only [wsum, wdot]; exact ⟨h1, h2⟩
        | some v => simp [wsum, wdot, h1, h2]

theorem rowStat_map_some (f : List Rat → Option Rat) (l : List (Rat × List Rat)) :
    rowStat f (l.map (fun p => some p.2)) = l.map (fun p => f p.2) := by
  simp [rowStat, List.map_map, Function.comp_def]

theorem catAgg_presentRows (u : List Rat → Option Rat) (c : Nat) (ws : List Rat) (rows : List Row) :
    catAgg u c ((presentRows ws rows).map (·.1)) ((presentRows ws rows).map (fun p => some p.2)) =
      catAgg u c ws rows := by
  obtain ⟨h1, h2⟩ := wsum_rowStat_presentRows u ws rows
  simp only [catAgg, catLoc_presentRows, average, rowStat_map_some, h1, h2]
  rfl

theorem presentRows_votes (c : Nat) (ws : List Rat) (rows : List Row) :
    presentRows ws (votes c rows) = (presentRows ws rows).map (fun p => (p.1, onehot c (argmax p.2))) := by
  induction ws generalizing rows with
  | nil => simp [presentRows]
  | cons w ws ih => cases rows with
    | nil => simp [presentRows, votes]
    | cons r rows =>
      have := ih rows
      cases r <;> simp [presentRows, votes] at * <;> exact this

theorem modeAgg_presentRows (c : Nat) (ws : List Rat) (rows : List Row) :
    modeAgg c ((presentRows ws rows).map (·.1)) ((presentRows ws rows).map (fun p => some p.2)) =
      modeAgg c ws rows := by
  have h : catLoc c ((presentRows ws rows).map (·.1)) (votes c ((presentRows ws rows).map (fun p => some p.2))) =
      catLoc c ws (votes c rows) := by
    rw [← catLoc_presentRows c ws (votes c rows), presentRows_votes]
    simp [votes, List.map_map, Function.comp_def]
  simp only [modeAgg, h]

/-- a masked row in front (with any weight) changes nothing -/
theorem catLoc_cons_none (c : Nat) (w : Rat) (ws : List Rat) (rows : List Row) :
    catLoc c (w :: ws) (none :: rows) = catLoc c ws rows := by
  unfold catLoc
  rw [show rsum (w :: ws) (none :: rows) = rsum ws rows from rfl,
    show rdot c (w :: ws) (none :: rows) = rdot c ws rows from rfl]

end DH.Aggregate
