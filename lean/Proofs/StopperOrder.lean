import Proofs.Stopper
import Mathlib.Tactic.Linarith
import Mathlib.Algebra.Order.Field.Rat

/-! Helper lemmas for C16: sorting, the k-th largest element, the median, who the competitors are. -/

namespace DH.Stopper

/-! ### the order of the objectives (`-inf < finite < +inf`) is a linear order -/

namespace ERat

theorem fin_le_fin {a b : Rat} : (fin a ≤ fin b) ↔ a ≤ b := by
  show leB (fin a) (fin b) = true ↔ a ≤ b
  simp [leB]

theorem fin_lt_fin {a b : Rat} : (fin a < fin b) ↔ a < b := by
  show leB (fin b) (fin a) = false ↔ a < b
  simp [leB]

theorem negInf_le (x : ERat) : negInf ≤ x := by cases x <;> rfl
theorem le_posInf (x : ERat) : x ≤ posInf := by cases x <;> rfl
theorem negInf_lt_fin (a : Rat) : negInf < fin a := rfl
theorem fin_lt_posInf (a : Rat) : fin a < posInf := rfl
theorem negInf_lt_posInf : negInf < posInf := rfl

protected theorem le_refl' (a : ERat) : a ≤ a := by
  cases a with
  | negInf => rfl
  | posInf => rfl
  | fin a => exact fin_le_fin.2 (le_refl a)

protected theorem le_trans' {a b c : ERat} (h1 : a ≤ b) (h2 : b ≤ c) : a ≤ c := by
  cases a <;> cases b <;> cases c <;> first
    | rfl
    | exact (Bool.false_ne_true h1).elim
    | exact (Bool.false_ne_true h2).elim
    | exact fin_le_fin.2 (le_trans (fin_le_fin.1 h1) (fin_le_fin.1 h2))

protected theorem le_antisymm' {a b : ERat} (h1 : a ≤ b) (h2 : b ≤ a) : a = b := by
  cases a <;> cases b <;> first
    | rfl
    | exact (Bool.false_ne_true h1).elim
    | exact (Bool.false_ne_true h2).elim
    | exact congrArg fin (le_antisymm (fin_le_fin.1 h1) (fin_le_fin.1 h2))

protected theorem le_total' (a b : ERat) : a ≤ b ∨ b ≤ a := by
  cases a <;> cases b <;> first
    | exact Or.inl rfl
    | exact Or.inr rfl
    | exact (le_total _ _).imp fin_le_fin.2 fin_le_fin.2

protected theorem lt_iff' {a b : ERat} : a < b ↔ a ≤ b ∧ ¬ b ≤ a := by
  have h : (a < b) ↔ ¬ b ≤ a := by
    show leB b a = false ↔ ¬ leB b a = true
    simp
  rw [h]
  exact ⟨fun hn => ⟨(ERat.le_total' a b).resolve_right hn, hn⟩, fun hh => hh.2⟩

instance : LinearOrder ERat where
  le := (· ≤ ·)
  lt := (· < ·)
  le_refl := ERat.le_refl'
  le_trans := fun _ _ _ => ERat.le_trans'
  lt_iff_le_not_ge := fun _ _ => ERat.lt_iff'
  le_antisymm := fun _ _ => ERat.le_antisymm'
  le_total := ERat.le_total'
  toDecidableLE := fun a b => inferInstanceAs (Decidable (leB a b = true))

/-- `x <= x + epsilon` for `epsilon >= 0`, also at the infinities -/
theorem le_addFin {t q : ERat} {e : Rat} (he : 0 ≤ e) (h : t ≤ q) : t ≤ q.addFin e := by
  cases q with
  | negInf => exact h
  | posInf => exact h
  | fin q =>
    cases t with
    | negInf => exact negInf_le _
    | posInf => exact (Bool.false_ne_true h).elim
    | fin t =>
      have := fin_le_fin.1 h
      exact fin_le_fin.2 (by show t ≤ q + e; linarith)

/-- the mean of two values that are both `≤ q`, when it is defined, is `≤ q` -/
theorem mean_le {a b m q : ERat} (h : mean a b = some m) (ha : a ≤ q) (hb : b ≤ q) : m ≤ q := by
  cases a <;> cases b <;> simp only [mean, Option.some.injEq, reduceCtorEq] at h <;> subst h
  · exact negInf_le _
  · exact negInf_le _
  · exact negInf_le _
  · cases q with
    | negInf => exact (Bool.false_ne_true ha).elim
    | posInf => exact le_posInf _
    | fin q =>
      have h1 := fin_le_fin.1 ha
      have h2 := fin_le_fin.1 hb
      exact fin_le_fin.2 (by linarith)
  · exact hb
  · exact ha
  · exact ha

end ERat

/-! ### `np.sort`, `a[-k]`, `np.median` -/

theorem insertAsc_perm (x : ERat) : ∀ l : List ERat, (insertAsc x l).Perm (x :: l)
  | [] => List.Perm.refl _
  | y :: ys => by
    unfold insertAsc
    split
    · exact List.Perm.refl _
    · exact ((insertAsc_perm x ys).cons y).trans (List.Perm.swap x y ys)

theorem sortAsc_perm : ∀ l : List ERat, (sortAsc l).Perm l
  | [] => List.Perm.refl _
  | x :: xs => by
    show (insertAsc x (sortAsc xs)).Perm (x :: xs)
    exact (insertAsc_perm x _).trans ((sortAsc_perm xs).cons x)

theorem insertAsc_sorted (x : ERat) : ∀ l : List ERat, l.Pairwise (fun a b => a ≤ b) →
    (insertAsc x l).Pairwise (fun a b => a ≤ b)
  | [], _ => by simp [insertAsc]
  | y :: ys, h => by
    unfold insertAsc
    have hy := List.pairwise_cons.1 h
    split
    · rename_i hxy
      refine List.pairwise_cons.2 ⟨?_, h⟩
      intro z hz
      rcases List.mem_cons.1 hz with rfl | hz
      · exact hxy
      · exact le_trans hxy (hy.1 z hz)
    · rename_i hxy
      refine List.pairwise_cons.2 ⟨?_, insertAsc_sorted x ys hy.2⟩
      intro z hz
      rcases List.mem_cons.1 ((insertAsc_perm x ys).mem_iff.1 hz) with rfl | hz
      · exact le_of_lt (lt_of_not_ge hxy)
      · exact hy.1 z hz

theorem sortAsc_sorted : ∀ l : List ERat, (sortAsc l).Pairwise (fun a b => a ≤ b)
  | [] => List.Pairwise.nil
  | x :: xs => by
    show (insertAsc x (sortAsc xs)).Pairwise _
    exact insertAsc_sorted x _ (sortAsc_sorted xs)

theorem mem_sortAsc {l : List ERat} {x : ERat} : x ∈ sortAsc l ↔ x ∈ l := (sortAsc_perm l).mem_iff

theorem length_sortAsc (l : List ERat) : (sortAsc l).length = l.length := (sortAsc_perm l).length_eq

theorem negIdx_mem {l : List ERat} {k : Nat} {t : ERat} (h : negIdx l k = some t) : t ∈ l := by
  unfold negIdx at h
  split at h
  · exact List.mem_of_getElem? h
  · cases h

theorem negIdx_isSome {l : List ERat} {k : Nat} (h1 : 1 ≤ k) (h2 : k ≤ l.length) : ∃ t, negIdx l k = some t := by
  unfold negIdx
  rw [if_pos ⟨h1, h2⟩]
  have : l.length - k < l.length := by omega
  exact ⟨l[l.length - k], List.getElem?_eq_getElem this⟩

/-- in a sorted list the element `l[-k]` and everything after it are the `k` largest -/
theorem topk_count {l : List ERat} (hs : l.Pairwise (fun a b => a ≤ b)) {k : Nat} {t c : ERat}
    (h : negIdx l k = some t) (hc : c < t) : k ≤ l.countP (fun v => decide (c < v)) := by
  unfold negIdx at h
  split at h
  · rename_i hk
    have hlt : l.length - k < l.length := by omega
    have hall : ∀ x ∈ l.drop (l.length - k), c < x := by
      intro x hx
      obtain ⟨i, hi⟩ := List.mem_iff_getElem?.1 hx
      rw [List.getElem?_drop] at hi
      have hil : l.length - k + i < l.length := getElem?_lt hi
      have ht : l[l.length - k] = t := by
        have := List.getElem?_eq_getElem hlt
        rw [this] at h; exact Option.some.inj h
      have hx' : l[l.length - k + i] = x := by
        have := List.getElem?_eq_getElem hil
        rw [this] at hi; exact Option.some.inj hi
      rcases Nat.eq_zero_or_pos i with h0 | hp
      · subst h0
        have : x = t := by rw [← hx', ← ht]; simp
        rw [this]; exact hc
      · have := (List.pairwise_iff_getElem.1 hs) (l.length - k) (l.length - k + i) hlt hil (by omega)
        rw [ht, hx'] at this
        exact lt_of_lt_of_le hc this
    have hcount : (l.drop (l.length - k)).countP (fun v => decide (c < v)) = (l.drop (l.length - k)).length := by
      rw [List.countP_eq_length]
      intro x hx; simpa using hall x hx
    have hsplit : l.countP (fun v => decide (c < v)) =
        (l.take (l.length - k)).countP (fun v => decide (c < v)) + (l.drop (l.length - k)).countP (fun v => decide (c < v)) := by
      rw [← List.countP_append, List.take_append_drop]
    rw [hsplit, hcount, List.length_drop]
    omega
  · cases h

theorem medianSorted_le {l : List ERat} {m q : ERat} (h : medianSorted l = some m) (hall : ∀ x ∈ l, x ≤ q) : m ≤ q := by
  unfold medianSorted at h
  simp only at h
  split at h
  · cases h
  · split at h
    · exact hall m (List.mem_of_getElem? h)
    · split at h
      · rename_i a b ha hb
        exact ERat.mean_le h (hall a (List.mem_of_getElem? ha)) (hall b (List.mem_of_getElem? hb))
      · cases h

theorem lowerMiddle_mem {l : List ERat} {m : ERat} (h : lowerMiddle l = some m) : m ∈ l := by
  unfold lowerMiddle at h
  split at h
  · cases h
  · exact List.mem_of_getElem? h

theorem lowerMiddle_isSome {l : List ERat} (h : l ≠ []) : ∃ m, lowerMiddle l = some m := by
  have hpos : 0 < l.length := List.length_pos_iff.2 h
  unfold lowerMiddle
  rw [if_neg (by omega)]
  have : (l.length - 1) / 2 < l.length := by omega
  exact ⟨l[(l.length - 1) / 2], List.getElem?_eq_getElem this⟩

/-- after the fix the median rule always has a threshold when there is a competitor … -/
theorem medianThreshold_isSome {l : List ERat} (h : l ≠ []) : ∃ m, medianThreshold l = some m := by
  unfold medianThreshold
  cases hm : medianSorted l with
  | some m => exact ⟨m, rfl⟩
  | none => exact lowerMiddle_isSome h

/-- … and that threshold is at most the best competitor -/
theorem medianThreshold_le {l : List ERat} {m q : ERat} (h : medianThreshold l = some m) (hall : ∀ x ∈ l, x ≤ q) :
    m ≤ q := by
  unfold medianThreshold at h
  cases hm : medianSorted l with
  | some m' =>
    rw [hm] at h
    cases h
    exact medianSorted_le hm hall
  | none =>
    rw [hm] at h
    exact hall m (lowerMiddle_mem h)

/-! ### who the competitors are -/

theorem mem_competitors {s : Sys} {r : Nat} {q : ERat} :
    q ∈ competitors s r ↔ ∃ (i : Nat) (x : JobRec), s[i]? = some x ∧ mget (.rung r) x.md = some (.obj (.num q)) := by
  unfold competitors numbers loadAll
  constructor
  · intro h
    obtain ⟨v, hv, hq⟩ := List.mem_filterMap.1 h
    obtain ⟨x, hx, hxv⟩ := List.mem_filterMap.1 hv
    obtain ⟨i, hi⟩ := List.mem_iff_getElem?.1 hx
    refine ⟨i, x, hi, ?_⟩
    rw [hxv]
    cases v with
    | bool b => simp at hq
    | obj o =>
      cases o with
      | num q' => simp at hq; rw [hq]
      | fail t => simp at hq
  · rintro ⟨i, x, hi, hx⟩
    refine List.mem_filterMap.2 ⟨.obj (.num q), ?_, rfl⟩
    exact List.mem_filterMap.2 ⟨x, List.mem_of_getElem? hi, hx⟩

/-- At a decision budget of job `j` (its `n+1`-th observation, objective `q`, already recorded in `jr2`),
every number stored under its current rung was observed at that same budget; if `q` is at least as good as
the objective every other job observed there, it is at least as good as every competitor. -/
theorem competitors_le {P : Params} (hv : RungValid P) {s : Sys} {j : Nat} {jr jr2 : JobRec} {q : ERat}
    (hinv : ∀ (i : Nat) (x : JobRec), s[i]? = some x → JInv P x)
    (hj : s[j]? = some jr)
    (hdec : jr.js.objs.length + 1 = decBudget P jr.js.rung)
    (hrung : jr2.js.rung = jr.js.rung)
    (hown : mget (.rung jr.js.rung) jr2.md = some (.obj (.num q)))
    (hbest : ∀ (j' : Nat) (jr' : JobRec), j' ≠ j → s[j']? = some jr' →
      ∀ q', jr'.js.objs[jr.js.objs.length]? = some (.num q') → q' ≤ q) :
    q ∈ competitors (s.set j jr2) jr2.js.rung ∧ ∀ q' ∈ competitors (s.set j jr2) jr2.js.rung, q' ≤ q := by
  have hlt : j < s.length := getElem?_lt hj
  rw [hrung]
  constructor
  · exact mem_competitors.2 ⟨j, jr2, List.getElem?_set_self hlt, hown⟩
  · intro q' hq'
    obtain ⟨i, x, hi, hx⟩ := mem_competitors.1 hq'
    by_cases hij : j = i
    · subst hij
      rw [List.getElem?_set_self hlt] at hi
      cases hi
      rw [hown] at hx
      cases hx
      exact le_refl _
    · rw [List.getElem?_set_ne hij] at hi
      obtain ⟨o, ho, hal⟩ := (hinv i x hi).2 _ _ hx
      cases ho
      rcases hal with h1 | ⟨⟨t, ht⟩, _⟩
      · rw [← hdec] at h1
        simp only [Nat.add_sub_cancel] at h1
        exact hbest i x (Ne.symm hij) hi q' h1
      · cases ht


/-! ### a step of a running job with a numeric objective, below `max_steps` -/

theorem jobStep_num {P : Params} (hv : RungValid P) (s : Sys) (j : Nat) (jr : JobRec) (q : ERat)
    (hlive : Live P jr) (hmax : jr.js.objs.length + 1 < P.maxSteps) :
    ∃ jr2, jr2.js.rung = jr.js.rung ∧ jr2.halted = jr.halted ∧
      (decTest P jr.js.rung (jr.js.objs.length + 1) = true →
        mget (.rung jr.js.rung) jr2.md = some (.obj (.num q))) ∧
      jobStep P s j jr (.num q) =
        (haltIf (decide' .fixed P (s.set j jr2) jr2 (jr.js.objs.length + 1) q).1
            (decide' .fixed P (s.set j jr2) jr2 (jr.js.objs.length + 1) q).2,
          (decide' .fixed P (s.set j jr2) jr2 (jr.js.objs.length + 1) q).2) := by
  have hlen : jr.js.budgets.length = jr.js.objs.length := by rw [hlive.budgets]; simp
  obtain ⟨jr1, hobs, O⟩ := observeRec_spec hv jr (jr.js.budgets.length + 1) (.num q)
  have ho1 : jr1.js.objs.getLast? = some (.num q) := by rw [O.objs]; simp
  have hb1 : jr1.js.budgets.getLast? = some (jr.js.budgets.length + 1) := by rw [O.budgets]; simp
  obtain ⟨jr2, hbase, B⟩ := baseStop_spec P jr1 (.num q) (jr.js.budgets.length + 1) ho1 hb1
  have hres : baseResult P (.num q) (jr.js.budgets.length + 1) = false := by
    simp only [baseResult, decide_eq_false_iff_not]; omega
  refine ⟨jr2, by rw [B.rung, O.rung], by rw [B.halted, O.halted], ?_, ?_⟩
  · intro ht
    rw [B.rungs]
    exact O.own (by rw [hlen]; exact ht) q rfl
  · have ho2 : jr2.js.objs.getLast? = some (.num q) := by rw [B.objs, ho1]
    have hb2 : jr2.js.budgets.getLast? = some (jr.js.budgets.length + 1) := by rw [B.budgets, hb1]
    rw [hlen] at hobs hbase hres hb2
    unfold jobStep
    rw [hlen, hobs]; simp only [hbase, hres, ho2, hb2]

/-- only the metadata of the jobs matters to the competitor lists -/
theorem competitors_set_congr (s : Sys) (j : Nat) (x y : JobRec) (h : x.md = y.md) (r : Nat) :
    competitors (s.set j x) r = competitors (s.set j y) r := by
  have : ∀ k, loadAll (s.set j x) k = loadAll (s.set j y) k := by
    intro k
    have e : ∀ l : Sys, loadAll l k = (l.map (·.md)).filterMap (mget k) := by
      intro l; simp [loadAll, List.filterMap_map, Function.comp_def]
    rw [e, e, List.map_set, List.map_set, h]
  simp [competitors, this]

/-! ### every kind: what `observe` appends, and when it can raise -/

theorem observeRec_lists (P : Params) (jr : JobRec) (b : Nat) (o : Obj) :
    (observeRec P jr b o).1.js.objs = jr.js.objs ++ [o] ∧
    (observeRec P jr b o).1.js.budgets = jr.js.budgets ++ [b] := by
  cases hk : P.kind with
  | idle => simp [observeRec, hk, baseObserve, transformObjective]
  | const st => simp [observeRec, hk, baseObserve, transformObjective]
  | sha ms rf mesr mc mfc eps =>
    simp only [observeRec, hk, baseObserve, transformObjective]
    by_cases ht : shaHB ms rf mesr jr.js.rung ≤ (b : Int) <;> cases o <;> simp [ht]
  | median ms mc iv eps =>
    simp only [observeRec, hk, baseObserve, transformObjective]
    split <;> simp

/-- `interval_steps ≠ 0` (the only way `record` can raise) -/
def IntervalOK (P : Params) : Prop :=
  match P.kind with
  | .median _ _ iv _ => iv ≠ 0
  | _ => True

theorem observeRec_noerr {P : Params} (h : IntervalOK P) (jr : JobRec) (b : Nat) (o : Obj) :
    (observeRec P jr b o).2 = none := by
  cases hk : P.kind with
  | idle => simp [observeRec, hk]
  | const st => simp [observeRec, hk]
  | sha ms rf mesr mc mfc eps =>
    simp only [observeRec, hk]
    cases o <;> simp
  | median ms mc iv eps =>
    simp only [IntervalOK, hk] at h
    simp only [observeRec, hk, medianIsHalting, h, if_false]
    by_cases hb : b < ms
    · simp [hb]
    · simp only [hb, if_false]
      cases ((b - ms) % iv == 0) <;> simp

end DH.Stopper
