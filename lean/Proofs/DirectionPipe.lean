import Proofs.DirectionScalar
import Mathlib.Tactic.NormNum

/-! Helper lemmas for C05, part 3: scalers, utopia point, rays (affinely aligned objectives),
row-monotone scalers, the choice of the next candidate. -/

namespace DH.Direction

open List (Forall₂)

/-! ### `MinMaxScaler` is a positive affine map per column -/

/-- `X * scale_ + min_` for one row -/
def affRow (sc off : Vec) (r : Vec) : Vec :=
  List.zipWith (· + ·) (List.zipWith (· * ·) r sc) off

theorem tinyRange_pos : 0 < tinyRange := by unfold tinyRange; norm_num

theorem mmScale_pos (mn mx : Rat) : 0 < mmScale mn mx := by
  unfold mmScale
  simp only
  split
  · norm_num
  · rename_i h
    have : tinyRange ≤ mx - mn := not_lt.mp h
    have hpos : 0 < mx - mn := lt_of_lt_of_le tinyRange_pos this
    exact one_div_pos.mpr hpos

theorem scaleMinMax_affine {rows scaled : List Vec} (h : scaleMinMax rows = some scaled) :
    ∃ sc off : Vec, (∀ x ∈ sc, 0 < x) ∧ scaled = rows.map (affRow sc off) := by
  unfold scaleMinMax at h
  split at h
  · rename_i mn mx _ _
    simp only [Option.some.injEq] at h
    refine ⟨List.zipWith mmScale mn mx, _, ?_, h.symm⟩
    intro x hx
    rcases List.mem_iff_getElem.1 hx with ⟨i, hi, rfl⟩
    simp only [List.getElem_zipWith]
    exact mmScale_pos _ _
  · simp at h

/-! ### rays: rows of the form `a + t·d` with a common positive direction `d` -/

/-- `ad` lists, per column, the pair `(a_c, d_c)`; the row at parameter `t` is `a + t·d` -/
def ray (ad : List (Rat × Rat)) (t : Rat) : Vec := ad.map (fun p => p.1 + t * p.2)

/-- the direction of a ray -/
def dirOf (ad : List (Rat × Rat)) : Vec := ad.map (·.2)

theorem ray_length (ad : List (Rat × Rat)) (t : Rat) : (ray ad t).length = ad.length := by simp [ray]

theorem rmin_ray_pt {d : Rat} (hd : 0 ≤ d) (a t t' : Rat) :
    rmin (a + t * d) (a + t' * d) = a + rmin t t' * d := by
  unfold rmin
  by_cases h : t' ≤ t
  · have : a + t' * d ≤ a + t * d := by nlinarith
    simp [h, this]
  · have hlt : t < t' := not_le.mp h
    by_cases hd0 : d = 0
    · subst hd0; simp
    · have hdpos : 0 < d := lt_of_le_of_ne hd (Ne.symm hd0)
      have : ¬ a + t' * d ≤ a + t * d := by intro h'; nlinarith
      simp [h, this]

theorem zipWith_rmin_ray (ad : List (Rat × Rat)) (hd : ∀ p ∈ ad, 0 ≤ p.2) (t t' : Rat) :
    List.zipWith rmin (ray ad t) (ray ad t') = ray ad (rmin t t') := by
  induction ad with
  | nil => simp [ray]
  | cons p ps ih =>
    have := ih (fun q hq => hd q (by simp [hq]))
    simp only [ray, List.map_cons, List.zipWith_cons_cons] at this ⊢
    rw [this, rmin_ray_pt (hd p (by simp))]

theorem foldl_rmin_rays (ad : List (Rat × Rat)) (hd : ∀ p ∈ ad, 0 ≤ p.2) (ts : Vec) (t0 : Rat) :
    (ts.map (ray ad)).foldl (List.zipWith rmin) (ray ad t0) = ray ad (ts.foldl rmin t0) := by
  induction ts generalizing t0 with
  | nil => rfl
  | cons t ts ih =>
    simp only [List.map_cons, List.foldl_cons, zipWith_rmin_ray ad hd]
    exact ih _

/-- utopia point of a history of rays: the ray at the smallest parameter -/
theorem colMin_rays (ad : List (Rat × Rat)) (hd : ∀ p ∈ ad, 0 ≤ p.2) (t0 : Rat) (ts : Vec) :
    colMin ((t0 :: ts).map (ray ad)) = some (ray ad (ts.foldl rmin t0)) := by
  simp only [List.map_cons, colMin, foldl_rmin_rays ad hd]

theorem foldl_rmin_le_init (l : Vec) (a : Rat) : l.foldl rmin a ≤ a := by
  induction l generalizing a with
  | nil => simp
  | cons x xs ih => exact le_trans (ih (rmin a x)) (rmin_le_left a x)

theorem foldl_rmin_le_mem (l : Vec) (a x : Rat) (hx : x ∈ l) : l.foldl rmin a ≤ x := by
  induction l generalizing a with
  | nil => simp at hx
  | cons y ys ih =>
    rcases List.mem_cons.1 hx with rfl | h
    · exact le_trans (foldl_rmin_le_init ys _) (rmin_le_right a x)
    · exact ih _ h

theorem vsub_ray (ad : List (Rat × Rat)) (t t' : Rat) :
    vsub (ray ad t) (ray ad t') = smul (t - t') (dirOf ad) := by
  induction ad with
  | nil => simp [vsub, ray, smul, dirOf]
  | cons p ps ih =>
    simp only [vsub, ray, smul, dirOf, List.map_cons, List.zipWith_cons_cons] at ih ⊢
    rw [ih]; congr 1; ring

/-- a positive affine map per column sends rays to rays -/
def affRay (sc off : Vec) (ad : List (Rat × Rat)) : List (Rat × Rat) :=
  List.zipWith (fun p so => (p.1 * so.1 + so.2, p.2 * so.1)) ad (List.zip sc off)

theorem affRow_ray (sc off : Vec) (ad : List (Rat × Rat)) (t : Rat) :
    affRow sc off (ray ad t) = ray (affRay sc off ad) t := by
  induction ad generalizing sc off with
  | nil => simp [affRow, ray, affRay]
  | cons p ps ih =>
    cases sc with
    | nil => simp [affRow, ray, affRay]
    | cons s ss =>
      cases off with
      | nil => simp [affRow, ray, affRay]
      | cons o os =>
        have := ih ss os
        simp only [affRow, ray, affRay, List.map_cons, List.zipWith_cons_cons, List.zip_cons_cons] at this ⊢
        rw [this]; congr 1; ring

theorem affRay_dir_pos (sc off : Vec) (ad : List (Rat × Rat)) (hsc : ∀ x ∈ sc, 0 < x)
    (hd : ∀ p ∈ ad, 0 < p.2) : ∀ p ∈ affRay sc off ad, 0 < p.2 := by
  intro p hp
  rcases List.mem_iff_getElem.1 hp with ⟨i, hi, rfl⟩
  simp only [affRay, List.getElem_zipWith, List.getElem_zip]
  exact mul_pos (hd _ (by simp)) (hsc _ (by simp))

/-! ### the targets along a ray are strictly increasing in the parameter -/

/-- the body of `mooTargets` after the scaler: utopia point, then scalarise every row -/
def targetsOf (s : Strategy) (w : Vec) (scaled : List Vec) : Option Vec :=
  match colMin scaled with
  | none => none
  | some u => mapOpt (scalarize s w u) scaled

theorem mooTargets_eq (sc : Scaler) (s : Strategy) (w : Vec) (told : List Vec) :
    mooTargets sc s w told = (applyScaler sc told).bind (targetsOf s w) := by
  unfold mooTargets targetsOf
  cases applyScaler sc told <;> rfl

theorem targets_rays_strictMono (s : Strategy) (w : Vec) (ad : List (Rat × Rat))
    (hd : ∀ p ∈ ad, 0 < p.2) (hw : ∀ x ∈ w, 0 ≤ x) (hw0 : ∃ x ∈ w, 0 < x)
    (ts T : Vec) (hT : targetsOf s w (ts.map (ray ad)) = some T)
    (i j : Nat) (ti tj a b : Rat) (hi : ts[i]? = some ti) (hj : ts[j]? = some tj)
    (ha : T[i]? = some a) (hb : T[j]? = some b) (hlt : ti < tj) : a < b := by
  cases ts with
  | nil => simp at hi
  | cons t0 ts' =>
    have hd' : ∀ p ∈ ad, 0 ≤ p.2 := fun p hp => le_of_lt (hd p hp)
    unfold targetsOf at hT
    rw [colMin_rays ad hd'] at hT
    simp only at hT
    set tmin := ts'.foldl rmin t0 with htmin
    -- the two rows
    obtain ⟨a', ha1, ha2⟩ := mapOpt_getElem? hT i (ray ad ti) (by
      rw [List.getElem?_map, hi]; rfl)
    obtain ⟨b', hb1, hb2⟩ := mapOpt_getElem? hT j (ray ad tj) (by
      rw [List.getElem?_map, hj]; rfl)
    rw [ha] at ha2; rw [hb] at hb2
    simp only [Option.some.injEq] at ha2 hb2; subst ha2 hb2
    have hmin_i : tmin ≤ ti := by
      have hmem := List.mem_of_getElem? hi
      rcases List.mem_cons.1 hmem with rfl | h
      · exact foldl_rmin_le_init _ _
      · exact foldl_rmin_le_mem _ _ _ h
    unfold scalarize at ha1 hb1
    split at ha1
    · simp at ha1
    · rename_i hlen
      split at hb1
      · simp at hb1
      · rw [vsub_ray] at ha1 hb1
        have hl : w.length = (dirOf ad).length := by
          have := not_or.mp hlen
          have h1 : w.length = (ray ad ti).length := not_not.mp this.1
          rw [h1, ray_length]; simp [dirOf]
        have hdd : ∀ x ∈ dirOf ad, 0 < x := by
          intro x hx
          rcases List.mem_map.1 hx with ⟨p, hp, rfl⟩
          exact hd p hp
        exact core_ray_strictMono s hl hw hw0 hdd (by linarith) (by linarith) ha1 hb1

/-! ### utopia point below every row; row-monotone scalers -/

theorem zipWith_rmin_le_left : ∀ (a b : Vec), a.length = b.length → Forall₂ (· ≤ ·) (List.zipWith rmin a b) a
  | [], [], _ => Forall₂.nil
  | [], _ :: _, h => by simp at h
  | _ :: _, [], h => by simp at h
  | x :: xs, y :: ys, h => by
    simp only [List.zipWith_cons_cons]
    exact Forall₂.cons (rmin_le_left x y) (zipWith_rmin_le_left xs ys (by simpa using h))

theorem zipWith_rmin_le_right : ∀ (a b : Vec), a.length = b.length → Forall₂ (· ≤ ·) (List.zipWith rmin a b) b
  | [], [], _ => Forall₂.nil
  | [], _ :: _, h => by simp at h
  | _ :: _, [], h => by simp at h
  | x :: xs, y :: ys, h => by
    simp only [List.zipWith_cons_cons]
    exact Forall₂.cons (rmin_le_right x y) (zipWith_rmin_le_right xs ys (by simpa using h))

theorem forall₂_le_refl : ∀ (a : Vec), Forall₂ (· ≤ ·) a a
  | [] => Forall₂.nil
  | x :: xs => Forall₂.cons (le_refl x) (forall₂_le_refl xs)

theorem forall₂_le_trans {a b c : Vec} (h1 : Forall₂ (· ≤ ·) a b) (h2 : Forall₂ (· ≤ ·) b c) :
    Forall₂ (· ≤ ·) a c := by
  induction h1 generalizing c with
  | nil => cases h2; exact Forall₂.nil
  | cons hab _ ih =>
    cases h2 with
    | cons hbc htl => exact Forall₂.cons (le_trans hab hbc) (ih htl)

theorem foldl_zipWith_rmin_le (rs : List Vec) (acc : Vec) (n : Nat) (hacc : acc.length = n)
    (hrs : ∀ r ∈ rs, r.length = n) :
    (rs.foldl (List.zipWith rmin) acc).length = n ∧
    Forall₂ (· ≤ ·) (rs.foldl (List.zipWith rmin) acc) acc ∧
    ∀ r ∈ rs, Forall₂ (· ≤ ·) (rs.foldl (List.zipWith rmin) acc) r := by
  induction rs generalizing acc with
  | nil => exact ⟨hacc, forall₂_le_refl _, by simp⟩
  | cons r rs ih =>
    have hr : r.length = n := hrs r (by simp)
    have hlen : (List.zipWith rmin acc r).length = n := by simp [hacc, hr]
    obtain ⟨h1, h2, h3⟩ := ih (List.zipWith rmin acc r) hlen (fun x hx => hrs x (by simp [hx]))
    simp only [List.foldl_cons]
    refine ⟨h1, forall₂_le_trans h2 (zipWith_rmin_le_left acc r (by rw [hacc, hr])), ?_⟩
    intro x hx
    rcases List.mem_cons.1 hx with rfl | hx
    · exact forall₂_le_trans h2 (zipWith_rmin_le_right acc x (by rw [hacc, hr]))
    · exact h3 x hx

/-- the utopia point is componentwise below every row of the history -/
theorem colMin_le {rows : List Vec} {u : Vec} (h : colMin rows = some u) (n : Nat)
    (hn : ∀ r ∈ rows, r.length = n) : u.length = n ∧ ∀ r ∈ rows, Forall₂ (· ≤ ·) u r := by
  cases rows with
  | nil => simp [colMin] at h
  | cons r rs =>
    simp only [colMin, Option.some.injEq] at h; subst h
    obtain ⟨h1, h2, h3⟩ := foldl_zipWith_rmin_le rs r n (hn r (by simp)) (fun x hx => hn x (by simp [hx]))
    refine ⟨h1, ?_⟩
    intro x hx
    rcases List.mem_cons.1 hx with rfl | hx
    · exact h2
    · exact h3 x hx

/-- a scaler is row-monotone on a history when componentwise `≤` between two told rows is
carried over to their scaled rows (implied by: every column is mapped by a monotone function) -/
def RowMono (raw scaled : List Vec) : Prop :=
  ∀ (i j : Nat) (ri rj si sj : Vec), raw[i]? = some ri → raw[j]? = some rj → scaled[i]? = some si →
    scaled[j]? = some sj → Forall₂ (· ≤ ·) ri rj → Forall₂ (· ≤ ·) si sj

theorem affRow_mono {sc : Vec} (hsc : ∀ x ∈ sc, 0 < x) (off : Vec) {r r' : Vec}
    (h : Forall₂ (· ≤ ·) r r') : Forall₂ (· ≤ ·) (affRow sc off r) (affRow sc off r') := by
  induction h generalizing sc off with
  | nil => simp [affRow]
  | cons hab _ ih =>
    cases sc with
    | nil => simp [affRow]
    | cons s ss =>
      cases off with
      | nil => simp [affRow]
      | cons o os =>
        simp only [affRow, List.zipWith_cons_cons]
        have hs : 0 < s := hsc s (by simp)
        refine Forall₂.cons (by nlinarith) ?_
        exact ih (fun x hx => hsc x (by simp [hx])) os

theorem rowMono_identity (told : List Vec) : RowMono told told := by
  intro i j ri rj si sj h1 h2 h3 h4 h
  rw [h1] at h3; rw [h2] at h4
  simp only [Option.some.injEq] at h3 h4; subst h3 h4; exact h

theorem rowMono_minmax {told scaled : List Vec} (h : scaleMinMax told = some scaled) :
    RowMono told scaled := by
  obtain ⟨sc, off, hsc, rfl⟩ := scaleMinMax_affine h
  intro i j ri rj si sj h1 h2 h3 h4 hle
  rw [List.getElem?_map, h1] at h3
  rw [List.getElem?_map, h2] at h4
  simp only [Option.map_some, Option.some.injEq] at h3 h4; subst h3 h4
  exact affRow_mono hsc off hle

/-- Pareto-monotonicity of the fitted targets for the three monotone strategies -/
theorem targets_mono (s : Strategy) (hs : s.monotone = true) (w : Vec) (hw : ∀ x ∈ w, 0 ≤ x)
    (scaled : List Vec) (T : Vec) (hT : targetsOf s w scaled = some T)
    (i j : Nat) (si sj : Vec) (a b : Rat) (hi : scaled[i]? = some si) (hj : scaled[j]? = some sj)
    (ha : T[i]? = some a) (hb : T[j]? = some b) (hle : Forall₂ (· ≤ ·) si sj) : a ≤ b := by
  unfold targetsOf at hT
  cases hu : colMin scaled with
  | none => simp [hu] at hT
  | some u =>
    simp only [hu] at hT
    -- every scaled row has the length of `w`
    have hlen : ∀ r ∈ scaled, r.length = w.length := by
      intro r hr
      rcases List.mem_iff_getElem?.1 hr with ⟨k, hk⟩
      obtain ⟨y, hy, _⟩ := mapOpt_getElem? hT k r hk
      unfold scalarize at hy
      split at hy
      · simp at hy
      · rename_i h; exact (not_not.mp (not_or.mp h).1).symm
    obtain ⟨_, hule⟩ := colMin_le hu w.length hlen
    obtain ⟨a', ha1, ha2⟩ := mapOpt_getElem? hT i si hi
    obtain ⟨b', hb1, hb2⟩ := mapOpt_getElem? hT j sj hj
    rw [ha] at ha2; rw [hb] at hb2
    simp only [Option.some.injEq] at ha2 hb2; subst ha2 hb2
    exact scalarize_mono s hs hw (hule si (List.mem_of_getElem? hi)) hle ha1 hb1

/-! ### from "targets are anti-monotone in the score" to "the chosen candidate is best" -/

theorem interpolate_getElem? {T : Vec} {cands : List Nat} {acq : Vec}
    (h : interpolate T cands = some acq) (k : Nat) (v : Rat) (hv : acq[k]? = some v) :
    ∃ c, cands[k]? = some c ∧ T[c]? = some v :=
  mapOpt_getElem?_inv h k v hv

/-- If the fitted targets are strictly decreasing in a score, the surrogate returns the fitted
target on every (observed) candidate and the acquisition is the surrogate mean, then the
arg-min of the acquisition is a candidate of maximal score. -/
theorem chosen_max_of_anti (score T : Vec) (cands : List Nat) (acq : Vec)
    (hanti : ∀ (i j : Nat) (a b ta tb : Rat), score[i]? = some a → score[j]? = some b → T[i]? = some ta →
      T[j]? = some tb → a < b → tb < ta)
    (hlen : score.length = T.length)
    (hint : interpolate T cands = some acq) (k : Nat) (hk : chooseNext acq = some k) :
    ∃ c sc, cands[k]? = some c ∧ score[c]? = some sc ∧
      ∀ c' ∈ cands, ∀ s', score[c']? = some s' → s' ≤ sc := by
  obtain ⟨m, hm, hmin⟩ := chooseNext_spec hk
  obtain ⟨c, hc, hTc⟩ := interpolate_getElem? hint k m hm
  have hclt : c < score.length := by
    rw [hlen]
    rcases Nat.lt_or_ge c T.length with h | h
    · exact h
    · rw [List.getElem?_eq_none h] at hTc; simp at hTc
  refine ⟨c, score[c], hc, by simp [hclt], ?_⟩
  intro c' hc' s' hs'
  by_contra hcon
  have hlt : score[c] < s' := not_le.mp hcon
  rcases List.mem_iff_getElem?.1 hc' with ⟨k', hk'⟩
  obtain ⟨v', hf, hv'⟩ := mapOpt_getElem? hint k' c' hk'
  have := hanti c c' score[c] s' m v' (by simp [hclt]) hs' hTc hf hlt
  have hmin' := hmin v' (List.mem_of_getElem? hv')
  linarith

theorem interpolate_map (f : Rat → Rat) (T : Vec) (cands : List Nat) :
    interpolate (T.map f) cands = (interpolate T cands).map (List.map f) := by
  unfold interpolate
  rw [← mapOpt_map_out]
  apply mapOpt_congr
  intro i _
  simp [List.getElem?_map]

end DH.Direction
