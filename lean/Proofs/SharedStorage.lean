import Proofs.Timeout
import Proofs.StatusCheck
import Model.SharedStorage

/-! Several evaluators on one storage: the per-job invariant over every history of every evaluator's
operations, `gather_other_jobs_done` is read-only on reachable storages, terminal records are final,
the shared checker decides its specification.  Core Lean only. -/

namespace DH.Timeout

/-! ### `gather_other_jobs_done` -/

theorem upd_eq_self {f : Job → Job} : ∀ (i : Nat) (l : List Job),
    (∀ j, l[i]? = some j → f j = j) → upd f i l = l
  | _, [], _ => by simp [upd]
  | 0, j :: js, h => by
    have := h j (by simp)
    simp [upd, this]
  | i + 1, j :: js, h => by
    have := upd_eq_self (f := f) i js (fun x hx => h x (by simpa using hx))
    simp [upd, this]

theorem upd_length {f : Job → Job} : ∀ (i : Nat) (l : List Job), (upd f i l).length = l.length
  | _, [] => by simp [upd]
  | 0, j :: js => by simp [upd]
  | i + 1, j :: js => by simp [upd, upd_length i js]

/-- a job whose output has been stored by its owner is DONE or CANCELLED: the RUNNING → DONE promotion of
`gather_other_jobs_done` does not apply to it -/
theorem jOther_eq_of_inv {hpo : Bool} {j : Job} (hi : Inv j) (hc : collectable hpo j = true) :
    jOther j = j := by
  unfold collectable at hc
  simp only [Bool.and_eq_true, Bool.or_eq_true, decide_eq_true_eq] at hc
  obtain ⟨h1, _⟩ := hi
  unfold JInv at h1
  unfold jOther
  rcases hc.2 with hp | hp
  · simp only [hp] at h1
    rcases h1 with ⟨_, b, _⟩ | ⟨_, b, _⟩ <;> simp [b]
  · simp only [hp] at h1
    simp [h1.2]

theorem mem_otherIds (s : Ev) (i : Nat) :
    i ∈ otherIds s ↔ i ∉ s.running ∧ i ∉ s.results ∧ ∃ j, s.jobs[i]? = some j ∧ collectable s.hpo j = true := by
  unfold otherIds
  simp only [List.mem_filter, List.mem_range, Bool.and_eq_true, Bool.not_eq_true', List.contains_eq_mem,
    decide_eq_false_iff_not]
  constructor
  · rintro ⟨_, ⟨h1, h2⟩, h3⟩
    refine ⟨h1, h2, ?_⟩
    cases hj : s.jobs[i]? with
    | none => rw [hj] at h3; simp at h3
    | some j => rw [hj] at h3; exact ⟨j, rfl, h3⟩
  · rintro ⟨h1, h2, j, hj, hc⟩
    refine ⟨?_, ⟨h1, h2⟩, ?_⟩
    · exact (List.getElem?_eq_some_iff.mp hj).1
    · rw [hj]; exact hc

/-- what a successful `gather_other_jobs_done` did -/
theorem gatherOther_spec {s s' : Ev} {orep : List Nat} (h : gatherOther s orep = some s') :
    orep.Nodup ∧ (∀ i, i ∈ orep ↔ i ∈ otherIds s) ∧
    s' = { s with jobs := orep.foldl (fun js i => upd jOther i js) s.jobs, results := s.results ++ orep } := by
  unfold gatherOther at h
  split at h
  · next hc =>
    simp only [Bool.and_eq_true, decide_eq_true_eq, List.all_eq_true, List.contains_eq_mem] at hc
    obtain ⟨⟨h1, h2⟩, h3⟩ := hc
    refine ⟨h1, fun i => ⟨fun hi => by simpa using h2 i hi, fun hi => by simpa using h3 i hi⟩, ?_⟩
    simpa using h.symm
  · simp at h

theorem foldl_upd_eq_self {f : Job → Job} : ∀ (is : List Nat) (l : List Job),
    (∀ i ∈ is, ∀ j, l[i]? = some j → f j = j) → is.foldl (fun js i => upd f i js) l = l
  | [], _, _ => rfl
  | i :: rest, l, h => by
    simp only [List.foldl_cons]
    rw [upd_eq_self i l (h i (by simp))]
    exact foldl_upd_eq_self rest l (fun k hk => h k (by simp [hk]))

/-- on a storage whose jobs satisfy the invariant, `gather_other_jobs_done` writes no status at all: it only
extends the collecting evaluator's `jobs_done` -/
theorem gatherOther_jobs {s s' : Ev} {orep : List Nat} (hi : AllInv s.jobs)
    (h : gatherOther s orep = some s') : s'.jobs = s.jobs ∧ s'.results = s.results ++ orep ∧
      s'.running = s.running ∧ s'.now = s.now := by
  obtain ⟨_, hm, he⟩ := gatherOther_spec h
  subst he
  refine ⟨?_, rfl, rfl, rfl⟩
  apply foldl_upd_eq_self
  intro i hio j hj
  obtain ⟨_, _, j', hj', hc⟩ := (mem_otherIds s i).mp ((hm i).mp hio)
  rw [hj] at hj'
  cases hj'
  exact jOther_eq_of_inv (hi j (List.mem_of_getElem? hj)) hc

theorem allInv_gatherOther {s s' : Ev} {orep : List Nat} (hi : AllInv s.jobs)
    (h : gatherOther s orep = some s') : AllInv s'.jobs := by
  rw [(gatherOther_jobs hi h).1]; exact hi

theorem allInv_gatherO (s : Ev) (all : Bool) (size : Nat) (rep orep : List Nat) (h : AllInv s.jobs) :
    AllInv (gatherO s all size rep orep).1.jobs := by
  unfold gatherO
  dsimp only
  have hg := allInv_gather s all size rep h
  generalize gather s all size rep = g at hg ⊢
  split
  · exact hg
  · split
    · next s' hs => exact allInv_gatherOther hg hs
    · exact hg

theorem allInv_loopO (strict : Bool) (target : Int) :
    ∀ (reps : List (List Nat × List Nat)) (s : Ev) (nAsk : Nat), AllInv s.jobs →
      AllInv (loopO strict target s nAsk reps).1.jobs := by
  intro reps
  induction reps with
  | nil =>
    intro s nAsk h
    unfold loopO
    dsimp only
    split
    · have := allInv_submitCap nAsk (askStep s) h
      split
      · exact this
      · exact this
    · exact h
  | cons rep rest ih =>
    intro s nAsk h
    unfold loopO
    dsimp only
    split
    · have hsub := allInv_submitCap nAsk (askStep s) h
      generalize submitCap (askStep s) nAsk = sub at hsub ⊢
      split
      · exact hsub
      · have hg := allInv_gatherO sub.1 false 1 rep.1 rep.2 hsub
        generalize gatherO sub.1 false 1 rep.1 rep.2 = ga at hg ⊢
        split
        · exact hg
        · exact hg
        · exact hg
        · split
          · exact hg
          · exact ih _ _ hg
    · exact h

theorem allInv_searchO (s : Ev) (c : Call) (reps : List (List Nat × List Nat)) (drainRep : List Nat × List Nat)
    (h : AllInv s.jobs) : AllInv (searchO s c reps drainRep).1.jobs := by
  unfold searchO
  dsimp only
  have h2 : AllInv (setTimeout (if c.strict = true then
      { s with maxSub := c.maxEvals, offset := (s.results.length : Int) } else { s with maxSub := -1 })
      c.timeout).jobs := by
    unfold setTimeout; split <;> exact h
  generalize setTimeout (if c.strict = true then
      { s with maxSub := c.maxEvals, offset := (s.results.length : Int) } else { s with maxSub := -1 })
      c.timeout = s2 at h2 ⊢
  have hl := allInv_loopO c.strict (if c.maxEvals < 0 then c.maxEvals else c.maxEvals + numEvals c.strict s2)
    reps s2 s2.W h2
  generalize loopO c.strict (if c.maxEvals < 0 then c.maxEvals else c.maxEvals + numEvals c.strict s2)
    s2 s2.W reps = lp at hl ⊢
  split
  · exact hl
  · exact hl
  · exact hl
  · exact hl
  · split
    · have hg := allInv_gatherO lp.1 true 0 drainRep.1 drainRep.2 hl
      generalize gatherO lp.1 true 0 drainRep.1 drainRep.2 = ga at hg ⊢
      split
      · exact hg
      · exact hg
      · exact hg
      · split
        · exact hg
        · exact allInv_close _ _ hg
    · exact allInv_close _ _ hl

theorem allInv_act (s : Ev) (a : Act) (h : AllInv s.jobs) : AllInv (act s a).jobs := by
  cases a with
  | op o => exact allInv_step s o h
  | other orep =>
    show AllInv ((gatherOther s orep).getD s).jobs
    cases hg : gatherOther s orep with
    | none => exact h
    | some s' => exact allInv_gatherOther h hg
  | gatherO all size rep orep => exact allInv_gatherO s all size rep orep h
  | searchO c reps d => exact allInv_searchO s c reps d h

theorem allInv_wstep (w : World) (ka : Nat × Act) (h : AllInv w.jobs) : AllInv (wstep w ka).jobs := by
  unfold wstep
  split
  · next l _ => exact allInv_act (view w l) ka.2 h
  · exact h

theorem allInv_wrun : ∀ (hist : List (Nat × Act)) (w : World), AllInv w.jobs → AllInv (wrun w hist).jobs
  | [], w, h => by simpa [wrun] using h
  | ka :: rest, w, h => by
    simp only [wrun]
    exact allInv_wrun rest _ (allInv_wstep w ka h)

theorem allInv_winit (Ws : List Nat) (hpo : Bool) (specs : List Spec) : AllInv (winit Ws hpo specs).jobs := by
  intro j hj; simp [winit] at hj

/-! ### reported records are final: no operation of any evaluator touches a job that has been reported -/

/-- the job has been reported (gathered / recorded by `close()`) or aborted -/
def Final (j : Job) : Prop := j.pc = .gathered ∨ j.pc = .closedOut ∨ j.pc = .aborted

theorem fin_jQueue (g : Nat) {j : Job} (h : Final j) : jQueue g j = j := by
  unfold jQueue; rcases h with h | h | h <;> simp [h]

theorem fin_jAcquire (g now : Nat) (dl : Option Nat) {j : Job} (h : Final j) : jAcquire g now dl j = j := by
  unfold jAcquire; rcases h with h | h | h <;> simp [h]

theorem fin_jFire {j : Job} (h : Final j) : jFire j = j := by
  unfold jFire; rcases h with h | h | h <;> simp [h]

theorem fin_jReturn {j : Job} (h : Final j) : jReturn j = j := by
  unfold jReturn
  simp only [fin_jFire h]
  rcases h with h | h | h <;> simp [h]

theorem fin_jOnDone {j : Job} (h : Final j) : jOnDone j = j := by
  unfold jOnDone; rcases h with h | h | h <;> simp [h]

theorem fin_jClose (hpo : Bool) {j : Job} (h : Final j) : jClose hpo j = j := by
  unfold jClose; rcases h with h | h | h <;> simp [h]

theorem fin_fireDue (now : Nat) {j : Job} (h : Final j) : fireDue now j = j := by
  unfold fireDue
  split
  · split
    · exact fin_jFire h
    · rfl
  · rfl

/-- every reported record of `l` is still there, unchanged, in `l'` -/
def Keeps (l l' : List Job) : Prop := ∀ (i : Nat) (j : Job), l[i]? = some j → Final j → l'[i]? = some j

theorem Keeps.refl (l : List Job) : Keeps l l := fun _ _ h _ => h

theorem Keeps.trans {a b c : List Job} (h1 : Keeps a b) (h2 : Keeps b c) : Keeps a c :=
  fun i j hj hf => h2 i j (h1 i j hj hf) hf

theorem upd_getElem? (f : Job → Job) : ∀ (i : Nat) (l : List Job) (k : Nat),
    (upd f i l)[k]? = if k = i then (l[k]?).map f else l[k]?
  | _, [], k => by simp [upd]
  | 0, j :: js, k => by cases k <;> simp [upd]
  | i + 1, j :: js, k => by
    cases k with
    | zero => simp [upd]
    | succ k => simp [upd, upd_getElem? f i js k]

theorem keeps_upd {f : Job → Job} (hf : ∀ j, Final j → f j = j) (i : Nat) (l : List Job) :
    Keeps l (upd f i l) := by
  intro k j hj hfin
  rw [upd_getElem?]
  split
  · simp [hj, hf j hfin]
  · exact hj

theorem keeps_map {f : Job → Job} (hf : ∀ j, Final j → f j = j) (l : List Job) : Keeps l (l.map f) := by
  intro k j hj hfin
  simp [List.getElem?_map, hj, hf j hfin]

theorem keeps_append (l x : List Job) : Keeps l (l ++ x) := by
  intro k j hj _
  have hlt : k < l.length := (List.getElem?_eq_some_iff.mp hj).1
  rw [List.getElem?_append_left hlt]; exact hj

theorem keeps_cons {f : Job → Job} (hf : ∀ j, Final j → f j = j) {j0 : Job} {js js' : List Job}
    (h : Keeps js js') : Keeps (j0 :: js) (f j0 :: js') := by
  intro i x hx hfin
  cases i with
  | zero =>
    simp only [List.getElem?_cons_zero, Option.some.injEq] at hx ⊢
    subst hx; exact hf _ hfin
  | succ i =>
    simp only [List.getElem?_cons_succ] at hx ⊢
    exact h i x hx hfin

theorem startCreated_shape (W g now : Nat) (dl : Option Nat) :
    ∀ (js acc : List Job), ∃ js', startCreated W g now dl acc js = acc ++ js' ∧ Keeps js js'
  | [], acc => ⟨[], by simp [startCreated], Keeps.refl _⟩
  | j :: js, acc => by
    simp only [startCreated]
    split
    · split
      · obtain ⟨js', h1, h2⟩ := startCreated_shape W g now dl js (acc ++ [jAcquire g now dl j])
        exact ⟨jAcquire g now dl j :: js', by rw [h1]; simp,
          keeps_cons (f := jAcquire g now dl) (fun _ hx => fin_jAcquire g now dl hx) h2⟩
      · obtain ⟨js', h1, h2⟩ := startCreated_shape W g now dl js (acc ++ [jQueue g j])
        exact ⟨jQueue g j :: js', by rw [h1]; simp,
          keeps_cons (f := jQueue g) (fun _ hx => fin_jQueue g hx) h2⟩
    · obtain ⟨js', h1, h2⟩ := startCreated_shape W g now dl js (acc ++ [j])
      exact ⟨j :: js', by rw [h1]; simp, keeps_cons (f := id) (fun _ _ => rfl) h2⟩

theorem keeps_startCreated (W g now : Nat) (dl : Option Nat) (l : List Job) :
    Keeps l (startCreated W g now dl [] l) := by
  obtain ⟨js', h1, h2⟩ := startCreated_shape W g now dl l []
  rw [h1]; simpa using h2

theorem keeps_stepReturn {s s' : Ev} (hs : stepReturn s = some s') : Keeps s.jobs s'.jobs := by
  unfold stepReturn at hs
  split at hs
  · simp at hs
  · next i r _ =>
    simp only [Option.some.injEq] at hs
    subst hs
    simp only
    have h1 := keeps_upd (f := jReturn) (fun _ hx => fin_jReturn hx) i s.jobs
    split
    · exact h1.trans (keeps_upd (fun _ hx => fin_jAcquire _ _ _ hx) _ _)
    · exact h1

theorem keeps_advance (need : Nat) : ∀ (fuel : Nat) (s : Ev), Keeps s.jobs (advance need fuel s).1.jobs
  | 0, s => by simpa [advance] using Keeps.refl _
  | fuel + 1, s => by
    simp only [advance]
    split
    · exact Keeps.refl _
    · split
      · exact Keeps.refl _
      · next s' hs => exact (keeps_stepReturn hs).trans (keeps_advance need fuel s')

theorem keeps_flush : ∀ (fuel : Nat) (s : Ev), Keeps s.jobs (flush fuel s).jobs
  | 0, s => by simpa [flush] using Keeps.refl _
  | fuel + 1, s => by
    simp only [flush]
    split
    · exact Keeps.refl _
    · split
      · split
        · next s' hs => exact (keeps_stepReturn hs).trans (keeps_flush fuel s')
        · exact Keeps.refl _
      · exact Keeps.refl _

theorem keeps_report : ∀ (rep : List Nat) (s s' : Ev), report s rep = some s' → Keeps s.jobs s'.jobs
  | [], s, s', hr => by simp [report] at hr; subst hr; exact Keeps.refl _
  | i :: rest, s, s', hr => by
    simp only [report] at hr
    split at hr
    · exact (keeps_upd (f := jOnDone) (fun _ hx => fin_jOnDone hx) i s.jobs).trans (keeps_report rest _ s' hr)
    · simp at hr

theorem keeps_waitFor (s : Ev) (need : Nat) : Keeps s.jobs (waitFor s need).1.jobs := by
  unfold waitFor
  simp only
  have h1 : Keeps s.jobs (startCreated s.W s.semGen s.now s.deadline [] s.jobs) := keeps_startCreated _ _ _ _ _
  generalize (startCreated s.W s.semGen s.now s.deadline [] s.jobs).length = fuel
  generalize hs1 : ({ s with jobs := startCreated s.W s.semGen s.now s.deadline [] s.jobs } : Ev) = s1
  have h1' : Keeps s.jobs s1.jobs := by rw [← hs1]; exact h1
  have h2 := h1'.trans (keeps_advance need fuel s1)
  generalize advance need fuel s1 = adv at h2 ⊢
  split
  · exact h2
  · exact (h2.trans (keeps_flush _ _)).trans (keeps_map (fun _ hx => fin_fireDue _ hx) _)

theorem keeps_gatherN (s : Ev) (size : Nat) (rep : List Nat) : Keeps s.jobs (gatherN s size rep).1.jobs := by
  unfold gatherN
  simp only
  have hw := keeps_waitFor s (min size s.running.length)
  generalize waitFor s (min size s.running.length) = w at hw ⊢
  split
  · exact Keeps.refl _
  · split
    · exact hw
    · split
      · exact hw
      · split
        · next s3 hr => exact hw.trans (keeps_report _ _ _ hr)
        · exact hw

theorem keeps_gather (s : Ev) (all : Bool) (size : Nat) (rep : List Nat) :
    Keeps s.jobs (gather s all size rep).1.jobs := by
  unfold gather
  simp only
  generalize (if all = true then s.running.length else size) = sz
  split
  · split <;> exact Keeps.refl _
  · exact keeps_gatherN s sz rep

theorem keeps_close (s : Ev) (rep : List Nat) : Keeps s.jobs (close s rep).1.jobs := by
  unfold close
  simp only
  split
  · exact Keeps.refl _
  · split
    · exact Keeps.refl _
    · split
      · exact Keeps.refl _
      · next s1 hr => exact (keeps_report _ _ _ hr).trans (keeps_map (fun _ hx => fin_jClose _ hx) _)

theorem keeps_submitN (s : Ev) (k : Nat) : Keeps s.jobs (submitN s k).jobs := by
  unfold submitN
  exact keeps_append _ _

theorem keeps_submitCap : ∀ (k : Nat) (s : Ev), Keeps s.jobs (submitCap s k).1.jobs
  | 0, s => by simpa [submitCap] using Keeps.refl _
  | k + 1, s => by
    simp only [submitCap]
    split
    · exact Keeps.refl _
    · next hc =>
      refine Keeps.trans (keeps_append s.jobs [{ spec := (s.specs[s.jobs.length]?).getD { m := 0, p := 0 } }]) ?_
      exact keeps_submitCap k { s with
        jobs := s.jobs ++ [{ spec := (s.specs[s.jobs.length]?).getD { m := 0, p := 0 } }],
        running := s.running ++ [s.jobs.length] }

/-! generic skeleton: a predicate on the storage that every primitive preserves is preserved by the loops, by
`search`, by every operation, and — when `gather_other_jobs_done` preserves it too — by every act of every evaluator -/

structure Pres (P : List Job → Prop) : Prop where
  submitN : ∀ (s : Ev) k, P s.jobs → P (submitN s k).jobs
  submitCap : ∀ (s : Ev) k, P s.jobs → P (submitCap s k).1.jobs
  gather : ∀ (s : Ev) all size rep, P s.jobs → P (gather s all size rep).1.jobs
  settle : ∀ (s : Ev), P s.jobs → P (settle s).jobs
  close : ∀ (s : Ev) rep, P s.jobs → P (close s rep).1.jobs
  other : ∀ (s s' : Ev) orep, gatherOther s orep = some s' → P s.jobs → P s'.jobs

theorem pres_loop {P : List Job → Prop} (hP : Pres P) (strict : Bool) (target : Int) :
    ∀ (reps : List (List Nat)) (s : Ev) (nAsk : Nat), P s.jobs → P (loop strict target s nAsk reps).1.jobs := by
  intro reps
  induction reps with
  | nil =>
    intro s nAsk h
    unfold loop
    dsimp only
    split
    · have := hP.submitCap (askStep s) nAsk h
      split
      · exact this
      · exact this
    · exact h
  | cons rep rest ih =>
    intro s nAsk h
    unfold loop
    dsimp only
    split
    · have hsub := hP.submitCap (askStep s) nAsk h
      generalize submitCap (askStep s) nAsk = sub at hsub ⊢
      split
      · exact hsub
      · have hg := hP.gather sub.1 false 1 rep hsub
        generalize gather sub.1 false 1 rep = ga at hg ⊢
        split
        · exact hg
        · exact hg
        · exact hg
        · split
          · exact hg
          · exact ih _ _ hg
    · exact h

theorem pres_search {P : List Job → Prop} (hP : Pres P) (s : Ev) (c : Call) (reps : List (List Nat))
    (drainRep : List Nat) (h : P s.jobs) : P (search s c reps drainRep).1.jobs := by
  unfold search
  dsimp only
  have h2 : P (setTimeout (if c.strict = true then
      { s with maxSub := c.maxEvals, offset := (s.results.length : Int) } else { s with maxSub := -1 })
      c.timeout).jobs := by
    unfold setTimeout; split <;> exact h
  generalize setTimeout (if c.strict = true then
      { s with maxSub := c.maxEvals, offset := (s.results.length : Int) } else { s with maxSub := -1 })
      c.timeout = s2 at h2 ⊢
  have hl := pres_loop hP c.strict (if c.maxEvals < 0 then c.maxEvals else c.maxEvals + numEvals c.strict s2)
    reps s2 s2.W h2
  generalize loop c.strict (if c.maxEvals < 0 then c.maxEvals else c.maxEvals + numEvals c.strict s2)
    s2 s2.W reps = lp at hl ⊢
  split
  · exact hl
  · exact hl
  · exact hl
  · exact hl
  · split
    · have hg := hP.gather lp.1 true 0 drainRep hl
      generalize gather lp.1 true 0 drainRep = ga at hg ⊢
      split
      · exact hg
      · exact hg
      · exact hg
      · split
        · exact hg
        · exact hP.close _ _ hg
    · exact hP.close _ _ hl

theorem pres_step {P : List Job → Prop} (hP : Pres P) (s : Ev) (op : Op) (h : P s.jobs) : P (step s op).jobs := by
  cases op with
  | timeout t => unfold step setTimeout; exact h
  | submit k => exact hP.submitN s k h
  | gather all size rep => exact hP.gather s all size rep h
  | close rep => exact hP.close s rep h
  | settle => exact hP.settle s h
  | askDelays ds => exact h
  | search c reps d => exact pres_search hP s c reps d h

theorem pres_gatherO {P : List Job → Prop} (hP : Pres P) (s : Ev) (all : Bool) (size : Nat) (rep orep : List Nat)
    (h : P s.jobs) : P (gatherO s all size rep orep).1.jobs := by
  unfold gatherO
  dsimp only
  have hg := hP.gather s all size rep h
  generalize gather s all size rep = g at hg ⊢
  split
  · exact hg
  · split
    · next s' hs => exact hP.other _ _ _ hs hg
    · exact hg

theorem pres_loopO {P : List Job → Prop} (hP : Pres P) (strict : Bool) (target : Int) :
    ∀ (reps : List (List Nat × List Nat)) (s : Ev) (nAsk : Nat), P s.jobs →
      P (loopO strict target s nAsk reps).1.jobs := by
  intro reps
  induction reps with
  | nil =>
    intro s nAsk h
    unfold loopO
    dsimp only
    split
    · have := hP.submitCap (askStep s) nAsk h
      split
      · exact this
      · exact this
    · exact h
  | cons rep rest ih =>
    intro s nAsk h
    unfold loopO
    dsimp only
    split
    · have hsub := hP.submitCap (askStep s) nAsk h
      generalize submitCap (askStep s) nAsk = sub at hsub ⊢
      split
      · exact hsub
      · have hg := pres_gatherO hP sub.1 false 1 rep.1 rep.2 hsub
        generalize gatherO sub.1 false 1 rep.1 rep.2 = ga at hg ⊢
        split
        · exact hg
        · exact hg
        · exact hg
        · split
          · exact hg
          · exact ih _ _ hg
    · exact h

theorem pres_searchO {P : List Job → Prop} (hP : Pres P) (s : Ev) (c : Call)
    (reps : List (List Nat × List Nat)) (drainRep : List Nat × List Nat) (h : P s.jobs) :
    P (searchO s c reps drainRep).1.jobs := by
  unfold searchO
  dsimp only
  have h2 : P (setTimeout (if c.strict = true then
      { s with maxSub := c.maxEvals, offset := (s.results.length : Int) } else { s with maxSub := -1 })
      c.timeout).jobs := by
    unfold setTimeout; split <;> exact h
  generalize setTimeout (if c.strict = true then
      { s with maxSub := c.maxEvals, offset := (s.results.length : Int) } else { s with maxSub := -1 })
      c.timeout = s2 at h2 ⊢
  have hl := pres_loopO hP c.strict (if c.maxEvals < 0 then c.maxEvals else c.maxEvals + numEvals c.strict s2)
    reps s2 s2.W h2
  generalize loopO c.strict (if c.maxEvals < 0 then c.maxEvals else c.maxEvals + numEvals c.strict s2)
    s2 s2.W reps = lp at hl ⊢
  split
  · exact hl
  · exact hl
  · exact hl
  · exact hl
  · split
    · have hg := pres_gatherO hP lp.1 true 0 drainRep.1 drainRep.2 hl
      generalize gatherO lp.1 true 0 drainRep.1 drainRep.2 = ga at hg ⊢
      split
      · exact hg
      · exact hg
      · exact hg
      · split
        · exact hg
        · exact hP.close _ _ hg
    · exact hP.close _ _ hl

theorem pres_act {P : List Job → Prop} (hP : Pres P) (s : Ev) (a : Act) (h : P s.jobs) : P (act s a).jobs := by
  cases a with
  | op o => exact pres_step hP s o h
  | other orep =>
    show P ((gatherOther s orep).getD s).jobs
    cases hg : gatherOther s orep with
    | none => exact h
    | some s' => exact hP.other _ _ _ hg h
  | gatherO all size rep orep => exact pres_gatherO hP s all size rep orep h
  | searchO c reps d => exact pres_searchO hP s c reps d h

theorem pres_wstep {P : List Job → Prop} (hP : Pres P) (w : World) (ka : Nat × Act) (h : P w.jobs) :
    P (wstep w ka).jobs := by
  unfold wstep
  split
  · next l _ => exact pres_act hP (view w l) ka.2 h
  · exact h

theorem pres_wrun {P : List Job → Prop} (hP : Pres P) :
    ∀ (hist : List (Nat × Act)) (w : World), P w.jobs → P (wrun w hist).jobs
  | [], w, h => by simpa [wrun] using h
  | ka :: rest, w, h => by
    simp only [wrun]
    exact pres_wrun hP rest _ (pres_wstep hP w ka h)

/-- the invariant together with "every reported record of `l0` is still there unchanged" -/
theorem pres_inv_keeps (l0 : List Job) : Pres (fun l => AllInv l ∧ Keeps l0 l) where
  submitN s k h := ⟨allInv_submitN s k h.1, h.2.trans (keeps_submitN s k)⟩
  submitCap s k h := ⟨allInv_submitCap k s h.1, h.2.trans (keeps_submitCap k s)⟩
  gather s all size rep h := ⟨allInv_gather s all size rep h.1, h.2.trans (keeps_gather s all size rep)⟩
  settle s h := ⟨allInv_settle s h.1, h.2.trans (keeps_waitFor s 0)⟩
  close s rep h := ⟨allInv_close s rep h.1, h.2.trans (keeps_close s rep)⟩
  other s s' orep hg h := by
    rw [(gatherOther_jobs h.1 hg).1]; exact h

/-- **reported records are final** in every history of every evaluator's operations -/
theorem wrun_keeps (w : World) (hi : AllInv w.jobs) (hist : List (Nat × Act)) :
    Keeps w.jobs (wrun w hist).jobs :=
  (pres_wrun (pres_inv_keeps w.jobs) hist w ⟨hi, Keeps.refl _⟩).2

/-! ### one evaluator alone: collecting "other" jobs changes nothing (`searchO` = `search`) -/

theorem otherIds_nil_of_rep {s : Ev} (h : Rep s) : otherIds s = [] := by
  apply List.eq_nil_iff_forall_not_mem.mpr
  intro i hi
  obtain ⟨h1, h2, j, hj, _⟩ := (mem_otherIds s i).mp hi
  have hc : (clsList s.jobs)[i]? = some (cls j.pc) := by simp [clsList, hj]
  rcases cls_cases j.pc with e | e | e
  · exact h1 ((h.run i).mpr (by rw [hc, e]))
  · exact h2 ((h.res i).mpr (by rw [hc, e]))
  · exact h.noAborted i (by rw [hc, e])

theorem gatherOther_nil_of_rep {s : Ev} (h : Rep s) : gatherOther s [] = some s := by
  unfold gatherOther
  rw [otherIds_nil_of_rep h]
  simp

theorem gatherO_nil {s : Ev} (h : Rep s) (all : Bool) (size : Nat) (rep : List Nat) :
    gatherO s all size rep [] = gather s all size rep := by
  unfold gatherO
  dsimp only
  have hg := rep_gather s all size rep h
  generalize gather s all size rep = g at hg ⊢
  obtain ⟨g1, g2⟩ := g
  cases g2 with
  | some e => rfl
  | none =>
    simp only
    rw [gatherOther_nil_of_rep (hg rfl).1]

theorem loopO_nil (strict : Bool) (target : Int) :
    ∀ (reps : List (List Nat)) (s : Ev) (nAsk : Nat), Rep s →
      loopO strict target s nAsk (reps.map (fun r => (r, []))) = loop strict target s nAsk reps := by
  intro reps
  induction reps with
  | nil =>
    intro s nAsk _
    unfold loopO loop
    rfl
  | cons rep rest ih =>
    intro s nAsk h
    rw [List.map_cons]
    unfold loopO loop
    dsimp only
    by_cases hc : target < 0 ∨ numEvals strict s < target
    · rw [if_pos hc, if_pos hc]
      have hsub := rep_submitCap nAsk (askStep s) (rep_cfg (s := s) rfl rfl rfl h)
      generalize submitCap (askStep s) nAsk = sub at hsub ⊢
      by_cases hb : sub.2 = true
      · rw [if_pos hb, if_pos hb]
      · rw [if_neg hb, if_neg hb, gatherO_nil hsub]
        have hg := rep_gather sub.1 false 1 rep hsub
        generalize gather sub.1 false 1 rep = ga at hg ⊢
        obtain ⟨g1, g2⟩ := ga
        cases g2 with
        | some e => cases e <;> rfl
        | none =>
          simp only
          split
          · rfl
          · exact ih _ _ (hg rfl).1
    · rw [if_neg hc, if_neg hc]

/-- an evaluator that is alone on its storage (bookkeeping invariant `Rep`: every job of the storage is its own,
in flight or reported) finds no other job: its `search()` is the `search` of `Model/Timeout.lean` -/
theorem searchO_nil {s : Ev} (h : Rep s) (c : Call) (reps : List (List Nat)) (drainRep : List Nat) :
    searchO s c (reps.map (fun r => (r, []))) (drainRep, []) = search s c reps drainRep := by
  unfold searchO search
  dsimp only
  have h2 : Rep (setTimeout (if c.strict = true then
      { s with maxSub := c.maxEvals, offset := (s.results.length : Int) } else { s with maxSub := -1 })
      c.timeout) := by
    unfold setTimeout
    split <;> exact rep_cfg (s := s) rfl rfl rfl h
  generalize setTimeout (if c.strict = true then
      { s with maxSub := c.maxEvals, offset := (s.results.length : Int) } else { s with maxSub := -1 })
      c.timeout = s2 at h2 ⊢
  rw [loopO_nil _ _ reps s2 s2.W h2]
  have hl := rep_loop c.strict (if c.maxEvals < 0 then c.maxEvals else c.maxEvals + numEvals c.strict s2)
    reps s2 s2.W h2
  generalize loop c.strict (if c.maxEvals < 0 then c.maxEvals else c.maxEvals + numEvals c.strict s2)
    s2 s2.W reps = lp at hl ⊢
  obtain ⟨l1, l2⟩ := lp
  cases l2 with
  | noJobs => rfl
  | hang => rfl
  | badEnv => rfl
  | envExhausted => rfl
  | budget =>
    have hr : Rep l1 := hl (Or.inl rfl)
    simp only [gatherO_nil hr]
    rfl
  | cap =>
    have hr : Rep l1 := hl (Or.inr (Or.inl rfl))
    simp only [gatherO_nil hr]
    rfl
  | timeout =>
    have hr : Rep l1 := hl (Or.inr (Or.inr rfl))
    simp only [gatherO_nil hr]
    rfl

/-! ### the checker of multi-evaluator histories decides its specification -/

/-- the status the row reports is the last one written for that job -/
def RowReached (jobs : List JobObs) (r : Nat × Status) : Prop :=
  ∃ j, jobs[r.1]? = some j ∧ j.log.getLast? = some r.2

/-- what the property says about a history of `search()` calls of several evaluators on one storage -/
structure SharedSpec (o : SharedObs) : Prop where
  /-- the writes to the shared storage, whoever made them, only moved every job's status forward -/
  monotone : ∀ j ∈ o.jobs, MonotoneLog j.log
  /-- every returned table satisfies the single-table specification over the jobs that were in the storage when it
  was returned (every one of them exactly once, terminal, classified, value kept), and reports for every job the
  status the job actually reached -/
  tables : ∀ t ∈ o.tables,
    LogSpec { jobs := o.jobs.take t.nJobs, results := t.rows.map (·.1), complete := true } ∧
    ∀ r ∈ t.rows, RowReached o.jobs r

theorem rowReachedB_iff (jobs : List JobObs) (r : Nat × Status) :
    rowReachedB jobs r = true ↔ RowReached jobs r := by
  unfold rowReachedB RowReached
  cases h : jobs[r.1]? with
  | none => simp
  | some j => simp

theorem checkShared_iff (o : SharedObs) : checkShared o = true ↔ SharedSpec o := by
  unfold checkShared checkTable
  simp only [Bool.and_eq_true, List.all_eq_true, monotoneB_iff, checkStatusLog_iff, rowReachedB_iff]
  constructor
  · rintro ⟨h1, h2⟩
    exact ⟨h1, fun t ht => h2 t ht⟩
  · rintro ⟨h1, h2⟩
    exact ⟨h1, fun t ht => h2 t ht⟩

end DH.Timeout
