import Proofs.SharedStorage
import Model.MultiSearch

/-! Several searches in one storage object: an operation on search `s` leaves every other search of the storage exactly
as it was (isolation); the per-job invariant and the finality of reported records hold for the jobs of every search
through every history.  Core Lean only. -/

namespace DH.Timeout

/-- every job of every search of the storage satisfies the per-job invariant -/
def StoreInv (st : Store) : Prop := ∀ w ∈ st.searches, AllInv w.jobs

theorem storeInv_sinit (cfg : List (List Nat × Bool × List Spec)) : StoreInv (sinit cfg) := by
  intro w hw
  simp only [sinit, List.mem_map] at hw
  obtain ⟨c, _, rfl⟩ := hw
  exact allInv_winit _ _ _

theorem storeInv_sstep (st : Store) (x : Nat × Nat × Act) (h : StoreInv st) : StoreInv (sstep st x) := by
  unfold sstep
  split
  · next w hw =>
    intro w' hw'
    rcases List.mem_or_eq_of_mem_set hw' with h1 | h1
    · exact h w' h1
    · subst h1
      exact allInv_wstep { w with now := st.now } x.2 (h w (List.mem_of_getElem? hw))
  · exact h

theorem storeInv_srun : ∀ (hist : List (Nat × Nat × Act)) (st : Store), StoreInv st → StoreInv (srun st hist)
  | [], st, h => by simpa [srun] using h
  | x :: rest, st, h => by
    simp only [srun]
    exact storeInv_srun rest _ (storeInv_sstep st x h)

/-- an operation on search `x.1` does not touch search `s' ≠ x.1`: its jobs (statuses, write histories, outputs), its
run-functions, the private state of its evaluators are what they were -/
theorem sstep_other (st : Store) (x : Nat × Nat × Act) (s' : Nat) (h : x.1 ≠ s') :
    (sstep st x).searches[s']? = st.searches[s']? := by
  unfold sstep
  split
  · simp [List.getElem?_set_ne h]
  · rfl

theorem srun_other : ∀ (hist : List (Nat × Nat × Act)) (st : Store) (s' : Nat), (∀ x ∈ hist, x.1 ≠ s') →
    (srun st hist).searches[s']? = st.searches[s']?
  | [], st, _, _ => by simp [srun]
  | x :: rest, st, s', h => by
    simp only [srun]
    rw [srun_other rest _ s' (fun y hy => h y (List.mem_cons_of_mem _ hy))]
    exact sstep_other st x s' (h x List.mem_cons_self)

theorem job_of_searches_eq {st st' : Store} {s : Nat} (h : st'.searches[s]? = st.searches[s]?) (i : Nat) :
    st'.job s i = st.job s i := by
  simp [Store.job, h]

/-- a reported record of any search survives one operation of any evaluator of any search -/
theorem sstep_keeps (st : Store) (hi : StoreInv st) (x : Nat × Nat × Act) (s i : Nat) (j : Job)
    (hj : st.job s i = some j) (hf : Final j) : (sstep st x).job s i = some j := by
  by_cases hx : x.1 = s
  · unfold Store.job at hj
    cases hw : st.searches[s]? with
    | none => simp [hw] at hj
    | some w =>
      simp only [hw, Option.bind_some] at hj
      have hlt : s < st.searches.length := by
        rcases Nat.lt_or_ge s st.searches.length with h | h
        · exact h
        · simp [List.getElem?_eq_none h] at hw
      have hi' : AllInv ({ w with now := st.now } : World).jobs := hi w (List.mem_of_getElem? hw)
      have hk := wrun_keeps { w with now := st.now } hi' [x.2] i j hj hf
      simp only [wrun] at hk
      unfold sstep
      rw [hx, hw]
      simp only [Store.job]
      rw [List.getElem?_set_self hlt]
      simpa using hk
  · rw [job_of_searches_eq (sstep_other st x s hx) i]
    exact hj

theorem srun_keeps : ∀ (hist : List (Nat × Nat × Act)) (st : Store), StoreInv st → ∀ (s i : Nat) (j : Job),
    st.job s i = some j → Final j → (srun st hist).job s i = some j
  | [], st, _, s, i, j, hj, _ => by simpa [srun] using hj
  | x :: rest, st, hi, s, i, j, hj, hf => by
    simp only [srun]
    exact srun_keeps rest _ (storeInv_sstep st x hi) s i j (sstep_keeps st hi x s i j hj hf) hf

theorem mem_jobs_of_job {st : Store} {s i : Nat} {j : Job} (h : st.job s i = some j) :
    ∃ w ∈ st.searches, j ∈ w.jobs := by
  unfold Store.job at h
  cases hw : st.searches[s]? with
  | none => simp [hw] at h
  | some w =>
    simp only [hw, Option.bind_some] at h
    exact ⟨w, List.mem_of_getElem? hw, List.mem_of_getElem? h⟩

end DH.Timeout
