import Proofs.DirectionFail

/-! Helper lemmas for C05, part 8: `MinMaxScaler` under a positive rescaling, the exact condition.

scikit-learn: `data_range = data_max - data_min`, `_handle_zeros_in_scale`: `scale[scale < 10*eps] = 1.0`
(an ABSOLUTE threshold), `scale_ = 1/data_range`, `min_ = 0 - data_min*scale_`, `X*scale_ + min_`.
A constant column (range 0) is mapped to 0 whatever the factor; a column whose range is `≥ 10·eps`
before and after the rescaling is mapped to the same values; a column whose range crosses the
threshold is not. -/

namespace DH.Direction

open List (Forall₂)

theorem zipWith_rmax_ge_left : ∀ (a b : Vec), a.length = b.length → Forall₂ (· ≤ ·) a (List.zipWith rmax a b)
  | [], [], _ => Forall₂.nil
  | [], _ :: _, h => by simp at h
  | _ :: _, [], h => by simp at h
  | x :: xs, y :: ys, h => by
    simp only [List.zipWith_cons_cons]
    exact Forall₂.cons (le_rmax_left x y) (zipWith_rmax_ge_left xs ys (by simpa using h))

theorem zipWith_rmax_ge_right : ∀ (a b : Vec), a.length = b.length → Forall₂ (· ≤ ·) b (List.zipWith rmax a b)
  | [], [], _ => Forall₂.nil
  | [], _ :: _, h => by simp at h
  | _ :: _, [], h => by simp at h
  | x :: xs, y :: ys, h => by
    simp only [List.zipWith_cons_cons]
    exact Forall₂.cons (le_rmax_right x y) (zipWith_rmax_ge_right xs ys (by simpa using h))

theorem foldl_zipWith_rmax_ge (rs : List Vec) (acc : Vec) (n : Nat) (hacc : acc.length = n)
    (hrs : ∀ r ∈ rs, r.length = n) :
    Forall₂ (· ≤ ·) acc (rs.foldl (List.zipWith rmax) acc) ∧
    ∀ r ∈ rs, Forall₂ (· ≤ ·) r (rs.foldl (List.zipWith rmax) acc) := by
  induction rs generalizing acc with
  | nil => exact ⟨forall₂_le_refl _, by simp⟩
  | cons r rs ih =>
    have hr : r.length = n := hrs r (by simp)
    have hlen : (List.zipWith rmax acc r).length = n := by simp [hacc, hr]
    obtain ⟨h2, h3⟩ := ih (List.zipWith rmax acc r) hlen (fun x hx => hrs x (by simp [hx]))
    simp only [List.foldl_cons]
    refine ⟨forall₂_le_trans (zipWith_rmax_ge_left acc r (by rw [hacc, hr])) h2, ?_⟩
    intro x hx
    rcases List.mem_cons.1 hx with rfl | hx
    · exact forall₂_le_trans (zipWith_rmax_ge_right acc x (by rw [hacc, hr])) h2
    · exact h3 x hx

/-- every row is componentwise below the column maximum -/
theorem colMax_ge {rows : List Vec} {u : Vec} (h : colMax rows = some u) (n : Nat)
    (hn : ∀ r ∈ rows, r.length = n) : ∀ r ∈ rows, Forall₂ (· ≤ ·) r u := by
  cases rows with
  | nil => simp [colMax] at h
  | cons r rs =>
    simp only [colMax, Option.some.injEq] at h; subst h
    obtain ⟨h2, h3⟩ := foldl_zipWith_rmax_ge rs r n (hn r (by simp)) (fun x hx => hn x (by simp [hx]))
    intro x hx
    rcases List.mem_cons.1 hx with rfl | hx
    · exact h2
    · exact h3 x hx

/-- per column: constant, or a range that is at least `10·eps` before and after the rescaling -/
def RangesOK (lam : Rat) (mn mx : Vec) : Prop :=
  Forall₂ (fun a b => b - a = 0 ∨ (tinyRange ≤ b - a ∧ tinyRange ≤ lam * (b - a))) mn mx

theorem mmRow_smul_ok {lam : Rat} (hl : 0 < lam) : ∀ (r mn mx : Vec), RangesOK lam mn mx →
    Forall₂ (· ≤ ·) mn r → Forall₂ (· ≤ ·) r mx →
    mmRow (smul lam mn) (smul lam mx) (smul lam r) = mmRow mn mx r
  | [], [], [], _, _, _ => by simp [mmRow, smul]
  | x :: xs, m :: ms, M :: Ms, h, h1, h2 => by
    cases h with
    | cons hab htl =>
      cases h1 with
      | cons hmx h1' =>
        cases h2 with
        | cons hxM h2' =>
          have ih := mmRow_smul_ok hl xs ms Ms htl h1' h2'
          simp only [mmRow, smul, List.map_cons, List.zipWith_cons_cons] at ih ⊢
          rw [ih]
          congr 1
          rcases hab with h0 | ⟨ha, hb⟩
          · -- constant column: x = m = M, both runs give 0
            have hxm : x = m := le_antisymm (by linarith) hmx
            have e1 : M - m < tinyRange := by rw [h0]; exact tinyRange_pos
            have e2 : lam * M - lam * m < tinyRange := by
              have : lam * M - lam * m = lam * (M - m) := by ring
              rw [this, h0]; simpa using tinyRange_pos
            simp only [mmScale, e1, e2, if_true]
            rw [hxm]; ring
          · have h1n : ¬ (M - m < tinyRange) := not_lt.mpr ha
            have h2n : ¬ (lam * M - lam * m < tinyRange) := by
              have : lam * M - lam * m = lam * (M - m) := by ring
              rw [this]; exact not_lt.mpr hb
            have hpos : 0 < M - m := lt_of_lt_of_le tinyRange_pos ha
            have hne : M - m ≠ 0 := ne_of_gt hpos
            have hlne : lam ≠ 0 := ne_of_gt hl
            simp only [mmScale, h1n, h2n, if_false]
            have e : lam * M - lam * m = lam * (M - m) := by ring
            rw [e]
            field_simp
  | [], _ :: _, _, _, h1, _ => by cases h1
  | _ :: _, [], _, _, h1, _ => by cases h1
  | [], [], _ :: _, h, _, _ => by cases h
  | _ :: _, _ :: _, [], h, _, _ => by cases h

theorem scaleMinMax_smul_ok {lam : Rat} (hl : 0 < lam) (rows : List Vec) (n : Nat)
    (hn : ∀ r ∈ rows, r.length = n)
    (hst : ∀ mn mx, colMin rows = some mn → colMax rows = some mx → RangesOK lam mn mx) :
    scaleMinMax (rows.map (smul lam)) = scaleMinMax rows := by
  rw [scaleMinMax_eq, scaleMinMax_eq, colMin_smul hl, colMax_smul hl]
  cases hmn : colMin rows with
  | none => rfl
  | some mn =>
    cases hmx : colMax rows with
    | none => rfl
    | some mx =>
      simp only [Option.map_some, List.map_map]
      congr 1
      apply List.map_congr_left
      intro r hr
      exact mmRow_smul_ok hl r mn mx (hst mn mx hmn hmx) ((colMin_le hmn n hn).2 r hr) (colMax_ge hmx n hn r hr)

end DH.Direction
