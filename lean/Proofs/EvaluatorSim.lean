import Proofs.EvaluatorPay

/-!
Usable after close, as a simulation: an evaluator whose in-flight bookkeeping is empty and that
carries old (terminal) jobs behaves, for every further `submit / gather / close`, exactly like a
brand-new evaluator attached to the same storage search (core Lean only).
-/

namespace DH.Evaluator

variable {C O : Type}

/-- a brand-new evaluator object attached to the same storage search: no jobs, no tasks, no loop,
no history; the storage's job counter continues at `n` (`g` = number of loops created so far, only
ever compared for equality) -/
def freshAt (n g : Nat) : Ev C O := { (init : Ev C O) with nextId := n, loopGen := g }

/-- `a` = the used evaluator, `b` = the fresh one: same control state, `a` additionally carries the
terminal jobs `old` (all with ids below `base`) -/
structure Sim (base : Nat) (old : List (JobRec C O)) (a b : Ev C O) : Prop where
  next : a.nextId = b.nextId
  run : a.running = b.running
  sub : a.submitted = b.submitted
  lgen : a.loopGen = b.loopGen
  lopen : a.loopOpen = b.loopOpen
  jobs : a.jobs = old ++ b.jobs
  oldOk : ∀ j ∈ old, j.id < base ∧ active j = false
  subGe : ∀ i ∈ a.submitted, base ≤ i
  baseLe : base ≤ a.nextId

variable {base : Nat} {old : List (JobRec C O)}

theorem Sim.setEventLoop {a b : Ev C O} (h : Sim base old a b) :
    Sim base old (setEventLoop a) (setEventLoop b) := by
  unfold DH.Evaluator.setEventLoop
  rw [← h.lopen]
  split
  · exact h
  · exact ⟨h.next, h.run, h.sub, by simp [h.lgen], rfl, h.jobs, h.oldOk, h.subGe, h.baseLe⟩

theorem Sim.createTask {a b : Ev C O} (h : Sim base old a b) (c : C) :
    Sim base old (createTask a c) (createTask b c) := by
  refine ⟨by simp [DH.Evaluator.createTask, h.next], by simp [DH.Evaluator.createTask, h.run, h.next, h.lgen],
    by simp [DH.Evaluator.createTask, h.sub, h.next], h.lgen, h.lopen,
    by simp [DH.Evaluator.createTask, h.jobs, h.next], h.oldOk, ?_, ?_⟩
  · intro i hi
    simp only [DH.Evaluator.createTask, List.mem_append, List.mem_singleton] at hi
    rcases hi with hi | rfl
    · exact h.subGe i hi
    · exact h.baseLe
  · have := h.baseLe
    simp only [DH.Evaluator.createTask]; omega

theorem Sim.submit {a b : Ev C O} (h : Sim base old a b) (cfgs : List C) :
    Sim base old (submit a cfgs) (submit b cfgs) := by
  unfold DH.Evaluator.submit
  have h0 := h.setEventLoop
  generalize DH.Evaluator.setEventLoop a = a0 at h0
  generalize DH.Evaluator.setEventLoop b = b0 at h0
  induction cfgs generalizing a0 b0 with
  | nil => exact h0
  | cons c cs ih => exact ih _ _ (h0.createTask c)

theorem Sim.awaitN {a b : Ev C O} (h : Sim base old a b) (n : Nat) (ws : List (List Nat)) :
    awaitN a n ws = awaitN b n ws := by
  unfold DH.Evaluator.awaitN awaitM clampN staleTask
  rw [h.run, h.lgen]

theorem markStarted_old (h : ∀ j ∈ old, j.id < base ∧ active j = false) {st : List Nat}
    (hst : ∀ i ∈ st, base ≤ i) : markStarted old st = old := by
  unfold markStarted
  conv => rhs; rw [← List.map_id old]
  apply List.map_congr_left
  intro j hj
  have hnm : j.id ∉ st := by
    intro hm
    have := hst _ hm
    have := (h j hj).1
    omega
  simp [hnm]

theorem Sim.markStarted {a b : Ev C O} (h : Sim base old a b) {st : List Nat}
    (hst : ∀ i ∈ st, base ≤ i) :
    Sim base old { a with jobs := markStarted a.jobs st } { b with jobs := markStarted b.jobs st } := by
  refine ⟨h.next, h.run, h.sub, h.lgen, h.lopen, ?_, h.oldOk, h.subGe, h.baseLe⟩
  show DH.Evaluator.markStarted a.jobs st = old ++ DH.Evaluator.markStarted b.jobs st
  rw [h.jobs]
  conv => rhs; rw [← markStarted_old h.oldOk hst]
  simp [DH.Evaluator.markStarted]

theorem findJob_old (h : ∀ j ∈ old, j.id < base ∧ active j = false) {id : Nat} (hid : base ≤ id)
    (bj : List (JobRec C O)) : findJob (old ++ bj) id = findJob bj id := by
  unfold findJob
  rw [List.find?_append]
  have : old.find? (fun j => j.id == id) = none := by
    rw [List.find?_eq_none]
    intro j hj
    have := (h j hj).1
    simp; omega
  simp [this]

theorem updJob_old (h : ∀ j ∈ old, j.id < base ∧ active j = false) {id : Nat} (hid : base ≤ id)
    (bj : List (JobRec C O)) (g : JobRec C O → JobRec C O) :
    updJob (old ++ bj) id g = old ++ updJob bj id g := by
  unfold updJob
  rw [List.map_append]
  congr 1
  conv => rhs; rw [← List.map_id old]
  apply List.map_congr_left
  intro j hj
  have := (h j hj).1
  have hne : j.id ≠ id := by omega
  simp [hne]

/-- one processed task: both sides fail alike or succeed alike -/
theorem Sim.processOne {p : Params C O} {via : Via} {a b : Ev C O} (h : Sim base old a b) (id : Nat) :
    (∃ e, processOne p via a id = .error e ∧ processOne p via b id = .error e) ∨
    (∃ a' b' j, processOne p via a id = .ok (a', j) ∧ processOne p via b id = .ok (b', j) ∧
      Sim base old a' b') := by
  unfold DH.Evaluator.processOne
  rw [← h.run, ← h.sub]
  by_cases hc : (!(a.running.any fun t => t.id == id) || !a.submitted.contains id) = true
  · left; exact ⟨.badTask, by simp only [hc, if_true], by simp only [hc, if_true]⟩
  · simp only [hc, Bool.false_eq_true, if_false]
    have hsub : id ∈ a.submitted := by
      simp only [Bool.or_eq_true, Bool.not_eq_true', not_or, Bool.not_eq_false,
        List.contains_eq_mem, decide_eq_true_eq] at hc
      exact hc.2
    have hid := h.subGe id hsub
    rw [h.jobs, findJob_old h.oldOk hid]
    cases hf : findJob b.jobs id with
    | none => left; exact ⟨.badTask, rfl, rfl⟩
    | some j =>
      right
      refine ⟨_, _, _, rfl, rfl, ?_⟩
      refine ⟨h.next, rfl, rfl, h.lgen, h.lopen, ?_, h.oldOk, ?_, h.baseLe⟩
      · exact updJob_old h.oldOk hid _ _
      · intro i hi
        exact h.subGe i (List.mem_of_mem_erase hi)

theorem Sim.processAll {p : Params C O} {via : Via} :
    ∀ (l : List Nat) {a b : Ev C O}, Sim base old a b →
      Sim base old (processAll p via a l).1 (processAll p via b l).1 ∧
      (processAll p via a l).2 = (processAll p via b l).2
  | [], a, b, h => ⟨h, rfl⟩
  | id :: rest, a, b, h => by
    rcases h.processOne (p := p) (via := via) id with ⟨e, ha, hb⟩ | ⟨a', b', j, ha, hb, h'⟩
    · rw [DH.Evaluator.processAll, DH.Evaluator.processAll, ha, hb]; exact ⟨h, rfl⟩
    · obtain ⟨ih1, ih2⟩ := Sim.processAll (p := p) (via := via) rest h'
      rw [DH.Evaluator.processAll, DH.Evaluator.processAll, ha, hb]
      dsimp only
      cases hra : DH.Evaluator.processAll p via a' rest with
      | mk a2 ra =>
        cases hrb : DH.Evaluator.processAll p via b' rest with
        | mk b2 rb =>
          rw [hra, hrb] at ih1 ih2
          simp only at ih1 ih2
          subst ih2
          cases ra <;> exact ⟨ih1, rfl⟩

theorem Sim.gather {p : Params C O} {a b : Ev C O} (h : Sim base old a b) (all : Bool) (k : Nat)
    (st : List Nat) (ws : List (List Nat)) (hst : ∀ i ∈ st, base ≤ i) :
    Sim base old (gather p a all k st ws).1 (gather p b all k st ws).1 ∧
    (gather p a all k st ws).2 = (gather p b all k st ws).2 := by
  have hm := h.markStarted hst
  have hsize : (if all then b.running.length else k) = (if all then a.running.length else k) := by
    rw [h.run]
  have hlo : b.loopOpen = a.loopOpen := h.lopen.symm
  have haw : ∀ n, DH.Evaluator.awaitN b n ws = DH.Evaluator.awaitN a n ws := fun n => (h.awaitN n ws).symm
  unfold DH.Evaluator.gather
  generalize ({ a with jobs := DH.Evaluator.markStarted a.jobs st } : Ev C O) = a1 at hm ⊢
  generalize ({ b with jobs := DH.Evaluator.markStarted b.jobs st } : Ev C O) = b1 at hm ⊢
  dsimp only
  rw [hsize, hlo, haw]
  generalize (if all then a.running.length else k) = size
  by_cases h0 : size = 0
  · rw [if_pos h0, if_pos h0]; exact ⟨h, rfl⟩
  · rw [if_neg h0, if_neg h0]
    by_cases hl : (!a.loopOpen) = true
    · rw [if_pos hl, if_pos hl]; exact ⟨h, rfl⟩
    · rw [if_neg hl, if_neg hl]
      cases ha : DH.Evaluator.awaitN a size ws with
      | error e => exact ⟨h, rfl⟩
      | ok done =>
        dsimp only
        obtain ⟨h1, h2⟩ := Sim.processAll (p := p) (via := .gather) done hm
        cases hra : DH.Evaluator.processAll p .gather a1 done with
        | mk a2 ra =>
          cases hrb : DH.Evaluator.processAll p .gather b1 done with
          | mk b2 rb =>
            rw [hra, hrb] at h1 h2
            simp only at h1 h2
            subst h2
            cases ra <;> exact ⟨h1, rfl⟩

theorem cancelActive_old (p : Params C O) (h : ∀ j ∈ old, j.id < base ∧ active j = false) :
    old.map (fun j => if active j then
      ({ j with status := .cancelled, out := if p.hpo then some p.cancelOut else j.out } : JobRec C O)
      else j) = old := by
  conv => rhs; rw [← List.map_id old]
  apply List.map_congr_left
  intro j hj
  simp [(h j hj).2]

theorem Sim.close {p : Params C O} {a b : Ev C O} (h : Sim base old a b) (fin : List Nat) :
    Sim base old (close p a fin).1 (close p b fin).1 ∧ (close p a fin).2 = (close p b fin).2 := by
  have e1 : b.loopOpen = a.loopOpen := h.lopen.symm
  have e2 : b.running.isEmpty = a.running.isEmpty := by rw [h.run]
  have e3 : staleTask b = staleTask a := by unfold staleTask; rw [h.run, h.lgen]
  unfold DH.Evaluator.close closeWith
  rw [e1, e2, e3]
  by_cases hl : (!a.loopOpen) = true
  · rw [if_pos hl, if_pos hl]; exact ⟨h, rfl⟩
  · rw [if_neg hl, if_neg hl]
    by_cases hr : a.running.isEmpty = true
    · rw [if_pos hr, if_pos hr]
      exact ⟨⟨h.next, h.run, h.sub, h.lgen, rfl, h.jobs, h.oldOk, h.subGe, h.baseLe⟩, rfl⟩
    · rw [if_neg hr, if_neg hr]
      by_cases hst : staleTask a = true
      · rw [if_pos hst, if_pos hst]; exact ⟨h, rfl⟩
      · rw [if_neg hst, if_neg hst]
        obtain ⟨h1, h2⟩ := Sim.processAll (p := p) (via := .close) fin h
        cases hra : DH.Evaluator.processAll p .close a fin with
        | mk a2 ra =>
          cases hrb : DH.Evaluator.processAll p .close b fin with
          | mk b2 rb =>
            rw [hra, hrb] at h1 h2
            simp only at h1 h2
            subst h2
            cases ra with
            | error e => exact ⟨h1, rfl⟩
            | ok js =>
              refine ⟨⟨h1.next, rfl, rfl, h1.lgen, rfl, ?_, h1.oldOk, by simp, h1.baseLe⟩, rfl⟩
              show (cancelActive p a2).jobs = old ++ (cancelActive p b2).jobs
              simp only [cancelActive, h1.jobs, List.map_append, cancelActive_old p h1.oldOk]

/-! ### whole runs -/

theorem run_cons (p : Params C O) (s : Ev C O) (op : Op C) (ops : List (Op C)) :
    run p s (op :: ops) =
      ((run p (step p s op).1 ops).1, (step p s op).2 :: (run p (step p s op).1 ops).2) := rfl

theorem reach_run {p : Params C O} : ∀ (ops : List (Op C)) {s : Ev C O}, Reach p s →
    opsOk p s ops = true → Reach p (run p s ops).1
  | [], _, h, _ => h
  | op :: ops, s, h, hok => by
    simp only [opsOk, Bool.and_eq_true] at hok
    rw [run_cons]
    exact reach_run ops (.step op h hok.1) hok.2

/-- the environment only reports jobs that are in flight as started -/
theorem opOk_started {s : Ev C O} (hi : Inv s) {all : Bool} {k : Nat} {st : List Nat}
    {ws : List (List Nat)} (hok : opOk s (.gather all k st ws) = true) :
    ∀ i ∈ st, i ∈ s.submitted := by
  simp only [opOk] at hok
  have hempty : st.isEmpty = true → ∀ i ∈ st, i ∈ s.submitted := by
    intro he i hi'
    rw [List.isEmpty_iff.1 he] at hi'
    simp at hi'
  generalize (if all = true then s.running.length else k) = size at hok
  by_cases hc : (decide (size = 0) || !s.loopOpen) = true
  · rw [if_pos hc] at hok
    simp only [Bool.and_eq_true] at hok; exact hempty hok.1
  · rw [if_neg hc] at hok
    cases ha : awaitN s size ws with
    | error e =>
      rw [ha] at hok
      simp only [Bool.and_eq_true] at hok; exact hempty hok.2
    | ok done =>
      rw [ha] at hok
      simp only [Bool.and_eq_true] at hok
      have hst := hok.1.1
      simp only [startedOk, Bool.and_eq_true, decide_eq_true_eq, List.all_eq_true, beq_iff_eq] at hst
      intro i hi'
      rw [← hi.runSub]
      simpa [runningIds] using (hst.2 i hi').1

theorem sim_run {p : Params C O} : ∀ (ops : List (Op C)) {a b : Ev C O}, Reach p a →
    Sim base old a b → opsOk p a ops = true → (∀ op ∈ ops, isDump op = false) →
    (run p a ops).2 = (run p b ops).2
  | [], _, _, _, _, _, _ => rfl
  | op :: ops, a, b, hr, hs, hok, hnd => by
    simp only [opsOk, Bool.and_eq_true] at hok
    rw [run_cons, run_cons]
    have hr' : Reach p (step p a op).1 := .step op hr hok.1
    have hnd' : ∀ o ∈ ops, isDump o = false := fun o ho => hnd o (by simp [ho])
    have key : Sim base old (step p a op).1 (step p b op).1 ∧ (step p a op).2 = (step p b op).2 := by
      cases op with
      | submit cfgs => exact ⟨hs.submit cfgs, rfl⟩
      | gather all k st ws =>
        have hst : ∀ i ∈ st, base ≤ i := fun i hi =>
          hs.subGe i (opOk_started (reach_good hr).1 hok.1 i hi)
        exact hs.gather all k st ws hst
      | close fin => exact hs.close fin
      | dump fl => have := hnd (.dump fl) (by simp); simp [isDump] at this
    rw [key.2, sim_run ops hr' key.1 hok.2 hnd']

end DH.Evaluator
