import Proofs.AggregateTop

/-! C19: the executable checkers of `Model/Aggregate.lean` decide exactly their specifications. -/

namespace DH.Aggregate

def SimplexSpec (tol : Rat) (c : Nat) (loc : List Rat) : Prop :=
  loc.length = c ∧ (∀ x ∈ loc, -tol ≤ x) ∧ loc.sum - 1 ≤ tol ∧ 1 - loc.sum ≤ tol

theorem checkSimplex_iff (tol : Rat) (c : Nat) (loc : List Rat) :
    checkSimplex tol c loc = true ↔ SimplexSpec tol c loc := by
  simp [checkSimplex, SimplexSpec, and_assoc]

/-- smallest / largest present value, up to `tol` -/
def BetweenSpec (tol : Rat) (ws : List Rat) (ys : List Cell) (a : Rat) : Prop :=
  (∃ lo ∈ (present ws ys).map (·.2), lo - tol ≤ a) ∧ (∃ hi ∈ (present ws ys).map (·.2), a ≤ hi + tol)

theorem checkBetween_iff (tol : Rat) (ws : List Rat) (ys : List Cell) (a : Rat) :
    checkBetween tol ws ys a = true ↔ BetweenSpec tol ws ys a := by
  simp only [checkBetween, BetweenSpec, Bool.and_eq_true, List.any_eq_true, decide_eq_true_eq, List.mem_map]
  constructor
  · rintro ⟨⟨p, hp, h1⟩, ⟨q, hq, h2⟩⟩
    exact ⟨⟨p.2, ⟨p, hp, rfl⟩, h1⟩, ⟨q.2, ⟨q, hq, rfl⟩, h2⟩⟩
  · rintro ⟨⟨lo, ⟨p, hp, rfl⟩, h1⟩, ⟨hi, ⟨q, hq, rfl⟩, h2⟩⟩
    exact ⟨⟨p, hp, h1⟩, ⟨q, hq, h2⟩⟩

def UncertaintySpec (tol hi u a e : Rat) : Prop :=
  -tol ≤ u ∧ u ≤ hi + tol ∧ -tol ≤ a ∧ -tol ≤ e ∧ u - (a + e) ≤ tol ∧ (a + e) - u ≤ tol

theorem checkUncertainty_iff (tol hi u a e : Rat) :
    checkUncertainty tol hi u a e = true ↔ UncertaintySpec tol hi u a e := by
  simp [checkUncertainty, UncertaintySpec, and_assoc]

theorem checkRange_iff (tol hi u : Rat) : checkRange tol hi u = true ↔ (-tol ≤ u ∧ u ≤ hi + tol) := by
  simp [checkRange]

theorem checkTotalVariance_iff (tol v a e : Rat) :
    checkTotalVariance tol v a e = true ↔ (v - (a + e) ≤ tol ∧ (a + e) - v ≤ tol) := by
  simp [checkTotalVariance]

/-! the exact clauses proved for the model imply the tolerant specifications for every `tol ≥ 0` -/

theorem SimplexSpec_of_exact {tol : Rat} (ht : 0 ≤ tol) {c : Nat} {loc : List Rat}
    (h : loc.length = c ∧ (∀ x ∈ loc, 0 ≤ x) ∧ loc.sum = 1) : SimplexSpec tol c loc := by
  refine ⟨h.1, fun x hx => ?_, ?_, ?_⟩
  · have := h.2.1 x hx; linarith
  · rw [h.2.2]; linarith
  · rw [h.2.2]; linarith

theorem BetweenSpec_of_exact {tol : Rat} (ht : 0 ≤ tol) {ws : List Rat} {ys : List Cell} {a : Rat}
    (h : ∃ lo ∈ (present ws ys).map (·.2), ∃ hi ∈ (present ws ys).map (·.2),
      (∀ v ∈ (present ws ys).map (·.2), lo ≤ v ∧ v ≤ hi) ∧ lo ≤ a ∧ a ≤ hi) : BetweenSpec tol ws ys a := by
  obtain ⟨lo, hlo, hi, hhi, _, h1, h2⟩ := h
  exact ⟨⟨lo, hlo, by linarith⟩, ⟨hi, hhi, by linarith⟩⟩

theorem UncertaintySpec_of_exact {tol : Rat} (ht : 0 ≤ tol) {hi u a e : Rat}
    (h : 0 ≤ u ∧ u ≤ hi ∧ 0 ≤ a ∧ 0 ≤ e ∧ u = a + e) : UncertaintySpec tol hi u a e := by
  obtain ⟨h1, h2, h3, h4, h5⟩ := h
  refine ⟨by linarith, by linarith, by linarith, by linarith, by rw [h5]; linarith, by rw [h5]; linarith⟩

end DH.Aggregate
