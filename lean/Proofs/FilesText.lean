import Model.FilesText
import Proofs.Csv

/-! Lemmas for the text layer of C15 (`Model/FilesText.lean`): the `\r\n` dialect of the rewrite is
the evaluator's dialect; reading rendered bytes back; the abstraction of rendered bytes.  Core Lean
only. -/

namespace DH.Files
open DH.Csv

/-! ### the `\r\n` dialect -/

theorem isSpecialLt_crlf (c : Char) : isSpecialLt crlf c = isSpecial c := by
  simp [isSpecialLt, isSpecial, crlf, Bool.or_assoc, Lean.Grind.beq_eq_decide_eq]

theorem quoteCellLt_crlf (s : Text) : quoteCellLt crlf s = quoteCell s := by
  have : (fun c => isSpecialLt crlf c) = isSpecial := funext isSpecialLt_crlf
  simp [quoteCellLt, quoteCell, needsQuote, this]

theorem renderFieldsLt_crlf : ∀ cells : List Text, renderFieldsLt crlf cells = renderFields cells
  | [] => rfl
  | [f] => by simp [renderFieldsLt, renderFields, quoteCellLt_crlf]
  | f :: g :: r => by
    simp [renderFieldsLt, renderFields, quoteCellLt_crlf, renderFieldsLt_crlf (g :: r)]

theorem renderLineLt_crlf (cells : List Text) : renderLineLt crlf cells = renderLine cells := by
  unfold renderLineLt renderLine
  rw [renderFieldsLt_crlf]
  rfl

theorem lineText_crlf (l : CLine) : lineText crlf l = renderLine l.cells := by
  unfold lineText
  split <;> simp [renderLineLt_crlf]

theorem bytesOf_crlf (c : List CLine) : bytesOf crlf c = renderFile (c.map (·.cells)) := by
  unfold bytesOf renderFile
  induction c with
  | nil => rfl
  | cons l c ih => simp [List.flatMap_cons, lineText_crlf, ih]

/-! ### reading rendered text back -/

theorem parse_renderFile_append (r' : Text) :
    ∀ (rows : List (List Text)), (∀ r ∈ rows, r ≠ []) →
      parse .startRecord [] [] (renderFile rows ++ r') = rows ++ parse .startRecord [] [] r'
  | [], _ => by simp [renderFile]
  | r :: rows, h => by
    have ih := parse_renderFile_append r' rows (fun x hx => h x (by simp [hx]))
    unfold renderFile at ih ⊢
    simp only [List.flatMap_cons, List.append_assoc]
    rw [parse_renderLine r (h r (by simp)), ih]
    simp

theorem endsBetweenRecords_renderFile (rows : List (List Text)) (h : ∀ r ∈ rows, r ≠ []) :
    endsBetweenRecords (renderFile rows) = true := by
  unfold endsBetweenRecords parseFile
  rw [parse_renderFile_append ['x'] rows h]
  have := parse_renderFile rows h
  unfold parseFile at this
  rw [this]
  simp [parse]

theorem records_renderFile (rows : List (List Text)) (h : ∀ r ∈ rows, r ≠ []) :
    records (renderFile rows) = rows := by
  unfold records
  rw [parse_renderFile rows h]
  apply List.filter_eq_self.2
  intro r hr
  have := h r hr
  cases r <;> simp_all

/-! ### the abstraction of a consistent table -/

theorem classifyRows_ended (sid hlen : Nat) (hext : Bool) (jc : Nat) :
    ∀ rs : List (List Text),
      classifyRows sid hlen hext jc true rs = rs.map (classify sid hlen hext jc true)
  | [] => rfl
  | [r] => rfl
  | r :: r2 :: rs => by
    simp [classifyRows, classifyRows_ended sid hlen hext jc (r2 :: rs)]

/-- the cells of a row agree with the abstract line: it belongs to search `sid`, its `job_id` cell
(position `jc`) is the decimal text of its id, no cell is the text `job_id`, and it has as many cells
as the header (`hlen`, flag `e`) — or one less when it was appended after a rewrite -/
def RowConsistent (sid hlen : Nat) (e : Bool) (jc : Nat) (l : CLine) : Prop :=
  ∃ id e', l.line = .row ⟨sid, id⟩ e' ∧ (e' = true → e = true) ∧ l.cells.contains jobIdName = false ∧
    idOfRec jc l.cells = some id ∧
    (if e = true ∧ e' = false then l.cells.length + 1 = hlen else l.cells.length = hlen)

/-- header line first (its cells name the columns, `job_id` among them, `pareto_efficient` last
iff the line is `ext`), then consistent rows -/
def Consistent (sid : Nat) (cl : List CLine) : Prop :=
  ∃ h rows e jc, cl = h :: rows ∧ h.line = .header e ∧ colIdx jobIdName h.cells = some jc ∧
    isExtRec h.cells = e ∧ ∀ l ∈ rows, RowConsistent sid h.cells.length e jc l

theorem colIdx_some_ne_nil {name : Text} {r : List Text} {k : Nat} (h : colIdx name r = some k) :
    r ≠ [] := by
  intro hr; subst hr; simp [colIdx] at h

theorem idOfRec_some_ne_nil {jc : Nat} {r : List Text} {k : Nat} (h : idOfRec jc r = some k) :
    r ≠ [] := by
  intro hr; subst hr; simp [idOfRec] at h

theorem classify_consistent {sid hlen : Nat} {e : Bool} {jc : Nat} {l : CLine}
    (h : RowConsistent sid hlen e jc l) : classify sid hlen e jc true l.cells = l.line := by
  obtain ⟨id, e', hl, hee, hno, hid, hlen'⟩ := h
  unfold classify
  rw [hno, hid, hl]
  cases e <;> cases e' <;> simp_all
  omega

theorem Consistent.cells_ne_nil {sid : Nat} {cl : List CLine} (h : Consistent sid cl) :
    ∀ r ∈ cl.map (·.cells), r ≠ [] := by
  obtain ⟨hd, rows, e, jc, rfl, _, hjc, _, hr⟩ := h
  intro r hr'
  simp only [List.map_cons, List.mem_cons, List.mem_map] at hr'
  rcases hr' with rfl | ⟨l, hl, rfl⟩
  · exact colIdx_some_ne_nil hjc
  · obtain ⟨id, e', _, _, _, hid, _⟩ := hr l hl
    exact idOfRec_some_ne_nil hid

theorem abstractRecs_consistent {sid : Nat} {cl : List CLine} (h : Consistent sid cl) :
    abstractRecs sid true (cl.map (·.cells)) = cl.map (·.line) := by
  obtain ⟨hd, rows, e, jc, rfl, hh, hjc, he, hr⟩ := h
  simp only [List.map_cons, abstractRecs, hjc, Bool.not_true, Bool.and_false, Bool.false_eq_true,
    if_false, he, hh, classifyRows_ended]
  congr 1
  rw [List.map_map]
  apply List.map_congr_left
  intro l hl
  exact classify_consistent (hr l hl)

/-- the bytes of a consistent table, every line written in the `\r\n` dialect, read back to the
cells, record by record, and abstract to the lines -/
theorem bytes_consistent {sid : Nat} {cl : List CLine} (h : Consistent sid cl) :
    parseFile (bytesOf crlf cl) = cl.map (·.cells) ∧ abstract sid (bytesOf crlf cl) = cl.map (·.line) := by
  have hne := h.cells_ne_nil
  refine ⟨by rw [bytesOf_crlf]; exact parse_renderFile _ hne, ?_⟩
  unfold abstract
  rw [bytesOf_crlf, endsBetweenRecords_renderFile _ hne, records_renderFile _ hne]
  exact abstractRecs_consistent h

/-! ### the `\n` dialect (pandas' default, before the repair): harmless without carriage returns -/

theorem any_special_lf : ∀ s : Text, '\r' ∉ s → s.any (isSpecialLt lf) = s.any isSpecial
  | [], _ => rfl
  | c :: s, h => by
    have hne : c ≠ '\r' := fun e => h (by simp [e])
    have ih := any_special_lf s (fun hs => h (List.mem_cons_of_mem _ hs))
    rw [List.any_cons, List.any_cons, ih]
    congr 1
    simp [isSpecialLt, isSpecial, lf, hne, Bool.or_assoc, Lean.Grind.beq_eq_decide_eq]

theorem quoteCellLt_lf {s : Text} (h : '\r' ∉ s) : quoteCellLt lf s = quoteCell s := by
  simp [quoteCellLt, quoteCell, needsQuote, any_special_lf s h]

theorem renderFieldsLt_lf : ∀ cells : List Text, (∀ s ∈ cells, '\r' ∉ s) →
    renderFieldsLt lf cells = renderFields cells
  | [], _ => rfl
  | [f], h => by simp [renderFieldsLt, renderFields, quoteCellLt_lf (h f (by simp))]
  | f :: g :: r, h => by
    simp [renderFieldsLt, renderFields, quoteCellLt_lf (h f (by simp)),
      renderFieldsLt_lf (g :: r) (fun s hs => h s (List.mem_cons_of_mem _ hs))]

/-- the last cell of a record ended by a bare line feed -/
theorem cell_eol_lf (row : List Text) (s r' : Text) :
    parse .startField [] row (quoteCell s ++ '\n' :: r') = (row ++ [s]) :: parse .startRecord [] [] r' := by
  unfold quoteCell
  by_cases hq : needsQuote s = true
  · have hch : ('"' : Char) ≠ '\r' ∧ ('"' : Char) ≠ '\n' := by decide
    simp only [hq, if_true, List.cons_append, List.append_assoc, parse, hch.1, hch.2, if_false,
      List.nil_append]
    rw [parse_inQuoted_escape]
    simp [parse]
  · have hq' : needsQuote s = false := by simpa using hq
    simp only [hq', Bool.false_eq_true, if_false]
    cases s with
    | nil => simp [parse]
    | cons c s =>
      have hall := needsQuote_false hq'
      obtain ⟨h1, h2, h3, h4⟩ := isSpecial_false (hall c (by simp))
      simp only [List.cons_append, parse, h1, h2, h3, h4, if_false]
      rw [parse_inField_plain row ('\n' :: r') s [c] (fun d hd => hall d (by simp [hd]))]
      simp [parse]

theorem single_cell_eol_lf (s r' : Text) (hs : s ≠ []) :
    parse .startRecord [] [] (quoteCell s ++ '\n' :: r') = [s] :: parse .startRecord [] [] r' := by
  unfold quoteCell
  by_cases hq : needsQuote s = true
  · have hch : ('"' : Char) ≠ '\r' ∧ ('"' : Char) ≠ '\n' := by decide
    simp only [hq, if_true, List.cons_append, List.append_assoc, parse, hch.1, hch.2, if_false,
      List.nil_append]
    rw [parse_inQuoted_escape]
    simp [parse]
  · have hq' : needsQuote s = false := by simpa using hq
    simp only [hq', Bool.false_eq_true, if_false]
    cases s with
    | nil => exact absurd rfl hs
    | cons c s =>
      have hall := needsQuote_false hq'
      obtain ⟨h1, h2, h3, h4⟩ := isSpecial_false (hall c (by simp))
      simp only [List.cons_append, parse, h1, h2, h3, h4, if_false]
      rw [parse_inField_plain [] ('\n' :: r') s [c] (fun d hd => hall d (by simp [hd]))]
      simp [parse]

theorem fields_eol_lf (r' : Text) :
    ∀ (cells : List Text) (g : Text) (row : List Text),
      parse .startField [] row (renderFields (g :: cells) ++ '\n' :: r')
        = (row ++ g :: cells) :: parse .startRecord [] [] r'
  | [], g, row => by simp [renderFields, cell_eol_lf]
  | g2 :: cells, g, row => by
    have ih := fields_eol_lf r' cells g2 (row ++ [g])
    simp only [renderFields, List.append_assoc, List.cons_append]
    rw [cell_comma, ih]; simp

/-- one record written in the `\n` dialect, none of its cells holding a carriage return -/
theorem parse_renderLineLt_lf (cells : List Text) (hne : cells ≠ []) (hcr : ∀ s ∈ cells, '\r' ∉ s)
    (r' : Text) :
    parse .startRecord [] [] (renderLineLt lf cells ++ r') = cells :: parse .startRecord [] [] r' := by
  match cells, hne, hcr with
  | [[]], _, _ =>
    have : ('"' : Char) ≠ '\r' ∧ ('"' : Char) ≠ '\n' ∧ ('\n' : Char) ≠ '"' ∧ ('\n' : Char) ≠ ',' := by decide
    simp [renderLineLt, lf, parse, this.1, this.2.1, this.2.2.1, this.2.2.2]
  | [c :: s], _, hcr =>
    have : renderLineLt lf [c :: s] = quoteCell (c :: s) ++ ['\n'] := by
      simp [renderLineLt, renderFieldsLt, lf, ← quoteCellLt_lf (hcr (c :: s) (by simp))]
    rw [this, List.append_assoc]
    exact single_cell_eol_lf (c :: s) r' (by simp)
  | s :: g :: rest, _, hcr =>
    have : renderLineLt lf (s :: g :: rest) = quoteCell s ++ ',' :: (renderFields (g :: rest) ++ ['\n']) := by
      have h1 := renderFieldsLt_lf (s :: g :: rest) hcr
      have h2 : renderLineLt lf (s :: g :: rest) = renderFieldsLt lf (s :: g :: rest) ++ lf := by
        cases s <;> rfl
      rw [h2, h1]
      simp [renderFields, lf]
    rw [this]
    simp only [List.append_assoc, List.cons_append]
    rw [first_cell_comma]
    have := fields_eol_lf r' rest g [s]
    simpa using this

/-- a file whose rewritten lines were written in the `\n` dialect reads back to its cells as long as
no cell of a rewritten line holds a carriage return (the lines appended by the evaluator may) -/
theorem parse_bytesOf_lf :
    ∀ (cl : List CLine), (∀ l ∈ cl, l.cells ≠ []) →
      (∀ l ∈ cl, l.line.rewritten = true → ∀ s ∈ l.cells, '\r' ∉ s) →
      parseFile (bytesOf lf cl) = cl.map (·.cells)
  | [], _, _ => rfl
  | l :: cl, hne, hcr => by
    have ih := parse_bytesOf_lf cl (fun x hx => hne x (by simp [hx])) (fun x hx => hcr x (by simp [hx]))
    unfold parseFile bytesOf at ih ⊢
    simp only [List.flatMap_cons, List.map_cons]
    by_cases hw : l.line.rewritten = true
    · have : lineText lf l = renderLineLt lf l.cells := by simp [lineText, hw]
      rw [this, parse_renderLineLt_lf l.cells (hne l (by simp)) (hcr l (by simp) hw), ih]
    · have : lineText lf l = renderLine l.cells := by simp [lineText, hw]
      rw [this, parse_renderLine l.cells (hne l (by simp)), ih]

/-! ### the cells read back -/

/-- among elements with pairwise distinct keys at most one has the key `k` -/
theorem filter_key_nodup {α : Type} (key : α → Option Nat) (k : Nat) :
    ∀ xs : List α, (xs.map key).Nodup →
      xs.filter (fun x => key x == some k) = [] ∨
        ∃ x ∈ xs, key x = some k ∧ xs.filter (fun x => key x == some k) = [x]
  | [], _ => .inl rfl
  | x :: xs, h => by
    rw [List.map_cons, List.nodup_cons] at h
    by_cases hx : key x = some k
    · right
      refine ⟨x, by simp, hx, ?_⟩
      have hnone : xs.filter (fun y => key y == some k) = [] := by
        apply List.filter_eq_nil_iff.2
        intro y hy hk
        have hk' : key y = some k := by simpa using hk
        exact h.1 (by rw [hx, ← hk']; exact List.mem_map_of_mem hy)
      simp [hx, hnone]
    · have hx' : (key x == some k) = false := by simpa using hx
      rcases filter_key_nodup key k xs h.2 with h0 | ⟨y, hy, hk, hf⟩
      · left; simp [hx', h0]
      · right; exact ⟨y, List.mem_cons_of_mem _ hy, hk, by simp [hx', hf]⟩

/-- the cell check accepts the model's bytes for every expectation list that tells the truth about
the rows (job ids pairwise distinct, as inside one search) -/
theorem cellsOk_consistent {sid : Nat} {h : CLine} {rows : List CLine}
    (hc : Consistent sid (h :: rows)) {jc : Nat} (hjc : colIdx jobIdName h.cells = some jc)
    (hnd : (rows.map (fun l => idOfRec jc l.cells)).Nodup) (exp : List Expect)
    (hexp : ∀ e ∈ exp, ∀ l ∈ rows, idOfRec jc l.cells = some e.id →
      ∀ p ∈ e.cells, lookupByName h.cells l.cells p.1 = some p.2) :
    cellsOk (bytesOf crlf (h :: rows)) exp = true := by
  have hne := hc.cells_ne_nil
  unfold cellsOk
  rw [bytesOf_crlf, records_renderFile _ hne]
  simp only [List.map_cons, cellsOkRecs, hjc, List.all_eq_true]
  intro e he
  unfold expectOk
  have hnd' : ((rows.map (·.cells)).map (idOfRec jc)).Nodup := by
    rw [List.map_map]; exact hnd
  rcases filter_key_nodup (idOfRec jc) e.id (rows.map (·.cells)) hnd' with h0 | ⟨r, hr, hk, hf⟩
  · rw [h0]
  · rw [hf]
    simp only [List.all_eq_true, beq_iff_eq]
    intro p hp
    obtain ⟨l, hl, rfl⟩ := List.mem_map.1 hr
    exact hexp e he l hl hk p hp

end DH.Files
